(* Block lemmas for the relative and file states of the parser model:
     blk_relative (Relative), blk_relative_slash (RelativeSlash), blk_file (File),
     blk_file_slash (FileSlash), blk_file_host (FileHost, also under a state override),
     blk_nosave_exit (identity when need_save = true).
   Each lemma has the form [blk_sound idna blk st P] of Proofs/ParserSim.v (with the reading
   [flow_url] of a flow into Query / Fragment: the machine has already set the empty
   query / fragment). *)
From Upa Require Import Base.Prelude Spec.CodePoints Spec.Utf Spec.Percent Spec.Ip Spec.Url Impl.Tables Impl.Parser
  Proofs.ParserSim Proofs.SimBase.
From Coq Require Import Lia ZArith ZifyBool ZifyN.
Local Open Scope N_scope.

(* ------------------------------------------------------------------------------------ *)
(* small facts                                                                          *)
(* ------------------------------------------------------------------------------------ *)

Lemma rf_str_eqb_true a b : str_eqb a b = true -> a = b.
Proof.
  revert b. induction a as [|x a IH]; intros [|y b] H; cbn [str_eqb] in H; try discriminate; [reflexivity|].
  apply andb_prop in H. destruct H as [Hx Hr]. apply N.eqb_eq in Hx. apply IH in Hr. subst. reflexivity.
Qed.

Lemma rf_set_scheme_same u : set_scheme u (scheme u) = u.
Proof. destruct u; reflexivity. Qed.

(* the two ways the drive-letter look-ahead is written *)
Lemma starts_with_windows_drive_eq s : starts_with_windows_drive s = starts_with_windows_drive_letter s.
Proof.
  destruct s as [|c1 [|c2 [|c3 rest]]]; cbn [starts_with_windows_drive starts_with_windows_drive_letter]; try reflexivity.
  - unfold is_windows_drive. rewrite andb_true_r. reflexivity.
  - unfold is_windows_drive, is_special_authority_end_char, is_authority_end_char.
    destruct (is_ascii_alpha c1 && ((c2 =? 58) || (c2 =? 124))); [rewrite andb_true_r; cbn [andb]|rewrite andb_false_r; reflexivity].
    destruct (c3 =? 47), (c3 =? 63), (c3 =? 35), (c3 =? 92); reflexivity.
Qed.

Lemma is_windows_drive_letter_eq auth :
  match auth with [a; b] => is_windows_drive a b | _ => false end = is_windows_drive_letter auth.
Proof. destruct auth as [|a [|b [|x l]]]; reflexivity. Qed.

(* splitting at the first character satisfying P *)
Lemma break_at_spec P p :
  p = fst (break_at P p) ++ snd (break_at P p) /\
  Forall (fun x => P x = false) (fst (break_at P p)) /\
  match snd (break_at P p) with [] => True | d :: _ => P d = true end.
Proof.
  unfold break_at, span. cbn [fst snd].
  induction p as [|x p IH]; cbn [take_while drop_while].
  - repeat split. constructor.
  - destruct (P x) eqn:Hx; cbn [negb].
    + repeat split; [constructor|exact Hx].
    + destruct IH as (IH1 & IH2 & IH3). repeat split.
      * cbn [app]. f_equal. exact IH1.
      * constructor; assumption.
      * exact IH3.
Qed.

Lemma res_eq_sym ov a b : res_eq ov a b -> res_eq ov b a.
Proof.
  destruct a, b; cbn [res_eq]; try tauto; try (intro; subst; reflexivity).
  intros [H|H]; [left; exact H|right; symmetry; exact H].
Qed.

(* ------------------------------------------------------------------------------------ *)
(* stepping the big-step relation from block entry states                               *)
(* ------------------------------------------------------------------------------------ *)
Section Blocks.
Variable idna : list N -> option (list N).

Section Mech.
Variable input : str.
Variable base : option url.
Variable ov : option pstate.
Notation stepf := (Spec.Url.step idna input base ov).
Notation evalf := (eval idna input base ov).

(* "set state to st', decrease pointer by 1": the machine re-reads the same code point in st' *)
Lemma eval_goto_dec st p u at_ pw st' u' r :
  is_suffix input p ->
  stepf (at_state input st p u at_ pw) = Cont (mk_m st' u' [] at_ false pw (pointer_of input p - 1)%Z) ->
  evalf (at_state input st' p u' at_ pw) r -> evalf (at_state input st p u at_ pw) r.
Proof.
  intros Hs Hst He. eapply E_cont; [exact Hst | |].
  - cbn [m_pointer]. pose proof (pointer_of_range input p Hs). lia.
  - unfold inc_pointer, with_pointer. cbn [m_state m_url m_buffer m_at m_brackets m_pwtoken m_pointer].
    replace (pointer_of input p - 1 + 1)%Z with (pointer_of input p) by lia. exact He.
Qed.

(* "set state to st'": the driver moves on to the next code point *)
Lemma eval_advance st ch p u at_ pw st' u' r :
  is_suffix input (ch :: p) ->
  stepf (at_state input st (ch :: p) u at_ pw) = Cont (mk_m st' u' [] at_ false pw (pointer_of input (ch :: p))) ->
  evalf (at_state input st' p u' at_ pw) r -> evalf (at_state input st (ch :: p) u at_ pw) r.
Proof.
  intros Hs Hst He. eapply E_cont; [exact Hst | |].
  - cbn [m_pointer]. apply pointer_of_lt. exact Hs.
  - unfold inc_pointer, with_pointer. cbn [m_state m_url m_buffer m_at m_brackets m_pwtoken m_pointer].
    rewrite <- pointer_of_cons. exact He.
Qed.

(* the machine stops at EOF with the record u' *)
Lemma eval_eof st u at_ pw m' :
  stepf (at_state input st [] u at_ pw) = Cont m' -> m_pointer m' = pointer_of input [] ->
  evalf (at_state input st [] u at_ pw) (POk (m_url m')).
Proof.
  intros Hst Hp. eapply E_done; [exact Hst|]. rewrite Hp, pointer_of_nil. lia.
Qed.

Lemma eval_cont_inv m m' r :
  evalf m r -> stepf m = Cont m' -> (m_pointer m' < Z.of_nat (length input))%Z -> evalf (inc_pointer m') r.
Proof.
  intros He Hst Hp. inversion He as [m0 Hs|m0 u0 Hs|m0 m2 Hs Hp2|m0 m2 r0 Hs Hp2 He2]; subst;
    rewrite Hst in Hs; try discriminate; inversion Hs; subst; [lia|exact He2].
Qed.

End Mech.

Ltac mstep :=
  unfold step, at_state;
  cbn [m_state m_url m_buffer m_at m_brackets m_pwtoken m_pointer].
Ltac mnorm :=
  cbn [goto goto_dec dec_pointer inc_pointer with_state with_url with_buffer with_pointer
       m_state m_url m_buffer m_at m_brackets m_pwtoken m_pointer is_c is_eof is_none is_some negb andb orb].

Ltac mnorm_in H :=
  cbn [goto goto_dec dec_pointer inc_pointer with_state with_url with_buffer with_pointer
       m_state m_url m_buffer m_at m_brackets m_pwtoken m_pointer is_c is_eof is_none is_some negb andb orb] in H.

(* use the hypothesis on a successor flow [Go st' p' u'] *)
Ltac use_flow H Hs' at_ pw :=
  let r' := fresh "r'" in let He := fresh "He" in let Hr := fresh "Hr" in
  cbn [eval_flow] in H; specialize (H Hs' at_ pw); destruct H as (r' & He & Hr);
  exists r'; split; [|exact Hr].

(* ------------------------------------------------------------------------------------ *)
(* blk_nosave_exit                                                                      *)
(* ------------------------------------------------------------------------------------ *)
Definition P_save (c : ctx) (u : url) : Prop := c_save c = true.

Lemma blk_nosave_exit_sound st : blk_sound idna blk_nosave_exit st P_save.
Proof.
  intros c input p u r HP H. unfold P_save in HP. cbn [blk_nosave_exit] in H. rewrite HP in H. exact H.
Qed.

(* ------------------------------------------------------------------------------------ *)
(* Relative                                                                             *)
(* ------------------------------------------------------------------------------------ *)
(* the url under construction has no query yet; the base is not a file URL (the no-scheme
   state sends file bases to the file state; a special scheme equal to the base's is not file) *)Definition P_relative (c : ctx) (u : url) : Prop :=
  c_save c = true /\ query u = None /\ (forall b, c_base c = Some b -> is_file b = false).

(* "set url's query to null, shorten url's path" on the copy = remove the last item of the base's path *)
Lemma relative_shorten u b :
  is_file b = false -> query u = None ->
  shorten_path (set_query (set_query (set_path (set_port (set_host (set_password (set_username
     (set_scheme u (scheme b)) (username b)) (password b)) (uhost b)) (port b)) (path b)) (query b)) None)
  = copy_path (copy_userinfo_host_port (set_scheme u (scheme b)) b) b PathRemLast.
Proof.
  intros Hf Hq. unfold is_file in Hf. destruct u as [s un pw h po pa q f]. cbn [query] in Hq. subst q.
  unfold shorten_path, copy_path, copy_userinfo_host_port, ser_rem_last, is_file.
  cbn [path scheme username password uhost port query fragment set_scheme set_username set_password set_host set_port set_path set_query].
  destruct (path b) as [o|l]; [reflexivity|].
  destruct l as [|x [|y l]]; cbn [path scheme username password uhost port query fragment set_scheme set_username set_password set_host set_port set_path set_query]; try reflexivity.
  rewrite Hf. reflexivity.
Qed.

Lemma blk_relative_sound : blk_sound idna blk_relative Relative P_relative.
Proof.
  intros c input p u r (Hsave & Hq & Hb) H. cbn [eval_flow flow_url]. intros Hsuf at_ pw.
  cbn [blk_relative] in H. unfold save in H. rewrite Hsave in H.
  destruct (c_base c) as [b|] eqn:Hbase.
  2:{ cbn [eval_flow] in H. exists (PFail u). split; [|apply res_eq_sym; exact H].
      change u with (m_url (at_state input Relative p u at_ pw)) at 2.
      apply E_fail. mstep. reflexivity. }
  specialize (Hb b eq_refl).
  destruct p as [|ch p'].
  - (* EOF: everything is copied from the base *)
    cbn [eval_flow] in H.
    eexists. split.
    + eapply eval_eof; [mstep; rewrite char_at_eof; mnorm; rewrite andb_false_r; reflexivity | reflexivity].
    + cbn [m_url]. destruct r as [y|y|]; cbn [res_eq] in H |- *; try contradiction. subst y. reflexivity.
  - pose proof (suffix_tail _ _ _ Hsuf) as Hsuf'.
    destruct (ch =? 47) eqn:E47.
    { use_flow H Hsuf' at_ pw. cbn [flow_url] in He.
      eapply eval_advance; [exact Hsuf| |exact He].
      mstep. rewrite (char_at_suffix _ _ _ Hsuf). mnorm. rewrite E47. reflexivity. }
    destruct (ch =? 63) eqn:E63.
    { use_flow H Hsuf' at_ pw. cbn [flow_url] in He.
      eapply eval_advance; [exact Hsuf| |exact He].
      mstep. rewrite (char_at_suffix _ _ _ Hsuf). mnorm. apply N.eqb_eq in E63. subst ch.
      cbn [N.eqb Pos.eqb]. rewrite andb_false_r. reflexivity. }
    destruct (ch =? 35) eqn:E35.
    { use_flow H Hsuf' at_ pw. cbn [flow_url] in He.
      eapply eval_advance; [exact Hsuf| |exact He].
      mstep. rewrite (char_at_suffix _ _ _ Hsuf). mnorm. apply N.eqb_eq in E35. subst ch.
      cbn [N.eqb Pos.eqb]. rewrite andb_false_r. reflexivity. }
    destruct ((ch =? 92) && is_special (set_scheme u (scheme b))) eqn:E92.
    { use_flow H Hsuf' at_ pw. cbn [flow_url] in He.
      eapply eval_advance; [exact Hsuf| |exact He].
      mstep. rewrite (char_at_suffix _ _ _ Hsuf). mnorm. rewrite E47. rewrite andb_comm, E92. reflexivity. }
    (* any other code point: copy, drop the query, shorten the path, re-read in the path state *)
    use_flow H Hsuf at_ pw. cbn [flow_url] in He.
    eapply eval_goto_dec; [exact Hsuf| |exact He].
    mstep. rewrite (char_at_suffix _ _ _ Hsuf). mnorm. rewrite E47, E63, E35. rewrite andb_comm, E92.
    rewrite (relative_shorten u b Hb Hq). reflexivity.
Qed.

(* ------------------------------------------------------------------------------------ *)
(* RelativeSlash                                                                        *)
(* ------------------------------------------------------------------------------------ *)
(* matches on code point literals, as tests *)
Ltac lit_cases ch :=
  let q := fresh "q" in
  destruct ch as [|q]; [reflexivity|];
  do 7 (try (destruct q as [q|q|]; try reflexivity)).

Lemma blk_relative_slash_nf c p u :
  blk_relative_slash c (Go RelativeSlash p u) =
  match c_base c with
  | None => Stop (PFail u)
  | Some b =>
    match p with
    | [] => Go Path p (save c u (copy_userinfo_host_port u b))
    | ch :: p' =>
        if ch =? 47 then Go (if is_special u then SpecialAuthorityIgnoreSlashes else Authority) p' u
        else if ch =? 92 then
          (if is_special u then Go SpecialAuthorityIgnoreSlashes p' u
           else Go Path p (save c u (copy_userinfo_host_port u b)))
        else Go Path p (save c u (copy_userinfo_host_port u b))
    end
  end.
Proof.
  cbn [blk_relative_slash]. destruct (c_base c) as [b|]; [|reflexivity].
  destruct p as [|ch p']; [reflexivity|]. lit_cases ch.
Qed.

(* the state is entered only from the relative state, which has checked the base *)
Definition P_relative_slash (c : ctx) (u : url) : Prop :=
  c_save c = true /\ c_base c <> None.

Lemma blk_relative_slash_sound : blk_sound idna blk_relative_slash RelativeSlash P_relative_slash.
Proof.
  intros c input p u r (Hsave & Hbase) H. cbn [eval_flow flow_url]. intros Hsuf at_ pw.
  rewrite blk_relative_slash_nf in H. unfold save in H. rewrite Hsave in H.
  destruct (c_base c) as [b|] eqn:Eb; [clear Hbase|congruence].
  destruct p as [|ch p'].
  - use_flow H Hsuf at_ pw. cbn [flow_url] in He.
    eapply eval_goto_dec; [exact Hsuf| |exact He].
    mstep. rewrite char_at_eof. mnorm. rewrite andb_false_r. reflexivity.
  - pose proof (suffix_tail _ _ _ Hsuf) as Hsuf'.
    destruct (ch =? 47) eqn:E47.
    { destruct (is_special u) eqn:Esp.
      - use_flow H Hsuf' at_ pw. cbn [flow_url] in He.
        eapply eval_advance; [exact Hsuf| |exact He].
        mstep. rewrite (char_at_suffix _ _ _ Hsuf). mnorm. rewrite Esp, E47. reflexivity.
      - use_flow H Hsuf' at_ pw. cbn [flow_url] in He.
        eapply eval_advance; [exact Hsuf| |exact He].
        mstep. rewrite (char_at_suffix _ _ _ Hsuf). mnorm. rewrite Esp, E47. reflexivity. }
    destruct (ch =? 92) eqn:E92.
    { destruct (is_special u) eqn:Esp.
      - use_flow H Hsuf' at_ pw. cbn [flow_url] in He.
        eapply eval_advance; [exact Hsuf| |exact He].
        mstep. rewrite (char_at_suffix _ _ _ Hsuf). mnorm. rewrite Esp, E47, E92. reflexivity.
      - use_flow H Hsuf at_ pw. cbn [flow_url] in He.
        eapply eval_goto_dec; [exact Hsuf| |exact He].
        mstep. rewrite (char_at_suffix _ _ _ Hsuf). mnorm. rewrite Esp, E47. reflexivity. }
    use_flow H Hsuf at_ pw. cbn [flow_url] in He.
    eapply eval_goto_dec; [exact Hsuf| |exact He].
    mstep. rewrite (char_at_suffix _ _ _ Hsuf). mnorm. rewrite E47, E92. rewrite andb_false_r. reflexivity.
Qed.

(* ------------------------------------------------------------------------------------ *)
(* File                                                                                 *)
(* ------------------------------------------------------------------------------------ *)
Definition file_u0 (c : ctx) (u : url) : url :=
  let u1 := if is_file u then u else set_scheme u s_file in save c u1 (set_host u1 (Some HEmpty)).

Lemma blk_file_nf c p u :
  blk_file c (Go File p u) =
  let u0 := file_u0 c u in
  match p with
  | [] =>
      match c_base c with
      | Some b =>
          if is_file b then Stop (POk (save c u0 (set_query (copy_path (set_host u0 (uhost b)) b PathKeep) (query b))))
          else Go Path p u0
      | None => Go Path p u0
      end
  | ch :: p' =>
      if (ch =? 47) || (ch =? 92) then Go FileSlash p' u0
      else
        match c_base c with
        | Some b =>
            if is_file b then
              if ch =? 63 then Go Query p' (save c u0 (copy_path (set_host u0 (uhost b)) b PathKeep))
              else if ch =? 35 then Go Fragment p' (save c u0 (set_query (copy_path (set_host u0 (uhost b)) b PathKeep) (query b)))
              else if negb (starts_with_windows_drive p)
                   then Go Path p (save c u0 (copy_path (set_host u0 (uhost b)) b PathShorten))
                   else Go Path p (save c u0 (set_host u0 (uhost b)))
            else Go Path p u0
        | None => Go Path p u0
        end
  end.
Proof.
  cbn [blk_file]. unfold file_u0. cbn zeta.
  destruct p as [|ch p']; [reflexivity|]. lit_cases ch.
Qed.

Lemma file_u0_eq c u : c_save c = true -> file_u0 c u = set_host (set_scheme u s_file) (Some HEmpty).
Proof.
  intro Hs. unfold file_u0, save. rewrite Hs. cbn zeta.
  destruct (is_file u) eqn:E; [|reflexivity].
  unfold is_file in E. apply rf_str_eqb_true in E. rewrite <- E, rf_set_scheme_same. reflexivity.
Qed.

(* "set url's query to null, shorten url's path" after copying the base's path = the
   shorten rule evaluated on the (file) base *)
Lemma file_shorten X b :
  is_file b = true -> scheme X = s_file -> query X = None ->
  shorten_path (set_query (set_query (set_path X (path b)) (query b)) None) = copy_path X b PathShorten.
Proof.
  intros Hb Hs Hq. destruct X as [s un pw h po pa q f]. cbn [scheme query] in Hs, Hq. subst s q.
  unfold shorten_path, copy_path, is_file in *.
  cbn [path scheme username password uhost port query fragment set_path set_query].
  destruct (path b) as [o|l]; [reflexivity|].
  destruct l as [|x [|y l]]; cbn [path scheme username password uhost port query fragment set_path set_query removelast]; try reflexivity.
  rewrite Hb. change (str_eqb s_file s_file) with true. cbn [andb].
  destruct x as [|a [|d [|e x]]]; reflexivity.
Qed.

Lemma file_drive X b :
  query X = None -> path X = PList [] ->
  set_path (set_query (set_query (set_path X (path b)) (query b)) None) (PList []) = X.
Proof.
  intros Hq Hp. destruct X as [s un pw h po pa q f]. cbn [query path] in Hq, Hp. subst q pa. reflexivity.
Qed.

(* when the base is a file URL the url under construction still has no query and an empty path *)
Definition P_file (c : ctx) (u : url) : Prop :=
  c_save c = true /\
  (forall b, c_base c = Some b -> is_file b = true -> query u = None /\ path u = PList []).

Lemma blk_file_sound : blk_sound idna blk_file File P_file.
Proof.
  intros c input p u r (Hsave & Hu) H. cbn [eval_flow flow_url]. intros Hsuf at_ pw.
  rewrite blk_file_nf in H. cbn zeta in H. rewrite (file_u0_eq c u Hsave) in H.
  unfold save in H. rewrite Hsave in H.
  set (U0 := set_host (set_scheme u s_file) (Some HEmpty)) in *.
  destruct p as [|ch p'].
  - (* EOF *)
    destruct (c_base c) as [b|] eqn:Eb.
    + destruct (is_file b) eqn:Efb.
      * cbn [eval_flow] in H. eexists. split.
        -- eapply eval_eof; [mstep; rewrite char_at_eof; mnorm; unfold is_file in Efb; rewrite Efb; mnorm; reflexivity | reflexivity].
        -- cbn [m_url]. destruct r as [y|y|]; cbn [res_eq] in H |- *; try contradiction. subst y. reflexivity.
      * use_flow H Hsuf at_ pw. cbn [flow_url] in He.
        eapply eval_goto_dec; [exact Hsuf| |exact He].
        mstep. rewrite char_at_eof. mnorm. unfold is_file in Efb. rewrite Efb. reflexivity.
    + use_flow H Hsuf at_ pw. cbn [flow_url] in He.
      eapply eval_goto_dec; [exact Hsuf| |exact He].
      mstep. rewrite char_at_eof. mnorm. reflexivity.
  - pose proof (suffix_tail _ _ _ Hsuf) as Hsuf'.
    destruct ((ch =? 47) || (ch =? 92)) eqn:Esl.
    { use_flow H Hsuf' at_ pw. cbn [flow_url] in He.
      eapply eval_advance; [exact Hsuf| |exact He].
      mstep. rewrite (char_at_suffix _ _ _ Hsuf). mnorm. rewrite Esl. reflexivity. }
    destruct (c_base c) as [b|] eqn:Eb.
    2:{ use_flow H Hsuf at_ pw. cbn [flow_url] in He.
        eapply eval_goto_dec; [exact Hsuf| |exact He].
        mstep. rewrite (char_at_suffix _ _ _ Hsuf). mnorm. rewrite Esl. reflexivity. }
    destruct (is_file b) eqn:Efb.
    2:{ use_flow H Hsuf at_ pw. cbn [flow_url] in He.
        eapply eval_goto_dec; [exact Hsuf| |exact He].
        mstep. rewrite (char_at_suffix _ _ _ Hsuf). mnorm. rewrite Esl. unfold is_file in Efb. rewrite Efb. reflexivity. }
    destruct (Hu b eq_refl Efb) as (Hq & Hp).
    pose proof Efb as Efb'. unfold is_file in Efb'.
    destruct (ch =? 63) eqn:E63.
    { use_flow H Hsuf' at_ pw. cbn [flow_url] in He.
      eapply eval_advance; [exact Hsuf| |exact He].
      mstep. rewrite (char_at_suffix _ _ _ Hsuf). mnorm. rewrite Esl, Efb', E63. reflexivity. }
    destruct (ch =? 35) eqn:E35.
    { use_flow H Hsuf' at_ pw. cbn [flow_url] in He.
      eapply eval_advance; [exact Hsuf| |exact He].
      mstep. rewrite (char_at_suffix _ _ _ Hsuf). mnorm. rewrite Esl, Efb', E63, E35. reflexivity. }
    (* another code point: the Windows drive letter quirk decides whether the base's path is kept *)
    destruct (starts_with_windows_drive (ch :: p')) eqn:Ewd; cbn [negb] in H;
      use_flow H Hsuf at_ pw; cbn [flow_url] in He;
      (eapply eval_goto_dec; [exact Hsuf| |exact He]);
      mstep; rewrite (char_at_suffix _ _ _ Hsuf); mnorm; rewrite Esl, Efb', E63, E35;
      rewrite (from_pointer_suffix _ _ Hsuf), <- starts_with_windows_drive_eq, Ewd; cbn [negb]; fold U0.
    + rewrite (file_drive (set_host U0 (uhost b)) b Hq Hp). reflexivity.
    + rewrite (file_shorten (set_host U0 (uhost b)) b Efb eq_refl Hq). reflexivity.
Qed.

(* ------------------------------------------------------------------------------------ *)
(* FileSlash                                                                            *)
(* ------------------------------------------------------------------------------------ *)
Definition file_slash_u (c : ctx) (p : str) (u : url) : url :=
  match c_base c with
  | Some b =>
    if is_file b && c_save c then
      let u := set_host u (uhost b) in
      if negb (starts_with_windows_drive p) then
        match base_first_segment2 b with
        | Some (a, d) => if is_normalized_windows_drive a d then ser_append_segment u [a; d] else u
        | None => u
        end
      else u
    else u
  | None => u
  end.

(* the Standard's file slash state, "otherwise" branch *)
Definition spec_file_slash_u (base : option url) (p : str) (u : url) : url :=
  match base with
  | Some b =>
    if str_eqb (scheme b) s_file then
      let u := set_host u (uhost b) in
      if negb (starts_with_windows_drive_letter p) then
        match path b with
        | PList (p0 :: _) => if is_normalized_windows_drive_letter p0 then path_append u p0 else u
        | _ => u
        end
      else u
    else u
  | None => u
  end.

Lemma file_slash_u_eq c p u : c_save c = true -> file_slash_u c p u = spec_file_slash_u (c_base c) p u.
Proof.
  intro Hs. unfold file_slash_u, spec_file_slash_u. rewrite Hs.
  destruct (c_base c) as [b|]; [|reflexivity].
  unfold is_file. rewrite andb_true_r. destruct (str_eqb (scheme b) s_file); [|reflexivity].
  cbn zeta. rewrite starts_with_windows_drive_eq.
  destruct (negb (starts_with_windows_drive_letter p)); [|reflexivity].
  unfold base_first_segment2.
  destruct (path b) as [o|[|p0 l]]; try reflexivity.
  destruct p0 as [|a [|d [|e p0]]]; reflexivity.
Qed.

Lemma blk_file_slash_nf c p u :
  blk_file_slash c (Go FileSlash p u) =
  match p with
  | [] => Go Path p (file_slash_u c p u)
  | ch :: p' => if (ch =? 47) || (ch =? 92) then Go FileHost p' u else Go Path p (file_slash_u c p u)
  end.
Proof.
  cbn [blk_file_slash]. unfold file_slash_u.
  destruct p as [|ch p']; [reflexivity|]. lit_cases ch.
Qed.

Lemma blk_file_slash_sound : blk_sound idna blk_file_slash FileSlash P_save.
Proof.
  intros c input p u r Hsave H. unfold P_save in Hsave. cbn [eval_flow flow_url]. intros Hsuf at_ pw.
  rewrite blk_file_slash_nf in H.
  destruct p as [|ch p'].
  - use_flow H Hsuf at_ pw. cbn [flow_url] in He. rewrite (file_slash_u_eq c _ u Hsave) in He.
    eapply eval_goto_dec; [exact Hsuf| |exact He].
    mstep. rewrite char_at_eof. mnorm. rewrite (from_pointer_suffix _ _ Hsuf). reflexivity.
  - pose proof (suffix_tail _ _ _ Hsuf) as Hsuf'.
    destruct ((ch =? 47) || (ch =? 92)) eqn:Esl.
    + use_flow H Hsuf' at_ pw. cbn [flow_url] in He.
      eapply eval_advance; [exact Hsuf| |exact He].
      mstep. rewrite (char_at_suffix _ _ _ Hsuf). mnorm. rewrite Esl. reflexivity.
    + use_flow H Hsuf at_ pw. cbn [flow_url] in He. rewrite (file_slash_u_eq c _ u Hsave) in He.
      eapply eval_goto_dec; [exact Hsuf| |exact He].
      mstep. rewrite (char_at_suffix _ _ _ Hsuf). mnorm. rewrite Esl. rewrite (from_pointer_suffix _ _ Hsuf). reflexivity.
Qed.

(* ------------------------------------------------------------------------------------ *)
(* FileHost                                                                             *)
(* ------------------------------------------------------------------------------------ *)
Section FileHost.
Variable input : str.
Variable base : option url.
Variable ov : option pstate.
Notation stepf := (Spec.Url.step idna input base ov).
Notation evalf := (eval idna input base ov).

Definition fh_end (rest : str) : Prop :=
  match rest with [] => True | d :: _ => is_special_authority_end_char d = true end.

(* the machine appends the code points before the delimiter to the buffer, one per step *)
Lemma file_host_scan u at_ pw auth : forall buf rest r,
  is_suffix input (auth ++ rest) ->
  Forall (fun x => is_special_authority_end_char x = false) auth ->
  evalf (mk_m FileHost u (buf ++ auth) at_ false pw (pointer_of input rest)) r ->
  evalf (mk_m FileHost u buf at_ false pw (pointer_of input (auth ++ rest))) r.
Proof.
  induction auth as [|x auth IH]; intros buf rest r Hsuf Hall He.
  - rewrite app_nil_r in He. exact He.
  - cbn [app] in Hsuf |- *. inversion Hall as [|x0 l0 Hx Hall']; subst.
    unfold is_special_authority_end_char, is_authority_end_char in Hx.
    apply orb_false_elim in Hx. destruct Hx as [Hx E92].
    apply orb_false_elim in Hx. destruct Hx as [Hx E35].
    apply orb_false_elim in Hx. destruct Hx as [E47 E63].
    eapply E_cont.
    + mstep. rewrite (char_at_suffix _ _ _ Hsuf). mnorm. rewrite E47, E92, E63, E35. mnorm. reflexivity.
    + cbn [m_pointer]. apply pointer_of_lt. exact Hsuf.
    + unfold inc_pointer, with_pointer. mnorm. rewrite <- pointer_of_cons.
      apply IH; [exact (suffix_tail _ _ _ Hsuf)|exact Hall'|].
      rewrite <- app_assoc. exact He.
Qed.

(* at the delimiter (or EOF) *)
Lemma file_host_step_end u at_ pw auth rest :
  is_suffix input rest -> fh_end rest ->
  stepf (mk_m FileHost u auth at_ false pw (pointer_of input rest)) =
  if negb (is_some ov) && is_windows_drive_letter auth
  then Cont (mk_m Path u auth at_ false pw (pointer_of input rest - 1)%Z)
  else if str_eqb auth [] then
    (if is_some ov then Ret (set_host u (Some HEmpty))
     else Cont (mk_m PathStart (set_host u (Some HEmpty)) auth at_ false pw (pointer_of input rest - 1)%Z))
  else
    match host_parse idna auth (negb (is_special u)) with
    | None => Fail
    | Some h =>
        if is_some ov then Ret (set_host u (Some (if host_eq_localhost h then HEmpty else h)))
        else Cont (mk_m PathStart (set_host u (Some (if host_eq_localhost h then HEmpty else h))) [] at_ false pw
                        (pointer_of input rest - 1)%Z)
    end.
Proof.
  intros Hsuf Hend. mstep.
  assert (Hc : is_eof (char_at input (pointer_of input rest)) || is_c (char_at input (pointer_of input rest)) 47
               || is_c (char_at input (pointer_of input rest)) 92 || is_c (char_at input (pointer_of input rest)) 63
               || is_c (char_at input (pointer_of input rest)) 35 = true).
  { destruct rest as [|d rest'].
    - rewrite char_at_eof. reflexivity.
    - rewrite (char_at_suffix _ _ _ Hsuf). cbn [is_c is_eof is_none orb]. cbn [fh_end] in Hend.
      unfold is_special_authority_end_char, is_authority_end_char in Hend.
      destruct (d =? 47), (d =? 92), (d =? 63), (d =? 35); try reflexivity; discriminate Hend. }
  rewrite Hc. mnorm.
  destruct (negb (is_some ov) && is_windows_drive_letter auth); [reflexivity|].
  destruct (str_eqb auth []); [destruct (is_some ov); reflexivity|].
  destruct (host_parse idna auth (negb (is_special u))) as [h|]; [|reflexivity].
  destruct (is_some ov); reflexivity.
Qed.

Lemma alpha_not_delim a :
  is_ascii_alpha a = true ->
  (a =? 47) = false /\ (a =? 92) = false /\ (a =? 63) = false /\ (a =? 35) = false /\ path_encode a = false.
Proof.
  unfold is_ascii_alpha, is_ascii_upper_alpha, is_ascii_lower_alpha, path_encode, query_encode, c0_control_encode,
    is_c0_control, in_list. cbn [existsb]. intro H. repeat split; lia.
Qed.

(* the path state run over a Windows drive letter: both code points go to the buffer unchanged *)
Lemma path_reread_drive u at_ pw a b rest r :
  is_suffix input (a :: b :: rest) -> is_windows_drive a b = true ->
  evalf (at_state input Path (a :: b :: rest) u at_ pw) r ->
  evalf (mk_m Path u [a; b] at_ false pw (pointer_of input rest)) r.
Proof.
  intros Hsuf Hwd He. unfold is_windows_drive in Hwd. apply andb_prop in Hwd. destruct Hwd as [Ha Hb].
  destruct (alpha_not_delim a Ha) as (A47 & A92 & A63 & A35 & Aenc).
  pose proof (suffix_tail _ _ _ Hsuf) as Hsuf'.
  assert (Hb' : (b =? 47) = false /\ (b =? 92) = false /\ (b =? 63) = false /\ (b =? 35) = false /\ path_encode b = false).
  { apply orb_prop in Hb. destruct Hb as [Hb|Hb]; apply N.eqb_eq in Hb; subst b; repeat split; reflexivity. }
  destruct Hb' as (B47 & B92 & B63 & B35 & Benc).
  (* first code point *)
  eapply eval_cont_inv in He.
  2:{ mstep. rewrite (char_at_suffix _ _ _ Hsuf). mnorm. rewrite A47, A92, A63, A35.
      rewrite andb_false_r. mnorm. rewrite andb_false_r. mnorm.
      unfold utf8_percent_encode_cp. rewrite Aenc. cbn [app]. reflexivity. }
  2:{ cbn [m_pointer]. apply pointer_of_lt. exact Hsuf. }
  unfold inc_pointer, with_pointer in He. mnorm_in He. rewrite <- pointer_of_cons in He.
  (* second code point *)
  eapply eval_cont_inv in He.
  2:{ mstep. rewrite (char_at_suffix _ _ _ Hsuf'). mnorm. rewrite B47, B92, B63, B35.
      rewrite andb_false_r. mnorm. rewrite andb_false_r. mnorm.
      unfold utf8_percent_encode_cp. rewrite Benc. cbn [app]. reflexivity. }
  2:{ cbn [m_pointer]. apply pointer_of_lt. exact Hsuf'. }
  unfold inc_pointer, with_pointer in He. mnorm_in He. rewrite <- pointer_of_cons in He.
  exact He.
Qed.

End FileHost.

Section FileHostBlock.
(* the library's pre-check and ASCII fast path in front of ICU agree with the host parser
   (proved separately under the ICU laws) *)
Hypothesis Hhost : forall inp opq, (inp <> [] \/ opq = true) -> impl_parse_host idna inp opq = host_parse idna inp opq.

(* any state override (the host / hostname setters run this block on file URLs) or none *)
Lemma blk_file_host_sound : blk_sound idna (blk_file_host idna) FileHost P_save.
Proof.
  intros c input p u r Hsave H. unfold P_save in Hsave. cbn [eval_flow flow_url]. intros Hsuf at_ pw.
  cbn [blk_file_host] in H. unfold save, has_ov in H. rewrite Hsave in H. cbn [negb] in H.
  pose proof (break_at_spec is_special_authority_end_char p) as Hbrk.
  destruct (break_at is_special_authority_end_char p) as [auth rest]. cbn [fst snd] in Hbrk.
  destruct Hbrk as (Hp & Hall & Hend). subst p.
  pose proof (suffix_app _ _ _ Hsuf) as Hsuf'.
  rewrite is_windows_drive_letter_eq in H.
  pose proof (file_host_step_end input (c_base c) (c_override c) u at_ pw auth rest Hsuf' Hend) as Hstep.
  assert (Hscan : forall r', eval idna input (c_base c) (c_override c) (mk_m FileHost u auth at_ false pw (pointer_of input rest)) r' ->
                  eval idna input (c_base c) (c_override c) (at_state input FileHost (auth ++ rest) u at_ pw) r').
  { intros r' He. unfold at_state. apply file_host_scan; [exact Hsuf|exact Hall|exact He]. }
  assert (Hlt : (pointer_of input rest - 1 < Z.of_nat (length input))%Z).
  { pose proof (pointer_of_range input rest Hsuf'). lia. }
  destruct auth as [|a0 auth'].
  - (* empty buffer: empty host *)
    cbn [is_windows_drive_letter] in Hstep. rewrite andb_false_r in Hstep. cbn [str_eqb] in Hstep.
    destruct (is_some (c_override c)) eqn:Eov.
    + cbn [eval_flow] in H. exists (POk (set_host u (Some HEmpty))). split; [|apply res_eq_sym; exact H].
      apply Hscan. apply E_ret. exact Hstep.
    + use_flow H Hsuf at_ pw. cbn [flow_url app] in He.
      apply Hscan. eapply E_cont; [exact Hstep|exact Hlt|].
      unfold inc_pointer, with_pointer. mnorm.
      replace (pointer_of input rest - 1 + 1)%Z with (pointer_of input rest) by lia. exact He.
  - set (auth := a0 :: auth') in *.
    destruct (negb (is_some (c_override c)) && is_windows_drive_letter auth) eqn:Ewd.
    + (* Windows drive letter: it is a path segment, re-read by the path state *)
      use_flow H Hsuf at_ pw. cbn [flow_url] in He.
      apply Hscan. eapply E_cont; [exact Hstep|exact Hlt|].
      unfold inc_pointer, with_pointer. mnorm.
      replace (pointer_of input rest - 1 + 1)%Z with (pointer_of input rest) by lia.
      apply andb_prop in Ewd. destruct Ewd as [_ Ewd].
      subst auth. destruct auth' as [|b0 [|x l]]; cbn [is_windows_drive_letter] in Ewd; try discriminate.
      apply path_reread_drive; [exact Hsuf|exact Ewd|exact He].
    + assert (Hne : str_eqb auth [] = false) by reflexivity. rewrite Hne in Hstep.
      rewrite (Hhost auth (negb (is_special u))) in H by (left; subst auth; discriminate).
      destruct (host_parse idna auth (negb (is_special u))) as [h|].
      * destruct (is_some (c_override c)) eqn:Eov.
        -- cbn [eval_flow] in H. eexists. split; [|apply res_eq_sym; exact H].
           apply Hscan. apply E_ret. exact Hstep.
        -- use_flow H Hsuf' at_ pw. cbn [flow_url] in He.
           apply Hscan. eapply E_cont; [exact Hstep|exact Hlt|].
           unfold inc_pointer, with_pointer. mnorm.
           replace (pointer_of input rest - 1 + 1)%Z with (pointer_of input rest) by lia. exact He.
      * cbn [eval_flow] in H. exists (PFail u). split; [|apply res_eq_sym; exact H].
        apply Hscan.
        change u with (m_url (mk_m FileHost u auth at_ false pw (pointer_of input rest))) at 2.
        apply E_fail. exact Hstep.
Qed.
End FileHostBlock.

(* The entry of the override case: with a state override and a file URL the host state hands
   over to the file host state on the same code point (for the lemma about blk_host). *)
Lemma host_override_to_file_host input base ov st p u at_ pw r :
  st = Host \/ st = Hostname -> is_some ov = true -> is_file u = true -> is_suffix input p ->
  eval idna input base ov (at_state input FileHost p u at_ pw) r ->
  eval idna input base ov (at_state input st p u at_ pw) r.
Proof.
  intros Hst Hov Hf Hsuf He.
  eapply eval_goto_dec; [exact Hsuf| |exact He].
  destruct Hst; subst st; mstep; rewrite Hov, Hf; reflexivity.
Qed.

End Blocks.
