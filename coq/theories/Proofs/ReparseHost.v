(* C02 — reparse, part 1: scanning lemmas, the authority of a serialized record
   (userinfo, host by kind, port) read back by the scan-based parser model. *)
From Upa Require Import Base.Prelude Spec.CodePoints Spec.Utf Spec.Percent Spec.Ip Spec.Url Impl.Tables Impl.Parser.
From Upa Require Import Proofs.TableLemmas Proofs.TablesInst Proofs.SearchParamsProofs Proofs.Ipv4Proofs
  Proofs.Ipv6Base Proofs.Ipv6Ser Proofs.Ipv6Round Proofs.HostProofs
  Proofs.CanonDefs Proofs.CanonStep Proofs.CanonProofs Proofs.ReparseDefs.
From Coq Require Import ZifyBool ZifyN ZifyNat.
Local Open Scope N_scope.

(* ---------------------------------------------------------------------------------- *)
(* scanning                                                                           *)
(* ---------------------------------------------------------------------------------- *)

(* the rest of the text is empty or starts with a unit satisfying p *)
Definition stops (p : N -> bool) (r : str) : Prop := match r with [] => True | x :: _ => p x = true end.

Lemma take_while_app_stops p a r : Forall (fun c => p c = true) a -> stops (fun c => negb (p c)) r ->
  take_while p (a ++ r) = a.
Proof.
  induction 1 as [|c a Hc _ IH]; intro Hr; cbn [app].
  - destruct r as [|x r]; [reflexivity|]. cbn [take_while]. cbn [stops] in Hr.
    apply negb_true_iff in Hr. rewrite Hr. reflexivity.
  - cbn [take_while]. rewrite Hc, IH by exact Hr. reflexivity.
Qed.

Lemma drop_while_app_stops p a r : Forall (fun c => p c = true) a -> stops (fun c => negb (p c)) r ->
  drop_while p (a ++ r) = r.
Proof.
  induction 1 as [|c a Hc _ IH]; intro Hr; cbn [app].
  - destruct r as [|x r]; [reflexivity|]. cbn [drop_while]. cbn [stops] in Hr.
    apply negb_true_iff in Hr. rewrite Hr. reflexivity.
  - cbn [drop_while]. rewrite Hc, IH by exact Hr. reflexivity.
Qed.

Lemma span_app p a r : Forall (fun c => p c = true) a -> stops (fun c => negb (p c)) r ->
  span p (a ++ r) = (a, r).
Proof. intros H1 H2. unfold span. rewrite take_while_app_stops, drop_while_app_stops by assumption. reflexivity. Qed.

Lemma break_at_app p a r : Forall (fun c => p c = false) a -> stops p r -> break_at p (a ++ r) = (a, r).
Proof.
  intros H1 H2. unfold break_at. apply span_app.
  - eapply Forall_impl; [|exact H1]. cbv beta. intros c Hc. rewrite Hc. reflexivity.
  - destruct r as [|x r]; [exact I|]. cbn [stops] in *. rewrite H2. reflexivity.
Qed.

Lemma break_at_all p a : Forall (fun c => p c = false) a -> break_at p a = (a, []).
Proof. intro H. rewrite <- (app_nil_r a) at 1. apply break_at_app; [exact H|exact I]. Qed.

Lemma stops_impl (p q : N -> bool) r : (forall c, p c = true -> q c = true) -> stops p r -> stops q r.
Proof. intros H. destruct r; [auto|]. cbn [stops]. apply H. Qed.

(* ---------------------------------------------------------------------------------- *)
(* the last '@'                                                                       *)
(* ---------------------------------------------------------------------------------- *)
Lemma split_last_none s : Forall (fun c => c <> 64) s -> split_last_at s = None.
Proof.
  induction 1 as [|c s Hc _ IH]; [reflexivity|]. cbn [split_last_at]. rewrite IH.
  apply N.eqb_neq in Hc. rewrite Hc. reflexivity.
Qed.

Lemma split_last_some a b : Forall (fun c => c <> 64) b -> split_last_at (a ++ 64 :: b) = Some (a, b).
Proof.
  intro Hb. induction a as [|c a IH]; cbn [app split_last_at].
  - rewrite (split_last_none b Hb). reflexivity.
  - rewrite IH. reflexivity.
Qed.

(* ---------------------------------------------------------------------------------- *)
(* the scan for the end of the host                                                   *)
(* ---------------------------------------------------------------------------------- *)
Definition hplain (c : N) : Prop := c <> 58 /\ c <> 91 /\ c <> 93.
Definition nobr (c : N) : Prop := c <> 91 /\ c <> 93.

Lemma hes_plain h : forall r br acc, Forall hplain h ->
  host_end_scan (h ++ r) br acc = host_end_scan r br (rev h ++ acc).
Proof.
  induction h as [|c h IH]; intros r br acc Hh; [reflexivity|].
  inversion Hh as [|? ? (H1 & H2 & H3) Hh']; subst. cbn [app host_end_scan].
  apply N.eqb_neq in H1, H2, H3. rewrite H1, H2, H3. rewrite IH by exact Hh'.
  cbn [rev]. rewrite <- app_assoc. reflexivity.
Qed.

Lemma hes_inbr body : forall r acc, Forall nobr body ->
  host_end_scan (body ++ r) true acc = host_end_scan r true (rev body ++ acc).
Proof.
  induction body as [|c body IH]; intros r acc Hb; [reflexivity|].
  inversion Hb as [|? ? (H2 & H3) Hb']; subst. cbn [app host_end_scan].
  apply N.eqb_neq in H2, H3. rewrite H2, H3. cbn [negb].
  destruct (c =? 58); rewrite IH by exact Hb'; cbn [rev]; rewrite <- app_assoc; reflexivity.
Qed.

(* the text of a serialized host: plain, or a bracketed body without brackets *)
Definition hosttxt_ok (h : str) : Prop :=
  Forall hplain h \/ exists body, h = 91 :: body ++ [93] /\ Forall nobr body.

(* what follows the host inside the authority: nothing, or ':' and the port *)
Definition port_tail (r : str) : Prop := r = [] \/ exists r', r = 58 :: r'.

Lemma hes_end r acc : port_tail r ->
  host_end_scan r false acc = (rev acc, r, match r with [] => false | _ => true end).
Proof. intros [->|[r' ->]]; reflexivity. Qed.

Lemma hes_host h r : hosttxt_ok h -> port_tail r ->
  host_end_scan (h ++ r) false [] = (h, r, match r with [] => false | _ => true end).
Proof.
  intros [Hp|(body & -> & Hb)] Hr.
  - rewrite hes_plain by exact Hp. rewrite hes_end by exact Hr. rewrite app_nil_r, rev_involutive. reflexivity.
  - cbn [app host_end_scan]. change (91 =? 58) with false. change (91 =? 91) with true. cbv iota.
    rewrite <- app_assoc. rewrite hes_inbr by exact Hb. cbn [app host_end_scan].
    change (93 =? 58) with false. change (93 =? 91) with false. change (93 =? 93) with true. cbv iota.
    rewrite hes_end by exact Hr. cbn [rev]. rewrite rev_app_distr, rev_involutive. cbn [rev app].
    rewrite <- ?app_assoc. reflexivity.
Qed.

(* ---------------------------------------------------------------------------------- *)
(* alphabets of serialized hosts                                                      *)
(* ---------------------------------------------------------------------------------- *)

(* no authority delimiter, no '@' *)
Definition hsafe (c : N) : Prop := c <> 47 /\ c <> 63 /\ c <> 35 /\ c <> 92 /\ c <> 64.

Lemma fh_plain c : forbidden_host c = false -> hplain c /\ hsafe c.
Proof. intro H. unfold hplain, hsafe. clia. Qed.

Lemma dchar_fh c : dchar c -> forbidden_host c = false.
Proof. intros (H & _). unfold forbidden_domain in H. apply orb_false_elim in H. destruct H as [H _].
  apply orb_false_elim in H. destruct H as [H _]. apply orb_false_elim in H. apply H. Qed.

Lemma digit_fh c : is_ascii_digit c = true -> forbidden_host c = false.
Proof. intro H. clia. Qed.

Lemma dec_str_fh n : Forall (fun c => forbidden_host c = false) (dec_str n).
Proof.
  destruct (dec_str_canonical n) as [H _]. eapply Forall_impl; [|exact H]. intros c Hc. apply digit_fh, Hc.
Qed.

Lemma ipv4_serialize_fh a : Forall (fun c => forbidden_host c = false) (Spec.Ip.ipv4_serialize a).
Proof.
  unfold Spec.Ip.ipv4_serialize.
  repeat (apply Forall_app; split; [apply dec_str_fh || (constructor; [reflexivity|constructor])|]).
  apply dec_str_fh.
Qed.

Definition v6char (c : N) : Prop := is_ascii_hex c = true \/ c = 58.

Lemma hex_str_v6 v : v < 65536 -> Forall v6char (hex_str_lower v).
Proof.
  intro H. destruct (hex_tok v H) as [Hf _]. rewrite forallb_forall in Hf.
  apply Forall_forall. intros c Hc. left. apply Hf, Hc.
Qed.

Lemma ipv6_serialize_v6 a : Forall (fun p => p < 65536) a -> Forall v6char (Spec.Ip.ipv6_serialize a).
Proof.
  intro H. rewrite <- spec_toks_print. pose proof (spec_toks_small a H) as Hs.
  unfold print. apply Forall_flat_map. intros t Ht. unfold toks_small in Hs. rewrite Forall_forall in Hs.
  specialize (Hs t Ht). destruct t; cbn [print_tok tok_val] in *.
  - apply Forall_app. split; [apply hex_str_v6, Hs|constructor; [right; reflexivity|constructor]].
  - apply hex_str_v6, Hs.
  - constructor; [right; reflexivity|constructor].
Qed.

Lemma v6_nobr c : v6char c -> nobr c /\ hsafe c.
Proof. intros [H| ->]; unfold nobr, hsafe; [clia|lia]. Qed.

Lemma ohchar_fh c : ohchar c -> forbidden_host c = false.
Proof. intros [_ H]. exact H. Qed.

(* the serialization of a canonical host: scan shape and delimiter safety *)
Lemma host_serialize_txt h : host_okh h ->
  hosttxt_ok (host_serialize h) /\ Forall hsafe (host_serialize h).
Proof.
  assert (L : forall s, Forall (fun c => forbidden_host c = false) s -> hosttxt_ok s /\ Forall hsafe s).
  { intros s Hs. split; [left|]; eapply Forall_impl; try exact Hs; intros c Hc; apply (fh_plain c Hc). }
  destruct h as [d|a4|a6|o|]; cbn [host_okh host_serialize].
  - intros [_ H]. apply L. eapply Forall_impl; [|exact H]. exact dchar_fh.
  - intros _. apply L, ipv4_serialize_fh.
  - intros [_ H]. pose proof (ipv6_serialize_v6 a6 H) as Hv. split.
    + right. exists (Spec.Ip.ipv6_serialize a6). split; [reflexivity|].
      eapply Forall_impl; [|exact Hv]. intros c Hc. apply (v6_nobr c Hc).
    + cbn [app]. constructor; [unfold hsafe; lia|]. apply Forall_app. split.
      * eapply Forall_impl; [|exact Hv]. intros c Hc. apply (v6_nobr c Hc).
      * constructor; [unfold hsafe; lia|constructor].
  - intros [_ H]. apply L. eapply Forall_impl; [|exact H]. exact ohchar_fh.
  - intros _. split; [left; constructor|constructor].
Qed.

(* ---------------------------------------------------------------------------------- *)
(* the host, by kind                                                                  *)
(* ---------------------------------------------------------------------------------- *)

Lemma dchar_ascii_domain c : dchar c -> ascii_domain_char c = true.
Proof. intros (H1 & _ & H3). unfold ascii_domain_char. rewrite H1. cbn [negb]. rewrite andb_true_r. lia. Qed.

Lemma dchar_lower c : dchar c -> ascii_lower c = c.
Proof. intros (_ & H & _). unfold ascii_lower. rewrite H. reflexivity. Qed.

Lemma lower_str_id d : Forall dchar d -> lower_str d = d.
Proof. induction 1 as [|c d Hc _ IH]; [reflexivity|]. cbn [lower_str map]. rewrite (dchar_lower c Hc). f_equal. exact IH. Qed.

Lemma early_reject_ascii s : ascii_domain_str s -> early_reject s = false.
Proof.
  intro H. unfold early_reject. destruct s as [|c0 r]; [reflexivity|].
  unfold span. cbn [snd]. rewrite (drop_while_ext _ _ (c0 :: r) tbl_ascii_domain_spec).
  rewrite (Forall_drop_while_nil _ _ H). apply andb_false_r.
Qed.

Lemma existsb_Forall_false {A} (f : A -> bool) l : Forall (fun x => f x = false) l -> existsb f l = false.
Proof. induction 1 as [|x l Hx _ IH]; [reflexivity|]. cbn [existsb]. rewrite Hx, IH. reflexivity. Qed.

Section Host.
Variable idna : list N -> option (list N).

Lemma domain_reparse d : d <> [] -> Forall dchar d -> ends_in_number d = false -> idna d = Some d ->
  impl_parse_host idna d false = Some (HDomain d).
Proof.
  intros Hne Hd Hn Hi. destruct d as [|c0 rest]; [congruence|].
  assert (Had : ascii_domain_str (c0 :: rest)).
  { eapply Forall_impl; [|exact Hd]. exact dchar_ascii_domain. }
  assert (H91 : (c0 =? 91) = false).
  { inversion Hd as [|? ? Hc _]; subst. apply dchar_fh in Hc. apply N.eqb_neq. intros ->. discriminate. }
  rewrite impl_domain_cases by exact H91. rewrite (early_reject_ascii _ Had).
  destruct (fast_path (c0 :: rest)) eqn:Ef.
  - unfold fast_result. rewrite Hn, (lower_str_id _ Hd). reflexivity.
  - rewrite host_parse_cons, H91. cbv zeta.
    change (utf8_decode (percent_decode (utf8_encode (c0 :: rest)))) with (domain_of (c0 :: rest)).
    rewrite (domain_of_ascii_domain _ Had). unfold domain_to_ascii. rewrite Hi.
    rewrite existsb_Forall_false; [|eapply Forall_impl; [|exact Hd]; intros c Hc; apply Hc].
    rewrite Hn. reflexivity.
Qed.

(* no "xn--" label in a string without 'x' / 'X' *)
Lemma has_xn_no_x s : Forall (fun c => (N.lor c 32 =? 120) = false) s -> has_xn_label s = false.
Proof.
  intro H. unfold has_xn_label. apply existsb_Forall_false.
  pose proof (split_on_Forall 46 _ s H) as HF.
  eapply Forall_impl; [|exact HF]. cbv beta. intros lbl Hl.
  destruct lbl as [|x [|n [|d1 [|d2 r]]]]; try reflexivity.
  inversion Hl as [|? ? Hx _]; subst. rewrite Hx. reflexivity.
Qed.

Lemma digit_not_x c : is_ascii_digit c = true \/ c = 46 -> (N.lor c 32 =? 120) = false.
Proof.
  intro H. assert (Hc : c < 256) by (destruct H as [H| ->]; [clia|lia]).
  pose proof (sweep256_sound (fun c => negb (is_ascii_digit c || (c =? 46)) || negb (N.lor c 32 =? 120))
                ltac:(vm_compute; reflexivity) c Hc) as Hs. cbv beta in Hs.
  destruct H as [H| ->]; [rewrite H in Hs; cbn [orb negb] in Hs; apply negb_true_iff in Hs; exact Hs|reflexivity].
Qed.

Lemma ipv4_serialize_chars a : Forall (fun c => is_ascii_digit c = true \/ c = 46) (Spec.Ip.ipv4_serialize a).
Proof.
  assert (L : forall n, Forall (fun c => is_ascii_digit c = true \/ c = 46) (dec_str n)).
  { intro n. destruct (dec_str_canonical n) as [H _]. eapply Forall_impl; [|exact H]. intros c Hc. left. exact Hc. }
  unfold Spec.Ip.ipv4_serialize.
  repeat (apply Forall_app; split; [apply L || (constructor; [right; reflexivity|constructor])|]). apply L.
Qed.

Lemma digit_ascii_domain c : is_ascii_digit c = true \/ c = 46 -> ascii_domain_char c = true.
Proof. intros [H| ->]; [|reflexivity]. unfold ascii_domain_char. clia. Qed.

Lemma ends_in_number_ipv4 a : a < 2 ^ 32 -> ends_in_number (Spec.Ip.ipv4_serialize a) = true.
Proof.
  intro Ha. destruct (serialize_canonical a Ha) as (b3 & b2 & b1 & b0 & H3 & H2 & H1 & H0 & Ea & Es).
  rewrite Es. unfold ends_in_number. cbn [app].
  rewrite !split_on_app, !(split_on_no_d 46 _ (dec_str_no_dot _)). cbn [app].
  destruct (dec_str_canonical b0) as (Hdig & Hne & _).
  cbn [last_opt]. destruct (dec_str b0) as [|x r] eqn:E; [congruence|].
  cbn [last_opt]. cbn [str_eqb negb andb].
  assert (Hf : forallb is_ascii_digit (x :: r) = true).
  { apply forallb_forall. rewrite Forall_forall in Hdig. exact Hdig. }
  rewrite Hf. reflexivity.
Qed.

Lemma ipv4_reparse a : a < 4294967296 ->
  impl_parse_host idna (Spec.Ip.ipv4_serialize a) false = Some (HIpv4 a).
Proof.
  intro Ha. assert (Ha' : a < 2 ^ 32) by (change (2 ^ 32) with 4294967296; exact Ha).
  pose proof (ipv4_serialize_chars a) as Hc.
  assert (Had : ascii_domain_str (Spec.Ip.ipv4_serialize a)).
  { eapply Forall_impl; [|exact Hc]. exact digit_ascii_domain. }
  assert (Hx : has_xn_label (Spec.Ip.ipv4_serialize a) = false).
  { apply has_xn_no_x. eapply Forall_impl; [|exact Hc]. exact digit_not_x. }
  pose proof (ends_in_number_ipv4 a Ha') as He.
  pose proof (Ipv4Proofs.spec_roundtrip a Ha') as Hr.
  destruct (Spec.Ip.ipv4_serialize a) as [|c0 rest] eqn:Es; [discriminate He|].
  assert (H91 : (c0 =? 91) = false).
  { inversion Hc as [|? ? H _]; subst. apply N.eqb_neq. intros ->. destruct H as [H|H]; discriminate. }
  rewrite impl_domain_cases by exact H91. rewrite (early_reject_ascii _ Had).
  assert (Ef : fast_path (c0 :: rest) = true) by (apply fast_path_iff; split; assumption).
  rewrite Ef. unfold fast_result. rewrite He, Hr. reflexivity.
Qed.

Lemma last_opt_app_one {A} (l : list A) x : last_opt (l ++ [x]) = Some x.
Proof. induction l as [|y l IH]; [reflexivity|]. cbn [app last_opt]. destruct (l ++ [x]) eqn:E; [destruct l; discriminate|exact IH]. Qed.

Lemma removelast_app_one {A} (l : list A) x : removelast (l ++ [x]) = l.
Proof. apply removelast_app_single. Qed.

Lemma ipv6_reparse a b : length a = 8%nat -> Forall (fun p => p < 65536) a ->
  impl_parse_host idna ([91] ++ Spec.Ip.ipv6_serialize a ++ [93]) b = Some (HIpv6 a).
Proof.
  intros Hl Hs. cbn [app impl_parse_host]. change (91 =? 91) with true. cbv iota.
  change (91 :: Spec.Ip.ipv6_serialize a ++ [93]) with ((91 :: Spec.Ip.ipv6_serialize a) ++ [93]).
  rewrite last_opt_app_one, removelast_app_one, (Ipv6Round.spec_roundtrip a Hl Hs). reflexivity.
Qed.

Lemma ohchar_enc_id o : Forall ohchar o -> enc_c0 o = o.
Proof.
  intro H. rewrite enc_c0_spec. apply pe_id. eapply Forall_impl; [|exact H]. intros c [Hc _]. exact Hc.
Qed.

Lemma opaque_reparse o : o <> [] -> Forall ohchar o -> impl_parse_host idna o true = Some (HOpaque o).
Proof.
  intros Hne Ho. destruct o as [|c0 rest]; [congruence|]. cbn [impl_parse_host].
  assert (H91 : (c0 =? 91) = false).
  { inversion Ho as [|? ? [_ Hc] _]; subst. apply N.eqb_neq. intros ->. discriminate. }
  rewrite H91. rewrite (existsb_ext_all _ _ (c0 :: rest) tbl_forbidden_host_spec).
  rewrite existsb_Forall_false; [|eapply Forall_impl; [|exact Ho]; intros c Hc; apply Hc].
  rewrite (ohchar_enc_id _ Ho). reflexivity.
Qed.

(* all kinds *)
Lemma host_reparse s h : host_okh h -> hostkind_f idna s (Some h) ->
  (h = HEmpty -> is_special_scheme s = false) ->
  impl_parse_host idna (host_serialize h) (negb (is_special_scheme s)) = Some h.
Proof.
  intros Hok Hk He. destruct h as [d|a4|a6|o|]; cbn [host_okh hostkind_f host_serialize] in *.
  - destruct Hk as (-> & Hn & Hi). destruct Hok as [Hne Hd]. apply domain_reparse; assumption.
  - rewrite Hk. apply ipv4_reparse, Hok.
  - destruct Hok. apply ipv6_reparse; assumption.
  - rewrite Hk. destruct Hok. apply opaque_reparse; assumption.
  - rewrite (He eq_refl). reflexivity.
Qed.

End Host.

(* ---------------------------------------------------------------------------------- *)
(* the port                                                                           *)
(* ---------------------------------------------------------------------------------- *)
Lemma port_from_digits_val s : Forall (fun c => is_ascii_digit c = true) s ->
  port_from_digits s = digits_val 10 s.
Proof.
  unfold port_from_digits, digits_val. intro H.
  assert (G : forall acc, fold_left (fun acc ch => acc * 10 + (ch - 48)) s acc =
                          fold_left (fun acc c => acc * 10 + hex_val c) s acc); [|apply G].
  induction H as [|c s Hc _ IH]; intro acc; [reflexivity|].
  cbn [fold_left]. rewrite IH. f_equal. f_equal. unfold hex_val. rewrite Hc. reflexivity.
Qed.

Lemma digits_val_snoc s c : digits_val 10 (s ++ [c]) = digits_val 10 s * 10 + hex_val c.
Proof. unfold digits_val. rewrite fold_left_app. reflexivity. Qed.

(* a string of n digits has a value below 10^n; with a non-zero first digit at least 10^(n-1) *)
Lemma digits_val_lower c s : Forall (fun c => is_ascii_digit c = true) (c :: s) -> c <> 48 ->
  10 ^ N.of_nat (length s) <= digits_val 10 (c :: s).
Proof.
  intros H Hc. induction s as [|x s IH] using rev_ind.
  - unfold digits_val. cbn [fold_left length]. inversion H as [|? ? Hd _]; subst.
    unfold hex_val. rewrite Hd. change (10 ^ N.of_nat 0) with 1. clear - Hd Hc. clia.
  - change (c :: s ++ [x]) with ((c :: s) ++ [x]). rewrite digits_val_snoc.
    assert (H' : Forall (fun c => is_ascii_digit c = true) (c :: s)).
    { change (c :: s ++ [x]) with ((c :: s) ++ [x]) in H. apply Forall_app in H. apply H. }
    specialize (IH H'). rewrite app_length. cbn [length].
    replace (N.of_nat (length s + 1)) with (N.succ (N.of_nat (length s))) by lia.
    rewrite N.pow_succ_r'. lia.
Qed.

Lemma dec_str_port p : p <= 65535 ->
  let d := dec_str p in
  Forall (fun c => is_ascii_digit c = true) d /\ d <> [] /\
  (match drop_while (fun ch => ch =? 48) d with [] => [48] | x => x end) = d /\
  (length d <= 5)%nat /\ port_from_digits d = p.
Proof.
  intros Hp d. subst d. destruct (dec_str_canonical p) as (Hdig & Hne & Hz & Hv).
  split; [exact Hdig|]. split; [exact Hne|].
  destruct (dec_str p) as [|c s] eqn:E; [congruence|].
  split; [|split].
  - cbn [drop_while]. destruct (N.eqb_spec c 48) as [->|Hc]; [|reflexivity].
    cbn [hd] in Hz. injection (Hz eq_refl) as ->. reflexivity.
  - destruct (N.eq_dec c 48) as [->|Hc]; [cbn [hd] in Hz; injection (Hz eq_refl) as ->; cbn [length]; lia|].
    pose proof (digits_val_lower c s Hdig Hc) as Hl. rewrite Hv in Hl.
    destruct (le_lt_dec (length s) 4) as [H4|H4]; [cbn [length]; lia|].
    exfalso. assert (10 ^ 5 <= 10 ^ N.of_nat (length s)) by (apply N.pow_le_mono_r; lia).
    change (10 ^ 5) with 100000 in H. lia.
  - rewrite port_from_digits_val by exact Hdig. exact Hv.
Qed.
