(* C08 — every URL record returned by the basic URL parser, and every record the API setters
   produce from a canonical record, is canonical. *)
From Upa Require Import Base.Prelude Spec.CodePoints Spec.Utf Spec.Percent Spec.Ip Spec.Url Spec.UrlEncoded.
From Upa Require Import Proofs.SearchParamsProofs Proofs.Ipv4Proofs Proofs.Ipv6Base Proofs.Ipv6Ser
  Proofs.CanonDefs Proofs.CanonStep.
From Coq Require Import ZifyBool ZifyN ZifyNat.
Local Open Scope N_scope.

Section Top.
Variable idna : list N -> option (list N).
Hypothesis idna_ascii_lower :
  forall d r, idna d = Some r -> Forall (fun c => c < 128 /\ is_ascii_upper_alpha c = false) r.

Lemma cps_ok_remove s : cps_ok s -> cps_ok (remove_tab_newline s).
Proof. apply Forall_filter. Qed.

Lemma cps_ok_strip s : cps_ok s -> cps_ok (strip_c0_space s).
Proof. intro H. unfold strip_c0_space. apply Forall_rev', Forall_drop_while, Forall_rev', Forall_drop_while, H. Qed.

(* ---------------- 1. the parser ---------------- *)
Theorem parse_canon input base : cps_ok input ->
  (base = None \/ exists b, base = Some b /\ Canon b) ->
  forall u, basic_parse idna input base = POk u -> Canon u.
Proof.
  intros Hi Hb u. unfold basic_parse. cbv zeta.
  set (input' := remove_tab_newline (strip_c0_space input)).
  assert (Hi' : cps_ok input') by (apply cps_ok_remove, cps_ok_strip, Hi).
  assert (Hb' : forall b, base = Some b -> Canon b).
  { intros b E. destruct Hb as [Hb|(b' & Hb1 & Hb2)]; congruence. }
  pose proof (run_inv idna idna_ascii_lower input' Hi' base Hb' None (parse_fuel input')
                (mk_m SchemeStart empty_url [] false false false 0%Z)) as H.
  cbn [m_pointer] in H. intro E. rewrite E in H. cbn [RunPost] in H. apply H; [lia|].
  unfold SInv. cbn [m_state m_url m_buffer]. split; [reflexivity|]. split; [reflexivity|]. intro N0. congruence.
Qed.

(* ---------------- 2. the parser with a state override ---------------- *)
Lemma override_canon input u st : cps_ok input ->
  (forall inp, SInv inp None (Some st) (mk_m st u [] false false false 0%Z)) ->
  forall u0, Canon u0 -> Canon (or_unchanged u0 (basic_parse_override idna input u st)).
Proof.
  intros Hi HS u0 HC0. unfold basic_parse_override. cbv zeta.
  set (input' := remove_tab_newline input).
  assert (Hi' : cps_ok input') by (apply cps_ok_remove, Hi).
  assert (Hb' : forall b, @None url = Some b -> Canon b) by discriminate.
  pose proof (run_inv idna idna_ascii_lower input' Hi' None Hb' (Some st) (parse_fuel input')
                (mk_m st u [] false false false 0%Z)) as H.
  cbn [m_pointer] in H.
  specialize (H ltac:(lia) (HS input')).
  destruct (run idna (parse_fuel input') input' None (Some st) (mk_m st u [] false false false 0%Z));
    cbn [RunPost or_unchanged] in *; [exact H|apply H; discriminate|exact HC0].
Qed.

(* ---------------- 3. the API setters ---------------- *)
Ltac sinv_over := unfold SInv; cbn [m_state m_url m_buffer m_at m_pointer].

Theorem setter_href_canon u v u' : cps_ok v -> setter_href idna u v = Some u' -> Canon u'.
Proof.
  intros Hv. unfold setter_href. destruct (basic_parse idna v None) as [w| |] eqn:E; try discriminate.
  intro H. injection H as <-. apply (parse_canon v None Hv (or_introl eq_refl) w E).
Qed.

Theorem setter_protocol_canon u v : cps_ok v -> Canon u -> Canon (setter_protocol idna u v).
Proof.
  intros Hv HC. unfold setter_protocol. apply override_canon; [|  |exact HC].
  - apply Forall_app. split; [exact Hv|]. repeat constructor. unfold cp_ok. lia.
  - intro inp. sinv_over. split; [reflexivity|]. split; [discriminate|auto].
Qed.

Lemma cannot_have_false u : cannot_have_username_password_port u = false ->
  is_file u = false /\ exists h, uhost u = Some h /\ h <> HEmpty.
Proof.
  unfold cannot_have_username_password_port, host_is_empty_or_null. intro H.
  apply orb_false_elim in H. destruct H as [H1 H2]. split; [exact H2|].
  destruct (uhost u) as [[d|a4|a6|o|]|]; try discriminate; eexists; (split; [reflexivity|discriminate]).
Qed.

Lemma canon_set_userinfo u us pw : Canon u -> cannot_have_username_password_port u = false ->
  ui_safe us -> ui_safe pw -> Canon (set_password (set_username u us) pw).
Proof.
  intros HC Hn Hus Hpw. destruct (cannot_have_false u Hn) as (Hnf & h & Hh & Hne).
  assert (Hc : cred_okf (scheme u) us pw (uhost u) (port u)).
  { intros [H|[H|H]]; [congruence|congruence|]. unfold is_file in Hnf. congruence. }
  ucanon.
Qed.

Lemma ui_safe_encode v : cps_ok v -> ui_safe (utf8_percent_encode userinfo_encode v).
Proof. intro H. apply pe_Forall; [apply enc_closed_ui|exact H|]. apply Forall_forall. auto. Qed.

Theorem setter_username_canon u v : cps_ok v -> Canon u -> Canon (setter_username u v).
Proof.
  intros Hv HC. unfold setter_username. destruct (cannot_have_username_password_port u) eqn:E; [exact HC|].
  pose proof (canon_set_userinfo u (utf8_percent_encode userinfo_encode v) (password u) HC E
                (ui_safe_encode v Hv)) as H.
  destruct u; apply H. destruct HC as [[(_ & _ & _ & Hp & _) _] _]. exact Hp.
Qed.

Theorem setter_password_canon u v : cps_ok v -> Canon u -> Canon (setter_password u v).
Proof.
  intros Hv HC. unfold setter_password. destruct (cannot_have_username_password_port u) eqn:E; [exact HC|].
  pose proof (canon_set_userinfo u (username u) (utf8_percent_encode userinfo_encode v) HC E) as H.
  destruct u; apply H; [|exact (ui_safe_encode v Hv)]. destruct HC as [[(_ & _ & Hp & _) _] _]. exact Hp.
Qed.

Theorem setter_host_canon u v : cps_ok v -> Canon u -> Canon (setter_host idna u v).
Proof.
  intros Hv HC. unfold setter_host. destruct (has_opaque_path u) eqn:E; [exact HC|].
  apply override_canon; [exact Hv| |exact HC].
  intro inp. sinv_over. split; [constructor|]. split; [discriminate|auto].
Qed.

Theorem setter_hostname_canon u v : cps_ok v -> Canon u -> Canon (setter_hostname idna u v).
Proof.
  intros Hv HC. unfold setter_hostname. destruct (has_opaque_path u) eqn:E; [exact HC|].
  apply override_canon; [exact Hv| |exact HC].
  intro inp. sinv_over. split; [constructor|]. split; [discriminate|auto].
Qed.

Theorem setter_port_canon u v : cps_ok v -> Canon u -> Canon (setter_port idna u v).
Proof.
  intros Hv HC. unfold setter_port. destruct (cannot_have_username_password_port u) eqn:E; [exact HC|].
  destruct (cannot_have_false u E) as (Hnf & Hh).
  destruct v as [|c r].
  - destruct HC as [HC0 Hne]. split; [|exact Hne]. apply canon0_set_port; auto with canon.
  - apply override_canon; [exact Hv| |exact HC].
    intro inp. sinv_over. destruct HC as [HC0 Hne]. splits; auto; try discriminate.
Qed.

Theorem setter_pathname_canon u v : cps_ok v -> Canon u -> Canon (setter_pathname idna u v).
Proof.
  intros Hv HC. unfold setter_pathname. destruct (has_opaque_path u) eqn:E; [exact HC|].
  apply override_canon; [exact Hv| |exact HC].
  intro inp. sinv_over. split; [|auto]. apply canon0_set_path_list; [apply HC|auto with canon].
Qed.

Lemma Forall_skip_first (P : N -> Prop) (d : N) (v : str) : Forall P v ->
  Forall P (match v with [] => v | c :: r => if c =? d then r else v end).
Proof. intro H. destruct v as [|c r]; [exact H|]. destruct (c =? d); [inversion H; assumption|exact H]. Qed.

Lemma skip63 (v : str) : match v with 63 :: r => r | _ => v end =
                         match v with [] => v | c :: r => if c =? 63 then r else v end.
Proof.
  destruct v as [|c r]; [reflexivity|]. destruct c as [|q]; [reflexivity|].
  repeat (destruct q as [q|q|]; try reflexivity).
Qed.

Lemma skip35 (v : str) : match v with 35 :: r => r | _ => v end =
                         match v with [] => v | c :: r => if c =? 35 then r else v end.
Proof.
  destruct v as [|c r]; [reflexivity|]. destruct c as [|q]; [reflexivity|].
  repeat (destruct q as [q|q|]; try reflexivity).
Qed.

Lemma ochar_strip p : Forall ochar p -> Forall ochar (strip_trailing_spaces p).
Proof. intro H. unfold strip_trailing_spaces. apply Forall_rev', Forall_drop_while, Forall_rev', H. Qed.

Lemma canon_potentially_strip u : Canon u -> Canon (potentially_strip u).
Proof.
  intro HC. unfold potentially_strip. destruct (path u) as [o|l] eqn:Ep; [|exact HC].
  destruct (is_some (fragment u) || is_some (query u)); [exact HC|].
  apply (canon_set_path_opaque u o); [exact HC|exact Ep|]. apply ochar_strip.
  destruct HC as [[(_ & _ & _ & _ & _ & _ & _ & Hps) _] _]. unfold path_safe in Hps. rewrite Ep in Hps. exact Hps.
Qed.

Theorem setter_search_canon u v : cps_ok v -> Canon u -> Canon (setter_search idna u v).
Proof.
  intros Hv HC. unfold setter_search. rewrite skip63.
  pose proof (Forall_skip_first _ 63 v Hv) as Hv'. destruct v as [|c r].
  - apply canon_potentially_strip, canon_set_query; auto with canon.
  - cbv zeta. apply override_canon; [exact Hv'| |exact HC].
    intro inp. sinv_over. split; [|constructor]. apply canon_set_query; auto with canon.
Qed.

Theorem setter_hash_canon u v : cps_ok v -> Canon u -> Canon (setter_hash idna u v).
Proof.
  intros Hv HC. unfold setter_hash. rewrite skip35.
  pose proof (Forall_skip_first _ 35 v Hv) as Hv'. destruct v as [|c r].
  - apply canon_potentially_strip, canon_set_fragment; auto with canon.
  - cbv zeta. apply override_canon; [exact Hv'| |exact HC].
    intro inp. sinv_over. apply canon_set_fragment; auto with canon.
Qed.

End Top.

(* ---------------- 4. URLSearchParams updates ---------------- *)
Definition ualpha (c : N) : bool :=
  is_ascii_alphanumeric c || in_list [42; 45; 46; 95; 43; 37; 61; 38] c.

Lemma ualpha_qchar sp c : ualpha c = true -> qchar sp c.
Proof. unfold ualpha. intro H. split; [clia|intros _; clia]. Qed.

Lemma enc_closed_ualpha : enc_closed (fun c => ualpha c = true).
Proof. split; [reflexivity|]. unfold hexu, ualpha. intros c H. clia. Qed.

Lemma ser_bytes_ualpha bs : Forall (fun b => b < 256) bs ->
  Forall (fun c => ualpha c = true) (urlencoded_serialize_bytes bs).
Proof.
  intro H. unfold urlencoded_serialize_bytes. apply Forall_flat_map. intros b Hb.
  rewrite Forall_forall in H. specialize (H b Hb).
  destruct (b =? 32); [repeat constructor|].
  destruct (is_ascii_alphanumeric b || in_list [42; 45; 46; 95] b) eqn:E.
  - constructor; [|constructor]. unfold ualpha. clear - E. clia.
  - apply pe_byte_Forall; [apply enc_closed_ualpha|exact H].
Qed.

Lemma ser_str_ualpha s : cps_ok s -> Forall (fun c => ualpha c = true) (urlencoded_serialize_str s).
Proof.
  intro H. unfold urlencoded_serialize_str. apply ser_bytes_ualpha. unfold utf8_encode.
  apply Forall_flat_map. intros c Hc. apply utf8_encode_cp_bytes'. unfold cps_ok in H.
  rewrite Forall_forall in H. auto.
Qed.

Definition pairs_ok (l : list pair_t) : Prop := Forall (fun p => cps_ok (fst p) /\ cps_ok (snd p)) l.

Lemma ser_ualpha l : pairs_ok l -> Forall (fun c => ualpha c = true) (urlencoded_serialize l).
Proof.
  induction 1 as [|[n v] l [Hn Hv] Hl IH]; [constructor|]. cbn [fst snd] in *.
  assert (Hhead : Forall (fun c => ualpha c = true) (urlencoded_serialize_str n ++ [61] ++ urlencoded_serialize_str v)).
  { apply Forall_app. split; [apply ser_str_ualpha, Hn|]. apply Forall_app. split; [repeat constructor|].
    apply ser_str_ualpha, Hv. }
  cbn [urlencoded_serialize]. destruct l as [|q l']; [exact Hhead|].
  apply Forall_app. split; [apply ser_str_ualpha, Hn|]. apply Forall_app. split; [repeat constructor|].
  apply Forall_app. split; [apply ser_str_ualpha, Hv|]. apply Forall_app. split; [repeat constructor|exact IH].
Qed.

Theorem update_canon u l : pairs_ok l -> Canon u ->
  Canon (set_query u (Some (urlencoded_serialize l))) /\ Canon (potentially_strip (set_query u None)).
Proof.
  intros Hl HC. split.
  - apply canon_set_query; [exact HC|]. intros x Hx. injection Hx as <-.
    eapply Forall_impl; [|apply ser_ualpha, Hl]. intros c Hc. apply ualpha_qchar, Hc.
  - apply canon_potentially_strip, canon_set_query; auto with canon.
Qed.

(* ---------------- 5. printable form, the "/." guard ---------------- *)
Definition printable (u : url) : Prop :=
  Forall pchar (scheme u) /\ Forall pchar (username u) /\ Forall pchar (password u) /\
  (forall h, uhost u = Some h -> Forall pchar (host_serialize h)) /\
  (forall q, query u = Some q -> Forall pchar q) /\
  (forall f, fragment u = Some f -> Forall pchar f) /\
  match path u with
  | PList l => Forall (Forall pchar) l
  | POpaque o => Forall pchar_sp o
  end.

Lemma digit_pchar c : is_ascii_digit c = true -> pchar c.
Proof. intro H. clia. Qed.
Lemma hex_pchar c : is_ascii_hex c = true -> pchar c.
Proof. intro H. clia. Qed.

Lemma dec_str_pchar n : Forall pchar (dec_str n).
Proof.
  destruct (dec_str_canonical n) as [H _]. eapply Forall_impl; [|exact H]. intros c Hc. apply digit_pchar, Hc.
Qed.

Lemma pchar_46 : pchar 46. Proof. unfold pchar. lia. Qed.
Lemma pchar_58 : pchar 58. Proof. unfold pchar. lia. Qed.

Lemma ipv4_serialize_pchar a : Forall pchar (Spec.Ip.ipv4_serialize a).
Proof.
  unfold Spec.Ip.ipv4_serialize.
  repeat (apply Forall_app; split; [apply dec_str_pchar || (constructor; [exact pchar_46|constructor])|]).
  apply dec_str_pchar.
Qed.

Lemma hex_str_pchar v : v < 65536 -> Forall pchar (hex_str_lower v).
Proof.
  intro H. destruct (hex_tok v H) as [Hf _]. rewrite forallb_forall in Hf.
  apply Forall_forall. intros c Hc. apply hex_pchar, Hf, Hc.
Qed.

Lemma ipv6_serialize_pchar a : Forall (fun p => p < 65536) a -> Forall pchar (Spec.Ip.ipv6_serialize a).
Proof.
  intro H. rewrite <- spec_toks_print. pose proof (spec_toks_small a H) as Hs.
  unfold print. apply Forall_flat_map. intros t Ht. unfold toks_small in Hs. rewrite Forall_forall in Hs.
  specialize (Hs t Ht). destruct t; cbn [print_tok tok_val] in *.
  - apply Forall_app. split; [apply hex_str_pchar, Hs|constructor; [exact pchar_58|constructor]].
  - apply hex_str_pchar, Hs.
  - constructor; [exact pchar_58|constructor].
Qed.

Lemma host_serialize_pchar h : host_okh h -> Forall pchar (host_serialize h).
Proof.
  destruct h as [d|a4|a6|o|]; cbn [host_okh host_serialize].
  - intros [_ H]. eapply Forall_impl; [|exact H]. apply d_pchar.
  - intros _. apply ipv4_serialize_pchar.
  - intros [_ H]. apply Forall_app. split; [constructor; [unfold pchar; lia|constructor]|].
    apply Forall_app. split; [apply ipv6_serialize_pchar, H|constructor; [unfold pchar; lia|constructor]].
  - intros [_ H]. eapply Forall_impl; [|exact H]. apply oh_pchar.
  - intros _. constructor.
Qed.

Lemma scheme_pchar s : scheme_ok0f s -> Forall pchar s.
Proof.
  destruct s as [|c r]; [constructor|]. intros [H1 H2]. constructor; [clear - H1; clia|].
  eapply Forall_impl; [|exact H2]. intros x Hx. clear - Hx. clia.
Qed.

Theorem canon_printable u : Canon u -> printable u.
Proof.
  intros [[(Hs & _ & Hus & Hpw & Hh & Hq & Hf & Hp) _] _]. unfold printable.
  split; [apply scheme_pchar, Hs|].
  split; [eapply Forall_impl; [|exact Hus]; apply ui_pchar|].
  split; [eapply Forall_impl; [|exact Hpw]; apply ui_pchar|].
  split; [intros h E; unfold host_ok in Hh; rewrite E in Hh; apply host_serialize_pchar, Hh|].
  split; [intros q E; eapply Forall_impl; [|exact (Hq q E)]; apply q_pchar|].
  split; [intros f E; eapply Forall_impl; [|exact (Hf f E)]; apply f_pchar|].
  unfold path_safe, path_safef in Hp. destruct (path u) as [o|l].
  - eapply Forall_impl; [|exact Hp]. apply o_pchar_sp.
  - eapply Forall_impl; [|exact Hp]. intros seg Hseg. eapply Forall_impl; [|exact Hseg]. apply seg_pchar.
Qed.

Lemma pchar_sp_of c : pchar c -> pchar_sp c.
Proof. unfold pchar, pchar_sp. lia. Qed.

Lemma serialize_P (P : N -> Prop) u ef : (forall c, pchar c -> P c) -> printable u ->
  Forall P (path_serialize u) -> Forall P (serialize u ef).
Proof.
  intros HP (Hs & Hus & Hpw & Hh & Hq & Hf & _) Hpath.
  assert (L : forall s, Forall pchar s -> Forall P s) by (intros s H; eapply Forall_impl; [exact HP|exact H]).
  assert (L1 : forall c, pchar c -> Forall P [c]) by (intros c H; constructor; [auto|constructor]).
  assert (P58 : pchar 58) by exact pchar_58. assert (P47 : pchar 47) by (unfold pchar; lia).
  assert (P64 : pchar 64) by (unfold pchar; lia). assert (P63 : pchar 63) by (unfold pchar; lia).
  assert (P35 : pchar 35) by (unfold pchar; lia). assert (P46 : pchar 46) by exact pchar_46.
  unfold serialize.
  apply Forall_app. split; [auto|]. apply Forall_app. split; [auto|].
  apply Forall_app. split.
  { destruct (uhost u) as [h|].
    - apply Forall_app. split; [constructor; [auto|auto]|].
      apply Forall_app. split.
      { destruct (includes_credentials u); [|constructor].
        apply Forall_app. split; [auto|]. apply Forall_app. split; [|auto].
        destruct (negb (str_eqb (password u) [])); [constructor; auto|constructor]. }
      apply Forall_app. split; [apply L, (Hh h eq_refl)|].
      destruct (port u) as [q|]; [constructor; [auto|apply L, dec_str_pchar]|constructor].
    - destruct (path u) as [o|[|p0 [|p1 l]]]; try constructor.
      destruct (str_eqb p0 []); [constructor; [auto|auto]|constructor]. }
  apply Forall_app. split; [exact Hpath|].
  apply Forall_app. split.
  { destruct (query u) as [q|]; [constructor; [auto|apply L, (Hq q eq_refl)]|constructor]. }
  destruct ef; [constructor|]. destruct (fragment u) as [f|]; [constructor; [auto|apply L, (Hf f eq_refl)]|constructor].
Qed.

(* every unit of the serialization is in 0x20..0x7E, and in 0x21..0x7E unless the path is opaque *)
Theorem serialize_printable u ef : Canon u ->
  Forall pchar_sp (serialize u ef) /\ (has_opaque_path u = false -> Forall pchar (serialize u ef)).
Proof.
  intro HC. pose proof (canon_printable u HC) as Hp. pose proof Hp as (_ & _ & _ & _ & _ & _ & Hpath).
  split.
  - apply serialize_P; [exact pchar_sp_of|exact Hp|]. unfold path_serialize. destruct (path u) as [o|l]; [exact Hpath|].
    apply Forall_flat_map. intros seg Hseg. rewrite Forall_forall in Hpath.
    constructor; [unfold pchar_sp; lia|]. eapply Forall_impl; [|exact (Hpath seg Hseg)]. exact pchar_sp_of.
  - intro Ho. apply serialize_P; [auto|exact Hp|]. unfold path_serialize, has_opaque_path in *.
    destruct (path u) as [o|l]; [discriminate|].
    apply Forall_flat_map. intros seg Hseg. rewrite Forall_forall in Hpath.
    constructor; [unfold pchar; lia|exact (Hpath seg Hseg)].
Qed.

(* the "/." guard of the serializer: a null host and a path starting with an empty segment *)
Theorem serialize_guard u x l : uhost u = None -> path u = PList ([] :: x :: l) ->
  exists rest, serialize u false = scheme u ++ [58; 47; 46] ++ rest.
Proof. intros Hh Hp. unfold serialize. rewrite Hh, Hp. cbn [str_eqb]. eexists. reflexivity. Qed.

(* without the guard clause the path would be read back as an authority: the path of such a
   record serializes to a string starting with "//" *)
Theorem path_serialize_guard u x l : path u = PList ([] :: x :: l) ->
  exists rest, path_serialize u = [47; 47] ++ rest.
Proof. intro Hp. unfold path_serialize. rewrite Hp. cbn [flat_map app]. eexists. reflexivity. Qed.

(* ---------------- 6. the predicate is satisfiable; the code point premise is needed ---------------- *)
Definition fake_idna (s : list N) : option (list N) := Some (lower_str s).

(* "https://u:p@h:8443/a/b?q#f" *)
Definition ex_input : str :=
  [104;116;116;112;115;58;47;47;117;58;112;64;104;58;56;52;52;51;47;97;47;98;63;113;35;102].
Definition ex_url : url :=
  mkurl [104;116;116;112;115] [117] [112] (Some (HDomain [104])) (Some 8443)
        (PList [[97]; [98]]) (Some [113]) (Some [102]).

Lemma ex_parse : basic_parse fake_idna ex_input None = POk ex_url.
Proof. vm_compute. reflexivity. Qed.

Lemma ex_serialize : serialize ex_url false = ex_input.
Proof. vm_compute. reflexivity. Qed.

Lemma ex_canon : Canon ex_url.
Proof.
  unfold ex_url. uatoms. splits.
  - split; [reflexivity|]. repeat constructor.
  - intros p H. injection H as <-. split; [lia|]. vm_compute. discriminate.
  - repeat constructor.
  - repeat constructor.
  - split; [discriminate|]. repeat constructor.
  - intros x H. injection H as <-. constructor; [|constructor]. split; [reflexivity|discriminate].
  - intros x H. injection H as <-. repeat constructor.
  - repeat (constructor; try (split; [reflexivity|split; discriminate])).
  - discriminate.
  - intros _. split; [eexists; reflexivity|]. eexists. split; [reflexivity|]. discriminate.
  - intros [H|[H|H]]; discriminate.
  - intros o H. discriminate.
  - intros _. eexists. eexists. reflexivity.
Qed.

(* an input unit above U+10FFFF is not a code point: the percent-encoder then emits units
   outside ASCII, so the premise [cps_ok input] cannot be dropped *)
Lemma cp_premise_needed :
  exists u, basic_parse fake_idna [97; 58; 1099511627776] None = POk u /\ ~ Canon u.
Proof.
  eexists. split; [vm_compute; reflexivity|].
  intros [[(_ & _ & _ & _ & _ & _ & _ & Hp) _] _]. unfold path_safe in Hp. cbn [scheme path path_safef] in Hp.
  inversion Hp as [|? ? _ Hp']. inversion Hp' as [|? ? [Hc _] _]. vm_compute in Hc. discriminate.
Qed.
