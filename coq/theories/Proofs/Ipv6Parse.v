(* C12 — IPv6 parser: the C++ model equals the Standard's algorithm on every input,
   and every parsed address has eight pieces below 2^16. *)
From Upa Require Import Base.Prelude Proofs.TableLemmas Proofs.Ipv6Base.
From Coq Require Import ZifyBool ZifyN ZifyNat.
Local Open Scope N_scope.

(* ---------- the Standard's main loop, one step, with the character dispatch as tests ---------- *)

Definition spec_main_step (fuel : nat) (s : str) (a : list N) (pi : nat) (c : option nat)
  : option (list N * nat * option nat) :=
  match s with
  | [] => Some (a, pi, c)
  | ch :: s' =>
    if (pi =? 8)%nat then None else
    if ch =? 58 then
      match c with
      | Some _ => None
      | None => S.ipv6_main fuel s' a (S pi) (Some (S pi))
      end
    else
      let '(value, n, s1) := S.read_hex4 s 0 0 in
      match s1 with
      | [] => S.ipv6_main fuel [] (S.set_nth a pi value) (S pi) c
      | ch2 :: s2 =>
          if ch2 =? 46 then
            if (n =? 0)%nat then None else
            if (6 <? pi)%nat then None else
            match S.ipv6_ipv4_loop (S (length s)) s a pi 0 with
            | None => None
            | Some (a', pi', ns) => if negb (ns =? 4)%nat then None else Some (a', pi', c)
            end
          else if ch2 =? 58 then
            match s2 with
            | [] => None
            | _ => S.ipv6_main fuel s2 (S.set_nth a pi value) (S pi) c
            end
          else None
      end
  end.

Lemma spec_main_S fuel s a pi c : S.ipv6_main (S fuel) s a pi c = spec_main_step fuel s a pi c.
Proof.
  destruct s as [|ch s']; [reflexivity|].
  cbn [S.ipv6_main spec_main_step].
  destruct (pi =? 8)%nat; [reflexivity|].
  destruct (ch =? 58); [reflexivity|].
  destruct (S.read_hex4 (ch :: s') 0 0) as [[value n] s1].
  destruct s1 as [|ch2 s2]; [reflexivity|].
  destruct ch2 as [|p]; [reflexivity|].
  do 7 (try (destruct p as [p|p|]; try reflexivity)).
Qed.

(* ---------- invariants ---------- *)

Definition inv (a : list N) (pi : nat) : Prop :=
  length a = 8%nat /\ (forall j, S.get_nth a j < 65536) /\ (forall j, (pi <= j)%nat -> S.get_nth a j = 0).

Definition enc (c : option nat) : nat := match c with Some k => k | None => O end.
Definition c_ok (c : option nat) (pi : nat) : Prop :=
  match c with Some k => (1 <= k <= pi)%nat | None => True end.

Lemma inv_set a pi v : inv a pi -> v < 65536 -> inv (S.set_nth a pi v) (S pi).
Proof.
  intros (Hl & Hb & Hz) Hv. split; [|split].
  - rewrite set_nth_length. exact Hl.
  - intro j. rewrite get_set_nth. destruct ((pi =? j)%nat && (pi <? length a)%nat); [exact Hv|apply Hb].
  - intros j Hj. rewrite get_set_nth.
    destruct (pi =? j)%nat eqn:E; [apply Nat.eqb_eq in E; lia|]. cbn [andb]. apply Hz. lia.
Qed.

Lemma inv_weaken a pi : inv a pi -> inv a (S pi).
Proof. intros (Hl & Hb & Hz). split; [exact Hl|split; [exact Hb|]]. intros j Hj. apply Hz. lia. Qed.

Lemma inv0 : inv [0;0;0;0;0;0;0;0] 0.
Proof.
  split; [reflexivity|]. split; intro j; [|intros _];
    (do 9 (try (destruct j as [|j]; [reflexivity|]))); destruct j; reflexivity.
Qed.

Lemma read_hex4_lt s : forall n val v' n' s1, (n <= 4)%nat -> val < bnd n ->
  S.read_hex4 s n val = (v', n', s1) -> v' < 65536.
Proof.
  induction s as [|ch s IH]; intros n val v' n' s1 Hn Hval E.
  - assert (v' = val).
    { destruct n as [|[|[|[|[|n]]]]]; cbn [S.read_hex4] in E; congruence. }
    subst. clear - Hn Hval. destruct n as [|[|[|[|[|n]]]]]; cbn [bnd] in Hval; lia.
  - assert (E' : S.read_hex4 (ch :: s) n val =
                 if (n =? 4)%nat then (val, n, ch :: s) else
                 if is_ascii_hex ch then S.read_hex4 s (S n) (val * 16 + hex_val ch) else (val, n, ch :: s)).
    { destruct n as [|[|[|[|[|n]]]]]; reflexivity. }
    rewrite E' in E. clear E'.
    destruct (n =? 4)%nat eqn:E4.
    + apply Nat.eqb_eq in E4. subst n. cbn [bnd] in Hval. congruence.
    + apply Nat.eqb_neq in E4. destruct (is_ascii_hex ch) eqn:Hc.
      * apply (IH (S n) (val * 16 + hex_val ch) v' n' s1); [lia| |exact E].
        pose proof (hex_val_lt ch Hc) as Hv. clear - Hn E4 Hval Hv.
        destruct n as [|[|[|[|n]]]]; cbn [bnd] in *; lia.
      * assert (v' = val) by congruence. subst. clear - Hn Hval.
        destruct n as [|[|[|[|[|n]]]]]; cbn [bnd] in Hval; lia.
Qed.

(* ---------- the embedded IPv4 part ---------- *)

Lemma piece_eq s : forall p,
  S.read_ipv4_piece s (Some p) =
  match I.ipv4_piece_digits s p with None => None | Some (q, r) => Some (Some q, r) end.
Proof.
  induction s as [|ch s IH]; intro p; [reflexivity|].
  cbn [S.read_ipv4_piece I.ipv4_piece_digits]. rewrite is_digit_spec.
  destruct (is_ascii_digit ch); [|reflexivity].
  destruct p as [|pp]; [reflexivity|].
  change (N.pos pp =? 0) with false. cbv iota.
  destruct (255 <? N.pos pp * 10 + (ch - 48)); [reflexivity|]. apply IH.
Qed.

Lemma piece_bound s : forall p q r, p <= 255 -> I.ipv4_piece_digits s p = Some (q, r) -> q <= 255.
Proof.
  induction s as [|ch s IH]; intros p q r Hp E; cbn [I.ipv4_piece_digits] in E.
  - congruence.
  - destruct (I.is_digit ch); [|congruence].
    destruct (p =? 0); [discriminate|].
    destruct (255 <? p * 10 + (ch - 48)) eqn:E2; [discriminate|].
    apply (IH _ q r) in E; [exact E|lia].
Qed.

Definition inv4 (a : list N) (pi ns : nat) : Prop :=
  length a = 8%nat /\ (forall j, S.get_nth a j < 65536) /\
  (forall j, (pi < j)%nat -> S.get_nth a j = 0) /\
  (if Nat.even ns then S.get_nth a pi = 0 else S.get_nth a pi < 256) /\
  (ns <= 4)%nat /\ (2 * pi + (if Nat.even ns then 0 else 1) + (4 - ns) <= 16)%nat.

Lemma ipv4_loop_eq fuel : forall s a pi ns, inv4 a pi ns ->
  I.ipv6_ipv4_tail fuel s a pi ns = S.ipv6_ipv4_loop fuel s a pi ns /\
  (forall a' pi' ns', S.ipv6_ipv4_loop fuel s a pi ns = Some (a', pi', ns') ->
     inv4 a' pi' ns' /\ (pi <= pi')%nat).
Proof.
  induction fuel as [|fuel IH]; intros s a pi ns Hinv.
  - split; [reflexivity|]. intros a' pi' ns' E. discriminate E.
  - destruct s as [|ch s'].
    + split; [reflexivity|]. intros a' pi' ns' E. cbn [S.ipv6_ipv4_loop] in E.
      injection E as <- <- <-. split; [exact Hinv|lia].
    + cbn [I.ipv6_ipv4_tail S.ipv6_ipv4_loop tl].
      match goal with |- context [if (0 <? ns)%nat then ?x else ?y] =>
        set (s1 := if (0 <? ns)%nat then x else y) end.
      assert (Hns : s1 <> None -> (ns < 4)%nat).
      { subst s1. destruct Hinv as (_ & _ & _ & _ & Hle & _).
        destruct (0 <? ns)%nat eqn:E0; [|intros _; apply Nat.ltb_ge in E0; lia].
        destruct ((ch =? 46) && (ns <? 4)%nat) eqn:E1; [|congruence].
        intros _. lia. }
      clearbody s1.
      destruct s1 as [s1|]; [|split; [reflexivity|discriminate]].
      specialize (Hns ltac:(discriminate)).
      destruct s1 as [|d s2]; [split; [reflexivity|discriminate]|].
      rewrite is_digit_spec.
      destruct (is_ascii_digit d) eqn:Hd; cbn [negb]; [|split; [reflexivity|discriminate]].
      cbn [S.read_ipv4_piece]. rewrite Hd. rewrite piece_eq.
      destruct (I.ipv4_piece_digits s2 (d - 48)) as [[q r]|] eqn:Ep; [|split; [reflexivity|discriminate]].
      assert (Hq : q <= 255).
      { apply (piece_bound s2 (d - 48) q r); [|exact Ep].
        clear - Hd. unfold is_ascii_digit in Hd. lia. }
      destruct Hinv as (Hl & Hb & Hz & Hp & Hle & Hpi).
      assert (Hval : S.get_nth a pi * 256 + q < 65536 /\
                     (Nat.even ns = true -> S.get_nth a pi * 256 + q < 256)).
      { clear - Hp Hq. destruct (Nat.even ns); lia. }
      destruct Hval as [Hv1 Hv2].
      assert (Hu : I.u16 (S.get_nth a pi * 256 + q) = S.get_nth a pi * 256 + q).
      { unfold I.u16. apply N.mod_small. exact Hv1. }
      rewrite Hu.
      assert (Hpar : (if (S ns =? 2)%nat || (S ns =? 4)%nat then S pi else pi) =
                     (if Nat.even (S ns) then S pi else pi)).
      { clear - Hns. destruct ns as [|[|[|[|ns]]]]; try reflexivity. lia. }
      rewrite Hpar.
      assert (Hinv' : inv4 (S.set_nth a pi (S.get_nth a pi * 256 + q))
                           (if Nat.even (S ns) then S pi else pi) (S ns)).
      { clear IH Hu Hpar Ep.
        set (v := S.get_nth a pi * 256 + q) in *.
        assert (Hg : forall j, S.get_nth (S.set_nth a pi v) j = if (pi =? j)%nat then v else S.get_nth a j).
        { intro j. rewrite get_set_nth. destruct (pi =? j)%nat eqn:E; [|reflexivity].
          cbn [andb]. destruct (pi <? length a)%nat eqn:E2; [reflexivity|].
          apply Nat.eqb_eq in E. subst j. apply Nat.ltb_ge in E2.
          clear - Hl E2 Hpi Hns. lia. }
        assert (Hev : Nat.even (S ns) = negb (Nat.even ns)).
        { clear. rewrite Nat.even_succ. rewrite <- Nat.negb_even. reflexivity. }
        unfold inv4. rewrite Hev.
        destruct (Nat.even ns) eqn:Een; cbn [negb].
        * (* ns even: the piece index stays, the cell holds one number < 256 *)
          split; [rewrite set_nth_length; exact Hl|]. split; [|split; [|split; [|split]]].
          -- intro j. rewrite Hg. destruct (pi =? j)%nat; [exact Hv1|apply Hb].
          -- intros j Hj. rewrite Hg. destruct (pi =? j)%nat eqn:E; [apply Nat.eqb_eq in E; lia|apply Hz; exact Hj].
          -- rewrite Hg, Nat.eqb_refl. apply Hv2. reflexivity.
          -- lia.
          -- clear - Hns Hpi. lia.
        * (* ns odd: the cell is complete, move to the next piece *)
          split; [rewrite set_nth_length; exact Hl|]. split; [|split; [|split; [|split]]].
          -- intro j. rewrite Hg. destruct (pi =? j)%nat; [exact Hv1|apply Hb].
          -- intros j Hj. rewrite Hg. destruct (pi =? j)%nat eqn:E; [apply Nat.eqb_eq in E; lia|apply Hz; lia].
          -- rewrite Hg.
             destruct (pi =? S pi)%nat eqn:E; [apply Nat.eqb_eq in E; lia|apply Hz; lia].
          -- lia.
          -- clear - Hns Hpi. lia. }
      destruct (IH r _ _ _ Hinv') as [E1 E2]. split; [exact E1|].
      intros a' pi' ns' E. destruct (E2 a' pi' ns' E) as [E3 E4]. split; [exact E3|].
      clear - E4. destruct (Nat.even (S ns)); lia.
Qed.

(* ---------- the finale: swaps (Standard) = shift loop (C++) ---------- *)

Definition spec_fin (a : list N) (pi : nat) (c : option nat) : option (list N) :=
  match c with
  | Some cmp => Some (S.ipv6_swaps 8 a 7 cmp (pi - cmp))
  | None => if (pi =? 8)%nat then Some a else None
  end.

Lemma finale_eq a pi c : inv a pi -> (pi <= 8)%nat -> c_ok c pi ->
  I.ipv6_finale a pi (enc c) = spec_fin a pi c.
Proof.
  intros (Hl & _ & Hz) Hpi Hc.
  destruct c as [k|]; cbn [enc spec_fin c_ok] in *.
  2:{ unfold I.ipv6_finale. cbn [Nat.eqb negb]. destruct (pi =? 8)%nat; reflexivity. }
  destruct a as [|a0 [|a1 [|a2 [|a3 [|a4 [|a5 [|a6 [|a7 [|a8 a]]]]]]]]]; try discriminate Hl.
  clear Hl.
  assert (Hpi' : (pi = 0 \/ pi = 1 \/ pi = 2 \/ pi = 3 \/ pi = 4 \/ pi = 5 \/ pi = 6 \/ pi = 7 \/ pi = 8)%nat) by lia.
  assert (Hk : (k = 1 \/ k = 2 \/ k = 3 \/ k = 4 \/ k = 5 \/ k = 6 \/ k = 7 \/ k = 8)%nat) by lia.
  repeat match type of Hpi' with _ \/ _ => destruct Hpi' as [Hpi'|Hpi'] end; subst pi;
  try (pose proof (Hz 0%nat ltac:(lia)) as E0; cbn in E0; subst a0);
  try (pose proof (Hz 1%nat ltac:(lia)) as E1; cbn in E1; subst a1);
  try (pose proof (Hz 2%nat ltac:(lia)) as E2; cbn in E2; subst a2);
  try (pose proof (Hz 3%nat ltac:(lia)) as E3; cbn in E3; subst a3);
  try (pose proof (Hz 4%nat ltac:(lia)) as E4; cbn in E4; subst a4);
  try (pose proof (Hz 5%nat ltac:(lia)) as E5; cbn in E5; subst a5);
  try (pose proof (Hz 6%nat ltac:(lia)) as E6; cbn in E6; subst a6);
  try (pose proof (Hz 7%nat ltac:(lia)) as E7; cbn in E7; subst a7);
  clear Hz;
  repeat match type of Hk with _ \/ _ => destruct Hk as [Hk|Hk] end; subst k;
  try lia; reflexivity.
Qed.

Lemma swaps_inv fuel : forall a pi c sw,
  (forall j, S.get_nth a j < 65536) ->
  length (S.ipv6_swaps fuel a pi c sw) = length a /\
  (forall j, S.get_nth (S.ipv6_swaps fuel a pi c sw) j < 65536).
Proof.
  induction fuel as [|fuel IH]; intros a pi c sw Hb; [split; [reflexivity|exact Hb]|].
  cbn [S.ipv6_swaps].
  destruct ((pi =? 0)%nat || (sw =? 0)%nat); [split; [reflexivity|exact Hb]|].
  cbv zeta.
  match goal with |- context [S.ipv6_swaps fuel ?a' _ _ _] => set (a1 := a') end.
  assert (Hb1 : forall j, S.get_nth a1 j < 65536).
  { intro j. subst a1. rewrite !get_set_nth.
    repeat match goal with |- context [if ?b then _ else _] => destruct b end; apply Hb. }
  destruct (IH a1 (pi - 1)%nat c (sw - 1)%nat Hb1) as [E1 E2].
  split; [|exact E2]. rewrite E1. subst a1. rewrite !set_nth_length. reflexivity.
Qed.

Lemma spec_fin_inv a pi c r : inv a pi -> spec_fin a pi c = Some r ->
  length r = 8%nat /\ Forall (fun p => p < 65536) r.
Proof.
  intros (Hl & Hb & _) E. destruct c as [k|]; cbn [spec_fin] in E.
  - assert (Er : r = S.ipv6_swaps 8 a 7 k (pi - k)) by congruence. subst r. clear E.
    destruct (swaps_inv 8 a 7 k (pi - k) Hb) as [E1 E2].
    split; [rewrite E1; exact Hl|]. apply Forall_get_nth. exact E2.
  - destruct (pi =? 8)%nat; [|discriminate]. injection E as E. subst r.
    split; [exact Hl|]. apply Forall_get_nth. exact Hb.
Qed.

(* ---------- the main loop ---------- *)

Definition spec_after (r : option (list N * nat * option nat)) : option (list N) :=
  match r with
  | None => None
  | Some (a, pi, c) => spec_fin a pi c
  end.

Definition impl_after (r : I.ip6_main_res) : option (list N) :=
  match r with
  | I.M6Err => None
  | I.M6Done a pi c => I.ipv6_finale a pi c
  | I.M6Ipv4 a pi c rest =>
      if (6 <? pi)%nat then None else
      match I.ipv6_ipv4_tail (S (length rest)) rest a pi 0 with
      | None => None
      | Some (a', pi', ns) => if negb (ns =? 4)%nat then None else I.ipv6_finale a' pi' c
      end
  end.

Lemma inv_inv4 a pi : inv a pi -> (pi <= 6)%nat -> inv4 a pi 0.
Proof.
  intros (Hl & Hb & Hz) Hpi. unfold inv4. cbn [Nat.even].
  split; [exact Hl|]. split; [exact Hb|]. split; [intros j Hj; apply Hz; lia|].
  split; [apply Hz; lia|]. lia.
Qed.

Lemma inv4_inv a pi : inv4 a pi 4 -> inv a pi /\ (pi <= 8)%nat.
Proof.
  unfold inv4. cbn [Nat.even]. intros (Hl & Hb & Hz & H0 & _ & Hpi).
  split; [|lia]. split; [exact Hl|]. split; [exact Hb|].
  intros j Hj. destruct (Nat.eq_dec j pi) as [->|Hne]; [exact H0|apply Hz; lia].
Qed.

Lemma c_ok_mono c pi pi' : c_ok c pi -> (pi <= pi')%nat -> c_ok c pi'.
Proof. destruct c as [k|]; cbn [c_ok]; [lia|auto]. Qed.

(* one induction gives both the agreement and the invariant of the Standard's result *)
Lemma main_eq fuel : forall s a pi c, inv a pi -> (pi <= 8)%nat -> c_ok c pi ->
  impl_after (I.ipv6_main fuel s a pi (enc c)) = spec_after (S.ipv6_main fuel s a pi c) /\
  (forall a' pi' c', S.ipv6_main fuel s a pi c = Some (a', pi', c') -> inv a' pi').
Proof.
  induction fuel as [|fuel IH]; intros s a pi c Hinv Hpi Hc; [split; [reflexivity|discriminate]|].
  rewrite spec_main_S.
  destruct s as [|ch s'].
  - cbn [I.ipv6_main spec_main_step impl_after spec_after]. split.
    + apply finale_eq; assumption.
    + intros a' pi' c' E. injection E as <- <- <-. exact Hinv.
  - cbn [I.ipv6_main spec_main_step].
    destruct (pi =? 8)%nat eqn:E8; [split; [reflexivity|discriminate]|].
    apply Nat.eqb_neq in E8.
    destruct (ch =? 58) eqn:E58.
    + destruct c as [k|]; cbn [enc c_ok] in *.
      * destruct (k =? 0)%nat eqn:Ek; [apply Nat.eqb_eq in Ek; lia|].
        cbn [negb]. split; [reflexivity|discriminate].
      * cbn [Nat.eqb negb].
        apply (IH s' a (S pi) (Some (S pi))); [apply inv_weaken; exact Hinv|lia|cbn [c_ok]; lia].
    + rewrite (get_hex_number_eq (ch :: s') 4 0 0 eq_refl eq_refl).
      destruct (S.read_hex4 (ch :: s') 0 0) as [[value n] s1] eqn:Er.
      assert (Hv : value < 65536).
      { apply (read_hex4_lt (ch :: s') 0 0 value n s1); [lia|reflexivity|exact Er]. }
      pose proof (inv_set a pi value Hinv Hv) as Hinv'.
      destruct s1 as [|ch2 s2].
      * apply (IH [] _ (S pi) c); [exact Hinv'|lia|apply (c_ok_mono c pi); [exact Hc|lia]].
      * destruct (ch2 =? 46).
        -- destruct (n =? 0)%nat; [split; [reflexivity|discriminate]|].
           cbn [impl_after].
           destruct (6 <? pi)%nat eqn:E6; [split; [reflexivity|discriminate]|].
           apply Nat.ltb_ge in E6.
           destruct (ipv4_loop_eq (S (length (ch :: s'))) (ch :: s') a pi 0 (inv_inv4 a pi Hinv E6))
             as [E1 E2].
           rewrite E1.
           destruct (S.ipv6_ipv4_loop (S (length (ch :: s'))) (ch :: s') a pi 0) as [[[a' pi'] ns]|];
             [|split; [reflexivity|discriminate]].
           destruct (E2 a' pi' ns eq_refl) as [E3 E4].
           destruct (ns =? 4)%nat eqn:En; cbn [negb]; [|split; [reflexivity|discriminate]].
           apply Nat.eqb_eq in En. subst ns. destruct (inv4_inv a' pi' E3) as [E5 E6'].
           cbn [spec_after]. split.
           ++ apply finale_eq; [exact E5|exact E6'|apply (c_ok_mono c pi); assumption].
           ++ intros a'' pi'' c'' E. injection E as <- <- <-. exact E5.
        -- destruct (ch2 =? 58); [|split; [reflexivity|discriminate]].
           destruct s2 as [|ch3 s3]; [split; [reflexivity|discriminate]|].
           apply (IH (ch3 :: s3) _ (S pi) c); [exact Hinv'|lia|apply (c_ok_mono c pi); [exact Hc|lia]].
Qed.

Definition addr0 : list N := [0;0;0;0;0;0;0;0].

Definition spec_start (input : str) : option (str * nat * option nat) :=
  match input with
  | ch :: rest =>
      if ch =? 58 then
        match rest with
        | ch1 :: rest' => if ch1 =? 58 then Some (rest', 1%nat, Some 1%nat) else None
        | [] => None
        end
      else Some (input, 0%nat, None)
  | [] => Some (input, 0%nat, None)
  end.

Lemma spec_parse_unfold input :
  S.ipv6_parse input =
  match spec_start input with
  | None => None
  | Some (s, pi, c) => spec_after (S.ipv6_main (S (length s)) s addr0 pi c)
  end.
Proof.
  unfold S.ipv6_parse, spec_start.
  destruct input as [|ch rest]; [reflexivity|].
  destruct ch as [|p]; [reflexivity|].
  do 7 (try (destruct p as [p|p|]; try reflexivity)).
  destruct rest as [|ch1 rest']; [reflexivity|].
  destruct ch1 as [|p]; [reflexivity|].
  do 7 (try (destruct p as [p|p|]; try reflexivity)).
Qed.

Lemma parse_eq s : I.ipv6_parse s = S.ipv6_parse s.
Proof.
  rewrite spec_parse_unfold. unfold I.ipv6_parse, spec_start.
  destruct s as [|c0 [|c1 rest]].
  - reflexivity.
  - (* one code unit: the C++ returns early *)
    destruct (c0 =? 58) eqn:E58; [reflexivity|].
    change (length [c0]) with 1%nat. rewrite !spec_main_S. cbn [spec_main_step Nat.eqb]. rewrite E58.
    destruct (S.read_hex4 [c0] 0 0) as [[value n] s1] eqn:Er.
    cbn [S.read_hex4] in Er.
    destruct (is_ascii_hex c0).
    + injection Er as <- <- <-. rewrite spec_main_S. reflexivity.
    + injection Er as <- <- <-. destruct (c0 =? 46); [reflexivity|]. rewrite E58. reflexivity.
  - destruct (c0 =? 58) eqn:E58.
    + destruct (c1 =? 58); [|reflexivity].
      apply (main_eq (S (length rest)) rest addr0 1 (Some 1%nat)).
      * apply inv_weaken. exact inv0.
      * lia.
      * cbn [c_ok]. lia.
    + apply (main_eq (S (length (c0 :: c1 :: rest))) (c0 :: c1 :: rest) addr0 0 None).
      * exact inv0.
      * lia.
      * exact I.
Qed.

Lemma parse_pieces s a : S.ipv6_parse s = Some a ->
  length a = 8%nat /\ Forall (fun p => p < 65536) a.
Proof.
  rewrite spec_parse_unfold.
  destruct (spec_start s) as [[[s0 pi] c]|] eqn:Es; [|discriminate].
  assert (Hi : inv addr0 pi /\ (pi <= 8)%nat /\ c_ok c pi).
  { unfold spec_start in Es. destruct s as [|ch rest].
    - injection Es as <- <- <-. split; [exact inv0|split; [lia|exact I]].
    - destruct (ch =? 58).
      + destruct rest as [|ch1 rest']; [discriminate|]. destruct (ch1 =? 58); [|discriminate].
        injection Es as <- <- <-. split; [apply inv_weaken; exact inv0|split; [lia|cbn [c_ok]; lia]].
      + injection Es as <- <- <-. split; [exact inv0|split; [lia|exact I]]. }
  destruct Hi as (H1 & H2 & H3).
  destruct (main_eq (S (length s0)) s0 addr0 pi c H1 H2 H3) as [_ Hres].
  destruct (S.ipv6_main (S (length s0)) s0 addr0 pi c) as [[[a' pi'] c']|]; [|discriminate].
  cbn [spec_after]. intro E. apply (spec_fin_inv a' pi' c' a); [|exact E].
  apply (Hres a' pi' c' eq_refl).
Qed.
