(* C01 / C05 — the whole write sequence of a parse, for URLs with a host and a list path:
   scheme, "//", credentials, host, port, path segments, commit_path, query, fragment, run through the model of
   url_serializer from the empty object, give (up to the trailing-offset freedom) the representation repr_of u of the
   record.  This is the statement Impl/Repr.v makes in its header ("repr_of u is the representation that
   url_serializer leaves after a fresh parse of the serialization of u"), proved against Impl/Serializer.v. *)
From Upa Require Import Base.Prelude Spec.Ip Spec.Url Impl.Repr Impl.Serializer.
From Upa Require Import Proofs.ReprProofs Proofs.SerializerProofs Proofs.SerializerParse.
From Upa Require Impl.TraceProto.
From Coq Require Import ZifyBool ZifyN ZifyNat.
Local Open Scope N_scope.

Definition opt_ops (k : nat) (fl : N) (o : option str) : list sop :=
  match o with Some t => [OStartPart k; OAppend t; OSavePart; OSetFlag fl] | None => [] end.

(* what a fresh parse of the serialization of such a record does *)
Definition emit_ops (sc us pw h : str) (ht : N) (po : option N) (segs : list str) (q fr : option str) : list sop :=
  auth_ops sc us pw h ht ++ opt_ops P_PORT 64 (option_map dec_str po) ++
  (flat_map cops (map PPush segs) ++ [OCommitPath]) ++ opt_ops P_QUERY 512 q ++ opt_ops P_FRAGMENT 1024 fr.

(* a state described by pieces: written up to part m-1, which is the last written part *)
Definition DS (s : sst) (ps : list str) (m : nat) (f c : N) : Prop :=
  PW ps m /\ s_r s = conc ps m f c /\ s_last s = (m - 1)%nat.

Lemma opt_step s ps m f c k fl o :
  DS s ps m f c -> (5 <= m)%nat -> (m <= k <= 10)%nat ->
  let s' := run false s (opt_ops k fl o) in
  s_file s' = s_file s /\
  match o with
  | Some t => DS s' (setp ps k (sepc k ++ t)) (S k) (N.lor f fl) c
  | None => DS s' ps m f c
  end.
Proof.
  intros [HPW [Hr Hl]] Hm Hk. destruct o as [t|]; cbn [opt_ops run fold_left step].
  - unfold v_start_part, v_save_part.
    destruct (start_append_save ps m f c k t s HPW Hm Hk Hr Hl) as [H1 H2]. cbv zeta in H1, H2.
    split.
    + cbn [w_r s_file]. unfold ser_save_part, do_append, ser_start_part.
      repeat match goal with |- context [if ?b then _ else _] => destruct b end;
      repeat match goal with |- context [let '(_, _) := ?x in _] => destruct x end; reflexivity.
    + split; [|split].
      * pose proof (setp_PW ps m k (sepc k ++ t) HPW ltac:(lia)) as HP. replace (Nat.max m (S k)) with (S k) in HP by lia. exact HP.
      * cbn [w_r s_r]. rewrite H1. reflexivity.
      * cbn [w_r s_last]. rewrite H2. lia.
  - split; [reflexivity|]. split; [exact HPW|split; assumption].
Qed.

Lemma fold_push file segs : forall acc, fold_left (pinterp file) (map PPush segs) acc = acc ++ segs.
Proof.
  induction segs as [|x t IH]; intro acc; cbn [map fold_left pinterp]; [rewrite app_nil_r; reflexivity|].
  rewrite IH, <- app_assoc. reflexivity.
Qed.

Lemma pushed_ok_map segs : Forall no47 segs -> pushed_ok (map PPush segs).
Proof. intro H. unfold pushed_ok. induction H; cbn [map]; constructor; assumption. Qed.

Lemma auth_PW sc us pw h : sc <> [] -> PW (auth_pieces sc us pw h) 6.
Proof.
  intro Hs. unfold auth_pieces. split; [reflexivity|lia|exact Hs|].
  intros k Hk. do 6 (destruct k as [|k]; [lia|]). do 5 (destruct k as [|k]; [reflexivity|]). destruct k; reflexivity.
Qed.

Lemma host_flags_bit11 ht : (ht <= 4) -> N.testbit (host_flags 269 ht) 11 = false /\ N.testbit (N.lor (host_flags 269 ht) 64) 11 = false.
Proof.
  intro H. assert (Hc : ht = 0 \/ ht = 1 \/ ht = 2 \/ ht = 3 \/ ht = 4) by lia.
  destruct Hc as [->|[->|[->|[->| ->]]]]; split; reflexivity.
Qed.

Theorem emit_repr sc us pw H po segs q fr :
  sc <> [] -> Forall no47 segs ->
  let u := mkurl sc us pw (Some H) po (PList segs) q fr in
  norm_tail (s_r (run false empty_sst (emit_ops sc us pw (host_serialize H) (host_type_num H) po segs q fr))) = repr_of u.
Proof.
  intros Hsc Hno. cbv zeta. unfold emit_ops.
  set (pops := flat_map cops (map PPush segs) ++ [OCommitPath]). rewrite !run_app. subst pops.
  set (h := host_serialize H). set (ht := host_type_num H).
  assert (Hht : ht <= 4) by (unfold ht; destruct H; cbn; lia).
  (* 1. authority *)
  destruct (ser_authority sc us pw h ht) as [Hr0 [Hl0 Hf0]]. cbv zeta in Hr0, Hl0, Hf0.
  set (s0 := run false empty_sst (auth_ops sc us pw h ht)) in *.
  set (A := auth_pieces sc us pw h) in *. set (f0 := host_flags 269 ht) in *.
  assert (HD0 : DS s0 A 6 f0 0) by (split; [apply auth_PW; exact Hsc|split; [exact Hr0|exact Hl0]]).
  (* 2. port *)
  destruct (opt_step s0 A 6 f0 0 P_PORT 64 (option_map dec_str po) HD0 ltac:(lia) ltac:(unfold P_PORT; lia)) as [Hfile1 HD1].
  cbv zeta in Hfile1, HD1. set (s1 := run false s0 (opt_ops P_PORT 64 (option_map dec_str po))) in *.
  (* describe the state after the port uniformly *)
  set (ps1 := match po with Some p => setp A 6 (sepc 6 ++ dec_str p) | None => A end).
  set (m1 := match po with Some _ => 7%nat | None => 6%nat end).
  set (f1 := match po with Some _ => N.lor f0 64 | None => f0 end).
  assert (HD1' : DS s1 ps1 m1 f1 0) by (unfold ps1, m1, f1; destruct po; exact HD1).
  clear HD1. destruct HD1' as [HPW1 [Hr1 Hl1]].
  assert (Hm1 : (5 <= m1 <= 8)%nat) by (unfold m1; destruct po; lia).
  assert (Hb11 : N.testbit f1 11 = false) by (unfold f1, f0; destruct (host_flags_bit11 ht Hht); destruct po; assumption).
  assert (H71 : nth 7 ps1 [] = []).
  { unfold ps1. destruct po; [rewrite nth_setp by (unfold A, auth_pieces; cbn; lia)|]; reflexivity. }
  (* 3. path *)
  destruct (ser_pathname_raw ps1 m1 f1 HPW1 Hm1 Hb11 H71 (map PPush segs) s1 (s_file s1) Hr1 Hl1 eq_refl (pushed_ok_map segs Hno))
    as [Hfile2 Hraw]. cbv zeta in Hfile2, Hraw. rewrite fold_push in Hraw. cbn [app] in Hraw.
  set (s2 := run false s1 (flat_map cops (map PPush segs) ++ [OCommitPath])) in *.
  set (ps2 := match segs with [] => ps1 | _ => setp (setp ps1 8 (pstr segs)) 7 (new_prefix f1 segs) end).
  set (m2 := match segs with [] => m1 | _ => 9%nat end).
  set (c2 := N.of_nat (length segs)).
  assert (HD2 : DS s2 ps2 m2 f1 c2).
  { unfold ps2, m2, c2. destruct Hraw as [[Hs0 [Hr2 Hl2]]|[Hr2 Hl2]].
    - rewrite Hs0. split; [exact HPW1|split; assumption].
    - destruct segs as [|x t].
      + (* no segment: the last written part cannot have become PATH *)
        exfalso. assert (Hsame : s_last s2 = s_last s1) by reflexivity.
        rewrite Hl2, Hl1 in Hsame. unfold P_PATH in Hsame. lia.
      + split; [|split; [exact Hr2|exact Hl2]].
        pose proof (setp_PW ps1 m1 8 (pstr (x :: t)) HPW1 ltac:(lia)) as HP8. replace (Nat.max m1 9) with 9%nat in HP8 by lia.
        pose proof (setp_PW _ 9 7 (new_prefix f1 (x :: t)) HP8 ltac:(lia)) as HP7. replace (Nat.max 9 8) with 9%nat in HP7 by lia. exact HP7. }
  destruct HD2 as [HPW2 [Hr2 Hl2]].
  assert (Hm2 : (5 <= m2 <= 9)%nat) by (unfold m2; destruct segs; lia).
  (* 4. query *)
  destruct (opt_step s2 ps2 m2 f1 c2 P_QUERY 512 q (conj HPW2 (conj Hr2 Hl2)) ltac:(lia) ltac:(unfold P_QUERY; lia)) as [_ HD3].
  cbv zeta in HD3. set (s3 := run false s2 (opt_ops P_QUERY 512 q)) in *.
  set (ps3 := match q with Some t => setp ps2 9 (sepc 9 ++ t) | None => ps2 end).
  set (m3 := match q with Some _ => 10%nat | None => m2 end).
  set (f3 := match q with Some _ => N.lor f1 512 | None => f1 end).
  assert (HD3' : DS s3 ps3 m3 f3 c2) by (unfold ps3, m3, f3; destruct q; exact HD3).
  clear HD3. assert (Hm3 : (5 <= m3 <= 10)%nat) by (unfold m3; destruct q; lia).
  (* 5. fragment *)
  destruct (opt_step s3 ps3 m3 f3 c2 P_FRAGMENT 1024 fr HD3' ltac:(lia) ltac:(unfold P_FRAGMENT; lia)) as [_ HD4].
  cbv zeta in HD4. set (s4 := run false s3 (opt_ops P_FRAGMENT 1024 fr)) in *.
  set (ps4 := match fr with Some t => setp ps3 10 (sepc 10 ++ t) | None => ps3 end).
  set (m4 := match fr with Some _ => 11%nat | None => m3 end).
  set (f4 := match fr with Some _ => N.lor f3 1024 | None => f3 end).
  assert (HD4' : DS s4 ps4 m4 f4 c2) by (unfold ps4, m4, f4; destruct fr; exact HD4).
  clear HD4. destruct HD4' as [HPW4 [Hr4 _]].
  rewrite Hr4, (norm_tail_conc ps4 m4 f4 c2 HPW4), repr_of_conc.
  (* 6. the pieces, the flags and the counter are those of the record *)
  assert (Hb5 : N.testbit f1 5 = true).
  { unfold f1, f0. assert (Hc : ht = 0 \/ ht = 1 \/ ht = 2 \/ ht = 3 \/ ht = 4) by lia.
    destruct Hc as [->|[->|[->|[->| ->]]]]; destruct po; reflexivity. }
  assert (Hnp : forall sg, new_prefix f1 sg = []) by (intro sg; unfold new_prefix; rewrite Hb5; reflexivity).
  f_equal.
  - (* pieces *)
    unfold ps4, ps3, ps2, ps1, A, auth_pieces, pieces, includes_credentials, path_prefix, path_serialize.
    cbn [scheme username password uhost port path query fragment is_some]. rewrite pstr_flat_map.
    destruct po; destruct segs as [|x t]; destruct q; destruct fr; destruct us as [|u0 us']; destruct pw as [|p0 pw'];
      rewrite ?Hnp;
      cbv [setp splice middle firstn skipn app Nat.eqb Nat.sub repeat N.to_nat Pos.to_nat Pos.iter_op Nat.add sepc
           P_PORT P_QUERY P_FRAGMENT option_map str_eqb negb orb andb N.eqb Pos.eqb];
      reflexivity.
  - (* flags *)
    unfold f4, f3, f1, f0, flags_of, flags_bits, has_opaque_path, host_flags, ht.
    cbn [uhost port query fragment path is_some].
    destruct H; destruct po; destruct q; destruct fr; reflexivity.
Qed.

(* the sequence the extracted model prints for `parsetrace` (Impl/TraceProto.v) is the one of the theorem *)
Lemma flat_map_push segs :
  flat_map (fun x => [OStartPathSeg; OAppend x; OSavePathSeg]) segs = flat_map cops (map PPush segs).
Proof. induction segs as [|x t IH]; [reflexivity|]. cbn [flat_map map cops app]. rewrite IH. reflexivity. Qed.

Lemma emit_ops_m_eq u H segs :
  Impl.TraceProto.emit_ops_m u H segs =
  emit_ops (scheme u) (username u) (password u) (host_serialize H) (host_type_num H) (port u) segs (query u) (fragment u).
Proof.
  unfold Impl.TraceProto.emit_ops_m, emit_ops, auth_ops, Impl.TraceProto.opt_ops_m, opt_ops. rewrite flat_map_push.
  rewrite <- !app_assoc. reflexivity.
Qed.
