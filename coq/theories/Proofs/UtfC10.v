(* Lemmas behind Properties_C10: consequences of Proofs/UtfFacts.v. *)
From Upa Require Import Base.Prelude Spec.Utf Impl.Tables Impl.Utf Proofs.UtfFacts.
From Coq Require Import ZifyBool ZifyN ZifyNat.
Local Open Scope N_scope.
Local Ltac Zify.zify_post_hook ::= Z.div_mod_to_equations.

Lemma dec8 : forall bs, bytes_ok bs -> Impl.Utf.decode U8 bs = Spec.Utf.utf8_decode bs.
Proof. exact (impl_decode_spec U8). Qed.
Lemma dec16 : forall us, units16_ok us -> Impl.Utf.decode U16 us = Spec.Utf.utf16_decode us.
Proof. exact (impl_decode_spec U16). Qed.
Lemma dec32 : forall us, units32_ok us -> Impl.Utf.decode U32 us = Spec.Utf.utf32_decode us.
Proof. exact (impl_decode_spec U32). Qed.

Lemma decode_scalars : forall e s, units_ok e s -> scalars_ok (Impl.Utf.decode e s).
Proof. intros e s H. rewrite impl_decode_spec by exact H. apply spec_decode_scalars. exact H. Qed.

Lemma roundtrip8 : forall s, scalars_ok s -> Impl.Utf.decode U8 (utf8_encode s) = s.
Proof.
  intros s H. rewrite dec8 by (apply utf8_encode_bytes; exact H). apply utf8_decode_encode. exact H.
Qed.

(* ---------- UTF-16 ---------- *)
Lemma utf16_encode_cp_units c : is_scalar c = true -> units16_ok (utf16_encode_cp c).
Proof.
  intro Hs. unfold is_scalar in Hs. unfold utf16_encode_cp, units16_ok.
  destruct (N.leb_spec c 65535); repeat constructor; lia.
Qed.

Lemma utf16_encode_units s : scalars_ok s -> units16_ok (utf16_encode s).
Proof.
  intro Hs. unfold utf16_encode, units16_ok. induction Hs as [|c s Hc Hs IH]; [constructor|].
  cbn [flat_map]. apply Forall_app. split; [apply utf16_encode_cp_units; exact Hc|exact IH].
Qed.

Lemma utf16_decode_encode_cp_app c Y : is_scalar c = true ->
  utf16_decode (utf16_encode_cp c ++ Y) = c :: utf16_decode Y.
Proof.
  intro Hs. unfold is_scalar in Hs. unfold utf16_encode_cp.
  destruct (N.leb_spec c 65535) as [L|L]; cbn [app utf16_decode].
  - assert (is_lead c = false) as -> by (unfold is_lead; lia).
    assert (is_trail c = false) as -> by (unfold is_trail; lia). reflexivity.
  - set (h := 55296 + (c - 65536) / 1024). set (l := 56320 + (c - 65536) mod 1024).
    assert (is_lead h = true) as -> by (unfold is_lead; subst h; lia).
    assert (is_trail l = true) as -> by (unfold is_trail; subst l; lia).
    f_equal. subst h l. lia.
Qed.

Lemma utf16_decode_encode s : scalars_ok s -> utf16_decode (utf16_encode s) = s.
Proof.
  intro Hs. induction Hs as [|c s Hc Hs IH]; [reflexivity|].
  unfold utf16_encode. cbn [flat_map]. rewrite utf16_decode_encode_cp_app by exact Hc.
  unfold utf16_encode in IH. rewrite IH. reflexivity.
Qed.

Lemma roundtrip16 : forall s, scalars_ok s -> Impl.Utf.decode U16 (utf16_encode s) = s.
Proof.
  intros s H. rewrite dec16 by (apply utf16_encode_units; exact H). apply utf16_decode_encode. exact H.
Qed.

(* ---------- UTF-32 ---------- *)
Lemma scalars_units32 s : scalars_ok s -> units32_ok s.
Proof.
  intro Hs. unfold units32_ok. induction Hs as [|c s Hc Hs IH]; constructor; [|exact IH].
  unfold is_scalar in Hc. lia.
Qed.

Lemma utf32_decode_scalars_id s : scalars_ok s -> utf32_decode s = s.
Proof.
  intro Hs. unfold utf32_decode. induction Hs as [|c s Hc Hs IH]; [reflexivity|].
  cbn [map]. rewrite Hc, IH. reflexivity.
Qed.

Lemma roundtrip32 : forall s, scalars_ok s -> Impl.Utf.decode U32 s = s.
Proof.
  intros s H. rewrite dec32 by (apply scalars_units32; exact H). apply utf32_decode_scalars_id. exact H.
Qed.

(* ---------- encoders over strings ---------- *)
Lemma flat_map_append_utf8 s : scalars_ok s -> flat_map append_utf8 s = utf8_encode s.
Proof.
  intro Hs. unfold utf8_encode. induction Hs as [|c s Hc Hs IH]; [reflexivity|].
  cbn [flat_map]. rewrite (append_utf8_spec c Hc), IH. reflexivity.
Qed.

Lemma flat_map_append_utf16 s : scalars_ok s -> flat_map append_utf16 s = utf16_encode s.
Proof.
  intro Hs. unfold utf16_encode. induction Hs as [|c s Hc Hs IH]; [reflexivity|].
  cbn [flat_map]. rewrite (append_utf16_spec c Hc), IH. reflexivity.
Qed.

Lemma to_utf8_string_spec : forall e s, units_ok e s ->
  Impl.Utf.to_utf8_string e s = utf8_encode (spec_decode e s).
Proof.
  intros e s H. unfold to_utf8_string. rewrite impl_decode_spec by exact H.
  apply flat_map_append_utf8. apply spec_decode_scalars. exact H.
Qed.

Lemma convert_utf8_to_utf16_spec : forall bs, bytes_ok bs ->
  Impl.Utf.convert_utf8_to_utf16 bs = utf16_encode (utf8_decode bs).
Proof.
  intros bs H. unfold convert_utf8_to_utf16. rewrite dec8 by exact H.
  apply flat_map_append_utf16. apply utf8_decode_scalars. exact H.
Qed.

Lemma encoding_independent : forall e1 e2 s1 s2, units_ok e1 s1 -> units_ok e2 s2 ->
  spec_decode e1 s1 = spec_decode e2 s2 -> Impl.Utf.decode e1 s1 = Impl.Utf.decode e2 s2.
Proof.
  intros e1 e2 s1 s2 H1 H2 E. rewrite (impl_decode_spec e1 s1 H1), (impl_decode_spec e2 s2 H2). exact E.
Qed.

(* the out-of-bounds outcome of the model is unreachable on a non-empty range *)
Lemma no_oob : forall e s, s <> [] -> Impl.Utf.read_code_point e s <> None.
Proof.
  intros e s Hne. destruct s as [|x s']; [contradiction|]. clear Hne.
  destruct e; unfold read_code_point, read_code_point8, read_code_point16, read_code_point32; cbv zeta;
    repeat match goal with
    | |- context [if ?c then _ else _] => destruct c
    | |- context [match ?l with [] => _ | _ :: _ => _ end] => destruct l
    end; discriminate.
Qed.
