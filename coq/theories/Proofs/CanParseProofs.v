(* C09: url::can_parse (the parser run with need_save = false) succeeds exactly when the
   saving parse succeeds.  A block-by-block simulation between the two runs of
   Impl.Parser.url_parse (c_save = true / c_save = false, no state override).

   What the blocks read of the url under construction for control flow is its scheme only
   (is_special, is_file, the authority end predicate, default_port); of the base they read —
   when c_save = false — presence, scheme and has_opaque_path.  Both facts are proved here,
   the first as the simulation [url_parse_sim], the second as [url_parse_nosave_base]. *)
From Upa Require Import Base.Prelude Spec.CodePoints Spec.Utf Spec.Percent Spec.Ip Spec.Url
  Impl.Tables Impl.Parser.
Local Open Scope N_scope.

(* position of the block that handles a state in the chain of url_parse *)
Definition rank (st : pstate) : nat :=
  match st with
  | SchemeStart => 0 | Scheme => 1 | NoScheme => 2 | SpecialRelativeOrAuthority => 3
  | PathOrAuthority => 4 | Relative => 5 | RelativeSlash => 6 | SpecialAuthoritySlashes => 7
  | SpecialAuthorityIgnoreSlashes => 8 | Authority => 9 | Host => 10 | Hostname => 10
  | Port => 11 | File => 12 | FileSlash => 13 | FileHost => 14
  | PathStart => 16 | Path => 17 | OpaquePath => 18 | Query => 19 | Fragment => 20
  end%nat.

Definition okb (r : presult) : bool := match r with POk _ => true | _ => false end.

(* ---------- what the url operations keep ---------- *)
Lemma scheme_copy_uhp u b : scheme (copy_userinfo_host_port u b) = scheme u.
Proof. reflexivity. Qed.
Lemma scheme_ser_rem_last u : scheme (ser_rem_last u) = scheme u.
Proof. unfold ser_rem_last. destruct (path u); reflexivity. Qed.
Lemma scheme_copy_path u b op : scheme (copy_path u b op) = scheme u.
Proof.
  unfold copy_path. destruct op; cbn zeta; try reflexivity.
  - destruct (path b); [reflexivity | rewrite scheme_ser_rem_last; reflexivity].
  - destruct (path b) as [|l]; [reflexivity|]. destruct l as [|x [|y l]]; try reflexivity.
    destruct (_ && _); reflexivity.
Qed.
Lemma scheme_ser_append u s : scheme (ser_append_segment u s) = scheme u.
Proof. unfold ser_append_segment. destruct (path u); reflexivity. Qed.
Lemma hop_ser_append u s : has_opaque_path (ser_append_segment u s) = has_opaque_path u.
Proof. unfold ser_append_segment, has_opaque_path. destruct (path u) eqn:E; cbn; rewrite ?E; reflexivity. Qed.
Lemma scheme_ser_shorten u : scheme (ser_shorten_path u) = scheme u.
Proof.
  unfold ser_shorten_path. destruct (path u) as [|l]; [reflexivity|].
  destruct l as [|x [|y l]]; try reflexivity. destruct (_ && _); reflexivity.
Qed.
Lemma hop_ser_shorten u : has_opaque_path (ser_shorten_path u) = has_opaque_path u.
Proof.
  unfold ser_shorten_path, has_opaque_path. destruct (path u) as [|l] eqn:E; [rewrite E; reflexivity|].
  destruct l as [|x [|y l]]; cbn; rewrite ?E; try reflexivity.
  destruct (_ && _); cbn; rewrite ?E; reflexivity.
Qed.

Lemma parse_path_loop_keeps fuel : forall p u,
  scheme (parse_path_loop fuel p u) = scheme u /\
  has_opaque_path (parse_path_loop fuel p u) = has_opaque_path u.
Proof.
  induction fuel as [|fuel IH]; intros p u; [split; reflexivity|].
  cbn [parse_path_loop].
  destruct (break_at _ p) as [seg rest].
  set (u' := if double_dot seg then _ else _).
  assert (Hu' : scheme u' = scheme u /\ has_opaque_path u' = has_opaque_path u).
  { subst u'.
    destruct (double_dot seg).
    { destruct rest; rewrite ?scheme_ser_append, ?hop_ser_append, ?scheme_ser_shorten, ?hop_ser_shorten; split; reflexivity. }
    destruct (single_dot seg).
    { destruct rest; rewrite ?scheme_ser_append, ?hop_ser_append; split; reflexivity. }
    destruct seg as [|a [|b [|c seg]]]; try (rewrite ?scheme_ser_append, ?hop_ser_append; split; reflexivity).
    destruct (_ && _); rewrite ?scheme_ser_append, ?hop_ser_append; split; reflexivity. }
  clearbody u'. destruct rest as [|r rest']; [exact Hu'|].
  destruct (IH rest' u') as [H1 H2]. destruct Hu' as [H3 H4]. split; congruence.
Qed.
Lemma scheme_parse_path p u : scheme (parse_path p u) = scheme u.
Proof. apply parse_path_loop_keeps. Qed.
Lemma hop_parse_path p u : has_opaque_path (parse_path p u) = has_opaque_path u.
Proof. apply parse_path_loop_keeps. Qed.

(* ---------- tactics ---------- *)
(* case analysis on every match whose scrutinee contains no other match *)
Ltac crunch :=
  repeat match goal with
  | |- context [match ?x with _ => _ end] =>
      lazymatch x with
      | context [match _ with _ => _ end] => fail
      | _ => destruct x; cbv beta iota; cbn [andb orb negb]
      end
  end.

Ltac ctx_simpl :=
  cbn [c_base c_override c_save c_orig has_ov is_some is_none negb andb orb save ignored];
  unfold authority_end_pred; unfold is_special, is_file;
  cbn [c_base c_override c_save c_orig has_ov is_some is_none negb andb orb save ignored scheme
       set_scheme set_username set_password set_host set_port set_path set_query set_fragment].

(* the part of the url being built that matters: the scheme always; the opaque-path flag
   only for the statement about a parse without base (with a base, "#f" against an opaque
   base copies the base's path only when saving) *)
Definition rel (base : option url) (u1 u2 : url) : Prop :=
  scheme u1 = scheme u2 /\ (base = None -> has_opaque_path u1 = has_opaque_path u2).

(* the OpaquePath state is only entered with the opaque-path flag set *)
Definition opq (st : pstate) (u : url) : Prop := st = OpaquePath -> has_opaque_path u = true.

Definition sim (k : nat) (base : option url) (f1 f2 : flow) : Prop :=
  match f1, f2 with
  | Go st1 p1 u1, Go st2 p2 u2 =>
      st1 = st2 /\ p1 = p2 /\ (k <=? rank st1)%nat = true /\ opq st1 u1 /\ rel base u1 u2
  | Stop (POk r1), Stop (POk r2) => rel base r1 r2
  | Stop (PFail _), Stop (PFail _) => True
  | _, _ => False
  end.

(* relation after blk_file_host / blk_nosave_exit: the non-saving run may already have
   returned ok while the saving run still has the path states in front of it *)
Definition fin (base : option url) (f1 f2 : flow) : Prop :=
  match f1, f2 with
  | Go st1 p1 u1, Go st2 p2 u2 =>
      st1 = st2 /\ p1 = p2 /\ (15 <=? rank st1)%nat = true /\ opq st1 u1 /\ rel base u1 u2
  | Go st1 p1 u1, Stop (POk r2) => (15 <=? rank st1)%nat = true /\ opq st1 u1 /\ rel base u1 r2
  | Stop (POk r1), Stop (POk r2) => rel base r1 r2
  | Stop (PFail _), Stop (PFail _) => True
  | _, _ => False
  end.

Ltac rel_tac :=
  unfold rel;
  rewrite ?scheme_copy_path, ?scheme_copy_uhp, ?scheme_ser_append, ?scheme_copy_path;
  split; [ reflexivity
         | first [ let Hx := fresh in intro Hx; discriminate Hx | assumption | intros _; reflexivity ] ].

Ltac opq_tac :=
  unfold opq; first [ let Hx := fresh in intro Hx; discriminate Hx | intros _; reflexivity | assumption ].

Ltac finish :=
  cbn [sim fin rank Nat.leb];
  lazymatch goal with
  | |- True => exact I
  | _ => repeat lazymatch goal with |- _ /\ _ => split; [first [reflexivity | opq_tac]|] end; rel_tac
  end.

(* entry into a block lemma: sort out the shapes of the two flows *)
Ltac enter H u1 u2 Hs Hhop :=
  match goal with
  | |- forall f1 f2, sim _ _ f1 f2 -> _ =>
      intros [st1 p1 u1 | [r1 | r1 |]] [st2 p2 u2 | [r2 | r2 |]] H; cbn [sim] in H; try contradiction;
      [ destruct H as (<- & <- & H & Hopq & [Hs Hhop]);
        destruct st1; cbn [rank Nat.leb] in H; try discriminate H
      | | ]
  end.

(* a state the block does not handle passes through *)
Ltac pass :=
  cbn [sim fin rank Nat.leb]; (repeat split; try reflexivity); assumption.

Ltac open_urls u1 u2 Hs :=
  destruct u1 as [s1 un1 pw1 h1 pt1 pa1 q1 fr1], u2 as [s2 un2 pw2 h2 pt2 pa2 q2 fr2];
  cbn [scheme] in Hs; subst s2.

Section C09.
Variable idna : list N -> option (list N).

Notation cS base orig := (mk_ctx base None true orig).
Notation cN base orig := (mk_ctx base None false orig).

Lemma sim_scheme_start base orig : forall f1 f2, sim 0 base f1 f2 ->
  sim 1 base (blk_scheme_start (cS base orig) f1) (blk_scheme_start (cN base orig) f2).
Proof.
  enter H u1 u2 Hs Hhop; cbv beta iota zeta delta [blk_scheme_start]; try pass; try exact H.
  all: open_urls u1 u2 Hs; ctx_simpl; crunch; finish.
Qed.

Lemma sim_scheme base orig : forall f1 f2, sim 1 base f1 f2 ->
  sim 2 base (blk_scheme (cS base orig) f1) (blk_scheme (cN base orig) f2).
Proof.
  enter H u1 u2 Hs Hhop; cbv beta iota zeta delta [blk_scheme]; try pass; try exact H.
  all: open_urls u1 u2 Hs; ctx_simpl; crunch; finish.
Qed.

Lemma sim_no_scheme base orig : forall f1 f2, sim 2 base f1 f2 ->
  sim 3 base (blk_no_scheme (cS base orig) f1) (blk_no_scheme (cN base orig) f2).
Proof.
  enter H u1 u2 Hs Hhop; cbv beta iota zeta delta [blk_no_scheme]; try pass; try exact H.
  all: open_urls u1 u2 Hs; ctx_simpl; crunch; finish.
Qed.

Lemma sim_special_relative_or_authority base orig : forall f1 f2, sim 3 base f1 f2 ->
  sim 4 base (blk_special_relative_or_authority (cS base orig) f1) (blk_special_relative_or_authority (cN base orig) f2).
Proof.
  enter H u1 u2 Hs Hhop; cbv beta iota zeta delta [blk_special_relative_or_authority]; try pass; try exact H.
  all: open_urls u1 u2 Hs; ctx_simpl; crunch; finish.
Qed.

Lemma sim_path_or_authority base orig : forall f1 f2, sim 4 base f1 f2 ->
  sim 5 base (blk_path_or_authority (cS base orig) f1) (blk_path_or_authority (cN base orig) f2).
Proof.
  enter H u1 u2 Hs Hhop; cbv beta iota zeta delta [blk_path_or_authority]; try pass; try exact H.
  all: open_urls u1 u2 Hs; ctx_simpl; crunch; finish.
Qed.

Lemma sim_relative base orig : forall f1 f2, sim 5 base f1 f2 ->
  sim 6 base (blk_relative (cS base orig) f1) (blk_relative (cN base orig) f2).
Proof.
  enter H u1 u2 Hs Hhop; cbv beta iota zeta delta [blk_relative]; try pass; try exact H.
  all: open_urls u1 u2 Hs; ctx_simpl; crunch; finish.
Qed.

Lemma sim_relative_slash base orig : forall f1 f2, sim 6 base f1 f2 ->
  sim 7 base (blk_relative_slash (cS base orig) f1) (blk_relative_slash (cN base orig) f2).
Proof.
  enter H u1 u2 Hs Hhop; cbv beta iota zeta delta [blk_relative_slash]; try pass; try exact H.
  all: open_urls u1 u2 Hs; ctx_simpl; crunch; finish.
Qed.

Lemma sim_special_authority_slashes base orig : forall f1 f2, sim 7 base f1 f2 ->
  sim 8 base (blk_special_authority_slashes (cS base orig) f1) (blk_special_authority_slashes (cN base orig) f2).
Proof.
  enter H u1 u2 Hs Hhop; cbv beta iota zeta delta [blk_special_authority_slashes]; try pass; try exact H.
  all: open_urls u1 u2 Hs; ctx_simpl; crunch; finish.
Qed.

Lemma sim_special_authority_ignore_slashes base orig : forall f1 f2, sim 8 base f1 f2 ->
  sim 9 base (blk_special_authority_ignore_slashes (cS base orig) f1) (blk_special_authority_ignore_slashes (cN base orig) f2).
Proof.
  enter H u1 u2 Hs Hhop; cbv beta iota zeta delta [blk_special_authority_ignore_slashes]; try pass; try exact H.
  all: open_urls u1 u2 Hs; ctx_simpl; crunch; finish.
Qed.

Lemma sim_authority base orig : forall f1 f2, sim 9 base f1 f2 ->
  sim 10 base (blk_authority (cS base orig) f1) (blk_authority (cN base orig) f2).
Proof.
  enter H u1 u2 Hs Hhop; cbv beta iota zeta delta [blk_authority]; try pass; try exact H.
  all: open_urls u1 u2 Hs; ctx_simpl; crunch; finish.
Qed.

Lemma sim_port base orig : forall f1 f2, sim 11 base f1 f2 ->
  sim 12 base (blk_port (cS base orig) f1) (blk_port (cN base orig) f2).
Proof.
  enter H u1 u2 Hs Hhop; cbv beta iota zeta delta [blk_port]; try pass; try exact H.
  all: open_urls u1 u2 Hs; ctx_simpl; crunch; finish.
Qed.

Lemma sim_file base orig : forall f1 f2, sim 12 base f1 f2 ->
  sim 13 base (blk_file (cS base orig) f1) (blk_file (cN base orig) f2).
Proof.
  enter H u1 u2 Hs Hhop; cbv beta iota zeta delta [blk_file]; try pass; try exact H.
  all: open_urls u1 u2 Hs; ctx_simpl; crunch; finish.
Qed.

Lemma sim_file_slash base orig : forall f1 f2, sim 13 base f1 f2 ->
  sim 14 base (blk_file_slash (cS base orig) f1) (blk_file_slash (cN base orig) f2).
Proof.
  enter H u1 u2 Hs Hhop; cbv beta iota zeta delta [blk_file_slash]; try pass; try exact H.
  all: open_urls u1 u2 Hs; ctx_simpl; crunch; finish.
Qed.

Lemma sim_file_host base orig : forall f1 f2, sim 14 base f1 f2 ->
  fin base (blk_file_host idna (cS base orig) f1) (blk_file_host idna (cN base orig) f2).
Proof.
  enter H u1 u2 Hs Hhop; cbv beta iota zeta delta [blk_file_host]; try pass; try exact H.
  all: open_urls u1 u2 Hs; ctx_simpl; crunch; finish.
Qed.

Lemma sim_host base orig : forall f1 f2, sim 10 base f1 f2 ->
  sim 11 base (blk_host idna (cS base orig) f1) (blk_host idna (cN base orig) f2).
Proof.
  enter H u1 u2 Hs Hhop; cbv beta iota zeta delta [blk_host]; cbn [pstate_eqb orb]; try pass; try exact H.
  all: open_urls u1 u2 Hs; ctx_simpl.
  all: destruct (break_at _ p1) as [auth rest];
       destruct (host_end_scan auth false []) as [[hosttxt afterhost] is_port]; cbv beta iota;
       rewrite ?Bool.andb_false_r; cbn [andb]; crunch; finish.
Qed.

(* ---------- the path states never fail and keep scheme and opaque-path flag ---------- *)
Definition good (k : nat) (u0 : url) (f : flow) : Prop :=
  match f with
  | Go st p u => (k <=? rank st)%nat = true /\ opq st u /\
                 scheme u = scheme u0 /\ has_opaque_path u = has_opaque_path u0
  | Stop (POk r) => scheme r = scheme u0 /\ has_opaque_path r = has_opaque_path u0
  | _ => False
  end.

Ltac enter_good H Hopq Hs Hh :=
  intros [st p u | [r | r |]] H; cbn [good] in H; try contradiction;
  [ destruct H as (H & Hopq & Hs & Hh); destruct st; cbn [rank Nat.leb] in H; try discriminate H | ].

Ltac pass_good := cbn [good rank Nat.leb]; (repeat split; try reflexivity); assumption.

Ltac fin_good :=
  cbn [good rank Nat.leb];
  rewrite ?scheme_parse_path, ?hop_parse_path, ?scheme_ser_append, ?hop_ser_append;
  repeat lazymatch goal with |- _ /\ _ => split end;
  first [ reflexivity | assumption | opq_tac ].

Lemma good_path_start base orig u0 : forall f, good 16 u0 f -> good 17 u0 (blk_path_start (cS base orig) f).
Proof.
  enter_good H Hopq Hs Hh; cbv beta iota zeta delta [blk_path_start]; try pass_good; try exact H.
  ctx_simpl. crunch; fin_good.
Qed.

Lemma good_path base orig u0 : forall f, good 17 u0 f -> good 18 u0 (blk_path (cS base orig) f).
Proof.
  enter_good H Hopq Hs Hh; cbv beta iota zeta delta [blk_path]; try pass_good; try exact H.
  ctx_simpl. crunch; fin_good.
Qed.

Lemma good_opaque_path base orig u0 : forall f, good 18 u0 f -> good 19 u0 (blk_opaque_path (cS base orig) f).
Proof.
  enter_good H Hopq Hs Hh; cbv beta iota zeta delta [blk_opaque_path]; try pass_good; try exact H.
  assert (Ht : has_opaque_path u = true) by (apply Hopq; reflexivity).
  destruct (break_at _ p) as [pathtxt rest].
  set (u' := set_path u _).
  assert (Hu' : scheme u' = scheme u0 /\ has_opaque_path u' = has_opaque_path u0).
  { split; [exact Hs | rewrite <- Hh, Ht; reflexivity]. }
  clearbody u'. destruct Hu'. crunch; fin_good.
Qed.

Lemma good_query base orig u0 : forall f, good 19 u0 f -> good 20 u0 (blk_query (cS base orig) f).
Proof.
  enter_good H Hopq Hs Hh; cbv beta iota zeta delta [blk_query]; try pass_good; try exact H.
  ctx_simpl. crunch; fin_good.
Qed.

Lemma good_fragment base orig u0 : forall f, good 20 u0 f -> good 21 u0 (blk_fragment (cS base orig) f).
Proof.
  enter_good H Hopq Hs Hh; cbv beta iota zeta delta [blk_fragment]; try pass_good; try exact H.
Qed.

Definition tail (c : ctx) (f : flow) : flow :=
  blk_fragment c (blk_query c (blk_opaque_path c (blk_path c (blk_path_start c f)))).

Lemma tail_stop c r : tail c (Stop r) = Stop r.
Proof. reflexivity. Qed.

Lemma tail_ok base orig st p u :
  (15 <=? rank st)%nat = true -> opq st u ->
  exists r, tail (cS base orig) (Go st p u) = Stop (POk r) /\
            scheme r = scheme u /\ has_opaque_path r = has_opaque_path u.
Proof.
  intros Hk Hopq.
  assert (H : good 16 u (Go st p u)).
  { cbn [good]. repeat split; try assumption. destruct st; cbn in Hk |- *; congruence. }
  apply (good_path_start base orig), (good_path base orig), (good_opaque_path base orig),
        (good_query base orig), (good_fragment base orig) in H.
  fold (tail (cS base orig) (Go st p u)) in H.
  destruct (tail _ _) as [st' p' u' | [r | r |]]; cbn [good] in H; try contradiction.
  - destruct H as [H _]. destruct st'; discriminate H.
  - exists r. split; [reflexivity | exact H].
Qed.

(* ---------- the whole chain ---------- *)
Definition front (c : ctx) (f : flow) : flow :=
  let f := blk_scheme_start c f in
  let f := blk_scheme c f in
  let f := blk_no_scheme c f in
  let f := blk_special_relative_or_authority c f in
  let f := blk_path_or_authority c f in
  let f := blk_relative c f in
  let f := blk_relative_slash c f in
  let f := blk_special_authority_slashes c f in
  let f := blk_special_authority_ignore_slashes c f in
  let f := blk_authority c f in
  let f := blk_host idna c f in
  let f := blk_port c f in
  let f := blk_file c f in
  let f := blk_file_slash c f in
  blk_file_host idna c f.

Lemma url_parse_eq c input u0 :
  url_parse idna c input u0 =
  match tail c (blk_nosave_exit c (front c
          (Go (match c_override c with Some s => s | None => SchemeStart end) (remove_tab_newline input) u0))) with
  | Stop r => r
  | Go _ _ u => PFail u
  end.
Proof. unfold url_parse, tail, front. cbv zeta. reflexivity. Qed.

Lemma front_sim base orig f1 f2 :
  sim 0 base f1 f2 -> fin base (front (cS base orig) f1) (front (cN base orig) f2).
Proof.
  intros H. unfold front. cbv zeta.
  apply sim_file_host, sim_file_slash, sim_file, sim_port, sim_host, sim_authority,
        sim_special_authority_ignore_slashes, sim_special_authority_slashes, sim_relative_slash,
        sim_relative, sim_path_or_authority, sim_special_relative_or_authority, sim_no_scheme,
        sim_scheme, sim_scheme_start, H.
Qed.

Definition res_rel (base : option url) (r1 r2 : presult) : Prop :=
  match r1, r2 with
  | POk a, POk b => rel base a b
  | PFail _, PFail _ => True
  | _, _ => False
  end.

Theorem url_parse_sim base orig input u1 u2 :
  rel base u1 u2 ->
  res_rel base (url_parse idna (cS base orig) input u1) (url_parse idna (cN base orig) input u2).
Proof.
  intros Hr. rewrite !url_parse_eq. cbn [c_override].
  set (i := remove_tab_newline input).
  assert (H : sim 0 base (Go SchemeStart i u1) (Go SchemeStart i u2)).
  { cbn [sim]. repeat split; try reflexivity; try apply Hr. intro Hx; discriminate Hx. }
  apply (front_sim base orig) in H.
  destruct (front (cS base orig) _) as [st1 p1 a1 | [r1 | r1 |]],
           (front (cN base orig) _) as [st2 p2 a2 | [r2 | r2 |]]; cbn [fin] in H; try contradiction;
    cbn [blk_nosave_exit c_save]; rewrite ?tail_stop.
  - destruct H as (_ & _ & Hk & Hopq & Hs & Hh).
    destruct (tail_ok base orig st1 p1 a1 Hk Hopq) as (r & -> & Es & Eh).
    cbn [res_rel]. split; [congruence | intro Hb; rewrite Eh; auto].
  - destruct H as (Hk & Hopq & Hs & Hh).
    destruct (tail_ok base orig st1 p1 a1 Hk Hopq) as (r & -> & Es & Eh).
    cbn [res_rel]. split; [congruence | intro Hb; rewrite Eh; auto].
  - exact H.
  - exact I.
Qed.

Lemma rel_refl base u : rel base u u.
Proof. split; reflexivity. Qed.

(* C09, first form: no well-formedness of the base is needed *)
Theorem can_parse_iff_parse input base :
  can_parse idna input base = match do_parse idna true input base with POk _ => true | _ => false end.
Proof.
  unfold can_parse, do_parse.
  pose proof (url_parse_sim base empty_url (strip_c0_space input) empty_url empty_url (rel_refl _ _)) as H.
  destruct (url_parse idna (cS base empty_url) _ _) as [r1 | r1 |],
           (url_parse idna (cN base empty_url) _ _) as [r2 | r2 |]; cbn [res_rel] in H; try contradiction; reflexivity.
Qed.

(* a parse without base: the two runs also agree on scheme and opaque-path flag of the result *)
Theorem parse_nobase_agree input :
  match do_parse idna true input None, do_parse idna false input None with
  | POk b, POk bn => scheme b = scheme bn /\ has_opaque_path b = has_opaque_path bn
  | PFail _, PFail _ => True
  | _, _ => False
  end.
Proof.
  unfold do_parse.
  pose proof (url_parse_sim None empty_url (strip_c0_space input) empty_url empty_url (rel_refl _ _)) as H.
  destruct (url_parse idna (cS None empty_url) _ _) as [r1 | r1 |],
           (url_parse idna (cN None empty_url) _ _) as [r2 | r2 |]; cbn [res_rel] in H; try contradiction; try exact I.
  destruct H as [Hs Hh]. split; [exact Hs | exact (Hh eq_refl)].
Qed.

(* ---------- with need_save = false only presence, scheme and opaque-path flag of the base are read ---------- *)
Definition base_eqv (b1 b2 : option url) : Prop :=
  match b1, b2 with
  | None, None => True
  | Some x, Some y => scheme x = scheme y /\ has_opaque_path x = has_opaque_path y
  | _, _ => False
  end.

Ltac base_blk blk :=
  intros [x|] [y|] orig He f; cbn [base_eqv] in He; try contradiction; [|reflexivity];
  destruct He as [Hs Hh]; destruct f as [st p u | r]; [|reflexivity];
  destruct st; try reflexivity;
  cbv beta iota zeta delta [blk]; ctx_simpl; rewrite ?Hs, ?Hh, ?Bool.andb_false_r; reflexivity.

Lemma nb_scheme : forall b1 b2 orig, base_eqv b1 b2 -> forall f, blk_scheme (cN b1 orig) f = blk_scheme (cN b2 orig) f.
Proof. base_blk blk_scheme. Qed.
Lemma nb_no_scheme : forall b1 b2 orig, base_eqv b1 b2 -> forall f, blk_no_scheme (cN b1 orig) f = blk_no_scheme (cN b2 orig) f.
Proof. base_blk blk_no_scheme. Qed.
Lemma nb_relative : forall b1 b2 orig, base_eqv b1 b2 -> forall f, blk_relative (cN b1 orig) f = blk_relative (cN b2 orig) f.
Proof. base_blk blk_relative. Qed.
Lemma nb_relative_slash : forall b1 b2 orig, base_eqv b1 b2 -> forall f, blk_relative_slash (cN b1 orig) f = blk_relative_slash (cN b2 orig) f.
Proof. base_blk blk_relative_slash. Qed.
Lemma nb_file : forall b1 b2 orig, base_eqv b1 b2 -> forall f, blk_file (cN b1 orig) f = blk_file (cN b2 orig) f.
Proof. base_blk blk_file. Qed.
Lemma nb_file_slash : forall b1 b2 orig, base_eqv b1 b2 -> forall f, blk_file_slash (cN b1 orig) f = blk_file_slash (cN b2 orig) f.
Proof. base_blk blk_file_slash. Qed.

Lemma nb_scheme_start b1 b2 orig f : blk_scheme_start (cN b1 orig) f = blk_scheme_start (cN b2 orig) f.
Proof. unfold blk_scheme_start; ctx_simpl; reflexivity. Qed.
Lemma nb_special_relative_or_authority b1 b2 orig f : blk_special_relative_or_authority (cN b1 orig) f = blk_special_relative_or_authority (cN b2 orig) f.
Proof. unfold blk_special_relative_or_authority; ctx_simpl; reflexivity. Qed.
Lemma nb_path_or_authority b1 b2 orig f : blk_path_or_authority (cN b1 orig) f = blk_path_or_authority (cN b2 orig) f.
Proof. unfold blk_path_or_authority; ctx_simpl; reflexivity. Qed.
Lemma nb_special_authority_slashes b1 b2 orig f : blk_special_authority_slashes (cN b1 orig) f = blk_special_authority_slashes (cN b2 orig) f.
Proof. unfold blk_special_authority_slashes; ctx_simpl; reflexivity. Qed.
Lemma nb_special_authority_ignore_slashes b1 b2 orig f : blk_special_authority_ignore_slashes (cN b1 orig) f = blk_special_authority_ignore_slashes (cN b2 orig) f.
Proof. unfold blk_special_authority_ignore_slashes; ctx_simpl; reflexivity. Qed.
Lemma nb_authority b1 b2 orig f : blk_authority (cN b1 orig) f = blk_authority (cN b2 orig) f.
Proof. unfold blk_authority; ctx_simpl; reflexivity. Qed.
Lemma nb_host b1 b2 orig f : blk_host idna (cN b1 orig) f = blk_host idna (cN b2 orig) f.
Proof. unfold blk_host; ctx_simpl; reflexivity. Qed.
Lemma nb_port b1 b2 orig f : blk_port (cN b1 orig) f = blk_port (cN b2 orig) f.
Proof. unfold blk_port; ctx_simpl; reflexivity. Qed.
Lemma nb_file_host b1 b2 orig f : blk_file_host idna (cN b1 orig) f = blk_file_host idna (cN b2 orig) f.
Proof. unfold blk_file_host; ctx_simpl; reflexivity. Qed.
Lemma nb_nosave_exit b1 b2 orig f : blk_nosave_exit (cN b1 orig) f = blk_nosave_exit (cN b2 orig) f.
Proof. unfold blk_nosave_exit; ctx_simpl; reflexivity. Qed.
Lemma nb_path_start b1 b2 orig f : blk_path_start (cN b1 orig) f = blk_path_start (cN b2 orig) f.
Proof. unfold blk_path_start; ctx_simpl; reflexivity. Qed.
Lemma nb_path b1 b2 orig f : blk_path (cN b1 orig) f = blk_path (cN b2 orig) f.
Proof. unfold blk_path; ctx_simpl; reflexivity. Qed.
Lemma nb_opaque_path b1 b2 orig f : blk_opaque_path (cN b1 orig) f = blk_opaque_path (cN b2 orig) f.
Proof. unfold blk_opaque_path; ctx_simpl; reflexivity. Qed.
Lemma nb_query b1 b2 orig f : blk_query (cN b1 orig) f = blk_query (cN b2 orig) f.
Proof. unfold blk_query; ctx_simpl; reflexivity. Qed.
Lemma nb_fragment b1 b2 orig f : blk_fragment (cN b1 orig) f = blk_fragment (cN b2 orig) f.
Proof. unfold blk_fragment; ctx_simpl; reflexivity. Qed.

Theorem url_parse_nosave_base b1 b2 orig input u :
  base_eqv b1 b2 ->
  url_parse idna (cN b1 orig) input u = url_parse idna (cN b2 orig) input u.
Proof.
  intros He. unfold url_parse. cbv zeta. cbn [c_override].
  rewrite (nb_scheme b1 b2 orig He), (nb_no_scheme b1 b2 orig He), (nb_relative b1 b2 orig He),
          (nb_relative_slash b1 b2 orig He), (nb_file b1 b2 orig He), (nb_file_slash b1 b2 orig He).
  rewrite (nb_scheme_start b1 b2 orig), (nb_special_relative_or_authority b1 b2 orig), (nb_path_or_authority b1 b2 orig), (nb_special_authority_slashes b1 b2 orig), (nb_special_authority_ignore_slashes b1 b2 orig), (nb_authority b1 b2 orig), (nb_host b1 b2 orig), (nb_port b1 b2 orig), (nb_file_host b1 b2 orig), (nb_nosave_exit b1 b2 orig), (nb_path_start b1 b2 orig), (nb_path b1 b2 orig), (nb_opaque_path b1 b2 orig), (nb_query b1 b2 orig), (nb_fragment b1 b2 orig).
  reflexivity.
Qed.

Corollary can_parse_base_eqv b1 b2 input :
  base_eqv b1 b2 -> can_parse idna input b1 = can_parse idna input b2.
Proof. intros He. unfold can_parse, do_parse. rewrite (url_parse_nosave_base b1 b2 _ _ _ He). reflexivity. Qed.

(* can_parse(str, str_base) as the library does it: the base string is itself parsed with
   need_save = false and that object is the base of the second non-saving parse *)
Definition can_parse_sb (input binput : str) : bool :=
  match do_parse idna false binput None with
  | POk bnosave => can_parse idna input (Some bnosave)
  | _ => false
  end.

Theorem nosave_base input binput :
  can_parse_sb input binput =
  match do_parse idna true binput None with
  | POk b => match do_parse idna true input (Some b) with POk _ => true | _ => false end
  | _ => false
  end.
Proof.
  unfold can_parse_sb. pose proof (parse_nobase_agree binput) as H.
  destruct (do_parse idna true binput None) as [b | b |], (do_parse idna false binput None) as [bn | bn |];
    try contradiction; try reflexivity.
  rewrite (can_parse_base_eqv (Some bn) (Some b)).
  - apply can_parse_iff_parse.
  - cbn [base_eqv]. destruct H as [Hs Hh]. split; symmetry; assumption.
Qed.

Theorem string_base input binput :
  can_parse idna binput None &&
    (match do_parse idna true binput None with POk b => can_parse idna input (Some b) | _ => false end) =
  match do_parse idna true binput None with
  | POk b => match do_parse idna true input (Some b) with POk _ => true | _ => false end
  | _ => false
  end.
Proof.
  rewrite can_parse_iff_parse.
  destruct (do_parse idna true binput None) as [b | b |]; cbn [andb]; try reflexivity.
  apply can_parse_iff_parse.
Qed.

End C09.

(* Why [rel] tracks the opaque-path flag only for a parse without base: against an opaque
   base, "#f" copies the base's path only when saving, so the (discarded) record of the
   non-saving run differs there.  Input "#f", base = parse of "a:b". *)
Example nosave_record_differs_with_base :
  let idna := fun _ : list N => @None (list N) in
  match do_parse idna true [97; 58; 98] None with
  | POk b =>
      match do_parse idna true [35; 102] (Some b), do_parse idna false [35; 102] (Some b) with
      | POk r1, POk r2 => (has_opaque_path r1, has_opaque_path r2) = (true, false)
      | _, _ => False
      end
  | _ => False
  end.
Proof. vm_compute. reflexivity. Qed.
