(* Facts about the UTF models: the model of the C++ decoders (Impl.Utf) equals the Encoding
   Standard's decoders (Spec.Utf); encoder facts; check_fix_utf8.
   Statements of the public lemmas are those of UtfFacts_interface.v. *)
From Upa Require Import Base.Prelude Spec.Utf Impl.Tables Impl.Utf.
From Coq Require Import ZifyBool ZifyN ZifyNat.
Local Open Scope N_scope.

Local Ltac Zify.zify_post_hook ::= Z.div_mod_to_equations.

Definition bytes_ok (s : list N) : Prop := Forall (fun b => b < 256) s.
Definition scalars_ok (s : list N) : Prop := Forall (fun c => is_scalar c = true) s.
Definition units16_ok (s : list N) : Prop := Forall (fun u => u < 65536) s.
Definition units32_ok (s : list N) : Prop := Forall (fun u => u < 4294967296) s.
Definition units_ok (e : enc) (s : list N) : Prop :=
  match e with U8 => bytes_ok s | U16 => units16_ok s | U32 => units32_ok s end.
(* the Standard-side decoder for each encoding *)
Definition spec_decode (e : enc) (s : list N) : list N :=
  match e with U8 => utf8_decode s | U16 => utf16_decode s | U32 => utf32_decode s end.
Definition is_cont (b : N) : bool := (128 <=? b) && (b <=? 191).

(* ------------------------------------------------------------------------------------------ *)
(* finite sweeps (linear-time enumeration, unlike TableLemmas.range_nat)                       *)
(* ------------------------------------------------------------------------------------------ *)
Fixpoint sweep_from (n : nat) (i : N) (p : N -> bool) : bool :=
  match n with O => true | S k => p i && sweep_from k (N.succ i) p end.

Lemma sweep_from_sound n : forall i p, sweep_from n i p = true ->
  forall c, i <= c -> c < i + N.of_nat n -> p c = true.
Proof.
  induction n as [|k IH]; intros i p H c H1 H2; [lia|].
  cbn [sweep_from] in H. apply andb_prop in H. destruct H as [Hi Hr].
  destruct (N.eq_dec c i) as [E|E]; [subst; exact Hi|].
  apply (IH (N.succ i) p Hr); lia.
Qed.

Definition sweep_to (n : nat) (p : N -> bool) : bool := sweep_from n 0 p.

Lemma sweep_to_sound n p : sweep_to n p = true -> forall c, (N.to_nat c < n)%nat -> p c = true.
Proof. intros H c Hc. apply (sweep_from_sound n 0 p H); lia. Qed.

Lemma sweep_byte p : sweep_to 256 p = true -> forall c, c < 256 -> p c = true.
Proof. intros H c Hc. apply (sweep_to_sound 256 p H). lia. Qed.

Lemma sweep_byte2 (p : N -> N -> bool) :
  sweep_to 256 (fun a => sweep_to 256 (p a)) = true ->
  forall a b, a < 256 -> b < 256 -> p a b = true.
Proof.
  intros H a b Ha Hb.
  apply (sweep_byte (p a)); [|exact Hb].
  apply (sweep_byte (fun a => sweep_to 256 (p a)) H a Ha).
Qed.

Lemma sweep_u16 p : sweep_to (N.to_nat 65536) p = true -> forall c, c < 65536 -> p c = true.
Proof. intros H c Hc. apply (sweep_to_sound _ p H). lia. Qed.

(* ------------------------------------------------------------------------------------------ *)
(* bit facts                                                                                   *)
(* ------------------------------------------------------------------------------------------ *)
Lemma lor_shiftl_small c k x : x < 2 ^ k -> N.lor (N.shiftl c k) x = c * 2 ^ k + x.
Proof.
  intro Hx.
  assert (Hd : N.land (N.shiftl c k) x = 0).
  { apply N.bits_inj. intro n. rewrite N.land_spec, N.bits_0.
    destruct (N.ltb_spec n k) as [Hn|Hn].
    - rewrite N.shiftl_spec_low by exact Hn. reflexivity.
    - replace (N.testbit x n) with false; [apply andb_false_r|].
      symmetry. rewrite <- (N.mod_small x (2 ^ k)) by exact Hx.
      apply N.mod_pow2_bits_high. exact Hn. }
  rewrite <- N.lxor_lor by exact Hd.
  rewrite <- N.add_nocarry_lxor by exact Hd.
  rewrite N.shiftl_mul_pow2. reflexivity.
Qed.

Lemma lor_shiftl6 c x : x < 64 -> N.lor (N.shiftl c 6) x = c * 64 + x.
Proof. intro Hx. exact (lor_shiftl_small c 6 x Hx). Qed.

Lemma land128 b : b < 256 -> (N.land b 128 =? 0) = (b <? 128).
Proof.
  intro Hb. apply eqb_prop.
  apply (sweep_byte (fun b => Bool.eqb (N.land b 128 =? 0) (b <? 128))); [vm_compute; reflexivity|exact Hb].
Qed.

Lemma land31 b : 194 <= b -> b < 224 -> N.land b 31 = b - 192.
Proof.
  intros H1 H2. assert (Hb : b < 256) by lia.
  pose proof (sweep_byte (fun b => negb ((194 <=? b) && (b <? 224)) || (N.land b 31 =? b - 192))
                ltac:(vm_compute; reflexivity) b Hb) as Hx.
  cbv beta in Hx. destruct (N.leb_spec 194 b); [|lia]. destruct (N.ltb_spec b 224); [|lia].
  cbn [negb andb orb] in Hx. apply N.eqb_eq. exact Hx.
Qed.

Lemma land15 b : 224 <= b -> b < 240 -> N.land b 15 = b - 224.
Proof.
  intros H1 H2. assert (Hb : b < 256) by lia.
  pose proof (sweep_byte (fun b => negb ((224 <=? b) && (b <? 240)) || (N.land b 15 =? b - 224))
                ltac:(vm_compute; reflexivity) b Hb) as Hx.
  cbv beta in Hx. destruct (N.leb_spec 224 b); [|lia]. destruct (N.ltb_spec b 240); [|lia].
  cbn [negb andb orb] in Hx. apply N.eqb_eq. exact Hx.
Qed.

Lemma land7 b : 240 <= b -> b < 248 -> N.land b 7 = b - 240.
Proof.
  intros H1 H2. assert (Hb : b < 256) by lia.
  pose proof (sweep_byte (fun b => negb ((240 <=? b) && (b <? 248)) || (N.land b 7 =? b - 240))
                ltac:(vm_compute; reflexivity) b Hb) as Hx.
  cbv beta in Hx. destruct (N.leb_spec 240 b); [|lia]. destruct (N.ltb_spec b 248); [|lia].
  cbn [negb andb orb] in Hx. apply N.eqb_eq. exact Hx.
Qed.

Lemma sub80_cont t : t < 256 -> (u8sub80 t <=? 63) = is_cont t.
Proof.
  intro Hb. apply eqb_prop.
  apply (sweep_byte (fun t => Bool.eqb (u8sub80 t <=? 63) (is_cont t))); [vm_compute; reflexivity|exact Hb].
Qed.

Lemma is_cont_range t : is_cont t = true <-> 128 <= t /\ t <= 191.
Proof. unfold is_cont. lia. Qed.

Lemma sub80_val t : is_cont t = true -> u8sub80 t = t - 128.
Proof.
  intro H. apply is_cont_range in H. unfold u8sub80. lia.
Qed.

Lemma land63_cont t : is_cont t = true -> N.land t 63 = t - 128.
Proof.
  intro H. apply is_cont_range in H. change 63 with (N.ones 6). rewrite N.land_ones.
  change (2 ^ 6) with 64. lia.
Qed.

(* second-byte ranges of the Standard's decoder *)
Definition in3 (b0 t1 : N) : bool :=
  ((if b0 =? 224 then 160 else 128) <=? t1) && (t1 <=? (if b0 =? 237 then 159 else 191)).
Definition in4 (b0 t1 : N) : bool :=
  ((if b0 =? 240 then 144 else 128) <=? t1) && (t1 <=? (if b0 =? 244 then 143 else 191)).

Lemma in3_cont b0 t1 : in3 b0 t1 = true -> is_cont t1 = true.
Proof. unfold in3, is_cont. intro H. destruct (b0 =? 224), (b0 =? 237); lia. Qed.
Lemma in4_cont b0 t1 : in4 b0 t1 = true -> is_cont t1 = true.
Proof. unfold in4, is_cont. intro H. destruct (b0 =? 240), (b0 =? 244); lia. Qed.

(* the lead3 / lead4 bit tables implement exactly those ranges *)
Lemma lead3_test b0 t1 : 224 <= b0 -> b0 < 240 -> t1 < 256 ->
  negb (N.land (tbl_lead3 (N.land b0 15)) (N.shiftl 1 (N.shiftr t1 5)) =? 0) = in3 b0 t1.
Proof.
  intros H1 H2 Ht. assert (Hb : b0 < 256) by lia.
  pose proof (sweep_byte2
    (fun b0 t1 => negb ((224 <=? b0) && (b0 <? 240)) ||
       Bool.eqb (negb (N.land (tbl_lead3 (N.land b0 15)) (N.shiftl 1 (N.shiftr t1 5)) =? 0)) (in3 b0 t1))
    ltac:(vm_compute; reflexivity) b0 t1 Hb Ht) as Hx.
  cbv beta in Hx. destruct (N.leb_spec 224 b0); [|lia]. destruct (N.ltb_spec b0 240); [|lia].
  cbn [negb andb orb] in Hx. apply eqb_prop. exact Hx.
Qed.

Lemma lead4_test b0 t1 : 240 <= b0 -> b0 < 256 -> t1 < 256 ->
  ((b0 - 240 <=? 4) && negb (N.land (tbl_lead4 (N.shiftr t1 4)) (N.shiftl 1 (b0 - 240)) =? 0))
  = ((b0 <=? 244) && in4 b0 t1).
Proof.
  intros H1 Hb Ht.
  pose proof (sweep_byte2
    (fun b0 t1 => negb (240 <=? b0) ||
       Bool.eqb ((b0 - 240 <=? 4) && negb (N.land (tbl_lead4 (N.shiftr t1 4)) (N.shiftl 1 (b0 - 240)) =? 0))
                ((b0 <=? 244) && in4 b0 t1))
    ltac:(vm_compute; reflexivity) b0 t1 Hb Ht) as Hx.
  cbv beta in Hx. destruct (N.leb_spec 240 b0); [|lia].
  cbn [negb andb orb] in Hx. apply eqb_prop. exact Hx.
Qed.

(* ------------------------------------------------------------------------------------------ *)
(* the Standard's UTF-8 decoder, one character at a time, in arithmetic form                   *)
(* ------------------------------------------------------------------------------------------ *)
Lemma decode_dinit_cons b r :
  utf8_decode (b :: r) = let '(st', out) := dstep0 b in out ++ decode_from st' r.
Proof. reflexivity. Qed.

Lemma dstep0_ascii b : b < 128 -> dstep0 b = (dinit, [b]).
Proof. intro H. unfold dstep0. assert ((b <=? 127) = true) as -> by lia. reflexivity. Qed.

Lemma dstep0_bad b : (128 <= b /\ b < 194) \/ 245 <= b -> dstep0 b = (dinit, [REPL]).
Proof.
  intro H. unfold dstep0.
  assert ((b <=? 127) = false) as -> by lia.
  assert ((194 <=? b) && (b <=? 223) = false) as -> by lia.
  assert ((224 <=? b) && (b <=? 239) = false) as -> by lia.
  assert ((240 <=? b) && (b <=? 244) = false) as -> by lia.
  reflexivity.
Qed.

Lemma dstep0_2 b : 194 <= b -> b < 224 -> dstep0 b = (Build_dstate (b - 192) 0 1 128 191, []).
Proof.
  intros H1 H2. unfold dstep0.
  assert ((b <=? 127) = false) as -> by lia.
  assert ((194 <=? b) && (b <=? 223) = true) as -> by lia.
  rewrite land31 by assumption. reflexivity.
Qed.

Lemma dstep0_3 b : 224 <= b -> b < 240 ->
  dstep0 b = (Build_dstate (b - 224) 0 2 (if b =? 224 then 160 else 128) (if b =? 237 then 159 else 191), []).
Proof.
  intros H1 H2. unfold dstep0.
  assert ((b <=? 127) = false) as -> by lia.
  assert ((194 <=? b) && (b <=? 223) = false) as -> by lia.
  assert ((224 <=? b) && (b <=? 239) = true) as -> by lia.
  rewrite land15 by assumption. reflexivity.
Qed.

Lemma dstep0_4 b : 240 <= b -> b <= 244 ->
  dstep0 b = (Build_dstate (b - 240) 0 3 (if b =? 240 then 144 else 128) (if b =? 244 then 143 else 191), []).
Proof.
  intros H1 H2. unfold dstep0.
  assert ((b <=? 127) = false) as -> by lia.
  assert ((194 <=? b) && (b <=? 223) = false) as -> by lia.
  assert ((224 <=? b) && (b <=? 239) = false) as -> by lia.
  assert ((240 <=? b) && (b <=? 244) = true) as -> by lia.
  rewrite land7 by lia. reflexivity.
Qed.

Lemma decode_from_cont st t r : d_needed st <> 0 ->
  decode_from st (t :: r) =
    if (d_lower st <=? t) && (t <=? d_upper st) then
      let cp := N.lor (N.shiftl (d_cp st) 6) (N.land t 63) in
      if d_seen st + 1 =? d_needed st then cp :: utf8_decode r
      else decode_from (Build_dstate cp (d_seen st + 1) (d_needed st) 128 191) r
    else REPL :: utf8_decode (t :: r).
Proof.
  intro Hn. cbn [decode_from]. unfold dstep.
  destruct (d_needed st =? 0) eqn:E0; [lia|].
  destruct ((t <? d_lower st) || (d_upper st <? t)) eqn:Er.
  - assert ((d_lower st <=? t) && (t <=? d_upper st) = false) as -> by lia.
    rewrite decode_dinit_cons. destruct (dstep0 t) as [st' out]. reflexivity.
  - assert ((d_lower st <=? t) && (t <=? d_upper st) = true) as -> by lia.
    cbv zeta. destruct (d_seen st + 1 =? d_needed st); reflexivity.
Qed.

Lemma decode_from_end st : d_needed st <> 0 -> decode_from st [] = [REPL].
Proof. intro Hn. cbn [decode_from]. destruct (d_needed st =? 0) eqn:E0; [lia|reflexivity]. Qed.

Lemma dec8_ascii b0 r : b0 < 128 -> utf8_decode (b0 :: r) = b0 :: utf8_decode r.
Proof. intro H. rewrite decode_dinit_cons, dstep0_ascii by exact H. reflexivity. Qed.

Lemma dec8_bad b0 r : (128 <= b0 /\ b0 < 194) \/ 245 <= b0 -> utf8_decode (b0 :: r) = REPL :: utf8_decode r.
Proof. intro H. rewrite decode_dinit_cons, dstep0_bad by exact H. reflexivity. Qed.

Lemma dec8_single b0 : 128 <= b0 -> utf8_decode [b0] = [REPL].
Proof.
  intro H. rewrite decode_dinit_cons.
  destruct (N.ltb_spec b0 194); [|destruct (N.ltb_spec b0 224); [|destruct (N.ltb_spec b0 240);
    [|destruct (N.leb_spec b0 244)]]].
  - rewrite dstep0_bad by lia. reflexivity.
  - rewrite dstep0_2 by lia. reflexivity.
  - rewrite dstep0_3 by lia. reflexivity.
  - rewrite dstep0_4 by lia. reflexivity.
  - rewrite dstep0_bad by lia. reflexivity.
Qed.

Lemma dec8_2 b0 t1 r2 : 194 <= b0 -> b0 < 224 ->
  utf8_decode (b0 :: t1 :: r2) =
    if is_cont t1 then ((b0 - 192) * 64 + (t1 - 128)) :: utf8_decode r2
    else REPL :: utf8_decode (t1 :: r2).
Proof.
  intros H1 H2. rewrite decode_dinit_cons, dstep0_2 by assumption. cbn [app].
  rewrite decode_from_cont by (cbn; lia).
  cbn [d_lower d_upper d_cp d_seen d_needed].
  change ((128 <=? t1) && (t1 <=? 191)) with (is_cont t1).
  destruct (is_cont t1) eqn:Ec; [|reflexivity].
  cbv zeta. change (0 + 1 =? 1) with true. cbv iota.
  rewrite (land63_cont t1 Ec). apply is_cont_range in Ec. rewrite lor_shiftl6 by lia. reflexivity.
Qed.

Lemma dec8_3 b0 t1 r2 : 224 <= b0 -> b0 < 240 ->
  utf8_decode (b0 :: t1 :: r2) =
    if in3 b0 t1 then
      match r2 with
      | [] => [REPL]
      | t2 :: r3 =>
          if is_cont t2 then (((b0 - 224) * 64 + (t1 - 128)) * 64 + (t2 - 128)) :: utf8_decode r3
          else REPL :: utf8_decode r2
      end
    else REPL :: utf8_decode (t1 :: r2).
Proof.
  intros H1 H2. rewrite decode_dinit_cons, dstep0_3 by assumption. cbn [app].
  rewrite decode_from_cont by (cbn; lia).
  cbn [d_lower d_upper d_cp d_seen d_needed].
  change (((if b0 =? 224 then 160 else 128) <=? t1) && (t1 <=? (if b0 =? 237 then 159 else 191)))
    with (in3 b0 t1).
  destruct (in3 b0 t1) eqn:E1; [|reflexivity].
  apply in3_cont in E1.
  cbv zeta. change (0 + 1 =? 2) with false. cbv iota.
  rewrite (land63_cont t1 E1). apply is_cont_range in E1. rewrite lor_shiftl6 by lia.
  destruct r2 as [|t2 r3].
  - apply decode_from_end. cbn. lia.
  - rewrite decode_from_cont by (cbn; lia).
    cbn [d_lower d_upper d_cp d_seen d_needed].
    change ((128 <=? t2) && (t2 <=? 191)) with (is_cont t2).
    destruct (is_cont t2) eqn:E2; [|reflexivity].
    cbv zeta. change (0 + 1 + 1 =? 2) with true. cbv iota.
    rewrite (land63_cont t2 E2). apply is_cont_range in E2. rewrite lor_shiftl6 by lia. reflexivity.
Qed.

Lemma dec8_4 b0 t1 r2 : 240 <= b0 -> b0 <= 244 ->
  utf8_decode (b0 :: t1 :: r2) =
    if in4 b0 t1 then
      match r2 with
      | [] => [REPL]
      | t2 :: r3 =>
          if is_cont t2 then
            match r3 with
            | [] => [REPL]
            | t3 :: r4 =>
                if is_cont t3 then
                  ((((b0 - 240) * 64 + (t1 - 128)) * 64 + (t2 - 128)) * 64 + (t3 - 128)) :: utf8_decode r4
                else REPL :: utf8_decode r3
            end
          else REPL :: utf8_decode r2
      end
    else REPL :: utf8_decode (t1 :: r2).
Proof.
  intros H1 H2. rewrite decode_dinit_cons, dstep0_4 by assumption. cbn [app].
  rewrite decode_from_cont by (cbn; lia).
  cbn [d_lower d_upper d_cp d_seen d_needed].
  change (((if b0 =? 240 then 144 else 128) <=? t1) && (t1 <=? (if b0 =? 244 then 143 else 191)))
    with (in4 b0 t1).
  destruct (in4 b0 t1) eqn:E1; [|reflexivity].
  apply in4_cont in E1.
  cbv zeta. change (0 + 1 =? 3) with false. cbv iota.
  rewrite (land63_cont t1 E1). apply is_cont_range in E1. rewrite lor_shiftl6 by lia.
  destruct r2 as [|t2 r3].
  - apply decode_from_end. cbn. lia.
  - rewrite decode_from_cont by (cbn; lia).
    cbn [d_lower d_upper d_cp d_seen d_needed].
    change ((128 <=? t2) && (t2 <=? 191)) with (is_cont t2).
    destruct (is_cont t2) eqn:E2; [|reflexivity].
    cbv zeta. change (0 + 1 + 1 =? 3) with false. cbv iota.
    rewrite (land63_cont t2 E2). apply is_cont_range in E2. rewrite lor_shiftl6 by lia.
    destruct r3 as [|t3 r4].
    + apply decode_from_end. cbn. lia.
    + rewrite decode_from_cont by (cbn; lia).
      cbn [d_lower d_upper d_cp d_seen d_needed].
      change ((128 <=? t3) && (t3 <=? 191)) with (is_cont t3).
      destruct (is_cont t3) eqn:E3; [|reflexivity].
      cbv zeta. change (0 + 1 + 1 + 1 =? 3) with true. cbv iota.
      rewrite (land63_cont t3 E3). apply is_cont_range in E3. rewrite lor_shiftl6 by lia. reflexivity.
Qed.

(* ------------------------------------------------------------------------------------------ *)
(* the C++ read_code_point (UTF-8), in the same arithmetic form                                *)
(* ------------------------------------------------------------------------------------------ *)
Lemma rcp8_ascii b0 r : b0 < 128 -> read_code_point8 (b0 :: r) = Some (true, b0, r).
Proof.
  intro H. unfold read_code_point8. rewrite land128 by lia.
  assert ((b0 <? 128) = true) as -> by lia. reflexivity.
Qed.

Lemma rcp8_single b0 : 128 <= b0 -> b0 < 256 -> read_code_point8 [b0] = Some (false, b0, []).
Proof.
  intros H1 H2. unfold read_code_point8. rewrite land128 by lia.
  assert ((b0 <? 128) = false) as -> by lia. reflexivity.
Qed.

Lemma rcp8_bad b0 t1 r2 : b0 < 256 -> t1 < 256 -> (128 <= b0 /\ b0 < 194) \/ 245 <= b0 ->
  exists c, read_code_point8 (b0 :: t1 :: r2) = Some (false, c, t1 :: r2).
Proof.
  intros Hb Ht H. unfold read_code_point8. rewrite land128 by lia.
  assert ((b0 <? 128) = false) as -> by lia.
  destruct H as [H|H].
  - assert ((224 <=? b0) = false) as -> by lia.
    assert ((194 <=? b0) = false) as -> by lia. eexists. reflexivity.
  - assert ((224 <=? b0) = true) as -> by lia.
    assert ((b0 <? 240) = false) as -> by lia.
    cbv zeta. rewrite lead4_test by lia.
    assert ((b0 <=? 244) = false) as -> by lia. cbn [andb]. eexists. reflexivity.
Qed.

Lemma rcp8_2 b0 t1 r2 : 194 <= b0 -> b0 < 224 -> t1 < 256 ->
  read_code_point8 (b0 :: t1 :: r2) =
    if is_cont t1 then Some (true, (b0 - 192) * 64 + (t1 - 128), r2)
    else Some (false, b0 - 192, t1 :: r2).
Proof.
  intros H1 H2 Ht. unfold read_code_point8. rewrite land128 by lia.
  assert ((b0 <? 128) = false) as -> by lia.
  assert ((224 <=? b0) = false) as -> by lia.
  assert ((194 <=? b0) = true) as -> by lia.
  cbv zeta. rewrite sub80_cont by exact Ht. rewrite land31 by assumption.
  destruct (is_cont t1) eqn:Ec; [|reflexivity].
  rewrite (sub80_val t1 Ec). apply is_cont_range in Ec. rewrite lor_shiftl6 by lia. reflexivity.
Qed.

Lemma rcp8_3 b0 t1 r2 : 224 <= b0 -> b0 < 240 -> t1 < 256 -> bytes_ok r2 ->
  read_code_point8 (b0 :: t1 :: r2) =
    if in3 b0 t1 then
      match r2 with
      | [] => Some (false, (b0 - 224) * 64 + (t1 - 128), [])
      | t2 :: r3 =>
          if is_cont t2 then Some (true, ((b0 - 224) * 64 + (t1 - 128)) * 64 + (t2 - 128), r3)
          else Some (false, (b0 - 224) * 64 + (t1 - 128), r2)
      end
    else Some (false, b0 - 224, t1 :: r2).
Proof.
  intros H1 H2 Ht Hr. unfold read_code_point8. rewrite land128 by lia.
  assert ((b0 <? 128) = false) as -> by lia.
  assert ((224 <=? b0) = true) as -> by lia.
  assert ((b0 <? 240) = true) as -> by lia.
  cbv zeta. rewrite lead3_test by assumption. rewrite land15 by assumption.
  destruct (in3 b0 t1) eqn:E1; [|reflexivity].
  apply in3_cont in E1. rewrite (land63_cont t1 E1).
  apply is_cont_range in E1. rewrite lor_shiftl6 by lia.
  destruct r2 as [|t2 r3]; [reflexivity|].
  assert (Ht2 : t2 < 256) by (inversion Hr; assumption).
  rewrite sub80_cont by exact Ht2.
  destruct (is_cont t2) eqn:E2; [|reflexivity].
  rewrite (sub80_val t2 E2). apply is_cont_range in E2. rewrite lor_shiftl6 by lia. reflexivity.
Qed.

Lemma rcp8_4 b0 t1 r2 : 240 <= b0 -> b0 <= 244 -> t1 < 256 -> bytes_ok r2 ->
  read_code_point8 (b0 :: t1 :: r2) =
    if in4 b0 t1 then
      match r2 with
      | [] => Some (false, (b0 - 240) * 64 + (t1 - 128), [])
      | t2 :: r3 =>
          if is_cont t2 then
            match r3 with
            | [] => Some (false, ((b0 - 240) * 64 + (t1 - 128)) * 64 + (t2 - 128), [])
            | t3 :: r4 =>
                if is_cont t3 then
                  Some (true, (((b0 - 240) * 64 + (t1 - 128)) * 64 + (t2 - 128)) * 64 + (t3 - 128), r4)
                else Some (false, ((b0 - 240) * 64 + (t1 - 128)) * 64 + (t2 - 128), r3)
            end
          else Some (false, (b0 - 240) * 64 + (t1 - 128), r2)
      end
    else Some (false, b0 - 240, t1 :: r2).
Proof.
  intros H1 H2 Ht Hr. unfold read_code_point8. rewrite land128 by lia.
  assert ((b0 <? 128) = false) as -> by lia.
  assert ((224 <=? b0) = true) as -> by lia.
  assert ((b0 <? 240) = false) as -> by lia.
  cbv zeta. rewrite lead4_test by lia.
  assert ((b0 <=? 244) = true) as -> by lia. cbn [andb].
  destruct (in4 b0 t1) eqn:E1; [|reflexivity].
  apply in4_cont in E1. rewrite (land63_cont t1 E1).
  apply is_cont_range in E1. rewrite lor_shiftl6 by lia.
  destruct r2 as [|t2 r3]; [reflexivity|].
  assert (Ht2 : t2 < 256) by (inversion Hr; assumption).
  assert (Hr3 : bytes_ok r3) by (inversion Hr; assumption).
  rewrite sub80_cont by exact Ht2.
  destruct (is_cont t2) eqn:E2; [|reflexivity].
  rewrite (sub80_val t2 E2). apply is_cont_range in E2. rewrite lor_shiftl6 by lia.
  destruct r3 as [|t3 r4]; [reflexivity|].
  assert (Ht3 : t3 < 256) by (inversion Hr3; assumption).
  rewrite sub80_cont by exact Ht3.
  destruct (is_cont t3) eqn:E3; [|reflexivity].
  rewrite (sub80_val t3 E3). apply is_cont_range in E3. rewrite lor_shiftl6 by lia. reflexivity.
Qed.

(* ------------------------------------------------------------------------------------------ *)
(* the encoder on the values produced by a successful read                                     *)
(* ------------------------------------------------------------------------------------------ *)
Lemma enc_2 b0 t1 : 194 <= b0 -> b0 < 224 -> is_cont t1 = true ->
  utf8_encode_cp ((b0 - 192) * 64 + (t1 - 128)) = [b0; t1] /\
  is_scalar ((b0 - 192) * 64 + (t1 - 128)) = true.
Proof.
  intros H1 H2 Hc. apply is_cont_range in Hc.
  set (c := (b0 - 192) * 64 + (t1 - 128)).
  assert (Hq : c / 64 = b0 - 192 /\ c mod 64 = t1 - 128) by (subst c; lia).
  destruct Hq as [Hq Hm].
  split.
  - unfold utf8_encode_cp.
    assert ((c <=? 127) = false) as -> by (subst c; lia).
    assert ((c <=? 2047) = true) as -> by (subst c; lia).
    rewrite Hq, Hm. f_equal; [lia|f_equal; lia].
  - unfold is_scalar. subst c. lia.
Qed.

Lemma enc_3 b0 t1 t2 : 224 <= b0 -> b0 < 240 -> in3 b0 t1 = true -> is_cont t2 = true ->
  utf8_encode_cp (((b0 - 224) * 64 + (t1 - 128)) * 64 + (t2 - 128)) = [b0; t1; t2] /\
  is_scalar (((b0 - 224) * 64 + (t1 - 128)) * 64 + (t2 - 128)) = true.
Proof.
  intros H1 H2 Hi Hc. apply is_cont_range in Hc.
  assert (Hi' : 128 <= t1 /\ t1 <= 191 /\ (b0 = 224 -> 160 <= t1) /\ (b0 = 237 -> t1 <= 159)).
  { unfold in3 in Hi. destruct (N.eqb_spec b0 224), (N.eqb_spec b0 237); lia. }
  clear Hi.
  set (c1 := (b0 - 224) * 64 + (t1 - 128)).
  set (c := c1 * 64 + (t2 - 128)).
  assert (Hq1 : c / 64 = c1 /\ c mod 64 = t2 - 128) by (subst c; lia).
  assert (Hq2 : c1 / 64 = b0 - 224 /\ c1 mod 64 = t1 - 128) by (subst c1; lia).
  assert (Hq3 : c / 4096 = c1 / 64).
  { change 4096 with (64 * 64). rewrite <- N.div_div by lia. destruct Hq1 as [-> _]. reflexivity. }
  destruct Hq1 as [Hq1 Hm1]. destruct Hq2 as [Hq2 Hm2].
  split.
  - unfold utf8_encode_cp.
    assert ((c <=? 127) = false) as -> by (subst c c1; lia).
    assert ((c <=? 2047) = false) as -> by (subst c c1; lia).
    assert ((c <=? 65535) = true) as -> by (subst c c1; lia).
    rewrite Hq3, Hq1, Hm1, Hq2, Hm2. f_equal; [lia|f_equal; [lia|f_equal; lia]].
  - unfold is_scalar. subst c c1. lia.
Qed.

Lemma enc_4 b0 t1 t2 t3 : 240 <= b0 -> b0 <= 244 -> in4 b0 t1 = true ->
  is_cont t2 = true -> is_cont t3 = true ->
  utf8_encode_cp ((((b0 - 240) * 64 + (t1 - 128)) * 64 + (t2 - 128)) * 64 + (t3 - 128)) = [b0; t1; t2; t3] /\
  is_scalar ((((b0 - 240) * 64 + (t1 - 128)) * 64 + (t2 - 128)) * 64 + (t3 - 128)) = true.
Proof.
  intros H1 H2 Hi Hc2 Hc3. apply is_cont_range in Hc2. apply is_cont_range in Hc3.
  assert (Hi' : 128 <= t1 /\ t1 <= 191 /\ (b0 = 240 -> 144 <= t1) /\ (b0 = 244 -> t1 <= 143)).
  { unfold in4 in Hi. destruct (N.eqb_spec b0 240), (N.eqb_spec b0 244); lia. }
  clear Hi.
  set (c1 := (b0 - 240) * 64 + (t1 - 128)).
  set (c2 := c1 * 64 + (t2 - 128)).
  set (c := c2 * 64 + (t3 - 128)).
  assert (Hq1 : c / 64 = c2 /\ c mod 64 = t3 - 128) by (subst c; lia).
  assert (Hq2 : c2 / 64 = c1 /\ c2 mod 64 = t2 - 128) by (subst c2; lia).
  assert (Hq3 : c1 / 64 = b0 - 240 /\ c1 mod 64 = t1 - 128) by (subst c1; lia).
  destruct Hq1 as [Hq1 Hm1]. destruct Hq2 as [Hq2 Hm2]. destruct Hq3 as [Hq3 Hm3].
  assert (Hd2 : c / 4096 = c1).
  { change 4096 with (64 * 64). rewrite <- N.div_div by lia. rewrite Hq1. exact Hq2. }
  assert (Hd3 : c / 262144 = b0 - 240).
  { change 262144 with (4096 * 64). rewrite <- N.div_div by lia. rewrite Hd2. exact Hq3. }
  split.
  - unfold utf8_encode_cp.
    assert ((c <=? 127) = false) as -> by (subst c c2 c1; lia).
    assert ((c <=? 2047) = false) as -> by (subst c c2 c1; lia).
    assert ((c <=? 65535) = false) as -> by (subst c c2 c1; lia).
    rewrite Hd3, Hd2, Hm3, Hq1, Hm2, Hm1. f_equal; [lia|f_equal; [lia|f_equal; [lia|f_equal; lia]]].
  - unfold is_scalar. subst c c2 c1. lia.
Qed.

(* ------------------------------------------------------------------------------------------ *)
(* one read of the C++ decoder against the Standard's decoder                                  *)
(* ------------------------------------------------------------------------------------------ *)
Lemma firstn_len1 (x : N) r : firstn (length (x :: r) - length r) (x :: r) = [x].
Proof. replace (length (x :: r) - length r)%nat with 1%nat by (cbn [length]; lia). reflexivity. Qed.
Lemma firstn_len2 (x y : N) r : firstn (length (x :: y :: r) - length r) (x :: y :: r) = [x; y].
Proof. replace (length (x :: y :: r) - length r)%nat with 2%nat by (cbn [length]; lia). reflexivity. Qed.
Lemma firstn_len3 (x y z : N) r : firstn (length (x :: y :: z :: r) - length r) (x :: y :: z :: r) = [x; y; z].
Proof. replace (length (x :: y :: z :: r) - length r)%nat with 3%nat by (cbn [length]; lia). reflexivity. Qed.
Lemma firstn_len4 (x y z w : N) r :
  firstn (length (x :: y :: z :: w :: r) - length r) (x :: y :: z :: w :: r) = [x; y; z; w].
Proof. replace (length (x :: y :: z :: w :: r) - length r)%nat with 4%nat by (cbn [length]; lia). reflexivity. Qed.

Lemma bytes_ok_cons x r : bytes_ok (x :: r) -> x < 256 /\ bytes_ok r.
Proof. intro H. inversion H; subst. split; assumption. Qed.

Lemma read_code_point8_step : forall s, bytes_ok s -> s <> [] ->
  exists ok c r, read_code_point8 s = Some (ok, c, r) /\ bytes_ok r /\ (length r < length s)%nat /\
    (ok = true -> firstn (length s - length r) s = utf8_encode_cp c /\ is_scalar c = true /\ utf8_decode s = c :: utf8_decode r) /\
    (ok = false -> utf8_decode s = REPL :: utf8_decode r).
Proof.
  intros s Hs Hne. destruct s as [|b0 r1]; [contradiction|]. clear Hne.
  destruct (bytes_ok_cons _ _ Hs) as [Hb0 Hr1].
  destruct (N.ltb_spec b0 128) as [Ha|Ha].
  { (* ASCII *)
    exists true, b0, r1. rewrite rcp8_ascii by exact Ha.
    split; [reflexivity|]. split; [exact Hr1|]. split; [cbn [length]; lia|].
    split; [|discriminate]. intros _. rewrite firstn_len1.
    split; [|split].
    - unfold utf8_encode_cp. assert ((b0 <=? 127) = true) as -> by lia. reflexivity.
    - unfold is_scalar. lia.
    - apply dec8_ascii. exact Ha. }
  destruct r1 as [|t1 r2].
  { (* lead or stray byte at the end of the input *)
    exists false, b0, []. rewrite rcp8_single by assumption.
    split; [reflexivity|]. split; [constructor|]. split; [cbn [length]; lia|].
    split; [discriminate|]. intros _. rewrite dec8_single by exact Ha. reflexivity. }
  destruct (bytes_ok_cons _ _ Hr1) as [Ht1 Hr2].
  assert (Hcls : ((128 <= b0 /\ b0 < 194) \/ 245 <= b0) \/ (194 <= b0 /\ b0 < 224) \/
                 (224 <= b0 /\ b0 < 240) \/ (240 <= b0 /\ b0 <= 244)) by lia.
  destruct Hcls as [Hbad|[[H1 H2]|[[H1 H2]|[H1 H2]]]].
  - (* not a lead byte *)
    destruct (rcp8_bad b0 t1 r2 Hb0 Ht1 Hbad) as [c Hc].
    exists false, c, (t1 :: r2). split; [exact Hc|]. split; [exact Hr1|]. split; [cbn [length]; lia|].
    split; [discriminate|]. intros _. apply dec8_bad. exact Hbad.
  - (* two-byte sequence *)
    rewrite rcp8_2, dec8_2 by assumption.
    destruct (is_cont t1) eqn:Ec.
    + eexists true, _, r2. split; [reflexivity|]. split; [exact Hr2|]. split; [cbn [length]; lia|].
      split; [|discriminate]. intros _. rewrite firstn_len2.
      destruct (enc_2 b0 t1 H1 H2 Ec) as [He Hsc]. rewrite He. auto.
    + eexists false, _, (t1 :: r2). split; [reflexivity|]. split; [exact Hr1|]. split; [cbn [length]; lia|].
      split; [discriminate|]. intros _. reflexivity.
  - (* three-byte sequence *)
    rewrite rcp8_3, dec8_3 by assumption.
    destruct (in3 b0 t1) eqn:E1.
    + destruct r2 as [|t2 r3].
      * eexists false, _, []. split; [reflexivity|]. split; [constructor|]. split; [cbn [length]; lia|].
        split; [discriminate|]. intros _. reflexivity.
      * destruct (bytes_ok_cons _ _ Hr2) as [Ht2 Hr3].
        destruct (is_cont t2) eqn:E2.
        -- eexists true, _, r3. split; [reflexivity|]. split; [exact Hr3|]. split; [cbn [length]; lia|].
           split; [|discriminate]. intros _. rewrite firstn_len3.
           destruct (enc_3 b0 t1 t2 H1 H2 E1 E2) as [He Hsc]. rewrite He. auto.
        -- eexists false, _, (t2 :: r3). split; [reflexivity|]. split; [exact Hr2|]. split; [cbn [length]; lia|].
           split; [discriminate|]. intros _. reflexivity.
    + eexists false, _, (t1 :: r2). split; [reflexivity|]. split; [exact Hr1|]. split; [cbn [length]; lia|].
      split; [discriminate|]. intros _. reflexivity.
  - (* four-byte sequence *)
    rewrite rcp8_4, dec8_4 by assumption.
    destruct (in4 b0 t1) eqn:E1.
    + destruct r2 as [|t2 r3].
      * eexists false, _, []. split; [reflexivity|]. split; [constructor|]. split; [cbn [length]; lia|].
        split; [discriminate|]. intros _. reflexivity.
      * destruct (bytes_ok_cons _ _ Hr2) as [Ht2 Hr3].
        destruct (is_cont t2) eqn:E2.
        -- destruct r3 as [|t3 r4].
           ++ eexists false, _, []. split; [reflexivity|]. split; [constructor|]. split; [cbn [length]; lia|].
              split; [discriminate|]. intros _. reflexivity.
           ++ destruct (bytes_ok_cons _ _ Hr3) as [Ht3 Hr4].
              destruct (is_cont t3) eqn:E3.
              ** eexists true, _, r4. split; [reflexivity|]. split; [exact Hr4|]. split; [cbn [length]; lia|].
                 split; [|discriminate]. intros _. rewrite firstn_len4.
                 destruct (enc_4 b0 t1 t2 t3 H1 H2 E1 E2 E3) as [He Hsc]. rewrite He. auto.
              ** eexists false, _, (t3 :: r4). split; [reflexivity|]. split; [exact Hr3|].
                 split; [cbn [length]; lia|]. split; [discriminate|]. intros _. reflexivity.
        -- eexists false, _, (t2 :: r3). split; [reflexivity|]. split; [exact Hr2|]. split; [cbn [length]; lia|].
           split; [discriminate|]. intros _. reflexivity.
    + eexists false, _, (t1 :: r2). split; [reflexivity|]. split; [exact Hr1|]. split; [cbn [length]; lia|].
      split; [discriminate|]. intros _. reflexivity.
Qed.

(* ------------------------------------------------------------------------------------------ *)
(* the encoder: shape of utf8_encode_cp on scalar values                                       *)
(* ------------------------------------------------------------------------------------------ *)
Lemma utf8_encode_cp_cases c : is_scalar c = true ->
  (c < 128 /\ utf8_encode_cp c = [c]) \/
  (exists b0 t1, utf8_encode_cp c = [b0; t1] /\ 194 <= b0 /\ b0 < 224 /\ is_cont t1 = true /\
                 c = (b0 - 192) * 64 + (t1 - 128) /\ 128 <= c) \/
  (exists b0 t1 t2, utf8_encode_cp c = [b0; t1; t2] /\ 224 <= b0 /\ b0 < 240 /\ in3 b0 t1 = true /\
                 is_cont t2 = true /\ c = ((b0 - 224) * 64 + (t1 - 128)) * 64 + (t2 - 128) /\ 128 <= c) \/
  (exists b0 t1 t2 t3, utf8_encode_cp c = [b0; t1; t2; t3] /\ 240 <= b0 /\ b0 <= 244 /\ in4 b0 t1 = true /\
                 is_cont t2 = true /\ is_cont t3 = true /\
                 c = (((b0 - 240) * 64 + (t1 - 128)) * 64 + (t2 - 128)) * 64 + (t3 - 128) /\ 128 <= c).
Proof.
  intro Hs. unfold is_scalar in Hs. unfold utf8_encode_cp.
  pose proof (N.div_mod c 64 ltac:(lia)) as Hd1. pose proof (N.mod_lt c 64 ltac:(lia)) as Hm1.
  replace (c / 4096) with (c / 64 / 64) by (rewrite N.div_div by lia; reflexivity).
  replace (c / 262144) with (c / 64 / 64 / 64) by (rewrite !N.div_div by lia; reflexivity).
  set (q1 := c / 64) in *. set (m1 := c mod 64) in *.
  pose proof (N.div_mod q1 64 ltac:(lia)) as Hd2. pose proof (N.mod_lt q1 64 ltac:(lia)) as Hm2.
  set (q2 := q1 / 64) in *. set (m2 := q1 mod 64) in *.
  pose proof (N.div_mod q2 64 ltac:(lia)) as Hd3. pose proof (N.mod_lt q2 64 ltac:(lia)) as Hm3.
  set (q3 := q2 / 64) in *. set (m3 := q2 mod 64) in *.
  destruct (N.leb_spec c 127) as [L1|L1]; [left; split; [lia|reflexivity]|right].
  destruct (N.leb_spec c 2047) as [L2|L2].
  { left. exists (192 + q1), (128 + m1). split; [reflexivity|].
    unfold is_cont. repeat split; lia. }
  right.
  destruct (N.leb_spec c 65535) as [L3|L3].
  { left. exists (224 + q2), (128 + m2), (128 + m1). split; [reflexivity|].
    split; [lia|]. split; [lia|]. split.
    - unfold in3. destruct (N.eqb_spec (224 + q2) 224), (N.eqb_spec (224 + q2) 237); lia.
    - unfold is_cont. repeat split; lia. }
  right. exists (240 + q3), (128 + m3), (128 + m2), (128 + m1). split; [reflexivity|].
  split; [lia|]. split; [lia|]. split.
  - unfold in4. destruct (N.eqb_spec (240 + q3) 240), (N.eqb_spec (240 + q3) 244); lia.
  - unfold is_cont. repeat split; lia.
Qed.

Lemma utf8_encode_cp_bytes : forall c, is_scalar c = true -> bytes_ok (utf8_encode_cp c).
Proof.
  intros c Hs. unfold bytes_ok.
  destruct (utf8_encode_cp_cases c Hs) as
    [[H E]|[(b0 & t1 & E & H1 & H2 & C1 & _)|[(b0 & t1 & t2 & E & H1 & H2 & C1 & C2 & _)|
     (b0 & t1 & t2 & t3 & E & H1 & H2 & C1 & C2 & C3 & _)]]]; rewrite E.
  - repeat constructor. lia.
  - apply is_cont_range in C1. repeat constructor; lia.
  - apply in3_cont in C1. apply is_cont_range in C1. apply is_cont_range in C2. repeat constructor; lia.
  - apply in4_cont in C1. apply is_cont_range in C1. apply is_cont_range in C2. apply is_cont_range in C3.
    repeat constructor; lia.
Qed.

Lemma utf8_encode_bytes : forall s, scalars_ok s -> bytes_ok (utf8_encode s).
Proof.
  intros s Hs. unfold utf8_encode, bytes_ok. induction Hs as [|c s Hc Hs IH]; [constructor|].
  cbn [flat_map]. apply Forall_app. split; [apply utf8_encode_cp_bytes; exact Hc|exact IH].
Qed.

Lemma utf8_encode_app : forall a b, utf8_encode (a ++ b) = utf8_encode a ++ utf8_encode b.
Proof. intros a b. unfold utf8_encode. apply flat_map_app. Qed.

Lemma utf8_encode_cp_head : forall c, is_scalar c = true ->
  exists h t, utf8_encode_cp c = h :: t /\ is_cont h = false /\ (h <? 128) = (c <? 128)
              /\ Forall (fun x => is_cont x = true) t.
Proof.
  intros c Hs.
  destruct (utf8_encode_cp_cases c Hs) as
    [[H E]|[(b0 & t1 & E & H1 & H2 & C1 & Hc & Hge)|[(b0 & t1 & t2 & E & H1 & H2 & C1 & C2 & Hc & Hge)|
     (b0 & t1 & t2 & t3 & E & H1 & H2 & C1 & C2 & C3 & Hc & Hge)]]]; rewrite E.
  - exists c, []. split; [reflexivity|]. split; [unfold is_cont; lia|]. split; [reflexivity|constructor].
  - exists b0, [t1]. split; [reflexivity|]. split; [unfold is_cont; lia|].
    split; [lia|]. repeat constructor. exact C1.
  - exists b0, [t1; t2]. split; [reflexivity|]. split; [unfold is_cont; lia|].
    pose proof (in3_cont _ _ C1) as C1'.
    split; [lia|]. repeat constructor; assumption.
  - exists b0, [t1; t2; t3]. split; [reflexivity|]. split; [unfold is_cont; lia|].
    pose proof (in4_cont _ _ C1) as C1'.
    split; [lia|].
    repeat constructor; assumption.
Qed.

(* decoding an encoded scalar followed by anything *)
Lemma utf8_decode_encode_cp_app : forall c Y, is_scalar c = true ->
  utf8_decode (utf8_encode_cp c ++ Y) = c :: utf8_decode Y.
Proof.
  intros c Y Hs.
  destruct (utf8_encode_cp_cases c Hs) as
    [[H E]|[(b0 & t1 & E & H1 & H2 & C1 & Hc & Hge)|[(b0 & t1 & t2 & E & H1 & H2 & C1 & C2 & Hc & Hge)|
     (b0 & t1 & t2 & t3 & E & H1 & H2 & C1 & C2 & C3 & Hc & Hge)]]]; rewrite E; cbn [app].
  - apply dec8_ascii. exact H.
  - rewrite dec8_2 by assumption. rewrite C1, <- Hc. reflexivity.
  - rewrite dec8_3 by assumption. rewrite C1, C2, <- Hc. reflexivity.
  - rewrite dec8_4 by assumption. rewrite C1, C2, C3, <- Hc. reflexivity.
Qed.

Lemma utf8_decode_encode : forall s, scalars_ok s -> utf8_decode (utf8_encode s) = s.
Proof.
  intros s Hs. induction Hs as [|c s Hc Hs IH]; [reflexivity|].
  unfold utf8_encode. cbn [flat_map]. rewrite utf8_decode_encode_cp_app by exact Hc.
  unfold utf8_encode in IH. rewrite IH. reflexivity.
Qed.

Lemma utf8_decode_ascii_cons : forall c b, c < 128 -> utf8_decode (c :: b) = c :: utf8_decode b.
Proof. intros c b H. apply dec8_ascii. exact H. Qed.

(* ------------------------------------------------------------------------------------------ *)
(* decoding distributes over a split at a character boundary                                   *)
(* ------------------------------------------------------------------------------------------ *)
Definition st_ok (st : dstate) : Prop := d_needed st = 0 \/ (128 <= d_lower st /\ d_upper st <= 191).

Lemma dstep0_ok b : st_ok (fst (dstep0 b)).
Proof.
  unfold dstep0, st_ok, dinit.
  repeat match goal with |- context [if ?c then _ else _] => destruct c end;
    cbn [fst d_needed d_lower d_upper]; lia.
Qed.

Lemma dstep_ok st b : st_ok (fst (dstep st b)).
Proof.
  unfold dstep.
  destruct (d_needed st =? 0); [apply dstep0_ok|].
  destruct ((b <? d_lower st) || (d_upper st <? b)).
  - pose proof (dstep0_ok b) as H. destruct (dstep0 b) as [st' out]. exact H.
  - cbv zeta. destruct (d_seen st + 1 =? d_needed st); unfold st_ok, dinit;
      cbn [fst d_needed d_lower d_upper]; lia.
Qed.

Lemma decode_from_app st a b : st_ok st ->
  match b with [] => True | x :: _ => is_cont x = false end ->
  decode_from st (a ++ b) = decode_from st a ++ utf8_decode b.
Proof.
  revert st. induction a as [|y a IH]; intros st Hst Hb.
  - cbn [app]. destruct b as [|x b'].
    + cbn [decode_from]. change (utf8_decode []) with (@nil N). rewrite app_nil_r. reflexivity.
    + destruct (N.eqb_spec (d_needed st) 0) as [E|E].
      * cbn [decode_from]. unfold dstep. rewrite E. reflexivity.
      * rewrite decode_from_cont by exact E. rewrite decode_from_end by exact E.
        destruct Hst as [Hst|[Hl Hu]]; [contradiction|].
        assert ((d_lower st <=? x) && (x <=? d_upper st) = false) as ->.
        { unfold is_cont in Hb. lia. }
        reflexivity.
  - cbn [app decode_from].
    pose proof (dstep_ok st y) as Hst'. destruct (dstep st y) as [st' out].
    rewrite (IH st' Hst' Hb). apply app_assoc.
Qed.

Lemma utf8_decode_app : forall a b, bytes_ok a -> bytes_ok b ->
  match b with [] => True | x :: _ => is_cont x = false end ->
  utf8_decode (a ++ b) = utf8_decode a ++ utf8_decode b.
Proof.
  intros a b _ _ Hb. unfold utf8_decode at 1 2. apply decode_from_app; [|exact Hb].
  left. reflexivity.
Qed.

(* ------------------------------------------------------------------------------------------ *)
(* UTF-16 and UTF-32 readers                                                                   *)
(* ------------------------------------------------------------------------------------------ *)
Lemma u16_surrogate_spec c : c < 65536 -> u16_is_surrogate c = is_lead c || is_trail c.
Proof.
  intro Hc. apply eqb_prop.
  apply (sweep_u16 (fun c => Bool.eqb (u16_is_surrogate c) (is_lead c || is_trail c)));
    [vm_compute; reflexivity|exact Hc].
Qed.

Lemma u16_lead_spec c : c < 65536 -> is_lead c || is_trail c = true -> u16_is_surrogate_lead c = is_lead c.
Proof.
  intros Hc Hs.
  pose proof (sweep_u16 (fun c => negb (is_lead c || is_trail c) || Bool.eqb (u16_is_surrogate_lead c) (is_lead c))
                ltac:(vm_compute; reflexivity) c Hc) as Hx.
  cbv beta in Hx. rewrite Hs in Hx. apply eqb_prop. exact Hx.
Qed.

Lemma u16_trail_spec c : c < 65536 -> u16_is_trail c = is_trail c.
Proof.
  intro Hc. apply eqb_prop.
  apply (sweep_u16 (fun c => Bool.eqb (u16_is_trail c) (is_trail c)));
    [vm_compute; reflexivity|exact Hc].
Qed.

Lemma u16_supplementary_spec a b : is_lead a = true -> is_trail b = true ->
  u16_get_supplementary a b = 65536 + (a - 55296) * 1024 + (b - 56320).
Proof.
  unfold is_lead, is_trail, u16_get_supplementary, u16_surrogate_offset. intros Ha Hb.
  rewrite N.shiftl_mul_pow2. change (2 ^ 10) with 1024. lia.
Qed.

Lemma units16_ok_cons x r : units16_ok (x :: r) -> x < 65536 /\ units16_ok r.
Proof. intro H. inversion H; subst. split; assumption. Qed.

Lemma read_code_point16_step : forall s, units16_ok s -> s <> [] ->
  exists ok c r, read_utf_char U16 s = Some (ok, c, r) /\ units16_ok r /\
                 (length r < length s)%nat /\ is_scalar c = true /\ utf16_decode s = c :: utf16_decode r.
Proof.
  intros s Hs Hne. destruct s as [|a r1]; [contradiction|]. clear Hne.
  destruct (units16_ok_cons _ _ Hs) as [Ha Hr1].
  unfold read_utf_char, read_code_point, read_code_point16.
  rewrite (u16_surrogate_spec a Ha). cbn [utf16_decode].
  destruct (is_lead a) eqn:El.
  - cbn [orb]. rewrite (u16_lead_spec a Ha) by (rewrite El; reflexivity). rewrite El.
    destruct r1 as [|t r2].
    + exists false, 65533, []. split; [reflexivity|]. split; [constructor|]. split; [cbn [length]; lia|].
      split; reflexivity.
    + destruct (units16_ok_cons _ _ Hr1) as [Ht Hr2].
      rewrite (u16_trail_spec t Ht). cbn [andb].
      destruct (is_trail t) eqn:Et.
      * rewrite (u16_supplementary_spec a t El Et).
        eexists true, _, r2. split; [reflexivity|]. split; [exact Hr2|]. split; [cbn [length]; lia|].
        split; [|reflexivity]. unfold is_scalar, is_lead, is_trail in *. lia.
      * exists false, 65533, (t :: r2). split; [reflexivity|]. split; [exact Hr1|].
        split; [cbn [length]; lia|]. split; reflexivity.
  - cbn [orb]. destruct (is_trail a) eqn:Et.
    + rewrite (u16_lead_spec a Ha) by (rewrite El, Et; reflexivity). rewrite El. cbn [andb].
      exists false, 65533, r1. split; [destruct r1; reflexivity|]. split; [exact Hr1|].
      split; [cbn [length]; lia|]. split; reflexivity.
    + exists true, a, r1. split; [reflexivity|]. split; [exact Hr1|]. split; [cbn [length]; lia|].
      split; [|reflexivity]. unfold is_scalar, is_lead, is_trail in *. lia.
Qed.

Lemma read_code_point32_step : forall s, s <> [] ->
  exists ok c r, read_utf_char U32 s = Some (ok, c, r) /\ r = tl s /\
                 (length r < length s)%nat /\ is_scalar c = true /\ utf32_decode s = c :: utf32_decode r.
Proof.
  intros s Hne. destruct s as [|a r1]; [contradiction|]. clear Hne.
  unfold read_utf_char, read_code_point, read_code_point32. cbn [utf32_decode map tl].
  change ((a <? 55296) || ((57343 <? a) && (a <=? 1114111))) with (is_scalar a).
  destruct (is_scalar a) eqn:Es.
  - exists true, a, r1. repeat split; try reflexivity; [cbn [length]; lia|exact Es].
  - exists false, 65533, r1. repeat split; try reflexivity. cbn [length]; lia.
Qed.

Lemma units32_ok_tl s : units32_ok s -> units32_ok (tl s).
Proof. intro H. destruct s; [exact H|]. inversion H; assumption. Qed.

(* one read, any encoding, with the scalar-value fact *)
Lemma read_utf_char_step_sc : forall e s, units_ok e s -> s <> [] ->
  exists ok c r, read_utf_char e s = Some (ok, c, r) /\ units_ok e r /\
                 (length r < length s)%nat /\ is_scalar c = true /\ spec_decode e s = c :: spec_decode e r.
Proof.
  intros e s Hs Hne. destruct e.
  - destruct (read_code_point8_step s Hs Hne) as (ok & c & r & Hr & Hok & Hlen & Ht & Hf).
    unfold read_utf_char, read_code_point. rewrite Hr. destruct ok.
    + destruct (Ht eq_refl) as (_ & Hsc & Hd). exists true, c, r. repeat split; assumption.
    + exists false, 65533, r. repeat split; try assumption; try reflexivity. exact (Hf eq_refl).
  - exact (read_code_point16_step s Hs Hne).
  - destruct (read_code_point32_step s Hne) as (ok & c & r & Hr & Htl & Hlen & Hsc & Hd).
    exists ok, c, r. repeat split; try assumption. subst r. apply units32_ok_tl. exact Hs.
Qed.

Lemma read_utf_char_step : forall e s, units_ok e s -> s <> [] ->
  exists ok c r, read_utf_char e s = Some (ok, c, r) /\ units_ok e r /\
                 (length r < length s)%nat /\ spec_decode e s = c :: spec_decode e r.
Proof.
  intros e s Hs Hne.
  destruct (read_utf_char_step_sc e s Hs Hne) as (ok & c & r & Hr & Hok & Hlen & _ & Hd).
  exists ok, c, r. repeat split; assumption.
Qed.

Lemma spec_decode_nil e : spec_decode e [] = [].
Proof. destruct e; reflexivity. Qed.

Lemma decode_loop_spec e : forall fuel s, units_ok e s -> (length s <= fuel)%nat ->
  decode_loop fuel e s = spec_decode e s /\ scalars_ok (spec_decode e s).
Proof.
  induction fuel as [|f IH]; intros s Hs Hlen.
  - destruct s; [|cbn [length] in Hlen; lia]. rewrite spec_decode_nil. split; [reflexivity|constructor].
  - destruct s as [|x s'].
    + rewrite spec_decode_nil. split; [reflexivity|constructor].
    + destruct (read_utf_char_step_sc e (x :: s') Hs ltac:(discriminate))
        as (ok & c & r & Hr & Hok & Hl & Hsc & Hd).
      cbn [decode_loop]. rewrite Hr, Hd.
      destruct (IH r Hok ltac:(cbn [length] in *; lia)) as [IH1 IH2].
      rewrite IH1. split; [reflexivity|]. constructor; assumption.
Qed.

Lemma impl_decode_spec : forall e s, units_ok e s -> Impl.Utf.decode e s = spec_decode e s.
Proof. intros e s Hs. unfold decode. apply decode_loop_spec; [exact Hs|lia]. Qed.

Lemma spec_decode_scalars : forall e s, units_ok e s -> scalars_ok (spec_decode e s).
Proof. intros e s Hs. apply (decode_loop_spec e (length s) s Hs). lia. Qed.

Lemma utf8_decode_scalars : forall bs, bytes_ok bs -> scalars_ok (utf8_decode bs).
Proof. intros bs H. exact (spec_decode_scalars U8 bs H). Qed.

(* ------------------------------------------------------------------------------------------ *)
(* the C++ encoders                                                                            *)
(* ------------------------------------------------------------------------------------------ *)
Lemma lor_trail x : x < 64 -> N.lor x 128 = 128 + x.
Proof.
  intro Hx. assert (Hb : x < 256) by lia.
  pose proof (sweep_byte (fun x => negb (x <? 64) || (N.lor x 128 =? 128 + x))
                ltac:(vm_compute; reflexivity) x Hb) as H.
  cbv beta in H. assert ((x <? 64) = true) as E by lia. rewrite E in H. apply N.eqb_eq. exact H.
Qed.

Lemma lor_lead2 x : x < 32 -> N.lor x 192 mod 256 = 192 + x.
Proof.
  intro Hx. assert (Hb : x < 256) by lia.
  pose proof (sweep_byte (fun x => negb (x <? 32) || (N.lor x 192 mod 256 =? 192 + x))
                ltac:(vm_compute; reflexivity) x Hb) as H.
  cbv beta in H. assert ((x <? 32) = true) as E by lia. rewrite E in H. apply N.eqb_eq. exact H.
Qed.

Lemma lor_lead3 x : x < 16 -> N.lor x 224 mod 256 = 224 + x.
Proof.
  intro Hx. assert (Hb : x < 256) by lia.
  pose proof (sweep_byte (fun x => negb (x <? 16) || (N.lor x 224 mod 256 =? 224 + x))
                ltac:(vm_compute; reflexivity) x Hb) as H.
  cbv beta in H. assert ((x <? 16) = true) as E by lia. rewrite E in H. apply N.eqb_eq. exact H.
Qed.

Lemma lor_lead4 x : x < 8 -> N.lor x 240 mod 256 = 240 + x.
Proof.
  intro Hx. assert (Hb : x < 256) by lia.
  pose proof (sweep_byte (fun x => negb (x <? 8) || (N.lor x 240 mod 256 =? 240 + x))
                ltac:(vm_compute; reflexivity) x Hb) as H.
  cbv beta in H. assert ((x <? 8) = true) as E by lia. rewrite E in H. apply N.eqb_eq. exact H.
Qed.

Lemma land63_mod x : N.land x 63 = x mod 64.
Proof. change 63 with (N.ones 6). rewrite N.land_ones. reflexivity. Qed.

Lemma append_utf8_spec : forall c, is_scalar c = true -> append_utf8 c = utf8_encode_cp c.
Proof.
  intros c Hs. unfold append_utf8, utf8_encode_cp.
  assert (Hmax : c <= 1114111) by (unfold is_scalar in Hs; lia). clear Hs.
  rewrite !land63_mod, !N.shiftr_div_pow2.
  change (2 ^ 6) with 64. change (2 ^ 12) with 4096. change (2 ^ 18) with 262144.
  pose proof (N.mod_lt c 64 ltac:(lia)) as Hm1.
  pose proof (N.mod_lt (c / 64) 64 ltac:(lia)) as Hm2.
  pose proof (N.mod_lt (c / 4096) 64 ltac:(lia)) as Hm3.
  rewrite (lor_trail (c mod 64) Hm1), (lor_trail (c / 64 mod 64) Hm2), (lor_trail (c / 4096 mod 64) Hm3).
  destruct (N.leb_spec c 127) as [L1|L1]; [reflexivity|].
  destruct (N.leb_spec c 2047) as [L2|L2].
  { rewrite lor_lead2 by (clear - L2; lia). reflexivity. }
  destruct (N.leb_spec c 65535) as [L3|L3].
  { rewrite lor_lead3 by (clear - L3; lia). reflexivity. }
  rewrite lor_lead4 by (clear - Hmax; lia). reflexivity.
Qed.

Lemma append_utf16_spec : forall c, is_scalar c = true -> append_utf16 c = utf16_encode_cp c.
Proof.
  intros c Hs. unfold append_utf16, utf16_encode_cp.
  assert (Hmax : c <= 1114111) by (unfold is_scalar in Hs; lia). clear Hs.
  destruct (N.leb_spec c 65535) as [L|L].
  - rewrite N.mod_small by lia. reflexivity.
  - rewrite N.shiftr_div_pow2. change (2 ^ 10) with 1024.
    change 1023 with (N.ones 10). rewrite N.land_ones. change (2 ^ 10) with 1024.
    rewrite N.lor_comm. change 56320 with (N.shiftl 55 10) at 1.
    rewrite lor_shiftl_small by (apply N.mod_lt; discriminate). change (2 ^ 10) with 1024.
    f_equal; [lia|f_equal; lia].
Qed.

(* ------------------------------------------------------------------------------------------ *)
(* check_fix_utf8                                                                              *)
(* ------------------------------------------------------------------------------------------ *)
Lemma replacement_utf8_is_FFFD : replacement_utf8 = utf8_encode_cp REPL.
Proof. vm_compute. reflexivity. Qed.

Lemma check_fix_loop_spec : forall fuel s, bytes_ok s -> (length s <= fuel)%nat ->
  check_fix_loop fuel s = utf8_encode (utf8_decode s).
Proof.
  induction fuel as [|f IH]; intros s Hs Hlen.
  - destruct s; [reflexivity|cbn [length] in Hlen; lia].
  - destruct s as [|x s']; [reflexivity|].
    destruct (read_code_point8_step (x :: s') Hs ltac:(discriminate))
      as (ok & c & r & Hr & Hok & Hl & Ht & Hf).
    cbn [check_fix_loop]. rewrite Hr.
    rewrite (IH r Hok ltac:(cbn [length] in *; lia)).
    destruct ok.
    + destruct (Ht eq_refl) as (Hfst & _ & Hd). rewrite Hfst, Hd. reflexivity.
    + rewrite (Hf eq_refl), replacement_utf8_is_FFFD. reflexivity.
Qed.

Lemma check_fix_utf8_spec : forall bs, bytes_ok bs -> check_fix_utf8 bs = utf8_encode (utf8_decode bs).
Proof. intros bs Hs. unfold check_fix_utf8. apply check_fix_loop_spec; [exact Hs|lia]. Qed.
