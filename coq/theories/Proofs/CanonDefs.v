(* C08 — canonical, delimiter-safe form of URL records: definitions and alphabet lemmas. *)
From Upa Require Import Base.Prelude Spec.CodePoints Spec.Utf Spec.Percent Spec.Ip Spec.Url.
From Upa Require Import Proofs.SearchParamsProofs Proofs.Ipv4Proofs Proofs.Ipv6Parse.
From Coq Require Import ZifyBool ZifyN ZifyNat.
Local Open Scope N_scope.

Ltac Zify.zify_post_hook ::= Z.div_mod_to_equations.

(* ---------------------------------------------------------------------------------- *)
(* code points                                                                        *)
(* ---------------------------------------------------------------------------------- *)

(* inputs are strings of code points (surrogates allowed): values up to U+10FFFF *)
Definition cp_ok (c : N) : Prop := c <= 1114111.
Definition cps_ok (s : str) : Prop := Forall cp_ok s.

(* printable ASCII without / with the space *)
Definition pchar (c : N) : Prop := 33 <= c /\ c <= 126.
Definition pchar_sp (c : N) : Prop := 32 <= c /\ c <= 126.

(* ---------------------------------------------------------------------------------- *)
(* the clauses, on fields                                                             *)
(* ---------------------------------------------------------------------------------- *)

Definition scheme_tail (c : N) : bool :=
  is_ascii_lower_alpha c || is_ascii_digit c || in_list [43; 45; 46] c.
Definition scheme_ok0f (s : str) : Prop :=
  match s with
  | [] => True
  | c :: r => is_ascii_lower_alpha c = true /\ Forall (fun c => scheme_tail c = true) r
  end.
Definition scheme_okf (s : str) : Prop := s <> [] /\ scheme_ok0f s.

Definition port_okf (s : str) (po : option N) : Prop :=
  forall p, po = Some p -> p <= 65535 /\ default_port s <> Some p.

Definition ui_safe (s : str) : Prop := Forall (fun c => userinfo_encode c = false) s.

Definition dchar (c : N) : Prop :=
  forbidden_domain c = false /\ is_ascii_upper_alpha c = false /\ c < 128.
Definition ohchar (c : N) : Prop := c0_control_encode c = false /\ forbidden_host c = false.

Definition host_okh (h : host) : Prop :=
  match h with
  | HDomain d => d <> [] /\ Forall dchar d
  | HOpaque o => o <> [] /\ Forall ohchar o
  | HIpv4 a => a < 4294967296
  | HIpv6 p => length p = 8%nat /\ Forall (fun x => x < 65536) p
  | HEmpty => True
  end.
Definition host_okf (ho : option host) : Prop :=
  match ho with Some h => host_okh h | None => True end.

Definition qchar (sp : bool) (c : N) : Prop := query_encode c = false /\ (sp = true -> c <> 39).
Definition query_safef (s : str) (q : option str) : Prop :=
  forall x, q = Some x -> Forall (qchar (is_special_scheme s)) x.

Definition fchar (c : N) : Prop := fragment_encode c = false.
Definition fragment_safef (f : option str) : Prop := forall x, f = Some x -> Forall fchar x.

Definition segchar (sp : bool) (c : N) : Prop :=
  path_encode c = false /\ c <> 47 /\ (sp = true -> c <> 92).
Definition ochar (c : N) : Prop := c0_control_encode c = false /\ c <> 63 /\ c <> 35.
Definition path_safef (s : str) (p : upath) : Prop :=
  match p with
  | POpaque o => Forall ochar o
  | PList l => Forall (Forall (segchar (is_special_scheme s))) l
  end.

Definition special_ok0f (s : str) (ho : option host) (pa : upath) : Prop :=
  is_special_scheme s = true ->
  (exists l, pa = PList l) /\ exists h, ho = Some h /\ (str_eqb s s_file = false -> h <> HEmpty).
Definition path_nonemptyf (s : str) (pa : upath) : Prop :=
  is_special_scheme s = true -> exists x l, pa = PList (x :: l).

Definition cred_okf (s us pw : str) (ho : option host) (po : option N) : Prop :=
  (ho = None \/ ho = Some HEmpty \/ str_eqb s s_file = true) -> us = [] /\ pw = [] /\ po = None.

Definition opaque_okf (pa : upath) (ho : option host) : Prop := forall o, pa = POpaque o -> ho = None.

(* ---------------------------------------------------------------------------------- *)
(* the clauses, on records                                                            *)
(* ---------------------------------------------------------------------------------- *)

Definition scheme_ok (u : url) : Prop := scheme_okf (scheme u).
Definition port_ok (u : url) : Prop := port_okf (scheme u) (port u).
Definition special_ok (u : url) : Prop :=
  special_ok0f (scheme u) (uhost u) (path u) /\ path_nonemptyf (scheme u) (path u).
Definition cred_ok (u : url) : Prop := cred_okf (scheme u) (username u) (password u) (uhost u) (port u).
Definition userinfo_safe (u : url) : Prop := ui_safe (username u) /\ ui_safe (password u).
Definition host_ok (u : url) : Prop := host_okf (uhost u).
Definition query_safe (u : url) : Prop := query_safef (scheme u) (query u).
Definition fragment_safe (u : url) : Prop := fragment_safef (fragment u).
Definition path_safe (u : url) : Prop := path_safef (scheme u) (path u).
Definition opaque_ok (u : url) : Prop := opaque_okf (path u) (uhost u).

(* field-local clauses (hold of every record the machine ever holds) *)
Definition Local (u : url) : Prop :=
  scheme_ok0f (scheme u) /\ port_ok u /\ ui_safe (username u) /\ ui_safe (password u) /\
  host_ok u /\ query_safe u /\ fragment_safe u /\ path_safe u.
(* structural clauses, without "the path of a special URL is not empty" *)
Definition Struct (u : url) : Prop :=
  scheme u <> [] /\ special_ok0f (scheme u) (uhost u) (path u) /\ cred_ok u /\ opaque_ok u.
Definition Canon0 (u : url) : Prop := Local u /\ Struct u.
Definition Canon (u : url) : Prop := Canon0 u /\ path_nonemptyf (scheme u) (path u).

Lemma Canon_clauses u :
  Canon u <->
  scheme_ok u /\ port_ok u /\ special_ok u /\ cred_ok u /\ userinfo_safe u /\ host_ok u /\
  query_safe u /\ fragment_safe u /\ path_safe u /\ opaque_ok u.
Proof.
  unfold Canon, Canon0, Local, Struct, scheme_ok, scheme_okf, special_ok, userinfo_safe. tauto.
Qed.

(* ---------------------------------------------------------------------------------- *)
(* tactics                                                                            *)
(* ---------------------------------------------------------------------------------- *)

Ltac unfold_classes :=
  unfold scheme_tail, scheme_char, dchar, ohchar, qchar, fchar, segchar, ochar, pchar, pchar_sp, cp_ok,
    forbidden_domain, forbidden_host,
    component_encode, userinfo_encode, path_encode, special_query_encode, query_encode,
    fragment_encode, c0_control_encode,
    is_c0_control, is_ascii_alphanumeric, is_ascii_alpha, is_ascii_hex, is_ascii_upper_hex,
    is_ascii_lower_hex, is_ascii_digit, is_ascii_upper_alpha, is_ascii_lower_alpha, ascii_lower in *;
  cbn [in_list existsb] in *.

(* arithmetic / boolean goals about one code point: keep only the named hypotheses *)
Ltac clia := unfold_classes; lia.

(* ---------------------------------------------------------------------------------- *)
(* basic helpers                                                                      *)
(* ---------------------------------------------------------------------------------- *)

Lemma str_eqb_true a b : str_eqb a b = true -> a = b.
Proof. apply str_eqb_spec. Qed.

Lemma str_eqb_nil_false (b : str) : str_eqb b [] = false -> b <> [].
Proof. intros H E. subst. discriminate. Qed.

Lemma str_eqb_nil_true (b : str) : str_eqb b [] = true -> b = [].
Proof. destruct b; [reflexivity|discriminate]. Qed.

Lemma Forall_removelast {A} (P : A -> Prop) l : Forall P l -> Forall P (removelast l).
Proof.
  induction 1 as [|x l Hx Hl IH]; [constructor|]. cbn [removelast].
  destruct l; [constructor|]. constructor; assumption.
Qed.

Lemma Forall_rev' {A} (P : A -> Prop) l : Forall P l -> Forall P (rev l).
Proof. intro H. apply Forall_forall. intros x Hx. apply in_rev in Hx. rewrite Forall_forall in H. auto. Qed.

Lemma Forall_drop_while (P : N -> Prop) f l : Forall P l -> Forall P (drop_while f l).
Proof.
  induction 1 as [|x l Hx Hl IH]; [constructor|]. cbn [drop_while].
  destruct (f x); [assumption|constructor; assumption].
Qed.

Lemma Forall_filter {A} (P : A -> Prop) f l : Forall P l -> Forall P (filter f l).
Proof.
  induction 1 as [|x l Hx Hl IH]; [constructor|]. cbn [filter].
  destruct (f x); [constructor|]; assumption.
Qed.

Lemma Forall_skipn {A} (P : A -> Prop) n : forall l, Forall P l -> Forall P (skipn n l).
Proof.
  induction n as [|n IH]; intros l H; [exact H|]. destruct l; [constructor|].
  cbn [skipn]. apply IH. inversion H; assumption.
Qed.

Lemma Forall_flat_map {A B} (P : B -> Prop) (f : A -> list B) l :
  (forall x, In x l -> Forall P (f x)) -> Forall P (flat_map f l).
Proof.
  induction l as [|x l IH]; intro H; cbn [flat_map]; [constructor|].
  apply Forall_app. split; [apply H; left; reflexivity|apply IH; intros; apply H; right; assumption].
Qed.

Lemma existsb_false_Forall {A} (f : A -> bool) l : existsb f l = false -> Forall (fun x => f x = false) l.
Proof.
  induction l as [|x l IH]; intro H; [constructor|]. cbn [existsb] in H.
  apply orb_false_elim in H. destruct H. constructor; auto.
Qed.

Lemma app_cons_nonempty {A} (l : list A) x : exists y l', l ++ [x] = y :: l'.
Proof. destruct l as [|y l]; [exists x, []|exists y, (l ++ [x])]; reflexivity. Qed.

(* ---------------------------------------------------------------------------------- *)
(* alphabet of UTF-8 percent-encoding                                                 *)
(* ---------------------------------------------------------------------------------- *)

Lemma utf8_encode_cp_bytes' c : cp_ok c -> Forall (fun b => b < 256) (utf8_encode_cp c).
Proof.
  unfold cp_ok, utf8_encode_cp. intro H.
  destruct (N.leb_spec c 127); [repeat constructor; lia|].
  destruct (N.leb_spec c 2047); [repeat constructor; lia|].
  destruct (N.leb_spec c 65535); repeat constructor; lia.
Qed.

Definition hexu (c : N) : Prop := (48 <= c /\ c <= 57) \/ (65 <= c /\ c <= 70).

Lemma hex_digit_upper_hexu v : v < 16 -> hexu (hex_digit_upper v).
Proof. unfold hexu, hex_digit_upper. intro H. destruct (N.ltb_spec v 10); lia. Qed.

(* P holds of '%' and of the upper-case hex digits *)
Definition enc_closed (P : N -> Prop) : Prop := P 37 /\ forall c, hexu c -> P c.

Lemma pe_byte_Forall (P : N -> Prop) b : enc_closed P -> b < 256 -> Forall P (percent_encode_byte b).
Proof.
  intros [H37 Hh] Hb. unfold percent_encode_byte.
  constructor; [exact H37|]. constructor; [apply Hh, hex_digit_upper_hexu; lia|].
  constructor; [apply Hh, hex_digit_upper_hexu; lia|constructor].
Qed.

Lemma pe_cp_Forall (P : N -> Prop) set c :
  enc_closed P -> cp_ok c -> (set c = false -> P c) -> Forall P (utf8_percent_encode_cp set c).
Proof.
  intros HP Hc Hs. unfold utf8_percent_encode_cp. destruct (set c).
  - apply Forall_flat_map. intros b Hb. apply pe_byte_Forall; [exact HP|].
    pose proof (utf8_encode_cp_bytes' c Hc) as Hf. rewrite Forall_forall in Hf. exact (Hf b Hb).
  - constructor; [auto|constructor].
Qed.

Lemma pe_Forall (P : N -> Prop) set s :
  enc_closed P -> cps_ok s -> Forall (fun c => set c = false -> P c) s -> Forall P (utf8_percent_encode set s).
Proof.
  intros HP Hs Hq. unfold utf8_percent_encode. apply Forall_flat_map. intros c Hc.
  unfold cps_ok in Hs. rewrite Forall_forall in Hs, Hq. apply pe_cp_Forall; auto.
Qed.

Lemma pe_cp_nonempty set c : utf8_percent_encode_cp set c <> [].
Proof.
  unfold utf8_percent_encode_cp. destruct (set c); [|discriminate].
  unfold utf8_encode_cp.
  destruct (c <=? 127); [discriminate|]. destruct (c <=? 2047); [discriminate|].
  destruct (c <=? 65535); discriminate.
Qed.

Lemma pe_nonempty set s : s <> [] -> utf8_percent_encode set s <> [].
Proof.
  destruct s as [|c s]; [congruence|]. intros _ E. unfold utf8_percent_encode in E. cbn [flat_map] in E.
  apply app_eq_nil in E. destruct E as [E _]. exact (pe_cp_nonempty set c E).
Qed.

Lemma enc_closed_ui : enc_closed (fun c => userinfo_encode c = false).
Proof. split; [reflexivity|]. unfold hexu. intros c H. clia. Qed.
Lemma enc_closed_seg sp : enc_closed (segchar sp).
Proof. split; [unfold segchar; repeat split; (reflexivity || discriminate)|]. unfold hexu. intros c H. clia. Qed.
Lemma enc_closed_q sp : enc_closed (qchar sp).
Proof. split; [unfold qchar; repeat split; (reflexivity || discriminate)|]. unfold hexu. intros c H. clia. Qed.
Lemma enc_closed_f : enc_closed fchar.
Proof. split; [reflexivity|]. unfold hexu. intros c H. clia. Qed.
Lemma enc_closed_o : enc_closed ochar.
Proof. split; [unfold ochar; repeat split; (reflexivity || discriminate)|]. unfold hexu. intros c H. clia. Qed.
Lemma enc_closed_oh : enc_closed ohchar.
Proof. split; [unfold ohchar; repeat split; reflexivity|]. unfold hexu. intros c H. clia. Qed.

(* the alphabets are printable *)
Lemma ui_pchar c : userinfo_encode c = false -> pchar c.  Proof. intro H. clia. Qed.
Lemma seg_pchar sp c : segchar sp c -> pchar c.  Proof. intro H. clia. Qed.
Lemma q_pchar sp c : qchar sp c -> pchar c.  Proof. intro H. clia. Qed.
Lemma f_pchar c : fchar c -> pchar c.  Proof. intro H. clia. Qed.
Lemma o_pchar_sp c : ochar c -> pchar_sp c.  Proof. intro H. clia. Qed.
Lemma oh_pchar c : ohchar c -> pchar c.  Proof. intro H. clia. Qed.
Lemma d_pchar c : dchar c -> pchar c.  Proof. intro H. clia. Qed.

(* delimiter safety, spelled out *)
Lemma ui_delims c : userinfo_encode c = false -> c <> 47 /\ c <> 58 /\ c <> 64 /\ c <> 63 /\ c <> 35.
Proof. intro H. clia. Qed.
Lemma q_delims sp c : qchar sp c -> c <> 35 /\ c <> 32 /\ (sp = true -> c <> 39).
Proof. intros [H1 H2]. split; [clia|split; [clia|exact H2]]. Qed.
Lemma seg_delims sp c : segchar sp c -> c <> 47 /\ c <> 63 /\ c <> 35 /\ (sp = true -> c <> 92).
Proof. intros (H1 & H2 & H3). split; [exact H2|split; [clia|split; [clia|exact H3]]]. Qed.
