(* C05 — the second invariant of the basic URL parser's state machine (Proofs/Canon2Step.v) with
   a weaker premise on the base record: the base needs [Canon] and the machine's own predicate [X]
   (for [nq = false]: [Canon2w], the file quirk allowed) instead of [Canon2].  This file is the
   section [Machine2] of Proofs/Canon2Step.v with the hypothesis [base_ok2] generalised; the
   proofs are unchanged (the original uses the base only through [base_ok] and [base_X]). *)
From Upa Require Import Base.Prelude Spec.CodePoints Spec.Utf Spec.Percent Spec.Ip Spec.Url.
From Upa Require Import Proofs.SearchParamsProofs Proofs.Ipv4Proofs Proofs.Ipv6Parse Proofs.CanonDefs
  Proofs.CanonStep Proofs.ReparseDefs Proofs.Canon2Step.
From Coq Require Import ZifyBool ZifyN ZifyNat.
Local Open Scope N_scope.

Section Machine2w.
Variable idna : list N -> option (list N).
Hypothesis idna_ascii_lower :
  forall d r, idna d = Some r -> Forall (fun c => c < 128 /\ is_ascii_upper_alpha c = false) r.
Hypothesis H_idem : idna_idem idna.
(* [nq = true]: the file quirk is absent and stays absent (everything but the protocol setter);
   [nq = false]: nothing is claimed about the quirk *)
Variable nq : bool.

Lemma hk_none s : hostkind_f idna s None.  Proof. exact I. Qed.
Lemma hk_empty s : hostkind_f idna s (Some HEmpty).  Proof. exact I. Qed.
Hint Resolve hk_none hk_empty : canon2.

Lemma hk_special s s' ho : is_special_scheme s = is_special_scheme s' -> hostkind_f idna s ho -> hostkind_f idna s' ho.
Proof. intros E H. unfold hostkind_f in *. destruct ho as [[d|a4|a6|o|]|]; rewrite <- ?E; exact H. Qed.

(* the quirk part, in the form that is convenient for the path state *)
Definition QF (u : url) : Prop :=
  nq = true -> is_file u = true -> host_is_localhost (uhost u) = false /\ first_seg_quirky (path u) = false.
Definition P2 (u : url) : Prop := nodots u /\ hostkind idna u /\ QF u.
Definition X (u : url) : Prop := Extra idna u /\ QF u.

Ltac xatoms :=
  unfold X, P2, QF, Extra, nodots, opaque2, hostkind, nullhost_path, is_file, is_special in *; usimp.
Ltac xcanon := xatoms; splits; auto with canon2; try tauto.

Lemma QF_quirk u : QF u -> nq = true -> file_quirk u = false.
Proof.
  unfold QF, file_quirk. intros H Hn. destruct (is_file u); [|reflexivity].
  destruct (H Hn eq_refl) as [-> ->]. reflexivity.
Qed.

Lemma quirk_QF u : file_quirk u = false -> QF u.
Proof.
  unfold QF, file_quirk. intros H _ Hf. rewrite Hf in H. cbn [andb] in H. apply orb_false_elim in H. exact H.
Qed.

Lemma QF_notfile u : is_file u = false -> QF u.
Proof. intros H _ H'. congruence. Qed.

Lemma QF_nq u : nq = false -> QF u.
Proof. intros H H'. congruence. Qed.

Lemma X_P2 u : X u -> P2 u.
Proof. xatoms. tauto. Qed.

Lemma P2_X u : P2 u -> opaque2 u -> nullhost_path u -> X u.
Proof. xatoms. tauto. Qed.

Lemma Canon2_X u : Canon2 idna u -> X u.
Proof. intros (_ & HE & Hq). split; [exact HE|]. apply quirk_QF. unfold FileQuirk in Hq. destruct (file_quirk u); congruence. Qed.

(* ---------------- record updates ---------------- *)
Lemma X_set_query_some u q : X u -> X (set_query u (Some q)).
Proof. intro H. xatoms. splits; try tauto. apply (o2_query _ (query u)). tauto. Qed.

Lemma X_set_fragment_some u f : X u -> X (set_fragment u (Some f)).
Proof. intro H. xatoms. splits; try tauto. apply (o2_fragment _ _ (fragment u)). tauto. Qed.

Lemma X_set_fragment_list u f : X u -> has_opaque_path u = false -> X (set_fragment u f).
Proof.
  intros H Ho. apply has_opaque_path_false in Ho. destruct Ho as [l Hl]. xatoms. rewrite Hl in *.
  splits; auto with canon2; tauto.
Qed.

Lemma X_set_query_list u q : X u -> has_opaque_path u = false -> X (set_query u q).
Proof.
  intros H Ho. apply has_opaque_path_false in Ho. destruct Ho as [l Hl]. xatoms. rewrite Hl in *.
  splits; auto with canon2; tauto.
Qed.

Lemma P2_set_query u q : P2 u -> P2 (set_query u q).
Proof. intro H. exact H. Qed.
Lemma P2_set_fragment u f : P2 u -> P2 (set_fragment u f).
Proof. intro H. exact H. Qed.
Lemma P2_set_port u po : P2 u -> P2 (set_port u po).
Proof. intro H. exact H. Qed.

Lemma P2_shorten u : P2 u -> P2 (shorten_path u).
Proof.
  intro H. unfold shorten_path. destruct (path u) as [o|l] eqn:El; [exact H|].
  assert (Hr : P2 (set_path u (PList (removelast l)))).
  { xatoms. rewrite El in *. destruct H as (H1 & H2 & H3). splits; [|exact H2|].
    - apply nd_list, Forall_removelast, nd_list_inv, H1.
    - intros Hn Hf. destruct (H3 Hn Hf) as [H4 H5]. split; [exact H4|]. cbn [first_seg_quirky] in *.
      apply (fq_removelast l H5). }
  destruct l as [|x [|y l']]; try exact Hr.
  destruct (is_file u && is_normalized_windows_drive_letter x); [exact H|exact Hr].
Qed.

Lemma P2_path_append u seg : P2 u -> not_dot seg ->
  (nq = true -> is_file u = true -> path u = PList [] -> quirky_drive seg = false) ->
  P2 (path_append u seg).
Proof.
  intros H Hs Hq. unfold path_append. destruct (path u) as [o|l] eqn:El; [exact H|].
  xatoms. rewrite El in *. destruct H as (H1 & H2 & H3). splits; [|exact H2|].
  - apply nd_list, Forall_app. split; [apply nd_list_inv, H1|constructor; [exact Hs|constructor]].
  - intros Hn Hf. destruct (H3 Hn Hf) as [H4 H5]. split; [exact H4|]. cbn [first_seg_quirky] in *.
    change (fq (l ++ [seg]) = false). rewrite fq_app. destruct l as [|y l']; [apply Hq; auto|exact H5].
Qed.

Lemma P2_path_append_nil u : P2 u -> P2 (path_append u []).
Proof. intro H. apply P2_path_append; [exact H|exact not_dot_nil|intros; reflexivity]. Qed.

Lemma is_file_shorten u : is_file (shorten_path u) = is_file u.
Proof. unfold is_file. rewrite shorten_scheme. reflexivity. Qed.

Lemma flush_P2 u buf slash : P2 u -> P2 (flush u buf slash).
Proof.
  intro H. unfold flush.
  destruct (is_double_dot buf) eqn:Edd.
  - cbv zeta. destruct (negb slash); [apply P2_path_append_nil|]; apply P2_shorten, H.
  - destruct (is_single_dot buf && negb slash); [apply P2_path_append_nil, H|].
    destruct (is_single_dot buf) eqn:Esd; cbn [negb]; [exact H|]. cbv zeta.
    destruct (is_file u && path_is_empty_list u && is_windows_drive_letter buf) eqn:Ew.
    + apply andb_prop in Ew. destruct Ew as [_ Ew].
      apply P2_path_append; [exact H| |].
      * destruct buf as [|x [|y [|z r]]]; try discriminate. apply not_dot_norm.
      * intros _ _ _. apply quirky_drive_norm, wdl_normalize, Ew.
    + apply P2_path_append; [exact H|split; assumption|].
      intros _ Hf Hp. rewrite Hf in Ew. unfold path_is_empty_list in Ew. rewrite Hp in Ew. cbn [andb] in Ew.
      apply quirky_drive_nowdl, Ew.
Qed.

(* ---------------- host parsing: the kind of host fits the scheme ---------------- *)
Lemma host_parse_rest_kind buf sp h : host_parse_rest idna buf (negb sp) = Some h ->
  forall s, is_special_scheme s = sp -> hostkind_f idna s (Some h).
Proof.
  intros H s Hs. unfold host_parse_rest in H. destruct sp; cbn [negb] in H.
  - cbv zeta in H. unfold domain_to_ascii in H.
    destruct (idna (utf8_decode (percent_decode (utf8_encode buf)))) as [r|] eqn:Ei; [|discriminate].
    pose proof (H_idem _ _ Ei) as Hr.
    destruct r as [|r0 r']; [discriminate|]. set (r := r0 :: r') in *.
    destruct (existsb forbidden_domain r); [discriminate|].
    destruct (ends_in_number r) eqn:Een.
    + destruct (Spec.Ip.ipv4_parse r) as [a4|]; [|discriminate]. injection H as <-. exact Hs.
    + injection H as <-. cbn [hostkind_f]. auto.
  - unfold opaque_host_parse in H. destruct (existsb forbidden_host buf); [discriminate|].
    destruct (utf8_percent_encode c0_control_encode buf); injection H as <-; [exact I|exact Hs].
Qed.

Lemma host_parse_kind buf sp h : host_parse idna buf (negb sp) = Some h ->
  forall s, is_special_scheme s = sp -> hostkind_f idna s (Some h).
Proof.
  intros H. destruct buf as [|c rest].
  - rewrite host_parse_nil in H. apply (host_parse_rest_kind _ _ _ H).
  - destruct (N.eq_dec c 91) as [->|Hn].
    + destruct (host_parse_v6 _ _ _ _ H) as (a6 & r & _ & ->). intros; exact I.
    + rewrite (host_parse_not91 _ _ _ _ Hn) in H. apply (host_parse_rest_kind _ _ _ H).
Qed.

Variable input : str.
Hypothesis input_ok : cps_ok input.
Variable base : option url.
Hypothesis base_ok2 : forall b, base = Some b -> Canon b /\ X b.
Variable ov : option pstate.
Hypothesis input_nosp : ov = None -> last_opt input <> Some 32.

Notation len := (Z.of_nat (length input)).

Lemma char_at_none2 p : char_at input p = None -> (0 <= p)%Z -> (len <= p)%Z.
Proof. apply (char_at_none idna idna_ascii_lower). Qed.

Lemma base_ok : forall b, base = Some b -> Canon b.
Proof. intros b E. apply (base_ok2 b E). Qed.

Lemma base_X b : base = Some b -> X b.
Proof. intro E. apply base_ok2, E. Qed.

Definition SInv2 (m : mstate) : Prop :=
  let u := m_url m in
  match m_state m with
  | SchemeStart | Scheme => ov <> None -> nq = false /\ Extra idna u
  | Host | Hostname | FileHost => ov <> None -> X u
  | Port | Path => P2 u
  | PathStart => P2 u /\ (ov = None -> uhost u <> None)
  | OpaquePath =>
      ov = None /\ exists o, path u = POpaque o /\ starts_with [47] o = false /\
        (o = [] -> char_at input (m_pointer m) <> Some 47) /\
        (last_opt o = Some 32 -> char_at input (m_pointer m - 1) = Some 32)
  | Query | Fragment => X u
  | _ => True
  end.

Definition StepPost2 (m : mstate) (o : outcome) : Prop :=
  match o with
  | Fail => ov <> None -> X (m_url m)
  | Ret u => X u
  | Cont m' => ((len <= m_pointer m')%Z -> X (m_url m')) /\
               ((m_pointer m' < len)%Z -> SInv2 (inc_pointer m'))
  end.

Lemma post_lt2 m m' : (m_pointer m' < len)%Z -> SInv2 (inc_pointer m') -> StepPost2 m (Cont m').
Proof. intros H1 H2. split; [intro; lia|intro; exact H2]. Qed.

Lemma post_eof2 m m' : (len <= m_pointer m')%Z -> X (m_url m') -> StepPost2 m (Cont m').
Proof. intros H1 H2. split; [intro; exact H2|intro; lia]. Qed.

Lemma ov_cases2 : (ov = None /\ is_some ov = false) \/ (ov <> None /\ is_some ov = true).
Proof. destruct ov; [right; split; [discriminate|reflexivity]|left; split; reflexivity]. Qed.

Ltac ovnorm :=
  repeat match goal with
  | E : ov = None, H : ov = None -> _ |- _ => specialize (H E)
  | E : ov = None, H : ov <> None -> _ |- _ => clear H
  | E : ov <> None, H : ov <> None -> _ |- _ => specialize (H E)
  | E : ov <> None, H : ov = None -> _ |- _ => clear H
  | E : ov <> None, H : ov = None |- _ => exfalso; exact (E H)
  end.

Ltac case_ov :=
  let Eov := fresh "Eov" in let Eis := fresh "Eis" in
  destruct ov_cases2 as [[Eov Eis]|[Eov Eis]]; rewrite ?Eis in *; cbn [negb andb orb]; ovnorm.

Ltac fail_none := match goal with E : ov = None |- _ => let H := fresh in intro H; exfalso; exact (H E) end.

(* a continuation into a state whose second invariant is [True] *)
Ltac to_true := apply post_lt2; msimp; [lia|exact I].

Lemma X_scheme_inv u : nq = false /\ Extra idna u -> X u.
Proof. intros [H1 H2]. split; [exact H2|apply QF_nq, H1]. Qed.

(* ---------------- SchemeStart ---------------- *)
Lemma step_SchemeStart2 u buf a br pw p : let m := mk_m SchemeStart u buf a br pw p in
  (0 <= p <= len)%Z -> SInv input base ov m -> SInv2 m -> StepPost2 m (step idna input base ov m).
Proof.
  intros m Hp HI HI2. subst m. unfold SInv in HI. unfold SInv2 in HI2. msimp. destruct HI as (-> & H1 & H2).
  unfold step. msimp.
  destruct (char_at input p) as [x|] eqn:Hc.
  - pose proof (char_at_some _ _ _ Hc) as (Hc0 & Hc1 & Hc2).
    destruct (is_ascii_alpha x) eqn:Ha.
    + apply post_lt2; msimp; [lia|]. exact HI2.
    + case_ov.
      * to_true.
      * intros _. apply X_scheme_inv, HI2.
  - case_ov.
    + to_true.
    + intros _. apply X_scheme_inv, HI2.
Qed.

(* ---------------- Scheme ---------------- *)
Lemma extra_set_scheme u buf : Extra idna u -> is_special_scheme buf = is_special u ->
  let u' := set_scheme u buf in
  Extra idna (if is_some (port u') && optN_eqb (port u') (default_port (scheme u')) then set_port u' None else u').
Proof.
  intros H E u'. subst u'. usimp.
  assert (G : Extra idna (set_scheme u buf)).
  { xatoms. splits; try tauto. apply (hk_special (scheme u)); [symmetry; exact E|tauto]. }
  destruct (is_some (port u) && optN_eqb (port u) (default_port buf)); exact G.
Qed.

Lemma step_Scheme2 u buf a br pw p : let m := mk_m Scheme u buf a br pw p in
  (0 <= p <= len)%Z -> SInv input base ov m -> SInv2 m -> StepPost2 m (step idna input base ov m).
Proof.
  intros m Hp HI HI2. subst m. unfold SInv in HI. unfold SInv2 in HI2. msimp.
  destruct HI as (Hne & Hbuf & H1 & H2).
  unfold step. msimp.
  destruct (char_at input p) as [x|] eqn:Hc.
  - pose proof (char_at_some _ _ _ Hc) as (Hc0 & Hc1 & Hc2).
    destruct (scheme_char x) eqn:Hsc.
    + apply post_lt2; msimp; [lia|]. exact HI2.
    + destruct (x =? 58) eqn:H58.
      * case_ov.
        -- subst u. change (set_scheme (blank []) buf) with (blank buf).
           destruct (str_eqb buf s_file) eqn:Ef; [to_true|].
           unfold is_special. cbn [blank scheme].
           destruct (is_special_scheme buf) eqn:Esp.
           { destruct base as [b|] eqn:Eb; [|to_true]. destruct (str_eqb (scheme b) buf); to_true. }
           destruct (starts_with [47] (remaining input p)) eqn:Esw.
           { pose proof (starts_with_remaining _ _ _ _ Hc Esw) as Hlt. to_true. }
           apply post_lt2; msimp; [lia|]. unfold SInv2; msimp. split; [exact Eov|].
           exists []. split; [reflexivity|]. split; [reflexivity|]. split; [|discriminate].
           intros _. apply remaining_next; [lia|exact Esw].
        -- destruct HI2 as [Hnq HE].
           match goal with |- context [if ?g then Ret u else _] => destruct g eqn:G end.
           ++ apply X_scheme_inv. auto.
           ++ apply X_scheme_inv. split; [exact Hnq|]. apply extra_set_scheme; [exact HE|].
              apply orb_false_elim in G. destruct G as [G _]. apply orb_false_elim in G. destruct G as [G _].
              apply negb_false_iff, Bool.eqb_prop in G. symmetry. exact G.
      * case_ov; [to_true|]. intros _. apply X_scheme_inv, HI2.
  - case_ov; [to_true|]. intros _. apply X_scheme_inv, HI2.
Qed.

(* ---------------- NoScheme ---------------- *)
Lemma X_copy_opaque b : X b -> has_opaque_path b = true ->
  X (mkurl (scheme b) [] [] None None (path b) (query b) (Some [])).
Proof.
  intros H Ho. unfold has_opaque_path in Ho. destruct (path b) as [o|l] eqn:El; [|discriminate].
  xatoms. rewrite El in *. splits; auto with canon2.
  apply (o2_fragment _ _ (fragment b)). tauto.
Qed.

Lemma step_NoScheme2 u buf a br pw p : let m := mk_m NoScheme u buf a br pw p in
  (0 <= p <= len)%Z -> SInv input base ov m -> SInv2 m -> StepPost2 m (step idna input base ov m).
Proof.
  intros m Hp HI _. subst m. unfold SInv in HI. msimp. destruct HI as (Eov & -> & ->).
  unfold step. msimp. pose proof base_X as HBX.
  destruct base as [b|] eqn:Eb; [|fail_none].
  destruct (has_opaque_path b) eqn:Eo.
  - destruct (char_at input p) as [x|] eqn:Hc; cbn [is_c]; [|fail_none].
    pose proof (char_at_some _ _ _ Hc) as (Hc0 & Hc1 & Hc2).
    destruct (x =? 35); [|fail_none].
    apply post_lt2; msimp; [lia|]. unfold SInv2; msimp.
    apply (X_copy_opaque b); [apply HBX; reflexivity|exact Eo].
  - destruct (str_eqb (scheme b) s_file) eqn:Ef; cbn [negb]; to_true.
Qed.

(* ---------------- SpecialRelativeOrAuthority, SpecialAuthoritySlashes, ...IgnoreSlashes ---------------- *)
Lemma step_SRoA2 u buf a br pw p : let m := mk_m SpecialRelativeOrAuthority u buf a br pw p in
  (0 <= p <= len)%Z -> SInv input base ov m -> SInv2 m -> StepPost2 m (step idna input base ov m).
Proof.
  intros m Hp HI _. subst m. unfold step. msimp.
  destruct (char_at input p) as [x|] eqn:Hc; cbn [is_c andb].
  - pose proof (char_at_some _ _ _ Hc) as (Hc0 & Hc1 & Hc2).
    destruct ((x =? 47) && starts_with [47] (remaining input p)) eqn:E.
    + apply andb_prop in E. destruct E as [_ E]. pose proof (starts_with_remaining _ _ _ _ Hc E) as Hlt. to_true.
    + to_true.
  - to_true.
Qed.

Lemma step_SAS2 u buf a br pw p : let m := mk_m SpecialAuthoritySlashes u buf a br pw p in
  (0 <= p <= len)%Z -> SInv input base ov m -> SInv2 m -> StepPost2 m (step idna input base ov m).
Proof.
  intros m Hp HI _. subst m. unfold step. msimp.
  destruct (char_at input p) as [x|] eqn:Hc; cbn [is_c andb].
  - pose proof (char_at_some _ _ _ Hc) as (Hc0 & Hc1 & Hc2).
    destruct ((x =? 47) && starts_with [47] (remaining input p)) eqn:E.
    + apply andb_prop in E. destruct E as [_ E]. pose proof (starts_with_remaining _ _ _ _ Hc E) as Hlt. to_true.
    + to_true.
  - to_true.
Qed.

Lemma step_SAIS2 u buf a br pw p : let m := mk_m SpecialAuthorityIgnoreSlashes u buf a br pw p in
  (0 <= p <= len)%Z -> SInv input base ov m -> SInv2 m -> StepPost2 m (step idna input base ov m).
Proof.
  intros m Hp HI _. subst m. unfold step. msimp.
  destruct (char_at input p) as [x|] eqn:Hc; cbn [is_c andb negb].
  - pose proof (char_at_some _ _ _ Hc) as (Hc0 & Hc1 & Hc2).
    destruct (negb (x =? 47) && negb (x =? 92)); to_true.
  - to_true.
Qed.

(* ---------------- PathOrAuthority ---------------- *)
Lemma P2_blank s : is_special_scheme s = false -> P2 (blank s).
Proof.
  intro H. unfold blank. xcanon.
Qed.

Lemma step_PathOrAuthority2 u buf a br pw p : let m := mk_m PathOrAuthority u buf a br pw p in
  (0 <= p <= len)%Z -> SInv input base ov m -> SInv2 m -> StepPost2 m (step idna input base ov m).
Proof.
  intros m Hp HI _. subst m. unfold SInv in HI. msimp.
  destruct HI as (Eov & -> & s & -> & Hs & Hsp).
  unfold step. msimp.
  destruct (char_at input p) as [x|] eqn:Hc; cbn [is_c].
  - pose proof (char_at_some _ _ _ Hc) as (Hc0 & Hc1 & Hc2).
    destruct (x =? 47); [to_true|].
    apply post_lt2; msimp; [lia|]. apply P2_blank, Hsp.
  - apply post_lt2; msimp; [lia|]. apply P2_blank, Hsp.
Qed.

(* ---------------- Relative, RelativeSlash ---------------- *)
Lemma step_Relative2 u buf a br pw p : let m := mk_m Relative u buf a br pw p in
  (0 <= p <= len)%Z -> SInv input base ov m -> SInv2 m -> StepPost2 m (step idna input base ov m).
Proof.
  intros m Hp HI _. subst m. unfold SInv in HI. msimp.
  destruct HI as (Eov & -> & b & Eb & Hu & Hnf & Hlist).
  pose proof (base_X b Eb) as Hb.
  unfold step. msimp. rewrite Eb.
  assert (Es : set_scheme u (scheme b) = blank (scheme b)) by (destruct Hu as [->| ->]; reflexivity).
  rewrite Es. clear Es.
  assert (Ecopy : set_query (set_path (set_port (set_host (set_password (set_username (blank (scheme b))
            (username b)) (password b)) (uhost b)) (port b)) (path b)) (query b) = set_fragment b None) by reflexivity.
  rewrite Ecopy. clear Ecopy.
  assert (Hux : X (set_fragment b None)) by (apply X_set_fragment_list; assumption).
  destruct (char_at input p) as [x|] eqn:Hc; cbn [is_c is_eof is_none negb andb].
  - pose proof (char_at_some _ _ _ Hc) as (Hc0 & Hc1 & Hc2).
    destruct (x =? 47); [to_true|].
    destruct (is_special (blank (scheme b)) && (x =? 92)); [to_true|].
    destruct (x =? 63).
    { apply post_lt2; msimp; [lia|]. unfold SInv2; msimp. apply X_set_query_some, Hux. }
    destruct (x =? 35).
    { apply post_lt2; msimp; [lia|]. unfold SInv2; msimp. apply X_set_fragment_some, Hux. }
    apply post_lt2; msimp; [lia|]. unfold SInv2; msimp.
    apply P2_shorten, P2_set_query, X_P2, Hux.
  - rewrite andb_false_r. apply post_eof2; msimp; [apply char_at_none2; [exact Hc|lia]|exact Hux].
Qed.

Lemma step_RelativeSlash2 u buf a br pw p : let m := mk_m RelativeSlash u buf a br pw p in
  (0 <= p <= len)%Z -> SInv input base ov m -> SInv2 m -> StepPost2 m (step idna input base ov m).
Proof.
  intros m Hp HI _. subst m. unfold SInv in HI. msimp.
  destruct HI as (Eov & -> & b & Eb & -> & Hnf).
  pose proof (base_X b Eb) as Hb.
  unfold step. msimp. rewrite Eb.
  assert (Hpath : P2 (set_port (set_host (set_password (set_username (blank (scheme b)) (username b)) (password b))
                     (uhost b)) (port b))).
  { unfold blank. xatoms. splits; auto with canon2; [tauto|]. intros _ Hf. unfold is_file in Hnf. congruence. }
  unfold is_special. cbn [blank scheme].
  destruct (char_at input p) as [x|] eqn:Hc; cbn [is_c andb orb].
  - pose proof (char_at_some _ _ _ Hc) as (Hc0 & Hc1 & Hc2).
    destruct (is_special_scheme (scheme b) && ((x =? 47) || (x =? 92))); [to_true|].
    destruct (x =? 47); [to_true|].
    apply post_lt2; msimp; [lia|]. exact Hpath.
  - rewrite andb_false_r. apply post_lt2; msimp; [lia|]. exact Hpath.
Qed.

(* ---------------- Authority ---------------- *)
Lemma step_Authority2 u buf a br pw p : let m := mk_m Authority u buf a br pw p in
  (0 <= p <= len)%Z -> SInv input base ov m -> SInv2 m -> StepPost2 m (step idna input base ov m).
Proof.
  intros m Hp HI _. subst m. unfold SInv in HI. msimp.
  destruct HI as (Eov & Hbuf & s & us & pw0 & (-> & Hs & Hnf & Hus & Hpw) & Hat & Hhead).
  unfold step. msimp. unfold is_special. usimp.
  destruct (is_c (char_at input p) 64) eqn:E64.
  - destruct (char_at input p) as [x|] eqn:Hc; [|discriminate].
    pose proof (char_at_some _ _ _ Hc) as (Hc0 & Hc1 & Hc2).
    destruct (credentials_loop _ _ _) as [u' pw'].
    to_true.
  - destruct (authority_end (is_special_scheme s) (char_at input p)) eqn:Eae.
    + destruct (a && str_eqb buf []) eqn:Eab; [fail_none|].
      assert (Hlen : (Z.of_nat (length buf) <= p)%Z).
      { destruct buf as [|y r]; [cbn [length]; lia|]. destruct Hhead as [Hh _].
        apply char_at_some in Hh. lia. }
      apply post_lt2; msimp; [lia|]. unfold SInv2; msimp. fail_none.
    + destruct (char_at input p) as [x|] eqn:Hc; [|fail_none].
      pose proof (char_at_some _ _ _ Hc) as (Hc0 & Hc1 & Hc2). to_true.
Qed.

(* ---------------- Host, Hostname ---------------- *)
Lemma P2_set_host u h : nodots u -> hostkind_f idna (scheme u) (Some h) -> is_file u = false ->
  P2 (set_host u (Some h)).
Proof. intros H1 H2 H3. xatoms. splits; auto. intros _ Hf. congruence. Qed.

Lemma X_set_host u h : X u -> hostkind_f idna (scheme u) (Some h) ->
  (nq = true -> is_file u = true -> host_eq_localhost h = false) -> X (set_host u (Some h)).
Proof.
  intros H1 H2 H3. xatoms. splits; auto with canon2; tauto.
Qed.

Lemma step_Host2 st u buf a br pw p : st = Host \/ st = Hostname -> let m := mk_m st u buf a br pw p in
  (0 <= p <= len)%Z -> SInv input base ov m -> SInv2 m -> StepPost2 m (step idna input base ov m).
Proof.
  intros Hst m Hp HI HI2. subst m.
  assert (HI' : cps_ok buf /\
      (ov = None -> exists s us pw0, authform u s us pw0 /\
         (includes_credentials u = true ->
          buf <> [] \/ exists x, char_at input p = Some x /\
                                 authority_end (is_special_scheme s) (Some x) = false)) /\
      (ov <> None -> Canon u /\ has_opaque_path u = false)).
  { destruct Hst as [->| ->]; exact HI. }
  assert (HX : ov <> None -> X u) by (destruct Hst as [->| ->]; exact HI2).
  clear HI HI2. destruct HI' as (Hbuf & HN & HO).
  assert (Hstep : step idna input base ov (mk_m st u buf a br pw p) =
    let c := char_at input p in
      if is_some ov && is_file u then goto_dec (mk_m st u buf a br pw p) FileHost
      else if is_c c 58 && negb br then
        if str_eqb buf [] then Fail
        else if match ov with Some Hostname => true | _ => false end then Ret u
        else
          match host_parse idna buf (negb (is_special u)) with
          | None => Fail
          | Some h => Cont (mk_m Port (set_host u (Some h)) [] a br pw p)
          end
      else if authority_end (is_special u) c then
        if is_special u && str_eqb buf [] then Fail
        else if is_some ov && str_eqb buf [] && (includes_credentials u || is_some (port u)) then Ret u
        else
          match host_parse idna buf (negb (is_special u)) with
          | None => Fail
          | Some h =>
              if is_some ov then Ret (set_host u (Some h))
              else Cont (mk_m PathStart (set_host u (Some h)) [] a br pw (p - 1)%Z)
          end
      else match c with
           | Some x =>
               let br' := if x =? 91 then true else if x =? 93 then false else br in
               Cont (mk_m st u (buf ++ [x]) a br' pw p)
           | None => Fail
           end).
  { destruct Hst as [->| ->]; reflexivity. }
  rewrite Hstep. clear Hstep. cbv zeta.
  assert (Hsinv : forall buf' br' q, SInv2 (mk_m st u buf' a br' pw q)).
  { intros buf' br' q. destruct Hst as [->| ->]; exact HX. }
  case_ov.
  - (* no state override *)
    destruct HN as (s & us & pw0 & (-> & Hs & Hnf & Hus & Hpw) & Hcred).
    set (u := mkurl s us pw0 None None (PList []) None None) in *.
    assert (Hnd : nodots u) by (unfold u; xcanon).
    assert (Hfile : is_file u = false) by exact Hnf.
    rewrite Eov.
    destruct (is_c (char_at input p) 58 && negb br) eqn:E58.
    + destruct (char_at input p) as [x|] eqn:Hc; [|discriminate].
      pose proof (char_at_some _ _ _ Hc) as (Hc0 & Hc1 & Hc2).
      destruct (str_eqb buf []) eqn:Ebuf; [fail_none|].
      destruct (host_parse idna buf (negb (is_special u))) as [h|] eqn:Eh; [|fail_none].
      apply post_lt2; msimp; [lia|]. unfold SInv2; msimp.
      apply P2_set_host; [exact Hnd| |exact Hfile]. apply (host_parse_kind _ _ _ Eh). reflexivity.
    + destruct (authority_end (is_special u) (char_at input p)) eqn:Eae.
      * destruct (is_special u && str_eqb buf []) eqn:Esb; [fail_none|].
        destruct (host_parse idna buf (negb (is_special u))) as [h|] eqn:Eh; [|fail_none].
        apply post_lt2; msimp; [lia|]. unfold SInv2; msimp. split; [|discriminate].
        apply P2_set_host; [exact Hnd| |exact Hfile]. apply (host_parse_kind _ _ _ Eh). reflexivity.
      * destruct (char_at input p) as [x|] eqn:Hc; [|fail_none].
        pose proof (char_at_some _ _ _ Hc) as (Hc0 & Hc1 & Hc2).
        apply post_lt2; msimp; [lia|]. apply Hsinv.
  - (* with a state override *)
    destruct (is_file u) eqn:Ef.
    + apply post_lt2; msimp; [lia|]. unfold SInv2; msimp. intros _. exact HX.
    + destruct (is_c (char_at input p) 58 && negb br) eqn:E58.
      * destruct (char_at input p) as [x|] eqn:Hc; [|discriminate].
        pose proof (char_at_some _ _ _ Hc) as (Hc0 & Hc1 & Hc2).
        destruct (str_eqb buf []) eqn:Ebuf; [intros _; exact HX|].
        destruct (match ov with Some Hostname => true | _ => false end); [exact HX|].
        destruct (host_parse idna buf (negb (is_special u))) as [h|] eqn:Eh; [|intros _; exact HX].
        apply post_lt2; msimp; [lia|]. unfold SInv2; msimp.
        apply P2_set_host; [apply HX|apply (host_parse_kind _ _ _ Eh); reflexivity|exact Ef].
      * destruct (authority_end (is_special u) (char_at input p)) eqn:Eae.
        -- destruct (is_special u && str_eqb buf []) eqn:Esb; [intros _; exact HX|].
           destruct (str_eqb buf [] && (includes_credentials u || is_some (port u))) eqn:Eg; [exact HX|].
           destruct (host_parse idna buf (negb (is_special u))) as [h|] eqn:Eh; [|intros _; exact HX].
           apply X_set_host; [exact HX|apply (host_parse_kind _ _ _ Eh); reflexivity|intros; congruence].
        -- destruct (char_at input p) as [x|] eqn:Hc; [|intros _; exact HX].
           pose proof (char_at_some _ _ _ Hc) as (Hc0 & Hc1 & Hc2).
           apply post_lt2; msimp; [lia|]. apply Hsinv.
Qed.

(* ---------------- Port ---------------- *)
Lemma port_result_shape u buf u' : port_result u buf = Some u' -> exists po, u' = set_port u po.
Proof.
  unfold port_result. destruct (str_eqb buf []).
  - intro H. injection H as <-. exists (port u). destruct u; reflexivity.
  - cbv zeta. destruct (65535 <? parse_port_buffer buf); [discriminate|]. intro H. injection H as <-.
    eexists. reflexivity.
Qed.

Lemma P2_X_host u h : P2 u -> uhost u = Some h -> Canon0 u -> X u.
Proof.
  intros H Hh [_ (_ & _ & _ & Ho)]. apply P2_X; [exact H| |].
  - intros o Eo. unfold opaque_ok in Ho. specialize (Ho o Eo). congruence.
  - unfold nullhost_path. rewrite Hh. auto with canon2.
Qed.

Lemma step_Port2 u buf a br pw p : let m := mk_m Port u buf a br pw p in
  (0 <= p <= len)%Z -> SInv input base ov m -> SInv2 m -> StepPost2 m (step idna input base ov m).
Proof.
  intros m Hp HI HI2. subst m. unfold SInv in HI. unfold SInv2 in HI2. msimp.
  destruct HI as (HC & Hnf & (h & Hh & Hhne) & Hdig & HN & HO).
  unfold step. msimp.
  assert (Hfin : forall r, r = port_result u buf ->
    StepPost2 (mk_m Port u buf a br pw p)
      match r with
      | None => Fail
      | Some u0 => if is_some ov then Ret u0
                   else Cont (mk_m PathStart u0 [] a br pw (p - 1)%Z)
      end).
  { intros r ->. destruct (port_result u buf) as [u'|] eqn:Er.
    - destruct (port_result_shape _ _ _ Er) as [po ->].
      case_ov.
      + apply post_lt2; msimp; [lia|]. unfold SInv2; msimp. split; [exact HI2|]. usimp. congruence.
      + apply (P2_X_host _ h); [exact HI2|exact Hh|].
        pose proof (port_result_ok _ _ _ HC Hnf (ex_intro _ h (conj Hh Hhne)) Er) as [HC' _]. exact HC'.
    - intros _. apply (P2_X_host _ h); assumption. }
  destruct (char_at input p) as [x|] eqn:Hc.
  - pose proof (char_at_some _ _ _ Hc) as (Hc0 & Hc1 & Hc2).
    destruct (is_ascii_digit x) eqn:Ed.
    + apply post_lt2; msimp; [lia|]. exact HI2.
    + destruct (authority_end (is_special u) (Some x) || is_some ov) eqn:Eae.
      * apply Hfin. reflexivity.
      * apply orb_false_elim in Eae. destruct Eae as [_ Eis]. intro Eov. destruct ov; [discriminate|congruence].
  - apply Hfin. reflexivity.
Qed.

(* ---------------- File, FileSlash, FileHost ---------------- *)
Lemma P2_file0 : P2 file0.
Proof. unfold file0. xcanon. Qed.

Lemma X_file_copy b : X b -> scheme b = s_file -> has_opaque_path b = false ->
  X (mkurl s_file [] [] (uhost b) None (path b) (query b) None).
Proof.
  intros H Es Ho. apply (X_set_fragment_list b None) in H; [|exact Ho].
  xatoms. rewrite Es in H. exact H.
Qed.

Lemma canon_special_list b : Canon b -> is_special b = true -> has_opaque_path b = false.
Proof.
  intros [[_ (_ & Hs & _)] _] Hsp. destruct (Hs Hsp) as [[l Hl] _]. unfold has_opaque_path. rewrite Hl. reflexivity.
Qed.

Lemma step_File2 u buf a br pw p : let m := mk_m File u buf a br pw p in
  (0 <= p <= len)%Z -> SInv input base ov m -> SInv2 m -> StepPost2 m (step idna input base ov m).
Proof.
  intros m Hp HI _. subst m. unfold SInv in HI. msimp. destruct HI as (Eov & -> & Hu).
  unfold step. msimp.
  assert (Es : set_host (set_scheme u s_file) (Some HEmpty) = file0) by (destruct Hu as [->| ->]; reflexivity).
  rewrite Es. clear Es.
  pose proof base_X as HBX. pose proof base_ok as HBC.
  destruct (char_at input p) as [x|] eqn:Hc; cbn [is_c is_eof is_none negb orb].
  - pose proof (char_at_some _ _ _ Hc) as (Hc0 & Hc1 & Hc2).
    destruct ((x =? 47) || (x =? 92)); [to_true|].
    destruct base as [b|] eqn:Eb; [|apply post_lt2; msimp; [lia|apply P2_file0]].
    destruct (str_eqb (scheme b) s_file) eqn:Ef; [|apply post_lt2; msimp; [lia|apply P2_file0]].
    pose proof Ef as Ef'. apply str_eqb_true in Ef.
    assert (Hop : has_opaque_path b = false).
    { apply canon_special_list; [apply HBC; reflexivity|]. apply is_file_special. exact Ef'. }
    pose proof (X_file_copy b (HBX b eq_refl) Ef Hop) as Hcopy.
    change (set_query (set_path (set_host file0 (uhost b)) (path b)) (query b))
      with (mkurl s_file [] [] (uhost b) None (path b) (query b) None).
    destruct (x =? 63).
    { apply post_lt2; msimp; [lia|]. unfold SInv2; msimp. apply X_set_query_some, Hcopy. }
    destruct (x =? 35).
    { apply post_lt2; msimp; [lia|]. unfold SInv2; msimp. apply X_set_fragment_some, Hcopy. }
    apply post_lt2; msimp; [lia|]. unfold SInv2; msimp.
    apply X_P2 in Hcopy.
    destruct (negb (starts_with_windows_drive_letter (from_pointer input p))).
    + apply P2_shorten. exact Hcopy.
    + revert Hcopy. xatoms. intros (H1 & H2 & H3). splits; auto with canon2.
      intros Hn Hf. split; [apply H3; assumption|reflexivity].
  - destruct base as [b|] eqn:Eb; [|apply post_lt2; msimp; [lia|apply P2_file0]].
    destruct (str_eqb (scheme b) s_file) eqn:Ef; [|apply post_lt2; msimp; [lia|apply P2_file0]].
    pose proof Ef as Ef'. apply str_eqb_true in Ef.
    assert (Hop : has_opaque_path b = false).
    { apply canon_special_list; [apply HBC; reflexivity|]. apply is_file_special. exact Ef'. }
    apply post_eof2; msimp; [apply char_at_none2; [exact Hc|lia]|].
    apply (X_file_copy b (HBX b eq_refl) Ef Hop).
Qed.

Lemma step_FileSlash2 u buf a br pw p : let m := mk_m FileSlash u buf a br pw p in
  (0 <= p <= len)%Z -> SInv input base ov m -> SInv2 m -> StepPost2 m (step idna input base ov m).
Proof.
  intros m Hp HI _. subst m. unfold SInv in HI. msimp. destruct HI as (Eov & -> & ->).
  unfold step. msimp.
  match goal with |- context [Cont (dec_pointer (with_state (with_url _ ?e) Path))] => set (u' := e) end.
  assert (Hu' : P2 u').
  { subst u'. pose proof base_X as HBX. destruct base as [b|] eqn:Eb; [|exact P2_file0].
    destruct (str_eqb (scheme b) s_file) eqn:Ef; [|exact P2_file0].
    pose proof (HBX b eq_refl) as Hb. pose proof Ef as Ef'. apply str_eqb_true in Ef.
    change (set_host file0 (uhost b)) with (mkurl s_file [] [] (uhost b) None (PList []) None None).
    assert (Hfhost : P2 (mkurl s_file [] [] (uhost b) None (PList []) None None)).
    { revert Hb. xatoms. rewrite Ef. intros ((H1 & H2 & H3 & H4) & H5). splits; auto with canon2.
      intros Hn _. split; [apply H5; auto|reflexivity]. }
    destruct (negb (starts_with_windows_drive_letter (from_pointer input p))); [|exact Hfhost].
    destruct (path b) as [o|[|p0 l]] eqn:Epb; try exact Hfhost.
    destruct (is_normalized_windows_drive_letter p0) eqn:Enw; [|exact Hfhost].
    apply P2_path_append; [exact Hfhost| |intros _ _ _; apply quirky_drive_norm, Enw].
    destruct Hb as [(Hnd & _) _]. unfold nodots in Hnd. rewrite Epb in Hnd. apply nd_list_inv in Hnd.
    inversion Hnd; assumption. }
  destruct (char_at input p) as [x|] eqn:Hc; cbn [is_c orb].
  - pose proof (char_at_some _ _ _ Hc) as (Hc0 & Hc1 & Hc2).
    destruct ((x =? 47) || (x =? 92)).
    + apply post_lt2; msimp; [lia|]. unfold SInv2; msimp. fail_none.
    + apply post_lt2; msimp; [lia|exact Hu'].
  - apply post_lt2; msimp; [lia|exact Hu'].
Qed.

Lemma host_eq_localhost_norm h : host_eq_localhost (if host_eq_localhost h then HEmpty else h) = false.
Proof. destruct (host_eq_localhost h) eqn:E; [reflexivity|exact E]. Qed.

Lemma hk_norm s h : hostkind_f idna s (Some h) -> hostkind_f idna s (Some (if host_eq_localhost h then HEmpty else h)).
Proof. intro H. destruct (host_eq_localhost h); [exact I|exact H]. Qed.

Lemma step_FileHost2 u buf a br pw p : let m := mk_m FileHost u buf a br pw p in
  (0 <= p <= len)%Z -> SInv input base ov m -> SInv2 m -> StepPost2 m (step idna input base ov m).
Proof.
  intros m Hp HI HI2. subst m. unfold SInv in HI. unfold SInv2 in HI2. msimp. destruct HI as (Hbuf & HN & HO).
  unfold step. msimp.
  set (c := char_at input p).
  destruct (is_eof c || is_c c 47 || is_c c 92 || is_c c 63 || is_c c 35) eqn:Eend.
  - case_ov.
    + (* no override: u = file0 *)
      subst u.
      destruct (is_windows_drive_letter buf) eqn:Ew.
      { apply post_lt2; msimp; [lia|]. exact P2_file0. }
      destruct (str_eqb buf []) eqn:Ebuf.
      { apply post_lt2; msimp; [lia|]. unfold SInv2; msimp. split; [exact P2_file0|discriminate]. }
      destruct (host_parse idna buf (negb (is_special file0))) as [h|] eqn:Eh; [|fail_none].
      apply post_lt2; msimp; [lia|]. unfold SInv2; msimp. split; [|discriminate].
      pose proof (host_parse_kind _ _ _ Eh s_file eq_refl) as Hk. apply hk_norm in Hk.
      unfold file0. xatoms. splits; auto with canon2.
      intros _ _. split; [apply host_eq_localhost_norm|reflexivity].
    + (* state override: u is a file URL *)
      destruct HO as [HC Hf].
      destruct (str_eqb buf []) eqn:Ebuf.
      { apply X_set_host; [exact HI2|exact I|intros; reflexivity]. }
      destruct (host_parse idna buf (negb (is_special u))) as [h|] eqn:Eh; [|intros _; exact HI2].
      apply X_set_host; [exact HI2| |intros; apply host_eq_localhost_norm].
      apply hk_norm. apply (host_parse_kind _ _ _ Eh). reflexivity.
  - subst c. destruct (char_at input p) as [x|] eqn:Hc; [|discriminate].
    pose proof (char_at_some _ _ _ Hc) as (Hc0 & Hc1 & Hc2).
    apply post_lt2; msimp; [lia|]. exact HI2.
Qed.

(* ---------------- PathStart ---------------- *)
Lemma step_PathStart2 u buf a br pw p : let m := mk_m PathStart u buf a br pw p in
  (0 <= p <= len)%Z -> SInv input base ov m -> SInv2 m -> StepPost2 m (step idna input base ov m).
Proof.
  intros m Hp HI HI2. subst m. unfold SInv in HI. unfold SInv2 in HI2. msimp.
  destruct HI as (HC & Hpl & ->). destruct HI2 as [HP Hh].
  unfold step. msimp.
  destruct (is_special u) eqn:Esp.
  - destruct (char_at input p) as [x|] eqn:Hc; cbn [is_c negb andb].
    + pose proof (char_at_some _ _ _ Hc) as (Hc0 & Hc1 & Hc2).
      destruct (negb (x =? 47) && negb (x =? 92)); apply post_lt2; msimp; try lia; exact HP.
    + apply post_lt2; msimp; [lia|exact HP].
  - assert (Hx : uhost u <> None -> X u).
    { intro Hne. apply P2_X; [exact HP| |].
      - unfold opaque2. rewrite Hpl. auto with canon2.
      - intro H. contradiction. }
    destruct (char_at input p) as [x|] eqn:Hc; cbn [is_c is_eof is_none negb andb].
    + pose proof (char_at_some _ _ _ Hc) as (Hc0 & Hc1 & Hc2).
      destruct (negb (is_some ov) && (x =? 63)) eqn:E63.
      { apply post_lt2; msimp; [lia|]. unfold SInv2; msimp. apply X_set_query_some, Hx.
        apply andb_prop in E63. destruct E63 as [E63 _]. destruct ov; [discriminate|auto]. }
      destruct (negb (is_some ov) && (x =? 35)) eqn:E35.
      { apply post_lt2; msimp; [lia|]. unfold SInv2; msimp. apply X_set_fragment_some, Hx.
        apply andb_prop in E35. destruct E35 as [E35 _]. destruct ov; [discriminate|auto]. }
      destruct (negb (x =? 47)); apply post_lt2; msimp; try lia; exact HP.
    + rewrite !andb_false_r.
      pose proof (char_at_none2 p Hc ltac:(lia)) as Hend.
      destruct (is_some ov && is_none (uhost u)) eqn:Eo.
      * apply post_eof2; msimp; [exact Hend|].
        apply P2_X; [apply P2_path_append_nil, HP| |].
        -- unfold opaque2, path_append. rewrite Hpl. usimp. auto with canon2.
        -- unfold nullhost_path, path_append. rewrite Hpl. usimp. cbn [app]. auto with canon2.
      * apply post_eof2; msimp; [exact Hend|]. apply Hx.
        destruct ov; cbn [is_some andb] in Eo; [|auto]. destruct (uhost u); discriminate.
Qed.

(* ---------------- Path ---------------- *)
Lemma step_Path2 u buf a br pw p : let m := mk_m Path u buf a br pw p in
  (0 <= p <= len)%Z -> SInv input base ov m -> SInv2 m -> StepPost2 m (step idna input base ov m).
Proof.
  intros m Hp HI HI2. subst m. unfold SInv in HI. unfold SInv2 in HI2. msimp. destruct HI as (HC & Hl & Hb).
  unfold step. msimp.
  set (c := char_at input p).
  destruct (is_eof c || is_c c 47 || is_special u && is_c c 92 ||
            negb (is_some ov) && (is_c c 63 || is_c c 35)) eqn:Eend.
  - set (slash := is_c c 47 || is_special u && is_c c 92).
    change (if is_double_dot buf then _ else _) with (flush u buf slash).
    destruct (flush_ok u buf slash HC Hl Hb) as (HC' & Hl' & Hs' & Hne').
    pose proof (flush_P2 u buf slash HI2) as HP'.
    set (u' := flush u buf slash) in *.
    assert (Hns : is_c c 47 = false -> is_c c 92 = false -> X u').
    { intros H1 H2. destruct Hne' as (x & l & El); [subst slash; rewrite H1, H2; rewrite andb_false_r; reflexivity|].
      apply P2_X; [exact HP'| |].
      - unfold opaque2. rewrite El. auto with canon2.
      - unfold nullhost_path. rewrite El. auto with canon2. }
    subst c. destruct (char_at input p) as [x|] eqn:Hc; cbn [is_c] in *.
    + pose proof (char_at_some _ _ _ Hc) as (Hc0 & Hc1 & Hc2).
      destruct (N.eqb_spec x 63) as [->|N63].
      { apply post_lt2; msimp; [lia|]. unfold SInv2; msimp. apply X_set_query_some, Hns; reflexivity. }
      destruct (N.eqb_spec x 35) as [->|N35].
      { apply post_lt2; msimp; [lia|]. unfold SInv2; msimp. apply X_set_fragment_some, Hns; reflexivity. }
      apply post_lt2; msimp; [lia|]. exact HP'.
    + apply post_eof2; msimp; [apply char_at_none2; [exact Hc|lia]|]. apply Hns; reflexivity.
  - subst c. destruct (char_at input p) as [x|] eqn:Hc; [|discriminate].
    pose proof (char_at_some _ _ _ Hc) as (Hc0 & Hc1 & Hc2).
    apply post_lt2; msimp; [lia|]. exact HI2.
Qed.

(* ---------------- OpaquePath ---------------- *)
Lemma X_opaque u o q f : Canon u -> path u = POpaque o -> starts_with [47] o = false ->
  (q = None -> f = None -> last_opt o <> Some 32) ->
  X (set_fragment (set_query u q) f).
Proof.
  intros HC Ho Hs Hl.
  pose proof (canon_opaque_nonspecial u o HC Ho) as Hns. apply nonspecial_notfile in Hns.
  assert (Hh : uhost u = None) by (destruct HC as [[_ (_ & _ & _ & Hoo)] _]; apply (Hoo o Ho)).
  xatoms. rewrite Ho, Hh. splits; auto with canon2.
  intros o' E. injection E as <-. split; assumption.
Qed.

Lemma step_OpaquePath2 u buf a br pw p : let m := mk_m OpaquePath u buf a br pw p in
  (0 <= p <= len)%Z -> SInv input base ov m -> SInv2 m -> StepPost2 m (step idna input base ov m).
Proof.
  intros m Hp HI HI2. subst m. unfold SInv in HI. unfold SInv2 in HI2. msimp.
  destruct HI as (HC & _ & ->). destruct HI2 as (Eov & o & Ho & Hsw & Hfirst & Hlast).
  unfold step. msimp.
  destruct (char_at input p) as [x|] eqn:Hc; cbn [is_c].
  - pose proof (char_at_some _ _ _ Hc) as (Hc0 & Hc1 & Hc2).
    destruct (N.eqb_spec x 63) as [->|N63].
    { apply post_lt2; msimp; [lia|]. unfold SInv2; msimp.
      change (set_query u (Some [])) with (set_fragment (set_query u (Some [])) (fragment u)).
      apply (X_opaque u o); auto. discriminate. }
    destruct (N.eqb_spec x 35) as [->|N35].
    { apply post_lt2; msimp; [lia|]. unfold SInv2; msimp.
      change (set_fragment u (Some [])) with (set_fragment (set_query u (query u)) (Some [])).
      apply (X_opaque u o); auto. discriminate. }
    rewrite Ho. apply post_lt2; msimp; [lia|]. unfold SInv2; msimp. split; [exact Eov|].
    exists (o ++ utf8_percent_encode_cp c0_control_encode x). split; [reflexivity|].
    pose proof (pe_cp_nonempty c0_control_encode x) as Hne.
    split; [|split].
    + destruct o as [|y o'].
      * cbn [app]. apply pe_cp_head47. intros ->. apply Hfirst; auto.
      * rewrite starts_with_app1 by discriminate. exact Hsw.
    + intro E. apply app_eq_nil in E. destruct E as [_ E]. contradiction.
    + rewrite last_opt_app by exact Hne. intro E. apply pe_cp_last32 in E. subst x.
      replace (p + 1 - 1)%Z with p by lia. exact Hc.
  - pose proof (char_at_none2 p Hc ltac:(lia)) as Hend.
    apply post_eof2; msimp; [exact Hend|].
    assert (Eu : u = set_fragment (set_query u (query u)) (fragment u)) by (destruct u; reflexivity).
    rewrite Eu. apply (X_opaque u o); auto.
    intros _ _ E. apply Hlast in E. assert (Ep : p = len) by lia. subst p.
    apply char_at_last in E. exact (input_nosp Eov E).
Qed.

(* ---------------- Query, Fragment ---------------- *)
Lemma step_Query2 u buf a br pw p : let m := mk_m Query u buf a br pw p in
  (0 <= p <= len)%Z -> SInv input base ov m -> SInv2 m -> StepPost2 m (step idna input base ov m).
Proof.
  intros m Hp HI HI2. subst m. unfold SInv2 in HI2. msimp.
  unfold step. msimp.
  set (c := char_at input p).
  destruct (negb (is_some ov) && is_c c 35 || is_eof c) eqn:Eend.
  - subst c. destruct (char_at input p) as [x|] eqn:Hc; cbn [is_c is_eof is_none] in *.
    + pose proof (char_at_some _ _ _ Hc) as (Hc0 & Hc1 & Hc2).
      rewrite orb_false_r in Eend. apply andb_prop in Eend. destruct Eend as [_ E35]. rewrite E35.
      apply post_lt2; msimp; [lia|]. unfold SInv2; msimp. apply X_set_fragment_some, X_set_query_some, HI2.
    + apply post_eof2; msimp; [apply char_at_none2; [exact Hc|lia]|]. apply X_set_query_some, HI2.
  - subst c. destruct (char_at input p) as [x|] eqn:Hc.
    + pose proof (char_at_some _ _ _ Hc) as (Hc0 & Hc1 & Hc2).
      apply post_lt2; msimp; [lia|]. exact HI2.
    + cbn [is_eof is_none] in Eend. rewrite orb_true_r in Eend. discriminate.
Qed.

Lemma step_Fragment2 u buf a br pw p : let m := mk_m Fragment u buf a br pw p in
  (0 <= p <= len)%Z -> SInv input base ov m -> SInv2 m -> StepPost2 m (step idna input base ov m).
Proof.
  intros m Hp HI HI2. subst m. unfold SInv2 in HI2. msimp.
  unfold step. msimp.
  destruct (char_at input p) as [x|] eqn:Hc.
  - pose proof (char_at_some _ _ _ Hc) as (Hc0 & Hc1 & Hc2).
    apply post_lt2; msimp; [lia|]. unfold SInv2; msimp. apply X_set_fragment_some, HI2.
  - apply post_eof2; msimp; [apply char_at_none2; [exact Hc|lia]|exact HI2].
Qed.

(* ---------------- all states ---------------- *)
Theorem step_inv2 m : (0 <= m_pointer m <= len)%Z -> SInv input base ov m -> SInv2 m ->
  StepPost2 m (step idna input base ov m).
Proof.
  destruct m as [st u buf a br pw p]. cbn [m_pointer]. intros Hp HI HI2. destruct st.
  - apply step_SchemeStart2; assumption.
  - apply step_Scheme2; assumption.
  - apply step_NoScheme2; assumption.
  - apply step_SRoA2; assumption.
  - apply step_PathOrAuthority2; assumption.
  - apply step_Relative2; assumption.
  - apply step_RelativeSlash2; assumption.
  - apply step_SAS2; assumption.
  - apply step_SAIS2; assumption.
  - apply step_Authority2; assumption.
  - apply step_Host2; auto.
  - apply step_Host2; auto.
  - apply step_Port2; assumption.
  - apply step_File2; assumption.
  - apply step_FileSlash2; assumption.
  - apply step_FileHost2; assumption.
  - apply step_PathStart2; assumption.
  - apply step_Path2; assumption.
  - apply step_OpaquePath2; assumption.
  - apply step_Query2; assumption.
  - apply step_Fragment2; assumption.
Qed.

(* ---------------- run ---------------- *)
Definition RunPost2 (r : presult) : Prop :=
  match r with
  | POk u => X u
  | PFail u => ov <> None -> X u
  | POutOfFuel => True
  end.

Theorem run_inv2 fuel : forall m, (0 <= m_pointer m <= len)%Z -> SInv input base ov m -> SInv2 m ->
  RunPost2 (run idna fuel input base ov m).
Proof.
  induction fuel as [|f IH]; intros m Hp HI HI2; [exact I|].
  cbn [run]. pose proof (step_inv2 m Hp HI HI2) as Hs2.
  pose proof (step_inv idna idna_ascii_lower input input_ok base base_ok ov m Hp HI) as Hs.
  destruct (step idna input base ov m) as [m'| u |]; cbn [StepPost StepPost2] in Hs, Hs2.
  - destruct Hs as [H1 H2]. destruct Hs2 as [H1' H2'].
    destruct (Z.leb_spec len (m_pointer m')) as [Hle|Hlt].
    + exact (H1' Hle).
    + destruct (H2 Hlt) as [H3 H4]. apply IH; [|exact H4|exact (H2' Hlt)].
      destruct m' as [st' u' b' a' br' pw' p']. msimp. lia.
  - exact Hs2.
  - exact Hs2.
Qed.

End Machine2w.
