(* compare_by_code_units (model Impl.Utf.compare_loop) orders UTF-8 byte strings as their
   UTF-16 code unit sequences (after the Standard's UTF-8 decode). *)
From Upa Require Import Base.Prelude Spec.Utf Impl.Tables Impl.Utf Proofs.UtfFacts.
From Coq Require Import ZifyBool ZifyN ZifyNat.
Local Open Scope N_scope.
Local Ltac Zify.zify_post_hook ::= Z.div_mod_to_equations.

(* the UTF-16 code unit sequence denoted by a byte string *)
Definition U16of (s : list N) : list N := utf16_encode (utf8_decode s).

(* ---------- lex_lt is a strict total order ---------- *)
Lemma lex_lt_irrefl a : lex_lt a a = false.
Proof. induction a as [|x a IH]; [reflexivity|]. cbn [lex_lt]. rewrite N.ltb_irrefl. exact IH. Qed.

Lemma lex_lt_nil_r a : lex_lt a [] = false.
Proof. destruct a; reflexivity. Qed.

Lemma lex_lt_trans a : forall b c, lex_lt a b = true -> lex_lt b c = true -> lex_lt a c = true.
Proof.
  induction a as [|x a IH]; intros b c Hab Hbc.
  - destruct b as [|y b]; [discriminate|]. destruct c as [|z c]; [discriminate|]. reflexivity.
  - destruct b as [|y b]; [discriminate|]. destruct c as [|z c]; [discriminate|].
    cbn [lex_lt] in *.
    destruct (N.ltb_spec x y), (N.ltb_spec y x), (N.ltb_spec y z), (N.ltb_spec z y),
             (N.ltb_spec x z), (N.ltb_spec z x); try reflexivity; try discriminate; try lia.
    apply (IH b c); assumption.
Qed.

Lemma lex_lt_total a : forall b, lex_lt a b = false -> lex_lt b a = false -> a = b.
Proof.
  induction a as [|x a IH]; intros b Hab Hba.
  - destruct b; [reflexivity|discriminate].
  - destruct b as [|y b]; [discriminate|]. cbn [lex_lt] in *.
    destruct (N.ltb_spec x y), (N.ltb_spec y x); try discriminate; try lia.
    assert (x = y) by lia. subst y. f_equal. apply IH; assumption.
Qed.

Lemma lex_lt_app_same u A B : lex_lt (u ++ A) (u ++ B) = lex_lt A B.
Proof. induction u as [|x u IH]; [reflexivity|]. cbn [app lex_lt]. rewrite N.ltb_irrefl. exact IH. Qed.

(* ---------- first code unit of the denotation ---------- *)
Lemma utf16_encode_cp_head c : is_scalar c = true ->
  exists u t, utf16_encode_cp c = u :: t /\ (c < 128 -> u = c /\ t = []) /\ (128 <= c -> 128 <= u).
Proof.
  intro Hs. unfold is_scalar in Hs. unfold utf16_encode_cp.
  destruct (N.leb_spec c 65535); eexists _, _; (split; [reflexivity|]); split; intros; try lia.
  split; [reflexivity|reflexivity].
Qed.

Lemma decode_head_nonascii x a : bytes_ok (x :: a) -> 128 <= x ->
  exists c r, utf8_decode (x :: a) = c :: utf8_decode r /\ is_scalar c = true /\ 128 <= c.
Proof.
  intros Hs Hx.
  destruct (read_code_point8_step (x :: a) Hs ltac:(discriminate)) as (ok & c & r & _ & _ & Hl & Ht & Hf).
  destruct ok.
  - destruct (Ht eq_refl) as (Hfst & Hsc & Hd). exists c, r. split; [exact Hd|]. split; [exact Hsc|].
    destruct (utf8_encode_cp_head c Hsc) as (h & t & He & _ & Hh & _).
    rewrite He in Hfst.
    destruct (length (x :: a) - length r)%nat as [|n]; [discriminate|].
    cbn [firstn] in Hfst. injection Hfst as Hxh _. subst h.
    destruct (N.ltb_spec x 128), (N.ltb_spec c 128); try discriminate; lia.
  - exists REPL, r. split; [exact (Hf eq_refl)|]. split; [reflexivity|]. unfold REPL. lia.
Qed.

Lemma U16of_head x a : bytes_ok (x :: a) ->
  exists u rest, U16of (x :: a) = u :: rest /\ (x < 128 -> u = x /\ rest = U16of a) /\ (128 <= x -> 128 <= u).
Proof.
  intro Hs. unfold U16of. destruct (N.ltb_spec x 128) as [Hx|Hx].
  - rewrite dec8_ascii by exact Hx. unfold utf16_encode. cbn [flat_map].
    unfold utf16_encode_cp at 1. assert ((x <=? 65535) = true) as -> by lia. cbn [app].
    exists x, (flat_map utf16_encode_cp (utf8_decode a)). split; [reflexivity|]. split; [auto|lia].
  - destruct (decode_head_nonascii x a Hs Hx) as (c & r & Hd & Hsc & Hc). rewrite Hd.
    unfold utf16_encode. cbn [flat_map].
    destruct (utf16_encode_cp_head c Hsc) as (u & t & He & _ & Hu). rewrite He. cbn [app].
    eexists _, _. split; [reflexivity|]. split; [lia|]. intros _. apply Hu. exact Hc.
Qed.

(* ---------- comparing two different scalar values by their code units ---------- *)
Lemma cp_compare c1 c2 A B : is_scalar c1 = true -> is_scalar c2 = true -> c1 <> c2 ->
  let cu1 := if c1 <=? 65535 then c1 else N.shiftr c1 10 + 55232 in
  let cu2 := if c2 <=? 65535 then c2 else N.shiftr c2 10 + 55232 in
  let z := if cu1 =? cu2 then (Z.of_N (N.land c1 1023) - Z.of_N (N.land c2 1023))%Z
           else (Z.of_N cu1 - Z.of_N cu2)%Z in
  (z <? 0)%Z = lex_lt (utf16_encode_cp c1 ++ A) (utf16_encode_cp c2 ++ B) /\
  (0 <? z)%Z = lex_lt (utf16_encode_cp c2 ++ B) (utf16_encode_cp c1 ++ A).
Proof.
  intros H1 H2 Hne. unfold is_scalar in H1, H2. cbv zeta.
  rewrite !N.shiftr_div_pow2. change 1023 with (N.ones 10). rewrite !N.land_ones.
  change (2 ^ 10) with 1024. unfold utf16_encode_cp.
  pose proof (N.div_mod c1 1024 ltac:(lia)) as D1. pose proof (N.mod_lt c1 1024 ltac:(lia)) as M1.
  pose proof (N.div_mod c2 1024 ltac:(lia)) as D2. pose proof (N.mod_lt c2 1024 ltac:(lia)) as M2.
  destruct (N.leb_spec c1 65535) as [L1|L1], (N.leb_spec c2 65535) as [L2|L2]; cbn [app lex_lt].
  - assert ((c1 =? c2) = false) as -> by lia.
    destruct (N.ltb_spec c1 c2), (N.ltb_spec c2 c1); lia.
  - assert (E : (c2 - 65536) / 1024 = c2 / 1024 - 64) by lia. rewrite E.
    assert ((c1 =? c2 / 1024 + 55232) = false) as -> by lia.
    destruct (N.ltb_spec c1 (55296 + (c2 / 1024 - 64))), (N.ltb_spec (55296 + (c2 / 1024 - 64)) c1); lia.
  - assert (E : (c1 - 65536) / 1024 = c1 / 1024 - 64) by lia. rewrite E.
    assert ((c1 / 1024 + 55232 =? c2) = false) as -> by lia.
    destruct (N.ltb_spec c2 (55296 + (c1 / 1024 - 64))), (N.ltb_spec (55296 + (c1 / 1024 - 64)) c2); lia.
  - assert (E1 : (c1 - 65536) / 1024 = c1 / 1024 - 64) by lia.
    assert (E2 : (c2 - 65536) / 1024 = c2 / 1024 - 64) by lia.
    assert (F1 : (c1 - 65536) mod 1024 = c1 mod 1024) by lia.
    assert (F2 : (c2 - 65536) mod 1024 = c2 mod 1024) by lia.
    rewrite E1, E2, F1, F2.
    set (q1 := c1 / 1024) in *. set (m1 := c1 mod 1024) in *.
    set (q2 := c2 / 1024) in *. set (m2 := c2 mod 1024) in *.
    destruct (N.eqb_spec (q1 + 55232) (q2 + 55232)) as [Eq|Eq].
    + assert (Hq : q1 = q2) by lia. rewrite Hq in *.
      rewrite N.ltb_irrefl.
      destruct (N.ltb_spec (56320 + m1) (56320 + m2)), (N.ltb_spec (56320 + m2) (56320 + m1)); lia.
    + destruct (N.ltb_spec (55296 + (q1 - 64)) (55296 + (q2 - 64))),
               (N.ltb_spec (55296 + (q2 - 64)) (55296 + (q1 - 64))); lia.
Qed.

(* ---------- the loop ---------- *)
Lemma compare_loop_spec : forall fuel a b, bytes_ok a -> bytes_ok b ->
  (length a + length b <= fuel)%nat ->
  (compare_loop fuel a b <? 0)%Z = lex_lt (U16of a) (U16of b) /\
  (0 <? compare_loop fuel a b)%Z = lex_lt (U16of b) (U16of a).
Proof.
  induction fuel as [|f IH]; intros a b Ha Hb Hlen.
  - destruct a; [|cbn [length] in Hlen; lia]. destruct b; [|cbn [length] in Hlen; lia].
    split; reflexivity.
  - destruct a as [|x a'], b as [|y b'].
    + split; reflexivity.
    + cbn [compare_loop]. change (U16of []) with (@nil N). rewrite lex_lt_nil_r.
      destruct (U16of_head y b' Hb) as (u & rest & E & _). rewrite E. split; reflexivity.
    + cbn [compare_loop]. change (U16of []) with (@nil N). rewrite lex_lt_nil_r.
      destruct (U16of_head x a' Ha) as (u & rest & E & _). rewrite E. split; reflexivity.
    + destruct (bytes_ok_cons _ _ Ha) as [Hx Ha']. destruct (bytes_ok_cons _ _ Hb) as [Hy Hb'].
      cbn [compare_loop].
      destruct ((x <? 128) || (y <? 128)) eqn:Easc.
      * destruct (U16of_head x a' Ha) as (u1 & r1 & E1 & L1 & G1).
        destruct (U16of_head y b' Hb) as (u2 & r2 & E2 & L2 & G2).
        rewrite E1, E2. cbn [lex_lt].
        destruct (N.eqb_spec x y) as [Exy|Exy].
        -- subst y. assert (Hx128 : x < 128) by lia.
           destruct (L1 Hx128) as [-> ->]. destruct (L2 Hx128) as [-> ->].
           rewrite N.ltb_irrefl. apply IH; [exact Ha'|exact Hb'|cbn [length] in Hlen; lia].
        -- clear - Easc Exy L1 G1 L2 G2.
           destruct (N.ltb_spec u1 u2), (N.ltb_spec u2 u1); lia.
      * destruct (read_utf_char_step_sc U8 (x :: a') Ha ltac:(discriminate))
          as (ok1 & cp1 & ra & Hr1 & Hra & Hl1 & Hs1 & Hd1).
        destruct (read_utf_char_step_sc U8 (y :: b') Hb ltac:(discriminate))
          as (ok2 & cp2 & rb & Hr2 & Hrb & Hl2 & Hs2 & Hd2).
        rewrite Hr1, Hr2.
        cbn [spec_decode units_ok] in Hd1, Hd2, Hra, Hrb.
        unfold U16of at 1 2 3 4. rewrite Hd1, Hd2. unfold utf16_encode. cbn [flat_map].
        destruct (N.eqb_spec cp1 cp2) as [Ecp|Ecp].
        -- subst cp2. rewrite !lex_lt_app_same.
           apply (IH ra rb Hra Hrb). cbn [length] in *. lia.
        -- apply cp_compare; assumption.
Qed.

Lemma compare_lt : forall a b, bytes_ok a -> bytes_ok b ->
  (Impl.Utf.compare_by_code_units a b <? 0)%Z
  = lex_lt (utf16_encode (utf8_decode a)) (utf16_encode (utf8_decode b)).
Proof.
  intros a b Ha Hb. unfold compare_by_code_units.
  apply (compare_loop_spec (length a + length b) a b Ha Hb). lia.
Qed.

Lemma compare_gt : forall a b, bytes_ok a -> bytes_ok b ->
  (0 <? Impl.Utf.compare_by_code_units a b)%Z
  = lex_lt (utf16_encode (utf8_decode b)) (utf16_encode (utf8_decode a)).
Proof.
  intros a b Ha Hb. unfold compare_by_code_units.
  apply (compare_loop_spec (length a + length b) a b Ha Hb). lia.
Qed.

Lemma compare_eq0 : forall a b, bytes_ok a -> bytes_ok b ->
  (Impl.Utf.compare_by_code_units a b = 0%Z <->
   utf16_encode (utf8_decode a) = utf16_encode (utf8_decode b)).
Proof.
  intros a b Ha Hb. pose proof (compare_lt a b Ha Hb) as H1. pose proof (compare_gt a b Ha Hb) as H2.
  split.
  - intro E. rewrite E in H1, H2. apply lex_lt_total; symmetry; assumption.
  - intro E. rewrite E, lex_lt_irrefl in H1, H2. lia.
Qed.

(* ---------- strict weak order ---------- *)
Definition cmp_lt (a b : list N) : Prop := (Impl.Utf.compare_by_code_units a b <? 0)%Z = true.
Definition cmp_incomp (a b : list N) : Prop := ~ cmp_lt a b /\ ~ cmp_lt b a.

Lemma cmp_lt_lex a b : bytes_ok a -> bytes_ok b ->
  (cmp_lt a b <-> lex_lt (U16of a) (U16of b) = true).
Proof. intros Ha Hb. unfold cmp_lt. rewrite (compare_lt a b Ha Hb). reflexivity. Qed.

Lemma cmp_incomp_eq a b : bytes_ok a -> bytes_ok b -> (cmp_incomp a b <-> U16of a = U16of b).
Proof.
  intros Ha Hb. unfold cmp_incomp. rewrite (cmp_lt_lex a b Ha Hb), (cmp_lt_lex b a Hb Ha). split.
  - intros [H1 H2]. apply lex_lt_total.
    + destruct (lex_lt (U16of a) (U16of b)); [exfalso; apply H1; reflexivity|reflexivity].
    + destruct (lex_lt (U16of b) (U16of a)); [exfalso; apply H2; reflexivity|reflexivity].
  - intro E. rewrite E, lex_lt_irrefl. split; discriminate.
Qed.

Lemma compare_strict_weak_order :
  (forall a, bytes_ok a -> ~ cmp_lt a a) /\
  (forall a b c, bytes_ok a -> bytes_ok b -> bytes_ok c -> cmp_lt a b -> cmp_lt b c -> cmp_lt a c) /\
  (forall a, bytes_ok a -> cmp_incomp a a) /\
  (forall a b, bytes_ok a -> bytes_ok b -> cmp_incomp a b -> cmp_incomp b a) /\
  (forall a b c, bytes_ok a -> bytes_ok b -> bytes_ok c ->
     cmp_incomp a b -> cmp_incomp b c -> cmp_incomp a c).
Proof.
  split; [|split; [|split; [|split]]].
  - intros a Ha. rewrite (cmp_lt_lex a a Ha Ha), lex_lt_irrefl. discriminate.
  - intros a b c Ha Hb Hc. rewrite (cmp_lt_lex a b Ha Hb), (cmp_lt_lex b c Hb Hc), (cmp_lt_lex a c Ha Hc).
    apply lex_lt_trans.
  - intros a Ha. apply (cmp_incomp_eq a a Ha Ha). reflexivity.
  - intros a b Ha Hb. rewrite (cmp_incomp_eq a b Ha Hb), (cmp_incomp_eq b a Hb Ha). auto.
  - intros a b c Ha Hb Hc.
    rewrite (cmp_incomp_eq a b Ha Hb), (cmp_incomp_eq b c Hb Hc), (cmp_incomp_eq a c Ha Hc). congruence.
Qed.
