(* C20, structural part: "all-or-nothing when an allocation fails" as an ORDER property of the
   steps of an operation, and a verified (sound and exact) checker for it.

   A procedure is a list of steps (one list per control-flow path), extracted from the clang AST by
   out/t3_steps.py (Gen/Steps.v); each step carries two flags:
     s_mutates   - the step writes the target object (the object "this" points to, or an object owned by it);
     s_may_throw - the step may exit by an exception (compiler's noexcept operator, see Gen/Steps.v).
   The target is abstracted to a version number; a mutating step replaces it by a fresh value.

   Failure at step k (possible only if step k may throw): steps 0..k-1 have run, execution stops.
   Two readings of what the failing step itself did are given:
     [after_fail]          - atomic-step reading (the task text): the failing step has NO effect;
     [after_fail_partial]  - worst-case reading: the failing step, if it is a mutating one, may already
                             have changed the target (a mutating step that throws half-way).
   [strong_b] = "no may_throw step AT OR AFTER the first mutating step".  It is sound for both
   readings and EXACT for the worst-case reading.  For the atomic-step reading alone the exact
   criterion is the weaker [strong_strict_b] ("no may_throw step strictly after the first mutating
   step"); [strong_b] implies it.  (With the atomic-step reading alone, "at or after" would not be
   exact: the one-step procedure [{throw, mutate}] is all-or-nothing there but rejected.)

   SIMPLIFICATIONS: M1 failures are exceptions only (no abort/terminate; a noexcept function that
   "fails" terminates the process and is outside the property); M2 the target state is one abstract
   version: any mutating step is assumed to change it, nothing else changes it (the source object
   `other` and locals are not part of the target); M3 a step is atomic w.r.t. control flow: paths are
   enumerated by the translator, loops are not supported (translator refuses them); M4 the flags
   are trusted from the translator (mutates: AST analysis; may_throw: compiler + documented
   assumptions listed in Gen/Steps.v). *)
From Coq Require Import List Arith Bool Lia.
Import ListNotations.

Record step := mkStep { s_name : nat; s_may_throw : bool; s_mutates : bool }.

Definition apply_step (s : step) (v : nat) : nat := if s_mutates s then S v else v.

Fixpoint run (steps : list step) (v : nat) : nat :=
  match steps with [] => v | s :: r => run r (apply_step s v) end.

Definition fail_at (k : nat) (steps : list step) : Prop :=
  exists s, nth_error steps k = Some s /\ s_may_throw s = true.

Definition after_fail (k : nat) (steps : list step) (v : nat) : nat := run (firstn k steps) v.
Definition after_fail_partial (k : nat) (steps : list step) (v : nat) : nat :=
  run (firstn (S k) steps) v.

Definition nothrow (s : step) : bool := negb (s_may_throw s).

Fixpoint strong_b (steps : list step) : bool :=
  match steps with
  | [] => true
  | s :: r => if s_mutates s then forallb nothrow (s :: r) else strong_b r
  end.

Fixpoint strong_strict_b (steps : list step) : bool :=
  match steps with
  | [] => true
  | s :: r => if s_mutates s then forallb nothrow r else strong_strict_b r
  end.

Lemma run_ge : forall l v, v <= run l v.
Proof.
  induction l as [|s l IH]; cbn; intros v; [lia|].
  specialize (IH (apply_step s v)). unfold apply_step in *. destruct (s_mutates s); lia.
Qed.

Lemma forallb_nth : forall (l : list step) k s,
  forallb nothrow l = true -> nth_error l k = Some s -> s_may_throw s = false.
Proof.
  intros l k s H Hn. rewrite forallb_forall in H. apply nth_error_In in Hn. apply H in Hn.
  unfold nothrow in Hn. now destruct (s_may_throw s).
Qed.

Theorem strong_sound : forall steps, strong_b steps = true ->
  forall k, fail_at k steps ->
  forall v, after_fail k steps v = v /\ after_fail_partial k steps v = v.
Proof.
  unfold after_fail, after_fail_partial.
  induction steps as [|s r IH]; intros Hb k (x & Hk & Hx) v.
  - destruct k; discriminate.
  - cbn [strong_b] in Hb. destruct (s_mutates s) eqn:Em.
    + rewrite (forallb_nth _ _ _ Hb Hk) in Hx. discriminate.
    + destruct k as [|k].
      * cbn. unfold apply_step. rewrite Em. auto.
      * cbn [firstn run]. unfold apply_step. rewrite Em. apply IH; auto. exists x. auto.
Qed.

Theorem strong_exact : forall steps, strong_b steps = false ->
  exists k, fail_at k steps /\ forall v, after_fail_partial k steps v <> v.
Proof.
  unfold after_fail_partial.
  induction steps as [|s r IH]; intros Hb; [discriminate|].
  cbn [strong_b] in Hb. destruct (s_mutates s) eqn:Em.
  - assert (exists k x, nth_error (s :: r) k = Some x /\ s_may_throw x = true) as (k & x & Hk & Hx).
    { clear - Hb. revert Hb. generalize (s :: r). induction l as [|y l IHl]; cbn; [discriminate|].
      intros H. apply andb_false_iff in H as [H|H].
      - exists 0, y. split; auto. unfold nothrow in H. now destruct (s_may_throw y).
      - destruct (IHl H) as (k & x & Hk & Hx). exists (S k), x. auto. }
    exists k. split; [exists x; auto|]. intros v. cbn [firstn run].
    pose proof (run_ge (firstn k r) (apply_step s v)) as G.
    unfold apply_step in *. rewrite Em in *. lia.
  - destruct (IH Hb) as (k & (x & Hk & Hx) & Hne). exists (S k). split; [exists x; auto|].
    intros v. cbn [firstn run]. unfold apply_step at 1. rewrite Em. apply Hne.
Qed.

(* the atomic-step reading on its own: exact criterion *)
Theorem strong_strict_sound : forall steps, strong_strict_b steps = true ->
  forall k, fail_at k steps -> forall v, after_fail k steps v = v.
Proof.
  unfold after_fail.
  induction steps as [|s r IH]; intros Hb k (x & Hk & Hx) v.
  - destruct k; discriminate.
  - destruct k as [|k]; [reflexivity|].
    cbn [strong_strict_b] in Hb. cbn [firstn run]. destruct (s_mutates s) eqn:Em.
    + cbn in Hk. rewrite (forallb_nth _ _ _ Hb Hk) in Hx. discriminate.
    + unfold apply_step. rewrite Em. apply IH; auto. exists x. auto.
Qed.

Theorem strong_strict_exact : forall steps, strong_strict_b steps = false ->
  exists k, fail_at k steps /\ forall v, after_fail k steps v <> v.
Proof.
  unfold after_fail.
  induction steps as [|s r IH]; intros Hb; [discriminate|].
  cbn [strong_strict_b] in Hb. destruct (s_mutates s) eqn:Em.
  - assert (exists k x, nth_error r k = Some x /\ s_may_throw x = true) as (k & x & Hk & Hx).
    { clear - Hb. induction r as [|y l IHl]; cbn in Hb; [discriminate|].
      apply andb_false_iff in Hb as [H|H].
      - exists 0, y. split; auto. unfold nothrow in H. now destruct (s_may_throw y).
      - destruct (IHl H) as (k & x & Hk & Hx). exists (S k), x. auto. }
    exists (S k). split; [exists x; auto|]. intros v. cbn [firstn run].
    pose proof (run_ge (firstn k r) (apply_step s v)) as G.
    unfold apply_step in *. rewrite Em in *. lia.
  - destruct (IH Hb) as (k & (x & Hk & Hx) & Hne). exists (S k). split; [exists x; auto|].
    intros v. cbn [firstn run]. unfold apply_step at 1. rewrite Em. apply Hne.
Qed.

Lemma strong_implies_strict : forall steps, strong_b steps = true -> strong_strict_b steps = true.
Proof.
  induction steps as [|s r IH]; cbn; auto. destruct (s_mutates s); auto.
  intros H. apply andb_true_iff in H. tauto.
Qed.

(* a call of a procedure all of whose paths are strong may be inlined: paths compose *)
Definition inline_paths (pre : list step) (callee : list (list step)) (post : list step)
  : list (list step) := map (fun b => pre ++ b ++ post) callee.

(* whole-procedure statement: every path, every failure point *)
Corollary strong_paths_sound : forall paths, forallb strong_b paths = true ->
  forall p, In p paths -> forall k, fail_at k p ->
  forall v, after_fail k p v = v /\ after_fail_partial k p v = v.
Proof.
  intros paths H p Hin. rewrite forallb_forall in H. apply strong_sound. auto.
Qed.
