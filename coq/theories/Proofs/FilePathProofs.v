(* C17 — file path <-> file URL conversions (Spec.FilePath, Impl.FilePath):
   1. the C++ scanning loop of has_dot_dot_segment (find '.', skip by two) = "some segment is '..'";
   2. the shape of what path_from_file_url returns (POSIX / Windows);
   3. url_from_file_path unfolded into its reject conditions and the parse of the generated text;
   4. the generated text has no URL delimiter, every '%' starts an upper-hex triplet, and no
      dot segment (in the URL Standard's sense, %2e included) is created by the encoding;
   5. the URL parser on "file:///" ++ text and on "file://" ++ server ++ separator ++ text (symbolic
      execution of the state machine of Spec.Url), the value of url_from_file_path on every accepted
      path (POSIX, drive, UNC) and the POSIX round trip.
   No axioms; [idna] is always a universally quantified parameter. *)
From Coq Require Import ZifyBool ZifyN ZifyNat.
From Upa Require Import Base.Prelude Spec.CodePoints Spec.Utf Spec.Percent Spec.Url Spec.Api Spec.FilePath
  Impl.FilePath Proofs.TableLemmas Proofs.UtfFacts Proofs.PercentProofs.
Local Open Scope N_scope.


(* ====================================================================================== *)

(* ---------- generic ---------- *)
Lemma str_eqb_eq a : forall b, str_eqb a b = true <-> a = b.
Proof.
  induction a as [|x a IH]; intros [|y b]; cbn [str_eqb]; split; intro H; try reflexivity; try discriminate.
  - apply andb_prop in H. destruct H as [H1 H2]. apply N.eqb_eq in H1. apply IH in H2. subst. reflexivity.
  - injection H as -> ->. rewrite N.eqb_refl. cbn [andb]. apply IH. reflexivity.
Qed.
Lemma str_eqb_refl a : str_eqb a a = true.
Proof. apply str_eqb_eq. reflexivity. Qed.

(* ---------- C17_dotdot ---------- *)
Section DotDot.
Variable p : N -> bool.
Hypothesis p_dot : p 46 = false.

(* the text starts with ".." followed by the end or a separator *)
Definition dd_here (s : str) : bool :=
  match s with
  | 46 :: 46 :: [] => true
  | 46 :: 46 :: c :: _ => p c
  | _ => false
  end.

(* list-recursive scan: [b] = "a segment starts here" *)
Fixpoint dd_scan (b : bool) (s : str) : bool :=
  match s with
  | [] => false
  | x :: s' => (b && dd_here s) || dd_scan (p x) s'
  end.

Lemma split_by_nonempty s : split_by p s <> [].
Proof. destruct s as [|x s]; cbn [split_by]; [discriminate|]. destruct (p x); [discriminate|]. destruct (split_by p s); discriminate. Qed.

Definition is_dd (seg : str) : bool := str_eqb seg [46;46].

Lemma hd_split_dd x s q qs : p x = false -> split_by p s = q :: qs ->
  is_dd (x :: q) = dd_here (x :: s).
Proof.
  intros Hx E. unfold is_dd.
  destruct s as [|y s].
  - cbn in E. injection E as <- <-. cbn. destruct x as [|x]; [reflexivity|]. do 6 (destruct x as [x|x|]; try reflexivity).
  - cbn [split_by] in E. destruct (p y) eqn:Hy.
    + injection E as <- <-. cbn [str_eqb]. rewrite andb_false_r.
      cbn [dd_here]. destruct (N.eqb_spec x 46) as [->|Hn].
      * destruct (N.eqb_spec y 46) as [->|Hn2]; [congruence|].
        destruct y as [|y]; [reflexivity|]. do 6 (destruct y as [y|y|]; try reflexivity). congruence.
      * destruct x as [|x]; [reflexivity|]. do 6 (destruct x as [x|x|]; try reflexivity). congruence.
    + destruct (split_by p s) as [|q' qs'] eqn:E2; [exfalso; exact (split_by_nonempty s E2)|].
      injection E as <- <-.
      cbn [str_eqb].
      destruct (N.eqb_spec x 46) as [->|Hn].
      2:{ cbn [andb]. destruct x as [|x]; [reflexivity|]. do 6 (destruct x as [x|x|]; try reflexivity). congruence. }
      destruct (N.eqb_spec y 46) as [->|Hn2].
      2:{ cbn [andb]. cbn [dd_here]. destruct y as [|y]; [reflexivity|]. do 6 (destruct y as [y|y|]; try reflexivity). congruence. }
      cbn [andb dd_here].
      destruct s as [|z s]; [cbn in E2; injection E2 as <- <-; reflexivity|].
      cbn [split_by] in E2. destruct (p z) eqn:Hz.
      * injection E2 as <- <-. reflexivity.
      * destruct (split_by p s); injection E2 as <- <-; reflexivity.
Qed.

Lemma spec_scan s :
  existsb is_dd (split_by p s) = dd_scan true s /\ existsb is_dd (tl (split_by p s)) = dd_scan false s.
Proof.
  induction s as [|x s [IH1 IH2]].
  - split; reflexivity.
  - cbn [split_by dd_scan]. destruct (p x) eqn:Hx.
    + cbn [existsb tl andb]. split; [|exact IH1].
      rewrite IH1. replace (dd_here (x :: s)) with false; [reflexivity|].
      cbn [dd_here]. destruct x as [|x]; [reflexivity|]. do 6 (destruct x as [x|x|]; try reflexivity). congruence.
    + destruct (split_by p s) as [|q qs] eqn:E; [exfalso; exact (split_by_nonempty s E)|].
      cbn [existsb tl andb] in *. rewrite IH2. split; [|reflexivity].
      rewrite (hd_split_dd x s q qs Hx E). reflexivity.
Qed.
End DotDot.


(* ====================================================================================== *)

Lemma nthN_None s : forall i, nthN s i = None <-> (length s <= i)%nat.
Proof.
  induction s as [|x s IH]; intros i; cbn [nthN length].
  - split; [lia|reflexivity].
  - destruct i as [|i]; [split; [discriminate|lia]|]. rewrite IH. lia.
Qed.
Lemma nthN_Some s i : (i < length s)%nat -> exists c, nthN s i = Some c.
Proof.
  intro H. destruct (nthN s i) as [c|] eqn:E; [exists c; reflexivity|].
  apply nthN_None in E. lia.
Qed.

Section DotDot2.
Variable p : N -> bool.
Hypothesis p_dot : p 46 = false.

Definition opt46 (o : option N) : bool := match o with Some c => c =? 46 | None => false end.
Definition optp (o : option N) : bool := match o with Some c => p c | None => false end.

(* a ".." segment starts at index i; [b] says whether index 0 starts a segment *)
Definition dd_at (b : bool) (s : str) (i : nat) : bool :=
  opt46 (nthN s i) && opt46 (nthN s (S i)) &&
  match i with O => b | S j => optp (nthN s j) end &&
  match nthN s (S (S i)) with None => true | Some c => p c end.

Lemma dd_at_0 b x s : dd_at b (x :: s) 0 = b && dd_here p (x :: s).
Proof.
  unfold dd_at. cbn [nthN opt46 dd_here].
  destruct (N.eqb_spec x 46) as [->|Hn].
  2:{ cbn [andb]. rewrite andb_comm.
      destruct x as [|x]; [reflexivity|]. do 6 (destruct x as [x|x|]; try reflexivity). congruence. }
  destruct s as [|y s]; [cbn; rewrite andb_comm; reflexivity|].
  cbn [nthN opt46]. destruct (N.eqb_spec y 46) as [->|Hn].
  2:{ cbn [andb]. rewrite andb_comm.
      destruct y as [|y]; [reflexivity|]. do 6 (destruct y as [y|y|]; try reflexivity). congruence. }
  cbn [andb]. destruct s as [|z s]; cbn [nthN]; destruct b; reflexivity.
Qed.

Lemma dd_at_S b x s j : dd_at b (x :: s) (S j) = dd_at (p x) s j.
Proof. unfold dd_at. cbn [nthN]. destruct j; reflexivity. Qed.

Lemma scan_index s : forall b, dd_scan p b s = true <-> exists i, dd_at b s i = true.
Proof.
  induction s as [|x s IH]; intro b.
  - cbn. split; [discriminate|]. intros [i H]. unfold dd_at in H. destruct i; discriminate.
  - cbn [dd_scan]. rewrite orb_true_iff, IH. split.
    + intros [H|[i H]]; [exists O; rewrite dd_at_0; exact H|exists (S i); rewrite dd_at_S; exact H].
    + intros [[|i] H]; [left; rewrite dd_at_0 in H; exact H|right; exists i; rewrite dd_at_S in H; exact H].
Qed.

Lemma spec_index s :
  Spec.FilePath.has_dot_dot_segment p s = true <-> exists i, dd_at true s i = true.
Proof.
  unfold Spec.FilePath.has_dot_dot_segment. rewrite <- scan_index.
  destruct (spec_scan p p_dot s) as [E _]. unfold is_dd in E. rewrite E. reflexivity.
Qed.

(* ---- the loop ---- *)
Lemma find_dot_spec s : forall n i, (0 < n -> i + n <= length s)%nat ->
  match find_dot s i n with
  | Some q => (i <= q < i + n)%nat /\ nthN s q = Some 46 /\
              forall j, (i <= j < q)%nat -> opt46 (nthN s j) = false
  | None => forall j, (i <= j < i + n)%nat -> opt46 (nthN s j) = false
  end.
Proof.
  induction n as [|n IH]; intros i Hi; cbn [find_dot]; [intros j Hj; lia|].
  destruct (nthN_Some s i ltac:(lia)) as [c Ec]. rewrite Ec.
  destruct (N.eqb_spec c 46) as [->|Hn].
  - split; [lia|]. split; [exact Ec|]. intros j Hj. lia.
  - specialize (IH (S i) ltac:(lia)). destruct (find_dot s (S i) n) as [q|].
    + destruct IH as (H1 & H2 & H3). split; [lia|]. split; [exact H2|].
      intros j Hj. destruct (Nat.eq_dec j i) as [->|Hne].
      * rewrite Ec. cbn. apply N.eqb_neq. exact Hn.
      * apply H3. lia.
    + intros j Hj. destruct (Nat.eq_dec j i) as [->|Hne].
      * rewrite Ec. cbn. apply N.eqb_neq. exact Hn.
      * apply IH. lia.
Qed.

Lemma unit_at_Some s i c : nthN s i = Some c -> unit_at s i = c.
Proof. unfold unit_at. intros ->. reflexivity. Qed.

Lemma dd_at_needs s i : dd_at true s i = true -> (S i < length s)%nat /\ opt46 (nthN s i) = true.
Proof.
  unfold dd_at. intro H. apply andb_prop in H. destruct H as [H _]. apply andb_prop in H. destruct H as [H _].
  apply andb_prop in H. destruct H as [H1 H2]. split; [|exact H1].
  destruct (nthN s (S i)) eqn:E; [|discriminate].
  destruct (Nat.ltb_spec (S i) (length s)); [assumption|]. apply nthN_None in H. congruence.
Qed.

Lemma test_is_dd_at s q : (S q < length s)%nat -> nthN s q = Some 46 ->
  (unit_at s (S q) =? 46) &&
  ((q =? 0)%nat || p (unit_at s (q - 1))) &&
  ((length s - q =? 2)%nat || p (unit_at s (q + 2))) = dd_at true s q.
Proof.
  intros Hq E. unfold dd_at. rewrite E. cbn [opt46]. rewrite N.eqb_refl. cbn [andb].
  destruct (nthN_Some s (S q) Hq) as [c1 E1]. rewrite E1, (unit_at_Some _ _ _ E1). cbn [opt46].
  f_equal; [f_equal|].
  - destruct q as [|j]; [reflexivity|]. cbn [Nat.eqb orb]. replace (S j - 1)%nat with j by lia.
    destruct (nthN_Some s j ltac:(lia)) as [c0 E0]. rewrite E0, (unit_at_Some _ _ _ E0). reflexivity.
  - replace (q + 2)%nat with (S (S q)) by lia.
    destruct (Nat.eqb_spec (length s - q) 2) as [H2|H2].
    + assert (X : nthN s (S (S q)) = None) by (apply nthN_None; lia). rewrite X. reflexivity.
    + destruct (nthN_Some s (S (S q)) ltac:(lia)) as [c2 E2]. rewrite E2, (unit_at_Some _ _ _ E2). reflexivity.
Qed.

Lemma loop_index s : forall fuel ptr, (length s < ptr + fuel)%nat ->
  dot_dot_loop fuel s p ptr = true <-> exists i, (ptr <= i)%nat /\ dd_at true s i = true.
Proof.
  induction fuel as [|fuel IH]; intros ptr Hf.
  - cbn. split; [discriminate|]. intros (i & Hi & H). apply dd_at_needs in H. lia.
  - cbn [dot_dot_loop].
    pose proof (find_dot_spec s (length s - 1 - ptr) ptr ltac:(lia)) as Hfd.
    destruct (find_dot s ptr (length s - 1 - ptr)) as [q|].
    + destruct Hfd as (Hq & Eq & Hbefore).
      rewrite (test_is_dd_at s q ltac:(lia) Eq).
      destruct (dd_at true s q) eqn:Hdd.
      * split; [|reflexivity]. intros _. exists q. split; [lia|exact Hdd].
      * assert (Hskip : (exists i, (ptr <= i)%nat /\ dd_at true s i = true) <->
                        (exists i, (q + 2 <= i)%nat /\ dd_at true s i = true)).
        { split; intros (i & Hi & H); [|exists i; split; [lia|exact H]].
          exists i. split; [|exact H].
          destruct (Nat.ltb_spec i q) as [Hlt|Hge].
          - apply dd_at_needs in H. destruct H as [_ H]. rewrite (Hbefore i ltac:(lia)) in H. discriminate.
          - destruct (Nat.eq_dec i q) as [->|Hne]; [congruence|].
            destruct (Nat.eq_dec i (S q)) as [->|Hne2]; [|lia].
            exfalso. unfold dd_at in H. rewrite Eq in H. cbn [optp] in H. rewrite p_dot in H.
            rewrite andb_false_r in H. discriminate. }
        rewrite Hskip.
        destruct (Nat.leb_spec (length s - 1) (q + 2)) as [Hend|Hend].
        -- split; [discriminate|]. intros (i & Hi & H). apply dd_at_needs in H. lia.
        -- apply IH. lia.
    + split; [discriminate|]. intros (i & Hi & H). apply dd_at_needs in H. destruct H as [H1 H2].
      rewrite (Hfd i ltac:(lia)) in H2. discriminate.
Qed.

Lemma impl_index s :
  Impl.FilePath.has_dot_dot_segment p s = true <-> exists i, dd_at true s i = true.
Proof.
  unfold Impl.FilePath.has_dot_dot_segment. destruct (Nat.leb_spec 2 (length s)) as [H|H].
  - rewrite loop_index by lia. split; [intros (i & _ & Hi); exists i; exact Hi|intros (i & Hi); exists i; split; [lia|exact Hi]].
  - split; [discriminate|]. intros (i & Hi). apply dd_at_needs in Hi. lia.
Qed.

Lemma dotdot_impl_spec s :
  Impl.FilePath.has_dot_dot_segment p s = Spec.FilePath.has_dot_dot_segment p s.
Proof.
  pose proof (impl_index s) as A. pose proof (spec_index s) as B.
  destruct (Impl.FilePath.has_dot_dot_segment p s), (Spec.FilePath.has_dot_dot_segment p s); try reflexivity.
  - symmetry. apply B, A. reflexivity.
  - apply A, B. reflexivity.
Qed.
End DotDot2.


(* ====================================================================================== *)

Lemma existsb_eq0 (l : list N) : existsb (fun c => c =? 0) l = false -> ~ In 0 l.
Proof.
  intros H X. assert (existsb (fun c => c =? 0) l = true); [|congruence].
  apply existsb_exists. exists 0. split; [exact X|reflexivity].
Qed.

Definition not_win_slash (c : N) : bool := negb (is_win_slash c).
(* the first component (server name) of the text after the leading "\\" *)
Definition first_component (rest : str) : str := take_while not_win_slash rest.

Lemma is_unc_path_first rest r : is_unc_path rest = Some r ->
  first_component rest <> [] /\ first_component rest <> [63] /\ first_component rest <> [46] /\
  (forall a b, first_component rest = [a; b] -> is_drive a b = false).
Proof.
  unfold is_unc_path, first_component, not_win_slash. cbn [unc_components].
  destruct rest as [|x rest]; [discriminate|].
  set (comp := take_while (fun c => negb (is_win_slash c)) (x :: rest)).
  destruct comp as [|a [|b [|c comp]]].
  - discriminate.
  - destruct (existsb (fun c => c =? 0) [a]); [discriminate|].
    destruct ((a =? 63) || (a =? 46)) eqn:E; [discriminate|]. intros _.
    repeat split; try discriminate; intro X; injection X as ->; discriminate.
  - destruct (existsb (fun c => c =? 0) [a; b]); [discriminate|].
    destruct (is_drive a b) eqn:E; [discriminate|]. intros _.
    repeat split; try discriminate. intros a' b' X. injection X as <- <-. exact E.
  - intros _. repeat split; discriminate.
Qed.

Definition bs_map (c : N) : N := if c =? 47 then 92 else c.
Lemma bs_map_no47 l : ~ In 47 (map bs_map l).
Proof.
  intro H. apply in_map_iff in H. destruct H as (c & E & _). unfold bs_map in E.
  destruct (N.eqb_spec c 47); congruence.
Qed.

Lemma in_tl {A} (x : A) l : In x (tl l) -> In x l.
Proof. destruct l; [intros []|right; assumption]. Qed.

Lemma lead_cases (decoded p0 : str) :
  (let lead := length (take_while (fun c => c =? 92) (firstn 4 decoded)) in
   if (lead =? 3)%nat then Some (tl decoded) else if (lead =? 2)%nat then Some decoded else None) = Some p0 ->
  (exists rest, p0 = 92 :: 92 :: rest) /\ (forall x, In x p0 -> In x decoded).
Proof.
  cbv zeta. intro H. split.
  - destruct decoded as [|a [|b [|c [|d r]]]]; cbn [firstn take_while] in H;
    repeat match type of H with context [if ?x =? 92 then _ else _] =>
      destruct (N.eqb_spec x 92) as [->|?]; cbn [length Nat.eqb take_while tl] in H end;
    try discriminate; injection H as <-; eexists; reflexivity.
  - destruct (_ =? 3)%nat; [injection H as <-; intros x; apply in_tl|].
    destruct (_ =? 2)%nat; [injection H as <-; auto|discriminate].
Qed.

Lemma to_shape_windows u p : ~ In 47 (get_hostname u) ->
  path_from_file_url false u = Some p ->
  ~ In 0 p /\ ~ In 47 p /\
  ((exists d rest, p = d :: 58 :: 92 :: rest /\ is_ascii_alpha d = true) \/
   (exists rest, p = 92 :: 92 :: rest /\ is_some (is_unc_path rest) = true /\
                 first_component rest <> [63] /\ first_component rest <> [46])).
Proof.
  intros Hhost. unfold path_from_file_url.
  destruct (is_file u); cbn [negb]; [|discriminate].
  change (fun c : N => if c =? 47 then 92 else c) with bs_map.
  set (decoded := map bs_map (decode_pathname u)).
  assert (Hd : ~ In 47 decoded) by apply bs_map_no47.
  match goal with |- match ?r with _ => _ end = _ -> _ => destruct r as [p0|] eqn:Er end; [|discriminate].
  destruct (existsb (fun c => c =? 0) p0) eqn:E0; [discriminate|]. intro X. injection X as <-.
  split; [apply existsb_eq0, E0|].
  destruct (negb (str_eqb (get_hostname u) [])).
  - destruct (str_eqb (get_hostname u) [46]); [discriminate|].
    cbn [app skipn] in Er.
    destruct (is_unc_path (get_hostname u ++ decoded)) as [r|] eqn:Eu; [|discriminate].
    injection Er as <-. split.
    + cbn [In]. rewrite in_app_iff. intros [X|[X|[X|X]]]; try discriminate; contradiction.
    + right. exists (get_hostname u ++ decoded). split; [reflexivity|]. rewrite Eu. split; [reflexivity|].
      destruct (is_unc_path_first _ _ Eu) as (_ & A & B & _). split; assumption.
  - destruct (pathname_has_windows_drive decoded) eqn:Ed.
    + injection Er as <-. unfold pathname_has_windows_drive in Ed.
      destruct decoded as [|a [|b [|c rest]]]; try discriminate.
      apply andb_prop in Ed. destruct Ed as [Ed E4]. apply andb_prop in Ed. destruct Ed as [Ed E3].
      apply andb_prop in Ed. destruct Ed as [E1 E2]. apply N.eqb_eq in E3. subst c. cbn [tl].
      assert (Hn : ~ In 47 (b :: 58 :: rest)) by (intro X; apply Hd; right; exact X).
      destruct rest as [|d rest].
      * cbn. split; [intros [X|[X|[X|[]]]]; try discriminate; apply Hn; left; exact X|].
        left. exists b, []. split; [reflexivity|exact E2].
      * cbn [length Nat.eqb]. split; [exact Hn|]. left. exists b, rest. split; [|exact E2].
        unfold is_win_slash in E4. destruct (N.eqb_spec d 92) as [->|?]; [reflexivity|].
        destruct (N.eqb_spec d 47) as [->|?]; [|discriminate]. exfalso. apply Hn. right. right. left. reflexivity.
    + match type of Er with match ?q with _ => _ end = _ => destruct q as [p1|] eqn:Ep end; [|discriminate].
      destruct (lead_cases decoded p1 Ep) as [[rest ->] Hincl].
      cbn [skipn] in Er. destruct (is_unc_path rest) as [r|] eqn:Eu; [|discriminate]. injection Er as <-.
      split; [intro X; apply Hd, Hincl, X|].
      right. exists rest. split; [reflexivity|]. rewrite Eu. split; [reflexivity|].
      destruct (is_unc_path_first _ _ Eu) as (_ & A & B & _). split; assumption.
Qed.

(* never a Win32 namespace path \\?\... or \\.\... (nor \\? or \\. alone) *)
Lemma to_not_namespace u p : ~ In 47 (get_hostname u) ->
  path_from_file_url false u = Some p ->
  forall c, c = 63 \/ c = 46 -> p <> [92; 92; c] /\ forall t, p <> 92 :: 92 :: c :: 92 :: t.
Proof.
  intros Hh Hp c Hc. destruct (to_shape_windows u p Hh Hp) as (_ & _ & [(d & rest & -> & Ha)|(rest & -> & _ & A & B)]).
  - split; [|intro t]; intro X; injection X as -> _; discriminate.
  - split; [|intro t]; intro X; injection X as ->; destruct Hc as [-> | ->]; [apply A|apply B|apply A|apply B]; reflexivity.
Qed.

(* ---- POSIX ---- *)
Lemma to_shape_posix u p :
  (is_file u = true -> exists seg l, path u = PList (seg :: l)) ->
  path_from_file_url true u = Some p ->
  ~ In 0 p /\ exists rest, p = 47 :: rest.
Proof.
  intros Hpath. unfold path_from_file_url.
  destruct (is_file u); cbn [negb]; [|discriminate].
  destruct (Hpath eq_refl) as (seg & l & El).
  destruct (negb (str_eqb (get_hostname u) [])); [discriminate|].
  destruct (existsb (fun c => c =? 0) (decode_pathname u)) eqn:E0; [discriminate|].
  intro X. injection X as <-. split; [apply existsb_eq0, E0|].
  unfold decode_pathname, get_pathname, path_serialize, percent_decode_to_scalars, string_percent_decode.
  rewrite El. cbn [flat_map app]. rewrite utf8_encode_cons, (utf8_encode_cp_ascii 47) by lia. cbn [app].
  rewrite (P_ne 47) by lia. rewrite (dec8_ascii 47) by lia.
  rewrite utf8_encode_cons, (utf8_encode_cp_ascii 47) by lia. cbn [app]. eexists. reflexivity.
Qed.


(* ====================================================================================== *)

(* ---------- C17_from_rejects ---------- *)
Definition file_prefix : str := [102;105;108;101;58;47;47].       (* "file://" *)

(* Windows: strip "\\", "\\?\", "\\.\", "\\?\UNC\", "\\.\UNC\" (either slash); the flag says
   whether what remains is a UNC "server\share..." text (else it must be a drive path) *)
Definition win_prefix (s : str) : str * bool :=
  match s with
  | a :: b :: r2 =>
      if is_win_slash a && is_win_slash b then
        match r2 with
        | c :: d :: r4 =>
            if ((c =? 63) || (c =? 46)) && is_win_slash d then
              match r4 with
              | u :: n :: cc :: sl :: r8 =>
                  if lower_is u 117 && lower_is n 110 && lower_is cc 99 && is_win_slash sl
                  then (r8, true) else (r4, false)
              | _ => (r4, false)
              end
            else (r2, true)
        | _ => (r2, true)
        end
      else (s, false)
  | _ => (s, false)
  end.

(* the text after the share name (UNC) or after "X:\" (drive); None = malformed *)
Definition win_tail (s : str) : option str :=
  let '(rest, is_unc) := win_prefix s in
  if is_unc then is_unc_path rest
  else match rest with
       | a :: b :: c :: r => if is_drive a b && is_win_slash c then Some r else None
       | _ => None
       end.

Definition has_nul (s : str) : bool := existsb (fun c => c =? 0) s.

Definition reject_conditions (posix : bool) (s : str) : bool :=
  match s with
  | [] => true                                                          (* empty *)
  | c0 :: _ =>
    if posix then
      negb (c0 =? 47)                                                   (* not absolute *)
      || Spec.FilePath.has_dot_dot_segment is_posix_slash s             (* a ".." segment *)
      || has_nul s                                                      (* a NUL *)
    else
      match win_tail s with
      | None => true                                  (* not drive-absolute / malformed UNC or prefix *)
      | Some tail => Spec.FilePath.has_dot_dot_segment is_win_slash tail || has_nul tail
      end
  end.

Definition file_url_text (posix : bool) (s : str) : str :=
  if posix then file_prefix ++ utf8_percent_encode posix_path_encode s
  else let '(rest, is_unc) := win_prefix s in
       file_prefix ++ (if is_unc then [] else [47]) ++ utf8_percent_encode raw_path_encode rest.

Lemma from_unfold idna posix e units :
  url_from_file_path idna posix e units =
  let s := decode_units e units in
  if reject_conditions posix s then None
  else match basic_parse idna (file_url_text posix s) None with POk u => Some u | _ => None end.
Proof.
  unfold url_from_file_path. cbv zeta. destruct (decode_units e units) as [|c0 l]; [reflexivity|].
  unfold reject_conditions, file_url_text, has_nul. destruct posix.
  - destruct (negb (c0 =? 47)); [reflexivity|]. cbn [orb].
    destruct (Spec.FilePath.has_dot_dot_segment is_posix_slash (c0 :: l)); [reflexivity|]. cbn [orb].
    destruct (existsb _ (c0 :: l)); reflexivity.
  - unfold win_tail.
    match goal with |- (let '(rest, is_unc) := ?W in _) = _ => change W with (win_prefix (c0 :: l)) end.
    destruct (win_prefix (c0 :: l)) as [rest is_unc].
    match goal with |- match ?chk with _ => _ end = _ => destruct chk as [tail|] end; [|reflexivity].
    destruct (Spec.FilePath.has_dot_dot_segment is_win_slash tail); [reflexivity|]. cbn [orb].
    destruct (existsb _ tail); reflexivity.
Qed.

Lemma from_rejects idna posix e units :
  url_from_file_path idna posix e units = None <->
  (reject_conditions posix (decode_units e units) = true \/
   forall u, basic_parse idna (file_url_text posix (decode_units e units)) None <> POk u).
Proof.
  rewrite from_unfold. cbv zeta.
  destruct (reject_conditions posix (decode_units e units)); [split; [left; reflexivity|reflexivity]|].
  destruct (basic_parse idna _ None) as [u|u|]; split; try discriminate; try reflexivity.
  - intros [X|X]; [discriminate|]. exfalso. apply (X u). reflexivity.
  - intros _. right. intros u' X. discriminate.
  - intros _. right. intros u' X. discriminate.
Qed.

(* ---------- the output of the encoder ---------- *)
Section Encoder.
Variable in_set : N -> bool.
Hypothesis wide : forall c, 128 <= c -> in_set c = true.

Definition enc_byte_ok (b : N) : Prop := b < 256 /\ (128 <= b \/ in_set b = true).

Lemma encode_cp_shape c : is_scalar c = true ->
  (in_set c = false /\ c < 128 /\ utf8_percent_encode_cp in_set c = [c]) \/
  (in_set c = true /\ exists b bs, utf8_percent_encode_cp in_set c = flat_map percent_encode_byte (b :: bs) /\
                                  Forall enc_byte_ok (b :: bs)).
Proof.
  intro Hs. unfold utf8_percent_encode_cp. destruct (in_set c) eqn:E.
  - right. split; [reflexivity|]. destruct (N.ltb_spec c 128) as [L|L].
    + exists c, []. rewrite (utf8_encode_cp_ascii c L). split; [reflexivity|].
      constructor; [|constructor]. split; [lia|right; exact E].
    + destruct (utf8_encode_cp_nonascii c Hs L) as (h & t & Eh & Hh & _ & Ht).
      exists h, t. rewrite Eh. split; [reflexivity|].
      pose proof (utf8_encode_cp_bytes c Hs) as Hb. rewrite Eh in Hb. unfold bytes_ok in Hb.
      inversion Hb as [|? ? Hb1 Hb2]; subst. constructor; [split; [assumption|left; assumption]|].
      clear - Ht Hb2. induction Ht as [|x t Hx Ht IH]; [constructor|].
      inversion Hb2; subst. constructor; [|apply IH; assumption].
      apply is_cont_range in Hx. split; [assumption|left; lia].
  - left. split; [reflexivity|]. split; [|reflexivity].
    destruct (N.ltb_spec c 128); [assumption|]. rewrite wide in E by assumption. discriminate.
Qed.

Definition enc_chunk (ch : list N) : Prop :=
  (exists c, ch = [c] /\ c < 128 /\ in_set c = false) \/
  (exists b, ch = percent_encode_byte b /\ enc_byte_ok b).

Lemma encode_chunks s : scalars_ok s ->
  exists chunks, utf8_percent_encode in_set s = concat chunks /\ Forall enc_chunk chunks.
Proof.
  induction s as [|c s IH]; intro Hs.
  - exists []. split; [reflexivity|constructor].
  - apply scalars_ok_cons in Hs. destruct Hs as [Hc Hs]. destruct (IH Hs) as (chunks & E & Hf).
    unfold utf8_percent_encode. cbn [flat_map]. fold (utf8_percent_encode in_set s). rewrite E.
    destruct (encode_cp_shape c Hc) as [(E1 & L & ->)|(E1 & b & bs & -> & Hb)].
    + exists ([c] :: chunks). split; [reflexivity|]. constructor; [|assumption].
      left. exists c. auto.
    + exists (map percent_encode_byte (b :: bs) ++ chunks). split.
      * rewrite concat_app, <- flat_map_concat_map. reflexivity.
      * apply Forall_app. split; [|assumption].
        induction Hb as [|x l Hx _ IHl]; cbn [map]; constructor; [|assumption].
        right. exists x. split; [reflexivity|assumption].
Qed.
End Encoder.

Lemma upper_hex_digit v : v < 16 -> is_ascii_upper_hex (hex_digit_upper v) = true.
Proof.
  intro H. assert (H256 : v < 256) by lia.
  pose proof (sweep256_sound (fun v => (16 <=? v) || is_ascii_upper_hex (hex_digit_upper v))
    ltac:(vm_compute; reflexivity) v H256) as Hp. cbv beta in Hp.
  destruct (N.leb_spec 16 v); [lia|]. exact Hp.
Qed.

Lemma upper_hex_range x : is_ascii_upper_hex x = true -> (48 <= x <= 57) \/ (65 <= x <= 70).
Proof. unfold is_ascii_upper_hex, is_ascii_digit. lia. Qed.

Lemma percent_encode_byte_shape b : b < 256 ->
  exists h1 h2, percent_encode_byte b = [37; h1; h2] /\
                is_ascii_upper_hex h1 = true /\ is_ascii_upper_hex h2 = true /\
                (ascii_lower h1 = 50 -> ascii_lower h2 = 101 -> b = 46).
Proof.
  intro H. exists (hex_digit_upper (b / 16)), (hex_digit_upper (b mod 16)).
  split; [reflexivity|]. split; [apply upper_hex_digit; lia|]. split; [apply upper_hex_digit; lia|].
  pose proof (sweep256_sound
    (fun b => negb ((ascii_lower (hex_digit_upper (b / 16)) =? 50) && (ascii_lower (hex_digit_upper (b mod 16)) =? 101))
              || (b =? 46)) ltac:(vm_compute; reflexivity) b H) as Hp. cbv beta in Hp.
  intros A B. rewrite A, B in Hp. cbn in Hp. apply N.eqb_eq. exact Hp.
Qed.

Section Alphabet.
Variable in_set : N -> bool.
Hypothesis wide : forall c, 128 <= c -> in_set c = true.
Hypothesis enc37 : in_set 37 = true.

Definition out_char (x : N) : Prop := (x < 128 /\ in_set x = false) \/ x = 37 \/ is_ascii_upper_hex x = true.

Lemma chunk_alphabet ch : enc_chunk in_set ch -> Forall out_char ch.
Proof.
  intros [(c & -> & L & E)|(b & -> & Hb & _)].
  - constructor; [left; auto|constructor].
  - destruct (percent_encode_byte_shape b Hb) as (h1 & h2 & -> & A & B & _).
    constructor; [right; left; reflexivity|]. constructor; [right; right; exact A|].
    constructor; [right; right; exact B|constructor].
Qed.

Lemma encode_alphabet s : scalars_ok s -> Forall out_char (utf8_percent_encode in_set s).
Proof.
  intro Hs. destruct (encode_chunks in_set wide s Hs) as (chunks & -> & Hf).
  induction Hf as [|ch chunks Hc _ IH]; [constructor|]. cbn [concat]. apply Forall_app. split; [|exact IH].
  apply chunk_alphabet, Hc.
Qed.

(* an encoded character that is neither '%' nor an upper hex digit never occurs in the output *)
Lemma encode_excludes s d : scalars_ok s -> in_set d = true -> d <> 37 -> is_ascii_upper_hex d = false ->
  ~ In d (utf8_percent_encode in_set s).
Proof.
  intros Hs E1 E2 E3 Hin. pose proof (encode_alphabet s Hs) as Ha. rewrite Forall_forall in Ha.
  destruct (Ha d Hin) as [[_ X]|[X|X]]; congruence.
Qed.

(* a '%' in the output is always followed by the two upper hex digits written by the encoder *)
Lemma concat_percent chunks : Forall (enc_chunk in_set) chunks -> forall a b, concat chunks = a ++ 37 :: b ->
  exists h1 h2 r, b = h1 :: h2 :: r /\ is_ascii_upper_hex h1 = true /\ is_ascii_upper_hex h2 = true.
Proof.
  induction 1 as [|ch chunks Hc _ IH]; intros a b E.
  - destruct a; discriminate.
  - cbn [concat] in E. destruct Hc as [(c & -> & L & Ec)|(x & -> & Hx & _)].
    + destruct a as [|a0 a]; cbn [app] in E; injection E as E0 E; [congruence|]. exact (IH a b E).
    + destruct (percent_encode_byte_shape x Hx) as (h1 & h2 & Ex & A & B & _). rewrite Ex in E. cbn [app] in E.
      destruct a as [|a0 a]; cbn [app] in E.
      * injection E as E. exists h1, h2, (concat chunks). auto.
      * injection E as _ E. apply upper_hex_range in A. apply upper_hex_range in B.
        destruct a as [|a1 a]; cbn [app] in E; injection E as E1 E; [lia|].
        destruct a as [|a2 a]; cbn [app] in E; injection E as E2 E; [lia|].
        exact (IH a b E).
Qed.

Lemma encode_percent s : scalars_ok s -> forall a b, utf8_percent_encode in_set s = a ++ 37 :: b ->
  exists h1 h2 r, b = h1 :: h2 :: r /\ is_ascii_upper_hex h1 = true /\ is_ascii_upper_hex h2 = true.
Proof.
  intros Hs a b E. destruct (encode_chunks in_set wide s Hs) as (chunks & Ec & Hf).
  rewrite Ec in E. exact (concat_percent chunks Hf a b E).
Qed.

Lemma encode_percent_nth s : scalars_ok s -> let e := utf8_percent_encode in_set s in
  forall i, nth i e 0 = 37 ->
  is_ascii_upper_hex (nth (i + 1) e 0) = true /\ is_ascii_upper_hex (nth (i + 2) e 0) = true.
Proof.
  intros Hs e i Hi.
  assert (Hlt : (i < length e)%nat).
  { destruct (Nat.ltb_spec i (length e)); [assumption|]. rewrite nth_overflow in Hi by assumption. discriminate. }
  destruct (nth_split e 0 Hlt) as (l1 & l2 & E & Hl). rewrite Hi in E.
  destruct (encode_percent s Hs l1 l2 E) as (h1 & h2 & r & -> & A & B).
  fold e. rewrite E, <- Hl. rewrite !app_nth2 by lia.
  replace (length l1 + 1 - length l1)%nat with 1%nat by lia.
  replace (length l1 + 2 - length l1)%nat with 2%nat by lia. cbn [nth]. auto.
Qed.
End Alphabet.

Lemma posix_wide c : 128 <= c -> posix_path_encode c = true.
Proof.
  intro H. unfold posix_path_encode, raw_path_encode, path_encode, query_encode, c0_control_encode.
  destruct (N.ltb_spec 126 c); [|lia]. rewrite orb_true_r. reflexivity.
Qed.
Lemma raw_wide c : 128 <= c -> raw_path_encode c = true.
Proof.
  intro H. unfold raw_path_encode, path_encode, query_encode, c0_control_encode.
  destruct (N.ltb_spec 126 c); [|lia]. rewrite orb_true_r. reflexivity.
Qed.

Lemma no_delimiter_posix s : scalars_ok s -> let e := utf8_percent_encode posix_path_encode s in
  ~ In 63 e /\ ~ In 35 e /\ ~ In 58 e /\ ~ In 92 e /\ ~ In 124 e /\
  (forall i, nth i e 0 = 37 ->
     is_ascii_upper_hex (nth (i + 1) e 0) = true /\ is_ascii_upper_hex (nth (i + 2) e 0) = true).
Proof.
  intros Hs e. unfold e.
  repeat split; try (apply (encode_excludes _ posix_wide); [assumption|reflexivity|discriminate|reflexivity]).
  - apply (encode_percent_nth _ posix_wide eq_refl s Hs i H).
  - apply (encode_percent_nth _ posix_wide eq_refl s Hs i H).
Qed.

Lemma no_delimiter_raw s : scalars_ok s -> let e := utf8_percent_encode raw_path_encode s in
  ~ In 63 e /\ ~ In 35 e /\
  (forall i, nth i e 0 = 37 ->
     is_ascii_upper_hex (nth (i + 1) e 0) = true /\ is_ascii_upper_hex (nth (i + 2) e 0) = true).
Proof.
  intros Hs e. unfold e.
  repeat split; try (apply (encode_excludes _ raw_wide); [assumption|reflexivity|discriminate|reflexivity]).
  - apply (encode_percent_nth _ raw_wide eq_refl s Hs i H).
  - apply (encode_percent_nth _ raw_wide eq_refl s Hs i H).
Qed.


(* ====================================================================================== *)

(* ---------- split_by ---------- *)
Lemma split_by_app_nosep p a : Forall (fun x => p x = false) a -> forall t,
  split_by p (a ++ t) = match split_by p t with q :: qs => (a ++ q) :: qs | [] => [a ++ []] end.
Proof.
  induction 1 as [|x a Hx _ IH]; intro t; cbn [app].
  - destruct (split_by p t) eqn:E; [exfalso; exact (split_by_nonempty p t E)|reflexivity].
  - cbn [split_by]. rewrite Hx, IH. destruct (split_by p t); reflexivity.
Qed.

Lemma split_by_ext_in p q l : (forall x, In x l -> p x = q x) -> split_by p l = split_by q l.
Proof.
  induction l as [|x l IH]; intro H; [reflexivity|]. cbn [split_by].
  rewrite (H x (or_introl eq_refl)), IH; [reflexivity|]. intros y Hy. apply H. right. exact Hy.
Qed.

Lemma split_by_Forall (P : N -> Prop) p s : Forall P s -> Forall (Forall P) (split_by p s).
Proof.
  induction 1 as [|x s Hx Hs IH]; cbn [split_by]; [repeat constructor|].
  destruct (p x); [constructor; [constructor|exact IH]|].
  destruct (split_by p s) as [|q qs]; [repeat constructor; assumption|].
  inversion IH; subst. constructor; [constructor; assumption|assumption].
Qed.

(* ---------- dot tokens ---------- *)
Definition dot_tok (t : str) : Prop := t = [46] \/ t = [37;50;101].

Lemma single_dot_tok x : is_single_dot x = true -> exists t, dot_tok t /\ lower_str x = t.
Proof.
  unfold is_single_dot. intro H. apply orb_prop in H. destruct H as [H|H]; apply str_eqb_eq in H;
  eexists; (split; [|exact H]); unfold dot_tok; auto.
Qed.
Lemma double_dot_tok x : is_double_dot x = true ->
  exists t1 t2, dot_tok t1 /\ dot_tok t2 /\ lower_str x = t1 ++ t2.
Proof.
  unfold is_double_dot. intro H. repeat (apply orb_prop in H; destruct H as [H|H]); apply str_eqb_eq in H.
  - exists [46], [46]. unfold dot_tok. auto.
  - exists [46], [37;50;101]. unfold dot_tok. auto.
  - exists [37;50;101], [46]. unfold dot_tok. auto.
  - exists [37;50;101], [37;50;101]. unfold dot_tok. auto.
Qed.

Lemma ascii_lower_46 c : ascii_lower c = 46 -> c = 46.
Proof. unfold ascii_lower, is_ascii_upper_alpha. destruct ((65 <=? c) && (c <=? 90)) eqn:E; lia. Qed.
Lemma ascii_lower_37 c : ascii_lower c = 37 -> c = 37.
Proof. unfold ascii_lower, is_ascii_upper_alpha. destruct ((65 <=? c) && (c <=? 90)) eqn:E; lia. Qed.

Section NoDot.
Variable in_set : N -> bool.
Hypothesis wide : forall c, 128 <= c -> in_set c = true.
Hypothesis enc37 : in_set 37 = true.
Hypothesis raw46 : in_set 46 = false.
Let enc := utf8_percent_encode in_set.

Lemma enc_cons c s : enc (c :: s) = utf8_percent_encode_cp in_set c ++ enc s.
Proof. reflexivity. Qed.

Lemma encode_cp_nonempty c : is_scalar c = true -> utf8_percent_encode_cp in_set c <> [].
Proof.
  intro Hs. destruct (encode_cp_shape in_set wide c Hs) as [(_ & _ & ->)|(_ & b & bs & -> & _)]; [discriminate|].
  cbn [flat_map]. unfold percent_encode_byte. discriminate.
Qed.

Lemma enc_nil_inv s : scalars_ok s -> lower_str (enc s) = [] -> s = [].
Proof.
  destruct s as [|c s]; [reflexivity|]. intros Hs H. apply scalars_ok_cons in Hs. destruct Hs as [Hc _].
  rewrite enc_cons in H. unfold lower_str in H. apply map_eq_nil in H. apply app_eq_nil in H.
  destruct H as [H _]. exfalso. exact (encode_cp_nonempty c Hc H).
Qed.

(* if the (lower-cased) encoded text starts with a dot token, the source starts with '.' *)
Lemma enc_tok c s t rest : scalars_ok (c :: s) -> dot_tok t -> lower_str (enc (c :: s)) = t ++ rest ->
  c = 46 /\ t = [46] /\ rest = lower_str (enc s).
Proof.
  intros Hs Ht H. apply scalars_ok_cons in Hs. destruct Hs as [Hc Hs]. rewrite enc_cons in H.
  unfold lower_str in H. rewrite map_app in H.
  destruct (encode_cp_shape in_set wide c Hc) as [(E1 & L & Ee)|(E1 & b & bs & Ee & Hb)]; rewrite Ee in H.
  - cbn [map app] in H. destruct Ht as [-> | ->]; cbn [app] in H; injection H as H0 H.
    + apply ascii_lower_46 in H0. auto.
    + apply ascii_lower_37 in H0. congruence.
  - exfalso. inversion Hb as [|? ? Hb1 _]; subst. cbn [flat_map] in H.
    destruct (percent_encode_byte_shape b (proj1 Hb1)) as (h1 & h2 & Ex & _ & _ & Hdot). rewrite Ex in H.
    cbn [map app] in H. destruct Ht as [-> | ->]; cbn [app] in H.
    + pose proof (f_equal (fun l => nth 0 l 0) H) as H0. cbv in H0. discriminate.
    + pose proof (f_equal (fun l => nth 1 l 0) H) as H1. pose proof (f_equal (fun l => nth 2 l 0) H) as H2.
      cbn [nth] in H1, H2. specialize (Hdot H1 H2). subst b.
      destruct Hb1 as [_ [X|X]]; [lia|congruence].
Qed.

Lemma single_dot_source seg : scalars_ok seg -> is_single_dot (enc seg) = true -> seg = [46].
Proof.
  intros Hs H. destruct (single_dot_tok _ H) as (t & Ht & E).
  destruct seg as [|c r]; [destruct Ht as [-> | ->]; discriminate|].
  rewrite <- (app_nil_r t) in E. destruct (enc_tok c r t [] Hs Ht E) as (-> & _ & E2).
  apply scalars_ok_cons in Hs. rewrite (enc_nil_inv r (proj2 Hs) (eq_sym E2)). reflexivity.
Qed.

Lemma double_dot_source seg : scalars_ok seg -> is_double_dot (enc seg) = true -> seg = [46; 46].
Proof.
  intros Hs H. destruct (double_dot_tok _ H) as (t1 & t2 & Ht1 & Ht2 & E).
  destruct seg as [|c r]; [destruct Ht1 as [-> | ->]; discriminate|].
  destruct (enc_tok c r t1 t2 Hs Ht1 E) as (-> & _ & E2).
  apply scalars_ok_cons in Hs. destruct Hs as [_ Hs].
  destruct r as [|c2 r]; [destruct Ht2 as [-> | ->]; discriminate|].
  rewrite <- (app_nil_r t2) in E2. symmetry in E2.
  destruct (enc_tok c2 r t2 [] Hs Ht2 E2) as (-> & _ & E3).
  apply scalars_ok_cons in Hs. rewrite (enc_nil_inv r (proj2 Hs) (eq_sym E3)). reflexivity.
Qed.

(* separators: pass through unencoded; never produced by the encoder *)
Variable p : N -> bool.
Hypothesis sep_raw : forall c, p c = true -> in_set c = false.
Hypothesis sep_37 : p 37 = false.
Hypothesis sep_hex : forall x, is_ascii_upper_hex x = true -> p x = false.

Lemma encode_cp_nosep c : is_scalar c = true -> p c = false ->
  Forall (fun x => p x = false) (utf8_percent_encode_cp in_set c).
Proof.
  intros Hs Hp. destruct (encode_cp_shape in_set wide c Hs) as [(_ & _ & ->)|(_ & b & bs & -> & Hb)].
  - constructor; [assumption|constructor].
  - induction Hb as [|x l Hx _ IH]; [constructor|]. cbn [flat_map]. apply Forall_app. split; [|exact IH].
    destruct (percent_encode_byte_shape x (proj1 Hx)) as (h1 & h2 & -> & A & B & _).
    repeat constructor; auto.
Qed.

Lemma split_encode s : scalars_ok s -> split_by p (enc s) = map enc (split_by p s).
Proof.
  induction s as [|c s IH]; intro Hs; [reflexivity|].
  apply scalars_ok_cons in Hs. destruct Hs as [Hc Hs]. specialize (IH Hs).
  rewrite enc_cons. cbn [split_by]. destruct (p c) eqn:Hp.
  - destruct (encode_cp_shape in_set wide c Hc) as [(_ & _ & ->)|(E1 & _)]; [|rewrite (sep_raw c Hp) in E1; discriminate].
    cbn [app split_by map]. rewrite Hp, IH. reflexivity.
  - rewrite (split_by_app_nosep p _ (encode_cp_nosep c Hc Hp)), IH.
    destruct (split_by p s) as [|q qs] eqn:E; [exfalso; exact (split_by_nonempty p s E)|].
    cbn [map]. reflexivity.
Qed.

Lemma no_dot_segment_created s : scalars_ok s ->
  (forall seg, In seg (split_by p s) -> seg <> [46] /\ seg <> [46; 46]) ->
  forall seg', In seg' (split_by p (enc s)) -> is_single_dot seg' = false /\ is_double_dot seg' = false.
Proof.
  intros Hs Hno seg' Hin. rewrite (split_encode s Hs) in Hin. apply in_map_iff in Hin.
  destruct Hin as (seg & <- & Hseg).
  pose proof (split_by_Forall _ p s Hs) as Hall. rewrite Forall_forall in Hall.
  specialize (Hall seg Hseg). destruct (Hno seg Hseg) as [N1 N2]. split.
  - destruct (is_single_dot (enc seg)) eqn:E; [|reflexivity]. exfalso. apply N1, single_dot_source; assumption.
  - destruct (is_double_dot (enc seg)) eqn:E; [|reflexivity]. exfalso. apply N2, double_dot_source; assumption.
Qed.
End NoDot.

Lemma win_slash_hex x : is_ascii_upper_hex x = true -> is_win_slash x = false.
Proof. intro H. apply upper_hex_range in H. unfold is_win_slash. lia. Qed.
Lemma posix_slash_hex x : is_ascii_upper_hex x = true -> is_posix_slash x = false.
Proof. intro H. apply upper_hex_range in H. unfold is_posix_slash. lia. Qed.

(* POSIX: the segments the URL parser will see (it also splits at '\', but none is left) *)
Lemma no_dot_segment_created_posix s : scalars_ok s ->
  (forall seg, In seg (split_by is_posix_slash s) -> seg <> [46] /\ seg <> [46; 46]) ->
  forall seg', In seg' (split_by is_win_slash (utf8_percent_encode posix_path_encode s)) ->
  is_single_dot seg' = false /\ is_double_dot seg' = false.
Proof.
  intros Hs Hno seg' Hin.
  rewrite (split_by_ext_in is_win_slash is_posix_slash) in Hin.
  - apply (no_dot_segment_created posix_path_encode posix_wide eq_refl eq_refl is_posix_slash) with (s := s); try assumption.
    + intros c Hc. unfold is_posix_slash in Hc. apply N.eqb_eq in Hc. subst c. reflexivity.
    + reflexivity.
    + exact posix_slash_hex.
  - intros x Hx. unfold is_win_slash, is_posix_slash. destruct (N.eqb_spec x 92) as [->|]; [|reflexivity].
    exfalso. revert Hx. apply (encode_excludes _ posix_wide); [assumption|reflexivity|discriminate|reflexivity].
Qed.

Lemma no_dot_segment_created_windows s : scalars_ok s ->
  (forall seg, In seg (split_by is_win_slash s) -> seg <> [46] /\ seg <> [46; 46]) ->
  forall seg', In seg' (split_by is_win_slash (utf8_percent_encode raw_path_encode s)) ->
  is_single_dot seg' = false /\ is_double_dot seg' = false.
Proof.
  intros Hs Hno seg' Hin.
  apply (no_dot_segment_created raw_path_encode raw_wide eq_refl eq_refl is_win_slash) with (s := s); try assumption.
  - intros c Hc. unfold is_win_slash in Hc. apply orb_prop in Hc.
    destruct Hc as [Hc|Hc]; apply N.eqb_eq in Hc; subst c; reflexivity.
  - reflexivity.
  - exact win_slash_hex.
Qed.


(* ====================================================================================== *)

(* the record a POSIX file path is converted to *)
Definition file_url_h (h : host) (l : list str) : url := mkurl s_file [] [] (Some h) None (PList l) None None.
Definition file_url (l : list str) : url := file_url_h HEmpty l.

(* one segment end of the path state on file_url l (slash = the segment ended at a separator) *)
Definition shorten_list (l : list str) : list str :=
  match l with
  | [x] => if is_normalized_windows_drive_letter x then l else removelast l
  | _ => removelast l
  end.
Definition path_seg_step (l : list str) (buffer : str) (slash : bool) : list str :=
  if is_double_dot buffer then
    let l' := shorten_list l in if negb slash then l' ++ [[]] else l'
  else if is_single_dot buffer && negb slash then l ++ [[]]
  else if negb (is_single_dot buffer) then
    l ++ [if match l with [] => true | _ => false end && is_windows_drive_letter buffer
          then match buffer with [a; _] => [a; 58] | _ => buffer end else buffer]
  else l.

Fixpoint path_run (l : list str) (buf : str) (rest : str) : list str :=
  match rest with
  | [] => path_seg_step l buf false
  | x :: r => if is_win_slash x then path_run (path_seg_step l buf true) [] r
              else path_run l (buf ++ [x]) r
  end.

(* characters the path state copies verbatim *)
Definition pchar (x : N) : Prop := x <> 63 /\ x <> 35 /\ utf8_percent_encode_cp path_encode x = [x].

Lemma nthN_app_len pre rest : nthN (pre ++ rest) (length pre) = nthN rest 0.
Proof. induction pre as [|y pre IH]; [reflexivity|]. cbn [app length nthN]. exact IH. Qed.

Lemma char_at_app pre rest : char_at (pre ++ rest) (Z.of_nat (length pre)) = nthN rest 0.
Proof.
  unfold char_at. destruct (Z.ltb_spec (Z.of_nat (length pre)) 0); [lia|].
  rewrite Nat2Z.id. apply nthN_app_len.
Qed.

Section Sim.
Variable idna : list N -> option (list N).

Lemma shorten_file_url h l : shorten_path (file_url_h h l) = file_url_h h (shorten_list l).
Proof.
  unfold shorten_path, shorten_list. cbn [path file_url_h].
  destruct l as [|x [|y l]]; try reflexivity.
  change (is_file (file_url_h h [x])) with true. cbn [andb].
  destruct (is_normalized_windows_drive_letter x); reflexivity.
Qed.

Definition pm (h : host) (l : list str) (buf : str) (ptr : Z) : mstate := mk_m Path (file_url_h h l) buf false false false ptr.

Lemma step_path_end input h l buf ptr (slash : bool) :
  (if slash then exists x, char_at input ptr = Some x /\ is_win_slash x = true else char_at input ptr = None) ->
  step idna input None None (pm h l buf ptr) = Cont (pm h (path_seg_step l buf slash) [] ptr).
Proof.
  intro Hc. unfold step, pm. cbn [m_state m_url m_buffer m_pointer is_some].
  change (is_special (file_url_h h l)) with true. change (is_file (file_url_h h l)) with true.
  assert (Hcond : (is_eof (char_at input ptr) || is_c (char_at input ptr) 47 || true && is_c (char_at input ptr) 92
            || negb false && (is_c (char_at input ptr) 63 || is_c (char_at input ptr) 35)) = true /\
          (is_c (char_at input ptr) 47 || true && is_c (char_at input ptr) 92) = slash /\
          is_c (char_at input ptr) 63 = false /\ is_c (char_at input ptr) 35 = false).
  { destruct slash.
    - destruct Hc as (x & -> & Hx). unfold is_win_slash in Hx. cbn [is_c is_eof is_none andb negb orb].
      destruct (N.eqb_spec x 47) as [E47|N47]; [subst x; repeat split; reflexivity|].
      destruct (N.eqb_spec x 92) as [E92|N92]; [subst x; repeat split; reflexivity|discriminate].
    - rewrite Hc. repeat split; reflexivity. }
  destruct Hcond as (C1 & C2 & C3 & C4). rewrite C1, C2, C3, C4.
  unfold path_seg_step.
  destruct (is_double_dot buf).
  - rewrite shorten_file_url. destruct (negb slash); reflexivity.
  - destruct (is_single_dot buf); cbn [andb negb].
    + destruct (negb slash); reflexivity.
    + unfold path_is_empty_list, path_append. cbn [path file_url_h]. destruct l; reflexivity.
Qed.

Lemma step_path_char input h l buf ptr x :
  char_at input ptr = Some x -> is_win_slash x = false -> pchar x ->
  step idna input None None (pm h l buf ptr) = Cont (pm h l (buf ++ [x]) ptr).
Proof.
  intros Hc Hx (H63 & H35 & He). unfold step, pm. cbn [m_state m_url m_buffer m_pointer is_some].
  change (is_special (file_url_h h l)) with true. rewrite Hc. cbn [is_eof is_none is_c].
  unfold is_win_slash in Hx. apply orb_false_elim in Hx. destruct Hx as [X1 X2]. rewrite X1, X2.
  apply N.eqb_neq in H63. apply N.eqb_neq in H35. rewrite H63, H35. cbn [orb andb negb].
  rewrite He. reflexivity.
Qed.

Lemma run_path h : forall rest pre l buf fuel,
  Forall (fun x => is_win_slash x = false -> pchar x) rest -> (length rest < fuel)%nat ->
  run idna fuel (pre ++ rest) None None (pm h l buf (Z.of_nat (length pre))) =
  POk (file_url_h h (path_run l buf rest)).
Proof.
  induction rest as [|x r IH]; intros pre l buf fuel Hall Hf; (destruct fuel as [|fuel]; [cbn in Hf; lia|]).
  - cbn [run path_run]. rewrite (step_path_end _ h l buf _ false) by (rewrite char_at_app; reflexivity).
    cbn [pm m_pointer m_url]. rewrite app_nil_r.
    destruct (Z.leb_spec (Z.of_nat (length pre)) (Z.of_nat (length pre))); [reflexivity|lia].
  - inversion Hall as [|? ? Hx Hr]; subst. cbn [run path_run].
    assert (Hlen : (Z.of_nat (length (pre ++ x :: r)) <=? Z.of_nat (length pre))%Z = false).
    { rewrite app_length. cbn [length]. lia. }
    assert (Hpre : pre ++ x :: r = (pre ++ [x]) ++ r) by (rewrite <- app_assoc; reflexivity).
    assert (Hptr : (Z.of_nat (length pre) + 1)%Z = Z.of_nat (length (pre ++ [x]))).
    { rewrite app_length. cbn [length]. lia. }
    destruct (is_win_slash x) eqn:Ex.
    + rewrite (step_path_end _ h l buf _ true) by (rewrite char_at_app; exists x; auto).
      cbn [pm m_pointer]. rewrite Hlen. unfold inc_pointer. cbn [pm m_state m_url m_buffer m_at m_brackets m_pwtoken m_pointer with_pointer]. fold (pm h (path_seg_step l buf true) [] (Z.of_nat (length pre) + 1)%Z). fold (pm h l (buf ++ [x]) (Z.of_nat (length pre) + 1)%Z).
      rewrite Hptr, Hpre. apply IH; [assumption|cbn [length] in Hf; lia].
    + rewrite (step_path_char _ h l buf _ x) by (try rewrite char_at_app; auto).
      cbn [pm m_pointer]. rewrite Hlen. unfold inc_pointer. cbn [pm m_state m_url m_buffer m_at m_brackets m_pwtoken m_pointer with_pointer]. fold (pm h (path_seg_step l buf true) [] (Z.of_nat (length pre) + 1)%Z). fold (pm h l (buf ++ [x]) (Z.of_nat (length pre) + 1)%Z).
      rewrite Hptr, Hpre. apply IH; [assumption|cbn [length] in Hf; lia].
Qed.

(* from the scheme start state to the path state on "file:///" *)
Lemma run_S fuel input m m' :
  step idna input None None m = Cont m' -> (m_pointer m' < Z.of_nat (length input))%Z ->
  run idna (S fuel) input None None m = run idna fuel input None None (inc_pointer m').
Proof.
  intros Hs Hp. cbn [run]. rewrite Hs. destruct (Z.leb_spec (Z.of_nat (length input)) (m_pointer m')); [lia|reflexivity].
Qed.

Definition file3 : str := [102;105;108;101;58;47;47;47].       (* "file:///" *)

Lemma run_file3 fuel rest :
  run idna (9 + fuel) (file3 ++ rest) None None (mk_m SchemeStart empty_url [] false false false 0%Z) =
  run idna fuel (file3 ++ rest) None None (pm HEmpty [] [] 8%Z).
Proof.
  unfold file3. cbn [app Nat.add].
  do 9 (erewrite run_S; [|lazy; reflexivity|cbn [m_pointer length]; lia]).
  reflexivity.
Qed.
End Sim.


(* ====================================================================================== *)

(* ---------- trimming does nothing on the generated text ---------- *)
Lemma drop_while_head_false p (l : str) : match l with [] => True | x :: _ => p x = false end -> drop_while p l = l.
Proof. destruct l as [|x l]; [reflexivity|]. cbn [drop_while]. intros ->. reflexivity. Qed.

Lemma no_trim input : Forall (fun c => 32 < c) input -> remove_tab_newline (strip_c0_space input) = input.
Proof.
  intro H. unfold strip_c0_space.
  rewrite (drop_while_head_false is_c0_or_space input).
  2:{ destruct H as [|x l Hx _]; [exact I|]. unfold is_c0_or_space. lia. }
  rewrite (drop_while_head_false is_c0_or_space (rev input)).
  2:{ apply Forall_rev in H. destruct H as [|x l Hx _]; [exact I|]. unfold is_c0_or_space. lia. }
  rewrite rev_involutive. unfold remove_tab_newline.
  induction H as [|x l Hx _ IH]; [reflexivity|]. cbn [filter].
  replace (is_tab_or_newline x) with false by (unfold is_tab_or_newline; lia). cbn [negb]. rewrite IH. reflexivity.
Qed.

(* ---------- characters of the generated text ---------- *)
Lemma path_encode_false_facts x : path_encode x = false -> 32 < x /\ x < 127 /\ x <> 63 /\ x <> 35.
Proof.
  unfold path_encode, query_encode, c0_control_encode, is_c0_control, in_list. cbn [existsb]. lia.
Qed.

Lemma path_char_pchar x : path_encode x = false -> pchar x.
Proof.
  intro H. destruct (path_encode_false_facts x H) as (_ & _ & A & B).
  repeat split; try assumption. unfold utf8_percent_encode_cp. rewrite H. reflexivity.
Qed.

Lemma upper_hex_path x : is_ascii_upper_hex x = true -> path_encode x = false.
Proof.
  intro H. apply upper_hex_range in H.
  unfold path_encode, query_encode, c0_control_encode, is_c0_control, in_list. cbn [existsb]. lia.
Qed.

Lemma out_char_path in_set x : (forall y, in_set y = false -> path_encode y = false) ->
  out_char in_set x -> path_encode x = false.
Proof.
  intros Hsub [[_ H]|[->|H]]; [apply Hsub, H|reflexivity|apply upper_hex_path, H].
Qed.

Lemma posix_sub y : posix_path_encode y = false -> path_encode y = false.
Proof. unfold posix_path_encode, raw_path_encode. intro H. destruct (path_encode y); [discriminate|reflexivity]. Qed.
Lemma raw_sub y : raw_path_encode y = false -> path_encode y = false.
Proof. unfold raw_path_encode. intro H. destruct (path_encode y); [discriminate|reflexivity]. Qed.

Lemma posix_text_chars s : scalars_ok s ->
  Forall (fun x => path_encode x = false) (utf8_percent_encode posix_path_encode s).
Proof.
  intro Hs. pose proof (encode_alphabet _ posix_wide s Hs) as H.
  eapply Forall_impl; [|exact H]. intros x Hx. exact (out_char_path _ x posix_sub Hx).
Qed.

(* ---------- the parse of "file://" ++ "/" ++ text ---------- *)
Lemma parse_file3 idna t : Forall (fun x => path_encode x = false) t ->
  basic_parse idna (file_prefix ++ 47 :: t) None = POk (file_url (path_run [] [] t)).
Proof.
  intro Ht. unfold basic_parse. change (file_prefix ++ 47 :: t) with (file3 ++ t).
  rewrite no_trim.
  2:{ apply Forall_app. split; [unfold file3; repeat constructor|].
      eapply Forall_impl; [|exact Ht]. intros x Hx. apply path_encode_false_facts in Hx. lia. }
  unfold parse_fuel.
  replace (4 * length (file3 ++ t) + 16)%nat with (9 + (4 * length (file3 ++ t) + 7))%nat by lia.
  rewrite run_file3. change 8%Z with (Z.of_nat (length file3)).
  apply (run_path idna HEmpty).
  - eapply Forall_impl; [|exact Ht]. intros x Hx _. apply path_char_pchar, Hx.
  - rewrite app_length. lia.
Qed.

(* ---------- the path list when no segment is a dot segment or a drive letter ---------- *)
Definition split_cont (buf rest : str) : list str :=
  match split_by is_win_slash rest with q :: qs => (buf ++ q) :: qs | [] => [buf] end.

Definition plain_seg (seg : str) : Prop :=
  is_single_dot seg = false /\ is_double_dot seg = false /\ is_windows_drive_letter seg = false.

Lemma path_seg_step_plain l buf slash : plain_seg buf -> path_seg_step l buf slash = l ++ [buf].
Proof.
  intros (A & B & C). unfold path_seg_step. rewrite A, B, C. cbn [andb negb]. rewrite andb_false_r. reflexivity.
Qed.

Lemma split_cont_nil rest : split_cont [] rest = split_by is_win_slash rest.
Proof.
  unfold split_cont. destruct (split_by is_win_slash rest) eqn:E; [|reflexivity].
  exfalso. exact (split_by_nonempty _ _ E).
Qed.

Lemma path_run_plain : forall rest l buf,
  (forall seg, In seg (split_cont buf rest) -> plain_seg seg) ->
  path_run l buf rest = l ++ split_cont buf rest.
Proof.
  induction rest as [|x r IH]; intros l buf H.
  - cbn [path_run]. unfold split_cont in *. cbn [split_by] in *. rewrite app_nil_r in *.
    apply path_seg_step_plain. apply H. left. reflexivity.
  - cbn [path_run]. unfold split_cont in H |- *. cbn [split_by] in H |- *. destruct (is_win_slash x).
    + rewrite app_nil_r in *. rewrite path_seg_step_plain by (apply H; left; reflexivity).
      rewrite IH; rewrite split_cont_nil.
      * rewrite <- app_assoc. reflexivity.
      * intros seg Hseg. apply H. right. exact Hseg.
    + destruct (split_by is_win_slash r) as [|q qs] eqn:E; [exfalso; exact (split_by_nonempty _ _ E)|].
      rewrite IH; unfold split_cont; rewrite E; rewrite <- app_assoc; [reflexivity|exact H].
Qed.

Lemma split_by_in p s : forall seg x, In seg (split_by p s) -> In x seg -> In x s.
Proof.
  induction s as [|y s IH]; intros seg x Hseg Hx; cbn [split_by] in Hseg.
  - destruct Hseg as [<-|[]]. destruct Hx.
  - destruct (p y).
    + destruct Hseg as [<-|Hseg]; [destruct Hx|]. right. exact (IH seg x Hseg Hx).
    + destruct (split_by p s) as [|q qs] eqn:E.
      * destruct Hseg as [<-|[]]. destruct Hx as [<-|[]]. left. reflexivity.
      * destruct Hseg as [<-|Hseg].
        -- destruct Hx as [<-|Hx]; [left; reflexivity|right]. apply (IH q x); [left; reflexivity|exact Hx].
        -- right. apply (IH seg x); [right; exact Hseg|exact Hx].
Qed.

Lemma join_split_posix t : flat_map (fun seg => 47 :: seg) (split_by is_posix_slash t) = 47 :: t.
Proof.
  induction t as [|x t IH]; [reflexivity|]. cbn [split_by]. unfold is_posix_slash at 1.
  destruct (N.eqb_spec x 47) as [E|N47].
  - subst x. cbn [flat_map app]. rewrite IH. reflexivity.
  - destruct (split_by is_posix_slash t) as [|q qs] eqn:E; [exfalso; exact (split_by_nonempty _ _ E)|].
    cbn [flat_map app] in IH |- *. injection IH as IH. rewrite IH. reflexivity.
Qed.


(* ====================================================================================== *)

Lemma utf8_encode_ascii_all l : Forall (fun c => c < 128) l -> utf8_encode l = l.
Proof.
  induction 1 as [|c l Hc _ IH]; [reflexivity|].
  rewrite utf8_encode_cons, (utf8_encode_cp_ascii c Hc), IH. reflexivity.
Qed.

Lemma percent_decode_encode in_set s : (forall c, 128 <= c -> in_set c = true) -> in_set 37 = true ->
  scalars_ok s -> Spec.Percent.percent_decode (utf8_percent_encode in_set s) = utf8_encode s.
Proof.
  intros wide H37 Hs.
  rewrite <- (P_utf8_percent_encode (fun c => negb (in_set c)) s Hs) by (rewrite H37; reflexivity).
  f_equal. unfold utf8_percent_encode. apply flat_map_ext_all. intro x.
  unfold utf8_percent_encode_cp, enc_set. rewrite negb_involutive.
  destruct (N.leb_spec 128 x) as [L|L]; [rewrite (wide x L)|]; reflexivity.
Qed.

Lemma utf8_encode_nul s : scalars_ok s -> In 0 (utf8_encode s) -> In 0 s.
Proof.
  intros Hs H. unfold utf8_encode in H. apply in_flat_map in H. destruct H as (c & Hc & H0).
  unfold scalars_ok in Hs. rewrite Forall_forall in Hs. specialize (Hs c Hc).
  destruct (N.ltb_spec c 128) as [L|L].
  - rewrite (utf8_encode_cp_ascii c L) in H0. destruct H0 as [<-|[]]. exact Hc.
  - exfalso. destruct (utf8_encode_cp_nonascii c Hs L) as (h & t & E & Hh & _ & Ht). rewrite E in H0.
    destruct H0 as [->|H0]; [lia|]. rewrite Forall_forall in Ht. specialize (Ht 0 H0). discriminate.
Qed.

Lemma existsb_false_forall {A} (f : A -> bool) l : existsb f l = false -> forall x, In x l -> f x = false.
Proof.
  intros H x Hx. destruct (f x) eqn:E; [|reflexivity].
  assert (existsb f l = true) by (apply existsb_exists; exists x; auto). congruence.
Qed.

(* what "not rejected" means for a POSIX path *)
Lemma posix_accept s : reject_conditions true s = false ->
  exists s', s = 47 :: s' /\ Spec.FilePath.has_dot_dot_segment is_posix_slash s = false /\ has_nul s = false.
Proof.
  unfold reject_conditions. destruct s as [|c0 s']; [discriminate|]. intro H.
  apply orb_false_elim in H. destruct H as [H H3]. apply orb_false_elim in H. destruct H as [H1 H2].
  destruct (N.eqb_spec c0 47) as [->|]; [|discriminate]. exists s'. auto.
Qed.

Lemma posix_text_head s' : utf8_percent_encode posix_path_encode (47 :: s') =
  47 :: utf8_percent_encode posix_path_encode s'.
Proof. reflexivity. Qed.

(* every accepted POSIX path parses, to a file URL with empty host, no credentials, port, query, fragment *)
Lemma from_posix_value idna e units : let s := decode_units e units in
  scalars_ok s -> reject_conditions true s = false ->
  url_from_file_path idna true e units =
  Some (file_url (path_run [] [] (tl (utf8_percent_encode posix_path_encode s)))).
Proof.
  intros s Hs Hr. rewrite from_unfold. cbv zeta. fold s. rewrite Hr.
  destruct (posix_accept s Hr) as (s' & E & _). unfold file_url_text. rewrite E, posix_text_head. cbn [tl].
  rewrite parse_file3; [reflexivity|].
  rewrite E in Hs. apply scalars_ok_cons in Hs. apply posix_text_chars, Hs.
Qed.

Lemma from_posix_total idna e units : scalars_ok (decode_units e units) ->
  (url_from_file_path idna true e units = None <-> reject_conditions true (decode_units e units) = true).
Proof.
  intro Hs. destruct (reject_conditions true (decode_units e units)) eqn:Hr.
  - rewrite from_unfold. cbv zeta. rewrite Hr. split; reflexivity.
  - rewrite (from_posix_value idna e units Hs Hr). split; discriminate.
Qed.

Lemma from_posix_shape idna e units u : scalars_ok (decode_units e units) ->
  url_from_file_path idna true e units = Some u ->
  exists l, u = mkurl s_file [] [] (Some HEmpty) None (PList l) None None.
Proof.
  intros Hs H. destruct (reject_conditions true (decode_units e units)) eqn:Hr.
  - rewrite from_unfold in H. cbv zeta in H. rewrite Hr in H. discriminate.
  - rewrite (from_posix_value idna e units Hs Hr) in H. injection H as <-. eexists. reflexivity.
Qed.

(* ---------- round trip ---------- *)
Lemma posix_roundtrip_gen idna e units s u :
  decode_units e units = s -> scalars_ok s ->
  (forall seg, In seg (split_by is_posix_slash s) -> seg <> [46]) ->
  url_from_file_path idna true e units = Some u ->
  path_from_file_url true u = Some (utf8_encode s).
Proof.
  intros Hd Hs Hnodot H.
  destruct (reject_conditions true s) eqn:Hr.
  { rewrite from_unfold in H. cbv zeta in H. rewrite Hd, Hr in H. discriminate. }
  pose proof (from_posix_value idna e units) as Hv. cbv zeta in Hv. rewrite Hd in Hv.
  rewrite (Hv Hs Hr) in H. injection H as <-. clear Hv.
  destruct (posix_accept s Hr) as (s' & E & Hdd & Hnul).
  set (t := utf8_percent_encode posix_path_encode s).
  assert (Et : t = 47 :: utf8_percent_encode posix_path_encode s') by (unfold t; rewrite E; reflexivity).
  destruct (no_delimiter_posix s Hs) as (_ & _ & N58 & N92 & N124 & _). fold t in N58, N92, N124.
  (* no segment of the text is a dot segment or a drive letter *)
  assert (Hplain : forall seg, In seg (split_by is_win_slash t) -> plain_seg seg).
  { intros seg Hseg.
    assert (Hsrc : forall sg, In sg (split_by is_posix_slash s) -> sg <> [46] /\ sg <> [46; 46]).
    { intros sg Hsg. split; [apply Hnodot, Hsg|]. intro X. subst sg.
      unfold Spec.FilePath.has_dot_dot_segment in Hdd.
      pose proof (existsb_false_forall _ _ Hdd [46;46] Hsg) as Y. discriminate. }
    destruct (no_dot_segment_created_posix s Hs Hsrc seg Hseg) as [A B].
    split; [exact A|]. split; [exact B|].
    destruct seg as [|a [|b [|c r]]]; try reflexivity. cbn [is_windows_drive_letter].
    assert (Hb : In b t) by (apply (split_by_in is_win_slash t [a; b] b Hseg); right; left; reflexivity).
    destruct (N.eqb_spec b 58) as [X|_]; [subst b; contradiction|].
    destruct (N.eqb_spec b 124) as [X|_]; [subst b; contradiction|]. apply andb_false_r. }
  cbn [tl]. fold t. rewrite Et. cbn [tl]. set (t' := utf8_percent_encode posix_path_encode s') in *.
  rewrite path_run_plain.
  2:{ intros seg Hseg. rewrite split_cont_nil in Hseg. apply Hplain. rewrite Et. cbn [split_by].
      change (is_win_slash 47) with true. right. exact Hseg. }
  rewrite split_cont_nil. cbn [app].
  rewrite (split_by_ext_in is_win_slash is_posix_slash t').
  2:{ intros x Hx. unfold is_win_slash, is_posix_slash. destruct (N.eqb_spec x 92) as [X|_]; [|reflexivity].
      subst x. exfalso. apply N92. rewrite Et. right. exact Hx. }
  unfold path_from_file_url. change (is_file (file_url _)) with true.
  change (get_hostname (file_url _)) with (@nil N). cbn [negb str_eqb].
  assert (Edec : decode_pathname (file_url (split_by is_posix_slash t')) = utf8_encode s).
  { unfold decode_pathname, get_pathname, path_serialize. cbn [path file_url file_url_h].
    rewrite join_split_posix, <- Et.
    unfold percent_decode_to_scalars, string_percent_decode.
    rewrite (utf8_encode_ascii_all t).
    2:{ pose proof (posix_text_chars s Hs) as Hc. eapply Forall_impl; [|exact Hc].
        intros x Hx. apply path_encode_false_facts in Hx. lia. }
    unfold t. rewrite (percent_decode_encode _ s posix_wide eq_refl Hs), (utf8_decode_encode s Hs). reflexivity. }
  rewrite Edec.
  destruct (existsb (fun c => c =? 0) (utf8_encode s)) eqn:E0; [|reflexivity].
  exfalso. apply existsb_exists in E0. destruct E0 as (x & Hx & Ex). apply N.eqb_eq in Ex. subst x.
  apply (utf8_encode_nul s Hs) in Hx. revert Hx. apply existsb_eq0. exact Hnul.
Qed.

Lemma posix_roundtrip idna s u : scalars_ok s ->
  (forall seg, In seg (split_by is_posix_slash s) -> seg <> [46]) ->
  url_from_file_path idna true EU8 (utf8_encode s) = Some u ->
  path_from_file_url true u = Some (utf8_encode s).
Proof.
  intros Hs Hn H. apply (posix_roundtrip_gen idna EU8 (utf8_encode s) s u); try assumption.
  cbn [decode_units]. apply utf8_decode_encode, Hs.
Qed.


(* ====================================================================================== *)

(* ---------- Windows: what remains after the prefix is a suffix of the path ---------- *)
Lemma win_prefix_skipn s : exists k, fst (win_prefix s) = skipn k s.
Proof.
  unfold win_prefix.
  destruct s as [|a [|b r2]]; try (exists 0%nat; reflexivity).
  destruct (is_win_slash a && is_win_slash b); [|exists 0%nat; reflexivity].
  destruct r2 as [|c [|d r4]]; try (exists 2%nat; reflexivity).
  destruct (((c =? 63) || (c =? 46)) && is_win_slash d); [|exists 2%nat; reflexivity].
  destruct r4 as [|u [|n [|cc [|sl r8]]]]; try (exists 4%nat; reflexivity).
  destruct (lower_is u 117 && lower_is n 110 && lower_is cc 99 && is_win_slash sl);
    [exists 8%nat|exists 4%nat]; reflexivity.
Qed.

Lemma win_prefix_scalars s : scalars_ok s -> scalars_ok (fst (win_prefix s)).
Proof.
  intro Hs. destruct (win_prefix_skipn s) as [k ->]. unfold scalars_ok in *.
  rewrite <- (firstn_skipn k s) in Hs. apply Forall_app in Hs. exact (proj2 Hs).
Qed.

Lemma raw_text_chars s : scalars_ok s ->
  Forall (fun x => path_encode x = false) (utf8_percent_encode raw_path_encode s).
Proof.
  intro Hs. pose proof (encode_alphabet _ raw_wide s Hs) as H.
  eapply Forall_impl; [|exact H]. intros x Hx. exact (out_char_path _ x raw_sub Hx).
Qed.

Lemma win_accept s : reject_conditions false s = false ->
  exists tail, win_tail s = Some tail /\
    Spec.FilePath.has_dot_dot_segment is_win_slash tail = false /\ has_nul tail = false.
Proof.
  unfold reject_conditions. destruct s as [|c0 s']; [discriminate|].
  destruct (win_tail (c0 :: s')) as [tail|]; [|discriminate]. intro H.
  apply orb_false_elim in H. exists tail. split; [reflexivity|exact H].
Qed.

(* drive paths: "file:///" ++ text, empty host *)
Lemma from_windows_drive_value idna e units : let s := decode_units e units in
  scalars_ok s -> reject_conditions false s = false -> snd (win_prefix s) = false ->
  url_from_file_path idna false e units =
  Some (file_url (path_run [] [] (utf8_percent_encode raw_path_encode (fst (win_prefix s))))).
Proof.
  intros s Hs Hr Hu. rewrite from_unfold. cbv zeta. fold s. rewrite Hr. unfold file_url_text.
  pose proof (win_prefix_scalars s Hs) as Hrest.
  destruct (win_prefix s) as [rest is_unc]. cbn [fst snd] in *. subst is_unc. cbn [app].
  change (file_prefix ++ 47 :: ?t) with (file_prefix ++ 47 :: t).
  rewrite parse_file3; [reflexivity|]. apply raw_text_chars, Hrest.
Qed.

(* ---------- the file host state ---------- *)
Section SimHost.
Variable idna : list N -> option (list N).

Definition fhm (buf : str) (ptr : Z) : mstate := mk_m FileHost (file_url []) buf false false false ptr.
Definition hostchar (x : N) : Prop := x <> 47 /\ x <> 92 /\ x <> 63 /\ x <> 35.

Lemma step_fh_char input buf ptr x : char_at input ptr = Some x -> hostchar x ->
  step idna input None None (fhm buf ptr) = Cont (fhm (buf ++ [x]) ptr).
Proof.
  intros Hc (A & B & C & D). unfold step, fhm. cbn [m_state m_url m_buffer m_pointer is_some]. rewrite Hc.
  cbn [is_eof is_none is_c]. apply N.eqb_neq in A, B, C, D. rewrite A, B, C, D. reflexivity.
Qed.

Lemma step_fh_end input buf ptr x : char_at input ptr = Some x -> is_win_slash x = true ->
  buf <> [] -> is_windows_drive_letter buf = false ->
  step idna input None None (fhm buf ptr) =
  match host_parse idna buf false with
  | None => Fail
  | Some h => Cont (mk_m PathStart (file_url_h (if host_eq_localhost h then HEmpty else h) []) []
                         false false false (ptr - 1)%Z)
  end.
Proof.
  intros Hc Hx Hb Hd. unfold step, fhm. cbn [m_state m_url m_buffer m_pointer is_some]. rewrite Hc.
  assert (Hcond : (is_eof (Some x) || is_c (Some x) 47 || is_c (Some x) 92 || is_c (Some x) 63 || is_c (Some x) 35) = true).
  { unfold is_win_slash in Hx. cbn [is_eof is_none is_c orb].
    destruct (N.eqb_spec x 47) as [E|_]; [reflexivity|]. destruct (N.eqb_spec x 92) as [E|_]; [reflexivity|discriminate]. }
  rewrite Hcond. unfold dec_pointer. cbn [m_buffer m_url with_pointer m_state m_at m_brackets m_pwtoken m_pointer].
  rewrite Hd. cbn [negb andb].
  destruct buf as [|b0 buf]; [contradiction|]. cbn [str_eqb].
  change (is_special (file_url [])) with true. cbn [negb].
  destruct (host_parse idna (b0 :: buf) false) as [h|]; reflexivity.
Qed.

Lemma step_pathstart_sep input h ptr x : char_at input ptr = Some x -> is_win_slash x = true ->
  step idna input None None (mk_m PathStart (file_url_h h []) [] false false false ptr) = Cont (pm h [] [] ptr).
Proof.
  intros Hc Hx. unfold step. cbn [m_state m_url m_buffer m_pointer is_some]. rewrite Hc.
  change (is_special (file_url_h h [])) with true. cbn [is_c]. unfold is_win_slash in Hx.
  destruct (N.eqb_spec x 47) as [E|_]; [reflexivity|]. destruct (N.eqb_spec x 92) as [E|_]; [reflexivity|discriminate].
Qed.

Lemma inc_fhm buf ptr : inc_pointer (fhm buf ptr) = fhm buf (ptr + 1)%Z.
Proof. reflexivity. Qed.

Lemma inc_mk st u b a br pw p : inc_pointer (mk_m st u b a br pw p) = mk_m st u b a br pw (p + 1)%Z.
Proof. reflexivity. Qed.

Lemma run_fh : forall comp pre rest buf fuel, Forall hostchar comp ->
  run idna (length comp + fuel) (pre ++ comp ++ rest) None None (fhm buf (Z.of_nat (length pre))) =
  run idna fuel (pre ++ comp ++ rest) None None (fhm (buf ++ comp) (Z.of_nat (length (pre ++ comp)))).
Proof.
  induction comp as [|x comp IH]; intros pre rest buf fuel Hall.
  - cbn [length Nat.add]. rewrite !app_nil_r. reflexivity.
  - inversion Hall as [|? ? Hx Hr]; subst. cbn [length Nat.add].
    rewrite (run_S idna _ _ _ (fhm (buf ++ [x]) (Z.of_nat (length pre)))).
    + rewrite inc_fhm.
      replace (Z.of_nat (length pre) + 1)%Z with (Z.of_nat (length (pre ++ [x]))) by (rewrite app_length; cbn [length]; lia).
      replace (pre ++ (x :: comp) ++ rest) with ((pre ++ [x]) ++ comp ++ rest) by (rewrite <- app_assoc; reflexivity).
      rewrite IH by assumption. rewrite <- !app_assoc. reflexivity.
    + apply step_fh_char; [|assumption]. rewrite char_at_app. reflexivity.
    + unfold fhm. cbn [m_pointer]. rewrite !app_length. cbn [length]. lia.
Qed.

Definition file2 : str := [102;105;108;101;58;47;47].       (* "file://" *)

Lemma run_file2 fuel x rest :
  run idna (7 + fuel) (file2 ++ x :: rest) None None (mk_m SchemeStart empty_url [] false false false 0%Z) =
  run idna fuel (file2 ++ x :: rest) None None (fhm [] 7%Z).
Proof.
  unfold file2. cbn [app Nat.add].
  do 7 (erewrite run_S; [|lazy; reflexivity|cbn [m_pointer length]; lia]).
  reflexivity.
Qed.

Lemma parse_unc comp sep r :
  comp <> [] -> Forall (fun x => path_encode x = false /\ is_win_slash x = false) comp ->
  is_windows_drive_letter comp = false -> is_win_slash sep = true ->
  Forall (fun x => path_encode x = false) r ->
  basic_parse idna (file_prefix ++ comp ++ sep :: r) None =
  match host_parse idna comp false with
  | None => PFail (file_url [])
  | Some h => POk (file_url_h (if host_eq_localhost h then HEmpty else h) (path_run [] [] r))
  end.
Proof.
  intros Hne Hcomp Hdrive Hsep Hr. unfold basic_parse. change file_prefix with file2.
  assert (Hsep' : sep = 47 \/ sep = 92).
  { unfold is_win_slash in Hsep. destruct (N.eqb_spec sep 92); [auto|]. destruct (N.eqb_spec sep 47); [auto|discriminate]. }
  rewrite no_trim.
  2:{ apply Forall_app. split; [unfold file2; repeat constructor|]. apply Forall_app. split.
      - eapply Forall_impl; [|exact Hcomp]. intros x [Hx _]. apply path_encode_false_facts in Hx. lia.
      - constructor; [lia|]. eapply Forall_impl; [|exact Hr]. intros x Hx. apply path_encode_false_facts in Hx. lia. }
  unfold parse_fuel. set (input := file2 ++ comp ++ sep :: r).
  assert (Hlen : length input = (7 + length comp + 1 + length r)%nat).
  { unfold input, file2. rewrite !app_length. cbn [length]. lia. }
  replace (4 * length input + 16)%nat with (7 + (length comp + (2 + (4 * length input + 7 - length comp))))%nat by lia.
  set (F := (4 * length input + 7 - length comp)%nat).
  assert (HF : (length r < F)%nat) by (unfold F; lia). clearbody F.
  destruct comp as [|c0 comp']; [contradiction|].
  change input with (file2 ++ c0 :: (comp' ++ sep :: r)) at 1. rewrite run_file2.
  change (file2 ++ c0 :: (comp' ++ sep :: r)) with (file2 ++ (c0 :: comp') ++ sep :: r).
  set (comp := c0 :: comp') in *.
  change 7%Z with (Z.of_nat (length file2)).
  rewrite run_fh.
  2:{ eapply Forall_impl; [|exact Hcomp]. intros x [Hx Hs]. apply path_encode_false_facts in Hx.
      unfold is_win_slash in Hs. unfold hostchar. lia. }
  change (file2 ++ comp ++ sep :: r) with input. cbn [app].
  assert (Einput : input = (file2 ++ comp) ++ sep :: r) by (unfold input; rewrite <- app_assoc; reflexivity).
  assert (Hlen2 : length (file2 ++ comp) = (7 + length comp)%nat) by (rewrite app_length; reflexivity).
  cbn [run Nat.add].
  rewrite (step_fh_end input comp _ sep); try assumption.
  2:{ rewrite Einput, char_at_app. reflexivity. }
  destruct (host_parse idna comp false) as [h|]; [|reflexivity].
  cbn [m_pointer].
  destruct (Z.leb_spec (Z.of_nat (length input)) (Z.of_nat (length (file2 ++ comp)) - 1)) as [L|L];
    [rewrite Hlen, Hlen2 in L; lia|].
  rewrite inc_mk.
  replace (Z.of_nat (length (file2 ++ comp)) - 1 + 1)%Z with (Z.of_nat (length (file2 ++ comp))) by lia.
  rewrite (step_pathstart_sep input _ _ sep); try assumption.
  2:{ rewrite Einput, char_at_app. reflexivity. }
  unfold pm at 1. cbn [m_pointer].
  destruct (Z.leb_spec (Z.of_nat (length input)) (Z.of_nat (length (file2 ++ comp)))) as [L2|L2];
    [rewrite Hlen, Hlen2 in L2; lia|].
  unfold pm. rewrite inc_mk.
  fold (pm (if host_eq_localhost h then HEmpty else h) [] [] (Z.of_nat (length (file2 ++ comp)) + 1)%Z).
  replace (Z.of_nat (length (file2 ++ comp)) + 1)%Z with (Z.of_nat (length ((file2 ++ comp) ++ [sep])))
    by (rewrite (app_length _ [sep]); cbn [length]; lia).
  replace input with (((file2 ++ comp) ++ [sep]) ++ r) by (rewrite Einput, <- app_assoc; reflexivity).
  apply run_path.
  - eapply Forall_impl; [|exact Hr]. intros x Hx _. apply path_char_pchar, Hx.
  - lia.
Qed.
End SimHost.


(* ====================================================================================== *)

Lemma take_drop_while p (s : str) : s = take_while p s ++ drop_while p s.
Proof. induction s as [|x s IH]; [reflexivity|]. cbn [take_while drop_while]. destruct (p x); [cbn [app]; f_equal; exact IH|reflexivity]. Qed.
Lemma take_while_all p (s : str) : Forall (fun x => p x = true) (take_while p s).
Proof. induction s as [|x s IH]; [constructor|]. cbn [take_while]. destruct (p x) eqn:E; [constructor; assumption|constructor]. Qed.
Lemma drop_while_head p (s : str) : match drop_while p s with [] => True | x :: _ => p x = false end.
Proof. induction s as [|x s IH]; [exact I|]. cbn [drop_while]. destruct (p x) eqn:E; [exact IH|exact E]. Qed.

(* an accepted UNC text is "server" ++ separator :: ... *)
Lemma is_unc_path_split rest tail : is_unc_path rest = Some tail ->
  exists sep, is_win_slash sep = true /\
    rest = first_component rest ++ sep :: tl (drop_while not_win_slash rest).
Proof.
  intro H. pose proof (take_drop_while not_win_slash rest) as Hsplit.
  pose proof (drop_while_head not_win_slash rest) as Hhead.
  unfold is_unc_path in H. cbn [unc_components] in H.
  destruct rest as [|x rest]; [discriminate|].
  change (fun c : N => negb (is_win_slash c)) with not_win_slash in H.
  unfold first_component.
  destruct (drop_while not_win_slash (x :: rest)) as [|sep r] eqn:Ed.
  - exfalso. destruct (take_while not_win_slash (x :: rest)) as [|a comp]; [discriminate|].
    destruct (existsb (fun c => c =? 0) (a :: comp)); [discriminate|].
    match type of H with match (if ?b then _ else _) with _ => _ end = _ => destruct b end; discriminate.
  - exists sep. split; [|exact Hsplit]. unfold not_win_slash in Hhead. destruct (is_win_slash sep); [reflexivity|discriminate].
Qed.

Section EncMore.
Variable in_set : N -> bool.
Hypothesis wide : forall c, 128 <= c -> in_set c = true.
Let enc := utf8_percent_encode in_set.

Lemma enc_app a b : enc (a ++ b) = enc a ++ enc b.
Proof. apply flat_map_app. Qed.

Lemma encode_cp_len c : is_scalar c = true ->
  utf8_percent_encode_cp in_set c = [c] \/ (3 <= length (utf8_percent_encode_cp in_set c))%nat.
Proof.
  intro Hc. destruct (encode_cp_shape in_set wide c Hc) as [(_ & _ & Ee)|(_ & b0 & bs & Ee & _)]; rewrite Ee.
  - left. reflexivity.
  - right. cbn [flat_map]. rewrite app_length. unfold percent_encode_byte. cbn [length]. lia.
Qed.

Lemma enc_len2 seg a b : scalars_ok seg -> enc seg = [a; b] -> seg = [a; b].
Proof.
  intros Hs H. pose proof (f_equal (@length N) H) as HL. cbn [length] in HL.
  destruct seg as [|c1 seg]; [discriminate|].
  apply scalars_ok_cons in Hs. destruct Hs as [H1 Hs].
  change (enc (c1 :: seg)) with (utf8_percent_encode_cp in_set c1 ++ enc seg) in H, HL.
  rewrite app_length in HL.
  destruct (encode_cp_len c1 H1) as [E1|E1]; [|lia]. rewrite E1 in H, HL. cbn [length] in HL.
  destruct seg as [|c2 seg]; [discriminate|].
  apply scalars_ok_cons in Hs. destruct Hs as [H2 Hs].
  change (enc (c2 :: seg)) with (utf8_percent_encode_cp in_set c2 ++ enc seg) in H, HL.
  rewrite app_length in HL.
  destruct (encode_cp_len c2 H2) as [E2|E2]; [|lia]. rewrite E2 in H, HL. cbn [length] in HL.
  destruct seg as [|c3 seg]; [cbn in H; exact H|]. exfalso.
  apply scalars_ok_cons in Hs. destruct Hs as [H3 Hs].
  change (enc (c3 :: seg)) with (utf8_percent_encode_cp in_set c3 ++ enc seg) in HL.
  rewrite app_length in HL. destruct (encode_cp_len c3 H3) as [E3|E3]; [rewrite E3 in HL; cbn [length] in HL|]; lia.
Qed.

Variable p : N -> bool.
Hypothesis sep_37 : p 37 = false.
Hypothesis sep_hex : forall x, is_ascii_upper_hex x = true -> p x = false.

Lemma enc_nosep s : scalars_ok s -> Forall (fun x => p x = false) s -> Forall (fun x => p x = false) (enc s).
Proof.
  intros Hs Hp. induction Hs as [|c s Hc Hs IH]; [constructor|]. inversion Hp; subst.
  change (enc (c :: s)) with (utf8_percent_encode_cp in_set c ++ enc s). apply Forall_app. split; [|apply IH; assumption].
  apply (encode_cp_nosep in_set wide p sep_37 sep_hex); assumption.
Qed.

Lemma enc_nonempty s : scalars_ok s -> s <> [] -> enc s <> [].
Proof.
  intros Hs Hne E. destruct s as [|c s]; [contradiction|]. apply scalars_ok_cons in Hs.
  change (enc (c :: s)) with (utf8_percent_encode_cp in_set c ++ enc s) in E. apply app_eq_nil in E.
  exact (encode_cp_nonempty in_set wide c (proj1 Hs) (proj1 E)).
Qed.
End EncMore.

(* UNC paths: "file://" ++ server ++ separator ++ ...; the host is the parsed server name *)
Lemma from_windows_unc_value idna e units : let s := decode_units e units in
  scalars_ok s -> reject_conditions false s = false -> snd (win_prefix s) = true ->
  let rest := fst (win_prefix s) in
  url_from_file_path idna false e units =
  match host_parse idna (utf8_percent_encode raw_path_encode (first_component rest)) false with
  | None => None
  | Some h => Some (file_url_h (if host_eq_localhost h then HEmpty else h)
                      (path_run [] [] (utf8_percent_encode raw_path_encode (tl (drop_while not_win_slash rest)))))
  end.
Proof.
  intros s Hs Hr Hu rest. rewrite from_unfold. cbv zeta. fold s. rewrite Hr. unfold file_url_text.
  pose proof (win_prefix_scalars s Hs) as Hrest. fold rest in Hrest.
  destruct (win_accept s Hr) as (tail & Ht & _). unfold win_tail in Ht.
  unfold rest in *. clear rest. destruct (win_prefix s) as [rest is_unc]. cbn [fst snd] in *. subst is_unc.
  cbn [app].
  destruct (is_unc_path_split rest tail Ht) as (sep & Hsep & Esplit).
  destruct (is_unc_path_first rest tail Ht) as (Hne & _ & _ & Hnd).
  set (comp := first_component rest) in *. set (r := tl (drop_while not_win_slash rest)) in *.
  assert (Hsc : scalars_ok comp /\ scalars_ok r).
  { unfold scalars_ok in *. rewrite Esplit in Hrest. apply Forall_app in Hrest. destruct Hrest as [A B].
    split; [exact A|]. inversion B; assumption. }
  destruct Hsc as [Hsc Hsr].
  assert (Eenc : utf8_percent_encode raw_path_encode rest =
                 utf8_percent_encode raw_path_encode comp ++ sep :: utf8_percent_encode raw_path_encode r).
  { rewrite Esplit at 1. rewrite enc_app. f_equal.
    change (utf8_percent_encode raw_path_encode (sep :: r)) with
      (utf8_percent_encode_cp raw_path_encode sep ++ utf8_percent_encode raw_path_encode r).
    unfold is_win_slash in Hsep. destruct (N.eqb_spec sep 92) as [E|_]; [subst sep; reflexivity|].
    destruct (N.eqb_spec sep 47) as [E|_]; [subst sep; reflexivity|discriminate]. }
  rewrite Eenc.
  rewrite (parse_unc idna).
  - destruct (host_parse idna _ false); reflexivity.
  - apply (enc_nonempty _ raw_wide); assumption.
  - apply Forall_forall. intros x Hx. split.
    + pose proof (raw_text_chars comp Hsc) as Hc. rewrite Forall_forall in Hc. apply Hc, Hx.
    + assert (Hns : Forall (fun x => is_win_slash x = false) comp).
      { pose proof (take_while_all not_win_slash rest) as Ha. eapply Forall_impl; [|exact Ha].
        intros y Hy. unfold not_win_slash in Hy. destruct (is_win_slash y); [discriminate|reflexivity]. }
      pose proof (enc_nosep _ raw_wide is_win_slash eq_refl win_slash_hex comp Hsc Hns) as Hc.
      rewrite Forall_forall in Hc. apply Hc, Hx.
  - destruct (utf8_percent_encode raw_path_encode comp) as [|a [|b [|c l]]] eqn:Ec; try reflexivity.
    apply (enc_len2 _ raw_wide) in Ec; [|assumption]. exact (Hnd a b Ec).
  - exact Hsep.
  - apply raw_text_chars, Hsr.
Qed.

(* the shape of every successful Windows conversion *)
Lemma from_windows_shape idna e units u : scalars_ok (decode_units e units) ->
  url_from_file_path idna false e units = Some u ->
  exists h l, u = mkurl s_file [] [] (Some h) None (PList l) None None /\
    let '(rest, is_unc) := win_prefix (decode_units e units) in
    if is_unc then
      exists h0, host_parse idna (utf8_percent_encode raw_path_encode (first_component rest)) false = Some h0 /\
                 h = if host_eq_localhost h0 then HEmpty else h0
    else h = HEmpty.
Proof.
  intros Hs H. destruct (reject_conditions false (decode_units e units)) eqn:Hr.
  { rewrite from_unfold in H. cbv zeta in H. rewrite Hr in H. discriminate. }
  destruct (snd (win_prefix (decode_units e units))) eqn:Hu.
  - pose proof (from_windows_unc_value idna e units Hs Hr Hu) as Hv. cbv zeta in Hv. rewrite Hv in H.
    destruct (win_prefix (decode_units e units)) as [rest is_unc]. cbn [fst snd] in *. subst is_unc.
    destruct (host_parse idna _ false) as [h0|] eqn:Eh; [|discriminate]. injection H as <-.
    eexists _, _. split; [reflexivity|]. exists h0. split; reflexivity.
  - pose proof (from_windows_drive_value idna e units Hs Hr Hu) as Hv. cbv zeta in Hv. rewrite Hv in H.
    destruct (win_prefix (decode_units e units)) as [rest is_unc]. cbn [fst snd] in *. subst is_unc.
    injection H as <-. eexists _, _. split; reflexivity.
Qed.

(* POSIX: no segment of the generated text is a Windows drive letter (':' and '|' are encoded) *)
Lemma no_drive_letter_posix s : scalars_ok s ->
  forall seg, In seg (split_by is_win_slash (utf8_percent_encode posix_path_encode s)) ->
  is_windows_drive_letter seg = false.
Proof.
  intros Hs seg Hseg. destruct (no_delimiter_posix s Hs) as (_ & _ & N58 & _ & N124 & _).
  destruct seg as [|a [|b [|c r]]]; try reflexivity. cbn [is_windows_drive_letter].
  assert (Hb : In b (utf8_percent_encode posix_path_encode s))
    by (apply (split_by_in is_win_slash _ [a; b] b Hseg); right; left; reflexivity).
  destruct (N.eqb_spec b 58) as [X|_]; [subst b; contradiction|].
  destruct (N.eqb_spec b 124) as [X|_]; [subst b; contradiction|]. apply andb_false_r.
Qed.

(* the hypotheses of the statements above cannot be dropped *)
Lemma dotdot_hyp_needed :
  Impl.FilePath.has_dot_dot_segment (fun c => c =? 46) [46; 46] = true /\
  Spec.FilePath.has_dot_dot_segment (fun c => c =? 46) [46; 46] = false.
Proof. split; reflexivity. Qed.

Lemma to_shape_windows_host_hyp_needed :
  path_from_file_url false (mkurl s_file [] [] (Some (HDomain [97; 47; 98])) None (PList [[99]]) None None)
  = Some [92; 92; 97; 47; 98; 92; 99].
Proof. vm_compute. reflexivity. Qed.

Lemma to_shape_posix_path_hyp_needed :
  path_from_file_url true (mkurl s_file [] [] (Some HEmpty) None (PList []) None None) = Some [].
Proof. vm_compute. reflexivity. Qed.

Lemma no_delimiter_scalars_needed :
  utf8_percent_encode posix_path_encode [92274688] = [37; 92; 48; 37; 56; 48; 37; 56; 48; 37; 56; 48].
Proof. vm_compute. reflexivity. Qed.
