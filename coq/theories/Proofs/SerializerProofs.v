(* C03 / C05 — the in-place edit arithmetic of url_serializer / url_setter (Impl/Serializer.v)
   refines edits of the list of 11 pieces.

   Abstract state: the 11 pieces [ps] (what each part contributes to the serialization, separator
   included) and the number [n] of parts whose offset has been fixed (the offsets of the parts
   after them are 0, the real encoding).  Concrete state: the string and the 11 offsets,
   [conc ps n].  The theorems say that replace_part, and the operation sequences the setters
   perform, commute with the abstraction: they turn [conc ps n] into [conc ps' n'] for the piece
   list the Standard's setter asks for - the string is spliced at the right place, EVERY one of
   the 11 offsets is re-based correctly, no size_t subtraction wraps. *)
From Upa Require Import Base.Prelude Spec.Ip Spec.Url Impl.Repr Impl.Serializer.
From Upa Require Import Proofs.ReprProofs.
From Upa Require Impl.TraceProto.
From Coq Require Import ZifyBool ZifyN ZifyNat.
Local Open Scope N_scope.

(* ---------------------------------------------------------------------------------- *)
(* concrete representation of a piece list                                            *)
(* ---------------------------------------------------------------------------------- *)

Definition ends_of (ps : list str) (n : nat) : list N :=
  firstn n (scan_ends 0 ps) ++ repeat 0 (length ps - n).
Definition conc (ps : list str) (n : nat) (f c : N) : repr :=
  mk_repr (concat ps) (ends_of ps n) f c.

Lemma nth_firstn_lt {A} (l : list A) d : forall n k, (k < n)%nat -> nth k (firstn n l) d = nth k l d.
Proof.
  induction l as [|x l IH]; intros n k H.
  - destruct n; destruct k; reflexivity.
  - destruct n as [|n]; [lia|]. destruct k as [|k]; [reflexivity|]. cbn [firstn nth]. apply IH. lia.
Qed.

Lemma nth_skipn_add {A} (l : list A) d : forall n k, nth k (skipn n l) d = nth (n + k) l d.
Proof.
  induction l as [|x l IH]; intros n k.
  - rewrite skipn_nil. destruct k; destruct (n + _)%nat; reflexivity.
  - destruct n as [|n]; [reflexivity|]. cbn [skipn Nat.add nth]. apply IH.
Qed.

Lemma ends_of_length ps n : (n <= length ps)%nat -> length (ends_of ps n) = length ps.
Proof.
  intro H. unfold ends_of. rewrite app_length, firstn_length, scan_ends_length, repeat_length. lia.
Qed.

Lemma nth_repeat0 k m : nth k (repeat 0 m) 0 = 0.
Proof. revert k; induction m as [|m IH]; intros [|k]; cbn; auto. Qed.

Lemma nth_ends_of ps n k : (n <= length ps)%nat ->
  nth k (ends_of ps n) 0 = if (k <? n)%nat then pre (S k) ps else 0.
Proof.
  intro H. unfold ends_of.
  assert (Hl : length (firstn n (scan_ends 0 ps)) = n)
    by (rewrite firstn_length, scan_ends_length; lia).
  destruct (Nat.ltb_spec k n) as [Hk|Hk].
  - rewrite app_nth1 by lia. rewrite nth_firstn_lt by exact Hk.
    rewrite scan_ends_nth by lia. lia.
  - rewrite app_nth2 by lia. apply nth_repeat0.
Qed.

(* ---------------------------------------------------------------------------------- *)
(* the array loops                                                                    *)
(* ---------------------------------------------------------------------------------- *)

Lemma fill_from_length l : forall i t1 t2 v, length (fill_from i l t1 t2 v) = length l.
Proof. induction l as [|x l IH]; intros; cbn [fill_from length]; [reflexivity|]. rewrite IH. reflexivity. Qed.

Lemma nth_fill_from l : forall i t1 t2 v k,
  nth k (fill_from i l t1 t2 v) 0 =
  if (k <? length l)%nat && (t1 <=? i + k)%nat && (i + k <? t2)%nat then v else nth k l 0.
Proof.
  induction l as [|x l IH]; intros i t1 t2 v k.
  - cbn [fill_from length]. destruct k; reflexivity.
  - cbn [fill_from]. destruct k as [|k].
    + cbn [nth length]. rewrite Nat.add_0_r. cbn [Nat.ltb Nat.leb andb]. reflexivity.
    + cbn [nth length]. rewrite IH. replace (S i + k)%nat with (i + S k)%nat by lia.
      change (S k <? S (length l))%nat with (k <? length l)%nat. reflexivity.
Qed.

Lemma nth_fill_range l t1 t2 v k :
  nth k (fill_range l t1 t2 v) 0 =
  if (k <? length l)%nat && (t1 <=? k)%nat && (k <? t2)%nat then v else nth k l 0.
Proof. unfold fill_range. rewrite nth_fill_from. reflexivity. Qed.

Lemma shift_tail_length l d : length (shift_tail l d) = length l.
Proof.
  induction l as [|x l IH]; [reflexivity|]. cbn [shift_tail]. destruct (x =? 0); [reflexivity|].
  cbn [length]. rewrite IH. reflexivity.
Qed.

(* the loop stops at the first 0; when the non-zero entries are exactly the first m ones it shifts those *)
Lemma nth_shift_tail l d : forall m k,
  (forall j, (j < m)%nat -> nth j l 0 <> 0) -> nth m l 0 = 0 ->
  nth k (shift_tail l d) 0 = if (k <? m)%nat then Z.to_N (Z.of_N (nth k l 0) + d) else nth k l 0.
Proof.
  induction l as [|x l IH]; intros m k Hnz Hz.
  - cbn [shift_tail]. destruct k; destruct (_ <? m)%nat eqn:E; try reflexivity.
    + exfalso. apply (Hnz 0%nat); [apply Nat.ltb_lt in E; lia|reflexivity].
    + exfalso. apply (Hnz 0%nat); [apply Nat.ltb_lt in E; lia|reflexivity].
  - cbn [shift_tail]. destruct (N.eqb_spec x 0) as [Hx|Hx].
    + assert (m = 0%nat) as -> by (destruct m; [reflexivity|exfalso; apply (Hnz 0%nat); [lia|exact Hx]]).
      reflexivity.
    + destruct m as [|m]; [cbn [nth] in Hz; lia|].
      destruct k as [|k]; [reflexivity|]. cbn [nth].
      change (S k <? S m)%nat with (k <? m)%nat. apply IH.
      * intros j Hj. apply (Hnz (S j)). lia.
      * exact Hz.
Qed.

Lemma shift_from_length l from d : length (shift_from l from d) = length l.
Proof.
  unfold shift_from. rewrite app_length, shift_tail_length, firstn_length, skipn_length. lia.
Qed.

Lemma nth_shift_from l from n d k : (from <= n)%nat -> (from <= length l)%nat ->
  (forall j, (from <= j < n)%nat -> nth j l 0 <> 0) -> nth n l 0 = 0 ->
  nth k (shift_from l from d) 0 =
  if (from <=? k)%nat && (k <? n)%nat then Z.to_N (Z.of_N (nth k l 0) + d) else nth k l 0.
Proof.
  intros Hfn Hfl Hnz Hz. unfold shift_from.
  assert (Hl : length (firstn from l) = from) by (apply firstn_length_le; exact Hfl).
  destruct (Nat.leb_spec from k) as [Hk|Hk]; cbn [andb].
  - rewrite app_nth2 by lia. rewrite Hl.
    rewrite (nth_shift_tail _ d (n - from) (k - from)).
    + rewrite nth_skipn_add. replace (from + (k - from))%nat with k by lia.
      destruct (Nat.ltb_spec (k - from) (n - from)); destruct (Nat.ltb_spec k n); try lia; reflexivity.
    + intros j Hj. rewrite nth_skipn_add. apply Hnz. lia.
    + rewrite nth_skipn_add. replace (from + (n - from))%nat with n by lia. exact Hz.
  - rewrite app_nth1 by lia. apply nth_firstn_lt. exact Hk.
Qed.

(* ---------------------------------------------------------------------------------- *)
(* prefix sums                                                                        *)
(* ---------------------------------------------------------------------------------- *)

Lemma pre_le ps : forall i j, (i <= j)%nat -> pre i ps <= pre j ps.
Proof.
  intros i j H. induction H as [|j H IH]; [lia|]. pose proof (pre_mono j ps). lia.
Qed.

Lemma firstn_pre ps k : firstn (N.to_nat (pre k ps)) (concat ps) = concat (firstn k ps).
Proof.
  unfold pre. rewrite to_nat_len. rewrite (concat_split ps k) at 1. apply firstn_len_app.
Qed.

Lemma skipn_pre ps k : skipn (N.to_nat (pre k ps)) (concat ps) = concat (skipn k ps).
Proof.
  unfold pre. rewrite to_nat_len. rewrite (concat_split ps k) at 1.
  rewrite <- (Nat.add_0_r (length _)), skipn_len_app. reflexivity.
Qed.

Lemma pre_app a b j : pre j (a ++ b) = if (j <=? length a)%nat then pre j a else len (concat a) + pre (j - length a) b.
Proof.
  unfold pre. rewrite firstn_app, concat_app, len_app.
  destruct (Nat.leb_spec j (length a)) as [H|H].
  - replace (j - length a)%nat with 0%nat by lia. cbn [firstn concat]. rewrite len_nil. lia.
  - rewrite (firstn_all2 a) by lia. reflexivity.
Qed.

Lemma pre_firstn ps k j : (j <= k)%nat -> pre j (firstn k ps) = pre j ps.
Proof. intro H. unfold pre. rewrite firstn_firstn. replace (Nat.min j k) with j by lia. reflexivity. Qed.

Lemma pre_skipn ps k j : pre k ps + pre j (skipn k ps) = pre (k + j) ps.
Proof.
  unfold pre. rewrite firstn_plus, concat_app, len_app. reflexivity.
Qed.

Lemma concat_repeat_nil m : concat (repeat ([] : str) m) = [].
Proof. induction m as [|m IH]; [reflexivity|]. cbn [repeat concat]. exact IH. Qed.

(* ---------------------------------------------------------------------------------- *)
(* the abstract edit: pieces first..last are replaced                                 *)
(* ---------------------------------------------------------------------------------- *)

(* one piece replaced: [s]; a range replaced: piece [first] gets the first len0 code units of s, the
   pieces strictly between become empty, piece [last] gets the rest *)
Definition middle (first last : nat) (s : str) (len0 : N) : list str :=
  if (first =? last)%nat then [s]
  else firstn (N.to_nat len0) s :: repeat [] (last - first - 1) ++ [skipn (N.to_nat len0) s].

Definition splice (ps : list str) (first last : nat) (s : str) (len0 : N) : list str :=
  firstn first ps ++ middle first last s len0 ++ skipn (S last) ps.

Lemma middle_length first last s len0 : (first <= last)%nat ->
  length (middle first last s len0) = (last - first + 1)%nat.
Proof.
  intro H. unfold middle. destruct (Nat.eqb_spec first last) as [->|Hne].
  - cbn. lia.
  - cbn [length]. rewrite app_length, repeat_length. cbn. lia.
Qed.

Lemma middle_concat first last s len0 : concat (middle first last s len0) = s.
Proof.
  unfold middle. destruct (first =? last)%nat.
  - cbn. apply app_nil_r.
  - cbn [concat]. rewrite concat_app, concat_repeat_nil. cbn. rewrite app_nil_r. apply firstn_skipn.
Qed.

Lemma pre_middle first last s len0 j : (first <= last)%nat -> ((first < last)%nat -> len0 <= len s) ->
  pre j (middle first last s len0) =
  if (j =? 0)%nat then 0 else if (j <=? last - first)%nat then len0 else len s.
Proof.
  intros Hfl Hl0. unfold middle. destruct (Nat.eqb_spec first last) as [->|Hne].
  - destruct j as [|j]; [reflexivity|]. replace (last - last)%nat with 0%nat by lia.
    cbn [Nat.eqb Nat.leb]. unfold pre. destruct j; cbn; rewrite app_nil_r; reflexivity.
  - destruct j as [|j]; [reflexivity|]. cbn [Nat.eqb].
    assert (Hlen0 : len (firstn (N.to_nat len0) s) = len0).
    { unfold len. rewrite firstn_length_le; [lia|]. specialize (Hl0 ltac:(lia)). unfold len in Hl0. lia. }
    unfold pre. cbn [firstn concat]. rewrite len_app, Hlen0, firstn_app, concat_app, len_app, repeat_length.
    assert (Hr : forall i, concat (firstn i (repeat ([] : str) (last - first - 1))) = []).
    { intro i. generalize (last - first - 1)%nat as m. revert i.
      induction i as [|i IH]; intros [|m]; try reflexivity. cbn [repeat firstn concat]. apply IH. }
    rewrite Hr, len_nil.
    destruct (Nat.leb_spec (S j) (last - first)) as [Hj|Hj].
    + replace (j - (last - first - 1))%nat with 0%nat by lia. cbn. lia.
    + destruct (j - (last - first - 1))%nat as [|i] eqn:Ei; [lia|].
      cbn [firstn concat]. rewrite firstn_nil. cbn [concat]. rewrite app_nil_r.
      assert (Hs : len s = len0 + len (skipn (N.to_nat len0) s))
        by (rewrite <- Hlen0 at 1; rewrite <- len_app, firstn_skipn; reflexivity).
      lia.
Qed.

Lemma splice_length ps first last s len0 : (first <= last)%nat -> (last < length ps)%nat ->
  length (splice ps first last s len0) = length ps.
Proof.
  intros H1 H2. unfold splice. rewrite !app_length, middle_length, firstn_length, skipn_length by exact H1. lia.
Qed.

Lemma splice_concat ps first last s len0 :
  concat (splice ps first last s len0) = concat (firstn first ps) ++ s ++ concat (skipn (S last) ps).
Proof. unfold splice. rewrite !concat_app, middle_concat. reflexivity. Qed.

Lemma pre_splice ps first last s len0 j :
  (first <= last)%nat -> (last < length ps)%nat -> ((first < last)%nat -> len0 <= len s) ->
  pre j (splice ps first last s len0) =
  if (j <=? first)%nat then pre j ps
  else if (j <=? last)%nat then pre first ps + len0
  else pre first ps + len s + (pre j ps - pre (S last) ps).
Proof.
  intros H1 H2 H3. unfold splice. rewrite pre_app.
  assert (Hf : length (firstn first ps) = first) by (apply firstn_length_le; lia).
  rewrite Hf. destruct (Nat.leb_spec j first) as [Hj|Hj]; [apply pre_firstn; exact Hj|].
  change (len (concat (firstn first ps))) with (pre first ps).
  rewrite pre_app, middle_length, middle_concat by exact H1.
  destruct (Nat.leb_spec (j - first) (last - first + 1)) as [Hm|Hm].
  - rewrite pre_middle by assumption.
    destruct (Nat.eqb_spec (j - first) 0); [lia|].
    destruct (Nat.leb_spec (j - first) (last - first)); destruct (Nat.leb_spec j last); try lia.
    replace j with (S last) by lia. lia.
  - destruct (Nat.leb_spec j last); [lia|].
    pose proof (pre_skipn ps (S last) (j - first - (last - first + 1))) as Hs.
    replace (S last + (j - first - (last - first + 1)))%nat with j in Hs by lia. lia.
Qed.

(* ---------------------------------------------------------------------------------- *)
(* well-formed piece lists                                                            *)
(* ---------------------------------------------------------------------------------- *)

Record PW (ps : list str) (n : nat) : Prop := {
  pw_len : length ps = 11%nat;
  pw_n : (1 <= n <= 11)%nat;
  pw_scheme : nth 0 ps [] <> [];
  pw_tail : forall k, (n <= k)%nat -> nth k ps [] = [] }.

Lemma pre_pos ps k : nth 0 ps [] <> [] -> (1 <= k)%nat -> 0 < pre k ps.
Proof.
  intros Hs Hk. pose proof (pre_le ps 1 k Hk) as Hle.
  destruct ps as [|p ps]; [exfalso; apply Hs; reflexivity|].
  unfold pre in Hle at 1. cbn [firstn concat nth] in *. rewrite app_nil_r in Hle.
  destruct p; [exfalso; apply Hs; reflexivity|]. rewrite len_cons in Hle. lia.
Qed.

Lemma en_conc ps n f c k : (n <= length ps)%nat ->
  en (conc ps n f c) k = if (k <? n)%nat then pre (S k) ps else 0.
Proof. intro H. unfold en, E, conc. cbn [r_ends]. apply nth_ends_of. exact H. Qed.

(* ---------------------------------------------------------------------------------- *)
(* replace_part refines the replacement of pieces first..last                         *)
(* ---------------------------------------------------------------------------------- *)

Theorem replace_part_conc ps n f c first last s len0 :
  PW ps n -> (first <= last)%nat -> (last < n)%nat ->
  ((first < last)%nat -> len0 <= len s) ->
  replace_part (conc ps n f c) last s first len0 = conc (splice ps first last s len0) n f c /\
  (* no size_t wrap in  part_end_[last_pt] - b  *)
  part_pos (conc ps n f c) first <= en (conc ps n f c) last.
Proof.
  intros [Hlen Hn Hsch Htail] Hfl Hln Hl0.
  assert (Hnl : (n <= length ps)%nat) by lia.
  assert (Hb : part_pos (conc ps n f c) first = pre first ps).
  { unfold part_pos. destruct first as [|p]; [reflexivity|].
    rewrite en_conc by exact Hnl. destruct (Nat.ltb_spec p n); [reflexivity|lia]. }
  assert (He : en (conc ps n f c) last = pre (S last) ps).
  { rewrite en_conc by exact Hnl. destruct (Nat.ltb_spec last n); [reflexivity|lia]. }
  assert (Hle : pre first ps <= pre (S last) ps) by (apply pre_le; lia).
  split; [|rewrite Hb, He; exact Hle].
  unfold replace_part. rewrite Hb, He.
  replace (pre first ps + (pre (S last) ps - pre first ps)) with (pre (S last) ps) by lia.
  unfold conc at 1 2. cbn [r_norm r_ends r_flags r_segs]. unfold conc. f_equal.
  - rewrite firstn_pre, skipn_pre, splice_concat. reflexivity.
  - cbn [r_ends r_norm r_flags r_segs].
    set (d := (Z.of_N (len s) - Z.of_N (pre (S last) ps - pre first ps))%Z).
    assert (Hsl : length (splice ps first last s len0) = length ps) by (apply splice_length; lia).
    apply (nth_ext _ _ 0 0).
    + destruct (d =? 0)%Z; rewrite ?shift_from_length; unfold fill_range; rewrite fill_from_length, !ends_of_length; lia.
    + intros k Hk.
      assert (Hk11 : (k < 11)%nat).
      { destruct (d =? 0)%Z; rewrite ?shift_from_length in Hk; unfold fill_range in Hk;
        rewrite fill_from_length, ends_of_length in Hk; lia. }
      (* the entries of the array after the fill *)
      assert (Hfill : forall j, nth j (fill_range (ends_of ps n) first last (pre first ps + len0)) 0 =
                      if (first <=? j)%nat && (j <? last)%nat then pre first ps + len0
                      else if (j <? n)%nat then pre (S j) ps else 0).
      { intro j. rewrite nth_fill_range, ends_of_length, nth_ends_of by lia.
        destruct (Nat.ltb_spec j (length ps)); cbn [andb]; [reflexivity|].
        destruct (Nat.leb_spec first j); destruct (Nat.ltb_spec j last); cbn [andb]; try lia;
        destruct (Nat.ltb_spec j n); try lia; reflexivity. }
      rewrite (nth_ends_of (splice ps first last s len0) n k) by lia.
      rewrite pre_splice by (assumption || lia).
      assert (Hshift : nth k (shift_from (fill_range (ends_of ps n) first last (pre first ps + len0)) last d) 0 =
                if (last <=? k)%nat && (k <? n)%nat
                then Z.to_N (Z.of_N (nth k (fill_range (ends_of ps n) first last (pre first ps + len0)) 0) + d)
                else nth k (fill_range (ends_of ps n) first last (pre first ps + len0)) 0).
      { apply nth_shift_from.
        - lia.
        - unfold fill_range. rewrite fill_from_length, ends_of_length; lia.
        - intros j Hj. rewrite Hfill.
          destruct (Nat.leb_spec first j); destruct (Nat.ltb_spec j last); cbn [andb]; try lia;
          destruct (Nat.ltb_spec j n); try lia;
          pose proof (pre_pos ps (S j) Hsch ltac:(lia)); lia.
        - rewrite Hfill.
          destruct (Nat.leb_spec first n); destruct (Nat.ltb_spec n last); cbn [andb]; try lia;
          destruct (Nat.ltb_spec n n); try lia; reflexivity. }
      assert (Hkl : (last <= k)%nat -> pre (S last) ps <= pre (S k) ps) by (intro; apply pre_le; lia).
      destruct (Z.eqb_spec d 0) as [Hd|Hd].
      * rewrite Hfill.
        destruct (Nat.leb_spec first k); destruct (Nat.ltb_spec k last); cbn [andb];
        destruct (Nat.ltb_spec k n); destruct (Nat.leb_spec (S k) first); destruct (Nat.leb_spec (S k) last);
        try lia; try reflexivity.
        all: try (specialize (Hkl ltac:(lia)); unfold d in Hd; lia).
      * rewrite Hshift, Hfill.
        destruct (Nat.leb_spec first k); destruct (Nat.ltb_spec k last); cbn [andb];
        destruct (Nat.ltb_spec k n); destruct (Nat.leb_spec last k); cbn [andb];
        destruct (Nat.leb_spec (S k) first); destruct (Nat.leb_spec (S k) last);
        try lia; try reflexivity.
        all: try (specialize (Hkl ltac:(lia)); unfold d; lia).
Qed.

(* ---------------------------------------------------------------------------------- *)
(* more array / list facts                                                            *)
(* ---------------------------------------------------------------------------------- *)

Lemma upd_length l : forall k v, length (upd l k v) = length l.
Proof. induction l as [|x l IH]; intros [|k] v; cbn [upd length]; auto. Qed.

Lemma nth_upd l : forall k v j,
  nth j (upd l k v) 0 = if (j =? k)%nat && (j <? length l)%nat then v else nth j l 0.
Proof.
  induction l as [|x l IH]; intros k v j.
  - destruct k; destruct j; cbn; try reflexivity; destruct (j =? k)%nat; reflexivity.
  - destruct k as [|k]; destruct j as [|j]; cbn [upd nth length]; try reflexivity.
    rewrite IH. reflexivity.
Qed.

Lemma concat_all_nil (l : list str) : (forall i, nth i l [] = []) -> concat l = [].
Proof.
  induction l as [|x l IH]; intro H; [reflexivity|].
  cbn [concat]. rewrite (H 0%nat : x = []). apply IH. intro i. exact (H (S i)).
Qed.

Lemma concat_skipn_nil (ps : list str) m k : (forall j, (m <= j)%nat -> nth j ps [] = []) -> (m <= k)%nat ->
  concat (skipn k ps) = [].
Proof. intros H Hk. apply concat_all_nil. intro i. rewrite nth_skipn_add. apply H. lia. Qed.

Lemma concat_firstn_tail (ps : list str) m k : (forall j, (m <= j)%nat -> nth j ps [] = []) -> (m <= k)%nat ->
  concat (firstn k ps) = concat ps.
Proof.
  intros H Hk. pose proof (concat_split ps k) as Hs. rewrite (concat_skipn_nil ps m k H Hk), app_nil_r in Hs. symmetry. exact Hs.
Qed.

Lemma pre_tail (ps : list str) m k : (forall j, (m <= j)%nat -> nth j ps [] = []) -> (m <= k)%nat ->
  pre k ps = len (concat ps).
Proof. intros H Hk. unfold pre. rewrite (concat_firstn_tail ps m k H Hk). reflexivity. Qed.

(* set one piece *)
Definition setp (ps : list str) (k : nat) (s : str) : list str := splice ps k k s 0.

Lemma nth_setp ps k s j : (k < length ps)%nat ->
  nth j (setp ps k s) [] = if (j =? k)%nat then s else nth j ps [].
Proof.
  intro Hk. unfold setp, splice, middle. rewrite Nat.eqb_refl.
  assert (Hf : length (firstn k ps) = k) by (apply firstn_length_le; lia).
  destruct (Nat.eqb_spec j k) as [->|Hne].
  - rewrite app_nth2 by lia. rewrite Hf, Nat.sub_diag. reflexivity.
  - destruct (Nat.lt_ge_cases j k) as [Hlt|Hge].
    + rewrite app_nth1 by lia. apply nth_firstn_lt. exact Hlt.
    + rewrite app_nth2 by lia. rewrite Hf. destruct (j - k)%nat as [|i] eqn:Ei; [lia|].
      cbn [app nth]. rewrite nth_skipn_add. f_equal. lia.
Qed.

Lemma setp_PW ps n k s : PW ps n -> (1 <= k < 11)%nat -> PW (setp ps k s) (Nat.max n (S k)).
Proof.
  intros [Hlen Hn Hsch Htail] Hk. split.
  - unfold setp. rewrite splice_length; lia.
  - lia.
  - rewrite nth_setp by lia. destruct (Nat.eqb_spec 0 k); [lia|exact Hsch].
  - intros j Hj. rewrite nth_setp by lia. destruct (Nat.eqb_spec j k); [lia|]. apply Htail. lia.
Qed.

(* the separator start_part writes in front of the text of a part *)
Definition sepc (k : nat) : str :=
  if (k =? P_PORT)%nat then [58] else if (k =? P_QUERY)%nat then [63] else if (k =? P_FRAGMENT)%nat then [35] else [].

(* ---------------------------------------------------------------------------------- *)
(* writing a part at the end of the string: start_part, append, save_part             *)
(* ---------------------------------------------------------------------------------- *)

(* the object's last written part is m-1 >= HOST_START; a part new_pt >= m is started, text appended, saved *)
Lemma start_append_save ps m f c new_pt v s0 :
  PW ps m -> (5 <= m)%nat -> (m <= new_pt <= 10)%nat ->
  s_r s0 = conc ps m f c -> s_last s0 = (m - 1)%nat ->
  let s1 := ser_save_part (do_append (ser_start_part s0 new_pt) v) in
  s_r s1 = conc (setp ps new_pt (sepc new_pt ++ v)) (S new_pt) f c /\ s_last s1 = new_pt.
Proof.
  intros HPW Hm Hnp Hr Hlast. destruct HPW as [Hlen Hn Hsch Htail].
  unfold ser_start_part. rewrite Hlast, Hr.
  destruct (Nat.eqb_spec (m - 1)%nat P_PATH) as [E8|E8]; destruct (Nat.eqb_spec new_pt P_PATH) as [N8|N8];
    cbn [andb]; try (unfold P_PATH in *; lia).
  all: destruct (Nat.eqb_spec (m - 1)%nat P_SCHEME) as [E0|_]; [unfold P_SCHEME in E0; lia|].
  all: destruct (Nat.eqb_spec (m - 1)%nat P_USERNAME) as [E2|_]; [unfold P_USERNAME in E2; lia|].
  all: destruct (Nat.eqb_spec (m - 1)%nat P_PASSWORD) as [E3|_]; [unfold P_PASSWORD in E3; lia|].
  all: cbv zeta.
  all: set (L := len (r_norm (conc ps m f c))).
  all: assert (HL : L = len (concat ps)) by reflexivity.
  all: set (r2 := w_ends (conc ps m f c) (fill_range (r_ends (conc ps m f c)) (S (m - 1)%nat) new_pt L)).
  all: set (r3 := if (new_pt =? P_PORT)%nat then app_norm r2 [58]
                  else if (new_pt =? P_QUERY)%nat then app_norm r2 [63]
                  else if (new_pt =? P_FRAGMENT)%nat then app_norm r2 [35] else r2).
  all: assert (H3 : r3 = mk_repr (concat ps ++ sepc new_pt) (fill_range (ends_of ps m) (S (m - 1)%nat) new_pt L) f c).
  all: try (unfold r3, r2, sepc, app_norm, w_norm, w_ends, conc; cbn [r_norm r_ends r_flags r_segs];
            destruct (new_pt =? P_PORT)%nat; [reflexivity|];
            destruct (new_pt =? P_QUERY)%nat; [reflexivity|];
            destruct (new_pt =? P_FRAGMENT)%nat; [reflexivity|]; rewrite app_nil_r; reflexivity).
  all: unfold do_append, ser_save_part, w_tgt, w_last, w_r; cbn [s_tgt s_r s_last s_file s_use s_strp s_pse s_curr].
  all: split; [|reflexivity].
  all: rewrite H3; unfold app_norm, set_e, w_norm, w_ends, conc; cbn [r_norm r_ends r_flags r_segs]; f_equal.
  all: try (unfold setp; rewrite splice_concat, (concat_firstn_tail ps m new_pt Htail) by lia;
            rewrite (concat_skipn_nil ps m (S new_pt) Htail) by lia; rewrite app_nil_r, app_assoc; reflexivity).
  all: assert (Hsl : length (setp ps new_pt (sepc new_pt ++ v)) = length ps) by (unfold setp; apply splice_length; lia).
  all: apply (nth_ext _ _ 0 0);
       [rewrite upd_length; unfold fill_range; rewrite fill_from_length, !ends_of_length; lia|].
  all: intros k Hk; rewrite upd_length in Hk; unfold fill_range in Hk; rewrite fill_from_length, ends_of_length in Hk by lia.
  all: rewrite nth_upd, nth_fill_range; unfold fill_range; rewrite fill_from_length, ends_of_length by lia.
  all: rewrite !nth_ends_of by lia.
  all: unfold setp; rewrite pre_splice by (lia || (intro; lia)).
  all: rewrite len_app, len_app.
  all: destruct (Nat.eqb_spec k new_pt); destruct (Nat.ltb_spec k (length ps)); cbn [andb];
       destruct (Nat.leb_spec (S (m - 1)%nat) k); destruct (Nat.ltb_spec k new_pt); cbn [andb];
       destruct (Nat.ltb_spec k m); destruct (Nat.ltb_spec k (S new_pt));
       destruct (Nat.leb_spec (S k) new_pt); try lia; try reflexivity.
  all: rewrite ?len_app, ?(pre_tail ps m new_pt Htail), ?(pre_tail ps m (S k) Htail),
            ?(pre_tail ps m (S new_pt) Htail) by lia; lia.
Qed.

(* ---------------------------------------------------------------------------------- *)
(* url_setter: a part that is followed by other text is spliced in through strp_       *)
(* ---------------------------------------------------------------------------------- *)

Lemma pre_S_pos ps n k : PW ps n -> 0 < pre (S k) ps.
Proof. intros [_ _ Hs _]. apply pre_pos; [exact Hs|lia]. Qed.

Ltac ssimp :=
  cbv beta iota zeta delta
    [w_r w_last w_strp w_pse w_use w_curr w_tgt w_file init_sst
     s_r s_file s_last s_use s_strp s_pse s_curr s_tgt
     do_append v_save_part set_save_part v_start_part
     P_SCHEME P_SCHEME_SEP P_USERNAME P_PASSWORD P_HOST_START P_HOST P_PORT P_PATH_PREFIX P_PATH P_QUERY P_FRAGMENT
     Nat.eqb Nat.leb Nat.ltb andb orb negb kstart]; cbn [app].

(* PORT and QUERY written into the middle of the URL: start_part, text, save_part *)
Theorem setter_splice_simple ps n f c file k v :
  PW ps n -> (k = P_PORT \/ k = P_QUERY) -> (k < n)%nat ->
  pre (S k) ps < len (concat ps) ->            (* some text follows part k *)
  (k = P_PORT -> v <> []) ->
  let s1 := run true (init_sst (conc ps n f c) file) [OStartPart k; OAppend v; OSavePart] in
  s_r s1 = conc (setp ps k (sepc k ++ v)) n f c /\ s_strp s1 = [].
Proof.
  intros HPW Hk Hkn Hfollow Hv.
  assert (Hnl : (n <= length ps)%nat) by (destruct HPW; lia).
  assert (Hen : en (conc ps n f c) k = pre (S k) ps).
  { rewrite en_conc by exact Hnl. destruct (Nat.ltb_spec k n); [reflexivity|lia]. }
  pose proof (pre_S_pos ps n k HPW) as Hpos.
  cbn [run fold_left step]. unfold v_start_part, set_start_part.
  cbn [init_sst w_curr s_r]. rewrite Hen.
  destruct (N.eqb_spec (pre (S k) ps) 0) as [E|_]; [lia|]. cbn [negb].
  replace (len (r_norm (conc ps n f c))) with (len (concat ps)) by reflexivity.
  destruct (N.ltb_spec (pre (S k) ps) (len (concat ps))) as [_|E]; [|lia].
  destruct Hk as [-> | ->].
  - (* PORT *)
    ssimp.
    assert (Hev : (len (58 :: v) <=? 1) = false).
    { destruct v as [|x v]; [exfalso; apply Hv; reflexivity|]. rewrite !len_cons. apply N.leb_gt. lia. }
    rewrite Hev. unfold replace_part1.
    destruct (replace_part_conc ps n f c 6 6 (58 :: v) 0 HPW ltac:(lia) Hkn ltac:(intro; lia)) as [Hrp _].
    rewrite Hrp. split; reflexivity.
  - (* QUERY *)
    ssimp. unfold replace_part1.
    destruct (replace_part_conc ps n f c 9 9 (63 :: v) 0 HPW ltac:(lia) Hkn ltac:(intro; lia)) as [Hrp _].
    rewrite Hrp. split; reflexivity.
Qed.

(* clear_part: port("") / search("") / hash("") *)
Theorem setter_clear_part ps n f c file k :
  PW ps n -> (1 <= k <= 10)%nat ->
  s_r (run true (init_sst (conc ps n f c) file) [OClearPart k]) =
  if (k <? n)%nat then conc (setp ps k []) n (N.ldiff f (N.shiftl 1 (N.of_nat k))) c else conc ps n f c.
Proof.
  intros HPW Hk.
  assert (Hnl : (n <= length ps)%nat) by (destruct HPW; lia).
  cbn [run fold_left step]. unfold v_clear_part, set_clear_part. cbn [init_sst s_r].
  rewrite en_conc by exact Hnl.
  destruct (Nat.ltb_spec k n) as [Hkn|Hkn].
  - pose proof (pre_S_pos ps n k HPW) as Hpos.
    destruct (N.eqb_spec (pre (S k) ps) 0) as [E|_]; [lia|]. cbn [negb w_r s_r].
    unfold replace_part1.
    destruct (replace_part_conc ps n f c k k [] 0 HPW ltac:(lia) Hkn ltac:(intro; lia)) as [Hrp _].
    rewrite Hrp. reflexivity.
  - reflexivity.
Qed.

(* ---------------------------------------------------------------------------------- *)
(* url_setter::start_part when the part is the last text of the URL: truncate, rewrite *)
(* ---------------------------------------------------------------------------------- *)

Lemma set_while_nz_length l v : length (set_while_nz l v) = length l.
Proof.
  induction l as [|x l IH]; [reflexivity|]. cbn [set_while_nz]. destruct (x =? 0); [reflexivity|].
  cbn [length]. rewrite IH. reflexivity.
Qed.

Lemma nth_set_while_nz l v : forall m k,
  (forall j, (j < m)%nat -> nth j l 0 <> 0) -> nth m l 0 = 0 ->
  nth k (set_while_nz l v) 0 = if (k <? m)%nat then v else nth k l 0.
Proof.
  induction l as [|x l IH]; intros m k Hnz Hz.
  - cbn [set_while_nz]. destruct k; destruct (_ <? m)%nat eqn:E; try reflexivity;
      exfalso; apply (Hnz 0%nat); [apply Nat.ltb_lt in E; lia|reflexivity|apply Nat.ltb_lt in E; lia|reflexivity].
  - cbn [set_while_nz]. destruct (N.eqb_spec x 0) as [Hx|Hx].
    + assert (m = 0%nat) as -> by (destruct m; [reflexivity|exfalso; apply (Hnz 0%nat); [lia|exact Hx]]).
      reflexivity.
    + destruct m as [|m]; [cbn [nth] in Hz; lia|].
      destruct k as [|k]; [reflexivity|]. cbn [nth].
      change (S k <? S m)%nat with (k <? m)%nat. apply IH.
      * intros j Hj. apply (Hnz (S j)). lia.
      * exact Hz.
Qed.

Lemma set_while_nz_from_length l from v : length (set_while_nz_from l from v) = length l.
Proof.
  unfold set_while_nz_from. rewrite app_length, set_while_nz_length, firstn_length, skipn_length. lia.
Qed.

Lemma nth_set_while_nz_from l from n v k : (from <= n)%nat -> (from <= length l)%nat ->
  (forall j, (from <= j < n)%nat -> nth j l 0 <> 0) -> nth n l 0 = 0 ->
  nth k (set_while_nz_from l from v) 0 = if (from <=? k)%nat && (k <? n)%nat then v else nth k l 0.
Proof.
  intros Hfn Hfl Hnz Hz. unfold set_while_nz_from.
  assert (Hl : length (firstn from l) = from) by (apply firstn_length_le; exact Hfl).
  destruct (Nat.leb_spec from k) as [Hk|Hk]; cbn [andb].
  - rewrite app_nth2 by lia. rewrite Hl.
    rewrite (nth_set_while_nz _ v (n - from) (k - from)).
    + rewrite nth_skipn_add. replace (from + (k - from))%nat with k by lia.
      destruct (Nat.ltb_spec (k - from) (n - from)); destruct (Nat.ltb_spec k n); try lia; reflexivity.
    + intros j Hj. rewrite nth_skipn_add. apply Hnz. lia.
    + rewrite nth_skipn_add. replace (from + (n - from))%nat with n by lia. exact Hz.
  - rewrite app_nth1 by lia. apply nth_firstn_lt. exact Hk.
Qed.

(* the pieces in front of part k, nothing behind *)
Definition cut (ps : list str) (k : nat) : list str := firstn k ps ++ repeat [] (length ps - k).

Lemma nth_cut ps k j : (k <= length ps)%nat -> nth j (cut ps k) [] = if (j <? k)%nat then nth j ps [] else [].
Proof.
  intro Hk. unfold cut.
  assert (Hf : length (firstn k ps) = k) by (apply firstn_length_le; exact Hk).
  destruct (Nat.ltb_spec j k).
  - rewrite app_nth1 by lia. apply nth_firstn_lt. assumption.
  - rewrite app_nth2 by lia. generalize (j - length (firstn k ps))%nat as i. generalize (length ps - k)%nat as m.
    induction m as [|m IH]; intros [|i]; cbn; auto.
Qed.

Lemma cut_length ps k : (k <= length ps)%nat -> length (cut ps k) = length ps.
Proof. intro H. unfold cut. rewrite app_length, firstn_length, repeat_length. lia. Qed.

Lemma cut_PW ps n k : PW ps n -> (1 <= k <= n)%nat -> PW (cut ps k) k.
Proof.
  intros [Hlen Hn Hsch Htail] Hk. split.
  - rewrite cut_length; lia.
  - lia.
  - rewrite nth_cut by lia. destruct (Nat.ltb_spec 0 k); [exact Hsch|lia].
  - intros j Hj. rewrite nth_cut by lia. destruct (Nat.ltb_spec j k); [lia|reflexivity].
Qed.

Lemma pre_cut ps k j : (j <= k)%nat -> (k <= length ps)%nat -> pre j (cut ps k) = pre j ps.
Proof.
  intros Hj Hk. unfold cut. rewrite pre_app.
  assert (Hf : length (firstn k ps) = k) by (apply firstn_length_le; exact Hk).
  rewrite Hf. destruct (Nat.leb_spec j k); [|lia]. apply pre_firstn. exact Hj.
Qed.

Lemma concat_cut ps k : concat (cut ps k) = concat (firstn k ps).
Proof. unfold cut. rewrite concat_app, concat_repeat_nil, app_nil_r. reflexivity. Qed.

(* the truncation url_setter::start_part performs before it rewrites the last part *)
Lemma truncate_conc ps n f c k :
  PW ps n -> (1 <= k < n)%nat ->
  let r := conc ps n f c in
  let r1 := w_norm r (resize (r_norm r) (en r (pred k))) in
  let r2 := set_e r1 k 0 in
  w_ends r2 (set_while_nz_from (r_ends r2) (S k) 0) = conc (cut ps k) k f c.
Proof.
  intros HPW Hk. destruct HPW as [Hlen Hn Hsch Htail].
  assert (Hnl : (n <= length ps)%nat) by lia.
  cbv zeta. unfold w_ends, set_e, w_norm, w_ends, resize, conc. cbn [r_norm r_ends r_flags r_segs].
  f_equal.
  - change (en {| r_norm := concat ps; r_ends := ends_of ps n; r_flags := f; r_segs := c |} (pred k))
      with (en (conc ps n f c) (pred k)).
    rewrite en_conc by exact Hnl. destruct (Nat.ltb_spec (pred k) n); [|lia].
    replace (S (pred k)) with k by lia. rewrite firstn_pre, concat_cut. reflexivity.
  - assert (Hcl : length (cut ps k) = length ps) by (apply cut_length; lia).
    apply (nth_ext _ _ 0 0).
    + rewrite set_while_nz_from_length, upd_length, !ends_of_length; lia.
    + intros j Hj. rewrite set_while_nz_from_length, upd_length, ends_of_length in Hj by lia.
      assert (Hupd : forall i, nth i (upd (ends_of ps n) k 0) 0 =
                               if (i =? k)%nat then 0 else if (i <? n)%nat then pre (S i) ps else 0).
      { intro i. rewrite nth_upd, ends_of_length, nth_ends_of by lia.
        destruct (Nat.eqb_spec i k); destruct (Nat.ltb_spec i (length ps)); cbn [andb]; try reflexivity.
        destruct (Nat.ltb_spec i n); [lia|reflexivity]. }
      rewrite (nth_set_while_nz_from _ (S k) (Nat.max n (S k)) 0 j).
      * rewrite Hupd, nth_ends_of by lia.
        destruct (Nat.leb_spec (S k) j); destruct (Nat.ltb_spec j (Nat.max n (S k))); cbn [andb];
        destruct (Nat.eqb_spec j k); destruct (Nat.ltb_spec j n); destruct (Nat.ltb_spec j k); try lia; try reflexivity.
        rewrite pre_cut by lia. reflexivity.
      * lia.
      * rewrite upd_length, ends_of_length; lia.
      * intros i Hi. rewrite Hupd. destruct (Nat.eqb_spec i k); [lia|].
        destruct (Nat.ltb_spec i n); [|lia]. pose proof (pre_pos ps (S i) Hsch ltac:(lia)). lia.
      * rewrite Hupd. destruct (Nat.eqb_spec (Nat.max n (S k)) k); [reflexivity|].
        destruct (Nat.ltb_spec (Nat.max n (S k)) n); [lia|reflexivity].
Qed.

Lemma find_last_part_conc ps n f c : PW ps n -> forall k, (n - 1 <= k)%nat ->
  find_last_part (conc ps n f c) k = (n - 1)%nat.
Proof.
  intros HPW. assert (Hnl : (n <= length ps)%nat) by (destruct HPW; lia).
  assert (Hn1 : (1 <= n)%nat) by (destruct HPW; lia).
  induction k as [|p IH]; intro Hk.
  - cbn [find_last_part]. unfold P_SCHEME. lia.
  - cbn [find_last_part]. rewrite en_conc by exact Hnl.
    destruct (Nat.ltb_spec (S p) n) as [Hlt|Hge].
    + pose proof (pre_S_pos ps n (S p) HPW). destruct (N.eqb_spec (pre (S (S p)) ps) 0); [lia|]. cbn [negb]. lia.
    + cbn [N.eqb negb]. apply IH. lia.
Qed.

Lemma setp_cut (ps : list str) k s : (k < length ps)%nat -> (forall j, (k < j)%nat -> nth j ps [] = []) ->
  setp (cut ps k) k s = setp ps k s.
Proof.
  intros Hk Htl.
  assert (Hc : length (cut ps k) = length ps) by (apply cut_length; lia).
  apply (nth_ext _ _ [] []).
  - unfold setp. rewrite !splice_length; lia.
  - intros j Hj. rewrite !nth_setp by lia. destruct (Nat.eqb_spec j k); [reflexivity|].
    rewrite nth_cut by lia. destruct (Nat.ltb_spec j k); [reflexivity|]. symmetry. apply Htl. lia.
Qed.

(* PORT, QUERY, FRAGMENT written when nothing follows the part: either the part exists and is the last text of the
   URL (truncate and rewrite in place) or it was never written (find the last written part, fill the offsets) *)
Theorem setter_write_simple ps n f c file k v :
  PW ps n -> (6 <= n)%nat -> (k = P_PORT \/ k = P_QUERY \/ k = P_FRAGMENT) ->
  (forall j, (k < j)%nat -> nth j ps [] = []) ->            (* no text follows part k *)
  let s1 := run true (init_sst (conc ps n f c) file) [OStartPart k; OAppend v; OSavePart] in
  s_r s1 = conc (setp ps k (sepc k ++ v)) (S k) f c /\ s_last s1 = k.
Proof.
  intros HPW Hn6 Hk Htl.
  assert (Hlen : length ps = 11%nat) by (destruct HPW; assumption).
  assert (Hnl : (n <= length ps)%nat) by (destruct HPW; lia).
  assert (Hk10 : (6 <= k <= 10)%nat) by (unfold P_PORT, P_QUERY, P_FRAGMENT in Hk; lia).
  cbn [run fold_left step]. unfold v_start_part, set_start_part.
  cbn [init_sst w_curr s_r]. rewrite en_conc by exact Hnl.
  destruct (Nat.ltb_spec k n) as [Hkn|Hkn].
  - (* the part exists and is the last text: in place *)
    pose proof (pre_S_pos ps n k HPW) as Hpos.
    destruct (N.eqb_spec (pre (S k) ps) 0) as [E|_]; [lia|]. cbn [negb].
    replace (len (r_norm (conc ps n f c))) with (len (concat ps)) by reflexivity.
    rewrite (pre_tail ps (S k) (S k)) by (auto; intros; apply Htl; lia).
    rewrite N.ltb_irrefl, Bool.andb_false_r.
    pose proof (truncate_conc ps n f c k HPW ltac:(lia)) as Htr. cbv zeta in Htr.
    cbn [s_r w_curr init_sst] in *. rewrite Htr.
    pose proof (cut_PW ps n k HPW ltac:(lia)) as HPWc.
    match goal with |- context [ser_start_part ?s0 k] =>
      pose proof (start_append_save (cut ps k) k f c k v s0 HPWc ltac:(lia) ltac:(lia) eq_refl) as Hsas end.
    cbv zeta in Hsas. specialize (Hsas ltac:(cbn; lia)).
    unfold v_save_part, set_save_part.
    match goal with |- context [s_use (do_append ?x v)] =>
      replace (s_use (do_append x v)) with false
        by (unfold do_append, ser_start_part; repeat match goal with |- context [if ?b then _ else _] => destruct b end; reflexivity) end.
    rewrite setp_cut in Hsas by (auto; lia). exact Hsas.
  - (* the part was never written *)
    cbn [N.eqb negb].
    rewrite (find_last_part_conc ps n f c HPW k ltac:(lia)).
    match goal with |- context [ser_start_part ?s0 k] =>
      pose proof (start_append_save ps n f c k v s0 HPW ltac:(lia) ltac:(lia) eq_refl eq_refl) as Hsas end.
    cbv zeta in Hsas.
    unfold v_save_part, set_save_part.
    match goal with |- context [s_use (do_append ?x v)] =>
      replace (s_use (do_append x v)) with false
        by (unfold do_append, ser_start_part; repeat match goal with |- context [if ?b then _ else _] => destruct b end; reflexivity) end.
    exact Hsas.
Qed.

(* ---------------------------------------------------------------------------------- *)
(* credentials: the '@' rules of url_setter::save_part                                *)
(* ---------------------------------------------------------------------------------- *)

Lemma is_empty_conc ps n f c k : PW ps n -> (1 <= k < n)%nat ->
  r_is_empty (conc ps n f c) k = (len (nth k ps []) <=? kstart k).
Proof.
  intros HPW Hk. assert (Hnl : (n <= length ps)%nat) by (destruct HPW; lia).
  assert (Hlen : length ps = 11%nat) by (destruct HPW; assumption).
  destruct k as [|k']; [lia|]. unfold r_is_empty.
  change (E (conc ps n f c) (S k')) with (en (conc ps n f c) (S k')).
  change (E (conc ps n f c) k') with (en (conc ps n f c) k').
  rewrite !en_conc by exact Hnl.
  destruct (Nat.ltb_spec (S k') n); [|lia]. destruct (Nat.ltb_spec k' n); [|lia].
  rewrite (pre_S (S k')) by lia.
  destruct (N.leb_spec (pre (S k') ps + len (nth (S k') ps [])) (pre (S k') ps + kstart (S k')));
  destruct (N.leb_spec (len (nth (S k') ps [])) (kstart (S k'))); try lia; reflexivity.
Qed.

Definition no_creds (ps : list str) : bool :=
  (len (nth P_USERNAME ps []) <=? 0) && (len (nth P_PASSWORD ps []) <=? 1).

Lemma has_credentials_conc ps n f c : PW ps n -> (4 <= n)%nat ->
  has_credentials (conc ps n f c) = negb (no_creds ps).
Proof.
  intros HPW Hn. unfold has_credentials, r_has_credentials, no_creds.
  rewrite !is_empty_conc by (auto; unfold P_USERNAME, P_PASSWORD; lia).
  unfold P_USERNAME, P_PASSWORD, kstart.
  destruct (len (nth 2 ps []) <=? 0); destruct (len (nth 3 ps []) <=? 1); reflexivity.
Qed.

(* what the Standard's username setter asks of the pieces: the new name, and "@" present exactly when there
   are credentials afterwards *)
Definition username_pieces (ps : list str) (v : str) : list str :=
  match v with
  | _ :: _ => if no_creds ps then splice ps P_USERNAME P_HOST_START (v ++ [64]) (len v) else setp ps P_USERNAME v
  | [] => if len (nth P_PASSWORD ps []) <=? 1 then splice ps P_USERNAME P_HOST_START [] 0 else setp ps P_USERNAME []
  end.

Theorem setter_username ps n f c file v :
  PW ps n -> (6 <= n)%nat -> nth P_HOST ps [] <> [] ->
  let s1 := run true (init_sst (conc ps n f c) file) [OStartPart P_USERNAME; OAppend v; OSavePart] in
  s_r s1 = conc (username_pieces ps v) n f c /\ s_strp s1 = [].
Proof.
  intros HPW Hn6 Hhost.
  assert (Hlen : length ps = 11%nat) by (destruct HPW; assumption).
  assert (Hnl : (n <= length ps)%nat) by (destruct HPW; lia).
  assert (Hen : en (conc ps n f c) P_USERNAME = pre 3 ps).
  { rewrite en_conc by exact Hnl. unfold P_USERNAME. destruct (Nat.ltb_spec 2 n); [reflexivity|lia]. }
  pose proof (pre_S_pos ps n 2 HPW) as Hpos.
  assert (Hfollow : pre 3 ps < len (concat ps)).
  { pose proof (pre_le ps 3 5 ltac:(lia)). pose proof (pre_S 5 ps ltac:(lia)) as H6.
    pose proof (pre_le ps 6 11 ltac:(lia)) as H11. rewrite (pre_all ps 11) in H11 by lia.
    unfold P_HOST in Hhost. destruct (nth 5 ps []) eqn:E5; [exfalso; apply Hhost; reflexivity|].
    rewrite len_cons in H6. lia. }
  cbn [run fold_left step]. unfold v_start_part, set_start_part.
  cbn [init_sst w_curr s_r]. rewrite Hen.
  destruct (N.eqb_spec (pre 3 ps) 0) as [E|_]; [lia|]. cbn [negb].
  replace (len (r_norm (conc ps n f c))) with (len (concat ps)) by reflexivity.
  destruct (N.ltb_spec (pre 3 ps) (len (concat ps))) as [_|E]; [|lia].
  ssimp. cbv beta iota zeta delta [P_USERNAME P_PASSWORD P_HOST_START] in *.
  rewrite has_credentials_conc by (auto; lia).
  rewrite (is_empty_conc ps n f c 3 HPW) by lia. unfold kstart.
  unfold username_pieces, replace_part1. cbv beta iota zeta delta [P_USERNAME P_PASSWORD P_HOST_START].
  destruct v as [|x v].
  - (* empty value *)
    change (len [] <=? 0) with true. cbn [andb negb].
    destruct (len (nth 3 ps []) <=? 1) eqn:Epw.
    + destruct (replace_part_conc ps n f c 2 4 [] 0 HPW ltac:(lia) ltac:(lia) ltac:(intro; cbn; lia)) as [Hrp _].
      rewrite Hrp. split; reflexivity.
    + destruct (replace_part_conc ps n f c 2 2 [] 0 HPW ltac:(lia) ltac:(lia) ltac:(intro; lia)) as [Hrp _].
      rewrite Hrp. split; reflexivity.
  - assert (Hne : (len (x :: v) <=? 0) = false) by (rewrite len_cons; apply N.leb_gt; lia).
    rewrite Hne. cbn [andb negb].
    destruct (no_creds ps) eqn:Enc; cbn [negb].
    + try change (x :: v ++ [64]) with ((x :: v) ++ [64]).
      replace (len ((x :: v) ++ [64]) - 1) with (len (x :: v)) by (rewrite len_app; change (len [64]) with 1; lia).
      destruct (replace_part_conc ps n f c 2 4 ((x :: v) ++ [64]) (len (x :: v)) HPW ltac:(lia) ltac:(lia)
                  ltac:(intro; rewrite len_app; lia)) as [Hrp _].
      rewrite Hrp. split; reflexivity.
    + destruct (replace_part_conc ps n f c 2 2 (x :: v) 0 HPW ltac:(lia) ltac:(lia) ltac:(intro; lia)) as [Hrp _].
      rewrite Hrp. split; reflexivity.
Qed.

Definition password_pieces (ps : list str) (v : str) : list str :=
  match v with
  | _ :: _ => if no_creds ps then splice ps P_PASSWORD P_HOST_START ((58 :: v) ++ [64]) (len (58 :: v))
              else setp ps P_PASSWORD (58 :: v)
  | [] => if len (nth P_USERNAME ps []) <=? 0 then splice ps P_PASSWORD P_HOST_START [] 0 else setp ps P_PASSWORD []
  end.

Theorem setter_password ps n f c file v :
  PW ps n -> (6 <= n)%nat -> nth P_HOST ps [] <> [] ->
  let s1 := run true (init_sst (conc ps n f c) file) [OStartPart P_PASSWORD; OAppend v; OSavePart] in
  s_r s1 = conc (password_pieces ps v) n f c /\ s_strp s1 = [].
Proof.
  intros HPW Hn6 Hhost.
  assert (Hlen : length ps = 11%nat) by (destruct HPW; assumption).
  assert (Hnl : (n <= length ps)%nat) by (destruct HPW; lia).
  assert (Hen : en (conc ps n f c) P_PASSWORD = pre 4 ps).
  { rewrite en_conc by exact Hnl. unfold P_PASSWORD. destruct (Nat.ltb_spec 3 n); [reflexivity|lia]. }
  pose proof (pre_S_pos ps n 3 HPW) as Hpos.
  assert (Hfollow : pre 4 ps < len (concat ps)).
  { pose proof (pre_le ps 4 5 ltac:(lia)). pose proof (pre_S 5 ps ltac:(lia)) as H6.
    pose proof (pre_le ps 6 11 ltac:(lia)) as H11. rewrite (pre_all ps 11) in H11 by lia.
    unfold P_HOST in Hhost. destruct (nth 5 ps []) eqn:E5; [exfalso; apply Hhost; reflexivity|].
    rewrite len_cons in H6. lia. }
  cbn [run fold_left step]. unfold v_start_part, set_start_part.
  cbn [init_sst w_curr s_r]. rewrite Hen.
  destruct (N.eqb_spec (pre 4 ps) 0) as [E|_]; [lia|]. cbn [negb].
  replace (len (r_norm (conc ps n f c))) with (len (concat ps)) by reflexivity.
  destruct (N.ltb_spec (pre 4 ps) (len (concat ps))) as [_|E]; [|lia].
  ssimp. cbv beta iota zeta delta [P_USERNAME P_PASSWORD P_HOST_START] in *.
  rewrite has_credentials_conc by (auto; lia).
  rewrite (is_empty_conc ps n f c 2 HPW) by lia. unfold kstart.
  unfold password_pieces, replace_part1. cbv beta iota zeta delta [P_USERNAME P_PASSWORD P_HOST_START].
  destruct v as [|x v].
  - change (len [58] <=? 1) with true. cbn [andb negb].
    destruct (len (nth 2 ps []) <=? 0) eqn:Eu.
    + destruct (replace_part_conc ps n f c 3 4 [] 0 HPW ltac:(lia) ltac:(lia) ltac:(intro; cbn; lia)) as [Hrp _].
      rewrite Hrp. split; reflexivity.
    + destruct (replace_part_conc ps n f c 3 3 [] 0 HPW ltac:(lia) ltac:(lia) ltac:(intro; lia)) as [Hrp _].
      rewrite Hrp. split; reflexivity.
  - assert (Hne : (len (58 :: x :: v) <=? 1) = false) by (rewrite !len_cons; apply N.leb_gt; lia).
    rewrite Hne. cbn [andb negb].
    destruct (no_creds ps) eqn:Enc; cbn [negb].
    + change (58 :: (x :: v) ++ [64]) with ((58 :: x :: v) ++ [64]).
      replace (len ((58 :: x :: v) ++ [64]) - 1) with (len (58 :: x :: v))
        by (rewrite len_app; change (len [64]) with 1; lia).
      destruct (replace_part_conc ps n f c 3 4 ((58 :: x :: v) ++ [64]) (len (58 :: x :: v)) HPW ltac:(lia) ltac:(lia)
                  ltac:(intro; rewrite len_app; lia)) as [Hrp _].
      rewrite Hrp. split; reflexivity.
    + destruct (replace_part_conc ps n f c 3 3 (58 :: x :: v) 0 HPW ltac:(lia) ltac:(lia) ltac:(intro; lia)) as [Hrp _].
      rewrite Hrp. split; reflexivity.
Qed.

(* ---------------------------------------------------------------------------------- *)
(* the piece edits are what the Standard's setters ask for (record level)             *)
(* ---------------------------------------------------------------------------------- *)

Lemma pieces_set_fragment u x :
  pieces (set_fragment u x) = setp (pieces u) P_FRAGMENT (match x with Some f => 35 :: f | None => [] end).
Proof. reflexivity. Qed.

Lemma pieces_set_query u x :
  pieces (set_query u x) = setp (pieces u) P_QUERY (match x with Some q => 63 :: q | None => [] end).
Proof. reflexivity. Qed.

Lemma pieces_set_port u x : is_some (uhost u) = true ->
  pieces (set_port u x) = setp (pieces u) P_PORT (match x with Some p => 58 :: dec_str p | None => [] end).
Proof. intro H. unfold pieces, set_port. cbn [uhost port scheme username password path query fragment]. rewrite H. reflexivity. Qed.

Lemma str_eqb_nil_len (s : str) : str_eqb s [] = (len s <=? 0).
Proof. destruct s; [reflexivity|]. rewrite len_cons. cbn [str_eqb]. symmetry. apply N.leb_gt. lia. Qed.

Lemma pieces_no_creds u : is_some (uhost u) = true -> no_creds (pieces u) = negb (includes_credentials u).
Proof.
  intro H. unfold no_creds, pieces, includes_credentials. rewrite H. cbn [nth P_USERNAME P_PASSWORD andb].
  destruct (username u) as [|a us]; destruct (password u) as [|b pw]; cbn [str_eqb negb orb andb]; rewrite ?len_cons, ?len_nil.
  all: repeat match goal with |- context [?x <=? ?y] => destruct (N.leb_spec x y) end; try reflexivity; lia.
Qed.

Lemma len_cons_leb0 a (s : str) : (len (a :: s) <=? 0) = false.
Proof. rewrite len_cons. apply N.leb_gt. lia. Qed.
Lemma len_cons_leb1 a b (s : str) : (len (a :: b :: s) <=? 1) = false.
Proof. rewrite !len_cons. apply N.leb_gt. lia. Qed.

Lemma middle_cred k (v : str) : (k < 4)%nat ->
  middle k 4 (v ++ [64]) (len v) = v :: repeat [] (4 - k - 1) ++ [[64]].
Proof.
  intro Hk. unfold middle. destruct (Nat.eqb_spec k 4); [lia|].
  rewrite to_nat_len, firstn_len_app. rewrite <- (Nat.add_0_r (length v)), skipn_len_app. reflexivity.
Qed.

Lemma pieces_set_username u v : is_some (uhost u) = true ->
  pieces (set_username u v) = username_pieces (pieces u) v.
Proof.
  intro H. unfold username_pieces. rewrite (pieces_no_creds u H).
  assert (Hpp : path_prefix (set_username u v) = path_prefix u) by reflexivity.
  assert (Hps : path_serialize (set_username u v) = path_serialize u) by reflexivity.
  unfold pieces. rewrite Hpp, Hps. unfold includes_credentials.
  cbn [set_username uhost port scheme username password query fragment]. rewrite H.
  set (A := path_prefix u). set (B := path_serialize u).
  cbn [nth P_USERNAME P_PASSWORD P_HOST_START andb].
  destruct v as [|x v]; destruct (username u) as [|a us]; destruct (password u) as [|b pw];
    cbn [str_eqb negb orb andb]; rewrite ?len_cons_leb0, ?len_cons_leb1, ?len_nil; cbn [N.leb N.compare];
    try reflexivity.
  all: unfold splice, P_USERNAME, P_PASSWORD, P_HOST_START; rewrite ?middle_cred by lia; reflexivity.
Qed.

Lemma pieces_set_password u v : is_some (uhost u) = true ->
  pieces (set_password u v) = password_pieces (pieces u) v.
Proof.
  intro H. unfold password_pieces. rewrite (pieces_no_creds u H).
  assert (Hpp : path_prefix (set_password u v) = path_prefix u) by reflexivity.
  assert (Hps : path_serialize (set_password u v) = path_serialize u) by reflexivity.
  unfold pieces. rewrite Hpp, Hps. unfold includes_credentials.
  cbn [set_password uhost port scheme username password query fragment]. rewrite H.
  set (A := path_prefix u). set (B := path_serialize u).
  cbn [nth P_USERNAME P_PASSWORD P_HOST_START andb].
  destruct v as [|x v]; destruct (username u) as [|a us]; destruct (password u) as [|b pw];
    cbn [str_eqb negb orb andb]; rewrite ?len_cons_leb0, ?len_cons_leb1, ?len_nil; cbn [N.leb N.compare];
    try reflexivity.
  all: unfold splice, P_USERNAME, P_PASSWORD, P_HOST_START; rewrite ?middle_cred by lia; reflexivity.
Qed.

(* ---------------------------------------------------------------------------------- *)
(* the freedom the property grants: offsets of trailing unset parts are 0 or repeat    *)
(* ---------------------------------------------------------------------------------- *)

Fixpoint fix_tail (last : N) (l : list N) : list N :=
  match l with
  | [] => []
  | x :: t => if x =? 0 then last :: fix_tail last t else x :: fix_tail x t
  end.
(* the normal form the correspondence check compares (driver: repr_str): a 0 offset repeats the previous one *)
Definition norm_tail (r : repr) : repr := w_ends r (fix_tail 0 (r_ends r)).

Lemma fix_tail_zeros l0 m : fix_tail l0 (repeat 0 m) = repeat l0 m.
Proof. induction m as [|m IH]; [reflexivity|]. cbn [repeat fix_tail N.eqb]. rewrite IH. reflexivity. Qed.

Lemma last_nonempty_default (A : list N) x d d' : last (x :: A) d = last (x :: A) d'.
Proof. revert x. induction A as [|y A IH]; intro x; [reflexivity|]. change (last (y :: A) d = last (y :: A) d'). apply IH. Qed.

Lemma fix_tail_app (A : list N) : forall l0 m, Forall (fun x => x <> 0) A ->
  fix_tail l0 (A ++ repeat 0 m) = A ++ repeat (last A l0) m.
Proof.
  induction A as [|x A IH]; intros l0 m HA.
  - cbn [app last]. apply fix_tail_zeros.
  - inversion HA as [|? ? Hx HA']; subst. cbn [app fix_tail].
    destruct (N.eqb_spec x 0); [contradiction|]. rewrite IH by exact HA'.
    replace (last (x :: A) l0) with (last A x); [reflexivity|].
    destruct A as [|y A]; [reflexivity|]. change (last (x :: y :: A) l0) with (last (y :: A) l0). apply last_nonempty_default.
Qed.

Lemma last_nth (l : list N) d : last l d = nth (length l - 1) l d.
Proof.
  induction l as [|x l IH]; [reflexivity|]. destruct l as [|y l]; [reflexivity|].
  change (last (x :: y :: l) d) with (last (y :: l) d). rewrite IH. cbn [length]. 
  replace (S (S (length l)) - 1)%nat with (S (length l)) by lia. replace (S (length l) - 1)%nat with (length l) by lia.
  reflexivity.
Qed.

Lemma ends_of_full ps : ends_of ps (length ps) = scan_ends 0 ps.
Proof.
  unfold ends_of. rewrite Nat.sub_diag. cbn [repeat]. rewrite app_nil_r.
  apply firstn_all2. rewrite scan_ends_length. lia.
Qed.

Lemma norm_tail_conc ps n f c : PW ps n -> norm_tail (conc ps n f c) = conc ps 11 f c.
Proof.
  intros [Hlen Hn Hsch Htail]. unfold norm_tail, w_ends, conc. cbn [r_norm r_ends r_flags r_segs]. f_equal.
  unfold ends_of at 1. rewrite fix_tail_app.
  - replace 11%nat with (length ps) by exact Hlen. rewrite ends_of_full.
    set (S0 := scan_ends 0 ps). transitivity (firstn n S0 ++ skipn n S0); [|apply firstn_skipn]. f_equal. subst S0.
    apply (nth_ext _ _ 0 0).
    + rewrite repeat_length, skipn_length, scan_ends_length. reflexivity.
    + intros j Hj. rewrite repeat_length in Hj. rewrite nth_skipn_add, scan_ends_nth by lia.
      assert (Hrep : forall (a : N) m i, (i < m)%nat -> nth i (repeat a m) 0 = a).
      { intros a m. induction m as [|m IH]; intros [|i] Hi; try lia; cbn [repeat nth]; [reflexivity|apply IH; lia]. }
      rewrite Hrep by exact Hj.
      assert (Hl : length (firstn n (scan_ends 0 ps)) = n) by (rewrite firstn_length, scan_ends_length; lia).
      destruct n as [|n']; [lia|].
      rewrite last_nth, Hl. replace (S n' - 1)%nat with n' by lia.
      rewrite nth_firstn_lt, scan_ends_nth by lia.
      rewrite (pre_tail ps (S n') (S n') Htail), (pre_tail ps (S n') (S (S n' + j)) Htail) by lia. reflexivity.
  - apply Forall_forall. intros x Hx. apply (In_nth _ _ 0) in Hx. destruct Hx as [i [Hi Hx]].
    rewrite firstn_length, scan_ends_length in Hi.
    rewrite nth_firstn_lt, scan_ends_nth in Hx by lia. pose proof (pre_pos ps (S i) Hsch ltac:(lia)). lia.
Qed.

(* ---------------------------------------------------------------------------------- *)
(* end to end: the setter's operation sequence on the representation of a record      *)
(* ---------------------------------------------------------------------------------- *)

Lemma concat_nil_nth (l : list str) : concat l = [] -> forall i, nth i l [] = [].
Proof.
  induction l as [|x l IH]; intros H i; [destruct i; reflexivity|].
  cbn [concat] in H. apply app_eq_nil in H. destruct H as [Hx Hl]. destruct i; [exact Hx|]. apply IH. exact Hl.
Qed.

Lemma tail_dichotomy (ps : list str) k :
  (forall j, (k < j)%nat -> nth j ps [] = []) \/ pre (S k) ps < len (concat ps).
Proof.
  destruct (concat (skipn (S k) ps)) as [|x t] eqn:E.
  - left. intros j Hj. pose proof (concat_nil_nth _ E (j - S k)) as H. rewrite nth_skipn_add in H.
    replace (S k + (j - S k))%nat with j in H by lia. exact H.
  - right. rewrite (concat_split ps (S k)), len_app, E, len_cons. unfold pre. lia.
Qed.

Lemma setp_PW_tail ps n k s : PW ps n -> (1 <= k < 11)%nat -> (forall j, (k < j)%nat -> nth j ps [] = []) ->
  PW (setp ps k s) (S k).
Proof.
  intros [Hlen Hn Hsch Htail] Hk Htl. split.
  - unfold setp. rewrite splice_length; lia.
  - lia.
  - rewrite nth_setp by lia. destruct (Nat.eqb_spec 0 k); [lia|exact Hsch].
  - intros j Hj. rewrite nth_setp by lia. destruct (Nat.eqb_spec j k); [lia|]. apply Htl. lia.
Qed.

(* PORT / QUERY / FRAGMENT, whichever of the three ways url_setter::start_part takes: up to the trailing-offset
   freedom the result is the representation of the piece list with piece k set *)
Theorem setter_simple_any ps n f c file k v :
  PW ps n -> (6 <= n)%nat -> (k = P_PORT \/ k = P_QUERY \/ k = P_FRAGMENT) -> (k = P_PORT -> v <> []) ->
  norm_tail (s_r (run true (init_sst (conc ps n f c) file) [OStartPart k; OAppend v; OSavePart])) =
  conc (setp ps k (sepc k ++ v)) 11 f c.
Proof.
  intros HPW Hn6 Hk Hv.
  assert (Hk10 : (6 <= k <= 10)%nat) by (unfold P_PORT, P_QUERY, P_FRAGMENT in Hk; lia).
  destruct (tail_dichotomy ps k) as [Htl|Hfollow].
  - destruct (setter_write_simple ps n f c file k v HPW Hn6 Hk Htl) as [Hr _]. cbv zeta in Hr. rewrite Hr.
    apply norm_tail_conc. apply (setp_PW_tail ps n); auto. lia.
  - assert (Hkn : (k < n)%nat).
    { destruct (Nat.lt_ge_cases k n) as [H|H]; [exact H|]. exfalso.
      destruct HPW as [Hlen Hn Hsch Htail]. rewrite (pre_tail ps n (S k) Htail) in Hfollow by lia. lia. }
    assert (Hk2 : k = P_PORT \/ k = P_QUERY).
    { destruct Hk as [H|[H|H]]; auto. exfalso. subst k. unfold P_FRAGMENT in *.
      destruct HPW as [Hlen Hn Hsch Htail]. rewrite (pre_all ps 11) in Hfollow by lia. lia. }
    destruct (setter_splice_simple ps n f c file k v HPW Hk2 Hkn Hfollow Hv) as [Hr _]. cbv zeta in Hr. rewrite Hr.
    apply norm_tail_conc. pose proof (setp_PW ps n k (sepc k ++ v) HPW ltac:(lia)) as HP.
    replace (Nat.max n (S k)) with n in HP by lia. exact HP.
Qed.

Lemma repr_of_conc u : repr_of u = conc (pieces u) 11 (flags_of u) (segs_of u).
Proof.
  unfold repr_of, conc. rewrite serialize_pieces.
  pose proof (ends_of_full (pieces u)) as H. rewrite (Hl u) in H. rewrite H. reflexivity.
Qed.

Lemma pieces_PW u : scheme u <> [] -> PW (pieces u) 11.
Proof.
  intro Hs. split; [apply Hl|lia|exact Hs|].
  intros k Hk. apply nth_overflow. rewrite Hl. exact Hk.
Qed.

Lemma norm_tail_set_flag r fl : norm_tail (set_flag r fl) = set_flag (norm_tail r) fl.
Proof. reflexivity. Qed.

Lemma run_snoc setter s ops o : run setter s (ops ++ [o]) = step setter (run setter s ops) o.
Proof. unfold run. rewrite fold_left_app. reflexivity. Qed.

Lemma flags_set_fragment u f : N.lor (flags_of u) 1024 = flags_of (set_fragment u (Some f)).
Proof.
  unfold flags_of, set_fragment, has_opaque_path. cbn [uhost port query fragment path is_some].
  destruct (uhost u) as [[| | | |]|]; destruct (port u); destruct (query u); destruct (fragment u); destruct (path u); reflexivity.
Qed.

Lemma flags_set_query u q : N.lor (flags_of u) 512 = flags_of (set_query u (Some q)).
Proof.
  unfold flags_of, set_query, has_opaque_path. cbn [uhost port query fragment path is_some].
  destruct (uhost u) as [[| | | |]|]; destruct (port u); destruct (query u); destruct (fragment u); destruct (path u); reflexivity.
Qed.

Lemma flags_set_port u p : is_some (uhost u) = true -> N.lor (flags_of u) 64 = flags_of (set_port u (Some p)).
Proof.
  unfold flags_of, set_port, has_opaque_path. cbn [uhost port query fragment path is_some].
  destruct (uhost u) as [[| | | |]|]; [| | | | |discriminate]; intros _;
  destruct (port u); destruct (query u); destruct (fragment u); destruct (path u); reflexivity.
Qed.

(* hash setter with a non-empty value: fragment_state with state override = start_part(FRAGMENT), the encoded
   value, save_part, set_flag(FRAGMENT_FLAG) *)
Theorem hash_setter_repr u file f : scheme u <> [] ->
  norm_tail (s_r (run true (init_sst (repr_of u) file) [OStartPart P_FRAGMENT; OAppend f; OSavePart; OSetFlag 1024])) =
  repr_of (set_fragment u (Some f)).
Proof.
  intro Hs.
  change [OStartPart P_FRAGMENT; OAppend f; OSavePart; OSetFlag 1024]
    with ([OStartPart P_FRAGMENT; OAppend f; OSavePart] ++ [OSetFlag 1024]).
  rewrite run_snoc. cbn [step s_r w_r]. rewrite norm_tail_set_flag, repr_of_conc.
  rewrite (setter_simple_any (pieces u) 11 (flags_of u) (segs_of u) file P_FRAGMENT f (pieces_PW u Hs) ltac:(lia)
             ltac:(auto) ltac:(unfold P_FRAGMENT, P_PORT; lia)).
  rewrite repr_of_conc, pieces_set_fragment. unfold set_flag, w_flags, conc. cbn [r_norm r_ends r_flags r_segs].
  rewrite (flags_set_fragment u f). reflexivity.
Qed.

(* search setter with a value (possibly empty after the leading '?') *)
Theorem search_setter_repr u file q : scheme u <> [] ->
  norm_tail (s_r (run true (init_sst (repr_of u) file) [OStartPart P_QUERY; OAppend q; OSavePart; OSetFlag 512])) =
  repr_of (set_query u (Some q)).
Proof.
  intro Hs.
  change [OStartPart P_QUERY; OAppend q; OSavePart; OSetFlag 512]
    with ([OStartPart P_QUERY; OAppend q; OSavePart] ++ [OSetFlag 512]).
  rewrite run_snoc. cbn [step s_r w_r]. rewrite norm_tail_set_flag, repr_of_conc.
  rewrite (setter_simple_any (pieces u) 11 (flags_of u) (segs_of u) file P_QUERY q (pieces_PW u Hs) ltac:(lia)
             ltac:(auto) ltac:(unfold P_QUERY, P_PORT; lia)).
  rewrite repr_of_conc, pieces_set_query. unfold set_flag, w_flags, conc. cbn [r_norm r_ends r_flags r_segs].
  rewrite (flags_set_query u q). reflexivity.
Qed.

(* port setter with a port that is not the scheme's default *)
Theorem port_setter_repr u file p : scheme u <> [] -> is_some (uhost u) = true ->
  norm_tail (s_r (run true (init_sst (repr_of u) file) [OStartPart P_PORT; OAppend (dec_str p); OSavePart; OSetFlag 64])) =
  repr_of (set_port u (Some p)).
Proof.
  intros Hs Hh.
  change [OStartPart P_PORT; OAppend (dec_str p); OSavePart; OSetFlag 64]
    with ([OStartPart P_PORT; OAppend (dec_str p); OSavePart] ++ [OSetFlag 64]).
  rewrite run_snoc. cbn [step s_r w_r]. rewrite norm_tail_set_flag, repr_of_conc.
  rewrite (setter_simple_any (pieces u) 11 (flags_of u) (segs_of u) file P_PORT (dec_str p) (pieces_PW u Hs) ltac:(lia)
             ltac:(auto) ltac:(intros _; apply dec_str_nonempty)).
  rewrite repr_of_conc, (pieces_set_port u (Some p) Hh). unfold set_flag, w_flags, conc. cbn [r_norm r_ends r_flags r_segs].
  rewrite (flags_set_port u p Hh). reflexivity.
Qed.

(* username / password setters (canHaveUsernamePasswordPort: the host is not null and not empty) *)
Theorem username_setter_repr u file v : scheme u <> [] -> is_some (uhost u) = true -> nth P_HOST (pieces u) [] <> [] ->
  s_r (run true (init_sst (repr_of u) file) [OStartPart P_USERNAME; OAppend v; OSavePart]) = repr_of (set_username u v).
Proof.
  intros Hs Hh Hhost. rewrite repr_of_conc.
  destruct (setter_username (pieces u) 11 (flags_of u) (segs_of u) file v (pieces_PW u Hs) ltac:(lia) Hhost) as [Hr _].
  cbv zeta in Hr. rewrite Hr, repr_of_conc, (pieces_set_username u v Hh). reflexivity.
Qed.

Theorem password_setter_repr u file v : scheme u <> [] -> is_some (uhost u) = true -> nth P_HOST (pieces u) [] <> [] ->
  s_r (run true (init_sst (repr_of u) file) [OStartPart P_PASSWORD; OAppend v; OSavePart]) = repr_of (set_password u v).
Proof.
  intros Hs Hh Hhost. rewrite repr_of_conc.
  destruct (setter_password (pieces u) 11 (flags_of u) (segs_of u) file v (pieces_PW u Hs) ltac:(lia) Hhost) as [Hr _].
  cbv zeta in Hr. rewrite Hr, repr_of_conc, (pieces_set_password u v Hh). reflexivity.
Qed.

(* the normal form the extracted model prints (Impl/TraceProto.v) is the one of the theorems *)
Lemma fix_tail_m_eq l : forall a, Impl.TraceProto.fix_tail_m a l = fix_tail a l.
Proof. induction l as [|x l IH]; intro a; [reflexivity|]. cbn [Impl.TraceProto.fix_tail_m fix_tail]. rewrite !IH. reflexivity. Qed.

Lemma norm_tail_m_eq r : Impl.TraceProto.norm_tail_m r = norm_tail r.
Proof. unfold Impl.TraceProto.norm_tail_m, norm_tail, w_ends. rewrite fix_tail_m_eq. reflexivity. Qed.

(* ---------------------------------------------------------------------------------- *)
(* protocol setter: start_scheme, the new scheme, save_scheme                         *)
(* ---------------------------------------------------------------------------------- *)

Lemma upd_same l : forall k v, nth k l 0 = v -> (k < length l)%nat -> upd l k v = l.
Proof.
  induction l as [|x l IH]; intros [|k] v Hv Hk; cbn [length] in Hk; try lia; cbn [upd nth] in *.
  - subst. reflexivity.
  - rewrite IH; [reflexivity|exact Hv|lia].
Qed.

Theorem setter_protocol ps n f c file sch :
  PW ps n -> sch <> [] ->
  let s1 := run true (init_sst (conc ps n f c) file) [OStartScheme; OAppend sch; OSaveScheme] in
  s_r s1 = conc (setp ps 0 sch) n f c /\ s_file s1 = is_file_str sch.
Proof.
  intros HPW Hsch.
  assert (Hlen : length ps = 11%nat) by (destruct HPW; assumption).
  assert (Hn : (1 <= n <= 11)%nat) by (destruct HPW; assumption).
  cbn [run fold_left step]. unfold v_start_scheme, v_save_scheme, do_append.
  cbv beta iota zeta delta [w_r w_last w_strp w_pse w_use w_curr w_tgt w_file init_sst
     s_r s_file s_last s_use s_strp s_pse s_curr s_tgt]. cbn [app].
  unfold replace_part1. change P_SCHEME with 0%nat.
  destruct (replace_part_conc ps n f c 0 0 sch 0 HPW ltac:(lia) ltac:(lia) ltac:(intro; lia)) as [Hrp _].
  rewrite Hrp. fold (setp ps 0 sch).
  assert (Hl2 : length (setp ps 0 sch) = 11%nat) by (unfold setp; rewrite splice_length; lia).
  assert (He0 : nth 0 (ends_of (setp ps 0 sch) n) 0 = len sch).
  { rewrite nth_ends_of by lia. destruct (Nat.ltb_spec 0 n); [|lia].
    rewrite pre_S by lia. rewrite pre_0, nth_setp by lia. cbn [Nat.eqb]. lia. }
  assert (Hset : set_e (conc (setp ps 0 sch) n f c) 0 (len sch) = conc (setp ps 0 sch) n f c).
  { unfold set_e, w_ends, conc. cbn [r_norm r_ends r_flags r_segs]. f_equal.
    apply upd_same; [exact He0|rewrite ends_of_length; lia]. }
  rewrite Hset. split; [reflexivity|].
  f_equal. unfold part_view, conc, E. cbn [r_norm r_ends]. rewrite He0.
  unfold substr. cbn [N.to_nat skipn]. unfold setp. rewrite splice_concat. cbn [firstn concat app].
  rewrite to_nat_len. apply firstn_len_app.
Qed.

(* ---------------------------------------------------------------------------------- *)
(* host setter on a URL whose host is not null: hostStart, the serialized host, hostDone *)
(* ---------------------------------------------------------------------------------- *)

Definition host_flags (f ht : N) : N := N.lor (N.lor (N.ldiff f (7 * 8192)) 32) (ht * 8192).

Lemma part_len_sep ps n f c : PW ps n -> (2 <= n)%nat -> part_len (conc ps n f c) 1 = len (nth 1 ps []).
Proof.
  intros HPW Hn. assert (Hlen : length ps = 11%nat) by (destruct HPW; assumption).
  assert (Hn11 : (n <= 11)%nat) by (destruct HPW; lia).
  unfold part_len. cbn [pred]. rewrite !en_conc by lia.
  destruct (Nat.ltb_spec 1 n); [|lia]. destruct (Nat.ltb_spec 0 n); [|lia].
  rewrite (pre_S 1) by lia. lia.
Qed.

Theorem setter_host_nonnull ps n f c file h ht :
  PW ps n -> (6 <= n)%nat -> len (nth 1 ps []) = 3 -> nth P_PATH_PREFIX ps [] = [] ->
  norm_tail (s_r (run true (init_sst (conc ps n f c) file) [OHostStart; OAppend h; OHostDone ht])) =
  conc (setp ps P_HOST h) 11 (host_flags f ht) c.
Proof.
  intros HPW Hn6 Hsep Hpp.
  assert (Hlen : length ps = 11%nat) by (destruct HPW; assumption).
  assert (Hnl : (n <= length ps)%nat) by (destruct HPW; lia).
  assert (Hen : en (conc ps n f c) P_HOST = pre 6 ps).
  { rewrite en_conc by exact Hnl. unfold P_HOST. destruct (Nat.ltb_spec 5 n); [reflexivity|lia]. }
  pose proof (pre_S_pos ps n 5 HPW) as Hpos.
  cbn [run fold_left step]. unfold v_start_part, set_start_part.
  cbn [init_sst w_curr s_r]. rewrite Hen.
  destruct (N.eqb_spec (pre 6 ps) 0) as [E|_]; [lia|]. cbn [negb].
  replace (len (r_norm (conc ps n f c))) with (len (concat ps)) by reflexivity.
  unfold P_HOST, P_FRAGMENT. cbn [Nat.ltb Nat.leb andb].
  destruct (tail_dichotomy ps 5) as [Htl|Hfollow].
  - (* the host is the last text: in place *)
    rewrite (pre_tail ps 6 6) by (auto; intros; apply Htl; lia). rewrite N.ltb_irrefl.
    pose proof (truncate_conc ps n f c 5 HPW ltac:(lia)) as Htr. cbv zeta in Htr.
    cbn [s_r w_curr init_sst pred] in *. rewrite Htr.
    pose proof (cut_PW ps n 5 HPW ltac:(lia)) as HPWc.
    match goal with |- context [ser_start_part ?s0 5] =>
      pose proof (start_append_save (cut ps 5) 5 f c 5 h s0 HPWc ltac:(lia) ltac:(lia) eq_refl) as Hsas end.
    cbv zeta in Hsas. specialize (Hsas ltac:(cbn; lia)). destruct Hsas as [Hsr _].
    unfold do_host_done, v_save_part, set_save_part.
    match goal with |- context [s_use (do_append ?x h)] =>
      replace (s_use (do_append x h)) with false
        by (unfold do_append, ser_start_part; repeat match goal with |- context [if ?b then _ else _] => destruct b end; reflexivity) end.
    cbn [w_r s_r]. rewrite Hsr. change (sepc 5 ++ h) with h. rewrite setp_cut by (auto; lia).
    assert (HPW6 : PW (setp ps 5 h) 6) by (apply (setp_PW_tail ps n); auto; lia).
    assert (Hemp : r_is_empty (set_host_type (conc (setp ps 5 h) 6 f c) ht) P_PATH_PREFIX = true).
    { unfold r_is_empty, P_PATH_PREFIX, set_host_type, w_flags, E, conc. cbn [r_ends].
      assert (Hl2 : length (setp ps 5 h) = 11%nat) by (destruct HPW6; assumption).
      rewrite !nth_ends_of by lia. reflexivity. }
    rewrite Hemp. cbn [negb].
    unfold set_host_type, w_flags, conc. cbn [r_norm r_ends r_flags r_segs].
    change (mk_repr (concat (setp ps 5 h)) (ends_of (setp ps 5 h) 6) (host_flags f ht) c) with (conc (setp ps 5 h) 6 (host_flags f ht) c).
    apply norm_tail_conc. exact HPW6.
  - (* text follows the host: through strp_ *)
    destruct (N.ltb_spec (pre 6 ps) (len (concat ps))) as [_|E]; [|lia].
    change (part_len (conc ps n f c) P_SCHEME_SEP) with (part_len (conc ps n f c) 1).
    rewrite (part_len_sep ps n f c HPW ltac:(lia)), Hsep.
    unfold do_host_done. ssimp. cbv beta iota zeta delta [P_HOST P_SCHEME_SEP].
    rewrite (part_len_sep ps n f c HPW ltac:(lia)), Hsep. change (3 <? 3) with false. cbn [app].
    unfold replace_part1.
    destruct (replace_part_conc ps n f c 5 5 h 0 HPW ltac:(lia) ltac:(lia) ltac:(intro; lia)) as [Hrp _].
    rewrite Hrp. fold (setp ps 5 h).
    assert (HPWn : PW (setp ps 5 h) n).
    { pose proof (setp_PW ps n 5 h HPW ltac:(lia)) as HP. replace (Nat.max n 6) with n in HP by lia. exact HP. }
    assert (Hemp : r_is_empty (set_host_type (conc (setp ps 5 h) n f c) ht) P_PATH_PREFIX = true).
    { change (set_host_type (conc (setp ps 5 h) n f c) ht) with (conc (setp ps 5 h) n (host_flags f ht) c).
      destruct (Nat.ltb_spec 7 n).
      - rewrite is_empty_conc by (auto; unfold P_PATH_PREFIX; lia). unfold P_PATH_PREFIX in *.
        rewrite nth_setp by lia. cbn [Nat.eqb]. rewrite Hpp. reflexivity.
      - unfold r_is_empty, P_PATH_PREFIX, E, conc. cbn [r_ends].
        assert (Hl2 : length (setp ps 5 h) = 11%nat) by (destruct HPWn; assumption).
        rewrite !nth_ends_of by lia. destruct (Nat.ltb_spec 7 n); [lia|]. destruct (7 <? n)%nat; destruct (6 <? n)%nat; cbn; try reflexivity.
        all: apply N.leb_le; lia. }
    change P_PATH_PREFIX with 7%nat in Hemp. rewrite Hemp. cbn [negb].
    change (set_host_type (conc (setp ps 5 h) n f c) ht) with (conc (setp ps 5 h) n (host_flags f ht) c).
    apply norm_tail_conc. exact HPWn.
Qed.

Lemma pieces_set_host u H : is_some (uhost u) = true ->
  pieces (set_host u (Some H)) = setp (pieces u) P_HOST (host_serialize H).
Proof.
  intro Hh. destruct u as [sc us pw [h0|] po pa qu fr]; [|discriminate]. reflexivity.
Qed.

Lemma flags_set_host u H : is_some (uhost u) = true ->
  flags_of (set_host u (Some H)) = host_flags (flags_of u) (host_type_num H).
Proof.
  intro Hh. destruct u as [sc us pw [h0|] po pa qu fr]; [|discriminate].
  unfold flags_of, set_host, has_opaque_path, host_flags. cbn [uhost port query fragment path is_some].
  destruct h0; destruct H; destruct po; destruct qu; destruct fr; destruct pa; reflexivity.
Qed.

(* host / hostname setter on a URL whose host is not null: hostStart, the serialized host, hostDone(type) *)
Theorem host_setter_repr u file H : scheme u <> [] -> is_some (uhost u) = true ->
  norm_tail (s_r (run true (init_sst (repr_of u) file)
                    [OHostStart; OAppend (host_serialize H); OHostDone (host_type_num H)])) =
  repr_of (set_host u (Some H)).
Proof.
  intros Hs Hh. rewrite repr_of_conc.
  rewrite (setter_host_nonnull (pieces u) 11 (flags_of u) (segs_of u) file (host_serialize H) (host_type_num H)
             (pieces_PW u Hs) ltac:(lia)).
  - rewrite repr_of_conc, (pieces_set_host u H Hh), (flags_set_host u H Hh). reflexivity.
  - unfold pieces. cbn [nth]. rewrite Hh. reflexivity.
  - unfold pieces, P_PATH_PREFIX. cbn [nth]. unfold path_prefix. destruct (uhost u); [reflexivity|discriminate].
Qed.

(* ---------------------------------------------------------------------------------- *)
(* hash("") / search("") / port("") on a URL whose path is a list: clear_part (+ strip, a no-op) *)
(* ---------------------------------------------------------------------------------- *)

Lemma flags_clear_fragment u : N.ldiff (flags_of u) (N.shiftl 1 10) = flags_of (set_fragment u None).
Proof.
  unfold flags_of, set_fragment, has_opaque_path. cbn [uhost port query fragment path is_some].
  destruct (uhost u) as [[| | | |]|]; destruct (port u); destruct (query u); destruct (fragment u); destruct (path u); reflexivity.
Qed.
Lemma flags_clear_query u : N.ldiff (flags_of u) (N.shiftl 1 9) = flags_of (set_query u None).
Proof.
  unfold flags_of, set_query, has_opaque_path. cbn [uhost port query fragment path is_some].
  destruct (uhost u) as [[| | | |]|]; destruct (port u); destruct (query u); destruct (fragment u); destruct (path u); reflexivity.
Qed.
Lemma flags_clear_port u : N.ldiff (flags_of u) (N.shiftl 1 6) = flags_of (set_port u None).
Proof.
  unfold flags_of, set_port, has_opaque_path. cbn [uhost port query fragment path is_some].
  destruct (uhost u) as [[| | | |]|]; destruct (port u); destruct (query u); destruct (fragment u); destruct (path u); reflexivity.
Qed.
Lemma opaque_bit u : r_has_opaque_path (repr_of u) = has_opaque_path u.
Proof.
  unfold r_has_opaque_path, repr_of, flags_of, has_opaque_path. cbn [r_flags].
  destruct (uhost u) as [[| | | |]|]; destruct (port u); destruct (query u); destruct (fragment u); destruct (path u); reflexivity.
Qed.

Theorem hash_clear_repr u file : scheme u <> [] -> has_opaque_path u = false ->
  s_r (run true (init_sst (repr_of u) file) [OClearPart P_FRAGMENT; OStrip]) = repr_of (set_fragment u None).
Proof.
  intros Hs Hop.
  change [OClearPart P_FRAGMENT; OStrip] with ([OClearPart P_FRAGMENT] ++ [OStrip]). rewrite run_snoc.
  assert (H1 : s_r (run true (init_sst (repr_of u) file) [OClearPart P_FRAGMENT]) = repr_of (set_fragment u None)).
  { rewrite repr_of_conc.
    rewrite (setter_clear_part (pieces u) 11 (flags_of u) (segs_of u) file P_FRAGMENT (pieces_PW u Hs)) by (unfold P_FRAGMENT; lia).
    unfold P_FRAGMENT. cbn [Nat.ltb Nat.leb N.of_nat Pos.of_succ_nat Pos.succ]. rewrite repr_of_conc, (pieces_set_fragment u None).
    change (N.pos 10) with 10. rewrite flags_clear_fragment. reflexivity. }
  cbn [step]. unfold do_strip. rewrite H1, opaque_bit. unfold set_fragment, has_opaque_path in *. cbn [path].
  destruct (path u); [discriminate|]. cbn [andb]. exact H1.
Qed.

Theorem search_clear_repr u file : scheme u <> [] -> has_opaque_path u = false ->
  s_r (run true (init_sst (repr_of u) file) [OClearPart P_QUERY; OStrip]) = repr_of (set_query u None).
Proof.
  intros Hs Hop.
  change [OClearPart P_QUERY; OStrip] with ([OClearPart P_QUERY] ++ [OStrip]). rewrite run_snoc.
  assert (H1 : s_r (run true (init_sst (repr_of u) file) [OClearPart P_QUERY]) = repr_of (set_query u None)).
  { rewrite repr_of_conc.
    rewrite (setter_clear_part (pieces u) 11 (flags_of u) (segs_of u) file P_QUERY (pieces_PW u Hs)) by (unfold P_QUERY; lia).
    unfold P_QUERY. cbn [Nat.ltb Nat.leb N.of_nat Pos.of_succ_nat Pos.succ]. rewrite repr_of_conc, (pieces_set_query u None).
    change (N.pos 9) with 9. rewrite flags_clear_query. reflexivity. }
  cbn [step]. unfold do_strip. rewrite H1, opaque_bit. unfold set_query, has_opaque_path in *. cbn [path].
  destruct (path u); [discriminate|]. cbn [andb]. exact H1.
Qed.

Theorem port_clear_repr u file : scheme u <> [] -> is_some (uhost u) = true ->
  s_r (run true (init_sst (repr_of u) file) [OClearPart P_PORT]) = repr_of (set_port u None).
Proof.
  intros Hs Hh. rewrite repr_of_conc.
  rewrite (setter_clear_part (pieces u) 11 (flags_of u) (segs_of u) file P_PORT (pieces_PW u Hs)) by (unfold P_PORT; lia).
  unfold P_PORT. cbn [Nat.ltb Nat.leb N.of_nat Pos.of_succ_nat Pos.succ]. rewrite repr_of_conc, (pieces_set_port u None Hh).
  change (N.pos 6) with 6. rewrite flags_clear_port. reflexivity.
Qed.

(* ---------------------------------------------------------------------------------- *)
(* pathname setter: the path is built in strp_ / path_seg_end_, then committed         *)
(* ---------------------------------------------------------------------------------- *)

(* the text of a list path, and the end offset of every segment in it (path_seg_end_) *)
Definition pstr (segs : list str) : str := concat (map (fun s => 47 :: s) segs).
Fixpoint pends_acc (acc : N) (segs : list str) : list N :=
  match segs with
  | [] => []
  | s :: t => let a := acc + 1 + len s in a :: pends_acc a t
  end.
Definition pends (segs : list str) : list N := pends_acc 0 segs.

(* the scratch members of the setter describe the segment list [segs] *)
Definition PI (s : sst) (segs : list str) : Prop := s_strp s = pstr segs /\ s_pse s = pends segs.

Lemma pstr_snoc segs x : pstr (segs ++ [x]) = pstr segs ++ 47 :: x.
Proof. unfold pstr. rewrite map_app, concat_app. cbn [map concat]. rewrite app_nil_r. reflexivity. Qed.

Lemma len_pstr_cons x segs : len (pstr (x :: segs)) = 1 + len x + len (pstr segs).
Proof. unfold pstr. cbn [map concat]. rewrite len_app, len_cons. lia. Qed.

Lemma pends_acc_snoc segs : forall a x,
  pends_acc a (segs ++ [x]) = pends_acc a segs ++ [a + len (pstr segs) + 1 + len x].
Proof.
  induction segs as [|s t IH]; intros a x.
  - cbn [app pends_acc pstr map concat]. rewrite len_nil. f_equal. lia.
  - cbn [app pends_acc]. rewrite IH. cbn [app]. f_equal. f_equal. f_equal. rewrite len_pstr_cons. lia.
Qed.

Lemma pends_snoc segs x : pends (segs ++ [x]) = pends segs ++ [len (pstr (segs ++ [x]))].
Proof. unfold pends. rewrite pends_acc_snoc, pstr_snoc, len_app, len_cons. f_equal. f_equal. lia. Qed.

Lemma pends_length segs : forall a, length (pends_acc a segs) = length segs.
Proof. induction segs as [|s t IH]; intro a; [reflexivity|]. cbn [pends_acc length]. rewrite IH. reflexivity. Qed.

(* start_path_segment, the segment text, save_path_segment *)
Lemma path_push s segs x : PI s segs ->
  let s1 := v_save_path_segment true (do_append (v_start_path_segment true s) x) in
  PI s1 (segs ++ [x]) /\ s_r s1 = s_r s /\ s_file s1 = s_file s.
Proof.
  destruct s as [r fl la us st pse cu tg]. unfold PI. cbn [s_strp s_pse]. intros [Hs Hp]. subst st pse.
  unfold v_save_path_segment, v_start_path_segment, do_append, w_tgt, w_strp, w_pse.
  cbn [s_r s_file s_last s_use s_strp s_pse s_curr s_tgt]. repeat split.
  - rewrite pstr_snoc, <- app_assoc. reflexivity.
  - rewrite pends_snoc, pstr_snoc, <- app_assoc. reflexivity.
Qed.

(* the Standard's "shorten a url's path" on the segment list *)
Definition shorten_segs (file : bool) (segs : list str) : list str :=
  match segs with
  | [] => []
  | [x] => if file && (match x with [c1; c2] => is_norm_win_drive c1 c2 | _ => false end) then [x] else []
  | _ => removelast segs
  end.

Lemma pends_removelast segs x : pends (segs ++ [x]) = pends segs ++ [len (pstr (segs ++ [x]))].
Proof. apply pends_snoc. Qed.

Lemma path_shorten s segs : PI s segs ->
  PI (set_shorten_path s) (shorten_segs (s_file s) segs) /\ s_r (set_shorten_path s) = s_r s /\
  s_file (set_shorten_path s) = s_file s.
Proof.
  destruct s as [r fl la us st pse cu tg]. unfold PI. cbn [s_strp s_pse s_file s_r]. intros [Hs Hp]. subst st pse.
  unfold set_shorten_path. cbn [s_pse s_strp s_file].
  destruct segs as [|x [|y rest]].
  - cbn. repeat split.
  - cbn [pends pends_acc shorten_segs].
    assert (Hx : pstr [x] = 47 :: x) by (unfold pstr; cbn; rewrite app_nil_r; reflexivity).
    rewrite Hx.
    assert (Hcond : ((len (47 :: x) =? 3) && match 47 :: x with [_; c1; c2] => is_norm_win_drive c1 c2 | _ => false end)
                    = match x with [c1; c2] => is_norm_win_drive c1 c2 | _ => false end).
    { destruct x as [|c1 [|c2 [|c3 r0]]]; try reflexivity; try (apply Bool.andb_false_r);
        try (cbn [andb]; destruct (is_norm_win_drive c1 c2); reflexivity). }
    rewrite <- Bool.andb_assoc, Hcond.
    destruct (fl && match x with [c1; c2] => is_norm_win_drive c1 c2 | _ => false end).
    + cbn [s_strp s_pse s_r s_file]. repeat split. symmetry. exact Hx.
    + unfold w_strp, w_pse. cbn [s_strp s_pse s_r s_file]. repeat split.
  - (* two or more segments: pop the last *)
    assert (Hne : x :: y :: rest <> []) by discriminate.
    destruct (exists_last Hne) as [front [lst Hfl]].
    assert (Hfront : front <> []).
    { intro E. subst front. cbn [app] in Hfl. discriminate. }
    assert (Hsh : shorten_segs fl (x :: y :: rest) = front).
    { cbn [shorten_segs]. rewrite Hfl. apply removelast_last. }
    rewrite Hsh.
    assert (Hpends : pends (x :: y :: rest) = pends front ++ [len (pstr (front ++ [lst]))]) by (rewrite Hfl; apply pends_snoc).
    assert (Hlast : last (pends front) 0 = len (pstr front)).
    { destruct (exists_last Hfront) as [f2 [l2 Hf2]]. rewrite Hf2, pends_snoc, last_last. reflexivity. }
    assert (Hpl : length (pends (x :: y :: rest)) = S (S (length rest))) by (unfold pends; rewrite pends_length; reflexivity).
    destruct (pends (x :: y :: rest)) as [|e0 [|e1 er]] eqn:Epe; [discriminate|discriminate|].
    rewrite Hpends, removelast_last. unfold w_strp, w_pse. cbn [s_strp s_pse s_r s_file]. repeat split.
    rewrite Hlast, Hfl, pstr_snoc. unfold resize. rewrite to_nat_len. apply firstn_len_app.
Qed.

(* commit_path, step 1: "fill part_end_ until PATH if not filled" *)
Definition mixf (ps : list str) (n a : nat) (j : nat) : N :=
  if (j <? n)%nat || ((a <=? j)%nat && (j <=? 8)%nat) then pre (S j) ps else 0.
Definition mix (ps : list str) (n a : nat) : list N := map (mixf ps n a) (seq 0 11).

Lemma nth_mix ps n a j : (j < 11)%nat -> nth j (mix ps n a) 0 = mixf ps n a j.
Proof.
  intro Hj. unfold mix. rewrite (nth_indep _ 0 (mixf ps n a 0)) by (rewrite map_length, seq_length; exact Hj).
  rewrite map_nth, seq_nth by exact Hj. reflexivity.
Qed.

Lemma mix_length ps n a : length (mix ps n a) = 11%nat.
Proof. unfold mix. rewrite map_length, seq_length. reflexivity. Qed.

Lemma ends_of_mix ps n m : length ps = 11%nat -> (n <= 11)%nat -> (9 <= m)%nat -> ends_of ps n = mix ps n m.
Proof.
  intros Hlen Hn Hm. apply (nth_ext _ _ 0 0); [rewrite ends_of_length, mix_length; lia|].
  intros j Hj. rewrite ends_of_length in Hj by lia. rewrite nth_ends_of, nth_mix by lia. unfold mixf.
  destruct (Nat.ltb_spec j n); cbn [orb]; [reflexivity|].
  destruct (Nat.leb_spec m j); destruct (Nat.leb_spec j 8); cbn [andb]; try reflexivity. lia.
Qed.

Lemma fill_back_mix ps n f c : PW ps n -> forall ind, (ind <= 8)%nat ->
  fill_back (mk_repr (concat ps) (mix ps n (S ind)) f c) ind (len (concat ps)) =
  mk_repr (concat ps) (mix ps n (Nat.min (S ind) n)) f c.
Proof.
  intros [Hlen Hn Hsch Htail]. induction ind as [|p IH]; intro Hind.
  - cbn [fill_back]. replace (Nat.min 1 n) with 1%nat by lia. reflexivity.
  - cbn [fill_back]. unfold en, E. cbn [r_ends]. rewrite nth_mix by lia. unfold mixf.
    destruct (Nat.ltb_spec (S p) n) as [Hlt|Hge]; cbn [orb].
    + pose proof (pre_pos ps (S (S p)) Hsch ltac:(lia)). destruct (N.eqb_spec (pre (S (S p)) ps) 0); [lia|]. cbn [negb].
      replace (Nat.min (S (S p)) n) with (S (S p)) by lia. reflexivity.
    + destruct (Nat.leb_spec (S (S p)) (S p)); [lia|]. cbn [andb N.eqb negb].
      replace (Nat.min (S (S p)) n) with (Nat.min (S p) n) by lia. rewrite <- IH by lia. f_equal.
      unfold set_e, w_ends. cbn [r_norm r_ends r_flags r_segs]. f_equal.
      apply (nth_ext _ _ 0 0); [rewrite upd_length, !mix_length; reflexivity|].
      intros j Hj. rewrite upd_length, mix_length in Hj. rewrite nth_upd, mix_length, !nth_mix by lia. unfold mixf.
      destruct (Nat.ltb_spec j 11); [|lia]. destruct (Nat.eqb_spec j (S p)) as [->|Hne]; cbn [andb].
      * destruct (Nat.ltb_spec (S p) n); [lia|]. cbn [orb].
        destruct (Nat.leb_spec (S p) (S p)); [|lia]. destruct (Nat.leb_spec (S p) 8); [|lia]. cbn [andb].
        symmetry. apply (pre_tail ps n); [exact Htail|lia].
      * destruct (Nat.ltb_spec j n); cbn [orb]; [reflexivity|].
        destruct (Nat.leb_spec (S (S p)) j); destruct (Nat.leb_spec (S p) j); destruct (Nat.leb_spec j 8); cbn [andb]; try reflexivity; lia.
Qed.

Lemma fill_back_conc ps n f c : PW ps n ->
  fill_back (conc ps n f c) P_PATH (len (concat ps)) = conc ps (Nat.max n 9) f c.
Proof.
  intro HPW. pose proof HPW as [Hlen Hn Hsch Htail]. unfold conc, P_PATH.
  rewrite (ends_of_mix ps n 9) by lia. rewrite (fill_back_mix ps n f c HPW 8) by lia. f_equal.
  apply (nth_ext _ _ 0 0); [rewrite ends_of_length, mix_length; lia|].
  intros j Hj. rewrite mix_length in Hj. rewrite nth_ends_of, nth_mix by lia. unfold mixf.
  destruct (Nat.ltb_spec j n); destruct (Nat.leb_spec (Nat.min 9 n) j); destruct (Nat.leb_spec j 8);
    destruct (Nat.ltb_spec j (Nat.max n 9)); cbn [orb andb]; try reflexivity; lia.
Qed.

(* commit_path, steps 2-4: splice the path in, set the segment counter, adjust the "/." prefix *)
Lemma part_view_conc ps n f c k : PW ps n -> (1 <= k < n)%nat ->
  part_view (conc ps n f c) k = skipn (N.to_nat (kstart k)) (nth k ps []).
Proof.
  intros HPW Hk. pose proof HPW as [Hlen Hn Hsch Htail].
  destruct k as [|k']; [lia|]. unfold part_view.
  change (E (conc ps n f c) k') with (en (conc ps n f c) k'). change (E (conc ps n f c) (S k')) with (en (conc ps n f c) (S k')).
  rewrite !en_conc by lia. destruct (Nat.ltb_spec k' n); [|lia]. destruct (Nat.ltb_spec (S k') n); [|lia].
  unfold conc. cbn [r_norm].
  rewrite (concat_split ps (S k')), (skipn_nth_cons ps (S k')) by lia. cbn [concat].
  apply substr_part; [reflexivity|]. rewrite (pre_S (S k')) by lia. reflexivity.
Qed.

Lemma setp_same (ps : list str) k : (k < length ps)%nat -> setp ps k (nth k ps []) = ps.
Proof.
  intro Hk. apply (nth_ext _ _ [] []); [unfold setp; rewrite splice_length; try reflexivity; try assumption; lia|].
  intros j Hj. rewrite nth_setp by lia. destruct (Nat.eqb_spec j k) as [->|]; reflexivity.
Qed.

Definition new_prefix (f : N) (segs : list str) : str :=
  if negb (N.testbit f 5) && (1 <? N.of_nat (length segs)) then
    match pstr segs with a :: b :: _ => if (a =? 47) && (b =? 47) then [47; 46] else [] | _ => [] end
  else [].

Theorem commit_path_conc ps n f c s segs :
  PW ps n -> s_r s = conc ps n f c -> PI s segs ->
  (nth P_PATH_PREFIX ps [] = [] \/ nth P_PATH_PREFIX ps [] = [47; 46]) ->
  s_r (v_commit_path true s) =
  conc (setp (setp ps P_PATH (pstr segs)) P_PATH_PREFIX (new_prefix f segs)) (Nat.max n 9) f (N.of_nat (length segs)).
Proof.
  intros HPW Hr [Hs Hp] Hpre. pose proof HPW as [Hlen Hn Hsch Htail].
  unfold v_commit_path. cbn [w_r s_r]. rewrite Hr.
  replace (len (r_norm (conc ps n f c))) with (len (concat ps)) by reflexivity.
  rewrite (fill_back_conc ps n f c HPW).
  set (n' := Nat.max n 9).
  assert (HPW' : PW ps n').
  { split; [exact Hlen|unfold n'; lia|exact Hsch|]. intros k Hk. apply Htail. unfold n' in Hk. lia. }
  unfold replace_part1.
  destruct (replace_part_conc ps n' f c 8 8 (s_strp s) 0 HPW' ltac:(lia) ltac:(unfold n'; lia) ltac:(intro; lia)) as [Hrp _].
  change P_PATH with 8%nat. rewrite Hrp. fold (setp ps 8 (s_strp s)). rewrite Hs, Hp.
  set (ps1 := setp ps 8 (pstr segs)).
  assert (HPW1 : PW ps1 n').
  { pose proof (setp_PW ps n' 8 (pstr segs) HPW' ltac:(lia)) as HP. replace (Nat.max n' 9) with n' in HP by (unfold n'; lia). exact HP. }
  assert (Hl1 : length ps1 = 11%nat) by (destruct HPW1; assumption).
  assert (Hcnt : N.of_nat (length (pends segs)) = N.of_nat (length segs)) by (unfold pends; rewrite pends_length; reflexivity).
  rewrite Hcnt.
  change (w_segs (conc ps1 n' f c) (N.of_nat (length segs))) with (conc ps1 n' f (N.of_nat (length segs))).
  set (c' := N.of_nat (length segs)).
  unfold adjust_path_prefix.
  assert (Hnull : r_is_null (conc ps1 n' f c') P_HOST = negb (N.testbit f 5)) by reflexivity.
  assert (Hsegs : r_segs (conc ps1 n' f c') = c') by reflexivity.
  assert (Hpv : part_view (conc ps1 n' f c') P_PATH = pstr segs).
  { rewrite part_view_conc by (auto; unfold P_PATH, n'; lia). unfold P_PATH, kstart. cbn [N.to_nat skipn].
    unfold ps1. rewrite nth_setp by lia. reflexivity. }
  assert (Hemp : r_is_empty (conc ps1 n' f c') P_PATH_PREFIX = (len (nth 7 ps []) <=? 0)).
  { rewrite is_empty_conc by (auto; unfold P_PATH_PREFIX, n'; lia). unfold P_PATH_PREFIX, kstart, ps1.
    rewrite nth_setp by lia. reflexivity. }
  rewrite Hnull, Hsegs, Hpv, Hemp.
  change (if negb (N.testbit f 5) && (1 <? c') then match pstr segs with a :: b :: _ => if (a =? 47) && (b =? 47) then [47; 46] else [] | _ => [] end else [])
    with (new_prefix f segs).
  unfold P_PATH_PREFIX in *.
  destruct (replace_part_conc ps1 n' f c' 7 7 (new_prefix f segs) 0 HPW1 ltac:(lia) ltac:(unfold n'; lia) ltac:(intro; lia)) as [Hrp2 _].
  fold (setp ps1 7 (new_prefix f segs)) in Hrp2.
  assert (Hnp : new_prefix f segs = [] \/ new_prefix f segs = [47; 46]).
  { unfold new_prefix. destruct (negb (N.testbit f 5) && (1 <? N.of_nat (length segs))); [|left; reflexivity].
    destruct (pstr segs) as [|a [|b t]]; try (left; reflexivity).
    destruct ((a =? 47) && (b =? 47)); [right|left]; reflexivity. }
  assert (H7 : nth 7 ps1 [] = nth 7 ps []) by (unfold ps1; rewrite nth_setp by lia; reflexivity).
  destruct Hpre as [Hold|Hold]; destruct Hnp as [Hnew|Hnew]; rewrite Hold, Hnew; cbn [len length N.of_nat N.leb N.compare Pos.of_succ_nat Pos.succ Pos.compare Pos.compare_cont Bool.eqb negb].
  - (* empty, stays empty *)
    assert (Hs7 : setp ps1 7 [] = ps1) by (rewrite <- Hold, <- H7; apply setp_same; lia).
    rewrite Hs7. reflexivity.
  - unfold replace_part1. rewrite <- Hnew. exact Hrp2.
  - unfold replace_part1. rewrite <- Hnew. exact Hrp2.
  - assert (Hs7 : setp ps1 7 [47; 46] = ps1) by (rewrite <- Hold, <- H7; apply setp_same; lia).
    rewrite Hs7. reflexivity.
Qed.

(* the whole pathname setter: any sequence of "append a segment", "append the empty segment", "shorten" - what
   path_start_state / path_state do with state override - followed by commit_path *)
Inductive pop := PPush (x : str) | PEmpty | PShorten.
Definition cops (o : pop) : list sop :=
  match o with
  | PPush x => [OStartPathSeg; OAppend x; OSavePathSeg]
  | PEmpty => [OAppendEmptySeg]
  | PShorten => [OShortenPath]
  end.
Definition pinterp (file : bool) (segs : list str) (o : pop) : list str :=
  match o with
  | PPush x => segs ++ [x]
  | PEmpty => segs ++ [[]]
  | PShorten => shorten_segs file segs
  end.

Lemma path_push_empty s segs : PI s segs ->
  let s1 := do_append_empty_path_segment true s in
  PI s1 (segs ++ [[]]) /\ s_r s1 = s_r s /\ s_file s1 = s_file s.
Proof.
  destruct s as [r fl la us st pse cu tg]. unfold PI. cbn [s_strp s_pse]. intros [Hs Hp]. subst st pse.
  unfold do_append_empty_path_segment, v_save_path_segment, v_start_path_segment, w_tgt, w_strp, w_pse.
  cbn [s_r s_file s_last s_use s_strp s_pse s_curr s_tgt]. repeat split.
  - rewrite pstr_snoc. reflexivity.
  - rewrite pends_snoc, pstr_snoc. reflexivity.
Qed.

Lemma run_app setter s a b : run setter s (a ++ b) = run setter (run setter s a) b.
Proof. unfold run. apply fold_left_app. Qed.

Lemma path_ops_run : forall l s segs, PI s segs ->
  let s' := run true s (flat_map cops l) in
  PI s' (fold_left (pinterp (s_file s)) l segs) /\ s_r s' = s_r s /\ s_file s' = s_file s.
Proof.
  induction l as [|o l IH]; intros s segs HPI.
  - cbn. split; [exact HPI|split; reflexivity].
  - cbn [flat_map fold_left]. rewrite run_app.
    assert (Hstep : PI (run true s (cops o)) (pinterp (s_file s) segs o) /\ s_r (run true s (cops o)) = s_r s /\
                    s_file (run true s (cops o)) = s_file s).
    { destruct o as [x| |]; cbn [cops run fold_left step pinterp].
      - exact (path_push s segs x HPI).
      - exact (path_push_empty s segs HPI).
      - exact (path_shorten s segs HPI). }
    destruct Hstep as [H1 [H2 H3]].
    specialize (IH (run true s (cops o)) (pinterp (s_file s) segs o) H1). cbv zeta in IH.
    rewrite H3 in IH. destruct IH as [I1 [I2 I3]]. split; [exact I1|split; congruence].
Qed.

Theorem pathname_conc ps n f c file l :
  PW ps n -> (nth P_PATH_PREFIX ps [] = [] \/ nth P_PATH_PREFIX ps [] = [47; 46]) ->
  let segs := fold_left (pinterp file) l [] in
  s_r (run true (init_sst (conc ps n f c) file) (flat_map cops l ++ [OCommitPath])) =
  conc (setp (setp ps P_PATH (pstr segs)) P_PATH_PREFIX (new_prefix f segs)) (Nat.max n 9) f (N.of_nat (length segs)).
Proof.
  intros HPW Hpre. cbv zeta. rewrite run_app.
  assert (HPI0 : PI (init_sst (conc ps n f c) file) []) by (split; reflexivity).
  destruct (path_ops_run l (init_sst (conc ps n f c) file) [] HPI0) as [H1 [H2 H3]]. cbn [init_sst s_file s_r] in *.
  cbn [run fold_left step].
  apply (commit_path_conc ps n f c); assumption.
Qed.

(* record level: the pathname setter's operation sequence gives the representation of the record with the new path *)
Definition no_lead_slash (segs : list str) : Prop :=
  match segs with (47 :: _) :: _ => False | _ => True end.

Lemma pstr_flat_map segs : flat_map (fun seg => 47 :: seg) segs = pstr segs.
Proof. unfold pstr. apply flat_map_concat_map. Qed.

Lemma path_prefix_new u segs : no_lead_slash segs ->
  path_prefix (set_path u (PList segs)) = new_prefix (flags_of u) segs.
Proof.
  intro Hns. unfold new_prefix.
  change (N.testbit (flags_of u) 5) with (bit_ (repr_of u) 5). rewrite bit5.
  unfold path_prefix, set_path. cbn [uhost path].
  destruct (uhost u); cbn [is_some negb andb]; [reflexivity|].
  destruct segs as [|p0 [|p1 rest]].
  - reflexivity.
  - reflexivity.
  - assert (H1 : (1 <? N.of_nat (length (p0 :: p1 :: rest))) = true).
    { apply N.ltb_lt. cbn [length]. lia. }
    rewrite H1. destruct p0 as [|a p0'].
    + cbn [str_eqb]. unfold pstr. cbn [map concat app]. reflexivity.
    + cbn [str_eqb]. unfold pstr. cbn [map concat app]. cbn [no_lead_slash] in Hns.
      destruct (N.eqb_spec a 47) as [->|Hne]; [contradiction|]. change (47 =? 47) with true. cbn [andb]. reflexivity.
Qed.

Lemma pieces_set_path u segs : no_lead_slash segs ->
  pieces (set_path u (PList segs)) =
  setp (setp (pieces u) P_PATH (pstr segs)) P_PATH_PREFIX (new_prefix (flags_of u) segs).
Proof.
  intro Hns. rewrite <- (path_prefix_new u segs Hns).
  unfold pieces at 1. unfold path_serialize at 1. cbn [set_path scheme username password uhost port path query fragment].
  rewrite pstr_flat_map. unfold includes_credentials. cbn [username password]. reflexivity.
Qed.

Lemma flags_set_path u segs : has_opaque_path u = false -> flags_of (set_path u (PList segs)) = flags_of u.
Proof.
  unfold flags_of, set_path, has_opaque_path. cbn [uhost port query fragment path]. destruct (path u); [discriminate|reflexivity].
Qed.

Theorem pathname_setter_repr u file l : scheme u <> [] -> has_opaque_path u = false ->
  let segs := fold_left (pinterp file) l [] in
  no_lead_slash segs ->
  s_r (run true (init_sst (repr_of u) file) (flat_map cops l ++ [OCommitPath])) = repr_of (set_path u (PList segs)).
Proof.
  intros Hs Hop segs Hns. rewrite repr_of_conc.
  rewrite (pathname_conc (pieces u) 11 (flags_of u) (segs_of u) file l (pieces_PW u Hs)).
  - fold segs. rewrite repr_of_conc, (pieces_set_path u segs Hns), (flags_set_path u segs Hop). reflexivity.
  - unfold pieces, P_PATH_PREFIX. cbn [nth]. unfold path_prefix.
    destruct (uhost u); [left; reflexivity|]. destruct (path u) as [|[|p0 [|p1 r]]]; try (left; reflexivity).
    destruct (str_eqb p0 []); [right|left]; reflexivity.
Qed.

(* ---------------------------------------------------------------------------------- *)
(* host setter on a URL whose host is null: "://" is inserted, the "/." prefix removed  *)
(* ---------------------------------------------------------------------------------- *)

Theorem setter_host_null ps n f c file h ht :
  PW ps n -> (9 <= n)%nat -> len (nth 1 ps []) = 1 -> pre 6 ps < len (concat ps) ->
  s_r (run true (init_sst (conc ps n f c) file) [OHostStart; OAppend h; OHostDone ht]) =
  conc (setp (splice ps 1 5 ([58; 47; 47] ++ h) 3) P_PATH_PREFIX []) n (host_flags f ht) c.
Proof.
  intros HPW Hn9 Hsep Hfollow.
  assert (Hlen : length ps = 11%nat) by (destruct HPW; assumption).
  assert (Hnl : (n <= length ps)%nat) by (destruct HPW; lia).
  assert (Hen : en (conc ps n f c) P_HOST = pre 6 ps).
  { rewrite en_conc by exact Hnl. unfold P_HOST. destruct (Nat.ltb_spec 5 n); [reflexivity|lia]. }
  pose proof (pre_S_pos ps n 5 HPW) as Hpos.
  cbn [run fold_left step]. unfold v_start_part, set_start_part.
  cbn [init_sst w_curr s_r]. rewrite Hen.
  destruct (N.eqb_spec (pre 6 ps) 0) as [E|_]; [lia|]. cbn [negb].
  replace (len (r_norm (conc ps n f c))) with (len (concat ps)) by reflexivity.
  unfold P_HOST, P_FRAGMENT. cbn [Nat.ltb Nat.leb andb].
  destruct (N.ltb_spec (pre 6 ps) (len (concat ps))) as [_|E]; [|lia].
  change (part_len (conc ps n f c) P_SCHEME_SEP) with (part_len (conc ps n f c) 1).
  rewrite (part_len_sep ps n f c HPW ltac:(lia)), Hsep.
  unfold do_host_done. ssimp. cbv beta iota zeta delta [P_HOST P_SCHEME_SEP].
  rewrite (part_len_sep ps n f c HPW ltac:(lia)), Hsep. change (1 <? 3) with true. cbn [app].
  destruct (replace_part_conc ps n f c 1 5 (58 :: 47 :: 47 :: h) 3 HPW ltac:(lia) ltac:(lia)
              ltac:(intro; rewrite !len_cons; lia)) as [Hrp _].
  rewrite Hrp.
  set (ps1 := splice ps 1 5 (58 :: 47 :: 47 :: h) 3).
  assert (Hl1 : length ps1 = 11%nat) by (unfold ps1; rewrite splice_length; lia).
  assert (HPW1 : PW ps1 n).
  { destruct HPW as [_ Hn Hsch Htail]. split; [exact Hl1|exact Hn| |].
    - unfold ps1, splice. cbn [firstn]. destruct ps as [|p0 ps']; [cbn in Hlen; lia|]. exact Hsch.
    - intros k Hk. unfold ps1, splice. rewrite app_nth2 by (rewrite firstn_length; lia).
      rewrite firstn_length, Hlen. replace (Nat.min 1 11) with 1%nat by lia.
      rewrite app_nth2 by (rewrite middle_length; lia). rewrite middle_length by lia.
      rewrite nth_skipn_add. replace (6 + (k - 1 - (5 - 1 + 1)))%nat with k by lia. apply Htail. exact Hk. }
  change (set_host_type (conc ps1 n f c) ht) with (conc ps1 n (host_flags f ht) c).
  destruct (replace_part_conc ps1 n (host_flags f ht) c 7 7 [] 0 HPW1 ltac:(lia) ltac:(lia) ltac:(intro; lia)) as [Hrp2 _].
  fold (setp ps1 7 []) in Hrp2. unfold replace_part1.
  rewrite (is_empty_conc ps1 n (host_flags f ht) c 7 HPW1) by lia. unfold kstart.
  destruct (len (nth 7 ps1 []) <=? 0) eqn:E7; cbn [negb].
  - (* no prefix to remove: the piece is already empty *)
    assert (H7 : nth 7 ps1 [] = []) by (apply len_0; apply N.leb_le in E7; lia).
    unfold P_PATH_PREFIX. assert (Hs7 : setp ps1 7 [] = ps1) by (rewrite <- H7 at 1; apply setp_same; lia). rewrite Hs7. reflexivity.
  - exact Hrp2.
Qed.

Lemma flags_set_host_null u H : uhost u = None -> port u = None ->
  flags_of (set_host u (Some H)) = host_flags (flags_of u) (host_type_num H).
Proof.
  intros Hh Hp. destruct u as [sc us pw ho po pa qu fr]. cbn [uhost port] in *. subst ho po.
  unfold flags_of, set_host, has_opaque_path, host_flags. cbn [uhost port query fragment path is_some].
  destruct H; destruct qu; destruct fr; destruct pa; reflexivity.
Qed.

Theorem host_setter_null_repr u file H :
  scheme u <> [] -> uhost u = None -> username u = [] -> password u = [] -> port u = None ->
  path_serialize u <> [] ->
  s_r (run true (init_sst (repr_of u) file)
         [OHostStart; OAppend (host_serialize H); OHostDone (host_type_num H)]) =
  repr_of (set_host u (Some H)).
Proof.
  intros Hs Hh Hus Hpw Hpo Hpath. rewrite repr_of_conc.
  assert (Hpieces : pieces u = [scheme u; [58]; []; []; []; []; []; path_prefix u; path_serialize u;
                                 match query u with Some q => 63 :: q | None => [] end;
                                 match fragment u with Some f => 35 :: f | None => [] end]).
  { unfold pieces. rewrite Hh. reflexivity. }
  rewrite (setter_host_null (pieces u) 11 (flags_of u) (segs_of u) file (host_serialize H) (host_type_num H)
             (pieces_PW u Hs) ltac:(lia)).
  - rewrite repr_of_conc, (flags_set_host_null u H Hh Hpo). f_equal.
    rewrite Hpieces.
    assert (Hps : path_serialize (set_host u (Some H)) = path_serialize u) by reflexivity.
    unfold pieces. rewrite Hps. unfold set_host, includes_credentials, path_prefix.
    cbn [uhost port scheme username password path query fragment is_some]. rewrite Hus, Hpw, Hpo.
    cbn [str_eqb negb orb andb].
    cbv [setp splice middle firstn skipn app Nat.eqb Nat.sub repeat N.to_nat Pos.to_nat Pos.iter_op Nat.add P_PATH_PREFIX].
    reflexivity.
  - rewrite Hpieces. reflexivity.
  - assert (H9 : pre 9 (pieces u) <= len (concat (pieces u))).
    { rewrite <- (pre_all (pieces u) 11) by (rewrite Hl; lia). apply pre_le. lia. }
    assert (H6 : pre 6 (pieces u) <= pre 8 (pieces u)) by (apply pre_le; lia).
    pose proof (pre_S 8 (pieces u) ltac:(rewrite Hl; lia)) as H8.
    assert (Hn8 : nth 8 (pieces u) [] = path_serialize u) by (rewrite Hpieces; reflexivity).
    rewrite Hn8 in H8. destruct (path_serialize u) as [|x t]; [contradiction|]. rewrite len_cons in H8. lia.
Qed.

(* protocol setter at record level (the scheme changes, nothing else; the default-port rule is a separate clear_part) *)
Theorem protocol_setter_repr u file sch : scheme u <> [] -> sch <> [] ->
  let s1 := run true (init_sst (repr_of u) file) [OStartScheme; OAppend sch; OSaveScheme] in
  s_r s1 = repr_of (set_scheme u sch) /\ s_file s1 = is_file_str sch.
Proof.
  intros Hs Hsch. cbv zeta. rewrite repr_of_conc.
  destruct (setter_protocol (pieces u) 11 (flags_of u) (segs_of u) file sch (pieces_PW u Hs) Hsch) as [Hr Hf].
  cbv zeta in Hr, Hf. rewrite Hr, Hf. split; [|reflexivity]. rewrite repr_of_conc. reflexivity.
Qed.

(* ---------------------------------------------------------------------------------- *)
(* potentially_strip_trailing_spaces_from_an_opaque_path                               *)
(* ---------------------------------------------------------------------------------- *)

Lemma strip_spaces_rev_cons x t : strip_spaces_rev (x :: t) = if x =? 32 then strip_spaces_rev t else x :: t.
Proof.
  destruct (N.eqb_spec x 32) as [->|Hne]; [reflexivity|].
  destruct x as [|p]; [reflexivity|].
  repeat (destruct p as [p|p|]; try reflexivity). exfalso. apply Hne. reflexivity.
Qed.

Lemma strip_spaces_rev_drop l : strip_spaces_rev l = drop_while (fun c => c =? 32) l.
Proof.
  induction l as [|x t IH]; [reflexivity|]. rewrite strip_spaces_rev_cons. cbn [drop_while].
  destruct (x =? 32); [exact IH|reflexivity].
Qed.

Lemma drop_while_app_stop (X Y : str) y : (y =? 32) = false ->
  drop_while (fun c => c =? 32) (X ++ y :: Y) = drop_while (fun c => c =? 32) X ++ y :: Y.
Proof.
  intro Hy. induction X as [|x X IH]; cbn [app drop_while].
  - rewrite Hy. reflexivity.
  - destruct (x =? 32); [exact IH|reflexivity].
Qed.

(* the string in front of the opaque path ends with a code unit that is not a space (the ':' of the scheme) *)
Lemma strip_concat (A P : str) a : (a =? 32) = false ->
  rev (strip_spaces_rev (rev ((A ++ [a]) ++ P))) = (A ++ [a]) ++ strip_trailing_spaces P.
Proof.
  intro Ha. rewrite strip_spaces_rev_drop, !rev_app_distr. cbn [rev app].
  rewrite (drop_while_app_stop (rev P) (rev A) a Ha). rewrite rev_app_distr. cbn [rev]. rewrite rev_involutive.
  unfold strip_trailing_spaces. reflexivity.
Qed.

Theorem strip_conc ps n f c s A a :
  PW ps n -> (9 <= n)%nat -> s_r s = conc ps n f c ->
  N.testbit f 11 = true -> N.testbit f 10 = false -> N.testbit f 9 = false ->
  concat (firstn 8 ps) = A ++ [a] -> (a =? 32) = false ->
  nth 9 ps [] = [] -> nth 10 ps [] = [] ->
  s_r (do_strip s) = conc (setp ps P_PATH (strip_trailing_spaces (nth 8 ps []))) n f c.
Proof.
  intros HPW Hn9 Hr Hb11 Hb10 Hb9 HA Ha H9 H10. pose proof HPW as [Hlen Hn Hsch Htail].
  unfold do_strip. rewrite Hr.
  assert (Hop : r_has_opaque_path (conc ps n f c) = true) by exact Hb11.
  assert (Hnf : r_is_null (conc ps n f c) P_FRAGMENT = true) by (unfold r_is_null; change (N.of_nat P_FRAGMENT) with 10; unfold conc; cbn [r_flags]; rewrite Hb10; reflexivity).
  assert (Hnq : r_is_null (conc ps n f c) P_QUERY = true) by (unfold r_is_null; change (N.of_nat P_QUERY) with 9; unfold conc; cbn [r_flags]; rewrite Hb9; reflexivity).
  rewrite Hop, Hnf, Hnq. cbn [andb w_r s_r].
  set (P := nth 8 ps []).
  assert (Ht9 : forall j, (9 <= j)%nat -> nth j ps [] = []).
  { intros j Hj. destruct (Nat.eq_dec j 9) as [->|]; [exact H9|]. destruct (Nat.eq_dec j 10) as [->|]; [exact H10|]. apply nth_overflow; lia. }
  assert (Hnorm : concat ps = (A ++ [a]) ++ P).
  { rewrite (concat_split ps 8), HA. f_equal. rewrite (skipn_nth_cons ps 8) by lia. cbn [concat]. fold P.
    rewrite (concat_skipn_nil ps 9 9 Ht9) by lia.
    apply app_nil_r. }
  set (ps1 := setp ps 8 (strip_trailing_spaces P)).
  assert (Hl1 : length ps1 = 11%nat) by (unfold ps1, setp; rewrite splice_length; lia).
  assert (Hc1 : concat ps1 = (A ++ [a]) ++ strip_trailing_spaces P).
  { unfold ps1, setp. rewrite splice_concat, HA.
    rewrite (concat_skipn_nil ps 9 9 Ht9) by lia.
    rewrite app_nil_r. reflexivity. }
  unfold w_ends, w_norm, conc. cbn [r_norm r_ends r_flags r_segs]. change P_PATH with 8%nat. fold P. fold ps1.
  rewrite Hnorm, (strip_concat A P a Ha). f_equal; [symmetry; exact Hc1|].
  apply (nth_ext _ _ 0 0); [rewrite set_while_nz_from_length, !ends_of_length; lia|].
  intros j Hj. rewrite set_while_nz_from_length, ends_of_length in Hj by lia.
  rewrite (nth_set_while_nz_from _ 8 n _ j).
  - rewrite !nth_ends_of by lia.
    assert (Hpre1 : forall i, (i <= 8)%nat -> pre i ps1 = pre i ps).
    { intros i Hi. unfold ps1, setp. rewrite pre_splice by (lia || (intro; lia)). destruct (Nat.leb_spec i 8); [reflexivity|lia]. }
    destruct (Nat.leb_spec 8 j); destruct (Nat.ltb_spec j n); cbn [andb]; try reflexivity.
    + (* from PATH on: the new length *)
      assert (Htail1 : forall k, (9 <= k)%nat -> nth k ps1 [] = []).
      { intros k Hk. unfold ps1. rewrite nth_setp by lia. destruct (Nat.eqb_spec k 8); [lia|].
        destruct (Nat.eq_dec k 9) as [->|]; [exact H9|]. destruct (Nat.eq_dec k 10) as [->|]; [exact H10|]. apply nth_overflow; lia. }
      rewrite (pre_tail ps1 9 (S j) Htail1) by lia. rewrite Hc1. reflexivity.
    + symmetry. apply Hpre1. lia.
  - lia.
  - rewrite ends_of_length; lia.
  - intros i Hi. rewrite nth_ends_of by lia. destruct (Nat.ltb_spec i n); [|lia].
    pose proof (pre_pos ps (S i) Hsch ltac:(lia)). lia.
  - rewrite nth_ends_of by lia. destruct (Nat.ltb_spec n n); [lia|reflexivity].
Qed.

(* hash("") on a URL with an opaque path and no query: clear_part(FRAGMENT), then the trailing spaces of the path go *)
Theorem hash_clear_opaque_repr u file P : scheme u <> [] -> uhost u = None -> path u = POpaque P -> query u = None ->
  s_r (run true (init_sst (repr_of u) file) [OClearPart P_FRAGMENT; OStrip]) =
  repr_of (potentially_strip (set_fragment u None)).
Proof.
  intros Hs Hh Hp Hq.
  change [OClearPart P_FRAGMENT; OStrip] with ([OClearPart P_FRAGMENT] ++ [OStrip]). rewrite run_snoc.
  set (u1 := set_fragment u None).
  assert (H1 : s_r (run true (init_sst (repr_of u) file) [OClearPart P_FRAGMENT]) = repr_of u1).
  { rewrite repr_of_conc.
    rewrite (setter_clear_part (pieces u) 11 (flags_of u) (segs_of u) file P_FRAGMENT (pieces_PW u Hs)) by (unfold P_FRAGMENT; lia).
    unfold P_FRAGMENT. cbn [Nat.ltb Nat.leb N.of_nat Pos.of_succ_nat Pos.succ]. unfold u1. rewrite repr_of_conc, (pieces_set_fragment u None).
    change (N.pos 10) with 10. rewrite flags_clear_fragment. reflexivity. }
  cbn [step].
  assert (Hs1 : scheme u1 <> []) by exact Hs.
  assert (Hpieces : pieces u1 = [scheme u; [58]; []; []; []; []; []; []; P; []; []]).
  { unfold pieces, u1, set_fragment, path_prefix, path_serialize. cbn [uhost port scheme username password path query fragment is_some].
    rewrite Hh, Hp, Hq. reflexivity. }
  pose proof (strip_conc (pieces u1) 11 (flags_of u1) (segs_of u1)
                (run true (init_sst (repr_of u) file) [OClearPart P_FRAGMENT]) (scheme u) 58
                (pieces_PW u1 Hs1) ltac:(lia)) as Hst.
  rewrite H1, repr_of_conc in Hst. specialize (Hst eq_refl).
  assert (Hfl : flags_of u1 = 269 + 2048).
  { unfold flags_of, u1, set_fragment, has_opaque_path. cbn [uhost port query fragment path is_some]. rewrite Hh, Hp, Hq. reflexivity. }
  rewrite Hfl in Hst. specialize (Hst eq_refl eq_refl eq_refl).
  rewrite Hpieces in Hst. specialize (Hst eq_refl eq_refl eq_refl eq_refl). cbn [nth] in Hst.
  rewrite Hst. unfold potentially_strip, u1, set_fragment. cbn [path fragment query is_some]. rewrite Hp, Hq. cbn [orb].
  rewrite repr_of_conc. unfold conc. f_equal.
  - unfold pieces, set_path, path_prefix, path_serialize. cbn [uhost port scheme username password path query fragment is_some].
    rewrite Hh. reflexivity.
  - unfold pieces, set_path, path_prefix, path_serialize. cbn [uhost port scheme username password path query fragment is_some].
    rewrite Hh. reflexivity.
  - unfold flags_of, set_path, has_opaque_path. cbn [uhost port query fragment path is_some]. rewrite Hh. reflexivity.
Qed.

(* ---------------------------------------------------------------------------------- *)
(* url_serializer (the writer a PARSE uses): the path is written directly into norm_url_ *)
(* ---------------------------------------------------------------------------------- *)

(* first segment: start_part(PATH) from the last written part m-1 >= HOST_START, "/", the text, save_part, counter *)
Lemma ser_start_part_tgt s k : s_tgt (ser_start_part s k) = false.
Proof.
  unfold ser_start_part. destruct ((s_last s =? P_PATH)%nat && (k =? P_PATH)%nat); [reflexivity|].
  repeat match goal with |- context [let '(_, _) := ?x in _] => destruct x end. reflexivity.
Qed.

Lemma ser_path_push_first ps m f c seg s0 :
  PW ps m -> (5 <= m <= 8)%nat -> s_r s0 = conc ps m f c -> s_last s0 = (m - 1)%nat ->
  let s1 := v_save_path_segment false (do_append (v_start_path_segment false s0) seg) in
  s_r s1 = conc (setp ps P_PATH (47 :: seg)) 9 f (c + 1) /\ s_last s1 = P_PATH.
Proof.
  intros HPW Hm Hr Hl.
  pose proof (start_append_save ps m f c 8 (47 :: seg) s0 HPW ltac:(lia) ltac:(lia) Hr Hl) as Hsas. cbv zeta in Hsas.
  destruct Hsas as [Hsr Hsl]. cbv zeta.
  unfold v_save_path_segment, v_start_path_segment, v_start_part, v_save_part. change P_PATH with 8%nat.
  pose proof (ser_start_part_tgt s0 8) as Htg.
  destruct (ser_start_part s0 8) as [r1 fl la us st pse cu tg]. cbn [s_tgt] in Htg. subst tg.
  unfold do_append, ser_save_part, w_r, app_norm, w_norm, set_e, w_ends, w_segs in *.
  cbn [s_tgt s_r s_last s_file s_use s_strp s_pse s_curr r_norm r_ends r_flags r_segs] in *.
  change (sepc 8 ++ 47 :: seg) with (47 :: seg) in Hsr. subst la.
  rewrite <- app_assoc. cbn [app]. split; [|reflexivity].
  unfold conc in *. inversion Hsr as [[Hn He Hf Hc]]. reflexivity.
Qed.

(* further segments: "continue on path" *)
Lemma ser_path_push_next ps f c seg s0 :
  PW ps 9 -> s_r s0 = conc ps 9 f c -> s_last s0 = P_PATH ->
  let s1 := v_save_path_segment false (do_append (v_start_path_segment false s0) seg) in
  s_r s1 = conc (setp ps P_PATH (nth 8 ps [] ++ 47 :: seg)) 9 f (c + 1) /\ s_last s1 = P_PATH.
Proof.
  intros HPW Hr Hl. pose proof HPW as [Hlen Hn Hsch Htail]. cbv zeta.
  unfold v_save_path_segment, v_start_path_segment, v_start_part, v_save_part, ser_start_part.
  rewrite Hl. change (P_PATH =? P_PATH)%nat with true. cbn [andb].
  destruct s0 as [r0 fl la us st pse cu tg]. cbn [s_r s_last] in Hr, Hl. subst r0 la.
  unfold do_append, ser_save_part, w_r, w_tgt, app_norm, w_norm, set_e, w_ends, w_segs.
  cbn [s_tgt s_r s_last s_file s_use s_strp s_pse s_curr r_norm r_ends r_flags r_segs conc].
  split; [|reflexivity]. change P_PATH with 8%nat. set (P := nth 8 ps []).
  assert (Hnorm : concat ps = concat (firstn 8 ps) ++ P).
  { rewrite (concat_split ps 8) at 1. f_equal. rewrite (skipn_nth_cons ps 8) by lia. cbn [concat]. fold P.
    rewrite (concat_skipn_nil ps 9 9 Htail) by lia. apply app_nil_r. }
  set (ps1 := setp ps 8 (P ++ 47 :: seg)).
  assert (Hl1 : length ps1 = 11%nat) by (unfold ps1, setp; rewrite splice_length; lia).
  assert (Hc1 : concat ps1 = (concat ps ++ [47]) ++ seg).
  { unfold ps1, setp. rewrite splice_concat, (concat_skipn_nil ps 9 9 Htail) by lia. rewrite app_nil_r, Hnorm, <- !app_assoc. reflexivity. }
  unfold conc. f_equal; [symmetry; exact Hc1|].
  apply (nth_ext _ _ 0 0); [rewrite upd_length, !ends_of_length; lia|].
  intros j Hj. rewrite upd_length, ends_of_length in Hj by lia.
  rewrite nth_upd, ends_of_length, !nth_ends_of by lia.
  destruct (Nat.ltb_spec j (length ps)); [|lia]. destruct (Nat.eqb_spec j 8) as [->|Hne]; cbn [andb].
  - destruct (Nat.ltb_spec 8 9); [|lia].
    assert (Ht1 : forall k, (9 <= k)%nat -> nth k ps1 [] = []).
    { intros k Hk. unfold ps1. rewrite nth_setp by lia. destruct (Nat.eqb_spec k 8); [lia|]. apply Htail. exact Hk. }
    rewrite (pre_tail ps1 9 9 Ht1) by lia. rewrite Hc1. reflexivity.
  - destruct (Nat.ltb_spec j 9); [|reflexivity].
    unfold ps1, setp. rewrite pre_splice by (lia || (intro; lia)). destruct (Nat.leb_spec (S j) 8); [reflexivity|lia].
Qed.
