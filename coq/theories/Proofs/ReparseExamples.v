(* C02 — the exception spelled out, a boolean test for [Canon], and the examples showing that
   each additional clause of [Canon2] is needed for reparse. *)
From Upa Require Import Base.Prelude Spec.CodePoints Spec.Utf Spec.Percent Spec.Ip Spec.Url Impl.Parser.
From Upa Require Import Proofs.SearchParamsProofs Proofs.CanonDefs Proofs.CanonStep Proofs.CanonProofs
  Proofs.ReparseDefs Proofs.ReparseProofs Proofs.Canon2Step Proofs.Canon2Proofs.
From Coq Require Import ZifyBool ZifyN ZifyNat.
From Coq Require String.
Import String.StringSyntax.
Local Open Scope N_scope.

(* ---------------------------------------------------------------------------------- *)
(* the exception, spelled out                                                         *)
(* ---------------------------------------------------------------------------------- *)
Lemma host_is_localhost_spec ho :
  host_is_localhost ho = true <-> exists d, ho = Some (HDomain d) /\ d = s_localhost.
Proof.
  split.
  - destruct ho as [[d|a|a|o|]|]; cbn [host_is_localhost host_eq_localhost]; try discriminate.
    intro H. apply str_eqb_spec in H. exists d. split; [reflexivity|exact H].
  - intros (d & -> & ->). reflexivity.
Qed.

Lemma quirky_drive_spec s :
  quirky_drive s = true <-> exists a b, s = [a; b] /\ is_ascii_alpha a = true /\ b = 124.
Proof.
  unfold quirky_drive, is_windows_drive_letter, is_normalized_windows_drive_letter. split.
  - destruct s as [|a [|b [|x r]]]; try discriminate. intro H. exists a, b. split; [reflexivity|].
    destruct (is_ascii_alpha a); [|discriminate]. split; [reflexivity|]. cbn [andb] in H.
    destruct (N.eqb_spec b 58); [discriminate|]. cbn [orb negb] in H. rewrite andb_true_r in H.
    apply N.eqb_eq. exact H.
  - intros (a & b & -> & Ha & ->). rewrite Ha. reflexivity.
Qed.

Lemma filequirk_spec u :
  FileQuirk u <->
  scheme u = s_file /\
  ((exists d, uhost u = Some (HDomain d) /\ d = s_localhost) \/
   (exists a b l, path u = PList ([a; b] :: l) /\ is_ascii_alpha a = true /\ b = 124)).
Proof.
  unfold FileQuirk, file_quirk, is_file. rewrite andb_true_iff, orb_true_iff, str_eqb_spec, host_is_localhost_spec.
  assert (E : first_seg_quirky (path u) = true <->
              exists a b l, path u = PList ([a; b] :: l) /\ is_ascii_alpha a = true /\ b = 124).
  { unfold first_seg_quirky. split.
    - destruct (path u) as [o|[|s l]]; try discriminate. intro H. apply quirky_drive_spec in H.
      destruct H as (a & b & -> & H). exists a, b, l. split; [reflexivity|exact H].
    - intros (a & b & l & -> & H). apply quirky_drive_spec. exists a, b. split; [reflexivity|exact H]. }
  rewrite E. reflexivity.
Qed.

(* ---------------------------------------------------------------------------------- *)
(* a boolean test for Canon (sound)                                                   *)
(* ---------------------------------------------------------------------------------- *)
Definition fa (p : N -> bool) (s : str) : bool := forallb p s.

Lemma fa_Forall (p : N -> bool) (P : N -> Prop) s : (forall c, p c = true -> P c) -> fa p s = true -> Forall P s.
Proof. intros H Hf. unfold fa in Hf. rewrite forallb_forall in Hf. apply Forall_forall. intros c Hc. apply H, Hf, Hc. Qed.

Definition scheme_b (s : str) : bool :=
  match s with [] => false | c :: r => is_ascii_lower_alpha c && fa scheme_tail r end.
Definition dchar_b c := negb (forbidden_domain c) && negb (is_ascii_upper_alpha c) && (c <? 128).
Definition ohchar_b c := negb (c0_control_encode c) && negb (forbidden_host c).
Definition host_b (h : host) : bool :=
  match h with
  | HDomain d => negb (str_eqb d []) && fa dchar_b d
  | HOpaque o => negb (str_eqb o []) && fa ohchar_b o
  | HIpv4 a => a <? 4294967296
  | HIpv6 p => (length p =? 8)%nat && fa (fun x => x <? 65536) p
  | HEmpty => true
  end.
Definition qchar_b (sp : bool) c := negb (query_encode c) && (negb sp || negb (c =? 39)).
Definition segchar_b (sp : bool) c := negb (path_encode c) && negb (c =? 47) && (negb sp || negb (c =? 92)).
Definition ochar_b c := negb (c0_control_encode c) && negb (c =? 63) && negb (c =? 35).
Definition ui_b c := negb (userinfo_encode c).

Definition canon_b (u : url) : bool :=
  let sp := is_special u in
  scheme_b (scheme u) &&
  match port u with Some p => (p <=? 65535) && negb (optN_eqb (default_port (scheme u)) (Some p)) | None => true end &&
  fa ui_b (username u) && fa ui_b (password u) &&
  match uhost u with Some h => host_b h | None => true end &&
  match query u with Some q => fa (qchar_b sp) q | None => true end &&
  match fragment u with Some f => fa (fun c => negb (fragment_encode c)) f | None => true end &&
  match path u with POpaque o => fa ochar_b o | PList l => forallb (fa (segchar_b sp)) l end &&
  (negb sp || (match path u with PList (_ :: _) => true | _ => false end &&
               match uhost u with Some HEmpty => is_file u | Some _ => true | None => false end)) &&
  ((negb (host_is_empty_or_null u) && negb (is_file u)) ||
   (str_eqb (username u) [] && str_eqb (password u) [] && is_none (port u))) &&
  match path u with POpaque _ => is_none (uhost u) | _ => true end.

Lemma canon_b_sound u : canon_b u = true -> Canon u.
Proof.
  unfold canon_b. cbv zeta. intro H.
  apply andb_prop in H; destruct H as [H K10]. apply andb_prop in H; destruct H as [H K9].
  apply andb_prop in H; destruct H as [H K8]. apply andb_prop in H; destruct H as [H K7].
  apply andb_prop in H; destruct H as [H K6]. apply andb_prop in H; destruct H as [H K5].
  apply andb_prop in H; destruct H as [H K4]. apply andb_prop in H; destruct H as [H K3].
  apply andb_prop in H; destruct H as [H K2]. apply andb_prop in H; destruct H as [K0 K1].
  destruct u as [sc us pw ho po pa qu fr]. unfold is_special, is_file, host_is_empty_or_null in *.
  cbn [scheme username password uhost port path query fragment] in *.
  assert (Hne : sc <> []) by (destruct sc; [discriminate|discriminate]).
  uatoms. unfold port_okf, ui_safe, host_okf, query_safef, fragment_safef, path_safef,
    special_ok0f, cred_okf, opaque_okf, path_nonemptyf. splits.
  - destruct sc as [|c r]; [discriminate|]. cbn [scheme_b] in K0. apply andb_prop in K0. destruct K0 as [H1 H2].
    split; [exact H1|]. apply (fa_Forall scheme_tail); [auto|exact H2].
  - intros p ->. apply andb_prop in K1. destruct K1 as [H1 H2]. split; [apply N.leb_le; exact H1|].
    intro E. rewrite E in H2. cbn [optN_eqb] in H2. rewrite N.eqb_refl in H2. discriminate.
  - apply (fa_Forall ui_b); [|exact K2]. intros c Hc. apply negb_true_iff. exact Hc.
  - apply (fa_Forall ui_b); [|exact K3]. intros c Hc. apply negb_true_iff. exact Hc.
  - destruct ho as [h|]; [|exact I]. destruct h as [d|a4|a6|o|]; cbn [host_b host_okh] in *.
    + apply andb_prop in K4. destruct K4 as [H1 H2]. split; [apply str_eqb_nil_false, negb_true_iff, H1|].
      apply (fa_Forall dchar_b); [|exact H2]. intros c Hc. unfold dchar_b in Hc.
      apply andb_prop in Hc. destruct Hc as [Hc H3]. apply andb_prop in Hc. destruct Hc as [Hc1 Hc2].
      unfold dchar. split; [apply negb_true_iff, Hc1|]. split; [apply negb_true_iff, Hc2|apply N.ltb_lt; exact H3].
    + apply N.ltb_lt; exact K4.
    + apply andb_prop in K4. destruct K4 as [H1 H2]. split; [apply Nat.eqb_eq; exact H1|].
      apply (fa_Forall (fun x => x <? 65536)); [|exact H2]. intros c Hc. apply N.ltb_lt; exact Hc.
    + apply andb_prop in K4. destruct K4 as [H1 H2]. split; [apply str_eqb_nil_false, negb_true_iff, H1|].
      apply (fa_Forall ohchar_b); [|exact H2]. intros c Hc. unfold ohchar_b in Hc.
      apply andb_prop in Hc. destruct Hc as [Hc1 Hc2]. split; apply negb_true_iff; assumption.
    + exact I.
  - intros x ->. apply (fa_Forall (qchar_b (is_special_scheme sc))); [|exact K5]. intros c Hc. unfold qchar_b in Hc.
    apply andb_prop in Hc. destruct Hc as [Hc1 Hc2]. split; [apply negb_true_iff, Hc1|].
    intros Hs ->. rewrite Hs in Hc2. discriminate.
  - intros x ->. apply (fa_Forall (fun c => negb (fragment_encode c))); [|exact K6]. intros c Hc. apply negb_true_iff. exact Hc.
  - destruct pa as [o|l].
    + apply (fa_Forall ochar_b); [|exact K7]. intros c Hc. unfold ochar_b in Hc.
      apply andb_prop in Hc. destruct Hc as [Hc H3]. apply andb_prop in Hc. destruct Hc as [Hc1 Hc2].
      split; [apply negb_true_iff, Hc1|]. split; apply N.eqb_neq, negb_true_iff; assumption.
    + rewrite forallb_forall in K7. apply Forall_forall. intros seg Hseg.
      apply (fa_Forall (segchar_b (is_special_scheme sc))); [|exact (K7 seg Hseg)]. intros c Hc. unfold segchar_b in Hc.
      apply andb_prop in Hc. destruct Hc as [Hc H3]. apply andb_prop in Hc. destruct Hc as [Hc1 Hc2].
      split; [apply negb_true_iff, Hc1|]. split; [apply N.eqb_neq, negb_true_iff, Hc2|].
      intros Hs ->. rewrite Hs in H3. discriminate.
  - exact Hne.
  - intro Hs. rewrite Hs in K8. cbn [negb orb] in K8. apply andb_prop in K8. destruct K8 as [H1 H2].
    split; [destruct pa as [o|[|x l]]; try discriminate; eauto|].
    destruct ho as [h|]; [|discriminate]. exists h. split; [reflexivity|]. intros Hf ->. rewrite Hf in H2. discriminate.
  - intros Hor. apply orb_prop in K9. destruct K9 as [K9|K9].
    + exfalso. apply andb_prop in K9. destruct K9 as [H1 H2]. apply negb_true_iff in H1, H2.
      destruct Hor as [->|[->|Hf]]; [discriminate|discriminate|congruence].
    + apply andb_prop in K9. destruct K9 as [K9 H3]. apply andb_prop in K9. destruct K9 as [H1 H2].
      apply str_eqb_nil_true in H1, H2. destruct po; [discriminate|]. auto.
  - intros o ->. destruct ho; [discriminate|reflexivity].
  - intro Hs. rewrite Hs in K8. cbn [negb orb] in K8. apply andb_prop in K8. destruct K8 as [H1 _].
    destruct pa as [o|[|x l]]; try discriminate. eauto.
Qed.

(* ---------------------------------------------------------------------------------- *)
(* the exception is not reparsed to itself                                            *)
(* ---------------------------------------------------------------------------------- *)
Example quirk_not_reparsed :
  serialize quirk_after false = lit "file://localhost/C|/x" /\
  do_parse ascii_idna true (serialize quirk_after false) None =
    POk (mkurl s_file [] [] (Some HEmpty) None (PList [[67; 58]; [120]]) None None).
Proof. split; vm_compute; reflexivity. Qed.

(* ---------------------------------------------------------------------------------- *)
(* each additional clause is needed                                                   *)
(* ---------------------------------------------------------------------------------- *)
Definition L := lit.
Arguments L _%string_scope.

Definition needed_examples : list url :=
  [ (* (a) a double-dot segment: "a:/x/.." reads back as "a:/" *)
    mkurl (L"a") [] [] None None (PList [L"x"; L".."]) None None;
    (* (a) a single-dot segment in the %2e form: "a:/%2e" reads back as "a:/" *)
    mkurl (L"a") [] [] None None (PList [L"%2e"]) None None;
    (* (b) an opaque path that starts with "/": "a:/x" reads back with a list path *)
    mkurl (L"a") [] [] None None (POpaque (L"/x")) None None;
    (* (b) an opaque path that ends with a space, null query and fragment: the space is trimmed *)
    mkurl (L"a") [] [] None None (POpaque (L"x ")) None None;
    (* (c) a domain with a non-special scheme: "a://h" reads back with an opaque host *)
    mkurl (L"a") [] [] (Some (HDomain (L"h"))) None (PList []) None None;
    (* (c) an opaque host with a special scheme: "http://h/" reads back with a domain *)
    mkurl (L"http") [] [] (Some (HOpaque (L"h"))) None (PList [L""]) None None;
    (* (c) a domain that ends in a number: "http://1/" reads back as the IPv4 address 0.0.0.1 *)
    mkurl (L"http") [] [] (Some (HDomain (L"1"))) None (PList [L""]) None None;
    (* (d) a null host with the empty list path: "a:" reads back with an opaque path *)
    mkurl (L"a") [] [] None None (PList []) None None;
    (* (e) the exception: "file://localhost/" reads back with an empty host *)
    mkurl (L"file") [] [] (Some (HDomain (L"localhost"))) None (PList [L""]) None None;
    (* (e) the exception: "file:///C|" reads back as "file:///C:" *)
    mkurl (L"file") [] [] (Some HEmpty) None (PList [L"C|"]) None None ].

Lemma url_neq_by (f : url -> bool) (a b : url) : f a = true -> f b = false -> a <> b.
Proof. intros H1 H2 E. subst. congruence. Qed.

Example needed_examples_ok :
  Forall (fun u => Canon u /\ do_parse fake_idna true (serialize u false) None <> POk u) needed_examples.
Proof.
  assert (G : forall u, canon_b u = true ->
            (match do_parse fake_idna true (serialize u false) None with
             | POk u' => negb (str_eqb (serialize u' false) (serialize u false)) ||
                         negb (Bool.eqb (has_opaque_path u') (has_opaque_path u)) ||
                         negb (Bool.eqb (match uhost u' with Some (HDomain _) => true | _ => false end)
                                        (match uhost u with Some (HDomain _) => true | _ => false end))
             | _ => true end) = true ->
            Canon u /\ do_parse fake_idna true (serialize u false) None <> POk u).
  { intros u Hc Hd. split; [apply canon_b_sound, Hc|]. intro E. rewrite E in Hd.
    rewrite str_eqb_refl in Hd. destruct (has_opaque_path u); destruct (uhost u) as [[]|]; discriminate. }
  unfold needed_examples. repeat (constructor; [apply G; vm_compute; reflexivity|]). constructor.
Qed.

(* (c) the fixed-point part of the domain clause: with a ToASCII that rejects "xn--" labels the
   record with host "xn--a" is Canon and satisfies all other clauses, and is not reparsed *)
Definition rej_idna (s : list N) : option (list N) :=
  if starts_with (L"xn--") s then None else Some (lower_str s).

Example domain_fixpoint_needed :
  let u := mkurl (L"http") [] [] (Some (HDomain (L"xn--a"))) None (PList [L""]) None None in
  Canon u /\ rej_idna (L"xn--a") <> Some (L"xn--a") /\
  do_parse rej_idna true (serialize u false) None <> POk u.
Proof.
  cbv zeta. split; [apply canon_b_sound; vm_compute; reflexivity|]. split; [vm_compute; discriminate|].
  vm_compute. discriminate.
Qed.
