(* C12 — IPv6 round trip: parsing the serialization of any address (eight pieces < 2^16)
   gives the address back.  Route: the Standard's parser on printed tokens equals a
   token-level parser (general lemma); the serializer's token list is parsed back by the
   token-level parser (2^8 zero/non-zero patterns, non-zero pieces symbolic). *)
From Upa Require Import Base.Prelude Proofs.TableLemmas Proofs.Ipv6Base Proofs.Ipv6Ser Proofs.Ipv6Parse.
From Coq Require Import ZifyBool ZifyN ZifyNat.
Local Open Scope N_scope.

(* ---------- the Standard's main loop on a hex token / a colon ---------- *)

Lemma spec_main_colon fuel P a pi c : (pi =? 8)%nat = false ->
  S.ipv6_main (S fuel) (58 :: P) a pi c =
  match c with Some _ => None | None => S.ipv6_main fuel P a (S pi) (Some (S pi)) end.
Proof.
  intro Hpi. rewrite spec_main_S. cbn [spec_main_step]. rewrite Hpi. reflexivity.
Qed.

Lemma spec_main_hex fuel t rest a pi c :
  t <> [] -> forallb is_ascii_hex t = true -> (length t <= 4)%nat -> (pi =? 8)%nat = false ->
  stops rest ->
  S.ipv6_main (S fuel) (t ++ rest) a pi c =
  match rest with
  | [] => S.ipv6_main fuel [] (S.set_nth a pi (hexfold t 0)) (S pi) c
  | ch2 :: s2 =>
      if ch2 =? 46 then spec_main_step fuel (t ++ rest) a pi c
      else if ch2 =? 58 then
        match s2 with
        | [] => None
        | _ => S.ipv6_main fuel s2 (S.set_nth a pi (hexfold t 0)) (S pi) c
        end
      else None
  end.
Proof.
  intros Hne Hhex Hlen Hpi Hstop. rewrite spec_main_S.
  pose proof (read_hex4_app t rest 0 0 Hhex Hlen Hstop) as Er.
  destruct t as [|c0 t']; [contradiction|].
  cbn [forallb] in Hhex. apply andb_prop in Hhex. destruct Hhex as [Hc0 _].
  destruct (hex_not_colon c0 Hc0) as [H58 _].
  change ((c0 :: t') ++ rest) with (c0 :: (t' ++ rest)) in *.
  destruct rest as [|ch2 s2].
  - cbn [spec_main_step]. rewrite Hpi, H58, Er. reflexivity.
  - destruct (ch2 =? 46) eqn:E46; [reflexivity|].
    cbn [spec_main_step]. rewrite Hpi, H58, Er, E46. reflexivity.
Qed.

(* ---------- token-level parser ---------- *)

Fixpoint spec_main_tok (toks : list tok) (a : list N) (pi : nat) (c : option nat)
  : option (list N * nat * option nat) :=
  match toks with
  | [] => Some (a, pi, c)
  | t :: toks' =>
    if (pi =? 8)%nat then None else
    match t with
    | TColon =>
        match c with
        | Some _ => None
        | None => spec_main_tok toks' a (S pi) (Some (S pi))
        end
    | THexC v =>
        match toks' with
        | [] => None
        | _ => spec_main_tok toks' (S.set_nth a pi v) (S pi) c
        end
    | THexEnd v =>
        match toks' with
        | [] => Some (S.set_nth a pi v, S pi, c)
        | _ => None
        end
    end
  end.

(* a digit string without separator may only be the last token *)
Fixpoint wf (toks : list tok) : bool :=
  match toks with
  | [] => true
  | THexEnd _ :: (_ :: _) => false
  | _ :: toks' => wf toks'
  end.

Notation pr := (print hex_str_lower).

Lemma print_nonempty t toks : toks_small (t :: toks) -> pr (t :: toks) <> [].
Proof.
  intros Hs E. apply Forall_inv in Hs. rewrite print_cons in E.
  apply app_eq_nil in E. destruct E as [E _].
  destruct t as [v|v|]; cbn [print_tok tok_val] in *.
  - apply app_eq_nil in E. destruct E as [_ E]. discriminate E.
  - destruct (hex_tok v Hs) as (_ & Hl & _). rewrite E in Hl. cbn [length] in Hl. lia.
  - discriminate E.
Qed.

Lemma hex_tok_ne v : v < 65536 -> hex_str_lower v <> [].
Proof.
  intros Hv E. destruct (hex_tok v Hv) as (_ & Hl & _). rewrite E in Hl. cbn [length] in Hl. lia.
Qed.

Lemma spec_main_print toks : forall fuel a pi c,
  toks_small toks -> wf toks = true -> (length (pr toks) < fuel)%nat ->
  S.ipv6_main fuel (pr toks) a pi c = spec_main_tok toks a pi c.
Proof.
  induction toks as [|t toks IH]; intros fuel a pi c Hs Hw Hf.
  - destruct fuel as [|fuel]; [lia|]. reflexivity.
  - destruct fuel as [|fuel]; [lia|].
    pose proof (Forall_inv Hs) as Ht. pose proof (Forall_inv_tail Hs) as Hs'.
    pose proof (print_nonempty t toks Hs) as Hne.
    cbn [spec_main_tok].
    destruct (pi =? 8)%nat eqn:Hpi.
    { rewrite spec_main_S. destruct (pr (t :: toks)); [contradiction|].
      cbn [spec_main_step]. rewrite Hpi. reflexivity. }
    clear Hne. rewrite print_cons in *.
    destruct t as [v|v|]; cbn [print_tok tok_val] in *.
    + (* digits and ':' *)
      destruct (hex_tok v Ht) as (Hhex & Hl & Hval & _).
      rewrite <- app_assoc. cbn [app].
      rewrite (spec_main_hex fuel (hex_str_lower v) (58 :: pr toks) a pi c
                 (hex_tok_ne v Ht) Hhex (proj2 Hl) Hpi eq_refl).
      change (58 =? 46) with false. change (58 =? 58) with true. cbv iota. rewrite Hval.
      assert (Hw' : wf toks = true) by (destruct toks; exact Hw).
      destruct toks as [|t2 toks]; [reflexivity|].
      pose proof (print_nonempty t2 toks Hs') as Hne.
      rewrite <- (IH fuel (S.set_nth a pi v) (S pi) c Hs' Hw').
      * destruct (pr (t2 :: toks)); [contradiction|reflexivity].
      * rewrite <- app_assoc, app_length in Hf. cbn [app length] in Hf. lia.
    + (* final digits *)
      destruct toks as [|t2 toks]; [|discriminate Hw].
      destruct (hex_tok v Ht) as (Hhex & Hl & Hval & _).
      cbn [print flat_map].
      rewrite (spec_main_hex fuel (hex_str_lower v) [] a pi c
                 (hex_tok_ne v Ht) Hhex (proj2 Hl) Hpi I).
      rewrite Hval. rewrite app_length in Hf. cbn [print flat_map length] in Hf.
      destruct fuel as [|fuel]; [lia|]. reflexivity.
    + (* ':' *)
      cbn [app]. rewrite (spec_main_colon fuel (pr toks) a pi c Hpi).
      destruct c as [k|]; [reflexivity|].
      apply IH; [exact Hs'|destruct toks; exact Hw|cbn [app length] in Hf; lia].
Qed.

(* ---------- the whole parser on printed tokens ---------- *)

Definition spec_start_tok (toks : list tok) : option (list tok * nat * option nat) :=
  match toks with
  | TColon :: TColon :: r => Some (r, 1%nat, Some 1%nat)
  | TColon :: _ => None
  | _ => Some (toks, 0%nat, None)
  end.

Definition parse_tok (toks : list tok) : option (list N) :=
  match spec_start_tok toks with
  | None => None
  | Some (toks', pi, c) => spec_after (spec_main_tok toks' addr0 pi c)
  end.

Lemma hex_head v rest : v < 65536 ->
  exists c0 t', hex_str_lower v ++ rest = c0 :: t' /\ (c0 =? 58) = false.
Proof.
  intro Hv. destruct (hex_tok v Hv) as (Hhex & Hl & _).
  destruct (hex_str_lower v) as [|c0 t]; [cbn [length] in Hl; lia|].
  cbn [forallb] in Hhex. apply andb_prop in Hhex. destruct Hhex as [Hc0 _].
  exists c0, (t ++ rest). split; [reflexivity|]. apply (hex_not_colon c0 Hc0).
Qed.

Lemma spec_start_print toks : toks_small toks ->
  spec_start (pr toks) =
  match spec_start_tok toks with
  | None => None
  | Some (toks', pi, c) => Some (pr toks', pi, c)
  end.
Proof.
  intro Hs. destruct toks as [|t toks]; [reflexivity|].
  pose proof (Forall_inv Hs) as Ht. pose proof (Forall_inv_tail Hs) as Hs'.
  destruct t as [v|v|]; cbn [tok_val] in Ht.
  - cbn [spec_start_tok]. rewrite print_cons. cbn [print_tok]. rewrite <- app_assoc.
    destruct (hex_head v ([58] ++ pr toks) Ht) as (c0 & t' & E & H58).
    rewrite E. cbn [spec_start]. rewrite H58. reflexivity.
  - cbn [spec_start_tok]. rewrite print_cons. cbn [print_tok].
    destruct (hex_head v (pr toks) Ht) as (c0 & t' & E & H58).
    rewrite E. cbn [spec_start]. rewrite H58. reflexivity.
  - destruct toks as [|t2 toks]; [reflexivity|].
    pose proof (Forall_inv Hs') as Ht2.
    destruct t2 as [v|v|]; cbn [tok_val] in Ht2; cbn [spec_start_tok].
    + rewrite !print_cons. cbn [print_tok]. rewrite <- app_assoc.
      destruct (hex_head v ([58] ++ pr toks) Ht2) as (c0 & t' & E & H58).
      rewrite E. cbn [spec_start app]. rewrite H58. reflexivity.
    + rewrite !print_cons. cbn [print_tok].
      destruct (hex_head v (pr toks) Ht2) as (c0 & t' & E & H58).
      rewrite E. cbn [spec_start app]. rewrite H58. reflexivity.
    + reflexivity.
Qed.

Lemma wf_tail t toks : wf (t :: toks) = true -> wf toks = true.
Proof. destruct t; cbn [wf]; destruct toks; auto; discriminate. Qed.

Lemma spec_parse_print toks : toks_small toks -> wf toks = true ->
  S.ipv6_parse (pr toks) = parse_tok toks.
Proof.
  intros Hs Hw. rewrite spec_parse_unfold, (spec_start_print toks Hs). unfold parse_tok.
  assert (Hsub : forall toks' pi c, spec_start_tok toks = Some (toks', pi, c) ->
                 toks_small toks' /\ wf toks' = true).
  { intros toks' pi c E. unfold spec_start_tok in E.
    destruct toks as [|[v|v|] toks]; try (injection E as <- <- <-; split; assumption).
    destruct toks as [|[v|v|] toks]; try discriminate E.
    injection E as <- <- <-. split.
    - apply Forall_inv_tail in Hs. apply Forall_inv_tail in Hs. exact Hs.
    - apply wf_tail in Hw. apply wf_tail in Hw. exact Hw. }
  destruct (spec_start_tok toks) as [[[toks' pi] c]|]; [|reflexivity].
  destruct (Hsub toks' pi c eq_refl) as [Hs' Hw'].
  rewrite (spec_main_print toks' (S (length (pr toks'))) addr0 pi c Hs' Hw'); [reflexivity|lia].
Qed.

(* ---------- the serializer's tokens are parsed back: 2^8 patterns ---------- *)

Lemma toks_roundtrip a : length a = 8%nat ->
  wf (spec_toks a) = true /\ parse_tok (spec_toks a) = Some a.
Proof.
  intro H. destruct (list8 a H) as (a0 & a1 & a2 & a3 & a4 & a5 & a6 & a7 & ->). clear H.
  destruct a0, a1, a2, a3, a4, a5, a6, a7; vm_compute; split; reflexivity.
Qed.

Lemma spec_roundtrip a : length a = 8%nat -> Forall (fun p => p < 65536) a ->
  S.ipv6_parse (S.ipv6_serialize a) = Some a.
Proof.
  intros Hl Hs. destruct (toks_roundtrip a Hl) as [Hw Hp].
  rewrite <- spec_toks_print, (spec_parse_print _ (spec_toks_small a Hs) Hw). exact Hp.
Qed.

Lemma impl_roundtrip a : length a = 8%nat -> Forall (fun p => p < 65536) a ->
  I.ipv6_parse (I.ipv6_serialize a) = Some a.
Proof.
  intros Hl Hs. rewrite parse_eq, (serialize_eq a Hl Hs). apply spec_roundtrip; assumption.
Qed.
