(* C05 — histories.  A history is a list of object-level operations whose parse results are
   COMPUTED from the store ([hop], unlike [sop] of Proofs/LockstepProofs.v whose parse steps carry
   their result).  Along every history from the initial store:
     - the store computed with the model of the C++ parser ([impl_ops]) is the store computed with
       the Standard's parser ([spec_ops]);
     - the lock-step invariant of C06 holds;
     - every valid object is canonical ([Canon2w]: Canon + the clauses of C02, the Standard-made
       file exception allowed);
     - hence (C02) every valid object without the file exception is what a fresh parse of its own
       href gives, against any base.
   The parser part needed a generalisation of the second machine invariant of C02 to bases that
   are only [Canon2w] (a slot used as a base may carry the file exception): Proofs/Canon2wBase.v. *)
From Upa Require Import Base.Prelude Spec.CodePoints Spec.Utf Spec.Percent Spec.Ip Spec.UrlEncoded Spec.Url Spec.Api
  Impl.Parser Impl.Api.
From Upa Require Import Proofs.UtfFacts Proofs.UrlEncodedProofs Proofs.SearchParamsProofs
  Proofs.CanonDefs Proofs.CanonStep Proofs.CanonProofs Proofs.ReparseDefs Proofs.ReparseProofs Proofs.Canon2Proofs
  Proofs.LockstepProofs Proofs.SetterCompose Proofs.ComposeFinal.
From Upa Require Proofs.Canon2wBase.
From Upa Require Properties_C07 Properties_C08.
From Coq Require Import ZifyBool ZifyN ZifyNat.
Local Open Scope N_scope.

(* UTF-16 code units are 16-bit (the other two decoders yield scalar values on any input) *)
Definition units_ok (e : enc) (units : list N) : Prop :=
  match e with EU16 => Forall (fun x => x < 65536) units | _ => True end.

(* ------------------------------------------------------------------------------------------ *)
(* 1. histories                                                                                *)
(* ------------------------------------------------------------------------------------------ *)
Inductive hop :=
| HParse (i : nat) (e : enc) (units : list N) (base : option nat)   (* parse into slot i, optionally against the url in slot b *)
| HCtor  (i : nat) (e : enc) (units : list N) (base : option nat)   (* constructor: on failure the slot is left as it was *)
| HClear (i : nat)
| HSet (i : nat) (w : setter) (e : enc) (units : list N)
| HSpCreate (i : nat)
| HSpOp (i : nat) (op : spop)
| HPair (o : obj_op) (d s : nat)
| HReset.

(* the base argument of Spec.Api.do_parse, as Spec.Proto.exec computes it: the url of slot b,
   valid or not *)
Definition base_of (st : store) (base : option nat) : option (option url) :=
  option_map (fun b => s_url (get_slot st b)) base.

(* the store operation that leaves every store as it is (a self-swap: Spec.Proto.exec answers
   ERR and LockstepProofs.store_step returns the store) *)
Definition sop_skip : sop := SPair OSwap 0 0.

Definition to_sop (ops : parser_ops) (st : store) (h : hop) : sop :=
  match h with
  | HParse i e units base => SParse i (Spec.Api.do_parse ops e units (base_of st base))
  | HCtor i e units base =>
      match Spec.Api.do_parse ops e units (base_of st base) with
      | Some u => SCtor i u
      | None => sop_skip            (* the C++ constructor throws: nothing is assigned *)
      end
  | HClear i => SClear i
  | HSet i w e units => SSet i w e units
  | HSpCreate i => SSpCreate i
  | HSpOp i op => SSpOp i op
  | HPair o d s => SPair o d s
  | HReset => SReset
  end.

Definition hstep (ops : parser_ops) (st : store) (h : hop) : store := store_step ops st (to_sop ops st h).

Definition wf_hop (h : hop) : Prop :=
  match h with
  | HParse _ e units _ | HCtor _ e units _ | HSet _ _ e units => units_ok e units
  | HSpOp _ op => wf_spop op
  | _ => True
  end.

Lemma store_step_skip ops st : store_step ops st sop_skip = st.
Proof. reflexivity. Qed.

Lemma hstep_ctor_fail ops st i e units base :
  Spec.Api.do_parse ops e units (base_of st base) = None -> hstep ops st (HCtor i e units base) = st.
Proof. intro H. unfold hstep, to_sop. rewrite H. reflexivity. Qed.

Lemma hstep_ctor_ok ops st i e units base u :
  Spec.Api.do_parse ops e units (base_of st base) = Some u ->
  hstep ops st (HCtor i e units base) = set_slot st i (mk_slot (Some u) false []).
Proof. intro H. unfold hstep, to_sop. rewrite H. reflexivity. Qed.

Lemma hstep_parse ops st i e units base :
  hstep ops st (HParse i e units base) =
  set_slot st i (slot_after_parse (get_slot st i) (Spec.Api.do_parse ops e units (base_of st base))).
Proof. reflexivity. Qed.

Lemma wf_to_sop ops st h : wf_hop h -> wf_sop (to_sop ops st h).
Proof.
  destruct h; cbn [to_sop wf_hop wf_sop]; try (intros; exact I); [|auto].
  intros _. destruct (Spec.Api.do_parse ops e units (base_of st base)); exact I.
Qed.

(* ------------------------------------------------------------------------------------------ *)
(* 2. generic facts about stores                                                               *)
(* ------------------------------------------------------------------------------------------ *)
Lemma get_slot_P (P : slot -> Prop) : forall st i, P empty_slot -> Forall P st -> P (get_slot st i).
Proof.
  unfold get_slot. induction st as [|x st IH]; intros i He H.
  - destruct i; exact He.
  - inversion H as [|? ? Hx Hst]; subst. destruct i as [|k]; cbn [nth]; [exact Hx|exact (IH k He Hst)].
Qed.

Lemma set_slot_P (P : slot -> Prop) : forall st i x, Forall P st -> P x -> Forall P (set_slot st i x).
Proof.
  induction st as [|y st IH]; intros i x H Hx; cbn [set_slot]; [constructor|].
  inversion H as [|? ? Hy Hst]; subst.
  destruct i as [|k]; constructor; try assumption. exact (IH k x Hst Hx).
Qed.

Lemma s_url_after_parse sl r : s_url (slot_after_parse sl r) = r.
Proof. destruct r; reflexivity. Qed.

Lemma s_url_resync sl r : s_url (resync sl r) = r.
Proof. reflexivity. Qed.

Section History.
Variable idna : list N -> option (list N).
Hypothesis HA : Properties_C07.H_ascii idna.
Hypothesis HK : Properties_C07.H_keep idna.
Hypothesis HL : Properties_C08.idna_ascii_lower idna.
Hypothesis HI : idna_idem idna.

(* ------------------------------------------------------------------------------------------ *)
(* 3. the parser keeps [Canon2w] also when the base is only [Canon2w]                          *)
(* ------------------------------------------------------------------------------------------ *)
Lemma Canon2w_X u : Canon2w idna u <-> Canon u /\ Canon2wBase.X idna false u.
Proof.
  split.
  - intros [HC HE]. split; [exact HC|]. split; [exact HE|]. intro H. discriminate.
  - intros [HC [HE _]]. split; assumption.
Qed.

Theorem parse_canon2w input base : cps_ok input ->
  (base = None \/ exists b, base = Some b /\ Canon2w idna b) ->
  forall u, basic_parse idna input base = POk u -> Canon2w idna u.
Proof.
  intros Hi Hb u E. apply Canon2w_X. split.
  - apply (parse_canon idna HL input base Hi); [|exact E].
    destruct Hb as [Hb|(b & Hb1 & Hb2)]; [left; exact Hb|right; exists b; split; [exact Hb1|apply Hb2]].
  - revert E. unfold basic_parse. cbv zeta.
    set (input' := remove_tab_newline (strip_c0_space input)).
    assert (Hi' : cps_ok input') by (apply cps_ok_remove, cps_ok_strip, Hi).
    assert (Hb' : forall b, base = Some b -> Canon b /\ Canon2wBase.X idna false b).
    { intros b E. apply Canon2w_X. destruct Hb as [Hb|(b' & Hb1 & Hb2)]; congruence. }
    pose proof (Canon2wBase.run_inv2 idna HL HI false input' Hi' base Hb' None
                  (fun _ => parser_input_nosp input) (parse_fuel input')
                  (mk_m SchemeStart empty_url [] false false false 0%Z)) as H.
    cbn [m_pointer] in H. intro E. rewrite E in H. cbn [Canon2wBase.RunPost2] in H. apply H; [lia| |].
    + unfold SInv. cbn [m_state m_url m_buffer]. split; [reflexivity|]. split; [reflexivity|]. intro N0. congruence.
    + unfold Canon2wBase.SInv2. cbn [m_state]. intro N0. congruence.
Qed.

(* ------------------------------------------------------------------------------------------ *)
(* 4. the setters of the API (Standard's parser) keep [Canon2w]                                *)
(* ------------------------------------------------------------------------------------------ *)
Lemma Canon2w_Canon u : Canon2w idna u -> Canon u.
Proof. intros [H _]. exact H. Qed.

Lemma cps_cons c v : c <= 1114111 -> cps_ok v -> cps_ok (c :: v).
Proof. intros Hc Hv. constructor; [exact Hc|exact Hv]. Qed.

Theorem spec_setter_canon2w w u e units :
  units_ok e units -> Canon2w idna u -> Canon2w idna (apply_setter (spec_ops idna) w u e units).
Proof.
  intros Hu' HC. unfold units_ok in Hu'.
  pose proof (decode_parser_cps false e units Hu') as Hv.
  destruct w; unfold apply_setter; cbv zeta; cbn [spec_ops p_parse p_override p_protocol].
  - (* href *)
    destruct (basic_parse idna (decode_for_parser true e units) None) as [u'| |] eqn:E; try exact HC.
    exact (parse_canon2w _ None (decode_parser_cps true e units Hu') (or_introl eq_refl) u' E).
  - apply setter_protocol_canon2w; assumption.
  - apply setter_username_canon2w; try assumption. exact (decode_units_cps e units Hu').
  - apply setter_password_canon2w; try assumption. exact (decode_units_cps e units Hu').
  - apply setter_host_canon2w; assumption.
  - apply setter_hostname_canon2w; assumption.
  - (* port: "units = []" is tested before tab/newline removal *)
    destruct units as [|x units'].
    + apply (setter_port_canon2w idna HL HI u []); [constructor|exact HC].
    + set (v := decode_for_parser false e (x :: units')) in *.
      assert (H9 : cps_ok (9 :: v)) by (apply cps_cons; [lia|exact Hv]).
      pose proof (setter_port_canon2w idna HL HI u (9 :: v) H9 HC) as H.
      unfold setter_port in H. rewrite bpo_skip_tab in H. exact H.
  - apply setter_pathname_canon2w; assumption.
  - (* search *)
    rewrite match_63. destruct units as [|x units'].
    + apply (setter_search_canon2w idna HL HI u []); [constructor|exact HC].
    + destruct (x =? 63) eqn:E63.
      * set (w := decode_for_parser false e units').
        assert (Hw : cps_ok (63 :: w)).
        { apply cps_cons; [lia|]. apply decode_parser_cps. exact (units_ok_tl e x units' Hu'). }
        exact (setter_search_canon2w idna HL HI u (63 :: w) Hw HC).
      * set (v := decode_for_parser false e (x :: units')) in *.
        assert (H9 : cps_ok (9 :: v)) by (apply cps_cons; [lia|exact Hv]).
        pose proof (setter_search_canon2w idna HL HI u (9 :: v) H9 HC) as H.
        unfold setter_search in H. cbv zeta in H. rewrite bpo_skip_tab in H. exact H.
  - (* hash *)
    rewrite match_35'. destruct units as [|x units'].
    + apply (setter_hash_canon2w idna HL HI u []); [constructor|exact HC].
    + destruct (x =? 35) eqn:E35.
      * set (w := decode_for_parser false e units').
        assert (Hw : cps_ok (35 :: w)).
        { apply cps_cons; [lia|]. apply decode_parser_cps. exact (units_ok_tl e x units' Hu'). }
        exact (setter_hash_canon2w idna HL HI u (35 :: w) Hw HC).
      * set (v := decode_for_parser false e (x :: units')) in *.
        assert (H9 : cps_ok (9 :: v)) by (apply cps_cons; [lia|exact Hv]).
        pose proof (setter_hash_canon2w idna HL HI u (9 :: v) H9 HC) as H.
        unfold setter_hash in H. cbv zeta in H. rewrite bpo_skip_tab in H. exact H.
Qed.

(* ------------------------------------------------------------------------------------------ *)
(* 5. every valid slot is canonical: the invariant through every store operation               *)
(* ------------------------------------------------------------------------------------------ *)
Definition slot_c (sl : slot) : Prop := forall u, s_url sl = Some u -> Canon2w idna u.
Definition opt_c (r : option url) : Prop := forall u, r = Some u -> Canon2w idna u.

Lemma slot_c_of_url sl : opt_c (s_url sl) <-> slot_c sl.
Proof. split; intro H; exact H. Qed.

Lemma slot_c_none sl : s_url sl = None -> slot_c sl.
Proof. intros E u Hu. congruence. Qed.

Lemma slot_c_empty : slot_c empty_slot.
Proof. apply slot_c_none. reflexivity. Qed.

Lemma slot_c_same sl sl' : s_url sl' = s_url sl -> slot_c sl -> slot_c sl'.
Proof. intros E H u Hu. apply H. congruence. Qed.

Lemma slot_c_some sl u : s_url sl = Some u -> Canon2w idna u -> slot_c sl.
Proof. intros E H u' Hu. rewrite E in Hu. injection Hu as <-. exact H. Qed.

Lemma init_store_c : Forall slot_c init_store.
Proof. unfold init_store. repeat (apply Forall_cons; [exact slot_c_empty|]). apply Forall_nil. Qed.

Lemma get_slot_c st i : Forall slot_c st -> slot_c (get_slot st i).
Proof. apply get_slot_P. exact slot_c_empty. Qed.

(* the parse results of the protocol *)
Lemma do_parse_c e units base : units_ok e units ->
  (forall b, base = Some (Some b) -> Canon2w idna b) ->
  opt_c (Spec.Api.do_parse (spec_ops idna) e units base).
Proof.
  intros Hu Hb u. unfold Spec.Api.do_parse. cbn [spec_ops p_parse].
  pose proof (decode_parser_cps true e units Hu) as Hv.
  destruct base as [[b|]|].
  - destruct (basic_parse idna (decode_for_parser true e units) (Some b)) as [u'| |] eqn:E; try discriminate.
    intro H. injection H as <-.
    apply (parse_canon2w _ (Some b) Hv); [|exact E]. right. exists b. split; [reflexivity|]. apply Hb. reflexivity.
  - discriminate.
  - destruct (basic_parse idna (decode_for_parser true e units) None) as [u'| |] eqn:E; try discriminate.
    intro H. injection H as <-. exact (parse_canon2w _ None Hv (or_introl eq_refl) u' E).
Qed.

Lemma base_of_c st base : Forall slot_c st -> forall b, base_of st base = Some (Some b) -> Canon2w idna b.
Proof.
  intros Hst b. unfold base_of. destruct base as [k|]; cbn [option_map]; [|discriminate].
  intro E. injection E as E. exact (get_slot_c st k Hst b E).
Qed.

Lemma slot_set_c sl w e units : units_ok e units -> slot_c sl -> slot_c (slot_set (spec_ops idna) sl w e units).
Proof.
  intros Hu Hsl. unfold slot_set.
  assert (Hhref : slot_c match Spec.Api.do_parse (spec_ops idna) e units None with
                         | Some u => resync sl (Some u) | None => sl end).
  { destruct (Spec.Api.do_parse (spec_ops idna) e units None) as [u2|] eqn:E; [|exact Hsl].
    apply (slot_c_some _ u2); [reflexivity|]. apply (do_parse_c e units None Hu); [discriminate|exact E]. }
  destruct (s_url sl) as [u|] eqn:Eu.
  - pose proof (spec_setter_canon2w w u e units Hu (Hsl u Eu)) as Hc.
    destruct w; try exact Hhref; eapply slot_c_some; try reflexivity; exact Hc.
  - destruct w; try exact Hhref; exact Hsl.
Qed.

Lemma wf_pairs_ok l : wf_pairs l -> pairs_ok l.
Proof. apply Forall_impl. intros p [H1 H2]. split; apply scalars_cps; assumption. Qed.

Lemma update_from_list_c sl l : wf_pairs l -> slot_c sl -> slot_c (update_from_list sl l).
Proof.
  intros Hl Hsl. unfold update_from_list. destruct (s_url sl) as [u|] eqn:Eu; [|apply slot_c_none; reflexivity].
  destruct (update_canon2w idna u l (wf_pairs_ok l Hl) (Hsl u Eu)) as [H1 H2].
  eapply slot_c_some; [reflexivity|]. destruct l as [|p l']; [exact H2|].
  (* the serialization of a non-empty list *)
  exact H1.
Qed.

Lemma slot_sp_create_c sl : slot_c sl -> slot_c (slot_sp_create sl).
Proof. apply slot_c_same. apply slot_sp_create_url. Qed.

Lemma slot_sp_apply_c sl op : slot_ok sl -> wf_spop op -> slot_c sl -> slot_c (fst (fst (slot_sp_apply sl op))).
Proof.
  intros Hok Hop Hsl. rewrite slot_sp_apply_fst.
  destruct (spop_updates (s_sp sl) op).
  - apply update_from_list_c; [|exact Hsl]. apply apply_spop_wf; [exact (proj1 Hok)|exact Hop].
  - revert Hsl. apply slot_c_same. reflexivity.
Qed.

Lemma pair_op_c o sd ss : slot_c sd -> slot_c ss ->
  slot_c (fst (pair_op o sd ss)) /\ slot_c (snd (pair_op o sd ss)).
Proof.
  intros Hd Hs.
  assert (Hn : forall h l, slot_c (mk_slot None h l)) by (intros; apply slot_c_none; reflexivity).
  assert (Hc : forall h l, slot_c (mk_slot (s_url ss) h l)) by (intros; revert Hs; apply slot_c_same; reflexivity).
  destruct o; cbn [pair_op]; try (cbn [fst snd]; split; first [apply Hc | apply Hn | assumption]).
  destruct (s_has_sp sd); cbn [fst snd]; split; first [apply Hc | apply Hn].
Qed.

Definition sop_c (o : sop) : Prop :=
  match o with
  | SParse _ r => opt_c r
  | SCtor _ u => Canon2w idna u
  | SSet _ _ e units => units_ok e units
  | _ => True
  end.

Lemma store_step_c st o : Forall slot_ok st -> Forall slot_c st -> wf_sop o -> sop_c o ->
  Forall slot_c (store_step (spec_ops idna) st o).
Proof.
  intros Hok Hst Hw Hc. destruct o as [i r|i u|i|i w e units|i|i op|o d s|]; cbn [store_step]; cbn [sop_c wf_sop] in *.
  - apply set_slot_P; [exact Hst|]. intros u Hu. rewrite s_url_after_parse in Hu. exact (Hc u Hu).
  - apply set_slot_P; [exact Hst|]. apply (slot_c_some _ u); [reflexivity|exact Hc].
  - apply set_slot_P; [exact Hst|]. apply slot_c_none. reflexivity.
  - apply set_slot_P; [exact Hst|]. apply slot_set_c; [exact Hc|apply get_slot_c, Hst].
  - apply set_slot_P; [exact Hst|]. apply slot_sp_create_c, get_slot_c, Hst.
  - cbv zeta. pose proof (slot_sp_create_c _ (get_slot_c st i Hst)) as Hcr.
    destruct (is_none (s_url (slot_sp_create (get_slot st i)))); (apply set_slot_P; [exact Hst|]); [exact Hcr|].
    apply slot_sp_apply_c; [apply slot_sp_create_ok, get_slot_ok, Hok|exact Hw|exact Hcr].
  - destruct ((d =? s)%nat && negb (is_copy_assign o)); [exact Hst|].
    pose proof (pair_op_c o _ _ (get_slot_c st d Hst) (get_slot_c st s Hst)) as [H1 H2].
    destruct (pair_op o (get_slot st d) (get_slot st s)) as [sd' ss']. cbn [fst snd] in H1, H2.
    apply set_slot_P; [apply set_slot_P; assumption|]. destruct (d =? s)%nat; assumption.
  - exact init_store_c.
Qed.

Lemma to_sop_c st h : Forall slot_c st -> wf_hop h -> sop_c (to_sop (spec_ops idna) st h).
Proof.
  intros Hst Hw. destruct h; cbn [to_sop wf_hop sop_c] in *; try exact I; try exact Hw.
  - apply do_parse_c; [exact Hw|apply base_of_c, Hst].
  - pose proof (do_parse_c e units (base_of st base) Hw (base_of_c st base Hst)) as H.
    destruct (Spec.Api.do_parse (spec_ops idna) e units (base_of st base)) as [u|]; [|exact I].
    cbn [sop_c]. apply H. reflexivity.
Qed.

(* ------------------------------------------------------------------------------------------ *)
(* 6. the model of the C++ parser and the Standard's parser compute the same store             *)
(* ------------------------------------------------------------------------------------------ *)
Lemma do_parse_ops_eq e units base :
  Spec.Api.do_parse (impl_ops idna) e units base = Spec.Api.do_parse (spec_ops idna) e units base.
Proof.
  unfold Spec.Api.do_parse. cbn [impl_ops spec_ops p_parse].
  destruct base as [[b|]|]; try reflexivity.
  - pose proof (parse_conforms idna HA HK (decode_for_parser true e units) (Some b)) as H.
    destruct (Impl.Parser.do_parse idna true (decode_for_parser true e units) (Some b)),
             (basic_parse idna (decode_for_parser true e units) (Some b)); try contradiction; congruence.
  - pose proof (parse_conforms idna HA HK (decode_for_parser true e units) None) as H.
    destruct (Impl.Parser.do_parse idna true (decode_for_parser true e units) None),
             (basic_parse idna (decode_for_parser true e units) None); try contradiction; congruence.
Qed.

Lemma slot_set_ops_eq sl w e units : slot_c sl ->
  slot_set (impl_ops idna) sl w e units = slot_set (spec_ops idna) sl w e units.
Proof.
  intro Hsl. unfold slot_set. rewrite do_parse_ops_eq.
  destruct (s_url sl) as [u|] eqn:Eu; [|reflexivity].
  rewrite (setters_conform idna HA HK w u e units); [reflexivity|].
  apply canon_setter_wf, Canon2w_Canon, Hsl, Eu.
Qed.

Lemma to_sop_ops_eq st h : to_sop (impl_ops idna) st h = to_sop (spec_ops idna) st h.
Proof. destruct h; cbn [to_sop]; rewrite ?do_parse_ops_eq; reflexivity. Qed.

Lemma store_step_ops_eq st o : Forall slot_c st ->
  store_step (impl_ops idna) st o = store_step (spec_ops idna) st o.
Proof.
  intro Hst. destruct o; cbn [store_step]; try reflexivity.
  rewrite slot_set_ops_eq; [reflexivity|apply get_slot_c, Hst].
Qed.

Lemma hstep_ops_eq st h : Forall slot_c st -> hstep (impl_ops idna) st h = hstep (spec_ops idna) st h.
Proof. intro Hst. unfold hstep. rewrite to_sop_ops_eq. apply store_step_ops_eq, Hst. Qed.

(* ------------------------------------------------------------------------------------------ *)
(* 7. histories                                                                                *)
(* ------------------------------------------------------------------------------------------ *)
Definition Inv (st : store) : Prop := Forall slot_ok st /\ Forall slot_c st.

Lemma Inv_init : Inv init_store.
Proof. split; [exact init_store_ok|exact init_store_c]. Qed.

Lemma hstep_inv st h : Inv st -> wf_hop h -> Inv (hstep (spec_ops idna) st h).
Proof.
  intros [Hok Hc] Hw. unfold hstep. split.
  - apply (store_step_ok _ (spec_ops_keep_query idna)); [exact Hok|apply wf_to_sop, Hw].
  - apply store_step_c; [exact Hok|exact Hc|apply wf_to_sop, Hw|apply to_sop_c; assumption].
Qed.

Lemma history_inv : forall hops st, Inv st -> Forall wf_hop hops ->
  fold_left (hstep (impl_ops idna)) hops st = fold_left (hstep (spec_ops idna)) hops st /\
  Inv (fold_left (hstep (spec_ops idna)) hops st).
Proof.
  induction hops as [|h hops IH]; intros st Hst Hw; cbn [fold_left]; [split; [reflexivity|exact Hst]|].
  inversion Hw as [|? ? Hh Hw']; subst.
  rewrite (hstep_ops_eq st h (proj2 Hst)). apply IH; [apply hstep_inv; assumption|exact Hw'].
Qed.

Lemma Canon2_of_w u : Canon2w idna u -> ~ FileQuirk u -> Canon2 idna u.
Proof. intros [H1 H2] H3. split; [exact H1|]. split; assumption. Qed.

Theorem history : forall hops, Forall wf_hop hops ->
  let st := fold_left (hstep (impl_ops idna)) hops init_store in
  st = fold_left (hstep (spec_ops idna)) hops init_store
  /\ Forall slot_ok st
  /\ (forall i u, s_url (get_slot st i) = Some u -> Canon2w idna u)
  /\ (forall i u, s_url (get_slot st i) = Some u -> ~ FileQuirk u ->
        forall base, Impl.Parser.do_parse idna true (serialize u false) base = POk u).
Proof.
  intros hops Hw st. destruct (history_inv hops init_store Inv_init Hw) as [E [Hok Hc]].
  fold st in E. rewrite <- E in Hok, Hc.
  split; [exact E|]. split; [exact Hok|].
  assert (H3 : forall i u, s_url (get_slot st i) = Some u -> Canon2w idna u).
  { intros i u Hu. exact (get_slot_c st i Hc u Hu). }
  split; [exact H3|].
  intros i u Hu Hq base. apply reparse. apply Canon2_of_w; [exact (H3 i u Hu)|exact Hq].
Qed.

(* from any store that satisfies the invariant (not only the initial one) *)
Theorem history_from : forall st0, Forall slot_ok st0 -> (forall i u, s_url (get_slot st0 i) = Some u -> Canon2w idna u) ->
  forall hops, Forall wf_hop hops ->
  let st := fold_left (hstep (impl_ops idna)) hops st0 in
  st = fold_left (hstep (spec_ops idna)) hops st0
  /\ Forall slot_ok st
  /\ (forall i u, s_url (get_slot st i) = Some u -> Canon2w idna u).
Proof.
  intros st0 Hok0 Hc0 hops Hw st.
  assert (Hc0' : Forall slot_c st0).
  { clear - Hc0. revert Hc0. induction st0 as [|x r IH]; intro H; constructor.
    - exact (H 0%nat).
    - apply IH. intros i u. exact (H (S i) u). }
  destruct (history_inv hops st0 (conj Hok0 Hc0') Hw) as [E [Hok Hc]].
  fold st in E. rewrite <- E in Hok, Hc.
  split; [exact E|]. split; [exact Hok|]. intros i u Hu. exact (get_slot_c st i Hc u Hu).
Qed.

End History.

(* ------------------------------------------------------------------------------------------ *)
(* 8. invalid objects: inert under every setter but href; failed operations                    *)
(* ------------------------------------------------------------------------------------------ *)
Lemma hstep_inert ops st i w e units : s_url (get_slot st i) = None -> w <> SHref ->
  hstep ops st (HSet i w e units) = st.
Proof.
  intros Hu Hw. unfold hstep. cbn [to_sop store_step]. rewrite (inert ops _ w e units Hu Hw).
  apply set_slot_get_id.
Qed.

Lemma hstep_failed_href ops st i e units : Spec.Api.do_parse ops e units None = None ->
  hstep ops st (HSet i SHref e units) = st.
Proof.
  intro H. unfold hstep. cbn [to_sop store_step]. rewrite (failed_href_unchanged ops _ e units H).
  apply set_slot_get_id.
Qed.

Lemma hstep_failed_parse ops st i e units base :
  Spec.Api.do_parse ops e units (base_of st base) = None -> (i < length st)%nat ->
  s_url (get_slot (hstep ops st (HParse i e units base)) i) = None.
Proof.
  intros H Hi. rewrite hstep_parse, H, get_set_same by exact Hi. reflexivity.
Qed.

Lemma hstep_length ops st h : length st = 4%nat -> length (hstep ops st h) = 4%nat.
Proof.
  intro H. unfold hstep. destruct (to_sop ops st h); cbn [store_step]; rewrite ?set_slot_length; try exact H.
  - cbv zeta. destruct (is_none _); rewrite set_slot_length; exact H.
  - destruct (_ && _); [exact H|]. destruct (pair_op _ _ _). rewrite !set_slot_length. exact H.
  - reflexivity.
Qed.

Lemma hstep_inert_after ops hops i w e units :
  let st := fold_left (hstep ops) hops init_store in
  s_url (get_slot st i) = None -> w <> SHref ->
  s_url (get_slot (hstep ops st (HSet i w e units)) i) = None.
Proof. intros st Hu Hw. rewrite (hstep_inert ops st i w e units Hu Hw). exact Hu. Qed.

(* the definitions, spelled out *)
Lemma hstep_def ops st h :
  hstep ops st h =
  match h with
  | HParse i e units base =>
      set_slot st i (slot_after_parse (get_slot st i)
        (Spec.Api.do_parse ops e units (option_map (fun b => s_url (get_slot st b)) base)))
  | HCtor i e units base =>
      match Spec.Api.do_parse ops e units (option_map (fun b => s_url (get_slot st b)) base) with
      | Some u => set_slot st i (mk_slot (Some u) false [])
      | None => st
      end
  | HClear i => store_step ops st (SClear i)
  | HSet i w e units => set_slot st i (slot_set ops (get_slot st i) w e units)
  | HSpCreate i => store_step ops st (SSpCreate i)
  | HSpOp i op => store_step ops st (SSpOp i op)
  | HPair o d s => store_step ops st (SPair o d s)
  | HReset => init_store
  end.
Proof.
  destruct h; try reflexivity. unfold hstep, to_sop, base_of.
  destruct (Spec.Api.do_parse ops e units _); reflexivity.
Qed.

Lemma wf_hop_def h :
  wf_hop h <->
  match h with
  | HParse _ e units _ | HCtor _ e units _ | HSet _ _ e units =>
      match e with EU16 => Forall (fun x => x < 65536) units | _ => True end
  | HSpOp _ op => wf_spop op
  | _ => True
  end.
Proof. destruct h; reflexivity. Qed.

Lemma hstep_agrees idna : Properties_C07.H_ascii idna -> Properties_C07.H_keep idna ->
  forall st h, (forall i u, s_url (get_slot st i) = Some u -> Canon2w idna u) ->
  hstep (impl_ops idna) st h = hstep (spec_ops idna) st h.
Proof.
  intros HA HK st h Hc. apply (hstep_ops_eq idna HA HK).
  clear - Hc. revert Hc. induction st as [|x r IH]; intro H; constructor.
  - exact (H 0%nat).
  - apply IH. intros i u. exact (H (S i) u).
Qed.

(* ------------------------------------------------------------------------------------------ *)
(* 9. the premises are satisfiable, the theorem is not vacuous                                 *)
(* ------------------------------------------------------------------------------------------ *)
(* [ascii_idna] (Proofs/Canon2Proofs.v: lower-casing, ASCII only) satisfies the four ICU laws *)
Example ascii_idna_laws :
  Properties_C07.H_ascii ascii_idna /\ Properties_C07.H_keep ascii_idna /\
  Properties_C08.idna_ascii_lower ascii_idna /\ idna_idem ascii_idna.
Proof.
  split; [exact (proj1 Properties_C07.C07_laws_satisfiable)|].
  split; [exact (proj2 Properties_C07.C07_laws_satisfiable)|].
  split; [exact ascii_idna_ascii_lower|exact ascii_idna_idem].
Qed.

Import Coq.Strings.String.StringSyntax.
Import List.ListNotations.

Definition hrefs (st : store) : list (option str) :=
  List.map (fun sl => option_map (fun u => serialize u false) (s_url sl)) st.

(* parse into slot 0, create its query object, sort it, change the protocol, parse a relative
   reference against slot 0 into slot 1, swap *)
Definition ex_history : list hop :=
  [ HParse 0 EU8 (lit "http://h/p?b=2&a=1") None; HSpCreate 0; HSpOp 0 OpSort;
    HSet 0 SProtocol EU8 (lit "https"); HParse 1 EU8 (lit "../x?y") (Some 0%nat); HPair OSwap 0 1 ].

Lemma ex_history_wf : Forall wf_hop ex_history.
Proof. repeat (apply Forall_cons; [exact I|]). apply Forall_nil. Qed.

Example ex_history_run :
  hrefs (fold_left (hstep (impl_ops ascii_idna)) ex_history init_store) =
    [Some (lit "https://h/x?y"); Some (lit "https://h/p?a=1&b=2"); None; None] /\
  s_sp (get_slot (fold_left (hstep (impl_ops ascii_idna)) ex_history init_store) 1) =
    [(lit "a", lit "1"); (lit "b", lit "2")].
Proof. vm_compute. split; reflexivity. Qed.

(* what the theorem says of this history: e.g. the object in slot 1 is what a parse of its href
   gives, against any base *)
Example ex_history_reparse : forall base,
  Impl.Parser.do_parse ascii_idna true (lit "https://h/p?a=1&b=2") base =
    POk (mkurl (lit "https") [] [] (Some (HDomain (lit "h"))) None (PList [lit "p"]) (Some (lit "a=1&b=2")) None).
Proof.
  destruct ascii_idna_laws as (H1 & H2 & H3 & H4).
  destruct (history ascii_idna H1 H2 H3 H4 ex_history ex_history_wf) as (_ & _ & _ & H).
  intro base.
  apply (H 1%nat (mkurl (lit "https") [] [] (Some (HDomain (lit "h"))) None (PList [lit "p"]) (Some (lit "a=1&b=2")) None)).
  - vm_compute. reflexivity.
  - intro Hq. vm_compute in Hq. discriminate.
Qed.

(* the file exception spreads through the base: slot 1 is never touched by the protocol setter,
   and carries the exception because its base (slot 0) does; so a slot used as a base is in
   general only [Canon2w], and the last clause of the theorem needs its premise *)
Definition ex_quirk_history : list hop :=
  [ HParse 0 EU8 (lit "http://localhost/C|/x") None; HSet 0 SProtocol EU8 (lit "file");
    HParse 1 EU8 (lit "y") (Some 0%nat);
    HCtor 2 EU8 (lit "//[") None;               (* fails: slot 2 stays empty *)
    HSet 2 SHost EU8 (lit "h") ].               (* an empty object ignores the setter *)

Example ex_quirk_run :
  let st := fold_left (hstep (impl_ops ascii_idna)) ex_quirk_history init_store in
  hrefs st = [Some (lit "file://localhost/C|/x"); Some (lit "file://localhost/C|/y"); None; None] /\
  (exists u1, s_url (get_slot st 1) = Some u1 /\ FileQuirk u1 /\
     Impl.Parser.do_parse ascii_idna true (serialize u1 false) None =
       POk (mkurl s_file [] [] (Some HEmpty) None (PList [[67; 58]; [121]]) None None)).
Proof.
  cbv zeta. split; [vm_compute; reflexivity|].
  eexists. split; [vm_compute; reflexivity|]. split; vm_compute; reflexivity.
Qed.
