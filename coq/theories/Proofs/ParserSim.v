(* Framework for the refinement  Impl.Parser.url_parse  ~  Spec.Url (the Standard's machine):
   a big-step reading of the machine ([eval]), the machine states that a block of the C++
   parser stands for ([eval_flow]), the statement every block lemma has ([blk_sound]),
   and the composition of the block lemmas into the parser theorem.  No proofs of blocks
   here: they live in Proofs/Block*.v. *)
From Upa Require Import Base.Prelude Spec.CodePoints Spec.Utf Spec.Percent Spec.Ip Spec.Url Impl.Tables Impl.Parser.
Local Open Scope N_scope.

Section Sim.
Variable idna : list N -> option (list N).
Variable input : str.                 (* the machine's input: tab/newline already removed *)
Variable base : option url.
Variable ov : option pstate.

Notation stepf := (Spec.Url.step idna input base ov).

(* one run of the state machine from a machine state to its result:
   "run the state, then: if the pointer points to EOF stop, else advance and continue" *)
Inductive eval : mstate -> presult -> Prop :=
| E_fail m : stepf m = Fail -> eval m (PFail (m_url m))
| E_ret m u : stepf m = Ret u -> eval m (POk u)
| E_done m m' : stepf m = Cont m' -> (Z.of_nat (length input) <= m_pointer m')%Z -> eval m (POk (m_url m'))
| E_cont m m' r : stepf m = Cont m' -> (m_pointer m' < Z.of_nat (length input))%Z ->
                  eval (inc_pointer m') r -> eval m r.

Lemma eval_det m r1 r2 : eval m r1 -> eval m r2 -> r1 = r2.
Proof.
  intros H1; revert r2; induction H1 as [m Hs|m u Hs|m m' Hs Hp|m m' r Hs Hp H IH]; intros r2 H2;
    inversion H2 as [m0 Hs2|m0 u2 Hs2|m0 m2 Hs2 Hp2|m0 m2 r0 Hs2 Hp2 He2]; subst;
    try congruence;
    rewrite Hs in Hs2; inversion Hs2; subst;
    first [reflexivity | lia | (apply IH; exact He2)].
Qed.

Lemma run_eval : forall fuel m r, run idna fuel input base ov m = r -> r <> POutOfFuel -> eval m r.
Proof.
  induction fuel as [|f IH]; intros m r Hr Hn; cbn [run] in Hr; [congruence|].
  destruct (stepf m) as [m'| u |] eqn:Hs.
  - destruct (Z.leb_spec (Z.of_nat (length input)) (m_pointer m')) as [Hp|Hp].
    + subst r. eapply E_done; eassumption.
    + eapply E_cont; [eassumption | exact Hp | apply IH; assumption].
  - subst r. apply E_ret. assumption.
  - subst r. apply E_fail. assumption.
Qed.

Lemma eval_run : forall m r, eval m r -> exists fuel, run idna fuel input base ov m = r.
Proof.
  intros m r H; induction H as [m Hs|m u Hs|m m' Hs Hp|m m' r Hs Hp H [f IH]].
  - exists 1%nat. cbn [run]. rewrite Hs. reflexivity.
  - exists 1%nat. cbn [run]. rewrite Hs. reflexivity.
  - exists 1%nat. cbn [run]. rewrite Hs. destruct (Z.leb_spec (Z.of_nat (length input)) (m_pointer m')); [reflexivity|lia].
  - exists (S f). cbn [run]. rewrite Hs. destruct (Z.leb_spec (Z.of_nat (length input)) (m_pointer m')); [lia|exact IH].
Qed.

(* ---------- from a block's flow to machine states ---------- *)
Definition is_suffix (p : str) : Prop := exists pre, input = pre ++ p.
Definition pointer_of (p : str) : Z := (Z.of_nat (length input) - Z.of_nat (length p))%Z.

(* the machine state a block starts in: state, pointer at the head of p, empty buffer, not inside
   brackets; the two authority flags are irrelevant outside the authority state and left free *)
Definition at_state (st : pstate) (p : str) (u : url) (at_ pw : bool) : mstate :=
  mk_m st u [] at_ false pw (pointer_of p).

(* results are compared exactly on success; on failure the record reached matters only when a
   state override is given (the setters keep what the parser had already changed) *)
Definition res_eq (a b : presult) : Prop :=
  match a, b with
  | POk x, POk y => x = y
  | PFail x, PFail y => ov = None \/ x = y
  | _, _ => False
  end.

(* The record a flow stands for: the Standard sets query := "" (resp. fragment := "") BEFORE it
   enters the query (fragment) state, in every transition into it; the C++ sets the part when it
   saves it.  So a flow into Query / Fragment stands for the machine state whose record already
   has the empty query / fragment. *)
Definition flow_url (st : pstate) (u : url) : url :=
  match st with
  | Query => set_query u (Some [])
  | Fragment => set_fragment u (Some [])
  | _ => u
  end.

Definition eval_flow (f : flow) (r : presult) : Prop :=
  match f with
  | Go st p u => is_suffix p -> forall at_ pw, exists r', eval (at_state st p (flow_url st u) at_ pw) r' /\ res_eq r r'
  | Stop r' => res_eq r' r
  end.

End Sim.

(* The statement of a block lemma: what the block computes is what the machine does from the
   state the block starts in.  [P] collects the side conditions the block needs (base shape,
   table facts, the host-parser equivalence, ...). *)
Definition blk_sound (idna : list N -> option (list N)) (blk : ctx -> flow -> flow) (st : pstate) (P : ctx -> url -> Prop) : Prop :=
  forall (c : ctx) (input : str) (p : str) (u : url) (r : presult),
    P c u ->
    eval_flow idna input (c_base c) (c_override c) (blk c (Go st p u)) r ->
    eval_flow idna input (c_base c) (c_override c) (Go st p u) r.
