(* C12 — IPv6 serializer: token view of both serializers, their equality, and the
   characterisation of find_compress ("first longest run of >= 2 zero pieces"). *)
From Upa Require Import Base.Prelude Proofs.TableLemmas Proofs.Ipv6Base.
From Coq Require Import ZifyBool ZifyN ZifyNat.
Local Open Scope N_scope.

(* ---------- Spec serializer, as tokens ---------- *)

Fixpoint spec_ser_toks (fuel : nat) (a : list N) (pi : nat) (compress : option nat) (ignore0 : bool)
  : list tok :=
  match fuel with
  | O => []
  | S fuel' =>
    if (8 <=? pi)%nat then [] else
    let v := S.get_nth a pi in
    if ignore0 && (v =? 0) then spec_ser_toks fuel' a (S pi) compress true
    else
      let hex := (if (pi =? 7)%nat then THexEnd v else THexC v)
                 :: spec_ser_toks fuel' a (S pi) compress false in
      match compress with
      | Some c =>
          if (c =? pi)%nat then
            (if (pi =? 0)%nat then [TColon; TColon] else [TColon]) ++
            spec_ser_toks fuel' a (S pi) compress true
          else hex
      | None => hex
      end
  end.

Definition spec_toks (a : list N) : list tok :=
  let compress := match S.find_compress a 0 None with Some (i, _) => Some i | None => None end in
  spec_ser_toks 9 a 0 compress false.

Lemma print_cons tf t l : print tf (t :: l) = print_tok tf t ++ print tf l.
Proof. reflexivity. Qed.

Lemma spec_ser_print fuel : forall a pi c ig,
  print hex_str_lower (spec_ser_toks fuel a pi c ig) = S.ipv6_ser_loop fuel a pi c ig.
Proof.
  induction fuel as [|fuel IH]; intros a pi c ig; [reflexivity|].
  cbn [spec_ser_toks S.ipv6_ser_loop].
  destruct (8 <=? pi)%nat; [reflexivity|]. cbv zeta.
  destruct (ig && (S.get_nth a pi =? 0)); [apply IH|].
  assert (Hhex : print hex_str_lower
            ((if (pi =? 7)%nat then THexEnd (S.get_nth a pi) else THexC (S.get_nth a pi))
             :: spec_ser_toks fuel a (S pi) c false) =
          hex_str_lower (S.get_nth a pi) ++ (if (pi =? 7)%nat then [] else [58]) ++
          S.ipv6_ser_loop fuel a (S pi) c false).
  { rewrite print_cons, IH. destruct (pi =? 7)%nat; cbn [print_tok app]; [reflexivity|].
    rewrite <- app_assoc. reflexivity. }
  destruct c as [c|]; [|exact Hhex].
  destruct (c =? pi)%nat; [|exact Hhex].
  rewrite print_app, IH. destruct (pi =? 0)%nat; reflexivity.
Qed.

Lemma spec_toks_print a : print hex_str_lower (spec_toks a) = S.ipv6_serialize a.
Proof. unfold spec_toks, S.ipv6_serialize. apply spec_ser_print. Qed.

Lemma spec_ser_small fuel : forall a pi c ig,
  (forall j, S.get_nth a j < 65536) -> toks_small (spec_ser_toks fuel a pi c ig).
Proof.
  unfold toks_small.
  induction fuel as [|fuel IH]; intros a pi c ig Ha; [constructor|].
  cbn [spec_ser_toks].
  destruct (8 <=? pi)%nat; [constructor|]. cbv zeta.
  destruct (ig && (S.get_nth a pi =? 0)); [apply IH; exact Ha|].
  assert (Hhex : Forall (fun t => tok_val t < 65536)
            ((if (pi =? 7)%nat then THexEnd (S.get_nth a pi) else THexC (S.get_nth a pi))
             :: spec_ser_toks fuel a (S pi) c false)).
  { constructor; [|apply IH; exact Ha]. destruct (pi =? 7)%nat; cbn [tok_val]; apply Ha. }
  destruct c as [c|]; [|exact Hhex].
  destruct (c =? pi)%nat; [|exact Hhex].
  apply Forall_app. split; [|apply IH; exact Ha].
  destruct (pi =? 0)%nat; repeat constructor.
Qed.

Lemma spec_toks_small a : Forall (fun p => p < 65536) a -> toks_small (spec_toks a).
Proof.
  intro H. unfold spec_toks. apply spec_ser_small.
  exact (get_nth_Forall (fun p => p < 65536) a eq_refl H).
Qed.

(* ---------- Impl serializer, as tokens ---------- *)

Fixpoint impl_ser_toks (fuel : nat) (a : list N) (it : nat) (compress : option nat) (clen : nat)
  : list tok :=
  match fuel with
  | O => []
  | S fuel' =>
    let '(pre, it1, stop) :=
      match compress with
      | Some c => if (it =? c)%nat
                  then ((if (it =? 0)%nat then [TColon; TColon] else [TColon]), (it + clen)%nat,
                        ((it + clen) =? 8)%nat)
                  else ([], it, false)
      | None => ([], it, false)
      end in
    if stop then pre else
    if (S it1 =? 8)%nat then pre ++ [THexEnd (S.get_nth a it1)]
    else pre ++ [THexC (S.get_nth a it1)] ++ impl_ser_toks fuel' a (S it1) compress clen
  end.

Definition impl_toks (a : list N) : list tok :=
  let '(clen, compress) := I.longest_zero_sequence 9 a 0 0 None in
  let compress := if (clen =? 1)%nat then None else compress in
  impl_ser_toks 9 a 0 compress clen.

Definition utf (v : N) : str := I.unsigned_to_str v 16.

Lemma impl_ser_print fuel : forall a it c clen,
  print utf (impl_ser_toks fuel a it c clen) = I.ipv6_ser_loop fuel a it c clen.
Proof.
  induction fuel as [|fuel IH]; intros a it c clen; [reflexivity|].
  cbn [impl_ser_toks I.ipv6_ser_loop].
  assert (Hgen : forall (pre : list tok) it1,
    print utf (if (S it1 =? 8)%nat then pre ++ [THexEnd (S.get_nth a it1)]
               else pre ++ [THexC (S.get_nth a it1)] ++ impl_ser_toks fuel a (S it1) c clen) =
    (if (S it1 =? 8)%nat then print utf pre ++ I.unsigned_to_str (S.get_nth a it1) 16
     else (print utf pre ++ I.unsigned_to_str (S.get_nth a it1) 16) ++ [58] ++
          I.ipv6_ser_loop fuel a (S it1) c clen)).
  { intros pre it1. destruct (S it1 =? 8)%nat.
    - rewrite print_app. cbn [print flat_map print_tok]. rewrite app_nil_r. reflexivity.
    - rewrite !print_app, IH. cbn [print flat_map print_tok]. rewrite app_nil_r.
      unfold utf. rewrite <- !app_assoc. reflexivity. }
  destruct c as [c|].
  - destruct (it =? c)%nat.
    + destruct ((it + clen) =? 8)%nat.
      * destruct (it =? 0)%nat; reflexivity.
      * rewrite Hgen. destruct (it =? 0)%nat; reflexivity.
    + rewrite Hgen. reflexivity.
  - rewrite Hgen. reflexivity.
Qed.

Lemma impl_toks_print a : print utf (impl_toks a) = I.ipv6_serialize a.
Proof.
  unfold impl_toks, I.ipv6_serialize.
  destruct (I.longest_zero_sequence 9 a 0 0 None) as [clen compress].
  apply impl_ser_print.
Qed.

(* ---------- the two token lists are equal: 2^8 zero/non-zero patterns ---------- *)

Lemma list8 (a : list N) : length a = 8%nat ->
  exists a0 a1 a2 a3 a4 a5 a6 a7, a = [a0; a1; a2; a3; a4; a5; a6; a7].
Proof.
  intro H. destruct a as [|a0 [|a1 [|a2 [|a3 [|a4 [|a5 [|a6 [|a7 [|a8 a]]]]]]]]]; try discriminate H.
  repeat eexists.
Qed.

Lemma ser_toks_eq a : length a = 8%nat -> impl_toks a = spec_toks a.
Proof.
  intro H. destruct (list8 a H) as (a0 & a1 & a2 & a3 & a4 & a5 & a6 & a7 & ->). clear H.
  destruct a0, a1, a2, a3, a4, a5, a6, a7; vm_compute; reflexivity.
Qed.

Lemma serialize_eq a : length a = 8%nat -> Forall (fun p => p < 65536) a ->
  I.ipv6_serialize a = S.ipv6_serialize a.
Proof.
  intros Hl Hs. rewrite <- impl_toks_print, <- spec_toks_print, (ser_toks_eq a Hl).
  apply print_small. apply spec_toks_small. exact Hs.
Qed.

(* ---------- find_compress returns the first longest run of >= 2 zeros ---------- *)

Definition zr (a : list N) (j : nat) : nat := S.zero_run (skipn j a).

Definition first_longest (a : list N) (bound : nat) (best : option (nat * nat)) : Prop :=
  match best with
  | None => forall j, (j < bound)%nat -> (zr a j < 2)%nat
  | Some (i, r) => (i < bound)%nat /\ r = zr a i /\ (2 <= r)%nat /\
                   (forall j, (j < bound)%nat -> (zr a j <= r)%nat) /\
                   (forall j, (j < i)%nat -> (zr a j < r)%nat)
  end.

Lemma skipn_S_tl (a : list N) : forall n, skipn (S n) a = tl (skipn n a).
Proof.
  induction a as [|x a IH]; intros [|n]; try reflexivity.
  cbn [skipn] in *. apply IH.
Qed.

Lemma find_compress_inv a : forall l idx best,
  skipn idx a = l -> first_longest a idx best ->
  first_longest a (idx + length l) (S.find_compress l idx best).
Proof.
  induction l as [|x l IH]; intros idx best Hl Hb.
  - cbn [S.find_compress length]. rewrite Nat.add_0_r. exact Hb.
  - cbn [S.find_compress length]. cbv zeta.
    replace (idx + S (length l))%nat with (S idx + length l)%nat by lia.
    assert (Hr : S.zero_run (x :: l) = zr a idx) by (unfold zr; rewrite Hl; reflexivity).
    rewrite Hr. apply IH.
    + rewrite skipn_S_tl, Hl. reflexivity.
    + clear IH Hr Hl. set (r := zr a idx).
      assert (Hsplit : forall j, (j < S idx)%nat -> (j < idx)%nat \/ j = idx) by (intros; lia).
      destruct (2 <=? r)%nat eqn:E2.
      * destruct best as [[bi bl]|].
        -- cbn [first_longest] in Hb. destruct Hb as (Hb1 & Hb2 & Hb3 & Hb4 & Hb5).
           destruct (bl <? r)%nat eqn:E3; cbn [first_longest].
           ++ repeat split; [lia|lia| |].
              ** intros j Hj. destruct (Hsplit j Hj) as [Hj'| ->]; [specialize (Hb4 j Hj'); lia|fold r; lia].
              ** intros j Hj. specialize (Hb4 j Hj). lia.
           ++ repeat split; [lia|exact Hb2|exact Hb3| |exact Hb5].
              intros j Hj. destruct (Hsplit j Hj) as [Hj'| ->]; [exact (Hb4 j Hj')|fold r; lia].
        -- cbn [first_longest] in *. repeat split; [lia|lia| |].
           ++ intros j Hj. destruct (Hsplit j Hj) as [Hj'| ->]; [specialize (Hb j Hj'); lia|fold r; lia].
           ++ intros j Hj. specialize (Hb j Hj). lia.
      * destruct best as [[bi bl]|]; cbn [first_longest] in *.
        -- destruct Hb as (Hb1 & Hb2 & Hb3 & Hb4 & Hb5).
           repeat split; [lia|exact Hb2|exact Hb3| |exact Hb5].
           intros j Hj. destruct (Hsplit j Hj) as [Hj'| ->]; [exact (Hb4 j Hj')|fold r; lia].
        -- intros j Hj. destruct (Hsplit j Hj) as [Hj'| ->]; [exact (Hb j Hj')|fold r; lia].
Qed.

Lemma zr_oob a j : (length a <= j)%nat -> zr a j = O.
Proof. intro H. unfold zr. rewrite skipn_all2; [reflexivity|exact H]. Qed.

Lemma find_compress_first_longest a :
  match S.find_compress a 0 None with
  | Some (i, r) =>
      (i < length a)%nat /\ r = S.zero_run (skipn i a) /\ (2 <= r)%nat /\
      (forall j, (S.zero_run (skipn j a) <= S.zero_run (skipn i a))%nat) /\
      (forall j, (j < i)%nat -> (S.zero_run (skipn j a) < S.zero_run (skipn i a))%nat)
  | None => forall j, (S.zero_run (skipn j a) < 2)%nat
  end.
Proof.
  pose proof (find_compress_inv a a 0 None eq_refl) as H.
  cbn [Nat.add first_longest] in H. specialize (H ltac:(intros; lia)).
  destruct (S.find_compress a 0 None) as [[i r]|]; cbn [first_longest] in H.
  - destruct H as (H1 & H2 & H3 & H4 & H5). fold (zr a i). rewrite <- H2.
    split; [exact H1|]. split; [reflexivity|]. split; [exact H3|]. split.
    + intro j. fold (zr a j). destruct (Nat.lt_ge_cases j (length a)) as [Hj|Hj]; [exact (H4 j Hj)|].
      rewrite (zr_oob a j Hj). lia.
    + intros j Hj. fold (zr a j). exact (H5 j Hj).
  - intro j. fold (zr a j). destruct (Nat.lt_ge_cases j (length a)) as [Hj|Hj]; [exact (H j Hj)|].
    rewrite (zr_oob a j Hj). lia.
Qed.
