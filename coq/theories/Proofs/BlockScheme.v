(* Block lemmas (Impl.Parser blocks vs the Standard's machine, framework Proofs/ParserSim.v) for
   the states SchemeStart + Scheme (combined), NoScheme, SpecialRelativeOrAuthority,
   PathOrAuthority, SpecialAuthoritySlashes, SpecialAuthorityIgnoreSlashes; and the protocol setter.

   Exports (all Qed, closed under the global context):
   - the flag-preserving core form [blk_core] / [blk_core_start] (+ [core_out]) and its bridges
     [blk_core_sound], [blk_core_start_sound], [core_out_sound] to [blk_sound];
   - X_core and X_sound for X = blk_special_relative_or_authority, blk_path_or_authority,
     blk_special_authority_slashes, blk_special_authority_ignore_slashes (side condition True),
     blk_no_scheme ([P_no_scheme]: c_save c = true), blk_scheme_start (True);
   - [blk_scheme_both_core] / [blk_scheme_both_sound]: blk_scheme after blk_scheme_start from
     [Go SchemeStart input u] (pointer at the START of the input: the Standard's "start over"
     goes back to pointer 0), side condition [P_scheme]; the two halves [scheme_noov], [scheme_ov];
   - [protocol_setter_equiv]: the C++ protocol setter = the Standard's, for urls with
     [file_host_wf] (a file url has a non-null host). *)
From Upa Require Import Base.Prelude Spec.CodePoints Spec.Utf Spec.Percent Spec.Ip Spec.Url Spec.Api Impl.Tables Impl.Parser
  Proofs.TableLemmas Proofs.TablesInst Proofs.ParserSim Proofs.SimBase.
From Coq Require Import Lia ZArith.
Local Open Scope N_scope.

(* ---------- generic helpers ---------- *)
Lemma res_eq_sym ov a b : res_eq ov a b -> res_eq ov b a.
Proof. destruct a, b; cbn; auto. intros [H|H]; auto. Qed.
Lemma res_eq_trans_l ov r0 r r' : res_eq ov r0 r -> res_eq ov r0 r' -> res_eq ov r r'.
Proof.
  destruct r0, r, r'; cbn; try tauto; try congruence.
  intros [H|H] [H'|H']; auto. right; congruence.
Qed.

Lemma str_eqb_sym a : forall b, str_eqb a b = str_eqb b a.
Proof.
  induction a as [|x a IH]; intros [|y b]; cbn [str_eqb]; try reflexivity.
  rewrite N.eqb_sym, IH. reflexivity.
Qed.

Lemma suffix_drop_while input f p : is_suffix input p -> is_suffix input (drop_while f p).
Proof.
  induction p as [|x p IH]; intro H; cbn [drop_while]; [exact H|].
  destruct (f x); [apply IH; eapply suffix_tail; exact H | exact H].
Qed.

(* patterns on numerals: [match p with 47 :: p' => _ | _ => _ end] etc. as boolean tests *)
Ltac split_N y :=
  destruct y as [|y]; [try reflexivity | do 6 (try (destruct y as [y|y|]; try reflexivity))].

Lemma match_47 {A} (p : str) (f : str -> A) (d : A) :
  match p with 47 :: p' => f p' | _ => d end =
  match p with y :: p' => if y =? 47 then f p' else d | [] => d end.
Proof. destruct p as [|y p]; [reflexivity|]. split_N y. Qed.
Lemma match_35 {A} (p : str) (f : str -> A) (d : A) :
  match p with 35 :: p' => f p' | _ => d end =
  match p with y :: p' => if y =? 35 then f p' else d | [] => d end.
Proof. destruct p as [|y p]; [reflexivity|]. split_N y. Qed.
Lemma match_47_47 {A} (p : str) (f : str -> A) (d : A) :
  match p with 47 :: 47 :: p' => f p' | _ => d end =
  match p with y1 :: y2 :: p' => if (y1 =? 47) && (y2 =? 47) then f p' else d | _ => d end.
Proof.
  destruct p as [|y1 [|y2 p]]; [reflexivity| split_N y1 |].
  destruct (N.eqb_spec y1 47) as [->|N1].
  - cbn [andb]. split_N y2.
  - cbn [andb]. split_N y1. congruence.
Qed.

Section BlockScheme.
Variable idna : list N -> option (list N).

(* ---------- the flag-preserving ("core") form of a block lemma ----------
   [core_out c input m_in f]: the machine started in [m_in a pw] does what the flow [f] says:
   - f = Go st' p' u': p' is again a suffix of the input and every result of the machine state
     that flow stands for (same authority flags a, pw) is a result of [m_in a pw];
   - f = Stop r0: the machine stops with a result that is [res_eq] to r0. *)
Definition core_out (c : ctx) (input : str) (m_in : bool -> bool -> mstate) (f : flow) : Prop :=
  match f with
  | Go st' p' u' =>
      is_suffix input p' /\
      forall a pw r, eval idna input (c_base c) (c_override c) (at_state input st' p' (flow_url st' u') a pw) r ->
                     eval idna input (c_base c) (c_override c) (m_in a pw) r
  | Stop r0 =>
      forall a pw, exists r', eval idna input (c_base c) (c_override c) (m_in a pw) r' /\ res_eq (c_override c) r0 r'
  end.

Definition blk_core (blk : ctx -> flow -> flow) (st : pstate) (P : ctx -> url -> Prop) : Prop :=
  forall c input p u, P c u -> is_suffix input p ->
    core_out c input (fun a pw => at_state input st p (flow_url st u) a pw) (blk c (Go st p u)).

(* the same with the pointer at the start of the input (scheme start state) *)
Definition blk_core_start (blk : ctx -> flow -> flow) (st : pstate) (P : ctx -> str -> url -> Prop) : Prop :=
  forall c input u, P c input u ->
    core_out c input (fun a pw => at_state input st input (flow_url st u) a pw) (blk c (Go st input u)).
Definition blk_sound_start (blk : ctx -> flow -> flow) (st : pstate) (P : ctx -> str -> url -> Prop) : Prop :=
  forall (c : ctx) (input : str) (u : url) (r : presult),
    P c input u ->
    eval_flow idna input (c_base c) (c_override c) (blk c (Go st input u)) r ->
    eval_flow idna input (c_base c) (c_override c) (Go st input u) r.

Lemma core_out_sound c input st p u f r :
  core_out c input (fun a pw => at_state input st p (flow_url st u) a pw) f ->
  eval_flow idna input (c_base c) (c_override c) f r ->
  eval_flow idna input (c_base c) (c_override c) (Go st p u) r.
Proof.
  intros H Hf. cbn [eval_flow]. intros Hsuf a pw.
  destruct f as [st' p' u'|r0]; cbn [core_out eval_flow] in *.
  - destruct H as [Hs' Hc]. destruct (Hf Hs' a pw) as [r' [He Hr]].
    exists r'. split; [apply Hc; exact He|exact Hr].
  - destruct (H a pw) as [r' [He Hr]]. exists r'. split; [exact He|].
    eapply res_eq_trans_l; eassumption.
Qed.

Lemma blk_core_sound blk st P : blk_core blk st P -> blk_sound idna blk st P.
Proof.
  intros H c input p u r HP Hf. cbn [eval_flow]. intros Hsuf.
  exact (core_out_sound c input st p u _ r (H c input p u HP Hsuf) Hf Hsuf).
Qed.
Lemma blk_core_start_sound blk st P : blk_core_start blk st P -> blk_sound_start blk st P.
Proof.
  intros H c input u r HP Hf. exact (core_out_sound c input st input u _ r (H c input u HP) Hf).
Qed.

(* ---------- stepping the machine ---------- *)
Section Machine.
Variable input : str.
Variable base : option url.
Variable ov : option pstate.
Notation stepf := (Spec.Url.step idna input base ov).
Notation evalf := (eval idna input base ov).

(* one step that continues, then the loop's "pointer += 1" *)
Lemma eval_to m s u b a br pw z z' r :
  stepf m = Cont (mk_m s u b a br pw z) -> (z < Z.of_nat (length input))%Z -> z' = (z + 1)%Z ->
  evalf (mk_m s u b a br pw z') r -> evalf m r.
Proof. intros Hs Hz -> He. eapply E_cont; [exact Hs|exact Hz|exact He]. Qed.

Lemma ptr_dec_lt p : is_suffix input p -> (pointer_of input p - 1 < Z.of_nat (length input))%Z.
Proof. intro H. apply pointer_of_range in H. lia. Qed.

Lemma step_SROA u b a br pw z :
  stepf (mk_m SpecialRelativeOrAuthority u b a br pw z) =
  if is_c (char_at input z) 47 && starts_with [47] (remaining input z)
  then Cont (mk_m SpecialAuthorityIgnoreSlashes u b a br pw (z + 1))
  else Cont (mk_m Relative u b a br pw (z - 1)).
Proof. reflexivity. Qed.
Lemma step_SAS u b a br pw z :
  stepf (mk_m SpecialAuthoritySlashes u b a br pw z) =
  if is_c (char_at input z) 47 && starts_with [47] (remaining input z)
  then Cont (mk_m SpecialAuthorityIgnoreSlashes u b a br pw (z + 1))
  else Cont (mk_m SpecialAuthorityIgnoreSlashes u b a br pw (z - 1)).
Proof. reflexivity. Qed.
Lemma step_SAIS u b a br pw z :
  stepf (mk_m SpecialAuthorityIgnoreSlashes u b a br pw z) =
  if negb (is_c (char_at input z) 47) && negb (is_c (char_at input z) 92)
  then Cont (mk_m Authority u b a br pw (z - 1))
  else Cont (mk_m SpecialAuthorityIgnoreSlashes u b a br pw z).
Proof. reflexivity. Qed.
Lemma step_POA u b a br pw z :
  stepf (mk_m PathOrAuthority u b a br pw z) =
  if is_c (char_at input z) 47 then Cont (mk_m Authority u b a br pw z)
  else Cont (mk_m Path u b a br pw (z - 1)).
Proof. reflexivity. Qed.

(* "decrease pointer by 1" followed by the loop's increase: the next state at the same place *)
Lemma eval_redo m s u p a pw r :
  is_suffix input p ->
  stepf m = Cont (mk_m s u [] a false pw (pointer_of input p - 1)) ->
  evalf (at_state input s p u a pw) r -> evalf m r.
Proof.
  intros Hp Hs He. eapply eval_to; [exact Hs | apply ptr_dec_lt; exact Hp | | exact He]. lia.
Qed.
(* a step that keeps the pointer on the code point c, then the loop's increase *)
Lemma eval_adv m s u x p a pw r :
  is_suffix input (x :: p) ->
  stepf m = Cont (mk_m s u [] a false pw (pointer_of input (x :: p))) ->
  evalf (at_state input s p u a pw) r -> evalf m r.
Proof.
  intros Hp Hs He. eapply eval_to; [exact Hs | apply pointer_of_lt; exact Hp | | exact He].
  apply pointer_of_cons.
Qed.
(* a step that consumes two code points ("increase pointer by 1" in the state) *)
Lemma eval_adv2 m s u x y p a pw r :
  is_suffix input (x :: y :: p) ->
  stepf m = Cont (mk_m s u [] a false pw (pointer_of input (x :: y :: p) + 1)) ->
  evalf (at_state input s p u a pw) r -> evalf m r.
Proof.
  intros Hp Hs He. eapply eval_to; [exact Hs | | | exact He].
  - rewrite <- pointer_of_cons. apply pointer_of_lt. eapply suffix_tail; exact Hp.
  - rewrite <- pointer_of_cons. apply pointer_of_cons.
Qed.

End Machine.

(* ---------- special relative or authority state ---------- *)
Lemma blk_special_relative_or_authority_core :
  blk_core blk_special_relative_or_authority SpecialRelativeOrAuthority (fun _ _ => True).
Proof.
  intros c input p u _ Hp. cbn [blk_special_relative_or_authority flow_url].
  rewrite match_47_47.
  destruct p as [|y1 [|y2 p']].
  - cbn [core_out flow_url]. split; [exact Hp|]. intros a pw r He.
    eapply eval_redo; [exact Hp| |exact He].
    unfold at_state. rewrite step_SROA, char_at_eof. reflexivity.
  - cbn [core_out flow_url]. split; [exact Hp|]. intros a pw r He.
    eapply eval_redo; [exact Hp| |exact He].
    unfold at_state. rewrite step_SROA, (remaining_suffix _ _ _ Hp). cbn [starts_with].
    rewrite andb_false_r. reflexivity.
  - destruct ((y1 =? 47) && (y2 =? 47)) eqn:E.
    + apply andb_prop in E. destruct E as [E1 E2]. apply N.eqb_eq in E1, E2. subst y1 y2.
      cbn [core_out flow_url]. split; [eapply suffix_tail, suffix_tail; exact Hp|]. intros a pw r He.
      eapply eval_adv2; [exact Hp| |exact He].
      unfold at_state. rewrite step_SROA, (char_at_suffix _ _ _ Hp), (remaining_suffix _ _ _ Hp). reflexivity.
    + cbn [core_out flow_url]. split; [exact Hp|]. intros a pw r He.
      eapply eval_redo; [exact Hp| |exact He].
      unfold at_state. rewrite step_SROA, (char_at_suffix _ _ _ Hp), (remaining_suffix _ _ _ Hp).
      cbn [is_c starts_with]. rewrite andb_true_r, (N.eqb_sym 47 y2), E. reflexivity.
Qed.

Lemma blk_special_relative_or_authority_sound :
  blk_sound idna blk_special_relative_or_authority SpecialRelativeOrAuthority (fun _ _ => True).
Proof. apply blk_core_sound, blk_special_relative_or_authority_core. Qed.

(* ---------- special authority slashes state ---------- *)
Lemma blk_special_authority_slashes_core :
  blk_core blk_special_authority_slashes SpecialAuthoritySlashes (fun _ _ => True).
Proof.
  intros c input p u _ Hp. cbn [blk_special_authority_slashes flow_url].
  rewrite match_47_47.
  destruct p as [|y1 [|y2 p']].
  - cbn [core_out flow_url]. split; [exact Hp|]. intros a pw r He.
    eapply eval_redo; [exact Hp| |exact He].
    unfold at_state. rewrite step_SAS, char_at_eof. reflexivity.
  - cbn [core_out flow_url]. split; [exact Hp|]. intros a pw r He.
    eapply eval_redo; [exact Hp| |exact He].
    unfold at_state. rewrite step_SAS, (remaining_suffix _ _ _ Hp). cbn [starts_with].
    rewrite andb_false_r. reflexivity.
  - destruct ((y1 =? 47) && (y2 =? 47)) eqn:E.
    + apply andb_prop in E. destruct E as [E1 E2]. apply N.eqb_eq in E1, E2. subst y1 y2.
      cbn [core_out flow_url]. split; [eapply suffix_tail, suffix_tail; exact Hp|]. intros a pw r He.
      eapply eval_adv2; [exact Hp| |exact He].
      unfold at_state. rewrite step_SAS, (char_at_suffix _ _ _ Hp), (remaining_suffix _ _ _ Hp). reflexivity.
    + cbn [core_out flow_url]. split; [exact Hp|]. intros a pw r He.
      eapply eval_redo; [exact Hp| |exact He].
      unfold at_state. rewrite step_SAS, (char_at_suffix _ _ _ Hp), (remaining_suffix _ _ _ Hp).
      cbn [is_c starts_with]. rewrite andb_true_r, (N.eqb_sym 47 y2), E. reflexivity.
Qed.

Lemma blk_special_authority_slashes_sound :
  blk_sound idna blk_special_authority_slashes SpecialAuthoritySlashes (fun _ _ => True).
Proof. apply blk_core_sound, blk_special_authority_slashes_core. Qed.


(* ---------- path or authority state ---------- *)
Lemma blk_path_or_authority_core :
  blk_core blk_path_or_authority PathOrAuthority (fun _ _ => True).
Proof.
  intros c input p u _ Hp. cbn [blk_path_or_authority flow_url].
  rewrite match_47.
  destruct p as [|y p'].
  - cbn [core_out flow_url]. split; [exact Hp|]. intros a pw r He.
    eapply eval_redo; [exact Hp| |exact He].
    unfold at_state. rewrite step_POA, char_at_eof. reflexivity.
  - destruct (N.eqb_spec y 47) as [->|Ny].
    + cbn [core_out flow_url]. split; [eapply suffix_tail; exact Hp|]. intros a pw r He.
      eapply eval_adv; [exact Hp| |exact He].
      unfold at_state. rewrite step_POA, (char_at_suffix _ _ _ Hp). reflexivity.
    + cbn [core_out flow_url]. split; [exact Hp|]. intros a pw r He.
      eapply eval_redo; [exact Hp| |exact He].
      unfold at_state. rewrite step_POA, (char_at_suffix _ _ _ Hp). cbn [is_c].
      apply N.eqb_neq in Ny. rewrite Ny. reflexivity.
Qed.

Lemma blk_path_or_authority_sound :
  blk_sound idna blk_path_or_authority PathOrAuthority (fun _ _ => True).
Proof. apply blk_core_sound, blk_path_or_authority_core. Qed.

(* ---------- special authority ignore slashes state ---------- *)
Lemma sais_scan input base ov u a pw r : forall p,
  is_suffix input p ->
  eval idna input base ov (at_state input Authority (drop_while is_slash p) u a pw) r ->
  eval idna input base ov (at_state input SpecialAuthorityIgnoreSlashes p u a pw) r.
Proof.
  induction p as [|y p IH]; intros Hp He; cbn [drop_while] in He.
  - eapply eval_redo; [exact Hp| |exact He].
    unfold at_state. rewrite step_SAIS, char_at_eof. reflexivity.
  - unfold is_slash in He at 1. destruct ((y =? 47) || (y =? 92)) eqn:E.
    + eapply eval_adv; [exact Hp| | apply IH; [eapply suffix_tail; exact Hp|exact He]].
      unfold at_state. rewrite step_SAIS, (char_at_suffix _ _ _ Hp). cbn [is_c].
      rewrite <- negb_orb, E. reflexivity.
    + eapply eval_redo; [exact Hp| |exact He].
      unfold at_state. rewrite step_SAIS, (char_at_suffix _ _ _ Hp). cbn [is_c].
      rewrite <- negb_orb, E. reflexivity.
Qed.

Lemma blk_special_authority_ignore_slashes_core :
  blk_core blk_special_authority_ignore_slashes SpecialAuthorityIgnoreSlashes (fun _ _ => True).
Proof.
  intros c input p u _ Hp. cbn [blk_special_authority_ignore_slashes flow_url core_out].
  split; [apply suffix_drop_while; exact Hp|]. intros a pw r He. apply sais_scan; assumption.
Qed.

Lemma blk_special_authority_ignore_slashes_sound :
  blk_sound idna blk_special_authority_ignore_slashes SpecialAuthorityIgnoreSlashes (fun _ _ => True).
Proof. apply blk_core_sound, blk_special_authority_ignore_slashes_core. Qed.

(* ---------- no scheme state ---------- *)
Lemma step_NoScheme input base ov u b a br pw z :
  step idna input base ov (mk_m NoScheme u b a br pw z) =
  match base with
  | None => Fail
  | Some bs =>
      if has_opaque_path bs then
        if is_c (char_at input z) 35 then
          Cont (mk_m Fragment (set_fragment (set_query (set_path (set_scheme u (scheme bs)) (path bs)) (query bs)) (Some [])) b a br pw z)
        else Fail
      else if negb (str_eqb (scheme bs) s_file) then Cont (mk_m Relative u b a br pw (z - 1))
      else Cont (mk_m File u b a br pw (z - 1))
  end.
Proof. reflexivity. Qed.

Definition P_no_scheme (c : ctx) (u : url) : Prop := c_save c = true.

Lemma blk_no_scheme_core : blk_core blk_no_scheme NoScheme P_no_scheme.
Proof.
  intros c input p u Hsave Hp. unfold P_no_scheme in Hsave. cbn [blk_no_scheme flow_url].
  destruct (c_base c) as [bs|] eqn:Hb.
  2:{ cbn [core_out]. intros a pw. exists (PFail u). split.
      - unfold at_state. replace u with (m_url (mk_m NoScheme u [] a false pw (pointer_of input p))) at 2 by reflexivity.
        apply E_fail. rewrite step_NoScheme, Hb. reflexivity.
      - cbn. right; reflexivity. }
  destruct (has_opaque_path bs) eqn:Hop.
  - rewrite match_35. destruct p as [|y p'].
    + cbn [core_out]. intros a pw. exists (PFail u). split.
      * unfold at_state. replace u with (m_url (mk_m NoScheme u [] a false pw (pointer_of input []))) at 2 by reflexivity.
        apply E_fail. rewrite step_NoScheme, Hb, Hop, char_at_eof. reflexivity.
      * cbn. right; reflexivity.
    + destruct (N.eqb_spec y 35) as [->|Ny].
      * unfold save. rewrite Hsave. cbn [core_out flow_url].
        split; [eapply suffix_tail; exact Hp|]. intros a pw r He.
        eapply eval_adv; [exact Hp| |exact He].
        unfold at_state. rewrite step_NoScheme, Hb, Hop, (char_at_suffix _ _ _ Hp). reflexivity.
      * cbn [core_out]. intros a pw. exists (PFail u). split.
        -- unfold at_state. replace u with (m_url (mk_m NoScheme u [] a false pw (pointer_of input (y :: p')))) at 2 by reflexivity.
           apply E_fail. rewrite step_NoScheme, Hb, Hop, (char_at_suffix _ _ _ Hp). cbn [is_c].
           apply N.eqb_neq in Ny. rewrite Ny. reflexivity.
        -- cbn. right; reflexivity.
  - unfold is_file. destruct (str_eqb (scheme bs) s_file) eqn:Hf.
    + cbn [core_out flow_url]. split; [exact Hp|]. intros a pw r He.
      eapply eval_redo; [exact Hp| |exact He].
      unfold at_state. rewrite step_NoScheme, Hb, Hop, Hf. reflexivity.
    + cbn [core_out flow_url]. split; [exact Hp|]. intros a pw r He.
      eapply eval_redo; [exact Hp| |exact He].
      unfold at_state. rewrite step_NoScheme, Hb, Hop, Hf. reflexivity.
Qed.

Lemma blk_no_scheme_sound : blk_sound idna blk_no_scheme NoScheme P_no_scheme.
Proof. apply blk_core_sound, blk_no_scheme_core. Qed.


(* ---------- scheme start state + scheme state ---------- *)
Lemma step_SchemeStart input base ov u b a br pw z :
  step idna input base ov (mk_m SchemeStart u b a br pw z) =
  match char_at input z with
  | Some x =>
      if is_ascii_alpha x then Cont (mk_m Scheme u (b ++ [ascii_lower x]) a br pw z)
      else if negb (is_some ov) then Cont (mk_m NoScheme u b a br pw (z - 1)) else Fail
  | None => if negb (is_some ov) then Cont (mk_m NoScheme u b a br pw (z - 1)) else Fail
  end.
Proof. reflexivity. Qed.

Lemma step_Scheme input base ov u b a br pw z :
  step idna input base ov (mk_m Scheme u b a br pw z) =
  match char_at input z with
  | Some x =>
      if scheme_char x then Cont (mk_m Scheme u (b ++ [ascii_lower x]) a br pw z)
      else if x =? 58 then
        if is_some ov &&
           (negb (Bool.eqb (is_special u) (is_special_scheme b))
            || ((includes_credentials u || is_some (port u)) && str_eqb b s_file)
            || (is_file u && match uhost u with Some HEmpty => true | _ => false end))
        then Ret u
        else
          let u' := set_scheme u b in
          if is_some ov then
            Ret (if is_some (port u') && optN_eqb (port u') (default_port (scheme u')) then set_port u' None else u')
          else if str_eqb b s_file then Cont (mk_m File u' [] a br pw z)
          else if is_special u' then
            match base with
            | Some bs => if str_eqb (scheme bs) (scheme u') then Cont (mk_m SpecialRelativeOrAuthority u' [] a br pw z)
                         else Cont (mk_m SpecialAuthoritySlashes u' [] a br pw z)
            | None => Cont (mk_m SpecialAuthoritySlashes u' [] a br pw z)
            end
          else if starts_with [47] (remaining input z) then Cont (mk_m PathOrAuthority u' [] a br pw (z + 1))
          else Cont (mk_m OpaquePath (set_path u' (POpaque [])) [] a br pw z)
      else if negb (is_some ov) then Cont (mk_m NoScheme u [] a br pw (-1)) else Fail
  | None => if negb (is_some ov) then Cont (mk_m NoScheme u [] a br pw (-1)) else Fail
  end.
Proof. reflexivity. Qed.

Lemma scheme_char_small c : 256 <= c -> scheme_char c = false.
Proof.
  intro Hc. unfold scheme_char, is_ascii_alphanumeric, is_ascii_digit, is_ascii_alpha,
    is_ascii_upper_alpha, is_ascii_lower_alpha. in_list_false Hc. lia.
Qed.
Lemma lor32_lower ch : scheme_char ch = true -> N.lor ch 32 = ascii_lower ch.
Proof.
  intro H. destruct (N.ltb_spec ch 256) as [Hc|Hc].
  - assert (S : sweep256 (fun c => negb (scheme_char c) || (N.lor c 32 =? ascii_lower c)) = true) by (vm_compute; reflexivity).
    pose proof (sweep256_sound _ S ch Hc) as Hs. cbv beta in Hs. rewrite H in Hs. cbn [negb orb] in Hs.
    apply N.eqb_eq in Hs. exact Hs.
  - rewrite (scheme_char_small ch Hc) in H. discriminate.
Qed.
Lemma alpha_scheme_char x : is_ascii_alpha x = true -> scheme_char x = true.
Proof. intro H. unfold scheme_char, is_ascii_alphanumeric. rewrite H, orb_true_r. reflexivity. Qed.

Lemma drop_while_head f : forall l y l', drop_while f l = y :: l' -> f y = false.
Proof.
  induction l as [|x l IH]; intros y l' H; cbn [drop_while] in H; [discriminate|].
  destruct (f x) eqn:E; [eapply IH; exact H|]. inversion H; subst. exact E.
Qed.

(* the machine appends the lowercased scheme code points one by one *)
Lemma scheme_scan input base ov u a pw r : forall p1 buf,
  is_suffix input p1 ->
  eval idna input base ov
    (mk_m Scheme u (buf ++ List.map (fun ch => N.lor ch 32) (take_while tbl_is_scheme_char p1)) a false pw
          (pointer_of input (drop_while tbl_is_scheme_char p1))) r ->
  eval idna input base ov (mk_m Scheme u buf a false pw (pointer_of input p1)) r.
Proof.
  induction p1 as [|y p1 IH]; intros buf Hp He; cbn [take_while drop_while List.map] in He.
  - rewrite app_nil_r in He. exact He.
  - destruct (tbl_is_scheme_char y) eqn:Ey.
    + rewrite tbl_scheme_char in Ey. cbn [List.map] in He.
      eapply eval_to.
      * rewrite step_Scheme, (char_at_suffix _ _ _ Hp), Ey. reflexivity.
      * apply pointer_of_lt; exact Hp.
      * apply pointer_of_cons.
      * apply IH; [eapply suffix_tail; exact Hp|].
        rewrite <- app_assoc. cbn [app]. rewrite <- (lor32_lower y Ey). exact He.
    + cbn [List.map] in He. rewrite app_nil_r in He. exact He.
Qed.

(* from the scheme start state over the first letter and the scheme code points *)
Lemma scheme_prefix input base ov u a pw r x0 p1 :
  is_suffix input (x0 :: p1) -> is_ascii_alpha x0 = true ->
  eval idna input base ov
    (mk_m Scheme u (List.map (fun ch => N.lor ch 32) (x0 :: take_while tbl_is_scheme_char p1)) a false pw
          (pointer_of input (drop_while tbl_is_scheme_char p1))) r ->
  eval idna input base ov (at_state input SchemeStart (x0 :: p1) u a pw) r.
Proof.
  intros Hp Ha He. unfold at_state.
  eapply eval_to.
  - rewrite step_SchemeStart, (char_at_suffix _ _ _ Hp), Ha. reflexivity.
  - apply pointer_of_lt; exact Hp.
  - apply pointer_of_cons.
  - apply scheme_scan; [eapply suffix_tail; exact Hp|].
    cbn [app]. rewrite <- (lor32_lower x0 (alpha_scheme_char x0 Ha)). exact He.
Qed.


(* the two blocks together: what url_parse runs from the scheme start state *)
Definition blk_scheme_both (c : ctx) (f : flow) : flow := blk_scheme c (blk_scheme_start c f).

(* without override; the pointer must be at the start of the input because the Standard's
   "start over (from the first code point in input)" sets the pointer to 0 while the C++ keeps
   [pointer] (which is still [first]) *)
Lemma scheme_noov c input p u :
  c_override c = None -> p = input ->
  core_out c input (fun a pw => at_state input SchemeStart p u a pw) (blk_scheme c (blk_scheme_start c (Go SchemeStart p u))).
Proof.
  intros Hov Hpi. assert (Hp : is_suffix input p) by (subst; apply suffix_refl).
  assert (Hho : has_ov c = false) by (unfold has_ov; rewrite Hov; reflexivity).
  cbn [blk_scheme_start]. rewrite Hho. cbn [negb].
  destruct p as [|x0 p1].
  - cbn [blk_scheme core_out flow_url]. split; [exact Hp|]. intros a pw r He.
    eapply eval_redo; [exact Hp| |exact He]. unfold at_state. rewrite step_SchemeStart, char_at_eof, Hov. reflexivity.
  - destruct (is_ascii_alpha x0) eqn:Ha.
    2:{ cbn [blk_scheme core_out flow_url]. split; [exact Hp|]. intros a pw r He.
    eapply eval_redo; [exact Hp| |exact He]. unfold at_state. rewrite step_SchemeStart, (char_at_suffix _ _ _ Hp), Ha, Hov. reflexivity. }
    cbn [blk_scheme span]. rewrite Hho.
    destruct (drop_while tbl_is_scheme_char p1) as [|r0 rest'] eqn:Hrest.
    + cbn [negb core_out flow_url]. split; [exact Hp|]. intros a pw r He.
      apply scheme_prefix; [exact Hp|exact Ha|]. rewrite Hrest.
      eapply eval_to; [rewrite step_Scheme, char_at_eof, Hov; reflexivity | lia | | rewrite Hpi in He; exact He].
      unfold pointer_of. lia.
    + pose proof (drop_while_head _ _ _ _ Hrest) as Hr0. rewrite tbl_scheme_char in Hr0.
      assert (Hs' : is_suffix input (r0 :: rest')).
      { rewrite <- Hrest. apply suffix_drop_while. eapply suffix_tail; exact Hp. }
      destruct (r0 =? 58) eqn:E58.
      2:{ cbn [negb core_out flow_url]. split; [exact Hp|]. intros a pw r He.
          apply scheme_prefix; [exact Hp|exact Ha|]. rewrite Hrest.
          eapply eval_to; [rewrite step_Scheme, (char_at_suffix _ _ _ Hs'), Hr0, E58, Hov; reflexivity | lia | | rewrite Hpi in He; exact He].
          unfold pointer_of. lia. }
      apply N.eqb_eq in E58. subst r0.
      set (buf := List.map (fun ch => N.lor ch 32) (x0 :: take_while tbl_is_scheme_char p1)).
      cbv iota.
      assert (Hstep : forall base a pw,
        step idna input base (c_override c) (mk_m Scheme u buf a false pw (pointer_of input (58 :: rest'))) =
        (if str_eqb buf s_file then Cont (mk_m File (set_scheme u buf) [] a false pw (pointer_of input (58 :: rest')))
         else if is_special (set_scheme u buf) then
           match base with
           | Some bs => if str_eqb (scheme bs) buf
                        then Cont (mk_m SpecialRelativeOrAuthority (set_scheme u buf) [] a false pw (pointer_of input (58 :: rest')))
                        else Cont (mk_m SpecialAuthoritySlashes (set_scheme u buf) [] a false pw (pointer_of input (58 :: rest')))
           | None => Cont (mk_m SpecialAuthoritySlashes (set_scheme u buf) [] a false pw (pointer_of input (58 :: rest')))
           end
         else if starts_with [47] rest'
              then Cont (mk_m PathOrAuthority (set_scheme u buf) [] a false pw (pointer_of input (58 :: rest') + 1))
              else Cont (mk_m OpaquePath (set_path (set_scheme u buf) (POpaque [])) [] a false pw (pointer_of input (58 :: rest'))))).
      { intros base a pw. rewrite step_Scheme, (char_at_suffix _ _ _ Hs'), Hr0, (remaining_suffix _ _ _ Hs'), Hov. reflexivity. }
      assert (Hsr : is_suffix input rest') by (eapply suffix_tail; exact Hs').
      change (is_file (set_scheme u buf)) with (str_eqb buf s_file).
      change (scheme (set_scheme u buf)) with buf.
      destruct (str_eqb buf s_file) eqn:Ef.
      { cbn [core_out flow_url]. split; [exact Hsr|]. intros a pw r He.
        apply scheme_prefix; [exact Hp|exact Ha|]. rewrite Hrest. fold buf.
        eapply eval_adv; [exact Hs'| |exact He]. rewrite Hstep. reflexivity. }
      destruct (is_special (set_scheme u buf)) eqn:Esp.
      { destruct (c_base c) as [bs|] eqn:Hb.
        - rewrite (str_eqb_sym buf (scheme bs)). destruct (str_eqb (scheme bs) buf) eqn:Eb.
          + cbn [core_out flow_url]. split; [exact Hsr|]. intros a pw r He.
            apply scheme_prefix; [exact Hp|exact Ha|]. rewrite Hrest. fold buf.
            eapply eval_adv; [exact Hs'| |exact He]. rewrite Hstep, Hb, Eb. reflexivity.
          + cbn [core_out flow_url]. split; [exact Hsr|]. intros a pw r He.
            apply scheme_prefix; [exact Hp|exact Ha|]. rewrite Hrest. fold buf.
            eapply eval_adv; [exact Hs'| |exact He]. rewrite Hstep, Hb, Eb. reflexivity.
        - cbn [core_out flow_url]. split; [exact Hsr|]. intros a pw r He.
          apply scheme_prefix; [exact Hp|exact Ha|]. rewrite Hrest. fold buf.
          eapply eval_adv; [exact Hs'| |exact He]. rewrite Hstep, Hb. reflexivity. }
      rewrite match_47. destruct rest' as [|y p'].
      { cbn [core_out flow_url]. split; [exact Hsr|]. intros a pw r He.
        apply scheme_prefix; [exact Hp|exact Ha|]. rewrite Hrest. fold buf.
        eapply eval_adv; [exact Hs'| |exact He]. rewrite Hstep. reflexivity. }
      cbn [starts_with] in Hstep. rewrite andb_true_r, (N.eqb_sym 47 y) in Hstep.
      destruct (N.eqb_spec y 47) as [->|Ny].
      { cbn [core_out flow_url]. split; [eapply suffix_tail; exact Hsr|]. intros a pw r He.
        apply scheme_prefix; [exact Hp|exact Ha|]. rewrite Hrest. fold buf.
        eapply eval_adv2; [exact Hs'| |exact He]. rewrite Hstep. reflexivity. }
      cbn [core_out flow_url]. split; [exact Hsr|]. intros a pw r He.
      apply scheme_prefix; [exact Hp|exact Ha|]. rewrite Hrest. fold buf.
      eapply eval_adv; [exact Hs'| |exact He]. rewrite Hstep. reflexivity.
Qed.

Definition file_host_wf (u : url) : Prop := is_file u = true -> uhost u <> None.
Definition scheme_terminated (p : str) : Prop :=
  match p with
  | [] => True
  | x0 :: p1 => is_ascii_alpha x0 = true -> drop_while tbl_is_scheme_char p1 <> []
  end.

Lemma file_host_cond u : file_host_wf u ->
  is_file u && host_is_empty_or_null u = is_file u && match uhost u with Some HEmpty => true | _ => false end.
Proof.
  unfold file_host_wf, host_is_empty_or_null. intro H. destruct (is_file u); [|reflexivity].
  destruct (uhost u) as [[]|]; try reflexivity. exfalso. apply H; reflexivity.
Qed.
Lemma port_reset_eq (u' : url) (s : str) :
  match default_port s, port u' with
  | Some d, Some pt => if d =? pt then set_port u' None else u'
  | _, _ => u'
  end =
  if is_some (port u') && optN_eqb (port u') (default_port s) then set_port u' None else u'.
Proof.
  destruct (default_port s) as [d|], (port u') as [pt|]; cbn [is_some optN_eqb andb]; try reflexivity.
  rewrite (N.eqb_sym d pt). reflexivity.
Qed.

Lemma scheme_ov c input p u :
  has_ov c = true -> is_suffix input p -> c_orig c = u -> file_host_wf u -> scheme_terminated p ->
  core_out c input (fun a pw => at_state input SchemeStart p u a pw) (blk_scheme c (blk_scheme_start c (Go SchemeStart p u))).
Proof.
  intros Hho Hp Horig Hwf Hterm.
  assert (Hov : is_some (c_override c) = true) by exact Hho.
  cbn [blk_scheme_start]. rewrite Hho. cbn [negb].
  destruct p as [|x0 p1].
  - cbn [blk_scheme core_out]. intros a pw. exists (PFail u). split; [|right; reflexivity].
    unfold at_state. replace u with (m_url (mk_m SchemeStart u [] a false pw (pointer_of input []))) at 2 by reflexivity.
    apply E_fail. rewrite step_SchemeStart, char_at_eof, Hov. reflexivity.
  - destruct (is_ascii_alpha x0) eqn:Ha.
    2:{ cbn [blk_scheme core_out]. intros a pw. exists (PFail u). split; [|right; reflexivity].
        unfold at_state. replace u with (m_url (mk_m SchemeStart u [] a false pw (pointer_of input (x0 :: p1)))) at 2 by reflexivity.
        apply E_fail. rewrite step_SchemeStart, (char_at_suffix _ _ _ Hp), Ha, Hov. reflexivity. }
    cbn [blk_scheme span]. rewrite Hho.
    cbn [scheme_terminated] in Hterm. specialize (Hterm Ha).
    destruct (drop_while tbl_is_scheme_char p1) as [|r0 rest'] eqn:Hrest; [congruence|]. clear Hterm.
    pose proof (drop_while_head _ _ _ _ Hrest) as Hr0. rewrite tbl_scheme_char in Hr0.
    assert (Hs' : is_suffix input (r0 :: rest')).
    { rewrite <- Hrest. apply suffix_drop_while. eapply suffix_tail; exact Hp. }
    set (buf := List.map (fun ch => N.lor ch 32) (x0 :: take_while tbl_is_scheme_char p1)).
    destruct (r0 =? 58) eqn:E58.
    2:{ cbn [negb core_out]. intros a pw. exists (PFail u). split; [|right; reflexivity].
        apply scheme_prefix; [exact Hp|exact Ha|]. rewrite Hrest. fold buf.
        replace u with (m_url (mk_m Scheme u buf a false pw (pointer_of input (r0 :: rest')))) at 2 by reflexivity.
        apply E_fail. rewrite step_Scheme, (char_at_suffix _ _ _ Hs'), Hr0, E58, Hov. reflexivity. }
    apply N.eqb_eq in E58. subst r0. cbv iota.
    rewrite (port_reset_eq (set_scheme u buf) buf), (file_host_cond u Hwf).
    rewrite (andb_comm (str_eqb buf s_file)). unfold ignored. rewrite Horig.
    assert (Hstep : forall a pw,
      step idna input (c_base c) (c_override c) (mk_m Scheme u buf a false pw (pointer_of input (58 :: rest'))) =
      if negb (eqb (is_special u) (is_special_scheme buf))
         || ((includes_credentials u || is_some (port u)) && str_eqb buf s_file)
         || (is_file u && match uhost u with Some HEmpty => true | _ => false end)
      then Ret u
      else Ret (if is_some (port (set_scheme u buf)) && optN_eqb (port (set_scheme u buf)) (default_port buf)
                then set_port (set_scheme u buf) None else set_scheme u buf)).
    { intros a pw. rewrite step_Scheme, (char_at_suffix _ _ _ Hs'), Hr0, Hov. reflexivity. }
    destruct (negb (eqb (is_special u) (is_special_scheme buf))) eqn:EA;
    [|destruct ((includes_credentials u || is_some (port u)) && str_eqb buf s_file) eqn:EB;
      [|destruct (is_file u && match uhost u with Some HEmpty => true | _ => false end) eqn:EC]];
    (cbn [core_out]; intros a pw; eexists; split;
     [ apply scheme_prefix; [exact Hp|exact Ha|]; rewrite Hrest; fold buf; apply E_ret; rewrite Hstep; reflexivity
     | cbn; reflexivity ]).
Qed.

(* side condition of the combined scheme lemma: nothing without override; under an override
   (the protocol setter) the url is the setter's url, a file url has a host, and the scheme
   code points are followed by some code point (the Standard's setter appends ':'; the C++
   accepts the end of the input in place of ':', see [protocol_setter_equiv]) *)
Definition P_scheme (c : ctx) (input : str) (u : url) : Prop :=
  match c_override c with
  | None => True
  | Some _ => c_orig c = u /\ file_host_wf u /\ scheme_terminated input
  end.

Lemma blk_scheme_both_core : blk_core_start blk_scheme_both SchemeStart P_scheme.
Proof.
  intros c input u HP. unfold P_scheme in HP. unfold blk_scheme_both. cbn [flow_url].
  destruct (c_override c) as [st0|] eqn:Hov.
  - destruct HP as [Ho [Hw Ht]]. apply scheme_ov; try assumption.
    + unfold has_ov. rewrite Hov. reflexivity.
    + apply suffix_refl.
  - apply scheme_noov; [exact Hov|reflexivity].
Qed.

Lemma blk_scheme_both_sound : blk_sound_start blk_scheme_both SchemeStart P_scheme.
Proof. apply blk_core_start_sound, blk_scheme_both_core. Qed.

(* what blk_scheme_start alone does *)
Lemma blk_scheme_start_shape c p u :
  blk_scheme_start c (Go SchemeStart p u) =
  match p with
  | x :: _ => if is_ascii_alpha x then Go Scheme p u
              else if has_ov c then Stop (PFail u) else Go NoScheme p u
  | [] => if has_ov c then Stop (PFail u) else Go NoScheme p u
  end.
Proof. cbn [blk_scheme_start]. destruct p as [|x p]; [|destruct (is_ascii_alpha x)]; destruct (has_ov c); reflexivity. Qed.

(* blk_scheme_start alone, in the ordinary block form: [Go Scheme p u] stands for the scheme
   state with EMPTY buffer and the pointer still ON the first letter, which steps to the same
   machine state as the scheme start state does (both append the lowercased letter).
   blk_scheme alone has no such lemma: it does not test its first code point and its
   "start over" is only right when p is the whole input — hence [blk_scheme_both]. *)
Lemma blk_scheme_start_core : blk_core blk_scheme_start SchemeStart (fun _ _ => True).
Proof.
  intros c input p u _ Hp. rewrite blk_scheme_start_shape. cbn [flow_url]. unfold has_ov.
  destruct p as [|x0 p1].
  - destruct (c_override c) as [st0|] eqn:Hov; cbn [is_some].
    + cbn [core_out]. intros a pw. exists (PFail u). split; [|right; reflexivity].
      unfold at_state. replace u with (m_url (mk_m SchemeStart u [] a false pw (pointer_of input []))) at 2 by reflexivity.
      apply E_fail. rewrite step_SchemeStart, char_at_eof, Hov. reflexivity.
    + cbn [core_out flow_url]. split; [exact Hp|]. intros a pw r He.
      eapply eval_redo; [exact Hp| |exact He]. unfold at_state. rewrite step_SchemeStart, char_at_eof, Hov. reflexivity.
  - destruct (is_ascii_alpha x0) eqn:Ha.
    + cbn [core_out flow_url]. split; [exact Hp|]. intros a pw r He. unfold at_state in *.
      pose proof (pointer_of_lt _ _ _ Hp) as Hlt.
      inversion He as [m Hs|m u2 Hs|m m' Hs Hz|m m' r2 Hs Hz He2]; subst;
        rewrite step_Scheme, (char_at_suffix _ _ _ Hp), (alpha_scheme_char _ Ha) in Hs; try discriminate;
        inversion Hs; subst; cbn [m_pointer] in Hz; [lia|].
      eapply E_cont; [rewrite step_SchemeStart, (char_at_suffix _ _ _ Hp), Ha; reflexivity | exact Hz | exact He2].
    + destruct (c_override c) as [st0|] eqn:Hov; cbn [is_some].
      * cbn [core_out]. intros a pw. exists (PFail u). split; [|right; reflexivity].
        unfold at_state. replace u with (m_url (mk_m SchemeStart u [] a false pw (pointer_of input (x0 :: p1)))) at 2 by reflexivity.
        apply E_fail. rewrite step_SchemeStart, (char_at_suffix _ _ _ Hp), Ha, Hov. reflexivity.
      * cbn [core_out flow_url]. split; [exact Hp|]. intros a pw r He.
        eapply eval_redo; [exact Hp| |exact He]. unfold at_state.
        rewrite step_SchemeStart, (char_at_suffix _ _ _ Hp), Ha, Hov. reflexivity.
Qed.
Lemma blk_scheme_start_sound : blk_sound idna blk_scheme_start SchemeStart (fun _ _ => True).
Proof. apply blk_core_sound, blk_scheme_start_core. Qed.

(* with an override the scheme blocks always stop *)
Lemma scheme_ov_stop c p u : has_ov c = true -> exists r0, blk_scheme_both c (Go SchemeStart p u) = Stop r0.
Proof.
  intro Hho. unfold blk_scheme_both. cbn [blk_scheme_start]. rewrite Hho. cbn [negb].
  destruct p as [|x0 p1]; [eexists; reflexivity|].
  destruct (is_ascii_alpha x0); [|eexists; reflexivity].
  cbn [blk_scheme span]. rewrite Hho. cbn [negb]. unfold ignored.
  repeat match goal with |- context [if ?b then _ else _] => destruct b end; eexists; reflexivity.
Qed.

(* ---------- the protocol setter ---------- *)
Lemma take_while_app_stop f x : f x = false -> forall l, take_while f (l ++ [x]) = take_while f l.
Proof.
  intros Hx. induction l as [|y l IH]; cbn [app take_while]; [rewrite Hx; reflexivity|].
  destruct (f y); [rewrite IH|]; reflexivity.
Qed.
Lemma drop_while_app_stop f x : f x = false -> forall l, drop_while f (l ++ [x]) = drop_while f l ++ [x].
Proof.
  intros Hx. induction l as [|y l IH]; cbn [app drop_while]; [rewrite Hx; reflexivity|].
  destruct (f y); [rewrite IH|]; reflexivity.
Qed.
Lemma tbl_scheme_char_58 : tbl_is_scheme_char 58 = false.
Proof. rewrite tbl_scheme_char. reflexivity. Qed.

(* under an override the C++ takes the end of the input for ':' *)
Lemma scheme_ov_model_colon c w u : has_ov c = true ->
  blk_scheme_both c (Go SchemeStart (w ++ [58]) u) = blk_scheme_both c (Go SchemeStart w u).
Proof.
  intro Hho. unfold blk_scheme_both. cbn [blk_scheme_start]. rewrite Hho. cbn [negb].
  destruct w as [|x0 p1]; cbn [app].
  - change (is_ascii_alpha 58) with false. reflexivity.
  - destruct (is_ascii_alpha x0); [|reflexivity].
    cbn [blk_scheme span]. rewrite Hho. cbn [negb].
    rewrite (take_while_app_stop _ _ tbl_scheme_char_58), (drop_while_app_stop _ _ tbl_scheme_char_58).
    destruct (drop_while tbl_is_scheme_char p1) as [|r0 rest']; cbn [app]; reflexivity.
Qed.

Lemma scheme_terminated_colon w : scheme_terminated (w ++ [58]).
Proof.
  destruct w as [|x0 p1]; cbn [app scheme_terminated].
  - change (is_ascii_alpha 58) with false. discriminate.
  - intros _. rewrite (drop_while_app_stop _ _ tbl_scheme_char_58).
    destruct (drop_while tbl_is_scheme_char p1); discriminate.
Qed.

Lemma remove_tab_newline_colon v : remove_tab_newline (v ++ [58]) = remove_tab_newline v ++ [58].
Proof. unfold remove_tab_newline. rewrite filter_app. reflexivity. Qed.

(* fuel: with an override the machine stays in the scheme states and consumes one code point per step *)
Lemma scheme_ov_step_inv input base st0 m m' :
  (m_state m = SchemeStart \/ m_state m = Scheme) ->
  step idna input base (Some st0) m = Cont m' ->
  m_state m' = Scheme /\ m_pointer m' = m_pointer m.
Proof.
  destruct m as [s u b a br pw z]. cbn [m_state m_pointer]. intros [-> | ->] Hs.
  - rewrite step_SchemeStart in Hs. cbn [is_some negb] in Hs.
    destruct (char_at input z) as [x|]; [destruct (is_ascii_alpha x)|]; try discriminate.
    inversion Hs; subst. cbn. auto.
  - rewrite step_Scheme in Hs. cbn [is_some negb andb] in Hs. cbv zeta in Hs.
    destruct (char_at input z) as [x|]; [|discriminate].
    destruct (scheme_char x); [inversion Hs; subst; cbn; auto|].
    destruct (x =? 58); [|discriminate].
    match type of Hs with (if ?b then _ else _) = _ => destruct b end; discriminate.
Qed.

Lemma scheme_ov_fuel input base st0 : forall fuel m,
  (m_state m = SchemeStart \/ m_state m = Scheme) ->
  (m_pointer m <= Z.of_nat (length input))%Z ->
  (Z.of_nat (length input) - m_pointer m < Z.of_nat fuel)%Z ->
  run idna fuel input base (Some st0) m <> POutOfFuel.
Proof.
  induction fuel as [|f IH]; intros m Hst Hle Hm; [lia|]. cbn [run].
  destruct (step idna input base (Some st0) m) as [m'|u'|] eqn:Hs; try discriminate.
  destruct (scheme_ov_step_inv _ _ _ _ _ Hst Hs) as [Hs' Hp'].
  destruct (Z.leb_spec (Z.of_nat (length input)) (m_pointer m')); [discriminate|].
  apply IH.
  - right. destruct m' as [s' u1 b' a' br' pw' z']; exact Hs'.
  - destruct m' as [s' u1 b' a' br' pw' z']; cbn [inc_pointer with_pointer m_pointer] in *. lia.
  - destruct m' as [s' u1 b' a' br' pw' z']; cbn [inc_pointer with_pointer m_pointer] in *. lia.
Qed.

(* The protocol setter of the C++ (url::protocol passes the input as it is and the parser accepts
   EOF for ':') is the Standard's setter (which appends ':').  [file_host_wf]: a file url has a
   host (every parsed url has: the file state sets the empty host) — needed because the C++
   test is "host null or empty" where the Standard says "host is an empty host". *)
Theorem protocol_setter_equiv (u : url) (v : str) :
  file_host_wf u ->
  g_or_unchanged u (Impl.Parser.parse_override idna v u SchemeStart) = Spec.Url.setter_protocol idna u v.
Proof.
  intro Hwf. unfold setter_protocol, basic_parse_override, parse_override.
  rewrite remove_tab_newline_colon.
  set (c := mk_ctx None (Some SchemeStart) true u).
  set (w := remove_tab_newline v). set (input := w ++ [58]).
  assert (Hho : has_ov c = true) by reflexivity.
  pose proof (scheme_ov c input input u Hho (suffix_refl _) eq_refl Hwf (scheme_terminated_colon w)) as Hcore.
  fold (blk_scheme_both c (Go SchemeStart input u)) in Hcore.
  unfold input in Hcore at 4. rewrite (scheme_ov_model_colon c w u Hho) in Hcore. fold input in Hcore.
  destruct (scheme_ov_stop c w u Hho) as [r0 Hr0]. rewrite Hr0 in Hcore. cbn [core_out] in Hcore.
  destruct (Hcore false false) as [r' [He Hres]]. clear Hcore.
  assert (Himpl : url_parse idna c v u = r0).
  { unfold url_parse. fold w. change (c_override c) with (Some SchemeStart). cbv iota.
    fold (blk_scheme_both c (Go SchemeStart w u)). rewrite Hr0. reflexivity. }
  rewrite Himpl.
  unfold at_state in He. replace (pointer_of input input) with 0%Z in He by (unfold pointer_of; lia).
  change (c_base c) with (@None url) in He. change (c_override c) with (Some SchemeStart) in He, Hres.
  destruct (run idna (parse_fuel input) input None (Some SchemeStart) (mk_m SchemeStart u [] false false false 0)) as [x|x|] eqn:Hrun.
  - apply run_eval in Hrun; [|discriminate]. pose proof (eval_det _ _ _ _ _ _ _ Hrun He) as <-.
    destruct r0; cbn in Hres; try contradiction. subst. reflexivity.
  - apply run_eval in Hrun; [|discriminate]. pose proof (eval_det _ _ _ _ _ _ _ Hrun He) as <-.
    destruct r0; cbn in Hres; try contradiction. destruct Hres as [Hn|Hx]; [discriminate|]. subst. reflexivity.
  - exfalso. revert Hrun. apply scheme_ov_fuel; [left; reflexivity| cbn [m_pointer]; lia |].
    unfold parse_fuel. cbn [m_pointer]. lia.
Qed.

End BlockScheme.

Print Assumptions blk_scheme_both_core.
Print Assumptions blk_scheme_both_sound.
Print Assumptions blk_scheme_start_shape.
Print Assumptions blk_scheme_start_core.
Print Assumptions blk_scheme_start_sound.
Print Assumptions scheme_ov.
Print Assumptions scheme_noov.
Print Assumptions protocol_setter_equiv.
Print Assumptions blk_no_scheme_core.
Print Assumptions blk_no_scheme_sound.
Print Assumptions blk_special_relative_or_authority_core.
Print Assumptions blk_special_relative_or_authority_sound.
Print Assumptions blk_path_or_authority_core.
Print Assumptions blk_path_or_authority_sound.
Print Assumptions blk_special_authority_slashes_core.
Print Assumptions blk_special_authority_slashes_sound.
Print Assumptions blk_special_authority_ignore_slashes_core.
Print Assumptions blk_special_authority_ignore_slashes_sound.
