(* C02 — reparse, part 2: path, query and fragment of a serialized record read back by the
   scan-based parser model (blk_path_start, blk_path / parse_path, blk_opaque_path, blk_query,
   blk_fragment). *)
From Upa Require Import Base.Prelude Spec.CodePoints Spec.Utf Spec.Percent Spec.Ip Spec.Url Impl.Tables Impl.Parser.
From Upa Require Import Proofs.TableLemmas Proofs.TablesInst Proofs.SimBase Proofs.BlockScheme Proofs.BlockPath
  Proofs.HostProofs Proofs.CanonDefs Proofs.CanonStep Proofs.ReparseDefs Proofs.ReparseHost.
From Coq Require Import ZifyBool ZifyN ZifyNat.
Local Open Scope N_scope.

(* ---------------------------------------------------------------------------------- *)
(* re-encoding is the identity                                                        *)
(* ---------------------------------------------------------------------------------- *)
Lemma seg_enc_id sp seg : Forall (segchar sp) seg -> enc_with in_path_set seg = seg.
Proof. intro H. rewrite enc_path. apply pe_id. eapply Forall_impl; [|exact H]. intros c Hc. apply Hc. Qed.

Lemma query_enc_id sp q : Forall (qchar sp) q ->
  enc_with (if sp then in_special_query_set else in_query_set) q = q.
Proof.
  intro H. destruct sp.
  - rewrite enc_special_query. apply pe_id. eapply Forall_impl; [|exact H]. intros c [H1 H2].
    unfold special_query_encode. rewrite H1. cbn [orb]. apply N.eqb_neq. apply H2. reflexivity.
  - rewrite enc_query. apply pe_id. eapply Forall_impl; [|exact H]. intros c [H1 _]. exact H1.
Qed.

Lemma fragment_enc_id f : Forall fchar f -> enc_with in_fragment_set f = f.
Proof. intro H. rewrite enc_fragment. apply pe_id. exact H. Qed.

Lemma opaque_enc_id o : Forall ochar o -> enc_c0 o = o.
Proof. intro H. rewrite HostProofs.enc_c0_spec. apply pe_id. eapply Forall_impl; [|exact H]. intros c Hc. apply Hc. Qed.

(* dot segments: the model's test on the raw text is the Standard's test on a clean segment *)
Lemma double_dot_clean sp seg : Forall (segchar sp) seg -> double_dot seg = is_double_dot seg.
Proof.
  intro H. rewrite <- is_double_dot_enc. f_equal. apply pe_id.
  eapply Forall_impl; [|exact H]. intros c Hc. apply Hc.
Qed.
Lemma single_dot_clean sp seg : Forall (segchar sp) seg -> single_dot seg = is_single_dot seg.
Proof.
  intro H. rewrite <- is_single_dot_enc. f_equal. apply pe_id.
  eapply Forall_impl; [|exact H]. intros c Hc. apply Hc.
Qed.

(* ---------------------------------------------------------------------------------- *)
(* record facts                                                                       *)
(* ---------------------------------------------------------------------------------- *)
Lemma set_query_same u x : query u = x -> set_query u x = u.
Proof. intro H. destruct u. cbn in *. subst. reflexivity. Qed.
Lemma set_fragment_same u x : fragment u = x -> set_fragment u x = u.
Proof. intro H. destruct u. cbn in *. subst. reflexivity. Qed.

(* ---------------------------------------------------------------------------------- *)
(* query and fragment                                                                 *)
(* ---------------------------------------------------------------------------------- *)
Definition q_text (q : option str) : str := match q with Some x => 63 :: x | None => [] end.
Definition f_text (f : option str) : str := match f with Some x => 35 :: x | None => [] end.
Definition qf_text (q f : option str) : str := q_text q ++ f_text f.

(* what the path blocks hand over to the query / fragment blocks *)
Definition qf_flow (rest : str) (u : url) : flow :=
  match rest with
  | [] => Stop (POk u)
  | ch :: rest' => if ch =? 63 then Go Query rest' u else Go Fragment rest' u
  end.

Definition qh (x : N) : bool := (x =? 63) || (x =? 35).

Lemma qf_text_stops q f : stops qh (qf_text q f).
Proof. unfold qf_text. destruct q as [x|]; [exact eq_refl|]. destruct f as [y|]; [exact eq_refl|exact I]. Qed.

Lemma f_text_stops f : stops (fun ch => ch =? 35) (f_text f).
Proof. destruct f; [exact eq_refl|exact I]. Qed.

Lemma opaque_qf c rest u : blk_opaque_path c (qf_flow rest u) = qf_flow rest u.
Proof. destruct rest as [|ch r]; [reflexivity|]. cbn [qf_flow]. destruct (ch =? 63); reflexivity. Qed.
Lemma path_qf c rest u : blk_path c (qf_flow rest u) = qf_flow rest u.
Proof. destruct rest as [|ch r]; [reflexivity|]. cbn [qf_flow]. destruct (ch =? 63); reflexivity. Qed.

Lemma tail_qf c u q f : has_ov c = false -> query u = None -> fragment u = None ->
  query_safef (scheme u) q -> fragment_safef f ->
  blk_fragment c (blk_query c (qf_flow (qf_text q f) u)) = Stop (POk (set_fragment (set_query u q) f)).
Proof.
  intros Hov Hq0 Hf0 Hq Hf.
  assert (Hfrag : forall v, fragment v = None ->
            blk_fragment c (qf_flow (f_text f) v) = Stop (POk (set_fragment v f))).
  { intros v Hv. destruct f as [y|]; cbn [f_text qf_flow].
    - change (35 =? 63) with false. cbv iota. cbn [blk_fragment].
      rewrite (fragment_enc_id y (Hf y eq_refl)). reflexivity.
    - cbn [blk_fragment]. rewrite (set_fragment_same v None Hv). reflexivity. }
  destruct q as [x|]; unfold qf_text; cbn [q_text app].
  - cbn [qf_flow]. change (63 =? 63) with true. cbv iota. cbn [blk_query]. rewrite Hov.
    rewrite (break_at_app (fun ch => ch =? 35) x (f_text f)).
    + unfold is_special. rewrite (query_enc_id _ x (Hq x eq_refl)).
      assert (E : match f_text f with [] => Stop (POk (set_query u (Some x))) | _ :: rest' => Go Fragment rest' (set_query u (Some x)) end
                  = qf_flow (f_text f) (set_query u (Some x))).
      { destruct f as [y|]; reflexivity. }
      rewrite E. apply Hfrag. exact Hf0.
    + eapply Forall_impl; [|exact (Hq x eq_refl)]. intros ch Hc. apply N.eqb_neq. apply (q_delims _ _ Hc).
    + apply f_text_stops.
  - rewrite (set_query_same u None Hq0).
    assert (E : blk_query c (qf_flow (f_text f) u) = qf_flow (f_text f) u) by (destruct f; reflexivity).
    rewrite E. apply Hfrag. exact Hf0.
Qed.

(* ---------------------------------------------------------------------------------- *)
(* opaque path                                                                        *)
(* ---------------------------------------------------------------------------------- *)
Lemma ochar_not_qh ch : ochar ch -> qh ch = false.
Proof. intros (_ & H1 & H2). unfold qh. apply N.eqb_neq in H1, H2. rewrite H1, H2. reflexivity. Qed.

Lemma tail_opaque c u o q f : has_ov c = false -> path u = POpaque [] -> query u = None -> fragment u = None ->
  Forall ochar o -> query_safef (scheme u) q -> fragment_safef f ->
  blk_fragment c (blk_query c (blk_opaque_path c (Go OpaquePath (o ++ qf_text q f) u))) =
  Stop (POk (set_fragment (set_query (set_path u (POpaque o)) q) f)).
Proof.
  intros Hov Hp Hq0 Hf0 Ho Hq Hf. cbn [blk_opaque_path].
  change (fun ch => (ch =? 63) || (ch =? 35)) with qh.
  rewrite (break_at_app qh o (qf_text q f)); [|eapply Forall_impl; [|exact Ho]; exact ochar_not_qh|apply qf_text_stops].
  rewrite Hp. cbn [app]. rewrite (opaque_enc_id o Ho).
  change (match qf_text q f with [] => Stop (POk (set_path u (POpaque o))) | ch :: rest' =>
            if ch =? 63 then Go Query rest' (set_path u (POpaque o)) else Go Fragment rest' (set_path u (POpaque o)) end)
    with (qf_flow (qf_text q f) (set_path u (POpaque o))).
  apply tail_qf; assumption.
Qed.

(* ---------------------------------------------------------------------------------- *)
(* list path                                                                          *)
(* ---------------------------------------------------------------------------------- *)
Definition seg_ok (sp : bool) (seg : str) : Prop := Forall (segchar sp) seg /\ not_dot seg.
Definition segs_text (r : list str) : str := flat_map (fun seg => 47 :: seg) r.

Definition slash_of (u : url) : N -> bool := if is_special u then is_slash else (fun ch => ch =? 47).

Lemma segchar_not_slash u ch : segchar (is_special u) ch -> slash_of u ch = false.
Proof.
  intros (_ & H1 & H2). unfold slash_of, is_slash. apply N.eqb_neq in H1.
  destruct (is_special u); [|exact H1]. rewrite H1. cbn [orb]. apply N.eqb_neq. apply H2. reflexivity.
Qed.

Lemma segs_text_stops u r : stops (slash_of u) (segs_text r).
Proof. destruct r as [|s r]; [exact I|]. cbn [segs_text flat_map app stops]. unfold slash_of. destruct (is_special u); reflexivity. Qed.

Lemma segs_text_length r : (length r <= length (segs_text r))%nat.
Proof. induction r as [|s r IH]; [apply le_n|]. cbn [segs_text flat_map length app]. rewrite app_length. fold (segs_text r). lia. Qed.

Lemma quirky_drive_58 a b : is_windows_drive a b = true -> quirky_drive [a; b] = false -> b = 58.
Proof.
  unfold quirky_drive, is_windows_drive, is_windows_drive_letter, is_normalized_windows_drive_letter.
  intros H1 H2. rewrite H1 in H2. cbn [andb] in H2. apply negb_false_iff in H2.
  apply andb_prop in H2. destruct H2 as [_ H2]. apply N.eqb_eq in H2. exact H2.
Qed.

(* one segment, as the model appends it *)
Lemma append_clean u l0 s : path u = PList l0 -> seg_ok (is_special u) s ->
  (is_file u = true -> l0 = [] -> quirky_drive s = false) ->
  match s with
  | [a; b] => if is_file u && ser_is_empty_path u && is_windows_drive a b
              then ser_append_segment u [a; 58]
              else ser_append_segment u (enc_with in_path_set s)
  | _ => ser_append_segment u (enc_with in_path_set s)
  end = set_path u (PList (l0 ++ [s])).
Proof.
  intros Hp [Hs _] Hq.
  assert (E : ser_append_segment u (enc_with in_path_set s) = set_path u (PList (l0 ++ [s]))).
  { rewrite (seg_enc_id _ _ Hs). unfold ser_append_segment. rewrite Hp. reflexivity. }
  destruct s as [|a [|b [|x t]]]; try exact E.
  destruct (is_file u && ser_is_empty_path u && is_windows_drive a b) eqn:G; [|exact E].
  apply andb_prop in G. destruct G as [G G3]. apply andb_prop in G. destruct G as [G1 G2].
  unfold ser_is_empty_path in G2. rewrite Hp in G2. destruct l0; [|discriminate].
  rewrite (quirky_drive_58 a b G3 (Hq G1 eq_refl)). unfold ser_append_segment. rewrite Hp. reflexivity.
Qed.

Lemma path_loop_segs : forall r s fuel u l0,
  path u = PList l0 -> (length r < fuel)%nat ->
  Forall (seg_ok (is_special u)) (s :: r) ->
  (is_file u = true -> l0 = [] -> quirky_drive s = false) ->
  parse_path_loop fuel (s ++ segs_text r) u = set_path u (PList (l0 ++ s :: r)).
Proof.
  induction r as [|s' r IH]; intros s fuel u l0 Hp Hfuel Hsegs Hq;
    (destruct fuel as [|fuel]; [cbn [length] in Hfuel; lia|]);
    inversion Hsegs as [|? ? Hs Hr]; subst; cbn [parse_path_loop].
  - change (if is_special u then is_slash else fun ch => ch =? 47) with (slash_of u).
    cbn [segs_text flat_map]. rewrite app_nil_r.
    rewrite (break_at_all (slash_of u) s); [|eapply Forall_impl; [|exact (proj1 Hs)]; apply segchar_not_slash].
    destruct Hs as [Hs1 [Hd1 Hd2]].
    rewrite (double_dot_clean _ _ Hs1), Hd2, (single_dot_clean _ _ Hs1), Hd1.
    apply append_clean; [exact Hp|split; [exact Hs1|split; assumption]|exact Hq].
  - change (if is_special u then is_slash else fun ch => ch =? 47) with (slash_of u).
    rewrite (break_at_app (slash_of u) s (segs_text (s' :: r)));
      [|eapply Forall_impl; [|exact (proj1 Hs)]; apply segchar_not_slash|apply segs_text_stops].
    pose proof Hs as [Hs1 [Hd1 Hd2]].
    rewrite (double_dot_clean _ _ Hs1), Hd2, (single_dot_clean _ _ Hs1), Hd1.
    rewrite (append_clean u l0 s Hp Hs Hq).
    cbn [segs_text flat_map app]. fold (segs_text r).
    rewrite (IH s' fuel (set_path u (PList (l0 ++ [s]))) (l0 ++ [s])).
    + rewrite set_path_idem, <- app_assoc. reflexivity.
    + reflexivity.
    + cbn [length] in Hfuel. lia.
    + exact Hr.
    + intros _ E. destruct l0; discriminate.
Qed.

Lemma parse_path_segs s r u l0 :
  path u = PList l0 -> Forall (seg_ok (is_special u)) (s :: r) ->
  (is_file u = true -> l0 = [] -> quirky_drive s = false) ->
  parse_path (s ++ segs_text r) u = set_path u (PList (l0 ++ s :: r)).
Proof.
  intros Hp Hs Hq. unfold parse_path. apply path_loop_segs; try assumption.
  rewrite app_length. pose proof (segs_text_length r). lia.
Qed.

(* the "/." guard: a single-dot segment in front, dropped again by the path state *)
Lemma ppl_S fuel p u : parse_path_loop (S fuel) p u =
  let '(seg, rest) := break_at (slash_of u) p in
  let u' := model_seg u seg (match rest with [] => true | _ => false end) in
  match rest with [] => u' | _ :: rest' => parse_path_loop fuel rest' u' end.
Proof. reflexivity. Qed.

Lemma parse_path_guard x r u :
  path u = PList [] -> Forall (seg_ok (is_special u)) ([] :: x :: r) -> is_file u = false ->
  parse_path (46 :: segs_text ([] :: x :: r)) u = set_path u (PList ([] :: x :: r)).
Proof.
  intros Hp Hs Hnf. unfold parse_path. rewrite ppl_S.
  change (46 :: segs_text ([] :: x :: r)) with ([46] ++ segs_text ([] :: x :: r)).
  rewrite (break_at_app (slash_of u) [46] (segs_text ([] :: x :: r))).
  - cbv zeta. unfold model_seg. cbn [double_dot single_dot]. change (46 =? 46) with true. cbv iota.
    cbn [segs_text flat_map app]. fold (segs_text r).
    change (47 :: x ++ segs_text r) with (segs_text (x :: r)).
    change (47 :: segs_text (x :: r)) with (segs_text ([] :: x :: r)).
    change (parse_path_loop (length (46 :: segs_text ([] :: x :: r))) (segs_text (x :: r)) u)
      with (parse_path_loop (length (46 :: segs_text ([] :: x :: r))) ([] ++ segs_text (x :: r)) u).
    rewrite (path_loop_segs (x :: r) [] _ u [] Hp).
    + reflexivity.
    + cbn [length]. pose proof (segs_text_length ([] :: x :: r)). cbn [length] in H. lia.
    + exact Hs.
    + intro H. congruence.
  - constructor; [|constructor]. unfold slash_of, is_slash. destruct (is_special u); reflexivity.
  - apply segs_text_stops.
Qed.

Lemma segchar_not_qh sp ch : segchar sp ch -> qh ch = false.
Proof. intro H. destruct (seg_delims _ _ H) as (_ & H1 & H2 & _). unfold qh. apply N.eqb_neq in H1, H2. rewrite H1, H2. reflexivity. Qed.

Lemma segs_text_not_qh sp r : Forall (seg_ok sp) r -> Forall (fun ch => qh ch = false) (segs_text r).
Proof.
  intro H. unfold segs_text. apply Forall_flat_map. intros seg Hseg. rewrite Forall_forall in H.
  constructor; [reflexivity|]. eapply Forall_impl; [|exact (proj1 (H seg Hseg))]. apply segchar_not_qh.
Qed.

(* blk_path and everything after it, on a clean path text *)
Lemma tail_path_text c u txt U q f : has_ov c = false ->
  Forall (fun ch => qh ch = false) txt -> parse_path txt u = U ->
  query U = None -> fragment U = None -> query_safef (scheme U) q -> fragment_safef f ->
  blk_fragment c (blk_query c (blk_opaque_path c (blk_path c (Go Path (txt ++ qf_text q f) u)))) =
  Stop (POk (set_fragment (set_query U q) f)).
Proof.
  intros Hov Htxt HU Hq0 Hf0 Hq Hf. cbn [blk_path]. rewrite Hov.
  change (fun ch => (ch =? 63) || (ch =? 35)) with qh.
  rewrite (break_at_app qh txt (qf_text q f) Htxt (qf_text_stops q f)). rewrite HU.
  change (match qf_text q f with [] => Stop (POk U) | ch :: rest' =>
            if ch =? 63 then Go Query rest' U else Go Fragment rest' U end)
    with (qf_flow (qf_text q f) U).
  rewrite opaque_qf. apply tail_qf; assumption.
Qed.
