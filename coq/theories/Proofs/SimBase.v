(* Shared mechanics for the block lemmas: suffixes and the pointer, the character under the
   pointer, stepping the big-step relation, and the table facts the parser model needs. *)
From Upa Require Import Base.Prelude Spec.CodePoints Spec.Utf Spec.Percent Spec.Ip Spec.Url Impl.Tables Impl.Parser
  Proofs.TableLemmas Proofs.TablesInst Proofs.ParserSim.
From Upa Require Properties_C13.
From Coq Require Import Lia ZArith.
Local Open Scope N_scope.

Lemma suffix_refl input : is_suffix input input.
Proof. exists []. reflexivity. Qed.
Lemma suffix_tail input c p : is_suffix input (c :: p) -> is_suffix input p.
Proof. intros [pre H]. exists (pre ++ [c]). rewrite <- app_assoc. exact H. Qed.
Lemma suffix_app input a p : is_suffix input (a ++ p) -> is_suffix input p.
Proof. intros [pre H]. exists (pre ++ a). rewrite <- app_assoc. exact H. Qed.
Lemma suffix_length input p : is_suffix input p -> (length p <= length input)%nat.
Proof. intros [pre H]. subst. rewrite app_length. lia. Qed.

Lemma pointer_of_cons input c p : pointer_of input p = (pointer_of input (c :: p) + 1)%Z.
Proof. unfold pointer_of. cbn [length]. lia. Qed.
Lemma pointer_of_nil input : pointer_of input [] = Z.of_nat (length input).
Proof. unfold pointer_of. cbn [length]. lia. Qed.
Lemma pointer_of_range input p : is_suffix input p -> (0 <= pointer_of input p <= Z.of_nat (length input))%Z.
Proof. intro H. apply suffix_length in H. unfold pointer_of. lia. Qed.
Lemma pointer_of_lt input c p : is_suffix input (c :: p) -> (pointer_of input (c :: p) < Z.of_nat (length input))%Z.
Proof. intro H. apply suffix_length in H. unfold pointer_of. cbn [length] in *. lia. Qed.

Lemma nthN_app_length pre c p : nthN (pre ++ c :: p) (length pre) = Some c.
Proof. induction pre as [|x pre IH]; cbn; [reflexivity|exact IH]. Qed.
Lemma nthN_length l : nthN l (length l) = None.
Proof. induction l as [|x l IH]; cbn; [reflexivity|exact IH]. Qed.
Lemma skipn_app_length {A} (pre p : list A) : skipn (length pre) (pre ++ p) = p.
Proof. induction pre as [|x pre IH]; cbn; [reflexivity|exact IH]. Qed.

(* the character under the pointer, "remaining" and "from pointer" of a suffix *)
Lemma char_at_suffix input c p : is_suffix input (c :: p) -> char_at input (pointer_of input (c :: p)) = Some c.
Proof.
  intros [pre H]. unfold char_at, pointer_of. subst input. rewrite app_length. cbn [length].
  destruct (Z.ltb_spec (Z.of_nat (length pre + S (length p)) - Z.of_nat (S (length p))) 0); [lia|].
  replace (Z.to_nat (Z.of_nat (length pre + S (length p)) - Z.of_nat (S (length p)))) with (length pre) by lia.
  apply nthN_app_length.
Qed.
Lemma char_at_eof input : char_at input (pointer_of input []) = None.
Proof.
  unfold char_at. rewrite pointer_of_nil.
  destruct (Z.ltb_spec (Z.of_nat (length input)) 0); [reflexivity|]. rewrite Nat2Z.id. apply nthN_length.
Qed.
Lemma from_pointer_suffix input p : is_suffix input p -> from_pointer input (pointer_of input p) = p.
Proof.
  intros [pre H]. unfold from_pointer, pointer_of. subst input. rewrite app_length.
  destruct (Z.ltb_spec (Z.of_nat (length pre + length p) - Z.of_nat (length p)) 0); [lia|].
  replace (Z.to_nat (Z.of_nat (length pre + length p) - Z.of_nat (length p))) with (length pre) by lia.
  apply skipn_app_length.
Qed.
Lemma remaining_suffix input c p : is_suffix input (c :: p) -> remaining input (pointer_of input (c :: p)) = p.
Proof.
  intros [pre H]. unfold remaining, pointer_of. subst input. rewrite app_length. cbn [length].
  destruct (Z.ltb_spec (Z.of_nat (length pre + S (length p)) - Z.of_nat (S (length p))) 0); [lia|].
  replace (Z.to_nat (Z.of_nat (length pre + S (length p)) - Z.of_nat (S (length p)))) with (length pre) by lia.
  replace (pre ++ c :: p) with ((pre ++ [c]) ++ p) by (rewrite <- app_assoc; reflexivity).
  replace (S (length pre)) with (length (pre ++ [c])) by (rewrite app_length; cbn; lia).
  apply skipn_app_length.
Qed.

(* table facts in the form the parser model uses them *)
Lemma tbl_scheme_char c : tbl_is_scheme_char c = scheme_char c.
Proof. exact (scheme_char_class _ Properties_C13.C13_cpp11 c). Qed.
Lemma tbl_forbidden_host c : tbl_is_forbidden_host_char c = forbidden_host c.
Proof. exact (forbidden_host_class _ Properties_C13.C13_cpp11 c). Qed.
Lemma tbl_ascii_domain c : tbl_is_ascii_domain_char c = ascii_domain_char c.
Proof. exact (ascii_domain_class _ Properties_C13.C13_cpp11 c). Qed.
Lemma userinfo_set_spec c : in_userinfo_set c = no_encode userinfo_encode c.
Proof. exact (userinfo_set _ Properties_C13.C13_cpp11 c). Qed.
Lemma path_set_spec c : in_path_set c = no_encode path_encode c.
Proof. exact (path_set _ Properties_C13.C13_cpp11 c). Qed.
Lemma query_set_spec c : in_query_set c = no_encode query_encode c.
Proof. exact (query_set _ Properties_C13.C13_cpp11 c). Qed.
Lemma special_query_set_spec c : in_special_query_set c = no_encode special_query_encode c.
Proof. exact (special_query_set _ Properties_C13.C13_cpp11 c). Qed.
Lemma fragment_set_spec c : in_fragment_set c = no_encode fragment_encode c.
Proof. exact (fragment_set _ Properties_C13.C13_cpp11 c). Qed.
