(* C03: the setters of the model (Impl.Api.impl_ops: the C++ url_parse with a state override)
   compute exactly what the Standard's setters (Spec.Api.spec_ops) compute — the record is the
   same also when the inner parse fails after having changed it — and the transfer of the
   lock-step premise [ops_keep_query] to the model.  Everything rests on
   Proofs/ParserCompose.v; ICU enters through [Hhost] only. *)
From Upa Require Import Base.Prelude Spec.CodePoints Spec.Utf Spec.Percent Spec.Ip Spec.Url Spec.Api
  Impl.Tables Impl.Parser Impl.Api
  Proofs.ParserSim Proofs.BlockScheme Proofs.ParserCompose Proofs.UtfFacts Proofs.CanonDefs Proofs.LockstepProofs.
From Upa Require Proofs.CanonProofs.
From Coq Require Import Lia ZArith.
Local Open Scope N_scope.

(* what the protocol setter needs of the record: a file URL has a host (BlockScheme.file_host_wf);
   no other setter needs anything *)
Definition setter_wf (u : url) : Prop := is_file u = true -> uhost u <> None.

Lemma canon_setter_wf u : Canon u -> setter_wf u.
Proof.
  intros [[_ (_ & Hsp & _)] _] Hf. unfold is_file in Hf.
  destruct Hsp as [_ (h & Hh & _)].
  - unfold is_special_scheme. rewrite Hf. apply Bool.orb_true_r.
  - congruence.
Qed.

Lemma set_query_idem u a b : set_query (set_query u a) b = set_query u b.
Proof. destruct u; reflexivity. Qed.
Lemma set_fragment_idem u a b : set_fragment (set_fragment u a) b = set_fragment u b.
Proof. destruct u; reflexivity. Qed.

Lemma match_63 {A} (l : list N) (a : A) (f : list N -> A) (d : A) :
  match l with [] => a | 63 :: r => f r | _ => d end =
  match l with [] => a | x :: r => if x =? 63 then f r else d end.
Proof. destruct l as [|x r]; [reflexivity|]. destruct x as [|q]; [reflexivity|]. repeat (destruct q as [q|q|]; try reflexivity). Qed.
Lemma match_35' {A} (l : list N) (a : A) (f : list N -> A) (d : A) :
  match l with [] => a | 35 :: r => f r | _ => d end =
  match l with [] => a | x :: r => if x =? 35 then f r else d end.
Proof. destruct l as [|x r]; [reflexivity|]. destruct x as [|q]; [reflexivity|]. repeat (destruct q as [q|q|]; try reflexivity). Qed.

Section Setters.
Variable idna : list N -> option (list N).
Hypothesis Hhost : forall inp opq, impl_parse_host idna inp opq = host_parse idna inp opq.

(* ---------- the state-override runs of the API ---------- *)
Lemma override_host v u : parse_override idna v u Host = basic_parse_override idna v u Host.
Proof. apply (parse_override_eq idna Hhost v u Host); [cbn; lia|cbn; intros _; reflexivity]. Qed.
Lemma override_hostname v u : parse_override idna v u Hostname = basic_parse_override idna v u Hostname.
Proof. apply (parse_override_eq idna Hhost v u Hostname); [cbn; lia|cbn; intros _; reflexivity]. Qed.
Lemma override_port v u : parse_override idna v u Port = basic_parse_override idna v u Port.
Proof. apply (parse_override_eq idna Hhost v u Port); [cbn; lia|exact I]. Qed.
Lemma override_path_start v u : parse_override idna v u PathStart = basic_parse_override idna v u PathStart.
Proof. apply (parse_override_eq idna Hhost v u PathStart); [cbn; lia|exact I]. Qed.
Lemma override_query_st v u :
  parse_override idna v (set_query u (Some [])) Query = basic_parse_override idna v (set_query u (Some [])) Query.
Proof.
  rewrite (parse_override_eq idna Hhost v _ Query); [|cbn; lia|exact I].
  cbn [flow_url]. rewrite set_query_idem. reflexivity.
Qed.
Lemma override_fragment_st v u :
  parse_override idna v (set_fragment u (Some [])) Fragment = basic_parse_override idna v (set_fragment u (Some [])) Fragment.
Proof.
  rewrite (parse_override_eq idna Hhost v _ Fragment); [|cbn; lia|exact I].
  cbn [flow_url]. rewrite set_fragment_idem. reflexivity.
Qed.

Lemma conforms_href a b (u : url) : conforms a b ->
  (match a with POk u' => u' | _ => u end) = (match b with POk u' => u' | _ => u end).
Proof. destruct a, b; cbn [conforms]; intro H; try contradiction; [exact H|reflexivity]. Qed.

(* ---------- C03: every setter ---------- *)
Theorem setters_eq w u e units : setter_wf u ->
  apply_setter (impl_ops idna) w u e units = apply_setter (spec_ops idna) w u e units.
Proof.
  intro Hwf. destruct w; unfold apply_setter; cbv zeta;
    cbn [impl_ops spec_ops p_parse p_override p_protocol].
  - (* href *) apply conforms_href, (do_parse_conforms idna Hhost).
  - (* protocol *) apply (protocol_setter_equiv idna). exact Hwf.
  - reflexivity.
  - reflexivity.
  - (* host *) rewrite override_host. reflexivity.
  - (* hostname *) rewrite override_hostname. reflexivity.
  - (* port *) rewrite override_port. reflexivity.
  - (* pathname *) rewrite override_path_start. reflexivity.
  - (* search *) rewrite !match_63. destruct units as [|x r]; [reflexivity|].
    rewrite !override_query_st. reflexivity.
  - (* hash *) rewrite !match_35'. destruct units as [|x r]; [reflexivity|].
    rewrite !override_fragment_st. reflexivity.
Qed.

(* ---------- sequences of setters ---------- *)
Definition setter_step := (setter * enc * list N)%type.
Definition run_setters (ops : parser_ops) (steps : list setter_step) (u0 : url) : url :=
  fold_left (fun u (s : setter_step) => let '(w, e, units) := s in apply_setter ops w u e units) steps u0.

(* with every intermediate record of the Standard's run well-formed *)
Fixpoint all_wf (steps : list setter_step) (u : url) : Prop :=
  match steps with
  | [] => True
  | (w, e, units) :: rest => setter_wf u /\ all_wf rest (apply_setter (spec_ops idna) w u e units)
  end.

Theorem setters_sequence_wf : forall steps u0, all_wf steps u0 ->
  run_setters (impl_ops idna) steps u0 = run_setters (spec_ops idna) steps u0.
Proof.
  unfold run_setters. induction steps as [|[[w e] units] rest IH]; intros u0 H; [reflexivity|].
  cbn [fold_left all_wf] in *. destruct H as [Hwf Hrest].
  rewrite (setters_eq w u0 e units Hwf). apply IH. exact Hrest.
Qed.

(* ---------- C06: the lock-step premise holds of the model ---------- *)
Lemma scheme_states_query st v u0 : st = SchemeStart \/ st = Scheme ->
  query (g_or_unchanged u0 (parse_override idna v u0 st)) = query u0.
Proof.
  intro Hst. unfold parse_override. rewrite url_parse_chain. cbn [c_override].
  set (c := mk_ctx None (Some st) true u0). set (p := remove_tab_newline v).
  assert (Hho : has_ov c = true) by reflexivity.
  assert (Hs : forall p', exists r, blk_scheme c (Go Scheme p' u0) = Stop r /\ query (g_or_unchanged u0 r) = query u0).
  { intro p'. cbn [blk_scheme]. destruct p' as [|x0 p1]; [eexists; split; reflexivity|].
    destruct (span tbl_is_scheme_char p1) as [more rest]. rewrite Hho. cbn [negb]. unfold ignored.
    repeat match goal with |- context [if ?b then _ else _] => destruct b end;
      try (eexists; split; reflexivity).
    all: match goal with |- context [match ?a with Some _ => _ | None => _ end] => destruct a end;
      try (eexists; split; reflexivity).
    all: match goal with |- context [match ?a with Some _ => _ | None => _ end] => destruct a end;
      try (eexists; split; reflexivity).
    all: match goal with |- context [if ?b then _ else _] => destruct b end; eexists; split; reflexivity. }
  assert (Hboth : exists r, blk_scheme_both c (Go st p u0) = Stop r /\ query (g_or_unchanged u0 r) = query u0).
  { unfold blk_scheme_both. destruct Hst as [-> | ->].
    - cbn [blk_scheme_start]. rewrite Hho. cbn [negb].
      destruct p as [|x p']; [eexists; split; reflexivity|].
      destruct (is_ascii_alpha x); [apply Hs|eexists; split; reflexivity].
    - cbn [blk_scheme_start]. apply Hs. }
  destruct Hboth as [r [E Hq]]. rewrite E. exact Hq.
Qed.

Theorem impl_ops_keep_query : ops_keep_query (impl_ops idna).
Proof.
  split.
  - intros input u u0 st HS Hq. cbn [impl_ops p_override].
    destruct (Nat.le_gt_cases 2 (srank st)) as [Hrk|Hrk].
    + rewrite (parse_override_eq idna Hhost input u0 st Hrk).
      * apply (override_query' idna input u (flow_url st u0) st HS).
        destruct st; try discriminate HS; exact Hq.
      * destruct st; try discriminate HS; cbn [st_inv c_orig]; try exact I; try (intros _; reflexivity);
          cbn [srank] in Hrk; lia.
    + assert (Hst : st = SchemeStart \/ st = Scheme) by (destruct st; cbn [srank] in Hrk; try lia; auto).
      pose proof (scheme_states_query st input u0 Hst) as H.
      destruct (parse_override idna input u0 st); cbn [g_or_unchanged] in *; congruence.
  - intros u v. cbn [impl_ops p_protocol]. apply scheme_states_query. left. reflexivity.
Qed.

End Setters.

(* ------------------------------------------------------------------------------------ *)
(* sequences from a canonical record: Canon is preserved by the Standard's setters      *)
(* ------------------------------------------------------------------------------------ *)
(* UTF-16 code units are 16-bit (the other two decoders yield scalar values on any input) *)
Definition step_units_ok (s : setter * enc * list N) : Prop :=
  match s with (_, EU16, units) => Forall (fun x => x < 65536) units | _ => True end.

Lemma scalars_cps s : scalars_ok s -> cps_ok s.
Proof.
  apply Forall_impl. intros c H. unfold cp_ok, is_scalar in *. lia.
Qed.

Lemma decode_units_cps e units :
  (match e with EU16 => Forall (fun x => x < 65536) units | _ => True end) -> cps_ok (decode_units e units).
Proof.
  intro H. apply scalars_cps. destruct e; cbn [decode_units].
  - apply utf8_decode_scalars_any.
  - exact (spec_decode_scalars Impl.Utf.U16 units H).
  - unfold utf32_decode, scalars_ok. induction units as [|a r IH]; cbn [List.map]; constructor; [|exact IH].
    destruct (is_scalar a) eqn:E; [exact E|reflexivity].
Qed.

Lemma units_ok_remove e units :
  (match e with EU16 => Forall (fun x => x < 65536) units | _ => True end) ->
  (match e with EU16 => Forall (fun x => x < 65536) (remove_tab_newline units) | _ => True end).
Proof. destruct e; auto. apply CanonDefs.Forall_filter. Qed.
Lemma units_ok_strip e units :
  (match e with EU16 => Forall (fun x => x < 65536) units | _ => True end) ->
  (match e with EU16 => Forall (fun x => x < 65536) (strip_c0_space units) | _ => True end).
Proof.
  destruct e; auto. intro H. unfold strip_c0_space.
  apply CanonDefs.Forall_rev', CanonDefs.Forall_drop_while, CanonDefs.Forall_rev', CanonDefs.Forall_drop_while, H.
Qed.
Lemma units_ok_tl e x units :
  (match e with EU16 => Forall (fun x => x < 65536) (x :: units) | _ => True end) ->
  (match e with EU16 => Forall (fun x => x < 65536) units | _ => True end).
Proof. destruct e; auto. intro H. inversion H; assumption. Qed.

Lemma decode_parser_cps trim e units :
  (match e with EU16 => Forall (fun x => x < 65536) units | _ => True end) -> cps_ok (decode_for_parser trim e units).
Proof.
  intro H. unfold decode_for_parser. apply decode_units_cps, units_ok_remove.
  destruct trim; [apply units_ok_strip|]; exact H.
Qed.

Section CanonSeq.
Variable idna : list N -> option (list N).
Hypothesis idna_ascii_lower :
  forall d r, idna d = Some r -> Forall (fun c => c < 128 /\ is_ascii_upper_alpha c = false) r.

Lemma bpo_skip_tab v u st : basic_parse_override idna (9 :: v) u st = basic_parse_override idna v u st.
Proof. reflexivity. Qed.

(* each setter of the protocol run with the Standard's parser, as the Standard's setter on a
   suitable string of code points *)
Theorem spec_setter_canon w u e units :
  step_units_ok (w, e, units) -> Canon u -> Canon (apply_setter (spec_ops idna) w u e units).
Proof.
  intros Hu HC. cbn [step_units_ok] in Hu.
  assert (Hu' : match e with EU16 => Forall (fun x => x < 65536) units | _ => True end) by (destruct e; exact Hu).
  clear Hu.
  pose proof (decode_parser_cps false e units Hu') as Hv.
  destruct w; unfold apply_setter; cbv zeta; cbn [spec_ops p_parse p_override p_protocol].
  - (* href *)
    destruct (basic_parse idna (decode_for_parser true e units) None) as [u'| |] eqn:E; try exact HC.
    exact (CanonProofs.parse_canon idna idna_ascii_lower _ None (decode_parser_cps true e units Hu') (or_introl eq_refl) u' E).
  - exact (CanonProofs.setter_protocol_canon idna idna_ascii_lower u _ Hv HC).
  - exact (CanonProofs.setter_username_canon u _ (decode_units_cps e units Hu') HC).
  - exact (CanonProofs.setter_password_canon u _ (decode_units_cps e units Hu') HC).
  - exact (CanonProofs.setter_host_canon idna idna_ascii_lower u _ Hv HC).
  - exact (CanonProofs.setter_hostname_canon idna idna_ascii_lower u _ Hv HC).
  - (* port: "units = []" is tested before tab/newline removal *)
    destruct units as [|x units'].
    + exact (CanonProofs.setter_port_canon idna idna_ascii_lower u [] (Forall_nil _) HC).
    + set (v := decode_for_parser false e (x :: units')) in *.
      assert (H9 : cps_ok (9 :: v)) by (constructor; [unfold cp_ok; lia|exact Hv]).
      pose proof (CanonProofs.setter_port_canon idna idna_ascii_lower u (9 :: v) H9 HC) as H.
      unfold setter_port in H. rewrite bpo_skip_tab in H. exact H.
  - exact (CanonProofs.setter_pathname_canon idna idna_ascii_lower u _ Hv HC).
  - (* search *)
    rewrite match_63. destruct units as [|x units'].
    + exact (CanonProofs.setter_search_canon idna idna_ascii_lower u [] (Forall_nil _) HC).
    + destruct (x =? 63) eqn:E63.
      * set (w := decode_for_parser false e units').
        assert (Hw : cps_ok (63 :: w)).
        { constructor; [unfold cp_ok; lia|]. apply decode_parser_cps. exact (units_ok_tl e x units' Hu'). }
        exact (CanonProofs.setter_search_canon idna idna_ascii_lower u (63 :: w) Hw HC).
      * set (v := decode_for_parser false e (x :: units')) in *.
        assert (H9 : cps_ok (9 :: v)) by (constructor; [unfold cp_ok; lia|exact Hv]).
        pose proof (CanonProofs.setter_search_canon idna idna_ascii_lower u (9 :: v) H9 HC) as H.
        unfold setter_search in H. cbv zeta in H. rewrite bpo_skip_tab in H. exact H.
  - (* hash *)
    rewrite match_35'. destruct units as [|x units'].
    + exact (CanonProofs.setter_hash_canon idna idna_ascii_lower u [] (Forall_nil _) HC).
    + destruct (x =? 35) eqn:E35.
      * set (w := decode_for_parser false e units').
        assert (Hw : cps_ok (35 :: w)).
        { constructor; [unfold cp_ok; lia|]. apply decode_parser_cps. exact (units_ok_tl e x units' Hu'). }
        exact (CanonProofs.setter_hash_canon idna idna_ascii_lower u (35 :: w) Hw HC).
      * set (v := decode_for_parser false e (x :: units')) in *.
        assert (H9 : cps_ok (9 :: v)) by (constructor; [unfold cp_ok; lia|exact Hv]).
        pose proof (CanonProofs.setter_hash_canon idna idna_ascii_lower u (9 :: v) H9 HC) as H.
        unfold setter_hash in H. cbv zeta in H. rewrite bpo_skip_tab in H. exact H.
Qed.

Hypothesis Hhost : forall inp opq, impl_parse_host idna inp opq = host_parse idna inp opq.

Lemma canon_all_wf : forall steps u0, Forall step_units_ok steps -> Canon u0 -> all_wf idna steps u0.
Proof.
  induction steps as [|[[w e] units] rest IH]; intros u0 Hs HC; [exact I|].
  inversion Hs as [|? ? H1 H2]; subst. cbn [all_wf]. split; [apply canon_setter_wf; exact HC|].
  apply IH; [exact H2|]. apply spec_setter_canon; assumption.
Qed.

Theorem setters_sequence : forall steps u0, Forall step_units_ok steps -> Canon u0 ->
  run_setters (impl_ops idna) steps u0 = run_setters (spec_ops idna) steps u0 /\
  Canon (run_setters (spec_ops idna) steps u0).
Proof.
  intros steps u0 Hs HC. split.
  - apply (setters_sequence_wf idna Hhost). apply canon_all_wf; assumption.
  - revert u0 Hs HC. unfold run_setters.
    induction steps as [|[[w e] units] rest IH]; intros u0 Hs HC; [exact HC|].
    inversion Hs as [|? ? H1 H2]; subst. cbn [fold_left]. apply IH; [exact H2|].
    apply spec_setter_canon; assumption.
Qed.

End CanonSeq.
