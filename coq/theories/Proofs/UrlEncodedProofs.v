(* C15 — application/x-www-form-urlencoded: the library's single-pass parser and table-driven
   serializer (Impl.SearchParams) against the Standard's algorithms (Spec.UrlEncoded). *)
From Upa Require Import Base.Prelude Spec.Utf Spec.CodePoints Spec.Percent Spec.UrlEncoded
  Impl.Tables Impl.Utf Impl.SearchParams Proofs.TableLemmas Proofs.UtfFacts.
From Coq Require Import ZifyBool ZifyN ZifyNat.
Local Open Scope N_scope.

(* the bridge between the two string representations *)
Definition enc_pair (p : pair_t) : bpair := (utf8_encode (fst p), utf8_encode (snd p)).

(* ------------------------------------------------------------------------------------ *)
(* generic helpers                                                                      *)
(* ------------------------------------------------------------------------------------ *)

Lemma sweep_list_eq (f g : N -> list N) :
  sweep256 (fun b => list_eqb (f b) (g b)) = true -> forall b, b < 256 -> f b = g b.
Proof. intros H b Hb. apply list_eqb_eq. exact (sweep256_sound _ H b Hb). Qed.

Lemma bytes_ok_app a b : bytes_ok a -> bytes_ok b -> bytes_ok (a ++ b).
Proof. unfold bytes_ok. intros. apply Forall_app. split; assumption. Qed.

Lemma bytes_ok_cons x a : x < 256 -> bytes_ok a -> bytes_ok (x :: a).
Proof. unfold bytes_ok. intros. constructor; assumption. Qed.

Lemma bytes_ok_inv x a : bytes_ok (x :: a) -> x < 256 /\ bytes_ok a.
Proof. unfold bytes_ok. intro H. inversion H; subst. split; assumption. Qed.

Lemma flat_map_ext_Forall {A B} (P : A -> Prop) (f g : A -> list B) l :
  (forall x, P x -> f x = g x) -> Forall P l -> flat_map f l = flat_map g l.
Proof.
  intros Hfg H. induction H as [|x l Hx Hl IH]; cbn [flat_map]; [reflexivity|].
  rewrite (Hfg x Hx), IH. reflexivity.
Qed.

(* ------------------------------------------------------------------------------------ *)
(* 2. the serializer                                                                    *)
(* ------------------------------------------------------------------------------------ *)

Definition ser1 (b : N) : list N :=
  if b =? 32 then [43]
  else if is_ascii_alphanumeric b || in_list [42; 45; 46; 95] b then [b]
  else percent_encode_byte b.

Definition enc1 (uc : N) : list N :=
  let cenc := tbl_enc_byte uc in
  if cenc =? 37 then [cenc; tbl_hex_char_lookup (N.shiftr uc 4); tbl_hex_char_lookup (N.land uc 15)]
  else [cenc].

Lemma urlencode_flat l : urlencode l = flat_map enc1 l.
Proof. reflexivity. Qed.
Lemma ser_bytes_flat l : urlencoded_serialize_bytes l = flat_map ser1 l.
Proof. reflexivity. Qed.

Lemma enc1_ser1 : forall b, b < 256 -> enc1 b = ser1 b.
Proof. apply sweep_list_eq. vm_compute. reflexivity. Qed.

Lemma urlencode_byte_ok : forall b, b < 256 -> urlencode [b] = urlencoded_serialize_bytes [b].
Proof.
  intros b Hb. rewrite urlencode_flat, ser_bytes_flat. cbn [flat_map]. rewrite (enc1_ser1 b Hb). reflexivity.
Qed.

Lemma urlencode_spec : forall l, bytes_ok l -> urlencode l = urlencoded_serialize_bytes l.
Proof.
  intros l Hl. rewrite urlencode_flat, ser_bytes_flat.
  apply (flat_map_ext_Forall (fun b => b < 256)); [exact enc1_ser1 | exact Hl].
Qed.

Definition wf_pair (p : pair_t) : Prop := scalars_ok (fst p) /\ scalars_ok (snd p).
Definition wf_list (l : list pair_t) : Prop := Forall wf_pair l.

Lemma serialize_spec : forall l, Forall (fun p => scalars_ok (fst p) /\ scalars_ok (snd p)) l ->
  serialize (List.map enc_pair l) = urlencoded_serialize l.
Proof.
  intros l H. induction H as [|[n v] l [Hn Hv] Hl IH]; [reflexivity|].
  cbn [fst snd] in Hn, Hv.
  cbn [List.map]. unfold enc_pair at 1. cbn [fst snd].
  cbn [serialize urlencoded_serialize]. rewrite IH.
  unfold urlencoded_serialize_str.
  rewrite (urlencode_spec _ (utf8_encode_bytes n Hn)), (urlencode_spec _ (utf8_encode_bytes v Hv)).
  destruct l as [|q l']; reflexivity.
Qed.

(* ------------------------------------------------------------------------------------ *)
(* 3. the output alphabet                                                               *)
(* ------------------------------------------------------------------------------------ *)

Definition alphabet_b (c : N) : bool := is_ascii_alphanumeric c || in_list [42; 45; 46; 95; 43; 37; 61; 38] c.
Definition alphabet (c : N) : Prop := is_ascii_alphanumeric c = true \/ In c [42; 45; 46; 95; 43; 37; 61; 38].

Lemma alphabet_b_sound c : alphabet_b c = true -> alphabet c.
Proof.
  unfold alphabet_b, alphabet. intro H. apply orb_prop in H. destruct H as [H|H]; [left; exact H|right].
  unfold in_list in H. apply existsb_exists in H. destruct H as [x [Hin Hx]].
  apply N.eqb_eq in Hx. subst x. exact Hin.
Qed.

Lemma enc1_alphabet : forall b, b < 256 -> forallb alphabet_b (enc1 b) = true.
Proof. apply sweep256_sound. vm_compute. reflexivity. Qed.

Lemma urlencode_alphabet l : bytes_ok l -> Forall alphabet (urlencode l).
Proof.
  intro H. rewrite urlencode_flat. induction H as [|b l Hb Hl IH]; cbn [flat_map]; [constructor|].
  apply Forall_app. split; [|exact IH].
  apply Forall_forall. intros c Hc. apply alphabet_b_sound.
  pose proof (enc1_alphabet b Hb) as Hf. rewrite forallb_forall in Hf. exact (Hf c Hc).
Qed.

Lemma serialize_alphabet : forall l, Forall (fun p => bytes_ok (fst p) /\ bytes_ok (snd p)) l ->
  Forall (fun c => is_ascii_alphanumeric c = true \/ In c [42;45;46;95;43;37;61;38]) (serialize l).
Proof.
  intros l H. change (Forall alphabet (serialize l)).
  assert (H61 : alphabet 61) by (right; cbn; tauto).
  assert (H38 : alphabet 38) by (right; cbn; tauto).
  induction H as [|[n v] l [Hn Hv] Hl IH]; [constructor|].
  cbn [fst snd] in Hn, Hv.
  assert (Hhead : Forall alphabet (urlencode n ++ [61] ++ urlencode v)).
  { apply Forall_app. split; [exact (urlencode_alphabet n Hn)|].
    apply Forall_app. split; [constructor; [exact H61|constructor]|exact (urlencode_alphabet v Hv)]. }
  cbn [serialize]. destruct l as [|q l'].
  - exact Hhead.
  - replace (urlencode n ++ [61] ++ urlencode v ++ [38] ++ serialize (q :: l'))
      with ((urlencode n ++ [61] ++ urlencode v) ++ [38] ++ serialize (q :: l'))
      by (rewrite <- !app_assoc; reflexivity).
    apply Forall_app. split; [exact Hhead|].
    apply Forall_app. split; [constructor; [exact H38|constructor]|exact IH].
Qed.

Lemma alphabet_lt256 c : alphabet c -> c < 256.
Proof.
  unfold alphabet, is_ascii_alphanumeric, is_ascii_digit, is_ascii_alpha, is_ascii_upper_alpha, is_ascii_lower_alpha.
  intros [H|H]; [lia|].
  cbn [In] in H. repeat (destruct H as [H|H]; [subst c; reflexivity|]). contradiction.
Qed.

(* ------------------------------------------------------------------------------------ *)
(* 1. the parser                                                                        *)
(* ------------------------------------------------------------------------------------ *)

(* one-pass decoding of a piece: '+' -> space and %HH -> byte in a single scan *)
Definition esc_val (h1 h2 : N) : N := hex_val h1 * 16 + hex_val h2.

Fixpoint dec1 (s : list N) : list N :=
  match s with
  | [] => []
  | c :: r =>
      if c =? 43 then 32 :: dec1 r
      else if c =? 37 then
        match r with
        | h1 :: h2 :: r2 =>
            if is_ascii_hex h1 && is_ascii_hex h2 then esc_val h1 h2 :: dec1 r2 else 37 :: dec1 r
        | _ => 37 :: dec1 r
        end
      else c :: dec1 r
  end.

Lemma percent_decode_cons b rest :
  percent_decode (b :: rest) =
  if b =? 37 then
    match rest with
    | h1 :: h2 :: rest' =>
        if is_ascii_hex h1 && is_ascii_hex h2 then esc_val h1 h2 :: percent_decode rest'
        else 37 :: percent_decode rest
    | _ => 37 :: percent_decode rest
    end
  else b :: percent_decode rest.
Proof.
  destruct (N.eqb_spec b 37) as [E|E].
  - subst b. destruct rest as [|h1 [|h2 r]]; reflexivity.
  - destruct b as [|p]; [reflexivity|].
    do 6 (destruct p as [p|p|]; try reflexivity). exfalso. apply E. reflexivity.
Qed.

Lemma is_hex_32 : is_ascii_hex 32 = false. Proof. reflexivity. Qed.
Lemma is_hex_43 : is_ascii_hex 43 = false. Proof. reflexivity. Qed.

Lemma p2s_hex h : is_ascii_hex (if h =? 43 then 32 else h) = is_ascii_hex h.
Proof. destruct (N.eqb_spec h 43) as [E|E]; [subst; reflexivity|reflexivity]. Qed.
Lemma p2s_esc h1 h2 : is_ascii_hex h1 && is_ascii_hex h2 = true ->
  esc_val (if h1 =? 43 then 32 else h1) (if h2 =? 43 then 32 else h2) = esc_val h1 h2.
Proof.
  intro H. apply andb_prop in H. destruct H as [H1 H2].
  destruct (N.eqb_spec h1 43) as [E1|E1]; [subst; discriminate|].
  destruct (N.eqb_spec h2 43) as [E2|E2]; [subst; discriminate|]. reflexivity.
Qed.

Lemma dec1_cons c r :
  dec1 (c :: r) =
  if c =? 43 then 32 :: dec1 r
  else if c =? 37 then
    match r with
    | h1 :: h2 :: r2 =>
        if is_ascii_hex h1 && is_ascii_hex h2 then esc_val h1 h2 :: dec1 r2 else 37 :: dec1 r
    | _ => 37 :: dec1 r
    end
  else c :: dec1 r.
Proof. reflexivity. Qed.

(* the Standard's two passes (replace '+', then percent-decode) equal the single pass *)
Lemma percent_decode_plus_to_space : forall s, percent_decode (plus_to_space s) = dec1 s.
Proof.
  assert (H : forall n s, (length s <= n)%nat -> percent_decode (plus_to_space s) = dec1 s).
  { induction n as [|n IH]; intros s Hl.
    - destruct s; [reflexivity|cbn [length] in Hl; lia].
    - destruct s as [|c r]; [reflexivity|]. cbn [length] in Hl.
      rewrite dec1_cons.
      change (plus_to_space (c :: r)) with ((if c =? 43 then 32 else c) :: plus_to_space r).
      rewrite percent_decode_cons. rewrite (IH r) by lia.
      destruct (N.eqb_spec c 43) as [E43|E43].
      + subst c. reflexivity.
      + destruct (N.eqb_spec c 37) as [E37|E37]; [|reflexivity].
        destruct r as [|h1 [|h2 r2]]; [reflexivity|reflexivity|].
        change (plus_to_space (h1 :: h2 :: r2))
          with ((if h1 =? 43 then 32 else h1) :: (if h2 =? 43 then 32 else h2) :: plus_to_space r2).
        cbv iota. rewrite !p2s_hex.
        destruct (is_ascii_hex h1 && is_ascii_hex h2) eqn:Hh; [|reflexivity].
        rewrite (p2s_esc _ _ Hh). rewrite IH by (cbn [length] in Hl; lia). reflexivity. }
  intro s. apply (H (length s)). lia.
Qed.

(* --- the escape test and value of the C++ parser are the Standard's --- *)
Lemma impl_hex h : h < 256 -> tbl_is_hex_char (h mod 256) = is_ascii_hex h.
Proof.
  intro Hh. rewrite (N.mod_small h 256 Hh). apply eqb_prop.
  apply (sweep256_sound (fun h => Bool.eqb (tbl_is_hex_char h) (is_ascii_hex h))); [vm_compute; reflexivity|exact Hh].
Qed.

Lemma impl_hex_num h : h < 256 -> is_ascii_hex h = true ->
  tbl_hex_char_to_num h = hex_val h /\ hex_val h < 16.
Proof.
  intros Hh Hx.
  pose proof (sweep256_sound
    (fun h => negb (is_ascii_hex h) || ((tbl_hex_char_to_num h =? hex_val h) && (hex_val h <? 16)))
    ltac:(vm_compute; reflexivity) h Hh) as Hs.
  cbv beta in Hs. rewrite Hx in Hs. cbn [negb orb] in Hs.
  apply andb_prop in Hs. destruct Hs as [Ha Hb].
  apply N.eqb_eq in Ha. apply N.ltb_lt in Hb. split; assumption.
Qed.

Lemma impl_esc h1 h2 : h1 < 256 -> h2 < 256 -> is_ascii_hex h1 = true -> is_ascii_hex h2 = true ->
  (N.shiftl (tbl_hex_char_to_num (h1 mod 256)) 4 + tbl_hex_char_to_num (h2 mod 256)) mod 256 = esc_val h1 h2.
Proof.
  intros H1 H2 X1 X2. rewrite (N.mod_small h1 256 H1), (N.mod_small h2 256 H2).
  destruct (impl_hex_num h1 H1 X1) as [E1 L1]. destruct (impl_hex_num h2 H2 X2) as [E2 L2].
  rewrite E1, E2. rewrite N.shiftl_mul_pow2. change (2 ^ 4) with 16. unfold esc_val.
  apply N.mod_small. clear - L1 L2. lia.
Qed.

Lemma esc_val_lt h1 h2 : h1 < 256 -> h2 < 256 -> is_ascii_hex h1 = true -> is_ascii_hex h2 = true ->
  esc_val h1 h2 < 256.
Proof.
  intros H1 H2 X1 X2.
  destruct (impl_hex_num h1 H1 X1) as [_ L1]. destruct (impl_hex_num h2 H2 X2) as [_ L2].
  unfold esc_val. clear - L1 L2. lia.
Qed.

Lemma dec1_bytes_ok : forall s, bytes_ok s -> bytes_ok (dec1 s).
Proof.
  assert (H : forall n s, (length s <= n)%nat -> bytes_ok s -> bytes_ok (dec1 s)).
  { induction n as [|n IH]; intros s Hl Hs.
    - destruct s; [constructor|cbn [length] in Hl; lia].
    - destruct s as [|c r]; [constructor|]. cbn [length] in Hl.
      apply bytes_ok_inv in Hs. destruct Hs as [Hc Hr].
      rewrite dec1_cons.
      assert (Hrec : bytes_ok (dec1 r)) by (apply IH; [lia|exact Hr]).
      destruct (c =? 43); [apply bytes_ok_cons; [reflexivity|exact Hrec]|].
      destruct (c =? 37); [|apply bytes_ok_cons; assumption].
      destruct r as [|h1 [|h2 r2]]; try (apply bytes_ok_cons; [reflexivity|exact Hrec]).
      apply bytes_ok_inv in Hr. destruct Hr as [Hh1 Hr]. apply bytes_ok_inv in Hr. destruct Hr as [Hh2 Hr2].
      destruct (is_ascii_hex h1 && is_ascii_hex h2) eqn:Hh; [|apply bytes_ok_cons; [reflexivity|exact Hrec]].
      apply andb_prop in Hh. destruct Hh as [X1 X2].
      apply bytes_ok_cons; [apply esc_val_lt; assumption|].
      apply IH; [cbn [length] in Hl; lia|exact Hr2]. }
  intros s. apply (H (length s)). lia.
Qed.

(* --- pieces by take_while / drop_while --- *)
Definition P38 (b : N) : bool := negb (b =? 38).
Definition P61 (b : N) : bool := negb (b =? 38) && negb (b =? 61).
Definition N61 (b : N) : bool := negb (b =? 61).

Lemma hex_P38 b : is_ascii_hex b = true -> P38 b = true.
Proof.
  unfold P38, is_ascii_hex, is_ascii_upper_hex, is_ascii_lower_hex, is_ascii_digit. lia.
Qed.
Lemma hex_P61 b : is_ascii_hex b = true -> P61 b = true.
Proof.
  unfold P61, is_ascii_hex, is_ascii_upper_hex, is_ascii_lower_hex, is_ascii_digit. lia.
Qed.

Lemma dec1_pct_take (P : N -> bool) r : (forall b, is_ascii_hex b = true -> P b = true) ->
  dec1 (37 :: take_while P r) =
  match r with
  | h1 :: h2 :: r2 =>
      if is_ascii_hex h1 && is_ascii_hex h2 then esc_val h1 h2 :: dec1 (take_while P r2)
      else 37 :: dec1 (take_while P r)
  | _ => 37 :: dec1 (take_while P r)
  end.
Proof.
  intro HP. rewrite dec1_cons. change (37 =? 43) with false. change (37 =? 37) with true. cbv iota.
  destruct r as [|h1 [|h2 r2]].
  - reflexivity.
  - cbn [take_while]. destruct (P h1); reflexivity.
  - destruct (is_ascii_hex h1 && is_ascii_hex h2) eqn:Hh.
    + apply andb_prop in Hh. destruct Hh as [X1 X2].
      cbn [take_while]. rewrite (HP h1 X1), (HP h2 X2). rewrite X1, X2. reflexivity.
    + cbn [take_while]. destruct (P h1); [|reflexivity]. destruct (P h2).
      * rewrite Hh. reflexivity.
      * reflexivity.
Qed.

Definition raw_piece (bytes : list N) : list bpair :=
  match bytes with
  | [] => []
  | _ => [(dec1 (fst (split_first_eq bytes)), dec1 (snd (split_first_eq bytes)))]
  end.
Definition raw_parse (s : list N) : list bpair := flat_map raw_piece (split_on 38 s).
Definition tail_pieces (s : list N) : list bpair :=
  match drop_while P38 s with [] => [] | _ :: r => raw_parse r end.
Definition starts_piece (s : list N) : bool := match s with [] => false | c :: _ => negb (c =? 38) end.
Definition scan_name (name : list N) (iv : bool) (s : list N) : list N :=
  if iv then name else name ++ dec1 (take_while P61 s).
Definition scan_value (value : list N) (iv : bool) (s : list N) : list N :=
  if iv then value ++ dec1 (take_while P38 s)
  else match drop_while P61 s with
       | c :: r' => if c =? 61 then value ++ dec1 (take_while P38 r') else value
       | [] => value
       end.
Definition fixp (p : bpair) : bpair := (check_fix_utf8 (fst p), check_fix_utf8 (snd p)).
Definition emitf (n v : list N) (ne : bool) : list bpair :=
  if ne then [(check_fix_utf8 n, check_fix_utf8 v)] else [].

Lemma split_on_nonnil d s : split_on d s <> [].
Proof.
  destruct s as [|x s]; cbn [split_on]; [discriminate|].
  destruct (x =? d); [discriminate|]. destruct (split_on d s); discriminate.
Qed.

Lemma split_on_38_unfold s :
  split_on 38 s = take_while P38 s :: match drop_while P38 s with [] => [] | _ :: r => split_on 38 r end.
Proof.
  induction s as [|x s IH]; [reflexivity|].
  cbn [split_on take_while drop_while]. unfold P38 at 1 3.
  destruct (x =? 38); cbn [negb]; [reflexivity|].
  rewrite IH. reflexivity.
Qed.

Lemma take_N61_P38 s : take_while N61 (take_while P38 s) = take_while P61 s.
Proof.
  induction s as [|x s IH]; [reflexivity|].
  cbn [take_while]. unfold P38 at 1, P61 at 1.
  destruct (x =? 38); cbn [negb andb]; [reflexivity|].
  cbn [take_while]. unfold N61 at 1. destruct (x =? 61); cbn [negb]; [reflexivity|].
  rewrite IH. reflexivity.
Qed.

Lemma drop_N61_P38 s :
  match drop_while N61 (take_while P38 s) with [] => [] | _ :: v => v end =
  match drop_while P61 s with c :: r' => if c =? 61 then take_while P38 r' else [] | [] => [] end.
Proof.
  induction s as [|x s IH]; [reflexivity|].
  cbn [take_while drop_while]. unfold P38 at 1, P61 at 1.
  destruct (x =? 38) eqn:E38; cbn [negb andb].
  - cbn [drop_while]. apply N.eqb_eq in E38. subst x. reflexivity.
  - cbn [drop_while]. unfold N61 at 1. destruct (x =? 61) eqn:E61; cbn [negb]; [rewrite E61; reflexivity|exact IH].
Qed.

Lemma raw_piece_nonnil T : T <> [] ->
  raw_piece T = [(dec1 (take_while N61 T), dec1 (match drop_while N61 T with [] => [] | _ :: v => v end))].
Proof. destruct T; [congruence|reflexivity]. Qed.

Lemma raw_piece_scan s :
  raw_piece (take_while P38 s) =
  if starts_piece s then [(scan_name [] false s, scan_value [] false s)] else [].
Proof.
  destruct s as [|c r]; [reflexivity|].
  unfold starts_piece. destruct (c =? 38) eqn:E38; cbn [negb].
  - cbn [take_while]. unfold P38 at 1. rewrite E38. reflexivity.
  - rewrite raw_piece_nonnil.
    2:{ cbn [take_while]. unfold P38 at 1. rewrite E38. discriminate. }
    rewrite take_N61_P38, drop_N61_P38. unfold scan_name, scan_value. cbn [app].
    destruct (drop_while P61 (c :: r)) as [|x r']; [reflexivity|].
    destruct (x =? 61); reflexivity.
Qed.

Lemma raw_parse_unfold s :
  raw_parse s = (if starts_piece s then [(scan_name [] false s, scan_value [] false s)] else []) ++ tail_pieces s.
Proof.
  unfold raw_parse at 1. rewrite split_on_38_unfold. cbn [flat_map]. rewrite raw_piece_scan.
  unfold tail_pieces. destruct (drop_while P38 s); reflexivity.
Qed.

Lemma loop_step f c r name value iv ne acc :
  do_parse_loop (S f) (c :: r) name value iv ne acc =
      if c =? 61 then
        if negb iv then do_parse_loop f r name value true true acc
        else do_parse_loop f r name (value ++ [c]) true true acc
      else if c =? 38 then
        let acc := if ne then acc ++ [(check_fix_utf8 name, check_fix_utf8 value)] else acc in
        do_parse_loop f r [] [] false false acc
      else if c =? 43 then
        if iv then do_parse_loop f r name (value ++ [32]) iv true acc
        else do_parse_loop f r (name ++ [32]) value iv true acc
      else
        let '(b, r') :=
          if c =? 37 then
            match r with
            | h1 :: h2 :: r2 =>
                if tbl_is_hex_char (h1 mod 256) && tbl_is_hex_char (h2 mod 256)
                then ((N.shiftl (tbl_hex_char_to_num (h1 mod 256)) 4 + tbl_hex_char_to_num (h2 mod 256)) mod 256, r2)
                else (c, r)
            | _ => (c, r)
            end
          else (c, r) in
        if iv then do_parse_loop f r' name (value ++ [b]) iv true acc
        else do_parse_loop f r' (name ++ [b]) value iv true acc.
Proof. reflexivity. Qed.

(* one step of the scan on a character that is copied or decoded to [b], consuming up to [r'] *)
Lemma app_cons_assoc {A} (l : list A) x m : l ++ x :: m = (l ++ [x]) ++ m.
Proof. rewrite <- app_assoc. reflexivity. Qed.

Lemma tail_pieces_skip c r : P38 c = true -> tail_pieces (c :: r) = tail_pieces r.
Proof. intro H. unfold tail_pieces. cbn [drop_while]. rewrite H. reflexivity. Qed.

(* "the scanner turns the head of [c :: r] into the byte [b] and continues at [r']" *)
Definition consumes (c : N) (r : list N) (b : N) (r' : list N) : Prop :=
  forall P : N -> bool, (forall h, is_ascii_hex h = true -> P h = true) -> P c = true ->
    dec1 (take_while P (c :: r)) = b :: dec1 (take_while P r') /\ drop_while P (c :: r) = drop_while P r'.

Lemma consumes_plus r : consumes 43 r 32 r.
Proof.
  intros P HP Hc. cbn [take_while drop_while]. rewrite Hc. split; reflexivity.
Qed.

Lemma consumes_plain c r : (c =? 43) = false -> (c =? 37) = false -> consumes c r c r.
Proof.
  intros E43 E37 P HP Hc. cbn [take_while drop_while]. rewrite Hc. rewrite dec1_cons, E43, E37.
  split; reflexivity.
Qed.

Lemma consumes_escape h1 h2 r2 : is_ascii_hex h1 = true -> is_ascii_hex h2 = true ->
  consumes 37 (h1 :: h2 :: r2) (esc_val h1 h2) r2.
Proof.
  intros X1 X2 P HP Hc. split.
  - change (take_while P (37 :: h1 :: h2 :: r2))
      with (if P 37 then 37 :: take_while P (h1 :: h2 :: r2) else []).
    rewrite Hc.
    rewrite (dec1_pct_take P _ HP). rewrite X1, X2. reflexivity.
  - cbn [drop_while]. rewrite Hc, (HP h1 X1), (HP h2 X2). reflexivity.
Qed.

Lemma consumes_literal_pct r :
  match r with h1 :: h2 :: _ => is_ascii_hex h1 && is_ascii_hex h2 = false | _ => True end ->
  consumes 37 r 37 r.
Proof.
  intros Hr P HP Hc. split.
  - change (take_while P (37 :: r)) with (if P 37 then 37 :: take_while P r else []).
    rewrite Hc. rewrite (dec1_pct_take P _ HP).
    destruct r as [|h1 [|h2 r2]]; try reflexivity. rewrite Hr. reflexivity.
  - cbn [drop_while]. rewrite Hc. reflexivity.
Qed.

Definition loop_rhs (s name value : list N) (iv ne : bool) (acc : list bpair) : list bpair :=
  acc ++ emitf (scan_name name iv s) (scan_value value iv s) (ne || starts_piece s)
      ++ List.map fixp (tail_pieces s).

Lemma P61_P38 c : P61 c = true -> P38 c = true.
Proof. unfold P61, P38. intro H. apply andb_prop in H. tauto. Qed.

Lemma ordinary_step c r b r' name value (iv ne : bool) acc :
  consumes c r b r' -> (if iv then P38 c else P61 c) = true ->
  loop_rhs r' (if iv then name else name ++ [b]) (if iv then value ++ [b] else value) iv true acc
  = loop_rhs (c :: r) name value iv ne acc.
Proof.
  intros Hcons Hc.
  assert (Hc38 : P38 c = true) by (destruct iv; [exact Hc|exact (P61_P38 c Hc)]).
  destruct (Hcons P38 hex_P38 Hc38) as [T38 D38].
  unfold loop_rhs. f_equal.
  assert (Hsp : starts_piece (c :: r) = true) by exact Hc38.
  rewrite Hsp, orb_true_r. cbn [orb].
  assert (Htail : tail_pieces (c :: r) = tail_pieces r').
  { unfold tail_pieces. rewrite D38. reflexivity. }
  rewrite Htail. f_equal.
  unfold scan_name, scan_value. destruct iv.
  - rewrite T38, <- app_cons_assoc. reflexivity.
  - destruct (Hcons P61 hex_P61 Hc) as [T61 D61].
    rewrite T61, D61, <- app_cons_assoc. reflexivity.
Qed.

Lemma loop_correct : forall f s, (length s < f)%nat -> bytes_ok s ->
  forall name value iv ne acc,
  do_parse_loop f s name value iv ne acc = loop_rhs s name value iv ne acc.
Proof.
  induction f as [|f IH]; intros s Hl Hs name value iv ne acc; [lia|].
  destruct s as [|c r].
  - cbn [do_parse_loop]. unfold loop_rhs, scan_name, scan_value, emitf, tail_pieces, starts_piece.
    cbn [take_while drop_while dec1 List.map]. rewrite orb_false_r, !app_nil_r.
    destruct iv; rewrite ?app_nil_r; destruct ne; rewrite ?app_nil_r; reflexivity.
  - cbn [length] in Hl. apply bytes_ok_inv in Hs. destruct Hs as [Hc Hr].
    rewrite loop_step.
    destruct (c =? 61) eqn:E61.
    { (* '=' *)
      apply N.eqb_eq in E61. subst c.
      destruct iv; cbn [negb]; rewrite IH by (try lia; exact Hr).
      - (* inside a value: an ordinary character *)
        rewrite <- (ordinary_step 61 r 61 r name value true ne acc);
          [reflexivity|apply consumes_plain; reflexivity|reflexivity].
      - (* the switch from name to value *)
        unfold loop_rhs. f_equal.
        change (starts_piece (61 :: r)) with true. rewrite orb_true_r. cbn [orb].
        rewrite (tail_pieces_skip 61 r eq_refl). f_equal.
        unfold scan_name, scan_value. cbn [take_while drop_while].
        change (P61 61) with false. cbv iota. change (61 =? 61) with true. cbv iota.
        cbn [dec1]. rewrite app_nil_r. reflexivity. }
    destruct (c =? 38) eqn:E38.
    { (* '&' *)
      apply N.eqb_eq in E38. subst c. cbv zeta.
      rewrite IH by (try lia; exact Hr).
      unfold loop_rhs. cbn [orb].
      unfold tail_pieces at 2. cbn [drop_while]. change (P38 38) with false. cbv iota.
      rewrite (raw_parse_unfold r). rewrite map_app.
      change (starts_piece (38 :: r)) with false. rewrite orb_false_r.
      assert (Hcur : (if ne then acc ++ [(check_fix_utf8 name, check_fix_utf8 value)] else acc)
                     = acc ++ emitf (scan_name name iv (38 :: r)) (scan_value value iv (38 :: r)) ne).
      { unfold scan_name, scan_value. cbn [take_while drop_while].
        change (P61 38) with false. change (P38 38) with false. cbv iota.
        change (38 =? 61) with false. cbv iota. cbn [dec1]. rewrite !app_nil_r.
        unfold emitf. destruct iv, ne; rewrite ?app_nil_r; reflexivity. }
      rewrite Hcur. rewrite <- !app_assoc. f_equal. f_equal. f_equal.
      unfold emitf. destruct (starts_piece r); reflexivity. }
    assert (H61 : P61 c = true) by (unfold P61; rewrite E38, E61; reflexivity).
    assert (Hciv : (if iv then P38 c else P61 c) = true)
      by (destruct iv; [exact (P61_P38 c H61)|exact H61]).
    destruct (c =? 43) eqn:E43.
    { (* '+' *)
      apply N.eqb_eq in E43. subst c.
      rewrite <- (ordinary_step 43 r 32 r name value iv ne acc (consumes_plus r) Hciv).
      destruct iv; rewrite IH by (try lia; exact Hr); reflexivity. }
    destruct (c =? 37) eqn:E37.
    2:{ (* a plain byte *)
      rewrite <- (ordinary_step c r c r name value iv ne acc (consumes_plain c r E43 E37) Hciv).
      destruct iv; rewrite IH by (try lia; exact Hr); reflexivity. }
    apply N.eqb_eq in E37. subst c.
    destruct r as [|h1 [|h2 r2]].
    + rewrite <- (ordinary_step 37 [] 37 [] name value iv ne acc (consumes_literal_pct [] I) Hciv).
      destruct iv; rewrite IH by (try (cbn [length] in Hl |- *; lia); exact Hr); reflexivity.
    + rewrite <- (ordinary_step 37 [h1] 37 [h1] name value iv ne acc (consumes_literal_pct [h1] I) Hciv).
      destruct iv; rewrite IH by (try (cbn [length] in Hl |- *; lia); exact Hr); reflexivity.
    + pose proof Hr as Hr0.
      apply bytes_ok_inv in Hr. destruct Hr as [Hh1 Hr]. apply bytes_ok_inv in Hr. destruct Hr as [Hh2 Hr2].
      rewrite (impl_hex h1 Hh1), (impl_hex h2 Hh2).
      destruct (is_ascii_hex h1 && is_ascii_hex h2) eqn:Hh.
      * apply andb_prop in Hh. destruct Hh as [X1 X2].
        rewrite (impl_esc h1 h2 Hh1 Hh2 X1 X2).
        rewrite <- (ordinary_step 37 (h1 :: h2 :: r2) (esc_val h1 h2) r2 name value iv ne acc
                      (consumes_escape h1 h2 r2 X1 X2) Hciv).
        destruct iv; rewrite IH by (try (cbn [length] in Hl |- *; lia); exact Hr2); reflexivity.
      * rewrite <- (ordinary_step 37 (h1 :: h2 :: r2) 37 (h1 :: h2 :: r2) name value iv ne acc
                      (consumes_literal_pct (h1 :: h2 :: r2) Hh) Hciv).
        destruct iv; rewrite IH by (try (cbn [length] in Hl |- *; lia); exact Hr0); reflexivity.
Qed.

Lemma do_parse_unfold rem bytes :
  do_parse rem bytes =
  let q := if rem then strip_qmark bytes else bytes in
  do_parse_loop (S (length q)) q [] [] false false [].
Proof.
  unfold do_parse, strip_qmark. destruct bytes as [|c r]; [destruct rem; reflexivity|].
  destruct rem; [|destruct c as [|p]; [reflexivity|]; do 6 (destruct p as [p|p|]; try reflexivity)].
  destruct c as [|p]; [reflexivity|]. do 6 (destruct p as [p|p|]; try reflexivity).
Qed.

Lemma strip_qmark_bytes_ok s : bytes_ok s -> bytes_ok (strip_qmark s).
Proof.
  intro H. destruct s as [|c r]; [exact H|].
  assert (Hr : bytes_ok r) by (apply bytes_ok_inv in H; tauto).
  unfold strip_qmark. destruct c as [|p]; [exact H|]. do 6 (destruct p as [p|p|]; try exact H). exact Hr.
Qed.

Lemma take_while_bytes_ok P s : bytes_ok s -> bytes_ok (take_while P s).
Proof.
  intro H. induction H as [|x s Hx Hs IH]; cbn [take_while]; [constructor|].
  destruct (P x); [apply bytes_ok_cons; assumption|constructor].
Qed.
Lemma drop_while_bytes_ok P s : bytes_ok s -> bytes_ok (drop_while P s).
Proof.
  intro H. induction H as [|x s Hx Hs IH]; cbn [drop_while]; [constructor|].
  destruct (P x); [exact IH|apply bytes_ok_cons; assumption].
Qed.
Lemma tl_bytes_ok s : bytes_ok s -> bytes_ok (match s with [] => [] | _ :: v => v end).
Proof. intro H. destruct s; [exact H|apply bytes_ok_inv in H; tauto]. Qed.

Lemma split_on_bytes_ok d s : bytes_ok s -> Forall bytes_ok (split_on d s).
Proof.
  intro H. induction H as [|x s Hx Hs IH]; cbn [split_on]; [repeat constructor|].
  destruct (x =? d); [constructor; [constructor|exact IH]|].
  destruct (split_on d s) as [|p ps]; [repeat constructor; exact Hx|].
  inversion IH; subst. constructor; [apply bytes_ok_cons; assumption|assumption].
Qed.

Definition spec_piece (bytes : list N) : list pair_t :=
  match bytes with
  | [] => []
  | _ =>
    let '(name, value) := split_first_eq bytes in
    let name := plus_to_space name in
    let value := plus_to_space value in
    [(utf8_decode (percent_decode name), utf8_decode (percent_decode value))]
  end.

Lemma urlencoded_parse_flat input : urlencoded_parse input = flat_map spec_piece (split_on 38 input).
Proof. reflexivity. Qed.

Lemma piece_agree p : bytes_ok p -> List.map fixp (raw_piece p) = List.map enc_pair (spec_piece p).
Proof.
  intro Hp. destruct p as [|c r]; [reflexivity|].
  unfold raw_piece, spec_piece, split_first_eq. cbv zeta. cbn [fst snd List.map].
  rewrite !percent_decode_plus_to_space.
  unfold fixp, enc_pair. cbn [fst snd].
  rewrite !check_fix_utf8_spec; [reflexivity| |].
  - apply dec1_bytes_ok, tl_bytes_ok, drop_while_bytes_ok, Hp.
  - apply dec1_bytes_ok, take_while_bytes_ok, Hp.
Qed.

Lemma map_flat_map {A B C} (f : B -> C) (g : A -> list B) l :
  List.map f (flat_map g l) = flat_map (fun x => List.map f (g x)) l.
Proof. induction l as [|x l IH]; cbn [flat_map]; [reflexivity|]. rewrite map_app, IH. reflexivity. Qed.

Lemma raw_parse_agree s : bytes_ok s -> List.map fixp (raw_parse s) = List.map enc_pair (urlencoded_parse s).
Proof.
  intro Hs. unfold raw_parse. rewrite urlencoded_parse_flat, !map_flat_map.
  apply (flat_map_ext_Forall bytes_ok); [exact piece_agree|apply split_on_bytes_ok, Hs].
Qed.

Theorem parse_correct : forall rem bytes, bytes_ok bytes ->
  do_parse rem bytes = List.map enc_pair (urlencoded_parse (if rem then strip_qmark bytes else bytes)).
Proof.
  intros rem bytes Hb. rewrite do_parse_unfold. cbv zeta.
  set (q := if rem then strip_qmark bytes else bytes).
  assert (Hq : bytes_ok q) by (unfold q; destruct rem; [apply strip_qmark_bytes_ok|]; exact Hb).
  rewrite (loop_correct (S (length q)) q (Nat.lt_succ_diag_r _) Hq).
  rewrite <- (raw_parse_agree q Hq), (raw_parse_unfold q).
  unfold loop_rhs. cbn [app orb]. rewrite map_app. f_equal.
  unfold emitf. destruct (starts_piece q); reflexivity.
Qed.

(* ------------------------------------------------------------------------------------ *)
(* 4. parse after serialize                                                             *)
(* ------------------------------------------------------------------------------------ *)

Lemma pct_byte_roundtrip : forall b, b < 256 ->
  is_ascii_hex (hex_digit_upper (b / 16)) && is_ascii_hex (hex_digit_upper (b mod 16))
  && (esc_val (hex_digit_upper (b / 16)) (hex_digit_upper (b mod 16)) =? b) = true.
Proof. apply sweep256_sound. vm_compute. reflexivity. Qed.

Lemma dec1_ser1 b X : b < 256 -> dec1 (ser1 b ++ X) = b :: dec1 X.
Proof.
  intro Hb. unfold ser1.
  destruct (N.eqb_spec b 32) as [E32|E32]; [subst b; reflexivity|].
  destruct (is_ascii_alphanumeric b || in_list [42; 45; 46; 95] b) eqn:EA.
  - cbn [app]. rewrite dec1_cons.
    assert (E : (b =? 43) = false /\ (b =? 37) = false).
    { clear - EA. unfold is_ascii_alphanumeric, is_ascii_digit, is_ascii_alpha, is_ascii_upper_alpha,
        is_ascii_lower_alpha, in_list in EA. cbn [existsb] in EA. lia. }
    destruct E as [E43 E37]. rewrite E43, E37. reflexivity.
  - unfold percent_encode_byte. cbn [app]. rewrite dec1_cons.
    change (37 =? 43) with false. change (37 =? 37) with true. cbv iota.
    pose proof (pct_byte_roundtrip b Hb) as H. apply andb_prop in H. destruct H as [H Hv].
    rewrite H. apply N.eqb_eq in Hv. rewrite Hv. reflexivity.
Qed.

Lemma dec1_ser_bytes bs : bytes_ok bs -> dec1 (urlencoded_serialize_bytes bs) = bs.
Proof.
  intro H. rewrite ser_bytes_flat. induction H as [|b bs Hb Hbs IH]; [reflexivity|].
  cbn [flat_map]. rewrite (dec1_ser1 b _ Hb), IH. reflexivity.
Qed.

Lemma ser1_P61 : forall b, b < 256 -> forallb P61 (ser1 b) = true.
Proof. apply sweep256_sound. vm_compute. reflexivity. Qed.

Lemma ser_bytes_P61 bs : bytes_ok bs -> Forall (fun c => P61 c = true) (urlencoded_serialize_bytes bs).
Proof.
  intro H. rewrite ser_bytes_flat. induction H as [|b bs Hb Hbs IH]; cbn [flat_map]; [constructor|].
  apply Forall_app. split; [|exact IH].
  apply Forall_forall. intros c Hc. pose proof (ser1_P61 b Hb) as Hf. rewrite forallb_forall in Hf. exact (Hf c Hc).
Qed.

Lemma take_while_all P x : Forall (fun c => P c = true) x -> take_while P x = x.
Proof. intro H. induction H as [|c x Hc Hx IH]; cbn [take_while]; [reflexivity|]. rewrite Hc, IH. reflexivity. Qed.
Lemma drop_while_all P x : Forall (fun c => P c = true) x -> drop_while P x = [].
Proof. intro H. induction H as [|c x Hc Hx IH]; cbn [drop_while]; [reflexivity|]. rewrite Hc. exact IH. Qed.
Lemma take_while_stop P x d rest : Forall (fun c => P c = true) x -> P d = false ->
  take_while P (x ++ d :: rest) = x.
Proof.
  intros H Hd. induction H as [|c x Hc Hx IH]; cbn [take_while app].
  - rewrite Hd. reflexivity.
  - rewrite Hc, IH. reflexivity.
Qed.
Lemma drop_while_stop P x d rest : Forall (fun c => P c = true) x -> P d = false ->
  drop_while P (x ++ d :: rest) = d :: rest.
Proof.
  intros H Hd. induction H as [|c x Hc Hx IH]; cbn [drop_while app].
  - rewrite Hd. reflexivity.
  - rewrite Hc. exact IH.
Qed.

Definition ser_pair (p : pair_t) : list N :=
  urlencoded_serialize_str (fst p) ++ [61] ++ urlencoded_serialize_str (snd p).

Lemma urlencoded_serialize_cons p l :
  urlencoded_serialize (p :: l) =
  match l with [] => ser_pair p | _ => ser_pair p ++ [38] ++ urlencoded_serialize l end.
Proof.
  destruct p as [n v]. unfold ser_pair. cbn [fst snd urlencoded_serialize].
  destruct l; [reflexivity|]. rewrite <- !app_assoc. reflexivity.
Qed.

Lemma Forall_impl_P61_P38 x : Forall (fun c => P61 c = true) x -> Forall (fun c => P38 c = true) x.
Proof. apply Forall_impl. exact P61_P38. Qed.
Lemma Forall_impl_P61_N61 x : Forall (fun c => P61 c = true) x -> Forall (fun c => N61 c = true) x.
Proof. apply Forall_impl. intros c H. unfold P61 in H. apply andb_prop in H. exact (proj2 H). Qed.

Lemma ser_pair_P38 p : wf_pair p -> Forall (fun c => P38 c = true) (ser_pair p).
Proof.
  intros [Hn Hv]. unfold ser_pair, urlencoded_serialize_str.
  apply Forall_app. split; [apply Forall_impl_P61_P38, ser_bytes_P61, utf8_encode_bytes, Hn|].
  apply Forall_app. split; [repeat constructor|apply Forall_impl_P61_P38, ser_bytes_P61, utf8_encode_bytes, Hv].
Qed.

Lemma spec_piece_ser_pair p : wf_pair p -> spec_piece (ser_pair p) = [p].
Proof.
  intros [Hn Hv]. destruct p as [n v]. cbn [fst snd] in Hn, Hv.
  unfold ser_pair, urlencoded_serialize_str. cbn [fst snd].
  pose proof (utf8_encode_bytes n Hn) as Bn. pose proof (utf8_encode_bytes v Hv) as Bv.
  set (sn := urlencoded_serialize_bytes (utf8_encode n)).
  set (sv := urlencoded_serialize_bytes (utf8_encode v)).
  assert (Hsn : Forall (fun c => N61 c = true) sn) by (apply Forall_impl_P61_N61, ser_bytes_P61, Bn).
  unfold spec_piece.
  destruct (sn ++ [61] ++ sv) as [|c0 r0] eqn:ET; [destruct sn; discriminate|]. rewrite <- ET.
  unfold split_first_eq. cbv zeta.
  change (fun b : N => negb (b =? 61)) with N61. cbn [app].
  rewrite (take_while_stop N61 sn 61 sv Hsn eq_refl), (drop_while_stop N61 sn 61 sv Hsn eq_refl).
  rewrite !percent_decode_plus_to_space. unfold sn, sv.
  rewrite (dec1_ser_bytes _ Bn), (dec1_ser_bytes _ Bv).
  rewrite (utf8_decode_encode n Hn), (utf8_decode_encode v Hv). reflexivity.
Qed.

Lemma parse_serialize_spec : forall l, wf_list l -> urlencoded_parse (urlencoded_serialize l) = l.
Proof.
  intros l H. induction H as [|p l Hp Hl IH]; [reflexivity|].
  rewrite urlencoded_serialize_cons. rewrite urlencoded_parse_flat, split_on_38_unfold.
  pose proof (ser_pair_P38 p Hp) as H38.
  destruct l as [|q l'].
  - rewrite (take_while_all P38 _ H38), (drop_while_all P38 _ H38). cbn [flat_map].
    rewrite (spec_piece_ser_pair p Hp). reflexivity.
  - cbn [app].
    rewrite (take_while_stop P38 _ 38 _ H38 eq_refl), (drop_while_stop P38 _ 38 _ H38 eq_refl).
    cbn [flat_map]. rewrite (spec_piece_ser_pair p Hp).
    rewrite urlencoded_parse_flat in IH. rewrite IH. reflexivity.
Qed.

Lemma wf_list_enc_bytes l : wf_list l -> Forall (fun p => bytes_ok (fst p) /\ bytes_ok (snd p)) (List.map enc_pair l).
Proof.
  intro H. induction H as [|p l [Hn Hv] Hl IH]; cbn [List.map]; constructor; [|exact IH].
  unfold enc_pair. cbn [fst snd]. split; apply utf8_encode_bytes; assumption.
Qed.

Theorem roundtrip : forall l, Forall (fun p => scalars_ok (fst p) /\ scalars_ok (snd p)) l ->
  do_parse false (serialize (List.map enc_pair l)) = List.map enc_pair l.
Proof.
  intros l H.
  assert (Hb : bytes_ok (serialize (List.map enc_pair l))).
  { pose proof (serialize_alphabet _ (wf_list_enc_bytes l H)) as Ha.
    unfold bytes_ok. revert Ha. apply Forall_impl. exact alphabet_lt256. }
  rewrite (parse_correct false _ Hb). rewrite (serialize_spec l H).
  rewrite (parse_serialize_spec l H). reflexivity.
Qed.

(* the parser's results are scalar value strings *)
Lemma spec_piece_wf p : bytes_ok p -> wf_list (spec_piece p).
Proof.
  intro Hp. destruct p as [|c r]; [constructor|].
  unfold spec_piece, split_first_eq. cbv zeta. rewrite !percent_decode_plus_to_space.
  constructor; [|constructor]. split; cbn [fst snd]; apply utf8_decode_scalars, dec1_bytes_ok.
  - apply take_while_bytes_ok, Hp.
  - apply tl_bytes_ok, drop_while_bytes_ok, Hp.
Qed.

Lemma urlencoded_parse_wf s : bytes_ok s -> wf_list (urlencoded_parse s).
Proof.
  intro Hs. rewrite urlencoded_parse_flat. pose proof (split_on_bytes_ok 38 s Hs) as H.
  induction H as [|p ps Hp Hps IH]; cbn [flat_map]; [constructor|].
  apply Forall_app. split; [exact (spec_piece_wf p Hp)|exact IH].
Qed.
