(* C06, link to the protocol interpreter: every state reachable by Spec.Proto.exec satisfies the
   lock-step invariant of Proofs.LockstepProofs. *)
From Upa Require Import Base.Prelude Spec.CodePoints Spec.Utf Spec.Percent Spec.Ip Spec.UrlEncoded Spec.Url
  Proofs.UtfFacts Proofs.UrlEncodedProofs Proofs.SearchParamsProofs Spec.Api Spec.FilePath Spec.Proto
  Proofs.LockstepProofs.
From Coq Require Import ZifyBool ZifyN ZifyNat.
Local Open Scope N_scope.

(* ----- arguments of the protocol are scalar value strings ----- *)
Lemma hex_val_lt c : is_ascii_hex c = true -> hex_val c < 16.
Proof.
  unfold is_ascii_hex, is_ascii_upper_hex, is_ascii_lower_hex, hex_val, is_ascii_digit. intro H.
  destruct ((48 <=? c) && (c <=? 57)) eqn:E1; [lia|].
  destruct ((65 <=? c) && (c <=? 70)) eqn:E2; lia.
Qed.

Definition hexfold (acc : option N) (c : N) : option N :=
  match acc, hexd c with Some a, Some d => Some (a * 16 + d) | _, _ => None end.

Lemma hexfold_bound : forall digits a v,
  fold_left hexfold digits (Some a) = Some v -> v < (a + 1) * 16 ^ N.of_nat (length digits).
Proof.
  induction digits as [|c ds IH]; intros a v H; cbn [fold_left length] in *.
  - inversion H; subst. cbn. lia.
  - unfold hexfold at 2 in H. unfold hexd in H. destruct (is_ascii_hex c) eqn:Hc.
    + apply IH in H. pose proof (hex_val_lt c Hc) as Hl.
      rewrite Nat2N.inj_succ, N.pow_succ_r'. 
      assert (a * 16 + hex_val c + 1 <= (a + 1) * 16) by lia.
      eapply N.lt_le_trans; [exact H|]. 
      replace ((a + 1) * (16 * 16 ^ N.of_nat (length ds))) with (((a + 1) * 16) * 16 ^ N.of_nat (length ds)) by lia.
      apply N.mul_le_mono_r. assumption.
    + exfalso. clear - H. induction ds as [|d ds IHd]; cbn [fold_left] in H; [discriminate|]. exact (IHd H).
Qed.

Lemma hex_units_bound w : forall fuel s r, hex_units w s fuel = Some r -> Forall (fun v => v < 16 ^ N.of_nat w) r.
Proof.
  induction fuel as [|f IH]; intros s r H; cbn [hex_units] in H.
  - inversion H. constructor.
  - destruct s as [|c s']; [inversion H; constructor|].
    destruct (negb (length (firstn w (c :: s')) =? w)%nat) eqn:El; [discriminate|].
    change (fun acc c0 => match acc, hexd c0 with Some a, Some d => Some (a * 16 + d) | _, _ => None end) with hexfold in H.
    destruct (fold_left hexfold (firstn w (c :: s')) (Some 0)) as [v|] eqn:Ef; [|discriminate].
    destruct (hex_units w (skipn w (c :: s')) f) as [r'|] eqn:Er; [|discriminate].
    inversion H; subst. constructor; [|exact (IH _ _ Er)].
    apply hexfold_bound in Ef. apply Bool.negb_false_iff, Nat.eqb_eq in El. rewrite El in Ef. lia.
Qed.

Lemma utf16_decode_scalars : forall u, Forall (fun x => x < 65536) u -> scalars_ok (utf16_decode u).
Proof.
  intros u. remember (length u) as n eqn:Hn. revert u Hn.
  induction n as [n IH] using lt_wf_ind. intros u Hn Hu.
  destruct u as [|a u']; [constructor|]. cbn [utf16_decode].
  inversion Hu as [|? ? Ha Hu']; subst.
  destruct (is_lead a) eqn:El.
  - destruct u' as [|b u'']; [repeat constructor|].
    inversion Hu' as [|? ? Hb Hu'']; subst.
    destruct (is_trail b) eqn:Et.
    + constructor; [|apply (IH (length u'')); [cbn [length]; lia|reflexivity|exact Hu'']].
      unfold is_lead, is_trail, is_scalar in *. lia.
    + constructor; [reflexivity|]. apply (IH (length (b :: u''))); [cbn [length]; lia|reflexivity|exact Hu'].
  - destruct (is_trail a) eqn:Et.
    + constructor; [reflexivity|]. apply (IH (length u')); [cbn [length]; lia|reflexivity|exact Hu'].
    + constructor; [unfold is_lead, is_trail, is_scalar in *; lia|].
      apply (IH (length u')); [cbn [length]; lia|reflexivity|exact Hu'].
Qed.

Lemma utf32_decode_scalars u : scalars_ok (utf32_decode u).
Proof.
  unfold utf32_decode. induction u as [|c u IH]; cbn [List.map]; constructor; [|exact IH].
  destruct (is_scalar c) eqn:E; [exact E|reflexivity].
Qed.

Definition arg_ok (a : enc * list N) : Prop := scalars_ok (scalars_of a).

Lemma parse_arg_ok t a : parse_arg t = Some a -> arg_ok a.
Proof.
  unfold parse_arg. destruct t as [|e rest]; [discriminate|].
  set (hex := match rest with 58 :: h => Some h | _ :: 58 :: h => Some h | _ => None end).
  destruct hex as [h|]; [|discriminate].
  destruct (e =? 104) eqn:E1.
  - destruct (hex_units 4 h (S (length h))) as [u|] eqn:Eu; [|discriminate]. intro H; inversion H; subst.
    unfold arg_ok, scalars_of. cbn [fst snd decode_units]. apply utf16_decode_scalars.
    exact (hex_units_bound 4 _ _ _ Eu).
  - destruct ((e =? 119) || (e =? 87)).
    + destruct (hex_units 8 h (S (length h))) as [u|]; [|discriminate]. intro H; inversion H; subst.
      unfold arg_ok, scalars_of. cbn [fst snd decode_units]. apply utf32_decode_scalars.
    + destruct (hex_units 2 h (S (length h))) as [u|]; [|discriminate]. intro H; inversion H; subst.
      unfold arg_ok, scalars_of. cbn [fst snd decode_units]. apply utf8_decode_scalars_any.
Qed.

Lemma map_opt_args_ok : forall l args, map_opt_args l = Some args -> Forall arg_ok args.
Proof.
  induction l as [|t r IH]; intros args H; cbn [map_opt_args] in H.
  - inversion H. constructor.
  - destruct (parse_arg t) as [a|] eqn:Ea; [|discriminate].
    destruct (map_opt_args r) as [rs|] eqn:Er; [|discriminate]. inversion H; subst.
    constructor; [exact (parse_arg_ok t a Ea)|exact (IH rs eq_refl)].
Qed.

Lemma nth_wf k (usps : list (list pair_t)) : Forall wf_pairs usps -> wf_pairs (nth k usps []).
Proof.
  revert k. induction usps as [|x r IH]; intros k H; [destruct k; constructor|].
  inversion H; subst. destruct k; cbn [nth]; [assumption|apply IH; assumption].
Qed.

Lemma sp_named_op_wf name args usps k op : Forall arg_ok args -> Forall wf_pairs usps ->
  sp_named_op name args usps k = Some op -> wf_spop op.
Proof.
  intros Ha Hu. unfold sp_named_op.
  destruct args as [|n [|v [|x r]]].
  - repeat match goal with |- context [if ?c then _ else _] => destruct c end;
      try (intro H; inversion H; subst; exact I).
    all: destruct k as [k|]; try discriminate.
    intro H; inversion H; subst. cbn [wf_spop]. apply nth_wf, Hu.
  - inversion Ha as [|? ? Hn _]; subst. unfold arg_ok in Hn.
    repeat match goal with |- context [if ?c then _ else _] => destruct c end;
      try discriminate; intro H; inversion H; subst; cbn [wf_spop]; try exact Hn; exact I.
  - inversion Ha as [|? ? Hn Ha']; subst. inversion Ha' as [|? ? Hv _]; subst. unfold arg_ok in Hn, Hv.
    repeat match goal with |- context [if ?c then _ else _] => destruct c end;
      try discriminate; intro H; inversion H; subst; cbn [wf_spop]; split; assumption.
  - discriminate.
Qed.

(* ----- protocol states ----- *)
Definition ps_ok (ps : pstate_) : Prop := Forall slot_ok (ps_store ps) /\ Forall wf_pairs (ps_usp ps).

Lemma init_ps_ok : ps_ok init_ps.
Proof. split; [exact init_store_ok|repeat constructor]. Qed.

Lemma put_ok ps s x : ps_ok ps -> slot_ok x -> ps_ok (put ps s x).
Proof. intros [H1 H2] Hx. split; cbn [put ps_store ps_usp]; [apply set_slot_ok; assumption|exact H2]. Qed.

Lemma set_nth_l_wf : forall (l : list (list pair_t)) k x, Forall wf_pairs l -> wf_pairs x -> Forall wf_pairs (set_nth_l l k x).
Proof.
  induction l as [|y l IH]; intros k x H Hx; cbn [set_nth_l]; [constructor|].
  inversion H; subst. destruct k; constructor; try assumption. apply IH; assumption.
Qed.

Lemma usp_put_ok ps st k l : ps_ok ps -> Forall slot_ok st -> wf_pairs l -> ps_ok (mk_ps st (set_nth_l (ps_usp ps) k l)).
Proof. intros [H1 H2] Hst Hl. split; cbn [ps_store ps_usp]; [exact Hst|apply set_nth_l_wf; assumption]. Qed.

Lemma get_usp_wf ps k : ps_ok ps -> wf_pairs (get_usp ps k).
Proof. intros [_ H]. unfold get_usp. apply nth_wf, H. Qed.

Lemma slot_sp_apply_ok' sl op sl' extra l' : slot_sp_apply sl op = (sl', extra, l') ->
  slot_ok sl -> s_has_sp sl = true -> wf_spop op -> slot_ok sl'.
Proof.
  intros E H1 H2 H3. pose proof (slot_sp_apply_ok sl op H1 H2 H3) as H. rewrite E in H. exact H.
Qed.

Lemma apply_spop_wf' l op l' b extra : apply_spop l op = (l', b, extra) -> wf_pairs l -> wf_spop op -> wf_pairs l'.
Proof. intros E H1 H2. pose proof (apply_spop_wf l op H1 H2) as H. rewrite E in H. exact H. Qed.

Lemma pair_op_ok' o sd ss sd' ss' : pair_op o sd ss = (sd', ss') -> slot_ok sd -> slot_ok ss -> slot_ok sd' /\ slot_ok ss'.
Proof. intros E H1 H2. pose proof (pair_op_ok o sd ss H1 H2) as H. rewrite E in H. exact H. Qed.

Lemma op_choice_wf (karg : option nat) (b : bool) ps name rest op :
  ps_ok ps ->
  match (match karg with Some k => if b then Some (OpAssign (get_usp ps k)) else None | None => None end) with
  | Some o => Some o
  | None => match map_opt_args rest with Some a => sp_named_op name a (ps_usp ps) None | None => None end
  end = Some op -> wf_spop op.
Proof.
  intros Hps H.
  destruct karg as [k|]; [destruct b|].
  - inversion H; subst. cbn [wf_spop]. apply get_usp_wf, Hps.
  - destruct (map_opt_args rest) as [a|] eqn:Ea; [|discriminate].
    exact (sp_named_op_wf name a _ None op (map_opt_args_ok rest a Ea) (proj2 Hps) H).
  - destruct (map_opt_args rest) as [a|] eqn:Ea; [|discriminate].
    exact (sp_named_op_wf name a _ None op (map_opt_args_ok rest a Ea) (proj2 Hps) H).
Qed.

Section Exec.
Variable idna : list N -> option (list N).
Variable ops : parser_ops.
Hypothesis Hops : ops_keep_query ops.

Ltac head_destruct :=
  match goal with
  | |- ps_ok (fst (if ?c then _ else _)) => destruct c
  | |- ps_ok (fst (match ?x with _ => _ end)) => destruct x eqn:?
  end.

Lemma exec_ok ps toks : ps_ok ps -> ps_ok (fst (exec idna ops ps toks)).
Proof.
  intro Hps. pose proof (proj1 Hps) as Hst. pose proof (proj2 Hps) as Husp.
  assert (Hget : forall i, slot_ok (get_slot (ps_store ps) i)) by (intro i; apply get_slot_ok, Hst).
  unfold exec. cbv zeta.
  repeat head_destruct; cbn [fst]; try exact Hps.
  all: try (apply put_ok; [exact Hps|]).
  all: try (first [apply slot_after_parse_ok, Hget | apply slot_ctor_ok | apply (slot_set_ok ops Hops), Hget
                  | apply slot_clear_ok | apply slot_sp_create_ok, Hget]).
  all: try match goal with
       | H : pair_op _ _ _ = (_, _) |- _ =>
           destruct (pair_op_ok' _ _ _ _ _ H (Hget _) (Hget _)) as [Hp1 Hp2];
           apply put_ok; [apply put_ok; [exact Hps|exact Hp1]|destruct (_ =? _)%nat; assumption]
       end.
  all: try match goal with
       | |- ps_ok (mk_ps (set_slot _ _ _) _) =>
           apply usp_put_ok; [exact Hps|apply set_slot_ok; [exact Hst|apply slot_sp_create_ok, Hget]|
                              exact (proj1 (slot_sp_create_ok _ (Hget _)))]
       end.
  all: try match goal with |- ps_ok (mk_ps (ps_store _) _) => apply usp_put_ok; [exact Hps|exact Hst|] end.
  all: try exact init_ps_ok.
  all: try exact wf_nil.
  all: try apply urlencoded_parse_wf_any.
  all: try apply get_usp_wf, Hps.
  - eapply slot_sp_apply_ok'; [eassumption|apply slot_sp_create_ok, Hget|apply slot_sp_create_has|].
    eapply op_choice_wf; [exact Hps|eassumption].
  - eapply apply_spop_wf'; [eassumption|apply get_usp_wf, Hps|].
    eapply op_choice_wf; [exact Hps|eassumption].
Qed.

(* every command is at most one step of Proofs.LockstepProofs.store_step on the store *)
Definition sim (ps ps' : pstate_) : Prop :=
  exists sops, Forall wf_sop sops /\ ps_store ps' = fold_left (store_step ops) sops (ps_store ps).

Ltac head_destruct_sim :=
  match goal with
  | |- sim _ (fst (if ?c then _ else _)) => destruct c eqn:?
  | |- sim _ (fst (match ?x with _ => _ end)) => destruct x eqn:?
  end.

Ltac one_step o := exists [o]; split; [constructor; [exact I|constructor]|reflexivity].

Lemma exec_sim ps toks : ps_ok ps -> sim ps (fst (exec idna ops ps toks)).
Proof.
  intro Hps. unfold exec. cbv zeta.
  repeat head_destruct_sim; cbn [fst].
  all: try (exists []; split; [constructor|reflexivity]).
  all: try match goal with |- sim _ (put _ ?i (slot_after_parse _ ?r)) => one_step (SParse i r) end.
  all: try match goal with |- sim _ (put _ ?i (mk_slot (Some ?u) false [])) => one_step (SCtor i u) end.
  all: try match goal with |- sim _ (put _ ?i (slot_set _ _ ?w ?e ?u)) => one_step (SSet i w e u) end.
  all: try match goal with |- sim _ (put _ ?i (slot_clear _)) => one_step (SClear i) end.
  all: try match goal with |- sim _ (put _ ?i (slot_sp_create _)) => one_step (SSpCreate i) end.
  all: try match goal with |- sim _ (mk_ps (set_slot _ ?i (slot_sp_create _)) _) => one_step (SSpCreate i) end.
  all: try match goal with |- sim _ init_ps => one_step SReset end.
  - match goal with
    | H : pair_op ?o _ _ = _, Hc : (?d =? ?s)%nat && negb ?b = false |- sim _ (put (put _ ?d _) ?s _) =>
        exists [SPair o d s]; split; [constructor; [exact I|constructor]|];
        cbn [fold_left ps_store put]; unfold store_step; rewrite H;
        destruct b; [cbn [is_copy_assign negb]; rewrite Bool.andb_false_r; reflexivity|];
        cbn [negb] in Hc; rewrite Bool.andb_true_r in Hc; rewrite Hc; reflexivity
    end.
  - match goal with
    | H : slot_sp_apply _ ?op = _, Hn : is_none _ = false |- sim _ (put _ ?i _) =>
        exists [SSpOp i op]; split;
        [constructor; [cbn [wf_sop]; eapply op_choice_wf; [exact Hps|eassumption]|constructor]|];
        cbn [fold_left ps_store put]; unfold store_step; cbv zeta; rewrite Hn, H; reflexivity
    end.
Qed.

Lemma run_line_ok ps line : ps_ok ps -> ps_ok (fst (run_line idna ops ps line)).
Proof. intro H. unfold run_line. apply exec_ok, H. Qed.

(* every state the interpreter reaches from the initial state *)
Definition run_lines (lines : list str) (ps : pstate_) : pstate_ :=
  fold_left (fun p line => fst (run_line idna ops p line)) lines ps.

Lemma run_lines_ok : forall lines ps, ps_ok ps -> ps_ok (run_lines lines ps).
Proof.
  unfold run_lines. induction lines as [|l r IH]; intros ps H; cbn [fold_left]; [exact H|].
  apply IH, run_line_ok, H.
Qed.

Lemma reachable_ok : forall lines i, slot_ok (get_slot (ps_store (run_lines lines init_ps)) i).
Proof. intros lines i. apply get_slot_ok. exact (proj1 (run_lines_ok lines init_ps init_ps_ok)). Qed.

End Exec.
