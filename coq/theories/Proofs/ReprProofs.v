(* C05 — the hidden representation (Impl/Repr.v): invariant, getters as offset arithmetic,
   the representation determines the record. *)
From Upa Require Import Base.Prelude Spec.CodePoints Spec.Utf Spec.Percent Spec.Ip Spec.Url Impl.Repr.
From Upa Require Import Proofs.CanonDefs.
From Upa Require Properties_C11 Properties_C12.
From Coq Require Import ZifyBool ZifyN ZifyNat.
Local Open Scope N_scope.

(* ---------------------------------------------------------------------------------- *)
(* strings                                                                            *)
(* ---------------------------------------------------------------------------------- *)

Lemma len_app a b : len (a ++ b) = len a + len b.
Proof. unfold len. rewrite app_length. lia. Qed.

Lemma len_nil : len [] = 0.
Proof. reflexivity. Qed.

Lemma len_cons x s : len (x :: s) = 1 + len s.
Proof. unfold len. cbn [length]. lia. Qed.

Lemma len_0 s : len s = 0 -> s = [].
Proof. destruct s; [reflexivity|]. rewrite len_cons. lia. Qed.

Lemma to_nat_len s : N.to_nat (len s) = length s.
Proof. unfold len. apply Nat2N.id. Qed.

Lemma skipn_len_app (a s : str) k : skipn (length a + k) (a ++ s) = skipn k s.
Proof. induction a as [|x a IH]; [reflexivity|exact IH]. Qed.

Lemma firstn_len_app (p x : str) : firstn (length p) (p ++ x) = p.
Proof. induction p as [|c p IH]; [reflexivity|]. cbn [length app firstn]. rewrite IH. reflexivity. Qed.

Lemma firstn_plus {A} (l : list A) : forall i k, firstn (i + k) l = firstn i l ++ firstn k (skipn i l).
Proof.
  induction l as [|x l IH]; intros [|i] k; try reflexivity.
  - cbn [Nat.add firstn skipn app]. destruct k; reflexivity.
  - cbn [Nat.add firstn skipn app]. rewrite IH. reflexivity.
Qed.

Lemma nthN_len_app (a s : str) k : nthN (a ++ s) (length a + k) = nthN s k.
Proof. induction a as [|x a IH]; [reflexivity|exact IH]. Qed.

(* string_view{ data + len a + d, n } of a ++ s *)
Lemma substr_app a s d n :
  substr (a ++ s) (len a + d) n = firstn (N.to_nat n) (skipn (N.to_nat d) s).
Proof.
  unfold substr. rewrite N2Nat.inj_add, to_nat_len, skipn_len_app. reflexivity.
Qed.

(* the text of a part whose separator is [ks] code units long *)
Lemma substr_part (a p x : str) b e ks :
  b = len a -> e = len a + len p ->
  substr (a ++ p ++ x) (b + ks) (if b + ks <? e then e - (b + ks) else 0) = skipn (N.to_nat ks) p.
Proof.
  intros -> ->. rewrite substr_app. destruct (N.ltb_spec (len a + ks) (len a + len p)) as [Hl|Hl].
  - replace (len a + len p - (len a + ks)) with (len p - ks) by lia.
    assert (Hk : (N.to_nat ks <= length p)%nat) by (rewrite <- to_nat_len; lia).
    rewrite <- (firstn_skipn (N.to_nat ks) p) at 2.
    rewrite <- app_assoc.
    assert (Hf : length (firstn (N.to_nat ks) p) = N.to_nat ks) by (apply firstn_length_le; exact Hk).
    rewrite <- Hf at 1. rewrite <- (Nat.add_0_r (length (firstn (N.to_nat ks) p))), skipn_len_app.
    cbn [skipn].
    replace (N.to_nat (len p - ks)) with (length (skipn (N.to_nat ks) p))
      by (rewrite skipn_length, N2Nat.inj_sub, to_nat_len; reflexivity).
    apply firstn_len_app.
  - cbn [N.to_nat firstn]. symmetry. apply skipn_all2. rewrite <- to_nat_len. lia.
Qed.

(* ---------------------------------------------------------------------------------- *)
(* a representation built from pieces: generic facts                                  *)
(* ---------------------------------------------------------------------------------- *)

Definition pre (k : nat) (ps : list str) : N := len (concat (firstn k ps)).

Lemma pre_0 ps : pre 0 ps = 0.
Proof. reflexivity. Qed.

Lemma pre_S k : forall ps, (k < length ps)%nat -> pre (S k) ps = pre k ps + len (nth k ps []).
Proof.
  unfold pre. induction k as [|k IH]; intros [|p ps] H; cbn [length] in H; try lia.
  - cbn [firstn concat nth]. rewrite app_nil_r. cbn. lia.
  - change (firstn (S (S k)) (p :: ps)) with (p :: firstn (S k) ps).
    change (firstn (S k) (p :: ps)) with (p :: firstn k ps).
    cbn [concat nth]. rewrite !len_app, IH by lia. lia.
Qed.

Lemma pre_all ps k : (length ps <= k)%nat -> pre k ps = len (concat ps).
Proof. intro H. unfold pre. rewrite firstn_all2 by exact H. reflexivity. Qed.

Lemma pre_mono k ps : pre k ps <= pre (S k) ps.
Proof.
  destruct (Nat.lt_ge_cases k (length ps)) as [H|H]; [rewrite pre_S by exact H; lia|].
  rewrite !pre_all by lia. lia.
Qed.

Lemma scan_ends_length ps : forall acc, length (scan_ends acc ps) = length ps.
Proof. induction ps as [|p ps IH]; intro acc; [reflexivity|]. cbn [scan_ends length]. rewrite IH. reflexivity. Qed.

Lemma scan_ends_nth ps : forall acc k, (k < length ps)%nat ->
  nth k (scan_ends acc ps) 0 = acc + pre (S k) ps.
Proof.
  induction ps as [|p ps IH]; intros acc k H; cbn [length] in H; [lia|].
  cbn [scan_ends]. destruct k as [|k].
  - cbn [nth]. unfold pre. cbn [firstn concat]. rewrite app_nil_r. reflexivity.
  - cbn [nth]. rewrite IH by lia. unfold pre.
    change (firstn (S (S k)) (p :: ps)) with (p :: firstn (S k) ps).
    cbn [concat]. rewrite len_app. lia.
Qed.

Lemma concat_split (ps : list str) k : concat ps = concat (firstn k ps) ++ concat (skipn k ps).
Proof. rewrite <- concat_app, firstn_skipn. reflexivity. Qed.

Lemma skipn_nth_cons (ps : list str) : forall k, (k < length ps)%nat ->
  skipn k ps = nth k ps [] :: skipn (S k) ps.
Proof.
  induction ps as [|p ps IH]; intros k H; cbn [length] in H; [lia|].
  destruct k as [|k]; [reflexivity|]. cbn [skipn nth]. apply IH. lia.
Qed.

Section Generic.
Variable ps : list str.
Variable r : repr.
Hypothesis Hnorm : r_norm r = concat ps.
Hypothesis Hends : r_ends r = scan_ends 0 ps.

Lemma E_pre k : (k < length ps)%nat -> E r k = pre (S k) ps.
Proof. intro H. unfold E. rewrite Hends, scan_ends_nth by exact H. lia. Qed.

Lemma E_0 : (0 < length ps)%nat -> E r 0 = len (nth 0 ps []).
Proof. intro H. rewrite E_pre, pre_S by exact H. rewrite pre_0. lia. Qed.

Lemma E_S k : (S k < length ps)%nat -> E r (S k) = E r k + len (nth (S k) ps []).
Proof. intro H. rewrite !E_pre by lia. apply pre_S. exact H. Qed.

Lemma E_last k : (S k = length ps)%nat -> E r k = len (r_norm r).
Proof. intro H. rewrite E_pre by lia. rewrite Hnorm. apply pre_all. lia. Qed.

Lemma norm_split k : (k < length ps)%nat ->
  r_norm r = concat (firstn k ps) ++ nth k ps [] ++ concat (skipn (S k) ps).
Proof.
  intro H. rewrite Hnorm, (concat_split ps k), (skipn_nth_cons ps k H). reflexivity.
Qed.

(* get_part_view(k) = the piece without its separator *)
Lemma part_view_nth k : (k < length ps)%nat ->
  part_view r k = skipn (N.to_nat (kstart k)) (nth k ps []).
Proof.
  intro H. destruct k as [|k]; unfold part_view.
  - rewrite (norm_split 0 H), E_0 by exact H. cbn [firstn concat app kstart N.to_nat skipn].
    unfold substr. cbn [N.to_nat skipn]. rewrite to_nat_len. apply firstn_len_app.
  - rewrite (norm_split (S k) H). apply substr_part.
    + rewrite E_pre by lia. reflexivity.
    + rewrite E_pre, pre_S by exact H. reflexivity.
Qed.

Lemma is_empty_nth k : (k < length ps)%nat ->
  r_is_empty r k = (len (nth k ps []) <=? kstart k).
Proof.
  intro H. destruct k as [|k]; unfold r_is_empty.
  - rewrite E_0 by exact H. cbn [kstart]. destruct (len (nth 0 ps [])); reflexivity.
  - rewrite E_S by exact H.
    destruct (N.leb_spec (E r k + len (nth (S k) ps [])) (E r k + kstart (S k)));
    destruct (N.leb_spec (len (nth (S k) ps [])) (kstart (S k))); try reflexivity; lia.
Qed.

(* string_view{ data + part_end_[i-1], part_end_[j-1] - part_end_[i-1] } *)
Lemma substr_range i j : (i <= j)%nat ->
  substr (r_norm r) (pre i ps) (pre j ps - pre i ps) = concat (firstn (j - i) (skipn i ps)).
Proof.
  intro H. rewrite Hnorm, (concat_split ps i).
  rewrite <- (N.add_0_r (pre i ps)). unfold pre at 1. rewrite substr_app. cbn [N.to_nat skipn].
  assert (Hj : firstn j ps = firstn i ps ++ firstn (j - i) (skipn i ps)).
  { replace j with (i + (j - i))%nat at 1 by lia. apply firstn_plus. }
  unfold pre. rewrite Hj, concat_app, len_app.
  replace (len (concat (firstn i ps)) + len (concat (firstn (j - i) (skipn i ps))) - (len (concat (firstn i ps)) + 0))
    with (len (concat (firstn (j - i) (skipn i ps)))) by lia.
  rewrite to_nat_len.
  rewrite <- (firstn_skipn (j - i) (skipn i ps)) at 2. rewrite concat_app. apply firstn_len_app.
Qed.

(* the code unit at offset pre i + d *)
Lemma at_pre i d c :
  nthN (concat (skipn i ps)) (N.to_nat d) = Some c -> at_ r (pre i ps + d) c.
Proof.
  unfold at_. intro H. rewrite Hnorm, (concat_split ps i). unfold pre.
  rewrite N2Nat.inj_add, to_nat_len, nthN_len_app. exact H.
Qed.

Lemma at_pre_inv i d c :
  at_ r (pre i ps + d) c -> nthN (concat (skipn i ps)) (N.to_nat d) = Some c.
Proof.
  unfold at_. rewrite Hnorm, (concat_split ps i). unfold pre.
  rewrite N2Nat.inj_add, to_nat_len, nthN_len_app. exact (fun H => H).
Qed.

Lemma ends_mono k : E r k <= E r (S k) \/ (length ps <= S k)%nat.
Proof.
  destruct (Nat.lt_ge_cases (S k) (length ps)) as [H|H]; [left|right; exact H].
  rewrite E_S by exact H. lia.
Qed.

End Generic.

(* ---------------------------------------------------------------------------------- *)
(* repr_of: string, offsets, flags                                                    *)
(* ---------------------------------------------------------------------------------- *)

Lemma serialize_pieces u : serialize u false = concat (pieces u).
Proof.
  unfold serialize, pieces, path_prefix. cbn [concat].
  destruct (uhost u) as [h|]; cbn [is_some andb].
  - destruct (includes_credentials u); cbn [andb];
      [destruct (negb (str_eqb (password u) []))|];
      repeat rewrite <- app_assoc; cbn [app]; rewrite ?app_nil_r; reflexivity.
  - repeat rewrite <- app_assoc; cbn [app]; rewrite ?app_nil_r; reflexivity.
Qed.

Lemma Hn u : r_norm (repr_of u) = concat (pieces u).
Proof. exact (serialize_pieces u). Qed.
Lemma He u : r_ends (repr_of u) = scan_ends 0 (pieces u).
Proof. reflexivity. Qed.
Lemma Hl u : length (pieces u) = 11%nat.
Proof. reflexivity. Qed.

Lemma lt11 u k : (k < 11)%nat -> (k < length (pieces u))%nat.
Proof. rewrite Hl. exact (fun H => H). Qed.

Definition Epre u k (H : (k < 11)%nat) := E_pre (pieces u) (repr_of u) (He u) k (lt11 u k H).
Definition pview u k (H : (k < 11)%nat) := part_view_nth (pieces u) (repr_of u) (Hn u) (He u) k (lt11 u k H).
Definition pempty u k (H : (k < 11)%nat) := is_empty_nth (pieces u) (repr_of u) (He u) k (lt11 u k H).
Definition prange u := substr_range (pieces u) (repr_of u) (Hn u).

Ltac lt11 := repeat constructor.

(* offsets, one after the other *)
Lemma E_chain u :
  let r := repr_of u in let p := fun k => len (nth k (pieces u) []) in
  E r 0 = p 0%nat /\ E r 1 = E r 0 + p 1%nat /\ E r 2 = E r 1 + p 2%nat /\ E r 3 = E r 2 + p 3%nat /\
  E r 4 = E r 3 + p 4%nat /\ E r 5 = E r 4 + p 5%nat /\ E r 6 = E r 5 + p 6%nat /\
  E r 7 = E r 6 + p 7%nat /\ E r 8 = E r 7 + p 8%nat /\ E r 9 = E r 8 + p 9%nat /\
  E r 10 = E r 9 + p 10%nat.
Proof.
  intros r p. split; [apply (E_0 (pieces u) r (He u)); rewrite Hl; lia|].
  repeat split; apply (E_S (pieces u) r (He u)); rewrite Hl; lia.
Qed.

(* ---------- flags ---------- *)
Ltac flag_cases u :=
  destruct u as [sc us pw ho po pa q f];
  unfold bit_, r_host_type, repr_of, flags_of, r_flags, has_opaque_path, uhost, port, query, fragment, path;
  destruct ho as [[d|a|p6|o|]|], po, q, f, pa; reflexivity.

Lemma bit5 u : bit_ (repr_of u) 5 = is_some (uhost u).  Proof. flag_cases u. Qed.
Lemma bit6 u : bit_ (repr_of u) 6 = is_some (uhost u) && is_some (port u).  Proof. flag_cases u. Qed.
Lemma bit9 u : bit_ (repr_of u) 9 = is_some (query u).  Proof. flag_cases u. Qed.
Lemma bit10 u : bit_ (repr_of u) 10 = is_some (fragment u).  Proof. flag_cases u. Qed.
Lemma bit11 u : bit_ (repr_of u) 11 = has_opaque_path u.  Proof. flag_cases u. Qed.
Lemma bits_fixed u :
  let r := repr_of u in
  bit_ r 0 = true /\ bit_ r 2 = true /\ bit_ r 3 = true /\ bit_ r 8 = true /\
  bit_ r 1 = false /\ bit_ r 4 = false /\ bit_ r 7 = false /\ bit_ r 12 = false.
Proof. cbv zeta. repeat split; flag_cases u. Qed.
Lemma flags_small u : r_flags (repr_of u) < 65536.
Proof.
  destruct u as [sc us pw ho po pa q f].
  unfold repr_of, flags_of, r_flags, has_opaque_path, uhost, port, query, fragment, path.
  destruct ho as [[d|a|p6|o|]|], po, q, f, pa; reflexivity.
Qed.
Lemma host_type_of u :
  r_host_type (repr_of u) = match uhost u with Some h => host_type_num h | None => 0 end.
Proof. flag_cases u. Qed.

Lemma is_null_bit r k : r_is_null r k = negb (bit_ r (N.of_nat k)).
Proof. reflexivity. Qed.

(* ---------------------------------------------------------------------------------- *)
(* the getters                                                                        *)
(* ---------------------------------------------------------------------------------- *)

(* the only clause of [Canon] the getters need: a null host has no credentials and no port *)
Definition bare_null_host (u : url) : Prop :=
  uhost u = None -> username u = [] /\ password u = [] /\ port u = None.

Lemma canon_bare u : Canon u -> bare_null_host u.
Proof.
  intros [[_ (_ & _ & Hc & _)] _] Hh. apply Hc. left. exact Hh.
Qed.

Lemma canon_scheme u : Canon u -> scheme u <> [].
Proof. intros [[_ (Hs & _)] _]. exact Hs. Qed.

Lemma piece_user u : bare_null_host u -> nth 2 (pieces u) [] = username u.
Proof.
  intro Hb. unfold pieces. cbn [nth]. destruct (uhost u) as [h|] eqn:Eh; cbn [is_some andb].
  - unfold includes_credentials. destruct (str_eqb (username u) []) eqn:Eu; cbn [negb orb].
    + apply str_eqb_nil_true in Eu. rewrite Eu. destruct (negb _); reflexivity.
    + reflexivity.
  - destruct (Hb Eh) as (-> & _). reflexivity.
Qed.

Lemma piece_pass u : bare_null_host u -> skipn 1 (nth 3 (pieces u) []) = password u.
Proof.
  intro Hb. unfold pieces. cbn [nth]. destruct (uhost u) as [h|] eqn:Eh; cbn [is_some andb].
  - unfold includes_credentials. destruct (str_eqb (password u) []) eqn:Ep; cbn [negb orb].
    + apply str_eqb_nil_true in Ep. rewrite Ep, andb_false_r. reflexivity.
    + rewrite orb_true_r. reflexivity.
  - destruct (Hb Eh) as (_ & -> & _). reflexivity.
Qed.

Lemma piece_port u : bare_null_host u -> skipn 1 (nth 6 (pieces u) []) = get_port u.
Proof.
  intro Hb. unfold pieces, get_port. cbn [nth]. destruct (uhost u) as [h|] eqn:Eh; cbn [is_some].
  - destruct (port u); reflexivity.
  - destruct (Hb Eh) as (_ & _ & ->). reflexivity.
Qed.

Lemma get_scheme u : part_view (repr_of u) P_SCHEME = scheme u.
Proof. unfold P_SCHEME. rewrite pview by lt11. reflexivity. Qed.

Lemma get_username_ok u : bare_null_host u -> r_username (repr_of u) = get_username u.
Proof. intro Hb. unfold r_username, P_USERNAME. rewrite pview by lt11. exact (piece_user u Hb). Qed.

Lemma get_password_ok u : bare_null_host u -> r_password (repr_of u) = get_password u.
Proof. intro Hb. unfold r_password, P_PASSWORD. rewrite pview by lt11. exact (piece_pass u Hb). Qed.

Lemma get_hostname_ok u : r_hostname (repr_of u) = get_hostname u.
Proof.
  unfold r_hostname, P_HOST, get_hostname. rewrite pview by lt11. unfold pieces. cbn [nth kstart N.to_nat skipn].
  destruct (uhost u); reflexivity.
Qed.

Lemma get_port_ok u : bare_null_host u -> r_port (repr_of u) = get_port u.
Proof. intro Hb. unfold r_port, P_PORT. rewrite pview by lt11. exact (piece_port u Hb). Qed.

Lemma get_pathname_ok u : r_pathname (repr_of u) = get_pathname u.
Proof. unfold r_pathname, P_PATH. rewrite pview by lt11. reflexivity. Qed.

(* the text of query and fragment, without the separator *)
Lemma get_query_text u :
  part_view (repr_of u) P_QUERY = match query u with Some q => q | None => [] end.
Proof. unfold P_QUERY. rewrite pview by lt11. unfold pieces. cbn [nth]. destruct (query u); reflexivity. Qed.

Lemma get_fragment_text u :
  part_view (repr_of u) P_FRAGMENT = match fragment u with Some q => q | None => [] end.
Proof. unfold P_FRAGMENT. rewrite pview by lt11. unfold pieces. cbn [nth]. destruct (fragment u); reflexivity. Qed.

Lemma get_protocol_ok u : scheme u <> [] -> r_protocol (repr_of u) = get_protocol u.
Proof.
  intro Hs. unfold r_protocol, get_protocol, P_SCHEME.
  destruct (E_chain u) as (H0 & _). cbv zeta in H0. unfold pieces in H0. cbn [nth] in H0. rewrite H0.
  destruct (N.eqb_spec (len (scheme u)) 0) as [Hz|Hz]; [exfalso; apply Hs, len_0, Hz|].
  rewrite Hn. unfold pieces. cbn [concat].
  unfold substr. cbn [N.to_nat skipn].
  replace (N.to_nat (len (scheme u) + 1)) with (length (scheme u ++ [58]))
    by (rewrite app_length; cbn [length]; unfold len; lia).
  cbn [app].
  match goal with |- firstn _ (scheme u ++ 58 :: ?x) = _ =>
    change (scheme u ++ 58 :: x) with (scheme u ++ [58] ++ x); rewrite (app_assoc (scheme u) [58] x) end.
  apply firstn_len_app.
Qed.

Lemma get_host_ok u : r_host (repr_of u) = get_host u.
Proof.
  unfold r_host, get_host, P_HOST, P_PORT, P_HOST_START. rewrite !is_null_bit.
  change (N.of_nat 5) with 5. change (N.of_nat 6) with 6. rewrite bit5, bit6.
  destruct (uhost u) as [h|] eqn:Eh; cbn [is_some negb andb]; [|reflexivity].
  rewrite !Epre by lt11.
  destruct (port u) as [p|] eqn:Ep; cbn [is_some negb].
  - rewrite (prange u 5%nat 7%nat) by lia. unfold pieces. rewrite Eh, Ep.
    cbn [Nat.sub skipn firstn concat is_some]. rewrite app_nil_r. reflexivity.
  - rewrite (prange u 5%nat 6%nat) by lia. unfold pieces. rewrite Eh.
    cbn [Nat.sub skipn firstn concat]. rewrite !app_nil_r. reflexivity.
Qed.

Lemma E_pos u k : (1 <= k < 11)%nat -> 1 <= E (repr_of u) k.
Proof.
  intros [H1 H2]. destruct (E_chain u) as (E0 & E1 & E2 & E3 & E4 & E5 & E6 & E7 & E8 & E9 & E10).
  cbv zeta in *. assert (H : 1 <= len (nth 1 (pieces u) [])).
  { unfold pieces. cbn [nth]. rewrite len_cons. lia. }
  do 11 (destruct k as [|k]; [lia|]). lia.
Qed.

Lemma get_path_ok u :
  r_path (repr_of u) = get_pathname u ++ match query u with Some q => 63 :: q | None => [] end.
Proof.
  unfold r_path, P_PATH_PREFIX, P_QUERY, P_PATH.
  pose proof (E_pos u 9 ltac:(lia)) as H9.
  destruct (N.eqb_spec (E (repr_of u) 9) 0) as [Hz|Hz]; [lia|]. clear Hz.
  destruct (N.eqb_spec (E (repr_of u) 9) 0) as [Hz|Hz]; [lia|].
  rewrite !Epre by lt11. rewrite (prange u 8%nat 10%nat) by lia. unfold pieces.
  cbn [Nat.sub skipn firstn concat]. rewrite app_nil_r. reflexivity.
Qed.

Lemma get_search_ok u : r_search (repr_of u) = get_search u.
Proof.
  unfold r_search, get_search, P_QUERY, P_PATH. rewrite pempty by lt11.
  rewrite !Epre by lt11. rewrite (prange u 9%nat 10%nat) by lia.
  unfold pieces. cbn [Nat.sub skipn firstn concat nth kstart]. rewrite app_nil_r.
  destruct (query u) as [[|c q]|]; reflexivity || (rewrite !len_cons; destruct (N.leb_spec (1 + (1 + len q)) 1); [lia|reflexivity]).
Qed.

Lemma get_hash_ok u : r_hash (repr_of u) = get_hash u.
Proof.
  unfold r_hash, get_hash, P_QUERY, P_FRAGMENT. rewrite pempty by lt11.
  rewrite !Epre by lt11. rewrite (prange u 10%nat 11%nat) by lia.
  unfold pieces. cbn [Nat.sub skipn firstn concat nth kstart]. rewrite app_nil_r.
  destruct (fragment u) as [[|c q]|]; reflexivity || (rewrite !len_cons; destruct (N.leb_spec (1 + (1 + len q)) 1); [lia|reflexivity]).
Qed.

Lemma serialize_true_pieces u : serialize u true = concat (firstn 10 (pieces u)).
Proof.
  unfold serialize, pieces, path_prefix. cbn [firstn concat].
  destruct (uhost u) as [h|]; cbn [is_some andb].
  - destruct (includes_credentials u); cbn [andb];
      [destruct (negb (str_eqb (password u) []))|];
      repeat rewrite <- app_assoc; cbn [app]; rewrite ?app_nil_r; reflexivity.
  - repeat rewrite <- app_assoc; cbn [app]; rewrite ?app_nil_r; reflexivity.
Qed.

Lemma get_serialize_ok u b : r_serialize (repr_of u) b = serialize u b.
Proof.
  unfold r_serialize, P_FRAGMENT, P_QUERY. destruct b; cbn [andb]; [|reflexivity].
  pose proof (E_pos u 10 ltac:(lia)) as H10.
  destruct (N.eqb_spec (E (repr_of u) 10) 0) as [Hz|Hz]; [lia|]. cbn [negb].
  rewrite Epre by lt11. rewrite <- (N.sub_0_r (pre 10 (pieces u))). rewrite <- (pre_0 (pieces u)) at 2.
  replace 0 with (pre 0 (pieces u)) at 1 by reflexivity.
  rewrite (prange u 0%nat 10%nat) by lia. cbn [Nat.sub skipn]. symmetry. apply serialize_true_pieces.
Qed.

Lemma includes_credentials_false u :
  includes_credentials u = false -> username u = [] /\ password u = [].
Proof.
  unfold includes_credentials. intro H. apply orb_false_elim in H. destruct H as [H1 H2].
  apply negb_false_iff in H1, H2. split; apply str_eqb_nil_true; assumption.
Qed.

Lemma has_credentials_ok u : bare_null_host u ->
  r_has_credentials (repr_of u) = includes_credentials u.
Proof.
  intro Hb. unfold r_has_credentials, P_USERNAME, P_PASSWORD. rewrite !pempty by lt11.
  cbn [kstart]. change (nth 2 (pieces u) []) with (nth 2 (pieces u) []).
  destruct (uhost u) as [h|] eqn:Eh.
  - unfold pieces. rewrite Eh. cbn [nth is_some andb]. unfold includes_credentials.
    destruct (username u) as [|c us]; destruct (password u) as [|c' pw];
      cbn [str_eqb negb orb andb]; rewrite ?len_cons, ?len_nil;
      repeat match goal with |- context [?a <=? ?b] => destruct (N.leb_spec a b); try lia end; reflexivity.
  - destruct (Hb Eh) as (Hu & Hp & _). unfold pieces, includes_credentials. rewrite Eh, Hu, Hp. reflexivity.
Qed.

Lemma null_host_ok u : r_is_null (repr_of u) P_HOST = is_none (uhost u).
Proof. rewrite is_null_bit. change (N.of_nat P_HOST) with 5. rewrite bit5. destruct (uhost u); reflexivity. Qed.
Lemma null_port_ok u : bare_null_host u -> r_is_null (repr_of u) P_PORT = is_none (port u).
Proof.
  intro Hb. rewrite is_null_bit. change (N.of_nat P_PORT) with 6. rewrite bit6.
  destruct (uhost u) eqn:Eh; [destruct (port u); reflexivity|].
  destruct (Hb Eh) as (_ & _ & ->). reflexivity.
Qed.
Lemma null_query_ok u : r_is_null (repr_of u) P_QUERY = is_none (query u).
Proof. rewrite is_null_bit. change (N.of_nat P_QUERY) with 9. rewrite bit9. destruct (query u); reflexivity. Qed.
Lemma null_fragment_ok u : r_is_null (repr_of u) P_FRAGMENT = is_none (fragment u).
Proof. rewrite is_null_bit. change (N.of_nat P_FRAGMENT) with 10. rewrite bit10. destruct (fragment u); reflexivity. Qed.

(* url::is_empty of a part = the reported text is empty *)
Lemma empty_part_ok u k : (k < 11)%nat ->
  r_is_empty (repr_of u) k = match part_view (repr_of u) k with [] => true | _ => false end.
Proof.
  intro H. rewrite pempty, pview by exact H.
  assert (Hk : kstart k = 0 \/ kstart k = 1).
  { do 11 (destruct k as [|k]; [cbn; lia|]). lia. }
  destruct (nth k (pieces u) []) as [|c [|c' s]]; destruct Hk as [-> | ->];
    cbn [N.to_nat]; change (Pos.to_nat 1) with 1%nat; cbn [skipn]; rewrite ?len_cons, ?len_nil;
    repeat match goal with |- context [?a <=? ?b] => destruct (N.leb_spec a b); try lia end; reflexivity.
Qed.

(* ---------------------------------------------------------------------------------- *)
(* the representation invariant                                                       *)
(* ---------------------------------------------------------------------------------- *)

Lemma dec_str_nonempty n : dec_str n <> [].
Proof. exact (proj1 (proj2 (Upa.Proofs.Ipv4Proofs.dec_str_canonical n))). Qed.

Lemma host_serialize_empty h : host_okh h -> (host_serialize h = [] <-> h = HEmpty).
Proof.
  intro Hh. split; [|intros ->; reflexivity].
  destruct h as [d|a|p|o|]; cbn [host_serialize host_okh] in *; intro H0.
  - destruct Hh as [Hne _]. congruence.
  - exfalso. unfold ipv4_serialize in H0. apply app_eq_nil in H0. destruct H0 as [_ H0]. discriminate.
  - discriminate.
  - destruct Hh as [Hne _]. congruence.
  - reflexivity.
Qed.

Lemma count_c_app c a b : count_c c (a ++ b) = count_c c a + count_c c b.
Proof. induction a as [|x a IH]; [reflexivity|]. cbn [app count_c]. rewrite IH. lia. Qed.

Lemma count_c_none c s : Forall (fun x => x <> c) s -> count_c c s = 0.
Proof.
  induction 1 as [|x s Hx _ IH]; [reflexivity|]. cbn [count_c]. rewrite IH.
  destruct (N.eqb_spec x c); [congruence|reflexivity].
Qed.

Definition no_slash (l : list str) : Prop := Forall (Forall (fun c => c <> 47)) l.

Lemma count_slashes l : no_slash l ->
  count_c 47 (flat_map (fun seg => 47 :: seg) l) = N.of_nat (length l).
Proof.
  induction 1 as [|s l Hs _ IH]; [reflexivity|]. cbn [flat_map length].
  change ((47 :: s) ++ ?x) with (47 :: s ++ x). cbn [count_c]. rewrite count_c_app, IH, (count_c_none 47 s Hs).
  change (47 =? 47) with true. cbv iota. lia.
Qed.

Lemma path_safe_no_slash sc l : path_safef sc (PList l) -> no_slash l.
Proof.
  cbn [path_safef]. intro H. unfold no_slash. eapply Forall_impl; [|exact H]. intros s Hs.
  eapply Forall_impl; [|exact Hs]. intros c (_ & Hc & _). exact Hc.
Qed.

Lemma at_E u k (d : nat) c : (S k < 11)%nat ->
  nthN (concat (skipn (S k) (pieces u))) d = Some c ->
  at_ (repr_of u) (E (repr_of u) k + N.of_nat d) c.
Proof.
  intros H Hc. rewrite Epre by lia. apply (at_pre (pieces u) (repr_of u) (Hn u)).
  rewrite Nat2N.id. exact Hc.
Qed.

Lemma at_E_inv u k (d : nat) c : (S k < 11)%nat ->
  at_ (repr_of u) (E (repr_of u) k + N.of_nat d) c ->
  nthN (concat (skipn (S k) (pieces u))) d = Some c.
Proof.
  intros H Hc. rewrite Epre in Hc by lia. apply (at_pre_inv (pieces u) (repr_of u) (Hn u)) in Hc.
  rewrite Nat2N.id in Hc. exact Hc.
Qed.

Lemma at_E0 u k c : (S k < 11)%nat ->
  nthN (concat (skipn (S k) (pieces u))) 0 = Some c -> at_ (repr_of u) (E (repr_of u) k) c.
Proof. intros H Hc. rewrite <- (N.add_0_r (E _ k)). exact (at_E u k 0 c H Hc). Qed.

Ltac parts := unfold P_SCHEME, P_SCHEME_SEP, P_USERNAME, P_PASSWORD, P_HOST_START, P_HOST, P_PORT,
  P_PATH_PREFIX, P_PATH, P_QUERY, P_FRAGMENT in *.

(* open the record; name the 11 step equations between consecutive offsets *)
Ltac start u :=
  destruct u as [sc us pw ho po pa q f]; parts;
  let E0 := fresh "E0" in let E1 := fresh "E1" in let E2 := fresh "E2" in let E3 := fresh "E3" in
  let E4 := fresh "E4" in let E5 := fresh "E5" in let E6 := fresh "E6" in let E7 := fresh "E7" in
  let E8 := fresh "E8" in let E9 := fresh "E9" in let E10 := fresh "E10" in
  destruct (E_chain (mkurl sc us pw ho po pa q f)) as (E0 & E1 & E2 & E3 & E4 & E5 & E6 & E7 & E8 & E9 & E10);
  cbv zeta in E0, E1, E2, E3, E4, E5, E6, E7, E8, E9, E10;
  unfold pieces in E0, E1, E2, E3, E4, E5, E6, E7, E8, E9, E10;
  cbn [nth uhost scheme username password port path query fragment] in *.

Ltac at_goal :=
  first [ apply at_E0; [lia|] | apply (at_E _ _ 1%nat); [lia|] | apply (at_E _ _ 2%nat); [lia|] ];
  unfold pieces, path_prefix, path_serialize, includes_credentials;
  cbn [skipn concat uhost scheme username password port path query fragment is_some andb orb negb str_eqb app nthN flat_map];
  try reflexivity.

Section Inv.
Variable u : url.
Hypothesis Hs : scheme u <> [].
Hypothesis Hc : cred_ok u.
Hypothesis Hh : host_ok u.
Hypothesis Hp : path_safe u.
Hypothesis Ho : opaque_ok u.
Let r := repr_of u.

Lemma inv_len : length (r_ends r) = 11%nat.
Proof. unfold r. rewrite He, scan_ends_length. reflexivity. Qed.

Lemma inv_mono k : (k < 10)%nat -> E r k <= E r (S k).
Proof.
  intro H. destruct (ends_mono (pieces u) r (He u) k) as [H'|H']; [exact H'|]. rewrite Hl in H'. lia.
Qed.

Lemma inv_last : E r P_FRAGMENT = len (r_norm r).
Proof. apply (E_last (pieces u) r (Hn u) (He u)). reflexivity. Qed.

Lemma inv_scheme : 0 < E r P_SCHEME.
Proof.
  subst r. clear Hc Hh Hp Ho. start u. rewrite E0. destruct sc; [congruence|]. rewrite len_cons. lia.
Qed.

Lemma inv_colon : at_ r (E r P_SCHEME) 58.
Proof. subst r. parts. at_goal. Qed.


Lemma inv_auth :
  if bit_ r 5
  then E r P_SCHEME_SEP = E r P_SCHEME + 3 /\ at_ r (E r P_SCHEME + 1) 47 /\ at_ r (E r P_SCHEME + 2) 47
  else E r P_SCHEME_SEP = E r P_SCHEME + 1 /\ E r P_PORT = E r P_SCHEME_SEP /\
       bit_ r 6 = false /\ r_host_type r = 0.
Proof.
  subst r. rewrite bit5, bit6, host_type_of. clear Hs Hc Hh Hp Ho. start u.
  destruct ho as [h|]; cbn [is_some andb] in *.
  - split; [rewrite E1; reflexivity|]. split; at_goal.
  - rewrite len_nil in *. change (len [58]) with 1 in E1. repeat split; lia.
Qed.

Lemma inv_pass :
  E r P_PASSWORD = E r P_USERNAME \/
  (E r P_USERNAME + 1 < E r P_PASSWORD /\ at_ r (E r P_USERNAME) 58).
Proof.
  subst r. clear Hs Hc Hh Hp Ho. start u.
  destruct (is_some ho && includes_credentials (mkurl sc us pw ho po pa q f) && negb (str_eqb pw [])) eqn:Ec.
  - right. apply andb_prop in Ec. destruct Ec as [Ec Epw]. apply andb_prop in Ec. destruct Ec as [Eh Ec].
    destruct pw as [|c pw]; [discriminate|]. destruct ho as [h|]; [|discriminate].
    split; [rewrite E3, !len_cons; lia|]. at_goal.
    destruct (negb (str_eqb us []) || true) eqn:Ex; [|rewrite orb_true_r in Ex; discriminate].
    cbn [andb app nthN]. reflexivity.
  - left. rewrite E3, len_nil. lia.
Qed.


Lemma inv_at :
  if E r P_SCHEME_SEP <? E r P_PASSWORD
  then E r P_HOST_START = E r P_PASSWORD + 1 /\ at_ r (E r P_PASSWORD) 64
  else E r P_HOST_START = E r P_PASSWORD.
Proof.
  subst r. clear Hs Hc Hh Hp Ho. start u.
  destruct ho as [h|]; cbn [is_some andb] in *;
    [destruct (includes_credentials (mkurl sc us pw (Some h) po pa q f)) eqn:Ec; cbn [andb] in *|].
  - assert (Hlt : E (repr_of (mkurl sc us pw (Some h) po pa q f)) 1 < E (repr_of (mkurl sc us pw (Some h) po pa q f)) 3).
    { unfold includes_credentials in Ec. cbn [username password] in Ec.
      destruct us as [|c us]; destruct pw as [|c' pw]; cbn [str_eqb negb orb] in *; try discriminate Ec;
        rewrite ?len_cons, ?len_nil in *; lia. }
    apply N.ltb_lt in Hlt. rewrite Hlt.
    split; [rewrite E4; reflexivity|]. at_goal.
    unfold includes_credentials in Ec. cbn [username password] in Ec. rewrite Ec. reflexivity.
  - rewrite len_nil in *.
    match goal with |- if ?a <? ?b then _ else _ => destruct (N.ltb_spec a b) as [Hlt|Hlt]; lia end.
  - rewrite len_nil in *.
    match goal with |- if ?a <? ?b then _ else _ => destruct (N.ltb_spec a b) as [Hlt|Hlt]; lia end.
Qed.

Lemma inv_htype :
  r_host_type r <= 4 /\
  (bit_ r 5 = true -> (r_host_type r = 0 <-> E r P_HOST = E r P_HOST_START)).
Proof.
  subst r. rewrite bit5, host_type_of. clear Hs Hc Hp Ho. unfold host_ok in Hh. start u.
  destruct ho as [h|]; cbn [is_some host_okf] in *.
  - split; [destruct h; cbn [host_type_num]; lia|]. intros _.
    pose proof (host_serialize_empty h Hh) as Hx.
    split.
    + intro Ht. assert (h = HEmpty) as -> by (destruct h; cbn [host_type_num] in Ht; try lia; reflexivity).
      rewrite E5. cbn [host_serialize]. rewrite len_nil. lia.
    + intro He'. assert (Hz : host_serialize h = []) by (apply len_0; lia).
      apply Hx in Hz. rewrite Hz. reflexivity.
  - split; [lia|]. discriminate.
Qed.

Lemma inv_empty_host :
  E r P_HOST = E r P_HOST_START -> E r P_HOST_START = E r P_SCHEME_SEP /\ E r P_PORT = E r P_HOST.
Proof.
  subst r. clear Hs Hp Ho. unfold host_ok in Hh. unfold cred_ok, cred_okf in Hc. start u. intro He'.
  destruct ho as [h|]; cbn [is_some andb host_okf] in *.
  - assert (Hz : host_serialize h = []) by (apply len_0; lia).
    apply (host_serialize_empty h Hh) in Hz. subst h.
    destruct Hc as (-> & -> & ->); [right; left; reflexivity|].
    unfold includes_credentials in *. cbn [username password str_eqb negb orb andb] in *.
    rewrite ?len_nil in *. lia.
  - rewrite ?len_nil in *. lia.
Qed.

Lemma inv_port :
  if bit_ r 6 then E r P_HOST + 1 < E r P_PORT /\ at_ r (E r P_HOST) 58
  else E r P_PORT = E r P_HOST.
Proof.
  subst r. rewrite bit6. clear Hs Hc Hh Hp Ho. start u.
  destruct ho as [h|]; cbn [is_some andb] in *; [destruct po as [p|]; cbn [is_some] in *|].
  - split; [|at_goal]. rewrite E6, len_cons. pose proof (dec_str_nonempty p) as Hd.
    destruct (dec_str p); [congruence|]. rewrite len_cons. lia.
  - rewrite E6, len_nil. lia.
  - rewrite E6, len_nil. lia.
Qed.

Lemma inv_query :
  if bit_ r 9 then E r P_PATH < E r P_QUERY /\ at_ r (E r P_PATH) 63 else E r P_QUERY = E r P_PATH.
Proof.
  subst r. rewrite bit9. clear Hs Hc Hh Hp Ho. start u. destruct q as [q|]; cbn [is_some].
  - split; [rewrite E9, len_cons; lia|at_goal].
  - rewrite E9, len_nil. lia.
Qed.

Lemma inv_frag :
  if bit_ r 10 then E r P_QUERY < E r P_FRAGMENT /\ at_ r (E r P_QUERY) 35 else E r P_FRAGMENT = E r P_QUERY.
Proof.
  subst r. rewrite bit10. clear Hs Hc Hh Hp Ho. start u. destruct f as [f|]; cbn [is_some].
  - split; [rewrite E10, len_cons; lia|at_goal].
  - rewrite E10, len_nil. lia.
Qed.

Lemma inv_fixed :
  bit_ r 0 = true /\ bit_ r 2 = true /\ bit_ r 3 = true /\ bit_ r 8 = true /\
  bit_ r 1 = false /\ bit_ r 4 = false /\ bit_ r 7 = false /\ bit_ r 12 = false /\
  r_flags r < 65536.
Proof.
  destruct (bits_fixed u) as (H0 & H2 & H3 & H8 & H1 & H4 & H7 & H12).
  repeat (split; [assumption|]). apply flags_small.
Qed.


Lemma inv_path :
  if bit_ r 11
  then r_segs r = 0 /\ bit_ r 5 = false
  else r_segs r = count_c 47 (part_view r P_PATH) /\
       (E r P_PATH_PREFIX < E r P_PATH -> at_ r (E r P_PATH_PREFIX) 47).
Proof.
  subst r. rewrite bit11, bit5. unfold P_PATH. rewrite pview by lt11.
  clear Hs Hc Hh. unfold path_safe in Hp. unfold opaque_ok, opaque_okf in Ho. start u.
  destruct pa as [o|l]; cbn [has_opaque_path path].
  - split; [reflexivity|]. rewrite (Ho o eq_refl). reflexivity.
  - split.
    + unfold pieces, path_serialize. cbn [nth kstart N.to_nat skipn path].
      symmetry. apply count_slashes. exact (path_safe_no_slash sc l Hp).
    + intro Hlt. destruct l as [|s l]; [unfold path_serialize in E8; cbn [path flat_map] in E8; rewrite len_nil in E8; lia|].
      at_goal.
Qed.

Lemma inv_prefix :
  (E r P_PATH_PREFIX = E r P_PORT \/
   (E r P_PATH_PREFIX = E r P_PORT + 2 /\ at_ r (E r P_PORT) 47 /\ at_ r (E r P_PORT + 1) 46)) /\
  (E r P_PORT < E r P_PATH_PREFIX <->
   (bit_ r 5 = false /\ bit_ r 11 = false /\ E r P_PATH_PREFIX + 2 <= E r P_PATH /\
    at_ r (E r P_PATH_PREFIX) 47 /\ at_ r (E r P_PATH_PREFIX + 1) 47)).
Proof.
  subst r. rewrite bit11, bit5. clear Hs Hc Hh Ho. unfold path_safe in Hp. start u.
  unfold path_prefix, path_serialize in E7, E8. cbn [uhost path] in E7, E8.
  destruct ho as [h|]; cbn [is_some].
  { rewrite len_nil in E7. split; [left; lia|]. split; [lia|]. intros (Hx & _). discriminate. }
  destruct pa as [o|l]; cbn [has_opaque_path path].
  { rewrite len_nil in E7. split; [left; lia|]. split; [lia|]. intros (_ & Hx & _). discriminate. }
  pose proof (path_safe_no_slash sc l Hp) as Hns. clear Hp.
  destruct l as [|p0 [|p1 l]]; cbn [flat_map app] in E8.
  - rewrite len_nil in E7, E8. split; [left; lia|]. split; [lia|]. intros (_ & _ & Hx & _). lia.
  - rewrite len_nil in E7. split; [left; lia|]. split; [lia|]. intros (_ & _ & Hx & _ & Ha).
    apply (at_E_inv _ 7 1) in Ha; [|lia]. exfalso. revert Ha.
    unfold pieces, path_serialize. cbn [skipn concat path flat_map app nthN].
    cbn [flat_map app] in E8. rewrite app_nil_r, len_cons in E8.
    destruct p0 as [|c p0]; [rewrite len_nil in E8; lia|]. cbn [app nthN]. intro Ha. injection Ha as ->.
    inversion Hns as [|? ? H0 _]. inversion H0. congruence.
  - destruct p0 as [|c p0]; cbn [str_eqb] in E7.
    + change (len [47; 46]) with 2 in E7. split; [right; split; [lia|split; at_goal]|].
      split; [intros _|lia]. split; [reflexivity|]. split; [reflexivity|].
      split; [|split; at_goal].
      cbn [flat_map app] in E8. rewrite !len_cons in E8. lia.
    + rewrite len_nil in E7. split; [left; lia|]. split; [lia|]. intros (_ & _ & _ & _ & Ha).
      apply (at_E_inv _ 7 1) in Ha; [|lia]. exfalso. revert Ha.
      unfold pieces, path_serialize. cbn [skipn concat path flat_map app nthN]. intro Ha. injection Ha as ->.
      inversion Hns as [|? ? H0 _]. inversion H0. congruence.
Qed.

End Inv.

Lemma canon_parts u : Canon u ->
  scheme u <> [] /\ cred_ok u /\ host_ok u /\ path_safe u /\ opaque_ok u.
Proof.
  intros [[(_ & _ & _ & _ & Hh & _ & _ & Hp) (Hs & _ & Hc & Ho)] _].
  exact (conj Hs (conj Hc (conj Hh (conj Hp Ho)))).
Qed.

Lemma rinv_parts u :
  scheme u <> [] -> cred_ok u -> host_ok u -> path_safe u -> opaque_ok u -> RInv (repr_of u).
Proof.
  intros Hs Hc Hh Hp Ho. constructor.
  - apply inv_len.
  - apply inv_mono.
  - apply inv_last.
  - apply inv_scheme; assumption.
  - apply inv_colon.
  - apply inv_auth.
  - apply inv_pass.
  - apply inv_at.
  - apply inv_htype; assumption.
  - apply inv_empty_host; assumption.
  - apply inv_port.
  - apply inv_prefix; assumption.
  - apply inv_path; assumption.
  - apply inv_query.
  - apply inv_frag.
  - apply inv_fixed.
Qed.

Theorem repr_inv u : Canon u -> RInv (repr_of u).
Proof. intro H. destruct (canon_parts u H) as (Hs & Hc & Hh & Hp & Ho). apply rinv_parts; assumption. Qed.

(* ---------------------------------------------------------------------------------- *)
(* the representation determines the record                                           *)
(* ---------------------------------------------------------------------------------- *)

Lemma dec_str_inj a b : dec_str a = dec_str b -> a = b.
Proof.
  intro H.
  rewrite <- (proj2 (proj2 (proj2 (Upa.Proofs.Ipv4Proofs.dec_str_canonical a)))).
  rewrite <- (proj2 (proj2 (proj2 (Upa.Proofs.Ipv4Proofs.dec_str_canonical b)))).
  rewrite H. reflexivity.
Qed.

Lemma ipv4_serialize_inj a b : a < 4294967296 -> b < 4294967296 ->
  Spec.Ip.ipv4_serialize a = Spec.Ip.ipv4_serialize b -> a = b.
Proof.
  intros Ha Hb H. change 4294967296 with (2 ^ 32) in Ha, Hb.
  pose proof (Properties_C11.C11_roundtrip a Ha) as Ra.
  pose proof (Properties_C11.C11_roundtrip b Hb) as Rb.
  rewrite (Properties_C11.C11_serialize a Ha) in Ra. rewrite (Properties_C11.C11_serialize b Hb) in Rb.
  rewrite H in Ra. rewrite Ra in Rb. injection Rb as ->. reflexivity.
Qed.

Lemma ipv6_serialize_inj a b :
  length a = 8%nat -> Forall (fun p => p < 65536) a -> length b = 8%nat -> Forall (fun p => p < 65536) b ->
  Spec.Ip.ipv6_serialize a = Spec.Ip.ipv6_serialize b -> a = b.
Proof.
  intros La Fa Lb Fb H.
  pose proof (Properties_C12.C12_roundtrip_spec a La Fa) as Ra.
  pose proof (Properties_C12.C12_roundtrip_spec b Lb Fb) as Rb.
  rewrite H in Ra. rewrite Ra in Rb. injection Rb as ->. reflexivity.
Qed.

Lemma host_serialize_inj h h' : host_okh h -> host_okh h' ->
  host_type_num h = host_type_num h' -> host_serialize h = host_serialize h' -> h = h'.
Proof.
  intros Hh Hh' Ht Hs.
  destruct h, h'; cbn [host_type_num] in Ht; try discriminate Ht; cbn [host_serialize host_okh] in *.
  - congruence.
  - f_equal. apply ipv4_serialize_inj; assumption.
  - f_equal. apply app_inv_head in Hs. apply app_inv_tail in Hs.
    destruct Hh, Hh'. apply ipv6_serialize_inj; assumption.
  - congruence.
  - reflexivity.
Qed.

(* a segment ends at the next "/" *)
Lemma seg_split (x x' r r' : str) :
  Forall (fun c => c <> 47) x -> Forall (fun c => c <> 47) x' ->
  (r = [] \/ exists t, r = 47 :: t) -> (r' = [] \/ exists t, r' = 47 :: t) ->
  x ++ r = x' ++ r' -> x = x' /\ r = r'.
Proof.
  intros Hx. revert x'. induction Hx as [|c x Hc _ IH]; intros x' Hx' Hr Hr' H.
  - destruct Hx' as [|c' x' Hc' _]; [split; [reflexivity|exact H]|].
    exfalso. cbn [app] in H. destruct Hr as [->|[t ->]]; [discriminate|]. injection H as H _. congruence.
  - destruct Hx' as [|c' x' Hc' Hx'].
    + exfalso. cbn [app] in H. destruct Hr' as [->|[t ->]]; [discriminate|]. injection H as H _. congruence.
    + cbn [app] in H. injection H as -> H. destruct (IH x' Hx' Hr Hr' H) as [-> ->]. split; reflexivity.
Qed.

Lemma path_list_inj l : forall l', no_slash l -> no_slash l' ->
  flat_map (fun seg => 47 :: seg) l = flat_map (fun seg => 47 :: seg) l' -> l = l'.
Proof.
  induction l as [|s l IH]; intros [|s' l'] Hl Hl' H; cbn [flat_map] in H; try discriminate; [reflexivity|].
  cbn [app] in H. injection H as H.
  inversion Hl as [|? ? Hs Hl0]. inversion Hl' as [|? ? Hs' Hl0']. subst.
  assert (Hshape : forall m : list str, flat_map (fun seg => 47 :: seg) m = [] \/
                          exists t, flat_map (fun seg => 47 :: seg) m = 47 :: t).
  { intros [|y m]; [left; reflexivity|right]. cbn [flat_map app]. eexists. reflexivity. }
  destruct (seg_split s s' _ _ Hs Hs' (Hshape l) (Hshape l') H) as [-> H'].
  f_equal. apply IH; assumption.
Qed.

Theorem repr_injective u v : Canon u -> Canon v -> repr_of u = repr_of v -> u = v.
Proof.
  intros Cu Cv Heq.
  destruct (canon_parts u Cu) as (_ & _ & Hhu & Hpu & _).
  destruct (canon_parts v Cv) as (_ & _ & Hhv & Hpv & _).
  pose proof (canon_bare u Cu) as Bu. pose proof (canon_bare v Cv) as Bv.
  assert (Esc : scheme u = scheme v) by (rewrite <- (get_scheme u), Heq; apply get_scheme).
  assert (Eus : username u = username v).
  { pose proof (get_username_ok u Bu) as H. rewrite Heq, (get_username_ok v Bv) in H. symmetry. exact H. }
  assert (Epw : password u = password v).
  { pose proof (get_password_ok u Bu) as H. rewrite Heq, (get_password_ok v Bv) in H. symmetry. exact H. }
  assert (Eho : uhost u = uhost v).
  { pose proof (null_host_ok u) as Hn'. rewrite Heq, null_host_ok in Hn'.
    pose proof (host_type_of u) as Ht. rewrite Heq, host_type_of in Ht.
    pose proof (get_hostname_ok u) as Hx. rewrite Heq, get_hostname_ok in Hx. unfold get_hostname in Hx.
    unfold host_ok in Hhu, Hhv.
    destruct (uhost u) as [h|], (uhost v) as [h'|]; cbn [is_none host_okf] in *; try discriminate; [|reflexivity].
    f_equal. symmetry. apply host_serialize_inj; assumption. }
  assert (Epo : port u = port v).
  { pose proof (get_port_ok u Bu) as H. rewrite Heq, (get_port_ok v Bv) in H. unfold get_port in H.
    destruct (port u) as [p|], (port v) as [p'|]; try reflexivity.
    - apply dec_str_inj in H. congruence.
    - exfalso. symmetry in H. exact (dec_str_nonempty p H).
    - exfalso. exact (dec_str_nonempty p' H). }
  assert (Epa : path u = path v).
  { pose proof (bit11 u) as Hb. rewrite Heq, bit11 in Hb.
    pose proof (get_pathname_ok u) as H. rewrite Heq, get_pathname_ok in H.
    unfold get_pathname, path_serialize in H. unfold path_safe in Hpu, Hpv. unfold has_opaque_path in Hb.
    destruct (path u) as [o|l], (path v) as [o'|l']; try discriminate; [congruence|].
    f_equal. symmetry. apply path_list_inj; [eapply path_safe_no_slash; eassumption..|exact H]. }
  assert (Eq : query u = query v).
  { pose proof (null_query_ok u) as Hn'. rewrite Heq, null_query_ok in Hn'.
    pose proof (get_query_text u) as H. rewrite Heq, get_query_text in H.
    destruct (query u), (query v); cbn [is_none] in *; try discriminate; congruence. }
  assert (Ef : fragment u = fragment v).
  { pose proof (null_fragment_ok u) as Hn'. rewrite Heq, null_fragment_ok in Hn'.
    pose proof (get_fragment_text u) as H. rewrite Heq, get_fragment_text in H.
    destruct (fragment u), (fragment v); cbn [is_none] in *; try discriminate; congruence. }
  destruct u as [a1 a2 a3 a4 a5 a6 a7 a8], v as [b1 b2 b3 b4 b5 b6 b7 b8].
  cbn [scheme username password uhost port path query fragment] in *. congruence.
Qed.

(* ---------------------------------------------------------------------------------- *)
(* all getters at once                                                                *)
(* ---------------------------------------------------------------------------------- *)

Definition getters_agree (u : url) : Prop :=
  let r := repr_of u in
  r_norm r = serialize u false /\
  (forall b, r_serialize r b = serialize u b) /\
  r_protocol r = get_protocol u /\
  r_username r = get_username u /\
  r_password r = get_password u /\
  r_host r = get_host u /\
  r_hostname r = get_hostname u /\
  r_port r = get_port u /\
  r_pathname r = get_pathname u /\
  r_search r = get_search u /\
  r_hash r = get_hash u /\
  r_path r = get_pathname u ++ match query u with Some q => 63 :: q | None => [] end /\
  r_has_credentials r = includes_credentials u /\
  (* null / empty status *)
  r_is_null r P_HOST = is_none (uhost u) /\
  r_is_null r P_PORT = is_none (port u) /\
  r_is_null r P_QUERY = is_none (query u) /\
  r_is_null r P_FRAGMENT = is_none (fragment u) /\
  (forall k, (k < 11)%nat -> r_is_empty r k = match part_view r k with [] => true | _ => false end) /\
  (* get_part_view of scheme, query, fragment: the text without separator *)
  part_view r P_SCHEME = scheme u /\
  part_view r P_QUERY = match query u with Some q => q | None => [] end /\
  part_view r P_FRAGMENT = match fragment u with Some f => f | None => [] end /\
  (* path kind, host type, segment counter *)
  r_has_opaque_path r = has_opaque_path u /\
  r_host_type r = match uhost u with Some h => host_type_num h | None => 0 end /\
  r_segs r = match path u with PList l => N.of_nat (length l) | POpaque _ => 0 end.

Theorem repr_getters_weak u :
  scheme u <> [] ->
  (uhost u = None -> username u = [] /\ password u = [] /\ port u = None) ->
  getters_agree u.
Proof.
  intros Hs Hb. unfold getters_agree. cbv zeta.
  split; [reflexivity|]. split; [intro b; apply get_serialize_ok|].
  split; [apply get_protocol_ok; exact Hs|].
  split; [apply get_username_ok; exact Hb|]. split; [apply get_password_ok; exact Hb|].
  split; [apply get_host_ok|]. split; [apply get_hostname_ok|].
  split; [apply get_port_ok; exact Hb|]. split; [apply get_pathname_ok|].
  split; [apply get_search_ok|]. split; [apply get_hash_ok|]. split; [apply get_path_ok|].
  split; [apply has_credentials_ok; exact Hb|].
  split; [apply null_host_ok|]. split; [apply null_port_ok; exact Hb|].
  split; [apply null_query_ok|]. split; [apply null_fragment_ok|].
  split; [intros k Hk; apply empty_part_ok; exact Hk|].
  split; [apply get_scheme|]. split; [apply get_query_text|]. split; [apply get_fragment_text|].
  split; [apply bit11|]. split; [apply host_type_of|]. reflexivity.
Qed.

Theorem repr_getters u : Canon u -> getters_agree u.
Proof. intro H. apply repr_getters_weak; [exact (canon_scheme u H)|exact (canon_bare u H)]. Qed.
