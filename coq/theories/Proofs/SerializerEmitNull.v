(* C01 / C05 - the write sequence of a parse for records with a NULL host and a non-empty list path (a:/p, a:/.//p):
   the first segment is written straight after the scheme's ':' (start_part(PATH) from SCHEME fills seven offsets at once),
   the loop continues as in Proofs/SerializerParse.v, commit_path inserts the "/." prefix when the path starts with "//". *)
From Upa Require Import Base.Prelude Spec.Ip Spec.Url Impl.Repr Impl.Serializer.
From Upa Require Import Proofs.ReprProofs Proofs.SerializerProofs Proofs.SerializerParse Proofs.SerializerEmit.
From Upa Require Impl.TraceProto.
From Coq Require Import ZifyBool ZifyN ZifyNat.
Local Open Scope N_scope.

(* a parse of "scheme:/seg..." (null host, list path): scheme, then the first segment straight after ':' *)
Definition null_first_ops (sc seg : str) : list sop :=
  [OStartScheme; OAppend sc; OSaveScheme; OStartPathSeg; OAppend seg; OSavePathSeg].
Definition null_pieces (sc p : str) : list str := [sc; [58]; []; []; []; []; []; []; p; []; []].

Theorem ser_null_first sc seg :
  let s1 := run false empty_sst (null_first_ops sc seg) in
  s_r s1 = conc (null_pieces sc (47 :: seg)) 9 269 1 /\ s_last s1 = P_PATH /\ s_file s1 = is_file_str sc.
Proof.
  cbv zeta. unfold null_first_ops, null_pieces.
  cbn [app run fold_left step];
    unfold v_start_scheme, v_save_scheme, v_start_path_segment, v_save_path_segment, v_start_part, v_save_part, do_append, empty_sst, init_sst, empty_repr;
    cbv beta iota zeta delta [w_r w_last w_strp w_pse w_use w_curr w_tgt w_file w_norm w_ends w_flags w_segs
      s_r s_file s_last s_use s_strp s_pse s_curr s_tgt r_norm r_ends r_flags r_segs
      ser_start_part ser_save_part set_e app_norm upd fill_range fill_from en E nth v_save_part v_start_part do_append
      P_SCHEME P_SCHEME_SEP P_USERNAME P_PASSWORD P_HOST_START P_HOST P_PORT P_PATH_PREFIX P_PATH P_QUERY P_FRAGMENT
      Nat.eqb Nat.leb Nat.ltb andb orb negb kstart part_view substr];
    cbn [negb app];
    (split; [|split; [reflexivity|]]).
  all: try (cbn [N.to_nat skipn firstn]; rewrite to_nat_len, firstn_all; reflexivity).
  all: unfold conc, ends_of; cbn [concat app scan_ends firstn repeat length Nat.sub]; f_equal.
  all: try (rewrite ?app_nil_r, <- ?app_assoc; cbn [app]; reflexivity).
  all: repeat rewrite len_app; repeat rewrite len_cons; rewrite ?len_nil; repeat (f_equal; try lia).
Qed.

Section FromJ.
Variable ps0 : list str.
Variable m : nat.
Variable f : N.
Hypothesis HPW0 : PW ps0 m.
Hypothesis Hm : (5 <= m <= 8)%nat.
Hypothesis Hop : N.testbit f 11 = false.
Hypothesis H7 : nth 7 ps0 [] = [].

(* the path part of a parse continued from a state in which segments have already been written *)
Lemma ser_pathname_raw_from l s file segs0 :
  J ps0 m f s segs0 -> segs0 <> [] -> Forall no47 segs0 -> s_file s = file -> pushed_ok l ->
  let segs := fold_left (pinterp file) l segs0 in
  let s' := run false s (flat_map cops l ++ [OCommitPath]) in
  s_file s' = file /\
  s_r s' = conc (setp (setp ps0 8 (pstr segs)) 7 (new_prefix f segs)) 9 f (N.of_nat (length segs)) /\ s_last s' = P_PATH.
Proof.
  intros HJ Hne Hno Hf Hok. cbv zeta. rewrite run_app.
  destruct (ser_path_ops ps0 m f HPW0 Hm Hop l s segs0 HJ Hno Hok) as [HJ' Hfile]. cbv zeta in HJ', Hfile. rewrite Hf in HJ', Hfile.
  set (segs := fold_left (pinterp file) l segs0) in *.
  cbn [run fold_left step]. unfold v_commit_path. cbn [w_r s_r s_file s_last]. split; [exact Hfile|].
  (* once a segment has been written the state stays in the "PATH written" form *)
  assert (Hform : s_r (run false s (flat_map cops l)) = conc (setp ps0 8 (pstr segs)) 9 f (N.of_nat (length segs)) /\
                  s_last (run false s (flat_map cops l)) = P_PATH).
  { destruct HJ' as [[Hs0 [Hr' Hl']]|Hr']; [|exact Hr'].
    (* first form: last written part is m-1 - but s itself had last = PATH and the loop never lowers it *)
    exfalso. clear - HJ Hne Hl' Hm HPW0 Hop Hno Hok.
    destruct HJ as [[He _]|[_ HlP]]; [contradiction|].
    (* s_last only changes through start_part(PATH), which sets it to PATH *)
    assert (Hkeep : forall l' s', s_last s' = P_PATH -> s_last (run false s' (flat_map cops l')) = P_PATH).
    { induction l' as [|o l' IH]; intros s' Hs'; [exact Hs'|]. cbn [flat_map]. rewrite run_app. apply IH.
      destruct o as [x| |]; cbn [cops run fold_left step].
      - destruct s' as [r0 fl la us st pse cu tg]. cbn [s_last] in Hs'. subst la.
        unfold v_save_path_segment, v_start_path_segment, v_start_part, v_save_part, do_append, ser_save_part, ser_start_part.
        cbn [s_last]. change (P_PATH =? P_PATH)%nat with true. cbn [andb s_last s_tgt w_tgt w_r]. reflexivity.
      - destruct s' as [r0 fl la us st pse cu tg]. cbn [s_last] in Hs'. subst la.
        unfold do_append_empty_path_segment, v_save_path_segment, v_start_path_segment, v_start_part, v_save_part, ser_save_part, ser_start_part.
        cbn [s_last]. change (P_PATH =? P_PATH)%nat with true. cbn [andb s_last s_tgt w_tgt w_r]. reflexivity.
      - unfold v_shorten_path, ser_shorten_path. destruct (get_shorten_path (s_r s') (s_file s')) as [[pe sc']|]; [|exact Hs'].
        destruct s' as [r0 fl la us st pse cu tg]. cbn [s_last w_r] in *. exact Hs'. }
    rewrite (Hkeep l s HlP) in Hl'. unfold P_PATH in Hl'. lia. }
  destruct Hform as [Hr' Hl']. rewrite Hr'. split; [|exact Hl'].
  pose proof HPW0 as [Hlen Hn Hsch Htail].
  assert (HP9 : PW (setp ps0 8 (pstr segs)) 9) by (apply (PW9 ps0 m f); assumption).
  assert (Hl9 : length (setp ps0 8 (pstr segs)) = 11%nat) by (destruct HP9; assumption).
  rewrite (adjust_conc (setp ps0 8 (pstr segs)) 9 f segs HP9 ltac:(lia)).
  - reflexivity.
  - rewrite nth_setp by lia. reflexivity.
  - left. rewrite nth_setp by lia. cbn [Nat.eqb]. exact H7.
Qed.
End FromJ.

Definition emit_null_ops (sc seg0 : str) (segs : list str) (q fr : option str) : list sop :=
  null_first_ops sc seg0 ++ (flat_map cops (map PPush segs) ++ [OCommitPath]) ++
  opt_ops P_QUERY 512 q ++ opt_ops P_FRAGMENT 1024 fr.

Lemma null_PW sc : sc <> [] -> PW (null_pieces sc []) 5.
Proof.
  intro Hs. unfold null_pieces. split; [reflexivity|lia|exact Hs|].
  intros k Hk. do 5 (destruct k as [|k]; [lia|]). do 6 (destruct k as [|k]; [reflexivity|]). destruct k; reflexivity.
Qed.

(* the whole write sequence of a parse for a record with a NULL host and a non-empty list path ("a:/p", "a:/.//p") *)
Theorem emit_null_repr sc seg0 segs q fr :
  sc <> [] -> Forall no47 (seg0 :: segs) ->
  let u := mkurl sc [] [] None None (PList (seg0 :: segs)) q fr in
  norm_tail (s_r (run false empty_sst (emit_null_ops sc seg0 segs q fr))) = repr_of u.
Proof.
  intros Hsc Hno. cbv zeta. unfold emit_null_ops.
  set (pops := flat_map cops (map PPush segs) ++ [OCommitPath]). rewrite !run_app. subst pops.
  destruct (ser_null_first sc seg0) as [Hr1 [Hl1 Hf1]]. cbv zeta in Hr1, Hl1, Hf1.
  set (s1 := run false empty_sst (null_first_ops sc seg0)) in *.
  set (ps0 := null_pieces sc []).
  pose proof (null_PW sc Hsc) as HPW0. fold ps0 in HPW0.
  assert (HJ1 : J ps0 5 269 s1 [seg0]).
  { right. split; [|exact Hl1]. rewrite Hr1. unfold pstr. cbn [map concat length N.of_nat Pos.of_succ_nat]. rewrite app_nil_r. reflexivity. }
  assert (Hno0 : Forall no47 [seg0]) by (inversion Hno; constructor; [assumption|constructor]).
  assert (Hnos : Forall no47 segs) by (inversion Hno; assumption).
  destruct (ser_pathname_raw_from ps0 5 269 HPW0 ltac:(lia) eq_refl eq_refl (map PPush segs) s1 (s_file s1) [seg0]
              HJ1 ltac:(discriminate) Hno0 eq_refl (pushed_ok_map segs Hnos)) as [_ [Hr2 Hl2]].
  cbv zeta in Hr2, Hl2. rewrite fold_push in Hr2. cbn [app] in Hr2.
  set (s2 := run false s1 (flat_map cops (map PPush segs) ++ [OCommitPath])) in *.
  set (sg := seg0 :: segs) in *.
  set (ps2 := setp (setp ps0 8 (pstr sg)) 7 (new_prefix 269 sg)) in *.
  set (c2 := N.of_nat (length sg)) in *.
  assert (HPW2 : PW ps2 9).
  { pose proof (setp_PW ps0 5 8 (pstr sg) HPW0 ltac:(lia)) as HP8. replace (Nat.max 5 9) with 9%nat in HP8 by lia.
    pose proof (setp_PW _ 9 7 (new_prefix 269 sg) HP8 ltac:(lia)) as HP7. replace (Nat.max 9 8) with 9%nat in HP7 by lia. exact HP7. }
  (* query *)
  destruct (opt_step s2 ps2 9 269 c2 P_QUERY 512 q (conj HPW2 (conj Hr2 Hl2)) ltac:(lia) ltac:(unfold P_QUERY; lia)) as [_ HD3].
  cbv zeta in HD3. set (s3 := run false s2 (opt_ops P_QUERY 512 q)) in *.
  set (ps3 := match q with Some t => setp ps2 9 (sepc 9 ++ t) | None => ps2 end).
  set (m3 := match q with Some _ => 10%nat | None => 9%nat end).
  set (f3 := match q with Some _ => N.lor 269 512 | None => 269 end).
  assert (HD3' : DS s3 ps3 m3 f3 c2) by (unfold ps3, m3, f3; destruct q; exact HD3).
  clear HD3. assert (Hm3 : (5 <= m3 <= 10)%nat) by (unfold m3; destruct q; lia).
  (* fragment *)
  destruct (opt_step s3 ps3 m3 f3 c2 P_FRAGMENT 1024 fr HD3' ltac:(lia) ltac:(unfold P_FRAGMENT; lia)) as [_ HD4].
  cbv zeta in HD4. set (s4 := run false s3 (opt_ops P_FRAGMENT 1024 fr)) in *.
  set (ps4 := match fr with Some t => setp ps3 10 (sepc 10 ++ t) | None => ps3 end).
  set (m4 := match fr with Some _ => 11%nat | None => m3 end).
  set (f4 := match fr with Some _ => N.lor f3 1024 | None => f3 end).
  assert (HD4' : DS s4 ps4 m4 f4 c2) by (unfold ps4, m4, f4; destruct fr; exact HD4).
  clear HD4. destruct HD4' as [HPW4 [Hr4 _]].
  rewrite Hr4, (norm_tail_conc ps4 m4 f4 c2 HPW4), repr_of_conc.
  set (u := mkurl sc [] [] None None (PList sg) q fr).
  assert (Hnls : no_lead_slash sg).
  { unfold sg. cbn [no_lead_slash]. destruct seg0 as [|a t]; [exact I|]. destruct (N.eqb_spec a 47) as [->|Hne].
    - inversion Hno as [|? ? H0 _]. inversion H0 as [|? ? Ha _]. exfalso. apply Ha. reflexivity.
    - destruct a as [|p]; [exact I|]. repeat (destruct p as [p|p|]; try exact I). exfalso. apply Hne. reflexivity. }
  assert (Hnp : new_prefix 269 sg = path_prefix u).
  { transitivity (new_prefix (flags_of u) sg).
    - unfold new_prefix, flags_of, flags_bits, u. cbn [uhost port query fragment path is_some has_opaque_path].
      destruct q; destruct fr; reflexivity.
    - symmetry. exact (path_prefix_new u sg Hnls). }
  f_equal.
  - unfold ps4, ps3, ps2, ps0, null_pieces. rewrite Hnp.
    unfold pieces, includes_credentials, path_serialize.
    cbn [scheme username password uhost port path query fragment is_some u]. rewrite pstr_flat_map.
    destruct q; destruct fr;
      cbv [setp splice middle firstn skipn app Nat.eqb Nat.sub repeat N.to_nat Pos.to_nat Pos.iter_op Nat.add sepc
           P_PORT P_QUERY P_FRAGMENT option_map str_eqb negb orb andb N.eqb Pos.eqb];
      reflexivity.
  - unfold f4, f3, flags_of, flags_bits, has_opaque_path. cbn [uhost port query fragment path is_some u].
    destruct q; destruct fr; reflexivity.
Qed.

(* the sequence the extracted model prints for `parsetrace` on a null-host URL is the one of the theorem *)
Lemma emit_null_ops_m_eq u seg0 segs :
  Impl.TraceProto.emit_null_ops_m u seg0 segs = emit_null_ops (scheme u) seg0 segs (query u) (fragment u).
Proof.
  unfold Impl.TraceProto.emit_null_ops_m, emit_null_ops, null_first_ops, Impl.TraceProto.opt_ops_m, opt_ops.
  rewrite flat_map_push. reflexivity.
Qed.
