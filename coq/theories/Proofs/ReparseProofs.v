(* C02 — reparse: parsing the href of a record that satisfies [Canon2] returns the record,
   with no base or against any base.  Parser: the scan-based model Impl.Parser.do_parse. *)
From Upa Require Import Base.Prelude Spec.CodePoints Spec.Utf Spec.Percent Spec.Ip Spec.Url Impl.Tables Impl.Parser.
From Upa Require Import Proofs.TableLemmas Proofs.TablesInst Proofs.SimBase Proofs.BlockScheme Proofs.BlockPath
  Proofs.BlockAuthority Proofs.Ipv4Proofs Proofs.HostProofs Proofs.CanonDefs Proofs.CanonStep Proofs.CanonProofs
  Proofs.ReparseDefs Proofs.ReparseHost Proofs.ReparsePath.
From Coq Require Import ZifyBool ZifyN ZifyNat.
Local Open Scope N_scope.

(* ---------------------------------------------------------------------------------- *)
(* input preprocessing is the identity on a serialization                             *)
(* ---------------------------------------------------------------------------------- *)
Lemma remove_tab_newline_id s : Forall pchar_sp s -> remove_tab_newline s = s.
Proof.
  induction 1 as [|c s Hc _ IH]; [reflexivity|]. unfold remove_tab_newline in *. cbn [filter].
  assert (E : is_tab_or_newline c = false) by (unfold is_tab_or_newline, pchar_sp in *; lia).
  rewrite E. cbn [negb]. rewrite IH. reflexivity.
Qed.

Lemma last_opt_rev_head (s : str) y : last_opt s = Some y -> exists t, rev s = y :: t.
Proof.
  induction s as [|x s IH]; [discriminate|]. cbn [last_opt]. destruct s as [|x' s'].
  - intro H. injection H as ->. exists []. reflexivity.
  - intro H. destruct (IH H) as [t Ht]. cbn [rev] in *. rewrite Ht. eexists. reflexivity.
Qed.

Lemma last_opt_some (s : str) : s <> [] -> exists y, last_opt s = Some y.
Proof.
  induction s as [|x s IH]; [congruence|]. intros _. destruct s as [|x' s']; [exists x; reflexivity|].
  destruct IH as [y Hy]; [discriminate|]. exists y. exact Hy.
Qed.

Lemma strip_id s x t : s = x :: t -> 32 < x -> (forall y, last_opt s = Some y -> 32 < y) -> strip_c0_space s = s.
Proof.
  intros -> Hx Hl. unfold strip_c0_space. cbn [drop_while].
  assert (E : is_c0_or_space x = false) by (unfold is_c0_or_space; lia). rewrite E.
  destruct (last_opt_some (x :: t)) as [y Hy]; [discriminate|].
  destruct (last_opt_rev_head _ _ Hy) as [t' Ht]. rewrite Ht. cbn [drop_while].
  assert (E' : is_c0_or_space y = false) by (specialize (Hl y Hy); unfold is_c0_or_space; lia). rewrite E'.
  rewrite <- Ht. apply rev_involutive.
Qed.

Lemma last_opt_app (a b : str) : b <> [] -> last_opt (a ++ b) = last_opt b.
Proof.
  intro Hb. induction a as [|x a IH]; [reflexivity|]. cbn [app last_opt].
  destruct (a ++ b) eqn:E; [destruct a; [cbn in E; congruence|discriminate]|exact IH].
Qed.

Lemma last_opt_Forall (P : N -> Prop) s y : Forall P s -> last_opt s = Some y -> P y.
Proof.
  intros H Hy. destruct (last_opt_rev_head _ _ Hy) as [t Ht].
  apply Forall_rev' in H. rewrite Ht in H. inversion H; assumption.
Qed.

(* ---------------------------------------------------------------------------------- *)
(* the chain of blocks, cut into groups                                               *)
(* ---------------------------------------------------------------------------------- *)
Section Reparse.
Variable idna : list N -> option (list N).

Definition pipe_tail (c : ctx) (f : flow) : flow :=
  blk_fragment c (blk_query c (blk_opaque_path c (blk_path c (blk_path_start c (blk_nosave_exit c f))))).
Definition pipe_file (c : ctx) (f : flow) : flow :=
  blk_file_host idna c (blk_file_slash c (blk_file c f)).
Definition pipe_auth (c : ctx) (f : flow) : flow :=
  blk_port c (blk_host idna c (blk_authority c f)).
Definition pipe_pre (c : ctx) (f : flow) : flow :=
  blk_special_authority_ignore_slashes c (blk_special_authority_slashes c (blk_relative_slash c
    (blk_relative c (blk_path_or_authority c (blk_special_relative_or_authority c (blk_no_scheme c f)))))).
Definition finish (f : flow) : presult := match f with Stop r => r | Go _ _ u => PFail u end.

Lemma url_parse_pipe c input u0 : c_override c = None ->
  url_parse idna c input u0 =
  finish (pipe_tail c (pipe_file c (pipe_auth c (pipe_pre c
    (blk_scheme c (blk_scheme_start c (Go SchemeStart (remove_tab_newline input) u0))))))).
Proof. intro H. unfold url_parse, finish, pipe_tail, pipe_file, pipe_auth, pipe_pre. rewrite H. cbv zeta. reflexivity. Qed.

(* ---------------------------------------------------------------------------------- *)
(* scheme                                                                             *)
(* ---------------------------------------------------------------------------------- *)
Lemma scheme_tail_char c : scheme_tail c = true -> scheme_char c = true /\ N.lor c 32 = c.
Proof.
  intro H. assert (Hs : scheme_char c = true) by (clear - H; clia).
  split; [exact Hs|]. rewrite (lor32_lower c Hs). unfold ascii_lower.
  assert (E : is_ascii_upper_alpha c = false) by (clear - H; clia). rewrite E. reflexivity.
Qed.

Lemma lower_alpha_tail c : is_ascii_lower_alpha c = true -> scheme_tail c = true.
Proof. intro H. unfold scheme_tail. rewrite H. reflexivity. Qed.

Lemma scheme_blocks c sc rest0 u : has_ov c = false -> scheme_okf sc ->
  blk_scheme c (blk_scheme_start c (Go SchemeStart (sc ++ 58 :: rest0) u)) =
  let u1 := set_scheme u sc in
  if is_file u1 then Go File rest0 u1
  else if is_special u1 then
    match c_base c with
    | Some b => if str_eqb (scheme u1) (scheme b) then Go SpecialRelativeOrAuthority rest0 u1
                else Go SpecialAuthoritySlashes rest0 u1
    | None => Go SpecialAuthoritySlashes rest0 u1
    end
  else match rest0 with
       | 47 :: p' => Go PathOrAuthority p' u1
       | _ => Go OpaquePath rest0 (set_path u1 (POpaque []))
       end.
Proof.
  intros Hov [Hne Hok]. destruct sc as [|c0 cr]; [congruence|]. destruct Hok as [H0 Hr].
  cbn [app blk_scheme_start].
  assert (Ha : is_ascii_alpha c0 = true) by (unfold is_ascii_alpha; rewrite H0; apply orb_true_r).
  rewrite Ha. cbn [blk_scheme].
  assert (Hspan : span tbl_is_scheme_char (cr ++ 58 :: rest0) = (cr, 58 :: rest0)).
  { apply span_app.
    - eapply Forall_impl; [|exact Hr]. intros x Hx. rewrite tbl_scheme_char. apply (scheme_tail_char x Hx).
    - cbn [stops]. rewrite tbl_scheme_char. reflexivity. }
  rewrite Hspan. change (58 =? 58) with true. cbv iota. rewrite Hov. cbv iota.
  assert (Hmap : List.map (fun ch => N.lor ch 32) (c0 :: cr) = c0 :: cr).
  { cbn [List.map]. rewrite (proj2 (scheme_tail_char c0 (lower_alpha_tail c0 H0))). f_equal.
    clear - Hr. induction Hr as [|x l Hx _ IH]; [reflexivity|]. cbn [List.map]. rewrite (proj2 (scheme_tail_char x Hx)), IH. reflexivity. }
  rewrite Hmap. reflexivity.
Qed.

(* ---------------------------------------------------------------------------------- *)
(* authority: userinfo                                                                *)
(* ---------------------------------------------------------------------------------- *)
Definition cred_text (us pw : str) : str :=
  if negb (str_eqb us []) || negb (str_eqb pw [])
  then us ++ (if negb (str_eqb pw []) then 58 :: pw else []) ++ [64] else [].
Definition port_text (po : option N) : str := match po with Some p => 58 :: dec_str p | None => [] end.

Definition aend (c : N) : bool := is_special_authority_end_char c.

Lemma aend_pred u c : aend c = false -> authority_end_pred u c = false.
Proof.
  unfold aend, authority_end_pred, is_special_authority_end_char. intro H.
  destruct (is_special u); [exact H|]. apply orb_false_elim in H. apply H.
Qed.

Lemma ui_aend c : userinfo_encode c = false -> aend c = false /\ c <> 64 /\ c <> 58.
Proof. intro H. unfold aend, is_special_authority_end_char, is_authority_end_char. clia. Qed.

Lemma hsafe_aend c : hsafe c -> aend c = false /\ c <> 64.
Proof. unfold hsafe, aend, is_special_authority_end_char, is_authority_end_char. lia. Qed.

Lemma digit_aend c : is_ascii_digit c = true -> aend c = false /\ c <> 64.
Proof. intro H. unfold aend, is_special_authority_end_char, is_authority_end_char. clia. Qed.

Lemma ue_id s : ui_safe s -> enc_with in_userinfo_set s = s.
Proof. intro H. rewrite (enc_userinfo_spec idna). apply pe_id. exact H. Qed.

Definition auth_ok (c : N) : Prop := aend c = false /\ c <> 64.

Lemma authority_block c sc us pw hp rest :
  c_save c = true -> ui_safe us -> ui_safe pw -> Forall auth_ok hp ->
  (hp = [] -> us = [] /\ pw = []) ->
  stops (authority_end_pred (mkurl sc [] [] None None (PList []) None None)) rest ->
  blk_authority c (Go Authority ((cred_text us pw ++ hp) ++ rest) (mkurl sc [] [] None None (PList []) None None)) =
  Go Host (hp ++ rest) (mkurl sc us pw None None (PList []) None None).
Proof.
  intros Hsave Hus Hpw Hhp Hne Hrest. set (u1 := mkurl sc [] [] None None (PList []) None None) in *.
  assert (Hus' : Forall (fun c => aend c = false /\ c <> 64 /\ c <> 58) us)
    by (eapply Forall_impl; [|exact Hus]; exact ui_aend).
  assert (Hpw' : Forall (fun c => aend c = false /\ c <> 64 /\ c <> 58) pw)
    by (eapply Forall_impl; [|exact Hpw]; exact ui_aend).
  assert (Hcred : Forall (fun c => aend c = false) (cred_text us pw)).
  { unfold cred_text. destruct (negb (str_eqb us []) || negb (str_eqb pw [])); [|constructor].
    apply Forall_app. split; [eapply Forall_impl; [|exact Hus']; intros x Hx; apply Hx|].
    apply Forall_app. split; [|repeat constructor].
    destruct (negb (str_eqb pw [])); [|constructor].
    constructor; [reflexivity|]. eapply Forall_impl; [|exact Hpw']. intros x Hx. apply Hx. }
  cbn [blk_authority].
  rewrite (break_at_app (authority_end_pred u1) (cred_text us pw ++ hp) rest); [| |exact Hrest].
  2:{ apply Forall_app. split.
      - eapply Forall_impl; [|exact Hcred]. intros x Hx. apply aend_pred, Hx.
      - eapply Forall_impl; [|exact Hhp]. intros x [Hx _]. apply aend_pred, Hx. }
  assert (Hhp64 : Forall (fun x => x <> 64) hp) by (eapply Forall_impl; [|exact Hhp]; intros x Hx; apply Hx).
  unfold cred_text. destruct (negb (str_eqb us []) || negb (str_eqb pw [])) eqn:Ecr.
  - (* credentials present *)
    replace ((us ++ (if negb (str_eqb pw []) then 58 :: pw else []) ++ [64]) ++ hp)
      with ((us ++ (if negb (str_eqb pw []) then 58 :: pw else [])) ++ 64 :: hp)
      by (rewrite <- !app_assoc; reflexivity).
    rewrite (split_last_some _ hp Hhp64).
    destruct hp as [|h0 ht].
    { destruct (Hne eq_refl) as [-> ->]. discriminate Ecr. }
    rewrite Hsave.
    assert (Hbr : break_at (fun ch => ch =? 58) (us ++ (if negb (str_eqb pw []) then 58 :: pw else [])) =
                  (us, if negb (str_eqb pw []) then 58 :: pw else [])).
    { apply break_at_app.
      - eapply Forall_impl; [|exact Hus']. intros x (_ & _ & Hx). apply N.eqb_neq. exact Hx.
      - destruct (negb (str_eqb pw [])); [reflexivity|exact I]. }
    rewrite Hbr.
    assert (Hpwr : match (if negb (str_eqb pw []) then 58 :: pw else []) with _ :: r => r | [] => [] end = pw).
    { destruct pw; reflexivity. }
    rewrite Hpwr. rewrite (orb_comm (negb (str_eqb pw []))), Ecr, (ue_id us Hus), (ue_id pw Hpw).
    f_equal. subst u1. destruct pw as [|p0 pr]; reflexivity.
  - (* no credentials *)
    apply orb_false_elim in Ecr. destruct Ecr as [E1 E2]. apply negb_false_iff in E1, E2.
    apply str_eqb_nil_true in E1, E2. subst us pw. cbn [app].
    rewrite (split_last_none hp Hhp64). reflexivity.
Qed.

(* ---------------------------------------------------------------------------------- *)
(* authority: host and port                                                           *)
(* ---------------------------------------------------------------------------------- *)
Lemma ov_none c : c_override c = None -> has_ov c = false.
Proof. unfold has_ov. intros ->. reflexivity. Qed.

Lemma port_text_tail po : port_tail (port_text po).
Proof. destruct po; [right; eexists; reflexivity|left; reflexivity]. Qed.

Lemma port_text_ok po : Forall auth_ok (port_text po).
Proof.
  destruct po as [p|]; [|constructor]. cbn [port_text]. constructor; [split; [reflexivity|discriminate]|].
  destruct (dec_str_canonical p) as [H _]. eapply Forall_impl; [|exact H]. exact digit_aend.
Qed.

Lemma host_serialize_nonempty h : host_okh h -> h <> HEmpty -> host_serialize h <> [].
Proof.
  destruct h as [d|a4|a6|o|]; cbn [host_okh host_serialize]; try tauto; try discriminate.
  intros _ _. unfold Spec.Ip.ipv4_serialize. destruct (dec_str_canonical ((a4 / 16777216) mod 256)) as (_ & Hne & _).
  destruct (dec_str ((a4 / 16777216) mod 256)); [congruence|discriminate].
Qed.

Lemma host_block c sc us pw h po rest :
  c_override c = None -> c_save c = true ->
  host_okh h -> hostkind_f idna sc (Some h) ->
  (is_special_scheme sc = true -> h <> HEmpty) ->
  (h = HEmpty -> po = None) ->
  stops (authority_end_pred (mkurl sc us pw None None (PList []) None None)) rest ->
  blk_host idna c (Go Host ((host_serialize h ++ port_text po) ++ rest) (mkurl sc us pw None None (PList []) None None)) =
  match po with
  | Some p => Go Port (dec_str p ++ rest) (mkurl sc us pw (Some h) None (PList []) None None)
  | None => Go PathStart rest (mkurl sc us pw (Some h) None (PList []) None None)
  end.
Proof.
  intros Hovn Hsave Hok Hk Hsp Hpo Hrest. pose proof (ov_none c Hovn) as Hov.
  set (u2 := mkurl sc us pw None None (PList []) None None) in *.
  destruct (host_serialize_txt h Hok) as [Htxt Hsafe].
  cbn [blk_host pstate_eqb orb]. rewrite Hov. cbn [andb].
  rewrite (break_at_app (authority_end_pred u2) (host_serialize h ++ port_text po) rest); [| |exact Hrest].
  2:{ apply Forall_app. split.
      - eapply Forall_impl; [|exact Hsafe]. intros x Hx. apply aend_pred, (hsafe_aend x Hx).
      - eapply Forall_impl; [|exact (port_text_ok po)]. intros x Hx. apply aend_pred, Hx. }
  rewrite (hes_host (host_serialize h) (port_text po) Htxt (port_text_tail po)).
  rewrite Hovn. rewrite !andb_false_r.
  assert (Hfirst : str_eqb (host_serialize h) [] &&
            ((match port_text po with [] => false | _ :: _ => true end) || is_special u2) = false).
  { destruct (str_eqb (host_serialize h) []) eqn:E; [|reflexivity]. apply str_eqb_nil_true in E. cbn [andb].
    assert (Hh : h = HEmpty).
    { destruct h as [d|a4|a6|o|]; try reflexivity; exfalso; apply (host_serialize_nonempty _ Hok); try discriminate; exact E. }
    rewrite (Hpo Hh). cbn [port_text orb]. unfold is_special. subst u2. cbn [scheme].
    destruct (is_special_scheme sc) eqn:Es; [exfalso; apply (Hsp eq_refl Hh)|reflexivity]. }
  rewrite Hfirst.
  assert (Hparse : impl_parse_host idna (host_serialize h) (negb (is_special u2)) = Some h).
  { unfold is_special. subst u2. cbn [scheme]. apply host_reparse; [exact Hok|exact Hk|].
    intro Hh. destruct (is_special_scheme sc) eqn:Es; [exfalso; apply (Hsp eq_refl Hh)|reflexivity]. }
  rewrite Hparse. rewrite (save_true c _ _ Hsave).
  destruct po as [p|]; cbn [port_text]; reflexivity.
Qed.

Lemma pred_not_digit u x : authority_end_pred u x = true -> is_ascii_digit x = false.
Proof.
  unfold authority_end_pred, is_special_authority_end_char, is_authority_end_char.
  destruct (is_special u); intro H; clia.
Qed.

Lemma port_block c u p rest :
  c_override c = None -> c_save c = true -> p <= 65535 -> default_port (scheme u) <> Some p ->
  stops (authority_end_pred u) rest ->
  blk_port c (Go Port (dec_str p ++ rest) u) = Go PathStart rest (set_port u (Some p)).
Proof.
  intros Hovn Hsave Hp Hdef Hrest. pose proof (ov_none c Hovn) as Hov.
  destruct (dec_str_port p Hp) as (Hdig & Hne & Hstrip & Hlen & Hval).
  cbn [blk_port].
  rewrite (span_app is_ascii_digit (dec_str p) rest Hdig).
  2:{ destruct rest as [|x r]; [exact I|]. cbn [stops] in *. rewrite (pred_not_digit u x Hrest). reflexivity. }
  assert (Hend : match rest with [] => true | r0 :: _ => is_authority_end_char r0 || ((r0 =? 92) && is_special u) end = true).
  { destruct rest as [|x r]; [reflexivity|]. cbn [stops] in Hrest. unfold authority_end_pred in Hrest.
    destruct (is_special u); [|rewrite Hrest; reflexivity].
    unfold is_special_authority_end_char in Hrest. rewrite andb_true_r. exact Hrest. }
  rewrite Hend. cbn [orb].
  destruct (dec_str p) as [|d0 dr] eqn:Ed; [congruence|].
  rewrite Hstrip.
  assert (E5 : (5 <? length (d0 :: dr))%nat = false) by (apply Nat.ltb_ge; exact Hlen).
  rewrite E5, Hval.
  assert (E6 : (65535 <? p) = false) by (apply N.ltb_ge; exact Hp). rewrite E6.
  rewrite (save_true c _ _ Hsave), Hov.
  assert (E7 : optN_eqb (default_port (scheme u)) (Some p) = false).
  { destruct (optN_eqb (default_port (scheme u)) (Some p)) eqn:E; [|reflexivity]. apply optN_eqb_true in E. contradiction. }
  rewrite E7. reflexivity.
Qed.

Lemma pred_same_scheme u u' : scheme u = scheme u' -> authority_end_pred u = authority_end_pred u'.
Proof. unfold authority_end_pred, is_special. intros ->. reflexivity. Qed.

(* the three authority blocks together *)
Lemma auth_blocks c sc us pw h po rest :
  c_override c = None -> c_save c = true ->
  ui_safe us -> ui_safe pw -> host_okh h -> hostkind_f idna sc (Some h) ->
  (is_special_scheme sc = true -> h <> HEmpty) ->
  (h = HEmpty -> us = [] /\ pw = [] /\ po = None) ->
  port_okf sc po ->
  stops (authority_end_pred (mkurl sc [] [] None None (PList []) None None)) rest ->
  pipe_auth c (Go Authority (cred_text us pw ++ host_serialize h ++ port_text po ++ rest)
                            (mkurl sc [] [] None None (PList []) None None)) =
  Go PathStart rest (mkurl sc us pw (Some h) po (PList []) None None).
Proof.
  intros Hovn Hsave Hus Hpw Hok Hk Hsp Hemp Hport Hrest. unfold pipe_auth.
  replace (cred_text us pw ++ host_serialize h ++ port_text po ++ rest)
    with ((cred_text us pw ++ (host_serialize h ++ port_text po)) ++ rest) by (rewrite <- !app_assoc; reflexivity).
  destruct (host_serialize_txt h Hok) as [_ Hsafe].
  rewrite (authority_block c sc us pw (host_serialize h ++ port_text po) rest Hsave Hus Hpw); [| | |exact Hrest].
  2:{ apply Forall_app. split; [|apply port_text_ok]. eapply Forall_impl; [|exact Hsafe]. exact hsafe_aend. }
  2:{ intro E. apply app_eq_nil in E. destruct E as [E _].
      assert (Hh : h = HEmpty).
      { destruct h as [d|a4|a6|o|]; try reflexivity; exfalso; apply (host_serialize_nonempty _ Hok); try discriminate; exact E. }
      destruct (Hemp Hh) as (A & B & _). split; assumption. }
  rewrite (host_block c sc us pw h po rest Hovn Hsave Hok Hk Hsp); [| |exact Hrest].
  2:{ intro Hh. apply (Hemp Hh). }
  destruct po as [p|]; [|reflexivity].
  destruct (Hport p eq_refl) as [Hp1 Hp2].
  rewrite (port_block c _ p rest Hovn Hsave Hp1); [reflexivity|exact Hp2|exact Hrest].
Qed.

(* ---------------------------------------------------------------------------------- *)
(* from the path start state to the end                                               *)
(* ---------------------------------------------------------------------------------- *)
Lemma first_seg_cond l : first_seg_quirky (PList l) = false ->
  match l with s :: _ => quirky_drive s = false | [] => True end.
Proof. destruct l; [exact (fun _ => I)|exact (fun H => H)]. Qed.

Lemma tail_from_path_start c u0 l q f :
  c_override c = None -> c_save c = true ->
  path u0 = PList [] -> query u0 = None -> fragment u0 = None ->
  Forall (seg_ok (is_special u0)) l ->
  (is_special u0 = true -> l <> []) ->
  (is_file u0 = true -> first_seg_quirky (PList l) = false) ->
  query_safef (scheme u0) q -> fragment_safef f ->
  pipe_tail c (Go PathStart (segs_text l ++ qf_text q f) u0) =
  Stop (POk (set_fragment (set_query (set_path u0 (PList l)) q) f)).
Proof.
  intros Hovn Hsave Hp Hq0 Hf0 Hl Hne Hquirk Hq Hf. pose proof (ov_none c Hovn) as Hov.
  unfold pipe_tail. cbn [blk_nosave_exit]. rewrite Hsave.
  assert (Hgo : forall s r, l = s :: r ->
    blk_fragment c (blk_query c (blk_opaque_path c (blk_path c (Go Path ((s ++ segs_text r) ++ qf_text q f) u0)))) =
    Stop (POk (set_fragment (set_query (set_path u0 (PList l)) q) f))).
  { intros s r ->. apply tail_path_text; try assumption.
    - apply Forall_app. split; [|apply (segs_text_not_qh (is_special u0)); inversion Hl; assumption].
      inversion Hl as [|? ? [Hs _] _]; subst. eapply Forall_impl; [|exact Hs]. apply segchar_not_qh.
    - rewrite (parse_path_segs s r u0 [] Hp Hl); [reflexivity|].
      intros Hfile _. apply (Hquirk Hfile). }
  cbn [blk_path_start]. destruct (is_special u0) eqn:Esp.
  - destruct l as [|s r]; [exfalso; apply (Hne eq_refl); reflexivity|].
    cbn [segs_text flat_map app]. fold (segs_text r). apply (Hgo s r eq_refl).
  - destruct l as [|s r].
    + cbn [segs_text flat_map app]. rewrite Hov. cbn [negb andb].
      assert (E : match qf_text q f with
                  | [] => Stop (POk u0)
                  | ch :: p' => if ch =? 63 then Go Query p' u0 else if ch =? 35 then Go Fragment p' u0
                                else if ch =? 47 then Go Path p' u0 else Go Path (qf_text q f) u0
                  end = qf_flow (qf_text q f) u0).
      { unfold qf_text. destruct q as [x|]; [reflexivity|]. destruct f as [y|]; reflexivity. }
      rewrite E, path_qf, opaque_qf, (set_path_same u0 (PList []) Hp). apply tail_qf; assumption.
    + cbn [segs_text flat_map app]. fold (segs_text r). rewrite Hov. cbn [negb].
      change (47 =? 63) with false. change (47 =? 35) with false. change (47 =? 47) with true. cbv iota.
      apply (Hgo s r eq_refl).
Qed.

(* ---------------------------------------------------------------------------------- *)
(* the file host                                                                      *)
(* ---------------------------------------------------------------------------------- *)
Lemma not_drive_text h : host_okh h ->
  match host_serialize h with [a; b] => is_windows_drive a b | _ => false end = false.
Proof.
  intro Hok.
  assert (L : forall t, Forall (fun c => forbidden_host c = false) t ->
            match t with [a; b] => is_windows_drive a b | _ => false end = false).
  { intros t Ht. destruct t as [|a [|b [|x r]]]; try reflexivity.
    inversion Ht as [|? ? _ Ht']; subst. inversion Ht' as [|? ? Hb _]; subst.
    unfold is_windows_drive. assert (E : (b =? 58) || (b =? 124) = false) by (clear - Hb; clia).
    rewrite E. apply andb_false_r. }
  destruct h as [d|a4|a6|o|]; cbn [host_okh host_serialize] in *.
  - apply L. eapply Forall_impl; [|exact (proj2 Hok)]. exact dchar_fh.
  - apply L, ipv4_serialize_fh.
  - cbn [app]. destruct (Spec.Ip.ipv6_serialize a6 ++ [93]) as [|b [|x r]]; reflexivity.
  - apply L. eapply Forall_impl; [|exact (proj2 Hok)]. exact ohchar_fh.
  - reflexivity.
Qed.

Lemma saend_not c : aend c = false -> is_special_authority_end_char c = false.
Proof. exact (fun H => H). Qed.

Lemma file_blocks c h rest :
  c_override c = None -> c_save c = true ->
  host_okh h -> hostkind_f idna s_file (Some h) -> host_eq_localhost h = false ->
  stops is_special_authority_end_char rest -> rest <> [] ->
  pipe_file c (Go File (47 :: 47 :: host_serialize h ++ rest) (mkurl s_file [] [] None None (PList []) None None)) =
  Go PathStart rest (mkurl s_file [] [] (Some h) None (PList []) None None).
Proof.
  intros Hovn Hsave Hok Hk Hloc Hrest Hne. pose proof (ov_none c Hovn) as Hov.
  destruct (host_serialize_txt h Hok) as [_ Hsafe].
  unfold pipe_file. cbn [blk_file]. change (is_file (mkurl s_file [] [] None None (PList []) None None)) with true. cbv iota.
  rewrite (save_true c _ _ Hsave). cbn [blk_file_slash blk_file_host].
  rewrite (break_at_app is_special_authority_end_char (host_serialize h) rest); [| |exact Hrest].
  2:{ eapply Forall_impl; [|exact Hsafe]. intros x Hx. apply (hsafe_aend x Hx). }
  rewrite Hov, Hsave. cbn [negb andb].
  destruct (host_serialize h) as [|x t] eqn:Eh.
  - assert (Hh : h = HEmpty).
    { destruct h as [d|a4|a6|o|]; try reflexivity; exfalso; apply (host_serialize_nonempty _ Hok); try discriminate; exact Eh. }
    subst h. cbn [app]. rewrite (save_true c _ _ Hsave). reflexivity.
  - pose proof (not_drive_text h Hok) as Hnd. rewrite Eh in Hnd. rewrite Hnd.
    assert (Hparse : impl_parse_host idna (x :: t) (negb (is_special (set_host (mkurl s_file [] [] None None (PList []) None None) (Some HEmpty)))) = Some h).
    { rewrite <- Eh. change (negb (is_special _)) with (negb (is_special_scheme s_file)).
      apply host_reparse; [exact Hok|exact Hk|]. intros ->. discriminate Eh. }
    rewrite Hparse, Hloc. reflexivity.
Qed.

(* ---------------------------------------------------------------------------------- *)
(* the states between the scheme and the authority / path                             *)
(* ---------------------------------------------------------------------------------- *)
Lemma pre_sroa c p u : pipe_pre c (Go SpecialRelativeOrAuthority (47 :: 47 :: p) u) = Go Authority (drop_while is_slash p) u.
Proof. reflexivity. Qed.
Lemma pre_sas c p u : pipe_pre c (Go SpecialAuthoritySlashes (47 :: 47 :: p) u) = Go Authority (drop_while is_slash p) u.
Proof. reflexivity. Qed.
Lemma pre_poa_auth c p u : pipe_pre c (Go PathOrAuthority (47 :: p) u) = Go Authority p u.
Proof. reflexivity. Qed.
Lemma pre_poa_path c p u : starts_with [47] p = false -> pipe_pre c (Go PathOrAuthority p u) = Go Path p u.
Proof.
  intro H. unfold pipe_pre. cbn [blk_no_scheme blk_special_relative_or_authority blk_path_or_authority].
  rewrite match_47. destruct p as [|y p']; [reflexivity|]. cbn [starts_with] in H. rewrite andb_true_r in H.
  rewrite N.eqb_sym, H. reflexivity.
Qed.
Lemma pre_file c p u : pipe_pre c (Go File p u) = Go File p u.
Proof. reflexivity. Qed.
Lemma pre_opaque c p u : pipe_pre c (Go OpaquePath p u) = Go OpaquePath p u.
Proof. reflexivity. Qed.

Lemma auth_path c p u : pipe_file c (pipe_auth c (Go Path p u)) = Go Path p u.
Proof. reflexivity. Qed.
Lemma auth_opaque c p u : pipe_file c (pipe_auth c (Go OpaquePath p u)) = Go OpaquePath p u.
Proof. reflexivity. Qed.
Lemma auth_file c p u : pipe_auth c (Go File p u) = Go File p u.
Proof. reflexivity. Qed.
Lemma file_path_start c p u : pipe_file c (Go PathStart p u) = Go PathStart p u.
Proof. reflexivity. Qed.

Lemma tail_path c p u : c_save c = true ->
  pipe_tail c (Go Path p u) = blk_fragment c (blk_query c (blk_opaque_path c (blk_path c (Go Path p u)))).
Proof. intro H. unfold pipe_tail. cbn [blk_nosave_exit]. rewrite H. reflexivity. Qed.
Lemma tail_opaque_path c p u : c_save c = true ->
  pipe_tail c (Go OpaquePath p u) = blk_fragment c (blk_query c (blk_opaque_path c (Go OpaquePath p u))).
Proof. intro H. unfold pipe_tail. cbn [blk_nosave_exit]. rewrite H. reflexivity. Qed.

Lemma drop_while_head_false (f : N -> bool) x t : f x = false -> drop_while f (x :: t) = x :: t.
Proof. intro H. cbn [drop_while]. rewrite H. reflexivity. Qed.

(* ---------------------------------------------------------------------------------- *)
(* the serialization, on fields                                                       *)
(* ---------------------------------------------------------------------------------- *)
Definition guard_text (pa : upath) : str :=
  match pa with PList (p0 :: _ :: _) => if str_eqb p0 [] then [47; 46] else [] | _ => [] end.
Definition path_text (pa : upath) : str := match pa with POpaque o => o | PList l => segs_text l end.

Lemma serialize_fields sc us pw ho po pa qu fr :
  serialize (mkurl sc us pw ho po pa qu fr) false =
  sc ++ 58 :: match ho with
              | Some h => 47 :: 47 :: cred_text us pw ++ host_serialize h ++ port_text po ++ path_text pa ++ qf_text qu fr
              | None => guard_text pa ++ path_text pa ++ qf_text qu fr
              end.
Proof.
  unfold serialize, includes_credentials, path_serialize, cred_text, port_text, guard_text, path_text, qf_text, q_text, f_text, segs_text.
  cbn [scheme username password uhost port path query fragment]. cbn [app].
  destruct ho as [h|]; cbn [app]; rewrite <- ?app_assoc; reflexivity.
Qed.

(* ---------------------------------------------------------------------------------- *)
(* the first and the last unit of a serialization                                     *)
(* ---------------------------------------------------------------------------------- *)
Lemma qf_text_pchar sp q f : (forall x, q = Some x -> Forall (qchar sp) x) -> fragment_safef f ->
  Forall pchar (qf_text q f).
Proof.
  intros Hq Hf. unfold qf_text. apply Forall_app. split.
  - destruct q as [x|]; [|constructor]. cbn [q_text]. constructor; [unfold pchar; lia|].
    eapply Forall_impl; [|exact (Hq x eq_refl)]. apply q_pchar.
  - destruct f as [y|]; [|constructor]. cbn [f_text]. constructor; [unfold pchar; lia|].
    eapply Forall_impl; [|exact (Hf y eq_refl)]. apply f_pchar.
Qed.

Lemma serialize_last u : Canon2 idna u -> forall y, last_opt (serialize u false) = Some y -> 32 < y.
Proof.
  intros (HC & HE & _) y Hy. destruct (serialize_printable u false HC) as [Hsp Hp].
  destruct (has_opaque_path u) eqn:Eo.
  - destruct u as [sc us pw ho po pa qu fr]. unfold has_opaque_path in Eo. cbn [path] in Eo.
    destruct pa as [o|l]; [|discriminate].
    pose proof HC as [[(_ & _ & _ & _ & _ & Hq & Hf & Hpa) (_ & _ & _ & Hoo)] _].
    unfold query_safe, fragment_safe, path_safe, opaque_ok in *. cbn [scheme query fragment path uhost] in *.
    pose proof (Hoo o eq_refl) as ->.
    destruct HE as (_ & Ho2 & _). unfold opaque2 in Ho2. cbn [path query fragment] in Ho2.
    destruct (Ho2 o eq_refl) as [_ Hlast].
    rewrite serialize_fields in Hy, Hsp. cbn [guard_text path_text app] in Hy, Hsp.
    pose proof (qf_text_pchar _ qu fr Hq Hf) as Hqf.
    destruct (qf_text qu fr) as [|z t] eqn:Eqf.
    + rewrite app_nil_r in Hy. destruct o as [|o0 ot].
      * rewrite last_opt_app in Hy by discriminate. injection Hy as <-. lia.
      * change (sc ++ 58 :: o0 :: ot) with (sc ++ [58] ++ (o0 :: ot)) in Hy.
        rewrite app_assoc, last_opt_app in Hy by discriminate.
        assert (Hqn : qu = None) by (destruct qu; [discriminate|reflexivity]).
        assert (Hfn : fr = None) by (destruct qu; [discriminate|]; destruct fr; [discriminate|reflexivity]).
        specialize (Hlast Hqn Hfn).
        assert (Hpy : pchar_sp y).
        { apply (last_opt_Forall pchar_sp (o0 :: ot) y); [|exact Hy].
          eapply Forall_impl; [|exact Hpa]. apply o_pchar_sp. }
        unfold pchar_sp in Hpy. assert (y <> 32) by (intros ->; apply Hlast; exact Hy). lia.
    + change (sc ++ 58 :: o ++ z :: t) with (sc ++ (58 :: o) ++ (z :: t)) in Hy.
      rewrite app_assoc, last_opt_app in Hy by discriminate.
      pose proof (last_opt_Forall pchar (z :: t) y Hqf Hy) as Hpy. unfold pchar in Hpy. lia.
  - pose proof (last_opt_Forall pchar _ y (Hp eq_refl) Hy) as Hpy. unfold pchar in Hpy. lia.
Qed.

Lemma serialize_input u : Canon2 idna u ->
  remove_tab_newline (strip_c0_space (serialize u false)) = serialize u false.
Proof.
  intro H2. pose proof H2 as (HC & _). destruct (serialize_printable u false HC) as [Hsp _].
  pose proof HC as [[(Hs & _) (Hne & _)] _].
  assert (E : strip_c0_space (serialize u false) = serialize u false).
  { unfold serialize at 1 2. destruct (scheme u) as [|c0 cr] eqn:Es; [congruence|]. cbn [app].
    eapply strip_id; [reflexivity| |].
    - destruct Hs as [H0 _]. clear - H0. clia.
    - intros y Hy. apply (serialize_last u H2 y). unfold serialize. rewrite Es. exact Hy. }
  rewrite E. apply remove_tab_newline_id. exact Hsp.
Qed.

(* ---------------------------------------------------------------------------------- *)
(* the theorem                                                                        *)
(* ---------------------------------------------------------------------------------- *)
Lemma segs_ok_of sp l : Forall (Forall (segchar sp)) l -> Forall not_dot l -> Forall (seg_ok sp) l.
Proof.
  intros H1 H2. induction l as [|s l IH]; [constructor|].
  inversion H1; inversion H2; subst. constructor; [split; assumption|apply IH; assumption].
Qed.

Lemma segs_text_stops_aend u l q f : stops (authority_end_pred u) (segs_text l ++ qf_text q f).
Proof.
  assert (L : forall x, x = 47 \/ x = 63 \/ x = 35 -> authority_end_pred u x = true).
  { intros x Hx. unfold authority_end_pred, is_special_authority_end_char, is_authority_end_char.
    destruct (is_special u); lia. }
  destruct l as [|s r]; [|apply L; left; reflexivity].
  cbn [segs_text flat_map app]. unfold qf_text. destruct q as [x|]; [apply L; right; left; reflexivity|].
  destruct f as [y|]; [apply L; right; right; reflexivity|exact I].
Qed.

Lemma auth_text_noslash us pw h rest : ui_safe us -> ui_safe pw -> host_okh h -> h <> HEmpty ->
  drop_while is_slash (cred_text us pw ++ host_serialize h ++ rest) = cred_text us pw ++ host_serialize h ++ rest.
Proof.
  intros Hus Hpw Hok Hne.
  assert (Hns : Forall (fun x => is_slash x = false) (cred_text us pw ++ host_serialize h)).
  { assert (L : forall x, aend x = false -> is_slash x = false).
    { intros x. unfold aend, is_special_authority_end_char, is_authority_end_char, is_slash. lia. }
    apply Forall_app. split.
    - unfold cred_text. destruct (negb (str_eqb us []) || negb (str_eqb pw [])); [|constructor].
      apply Forall_app. split; [eapply Forall_impl; [|exact Hus]; intros x Hx; apply L, (ui_aend x Hx)|].
      apply Forall_app. split; [|repeat constructor].
      destruct (negb (str_eqb pw [])); [|constructor]. constructor; [reflexivity|].
      eapply Forall_impl; [|exact Hpw]. intros x Hx. apply L, (ui_aend x Hx).
    - destruct (host_serialize_txt h Hok) as [_ Hsafe]. eapply Forall_impl; [|exact Hsafe].
      intros x Hx. apply L, (hsafe_aend x Hx). }
  rewrite app_assoc.
  destruct (cred_text us pw ++ host_serialize h) as [|x t] eqn:E.
  - apply app_eq_nil in E. destruct E as [_ E]. exfalso. exact (host_serialize_nonempty h Hok Hne E).
  - cbn [app]. apply drop_while_head_false. inversion Hns; assumption.
Qed.

Lemma match_47_false {A} (p : str) (f : str -> A) (d : A) : starts_with [47] p = false ->
  match p with 47 :: p' => f p' | _ => d end = d.
Proof.
  intro H. rewrite match_47. destruct p as [|y p']; [reflexivity|]. cbn [starts_with] in H.
  rewrite andb_true_r, N.eqb_sym in H. rewrite H. reflexivity.
Qed.

Lemma qf_text_no47 q f : starts_with [47] (qf_text q f) = false.
Proof. unfold qf_text. destruct q as [x|]; [reflexivity|]. destruct f as [y|]; reflexivity. Qed.

Lemma starts_with_app_47 (a b : str) : starts_with [47] a = false -> starts_with [47] b = false ->
  starts_with [47] (a ++ b) = false.
Proof. destruct a as [|x a]; [intros _ H; exact H|intros H _; exact H]. Qed.

Lemma seg_no47 sp s : Forall (segchar sp) s -> starts_with [47] s = false.
Proof.
  destruct s as [|y t]; [reflexivity|]. intro H. inversion H as [|? ? (_ & Hy & _) _]; subst.
  cbn [starts_with]. rewrite andb_true_r. apply N.eqb_neq. congruence.
Qed.

Theorem reparse u base : Canon2 idna u -> do_parse idna true (serialize u false) base = POk u.
Proof.
  intro H2. unfold do_parse.
  remember (mk_ctx base None true empty_url) as c eqn:Ec.
  assert (Hovn : c_override c = None) by (subst c; reflexivity).
  assert (Hsave : c_save c = true) by (subst c; reflexivity).
  clear Ec. pose proof (ov_none c Hovn) as Hov.
  rewrite (url_parse_pipe c _ _ Hovn), (serialize_input u H2).
  pose proof (Canon2_noquirk idna u H2) as Hquirk.
  destruct H2 as (HC & HE & _).
  destruct u as [sc us pw ho po pa qu fr].
  pose proof HC as [[(Hs0 & Hport & Hus & Hpw & Hho & Hqs & Hfs & Hps) (Hne & Hsp0 & Hcred & Hoo)] Hpne].
  destruct HE as (Hnd & Ho2 & Hk & Hnp).
  unfold port_ok, host_ok, query_safe, fragment_safe, path_safe, cred_ok, opaque_ok,
    nodots, opaque2, hostkind, nullhost_path in *.
  unfold file_quirk, is_file in Hquirk.
  cbn [scheme username password uhost port path query fragment] in *.
  rewrite serialize_fields.
  rewrite (scheme_blocks c sc _ empty_url Hov (conj Hne Hs0)). cbv zeta.
  change (set_scheme empty_url sc) with (mkurl sc [] [] None None (PList []) None None).
  change (is_file (mkurl sc [] [] None None (PList []) None None)) with (str_eqb sc s_file).
  change (is_special (mkurl sc [] [] None None (PList []) None None)) with (is_special_scheme sc).
  change (scheme (mkurl sc [] [] None None (PList []) None None)) with sc.
  destruct ho as [h|].
  - (* a host: the path is a list *)
    destruct pa as [o|l]; [discriminate (Hoo o eq_refl)|].
    cbn [path_text host_okf] in *.
    assert (Hsegs : Forall (seg_ok (is_special_scheme sc)) l) by (apply segs_ok_of; [exact Hps|apply Hnd; reflexivity]).
    destruct (str_eqb sc s_file) eqn:Efile.
    + (* file *)
      apply str_eqb_true in Efile. subst sc.
      destruct (Hcred (or_intror (or_intror eq_refl))) as (-> & -> & ->).
      cbn [cred_text str_eqb negb orb port_text app].
      destruct (Hpne eq_refl) as (s0 & l0 & El). injection El as ->.
      cbn [andb] in Hquirk. apply orb_false_elim in Hquirk. destruct Hquirk as [Hq1 Hq2].
      cbn [host_is_localhost] in Hq1.
      rewrite pre_file, auth_file.
      rewrite (file_blocks c h (segs_text (s0 :: l0) ++ qf_text qu fr) Hovn Hsave Hho Hk Hq1); [| |discriminate].
      2:{ reflexivity. }
      rewrite (tail_from_path_start c _ (s0 :: l0) qu fr Hovn Hsave); try reflexivity; try assumption.
      * intros _. discriminate.
      * intros _. exact Hq2.
    + (* not file: the authority blocks *)
      assert (Hhne : is_special_scheme sc = true -> h <> HEmpty).
      { intro Esp. destruct (Hsp0 Esp) as (_ & h' & Eh & Hhne). injection Eh as <-. exact (Hhne Efile). }
      assert (Hcommon : finish (pipe_tail c (pipe_file c (pipe_auth c
                (Go Authority (cred_text us pw ++ host_serialize h ++ port_text po ++ segs_text l ++ qf_text qu fr)
                              (mkurl sc [] [] None None (PList []) None None))))) =
              POk (mkurl sc us pw (Some h) po (PList l) qu fr)).
      { rewrite (auth_blocks c sc us pw h po (segs_text l ++ qf_text qu fr) Hovn Hsave Hus Hpw Hho Hk Hhne).
        - rewrite file_path_start.
          rewrite (tail_from_path_start c _ l qu fr Hovn Hsave); try reflexivity; try assumption.
          + intros Esp El. subst l. destruct (Hpne Esp) as (? & ? & ?). discriminate.
          + unfold is_file. cbn [scheme]. rewrite Efile. discriminate.
        - intros ->. apply Hcred. right. left. reflexivity.
        - exact Hport.
        - apply segs_text_stops_aend. }
      destruct (is_special_scheme sc) eqn:Esp.
      * (* special, not file *)
        set (u1 := mkurl sc [] [] None None (PList []) None None) in *.
        set (txt := cred_text us pw ++ host_serialize h ++ port_text po ++ segs_text l ++ qf_text qu fr) in *.
        assert (Hauth : pipe_pre c (match c_base c with
                   | Some b => if str_eqb sc (scheme b)
                               then Go SpecialRelativeOrAuthority (47 :: 47 :: txt) u1
                               else Go SpecialAuthoritySlashes (47 :: 47 :: txt) u1
                   | None => Go SpecialAuthoritySlashes (47 :: 47 :: txt) u1
                   end) = Go Authority (drop_while is_slash txt) u1).
        { destruct (c_base c) as [b|]; [destruct (str_eqb sc (scheme b))|]; reflexivity. }
        rewrite Hauth. clear Hauth. subst u1 txt.
        rewrite (auth_text_noslash us pw h _ Hus Hpw Hho (Hhne eq_refl)). exact Hcommon.
      * (* not special, with a host *)
        rewrite pre_poa_auth. exact Hcommon.
  - (* null host *)
    assert (Esp : is_special_scheme sc = false).
    { destruct (is_special_scheme sc) eqn:E; [|reflexivity]. destruct (Hsp0 E) as (_ & h & Eh & _). discriminate. }
    pose proof (nonspecial_nonfile sc Esp) as Efile.
    destruct (Hcred (or_introl eq_refl)) as (-> & -> & ->).
    rewrite Efile, Esp.
    destruct pa as [o|l].
    + (* opaque path *)
      cbn [guard_text path_text app].
      destruct (Ho2 o eq_refl) as [Hst _].
      rewrite (match_47_false (o ++ qf_text qu fr)) by (apply starts_with_app_47; [exact Hst|apply qf_text_no47]).
      rewrite pre_opaque, auth_opaque, (tail_opaque_path c _ _ Hsave).
      rewrite (tail_opaque c _ o qu fr Hov); try reflexivity; assumption.
    + (* list path *)
      destruct l as [|s r]; [exfalso; apply (Hnp eq_refl); reflexivity|].
      assert (Hsegs : Forall (seg_ok (is_special_scheme sc)) (s :: r)) by (apply segs_ok_of; [exact Hps|apply Hnd; reflexivity]).
      assert (Hguard : (s = [] /\ exists x r', r = x :: r') \/ guard_text (PList (s :: r)) = [] /\ (s = [] -> r = [])).
      { destruct r as [|x r']; [right; split; [reflexivity|reflexivity]|].
        destruct s as [|y t]; [left; split; [reflexivity|eauto]|right; split; [reflexivity|discriminate]]. }
      destruct Hguard as [(-> & x & r' & ->)|[Hg Hs]].
      * cbn [guard_text str_eqb path_text app].
        rewrite (pre_poa_path c (46 :: segs_text ([] :: x :: r') ++ qf_text qu fr)) by reflexivity.
        rewrite auth_path, (tail_path c _ _ Hsave).
        change (46 :: segs_text ([] :: x :: r') ++ qf_text qu fr) with ((46 :: segs_text ([] :: x :: r')) ++ qf_text qu fr).
        rewrite (tail_path_text c _ (46 :: segs_text ([] :: x :: r')) (mkurl sc [] [] None None (PList ([] :: x :: r')) None None) qu fr Hov); [reflexivity| | | | | |].
        -- constructor; [reflexivity|]. apply (segs_text_not_qh _ _ Hsegs).
        -- change (mkurl sc [] [] None None (PList ([] :: x :: r')) None None)
             with (set_path (mkurl sc [] [] None None (PList []) None None) (PList ([] :: x :: r'))).
           apply parse_path_guard; [reflexivity|exact Hsegs|]. unfold is_file. cbn [scheme]. exact Efile.
        -- reflexivity.
        -- reflexivity.
        -- exact Hqs.
        -- exact Hfs.
      * rewrite Hg. cbn [path_text segs_text flat_map app]. fold (segs_text r).
        rewrite (pre_poa_path c ((s ++ segs_text r) ++ qf_text qu fr)).
        2:{ apply starts_with_app_47; [|apply qf_text_no47]. destruct s as [|y t].
            - rewrite (Hs eq_refl). reflexivity.
            - inversion Hsegs as [|? ? [Hs1 _] _]; subst. apply (seg_no47 _ _ Hs1). }
        rewrite auth_path, (tail_path c _ _ Hsave).
        rewrite (tail_path_text c _ (s ++ segs_text r) (mkurl sc [] [] None None (PList (s :: r)) None None) qu fr Hov); [reflexivity| | | | | |].
        -- apply Forall_app. split; [|apply (segs_text_not_qh (is_special_scheme sc)); inversion Hsegs; assumption].
           inversion Hsegs as [|? ? [Hs1 _] _]; subst. eapply Forall_impl; [|exact Hs1]. apply segchar_not_qh.
        -- change (mkurl sc [] [] None None (PList (s :: r)) None None)
             with (set_path (mkurl sc [] [] None None (PList []) None None) (PList ([] ++ s :: r))).
           apply parse_path_segs; [reflexivity|exact Hsegs|]. unfold is_file. cbn [scheme]. rewrite Efile. discriminate.
        -- reflexivity.
        -- reflexivity.
        -- exact Hqs.
        -- exact Hfs.
Qed.

End Reparse.
