(* The composed theorems with ICU's laws as explicit premises: [H_ascii idna] and [H_keep idna]
   (Properties_C07) give the host-parser equivalence that Proofs/ParserCompose.v and
   Proofs/SetterCompose.v take as [Hhost]; [idna_ascii_lower idna] (Properties_C08) is the
   premise of the canonical-form theorems used for sequences of setters. *)
From Upa Require Import Base.Prelude Spec.Url Spec.Api Impl.Parser Impl.Api
  Proofs.CanonDefs Proofs.LockstepProofs Proofs.ParserCompose Proofs.SetterCompose.
From Upa Require Properties_C07 Properties_C08.
From Coq Require Import List.
Import ListNotations.
Local Open Scope N_scope.

Section Final.
Variable idna : list N -> option (list N).
Hypothesis HA : Properties_C07.H_ascii idna.
Hypothesis HK : Properties_C07.H_keep idna.

Let Hhost : forall inp opq, impl_parse_host idna inp opq = host_parse idna inp opq :=
  Properties_C07.C07_host_all idna HA HK.

Lemma conforms_unfold a b : conforms a b ->
  match a, b with
  | POk x, POk y => x = y
  | PFail _, PFail _ => True
  | _, _ => False
  end.
Proof. exact (fun H => H). Qed.

Lemma parse_conforms : forall input base,
  match Impl.Parser.do_parse idna true input base, Spec.Url.basic_parse idna input base with
  | POk a, POk b => a = b
  | PFail _, PFail _ => True
  | _, _ => False
  end.
Proof. intros input base. apply conforms_unfold, (do_parse_conforms idna Hhost). Qed.

Lemma parse_conforms_canon : forall input base,
  (base = None \/ exists b, base = Some b /\ Canon b) ->
  match Impl.Parser.do_parse idna true input base, Spec.Url.basic_parse idna input base with
  | POk a, POk b => a = b
  | PFail _, PFail _ => True
  | _, _ => False
  end.
Proof. intros input base _. apply conforms_unfold, (do_parse_conforms idna Hhost). Qed.

Lemma can_parse_conforms' : forall input base,
  Impl.Parser.can_parse idna input base =
  match Spec.Url.basic_parse idna input base with POk _ => true | _ => false end.
Proof. exact (can_parse_conforms idna Hhost). Qed.

Lemma override_conforms : forall v u,
  Impl.Parser.parse_override idna v u Host = Spec.Url.basic_parse_override idna v u Host /\
  Impl.Parser.parse_override idna v u Hostname = Spec.Url.basic_parse_override idna v u Hostname /\
  Impl.Parser.parse_override idna v u Port = Spec.Url.basic_parse_override idna v u Port /\
  Impl.Parser.parse_override idna v u PathStart = Spec.Url.basic_parse_override idna v u PathStart /\
  Impl.Parser.parse_override idna v (set_query u (Some [])) Query =
    Spec.Url.basic_parse_override idna v (set_query u (Some [])) Query /\
  Impl.Parser.parse_override idna v (set_fragment u (Some [])) Fragment =
    Spec.Url.basic_parse_override idna v (set_fragment u (Some [])) Fragment.
Proof.
  intros v u. repeat split.
  - apply (override_host idna Hhost).
  - apply (override_hostname idna Hhost).
  - apply (override_port idna Hhost).
  - apply (override_path_start idna Hhost).
  - apply (override_query_st idna Hhost).
  - apply (override_fragment_st idna Hhost).
Qed.

Lemma setters_conform : forall w u e units, setter_wf u ->
  apply_setter (impl_ops idna) w u e units = apply_setter (spec_ops idna) w u e units.
Proof. exact (setters_eq idna Hhost). Qed.

Lemma setters_conform_canon : forall w u e units, Canon u ->
  apply_setter (impl_ops idna) w u e units = apply_setter (spec_ops idna) w u e units.
Proof. intros w u e units HC. apply (setters_eq idna Hhost). apply canon_setter_wf. exact HC. Qed.

Lemma sequence_conforms_wf : forall steps u0, all_wf idna steps u0 ->
  run_setters (impl_ops idna) steps u0 = run_setters (spec_ops idna) steps u0.
Proof. exact (setters_sequence_wf idna Hhost). Qed.

Lemma sequence_conforms : Properties_C08.idna_ascii_lower idna ->
  forall steps u0, Forall step_units_ok steps -> Canon u0 ->
  fold_left (fun u (s : setter * enc * list N) => let '(w, e, units) := s in apply_setter (impl_ops idna) w u e units) steps u0 =
  fold_left (fun u (s : setter * enc * list N) => let '(w, e, units) := s in apply_setter (spec_ops idna) w u e units) steps u0 /\
  Canon (fold_left (fun u (s : setter * enc * list N) => let '(w, e, units) := s in apply_setter (spec_ops idna) w u e units) steps u0).
Proof. intros HL. exact (setters_sequence idna HL Hhost). Qed.

Lemma keep_query_impl : ops_keep_query (impl_ops idna).
Proof. exact (impl_ops_keep_query idna Hhost). Qed.

Lemma lockstep_impl : forall sops st, Forall slot_ok st -> Forall wf_sop sops ->
  Forall slot_ok (fold_left (store_step (impl_ops idna)) sops st).
Proof. exact (lockstep (impl_ops idna) keep_query_impl). Qed.

End Final.

(* the condition of the protocol setter cannot be dropped: a file record without host *)
Definition wf_needed_url : url := mkurl s_file [] [] None None (PList [[]]) None None.
Lemma setter_wf_needed :
  apply_setter (impl_ops Proofs.HostProofs.idna_fake) SProtocol wf_needed_url EU8 [102;116;112] = wf_needed_url /\
  apply_setter (spec_ops Proofs.HostProofs.idna_fake) SProtocol wf_needed_url EU8 [102;116;112] = set_scheme wf_needed_url s_ftp.
Proof. vm_compute. split; reflexivity. Qed.
