(* C12 — common lemmas for the IPv6 proofs: get_nth/set_nth, the 65 536 sweep, table facts,
   hex tokens (hex_str_lower v for v < 65536), and the token view of serializer output. *)
From Upa Require Import Base.Prelude Impl.Tables Proofs.TableLemmas Proofs.TablesInst Properties_C13.
From Upa Require Spec.Ip Impl.Ip.
From Coq Require Import ZifyBool ZifyN ZifyNat.
Local Open Scope N_scope.

Module S := Upa.Spec.Ip.
Module I := Upa.Impl.Ip.

(* ---------- get_nth / set_nth ---------- *)

Lemma set_nth_length l : forall i v, length (S.set_nth l i v) = length l.
Proof.
  induction l as [|x l IH]; intros [|i] v; cbn [S.set_nth length]; try reflexivity.
  rewrite IH. reflexivity.
Qed.

Lemma get_set_nth l : forall i j v,
  S.get_nth (S.set_nth l i v) j = if ((i =? j)%nat && (i <? length l)%nat)%bool then v else S.get_nth l j.
Proof.
  unfold S.get_nth.
  induction l as [|x l IH]; intros i j v.
  - destruct i, j; cbn [S.set_nth nth length]; rewrite ?Bool.andb_false_r; reflexivity.
  - destruct i as [|i], j as [|j]; cbn [S.set_nth nth length]; try reflexivity.
    rewrite IH. reflexivity.
Qed.

Lemma get_nth_oob l j : (length l <= j)%nat -> S.get_nth l j = 0.
Proof. intro H. unfold S.get_nth. apply nth_overflow. exact H. Qed.

Lemma Forall_get_nth (P : N -> Prop) l : (forall j, P (S.get_nth l j)) -> Forall P l.
Proof.
  unfold S.get_nth. induction l as [|x l IH]; intro H; constructor.
  - exact (H O).
  - apply IH. intro j. exact (H (S j)).
Qed.

Lemma get_nth_Forall (P : N -> Prop) l : P 0 -> Forall P l -> forall j, P (S.get_nth l j).
Proof.
  unfold S.get_nth. intros H0 H. induction H as [|x l Hx Hl IH]; intros [|j]; cbn [nth]; auto.
Qed.

(* ---------- a linear range and the 65 536 sweep ---------- *)

Fixpoint nrange (n : nat) (start : N) : list N :=
  match n with O => [] | S k => start :: nrange k (start + 1) end.

Lemma in_nrange n : forall start c, start <= c -> c < start + N.of_nat n -> In c (nrange n start).
Proof.
  induction n as [|k IH]; intros start c H1 H2; [lia|].
  cbn [nrange]. destruct (N.eq_dec start c) as [E|E]; [left; exact E|].
  right. apply IH; lia.
Qed.

Definition sweep16 (p : N -> bool) : bool := forallb p (nrange (N.to_nat 65536) 0).

Lemma sweep16_sound p : sweep16 p = true -> forall v, v < 65536 -> p v = true.
Proof.
  unfold sweep16. intros H v Hv. rewrite forallb_forall in H. apply H.
  apply in_nrange; [lia|]. rewrite N2Nat.id. exact Hv.
Qed.

(* ---------- table facts ---------- *)

Lemma is_hex_char_spec c : I.is_hex_char c = is_ascii_hex c.
Proof. exact (hex_digit_class _ C13_cpp11 c). Qed.

Lemma hex_char_to_num_spec c : is_ascii_hex c = true -> I.hex_char_to_num c = hex_val c.
Proof. exact (hex_char_to_num_on_hex _ C13_cpp11 c). Qed.

Lemma is_digit_spec c : I.is_digit c = is_ascii_digit c.
Proof. unfold I.is_digit, is_ascii_digit. apply Bool.andb_comm. Qed.

Lemma hex_val_lt c : is_ascii_hex c = true -> hex_val c < 16.
Proof.
  unfold hex_val, is_ascii_hex, is_ascii_upper_hex, is_ascii_lower_hex, is_ascii_digit. intro H.
  destruct ((48 <=? c) && (c <=? 57)) eqn:E1; [lia|].
  destruct ((65 <=? c) && (c <=? 70)) eqn:E2; lia.
Qed.

Lemma hex_not_colon c : is_ascii_hex c = true -> (c =? 58) = false /\ (c =? 46) = false.
Proof.
  unfold is_ascii_hex, is_ascii_upper_hex, is_ascii_lower_hex, is_ascii_digit. lia.
Qed.

(* ---------- reading hex digits ---------- *)

Definition hexfold (t : str) (val : N) : N := fold_left (fun acc c => acc * 16 + hex_val c) t val.

Definition stops (rest : str) : Prop :=
  match rest with [] => True | c :: _ => is_ascii_hex c = false end.

Lemma read_hex4_app t : forall rest n val,
  forallb is_ascii_hex t = true -> (n + length t <= 4)%nat -> stops rest ->
  S.read_hex4 (t ++ rest) n val = (hexfold t val, (n + length t)%nat, rest).
Proof.
  induction t as [|c t IH]; intros rest n val Ht Hn Hr.
  - cbn [app length hexfold fold_left]. rewrite Nat.add_0_r.
    destruct rest as [|c rest].
    + cbn [length] in Hn. destruct n as [|[|[|[|[|n]]]]]; reflexivity.
    + cbn [stops] in Hr. cbn [length] in Hn.
      destruct n as [|[|[|[|[|n]]]]]; cbn [S.read_hex4]; rewrite ?Hr; try reflexivity; lia.
  - cbn [forallb] in Ht. apply andb_prop in Ht. destruct Ht as [Hc Ht].
    cbn [length] in Hn.
    change ((c :: t) ++ rest) with (c :: (t ++ rest)).
    assert (E : S.read_hex4 (c :: t ++ rest) n val = S.read_hex4 (t ++ rest) (S n) (val * 16 + hex_val c)).
    { destruct n as [|[|[|[|n]]]]; cbn [S.read_hex4]; rewrite ?Hc; try reflexivity. lia. }
    rewrite E. rewrite IH; [|exact Ht|lia|exact Hr].
    cbn [length hexfold fold_left]. f_equal. f_equal. lia.
Qed.

Definition bnd (n : nat) : N :=
  match n with O => 1 | 1%nat => 16 | 2%nat => 256 | 3%nat => 4096 | _ => 65536 end.

Lemma get_hex_number_eq s : forall cap n val, (cap + n = 4)%nat -> val < bnd n ->
  I.get_hex_number cap s val n = S.read_hex4 s n val.
Proof.
  induction s as [|c s IH]; intros cap n val Hcap Hval.
  - destruct cap; destruct n as [|[|[|[|[|n]]]]]; reflexivity.
  - destruct cap as [|cap].
    + cbn [Nat.add] in Hcap. subst n. reflexivity.
    + cbn [I.get_hex_number]. rewrite is_hex_char_spec.
      assert (E : S.read_hex4 (c :: s) n val =
                  if is_ascii_hex c then S.read_hex4 s (S n) (val * 16 + hex_val c) else (val, n, c :: s)).
      { destruct n as [|[|[|[|n]]]]; try reflexivity. lia. }
      rewrite E. destruct (is_ascii_hex c) eqn:Hc; [|reflexivity].
      rewrite (hex_char_to_num_spec c Hc). pose proof (hex_val_lt c Hc) as Hv.
      assert (Hu : I.u16 (val * 16 + hex_val c) = val * 16 + hex_val c /\ val * 16 + hex_val c < bnd (S n)).
      { unfold I.u16. clear - Hcap Hval Hv.
        destruct n as [|[|[|[|n]]]]; cbn [bnd] in *; try lia;
          (split; [apply N.mod_small|]; lia). }
      destruct Hu as [Hu Hb]. rewrite Hu. apply IH; [lia|exact Hb].
Qed.

(* ---------- hex tokens: facts about [hex_str_lower v] for v < 65536, by sweep ---------- *)

Definition tok_ok (v : N) : bool :=
  let t := hex_str_lower v in
  forallb is_ascii_hex t && (1 <=? length t)%nat && (length t <=? 4)%nat &&
  (hexfold t 0 =? v) && list_eqb (I.unsigned_to_str v 16) t.

Lemma tok_ok_all : sweep16 tok_ok = true.
Proof. vm_compute. reflexivity. Qed.

Lemma hex_tok v : v < 65536 ->
  forallb is_ascii_hex (hex_str_lower v) = true /\
  (1 <= length (hex_str_lower v) <= 4)%nat /\
  hexfold (hex_str_lower v) 0 = v /\
  I.unsigned_to_str v 16 = hex_str_lower v.
Proof.
  intro Hv. pose proof (sweep16_sound _ tok_ok_all v Hv) as H. unfold tok_ok in H. cbv zeta in H.
  repeat match type of H with _ && _ = true => let H1 := fresh "H" in apply andb_prop in H; destruct H as [H H1] end.
  split; [exact H|]. split; [lia|]. split; [lia|]. apply list_eqb_eq. assumption.
Qed.

(* ---------- tokens ---------- *)

(* THexC v = the digits of v followed by ':' ; THexEnd v = the digits of v ; TColon = ':' *)
Inductive tok := THexC (v : N) | THexEnd (v : N) | TColon.

Definition print_tok (tf : N -> str) (t : tok) : str :=
  match t with THexC v => tf v ++ [58] | THexEnd v => tf v | TColon => [58] end.

Definition print (tf : N -> str) (toks : list tok) : str := flat_map (print_tok tf) toks.

Lemma print_app tf a b : print tf (a ++ b) = print tf a ++ print tf b.
Proof. unfold print. apply flat_map_app. Qed.

Definition tok_val (t : tok) : N := match t with THexC v => v | THexEnd v => v | TColon => 0 end.

Definition toks_small (toks : list tok) : Prop := Forall (fun t => tok_val t < 65536) toks.

Lemma print_ext tf tg toks :
  Forall (fun t => tf (tok_val t) = tg (tok_val t)) toks -> print tf toks = print tg toks.
Proof.
  unfold print. induction 1 as [|t toks Ht _ IH]; [reflexivity|].
  cbn [flat_map]. rewrite IH. f_equal. destruct t; cbn [print_tok tok_val] in *; congruence.
Qed.

Lemma print_small toks : toks_small toks ->
  print (fun v => I.unsigned_to_str v 16) toks = print hex_str_lower toks.
Proof.
  intro H. apply print_ext. eapply Forall_impl; [|exact H].
  intros t Ht. cbv beta in *. apply hex_tok. exact Ht.
Qed.
