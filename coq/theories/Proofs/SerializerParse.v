(* C01 / C03 — url_serializer as the writer of a PARSE: the path loop (segments written directly into norm_url_,
   shorten_path on the stored string through get_shorten_path / get_path_rem_last / get_path_first_string) refines the
   Standard's operations on the segment list, exactly as the setter's scratch-buffer version does
   (Proofs/SerializerProofs.v: path_push, path_shorten). *)
From Upa Require Import Base.Prelude Spec.Ip Spec.Url Impl.Repr Impl.Serializer.
From Upa Require Import Proofs.ReprProofs Proofs.SerializerProofs.
From Coq Require Import ZifyBool ZifyN ZifyNat.
Local Open Scope N_scope.

Definition no47 (s : str) : Prop := Forall (fun c => c <> 47) s.

Lemma find_last_from_none c B : forall i acc, Forall (fun x => x <> c) B -> find_last_from i c B acc = acc.
Proof.
  induction B as [|b B IH]; intros i acc HB; [reflexivity|]. inversion HB as [|? ? Hb HB']; subst.
  cbn [find_last_from]. destruct (N.eqb_spec b c); [contradiction|]. apply IH. exact HB'.
Qed.

Lemma find_last_from_app c A B : forall i acc, Forall (fun x => x <> c) B ->
  find_last_from i c (A ++ c :: B) acc = Some (i + len A).
Proof.
  induction A as [|a A IH]; intros i acc HB.
  - cbn [app find_last_from]. rewrite N.eqb_refl, find_last_from_none by exact HB. rewrite len_nil, N.add_0_r. reflexivity.
  - cbn [app find_last_from]. rewrite IH by exact HB. rewrite len_cons. f_equal. lia.
Qed.

Lemma find_last_pstr front lst : no47 lst -> find_last 47 (pstr (front ++ [lst])) = Some (len (pstr front)).
Proof.
  intro H. unfold find_last. rewrite pstr_snoc. rewrite find_last_from_app by exact H. reflexivity.
Qed.

(* cutting the stored path back to a prefix X of it: part_end_[PATH] := start + |X|, norm_url_.resize(...) *)
Lemma truncate_path ps f c c' X Y :
  PW ps 9 -> nth 8 ps [] = X ++ Y ->
  let r := conc ps 9 f c in
  let pe := pre 8 ps + len X in
  let r1 := w_segs (set_e r P_PATH pe) c' in
  w_norm r1 (resize (r_norm r1) pe) = conc (setp ps 8 X) 9 f c'.
Proof.
  intros HPW HP. pose proof HPW as [Hlen Hn Hsch Htail]. cbv zeta.
  unfold w_norm, w_segs, set_e, w_ends, resize, conc. cbn [r_norm r_ends r_flags r_segs]. change P_PATH with 8%nat.
  assert (Hnorm : concat ps = concat (firstn 8 ps) ++ X ++ Y).
  { rewrite (concat_split ps 8) at 1. f_equal. rewrite (skipn_nth_cons ps 8) by lia. cbn [concat]. rewrite HP.
    rewrite (concat_skipn_nil ps 9 9 Htail) by lia. apply app_nil_r. }
  set (ps1 := setp ps 8 X).
  assert (Hl1 : length ps1 = 11%nat) by (unfold ps1, setp; rewrite splice_length; lia).
  assert (Hc1 : concat ps1 = concat (firstn 8 ps) ++ X).
  { unfold ps1, setp. rewrite splice_concat, (concat_skipn_nil ps 9 9 Htail) by lia. rewrite app_nil_r. reflexivity. }
  f_equal.
  - rewrite Hc1, Hnorm. unfold pre. rewrite <- len_app, to_nat_len, app_assoc. apply firstn_len_app.
  - apply (nth_ext _ _ 0 0); [rewrite upd_length, !ends_of_length; lia|].
    intros j Hj. rewrite upd_length, ends_of_length in Hj by lia.
    rewrite nth_upd, ends_of_length, !nth_ends_of by lia.
    destruct (Nat.ltb_spec j (length ps)); [|lia]. destruct (Nat.eqb_spec j 8) as [->|Hne]; cbn [andb].
    + destruct (Nat.ltb_spec 8 9); [|lia].
      assert (Ht1 : forall k, (9 <= k)%nat -> nth k ps1 [] = []).
      { intros k Hk. unfold ps1. rewrite nth_setp by lia. destruct (Nat.eqb_spec k 8); [lia|]. apply Htail. exact Hk. }
      rewrite (pre_tail ps1 9 9 Ht1) by lia. rewrite Hc1, len_app. reflexivity.
    + destruct (Nat.ltb_spec j 9); [|reflexivity].
      unfold ps1, setp. rewrite pre_splice by (lia || (intro; lia)). destruct (Nat.leb_spec (S j) 8); [reflexivity|lia].
Qed.

(* the path a parse has written so far: piece PATH is the text of the segment list, the counter its length *)
Definition SP (s : sst) (ps : list str) (f : N) (segs : list str) : Prop :=
  PW ps 9 /\ s_r s = conc ps 9 f (N.of_nat (length segs)) /\ nth 8 ps [] = pstr segs /\ s_last s = P_PATH.

Lemma pstr_cons x segs : pstr (x :: segs) = (47 :: x) ++ pstr segs.
Proof. reflexivity. Qed.

Lemma path_first_single ps f c x : PW ps 9 -> nth 8 ps [] = 47 :: x -> no47 x -> N.testbit f 11 = false ->
  match path_first_string (conc ps 9 f c) 2 with [c1; c2] => is_norm_win_drive c1 c2 | _ => false end =
  match x with [c1; c2] => is_norm_win_drive c1 c2 | _ => false end.
Proof.
  intros HPW HP Hx Hop. unfold path_first_string.
  rewrite (part_view_conc ps 9 f c P_PATH HPW) by (unfold P_PATH; lia). unfold P_PATH, kstart. cbn [N.to_nat skipn]. rewrite HP.
  assert (Ho : r_has_opaque_path (conc ps 9 f c) = false) by exact Hop. rewrite Ho.
  destruct x as [|a [|b [|d t]]].
  - reflexivity.
  - reflexivity.
  - reflexivity.
  - (* three or more code units: the third one is not '/' *)
    assert (Hd : d <> 47). { inversion Hx as [|? ? _ H1]; inversion H1 as [|? ? _ H2]; inversion H2; assumption. }
    rewrite !len_cons. cbn [nthN N.to_nat Pos.to_nat Pos.iter_op Nat.add].
    destruct (N.eqb_spec (1 + (1 + (1 + len t))) 2); [lia|]. cbn [orb].
    destruct (2 <? 1 + (1 + (1 + len t))); cbn [andb]; [|reflexivity].
    destruct d as [|p]; [reflexivity|]. repeat (destruct p as [p|p|]; try reflexivity). exfalso. apply Hd. reflexivity.
Qed.

Lemma SP_setp s ps f ps' segs' :
  PW ps 9 -> ps' = setp ps 8 (pstr segs') -> s_r s = conc ps' 9 f (N.of_nat (length segs')) -> s_last s = P_PATH ->
  SP s ps' f segs'.
Proof.
  intros HPW -> Hr Hl. split; [|split; [exact Hr|split; [|exact Hl]]].
  - pose proof (setp_PW ps 9 8 (pstr segs') HPW ltac:(lia)) as H. exact H.
  - destruct HPW as [Hlen _ _ _]. rewrite nth_setp by lia. reflexivity.
Qed.

(* url_serializer::shorten_path on the stored string = the Standard's "shorten a url's path" on the segment list *)
Lemma ser_path_shorten s ps f segs :
  SP s ps f segs -> Forall no47 segs -> N.testbit f 11 = false ->
  SP (ser_shorten_path s) (setp ps 8 (pstr (shorten_segs (s_file s) segs))) f (shorten_segs (s_file s) segs) /\
  s_file (ser_shorten_path s) = s_file s.
Proof.
  intros [HPW [Hr [HP Hl]]] Hno Hop. pose proof HPW as [Hlen Hn Hsch Htail].
  assert (Hkeep : forall segs', segs' = segs ->
            SP s (setp ps 8 (pstr segs')) f segs').
  { intros segs' ->. apply (SP_setp s ps f); auto. rewrite <- HP, setp_same by lia. exact Hr. }
  unfold ser_shorten_path, get_shorten_path. rewrite Hr.
  change (r_segs (conc ps 9 f (N.of_nat (length segs)))) with (N.of_nat (length segs)).
  destruct segs as [|x rest].
  - (* no segment: nothing happens *)
    cbn [length N.of_nat N.eqb shorten_segs]. split; [apply Hkeep; reflexivity|reflexivity].
  - destruct (N.eqb_spec (N.of_nat (length (x :: rest))) 0) as [E|_]; [cbn [length] in E; lia|].
    assert (Hx : no47 x) by (inversion Hno; assumption).
    (* the drive-letter exception *)
    assert (Hdrive : rest = [] ->
      (s_file s && (N.of_nat (length (x :: rest)) =? 1) &&
       match path_first_string (conc ps 9 f (N.of_nat (length (x :: rest)))) 2 with [c1; c2] => is_norm_win_drive c1 c2 | _ => false end)
      = (s_file s && match x with [c1; c2] => is_norm_win_drive c1 c2 | _ => false end)).
    { intros ->. rewrite (path_first_single ps f _ x HPW) by (auto; rewrite HP; unfold pstr; cbn; rewrite app_nil_r; reflexivity).
      cbn [length N.of_nat Pos.of_succ_nat N.eqb Pos.eqb]. rewrite Bool.andb_true_r. reflexivity. }
    (* removing the last segment: segs = front ++ [lst] *)
    assert (Hne : x :: rest <> []) by discriminate.
    destruct (exists_last Hne) as [front [lst Hfl]].
    assert (Hlst : no47 lst).
    { rewrite Hfl in Hno. apply Forall_app in Hno. destruct Hno as [_ H1]. inversion H1; assumption. }
    assert (Hrem : path_rem_last (conc ps 9 f (N.of_nat (length (x :: rest)))) =
                   Some (pre 8 ps + len (pstr front), N.of_nat (length (x :: rest)) - 1)).
    { unfold path_rem_last. change (r_segs (conc ps 9 f (N.of_nat (length (x :: rest))))) with (N.of_nat (length (x :: rest))).
      destruct (N.ltb_spec 0 (N.of_nat (length (x :: rest)))) as [_|E]; [|cbn [length] in E; lia].
      change (pred P_PATH) with 7%nat. change P_PATH with 8%nat. rewrite !en_conc by lia.
      destruct (Nat.ltb_spec 7 9); [|lia]. destruct (Nat.ltb_spec 8 9); [|lia].
      assert (Hsub : substr (r_norm (conc ps 9 f (N.of_nat (length (x :: rest))))) (pre 8 ps) (pre 9 ps - pre 8 ps) = nth 8 ps []).
      { unfold conc. cbn [r_norm]. rewrite (concat_split ps 8), (skipn_nth_cons ps 8) by lia. cbn [concat].
        replace (pre 8 ps) with (len (concat (firstn 8 ps)) + 0) at 1 by (unfold pre; lia).
        rewrite substr_app. cbn [N.to_nat skipn]. rewrite (pre_S 8) by lia.
        replace (pre 8 ps + len (nth 8 ps []) - pre 8 ps) with (len (nth 8 ps [])) by lia.
        rewrite to_nat_len. apply firstn_len_app. }
      rewrite Hsub, HP, Hfl, (find_last_pstr front lst Hlst). reflexivity. }
    assert (Hremove : SP (let r := conc ps 9 f (N.of_nat (length (x :: rest))) in
                          let pe := pre 8 ps + len (pstr front) in
                          let r1 := w_segs (set_e r P_PATH pe) (N.of_nat (length (x :: rest)) - 1) in
                          w_r s (w_norm r1 (resize (r_norm r1) pe)))
                         (setp ps 8 (pstr front)) f front).
    { cbv zeta. apply (SP_setp _ ps f); auto. cbn [w_r s_r].
      rewrite (truncate_path ps f (N.of_nat (length (x :: rest))) (N.of_nat (length (x :: rest)) - 1) (pstr front) (47 :: lst) HPW)
        by (rewrite HP, Hfl, pstr_snoc; reflexivity).
      f_equal. rewrite Hfl, app_length. cbn [length]. lia. }
    destruct rest as [|y rest'].
    + (* one segment *)
      rewrite (Hdrive eq_refl). cbn [shorten_segs].
      destruct (s_file s && match x with [c1; c2] => is_norm_win_drive c1 c2 | _ => false end).
      * split; [apply Hkeep; reflexivity|reflexivity].
      * rewrite Hrem. assert (front = []) as Hf0.
        { destruct front as [|a front']; [reflexivity|]. exfalso. apply (f_equal (@length str)) in Hfl.
          rewrite app_length in Hfl. cbn [length] in Hfl. lia. }
        subst front. cbv zeta in Hremove. split; [exact Hremove|reflexivity].
    + (* two or more segments *)
      assert (H1 : (N.of_nat (length (x :: y :: rest')) =? 1) = false) by (apply N.eqb_neq; cbn [length]; lia).
      rewrite H1, Bool.andb_false_r. cbn [andb].
      rewrite Hrem.
      assert (Hsh : shorten_segs (s_file s) (x :: y :: rest') = front).
      { cbn [shorten_segs]. rewrite Hfl. apply removelast_last. }
      rewrite Hsh. cbv zeta in Hremove. split; [exact Hremove|reflexivity].
Qed.

(* ---------- the path loop of a parse ---------- *)

Lemma do_append_nil s : s_tgt s = false -> do_append s [] = s.
Proof.
  destruct s as [[nm en fl sg] fi la us st pse cu tg]. cbn [s_tgt]. intros ->.
  unfold do_append, w_r, app_norm, w_norm. cbn [s_tgt s_r s_file s_last s_use s_strp s_pse s_curr r_norm r_ends r_flags r_segs].
  rewrite app_nil_r. reflexivity.
Qed.

Section PathLoop.
Variable ps0 : list str.
Variable m : nat.
Variable f : N.
Hypothesis HPW0 : PW ps0 m.
Hypothesis Hm : (5 <= m <= 8)%nat.
Hypothesis Hop : N.testbit f 11 = false.

(* J s segs: either nothing of the path has been written, or piece PATH is the text of [segs] *)
Definition J (s : sst) (segs : list str) : Prop :=
  (segs = [] /\ s_r s = conc ps0 m f 0 /\ s_last s = (m - 1)%nat) \/
  (s_r s = conc (setp ps0 8 (pstr segs)) 9 f (N.of_nat (length segs)) /\ s_last s = P_PATH).

Lemma PW9 X : PW (setp ps0 8 X) 9.
Proof. pose proof (setp_PW ps0 m 8 X HPW0 ltac:(lia)) as H. replace (Nat.max m 9) with 9%nat in H by lia. exact H. Qed.

Lemma setp_length (ps : list str) k x : (k < length ps)%nat -> length (setp ps k x) = length ps.
Proof. intro H. unfold setp. apply splice_length; [lia|exact H]. Qed.

Lemma setp_setp X Y : setp (setp ps0 8 X) 8 Y = setp ps0 8 Y.
Proof.
  destruct HPW0 as [Hlen _ _ _].
  assert (Hl1 : length (setp ps0 8 X) = 11%nat) by (rewrite setp_length; lia).
  assert (Hl2 : length (setp (setp ps0 8 X) 8 Y) = 11%nat) by (rewrite setp_length; lia).
  assert (Hl3 : length (setp ps0 8 Y) = 11%nat) by (rewrite setp_length; lia).
  apply (nth_ext _ _ [] []); [transitivity 11%nat; [exact Hl2|symmetry; exact Hl3]|].
  intros j Hj. rewrite !nth_setp by (try exact Hl1; lia). destruct (Nat.eqb_spec j 8); reflexivity.
Qed.

Lemma J_push s segs x : J s segs ->
  let s1 := v_save_path_segment false (do_append (v_start_path_segment false s) x) in
  J s1 (segs ++ [x]) /\ s_file s1 = s_file s.
Proof.
  intros [[-> [Hr Hl]]|[Hr Hl]]; cbv zeta.
  - destruct (ser_path_push_first ps0 m f 0 x s HPW0 Hm Hr Hl) as [H1 H2]. cbv zeta in H1, H2. split.
    + right. split; [|exact H2]. rewrite H1. cbn [app length N.of_nat Pos.of_succ_nat]. f_equal.
      unfold pstr. cbn [map concat]. rewrite app_nil_r. reflexivity.
    + unfold v_save_path_segment, v_start_path_segment, v_start_part, v_save_part, do_append, ser_save_part, ser_start_part.
      repeat match goal with |- context [if ?b then _ else _] => destruct b end;
      repeat match goal with |- context [let '(_, _) := ?x in _] => destruct x end; reflexivity.
  - destruct (ser_path_push_next (setp ps0 8 (pstr segs)) f (N.of_nat (length segs)) x s (PW9 _) Hr Hl) as [H1 H2].
    cbv zeta in H1, H2. split.
    + right. split; [|exact H2]. rewrite H1. destruct HPW0 as [Hlen _ _ _].
      rewrite nth_setp by lia. cbn [Nat.eqb]. rewrite setp_setp, pstr_snoc, app_length. cbn [length].
      f_equal. lia.
    + unfold v_save_path_segment, v_start_path_segment, v_start_part, v_save_part, do_append, ser_save_part, ser_start_part.
      repeat match goal with |- context [if ?b then _ else _] => destruct b end;
      repeat match goal with |- context [let '(_, _) := ?x in _] => destruct x end; reflexivity.
Qed.

Lemma J_shorten s segs : J s segs -> Forall no47 segs ->
  J (ser_shorten_path s) (shorten_segs (s_file s) segs) /\ s_file (ser_shorten_path s) = s_file s.
Proof.
  intros [[-> [Hr Hl]]|[Hr Hl]] Hno.
  - (* nothing written: the counter is 0 *)
    unfold ser_shorten_path, get_shorten_path. rewrite Hr.
    change (r_segs (conc ps0 m f 0)) with 0. cbn [N.eqb shorten_segs]. split; [|reflexivity]. left. auto.
  - assert (HSP : SP s (setp ps0 8 (pstr segs)) f segs).
    { split; [apply PW9|split; [exact Hr|split; [|exact Hl]]]. destruct HPW0 as [Hlen _ _ _]. rewrite nth_setp by lia. reflexivity. }
    destruct (ser_path_shorten s _ f segs HSP Hno Hop) as [[_ [Hr' [_ Hl']]] Hf]. split; [|exact Hf].
    right. rewrite setp_setp in Hr'. split; assumption.
Qed.
End PathLoop.

(* adjust_path_prefix on a representation whose PATH piece is the text of [segs] and whose counter is their number *)
Lemma adjust_conc ps n f segs :
  PW ps n -> (9 <= n)%nat -> nth 8 ps [] = pstr segs ->
  (nth 7 ps [] = [] \/ nth 7 ps [] = [47; 46]) ->
  adjust_path_prefix (conc ps n f (N.of_nat (length segs))) =
  conc (setp ps 7 (new_prefix f segs)) n f (N.of_nat (length segs)).
Proof.
  intros HPW Hn9 HP Hpre. pose proof HPW as [Hlen Hn Hsch Htail].
  set (c' := N.of_nat (length segs)).
  unfold adjust_path_prefix.
  assert (Hnull : r_is_null (conc ps n f c') P_HOST = negb (N.testbit f 5)) by reflexivity.
  assert (Hsegs : r_segs (conc ps n f c') = c') by reflexivity.
  assert (Hpv : part_view (conc ps n f c') P_PATH = pstr segs).
  { rewrite part_view_conc by (auto; unfold P_PATH; lia). unfold P_PATH, kstart. cbn [N.to_nat skipn]. exact HP. }
  assert (Hemp : r_is_empty (conc ps n f c') P_PATH_PREFIX = (len (nth 7 ps []) <=? 0)).
  { rewrite is_empty_conc by (auto; unfold P_PATH_PREFIX; lia). reflexivity. }
  rewrite Hnull, Hsegs, Hpv, Hemp.
  change (if negb (N.testbit f 5) && (1 <? c') then match pstr segs with a :: b :: _ => if (a =? 47) && (b =? 47) then [47; 46] else [] | _ => [] end else [])
    with (new_prefix f segs).
  unfold P_PATH_PREFIX in *.
  destruct (replace_part_conc ps n f c' 7 7 (new_prefix f segs) 0 HPW ltac:(lia) ltac:(lia) ltac:(intro; lia)) as [Hrp2 _].
  fold (setp ps 7 (new_prefix f segs)) in Hrp2.
  assert (Hnp : new_prefix f segs = [] \/ new_prefix f segs = [47; 46]).
  { unfold new_prefix. destruct (negb (N.testbit f 5) && (1 <? N.of_nat (length segs))); [|left; reflexivity].
    destruct (pstr segs) as [|a [|b t]]; try (left; reflexivity).
    destruct ((a =? 47) && (b =? 47)); [right|left]; reflexivity. }
  destruct Hpre as [Hold|Hold]; destruct Hnp as [Hnew|Hnew]; rewrite Hold, Hnew;
    cbn [len length N.of_nat N.leb N.compare Pos.of_succ_nat Pos.succ Pos.compare Pos.compare_cont Bool.eqb negb].
  - assert (Hs7 : setp ps 7 [] = ps) by (rewrite <- Hold; apply setp_same; lia). rewrite Hs7. reflexivity.
  - unfold replace_part1. rewrite <- Hnew. exact Hrp2.
  - unfold replace_part1. rewrite <- Hnew. exact Hrp2.
  - assert (Hs7 : setp ps 7 [47; 46] = ps) by (rewrite <- Hold; apply setp_same; lia). rewrite Hs7. reflexivity.
Qed.

Lemma removelast_Forall {A} (P : A -> Prop) (l : list A) : Forall P l -> Forall P (removelast l).
Proof.
  induction l as [|x l IH]; intro H; [constructor|]. inversion H as [|? ? Hx Hl]; subst.
  destruct l as [|y l']; [constructor|]. change (removelast (x :: y :: l')) with (x :: removelast (y :: l')).
  constructor; [exact Hx|apply IH; exact Hl].
Qed.

Lemma shorten_no47 file segs : Forall no47 segs -> Forall no47 (shorten_segs file segs).
Proof.
  intro H. destruct segs as [|x [|y rest]]; cbn [shorten_segs].
  - constructor.
  - destruct (file && match x with [c1; c2] => is_norm_win_drive c1 c2 | _ => false end); [exact H|constructor].
  - apply removelast_Forall. exact H.
Qed.

Definition pushed_ok (l : list pop) : Prop := Forall (fun o => match o with PPush x => no47 x | _ => True end) l.

Section PathTheorem.
Variable ps0 : list str.
Variable m : nat.
Variable f : N.
Hypothesis HPW0 : PW ps0 m.
Hypothesis Hm : (5 <= m <= 8)%nat.
Hypothesis Hop : N.testbit f 11 = false.
Hypothesis H7 : nth 7 ps0 [] = [].

Lemma ser_path_ops : forall l s segs, J ps0 m f s segs -> Forall no47 segs -> pushed_ok l ->
  let s' := run false s (flat_map cops l) in
  J ps0 m f s' (fold_left (pinterp (s_file s)) l segs) /\ s_file s' = s_file s.
Proof.
  induction l as [|o l IH]; intros s segs HJ Hno Hok.
  - cbn. split; [exact HJ|reflexivity].
  - inversion Hok as [|? ? Ho Hl]; subst. cbn [flat_map fold_left]. rewrite run_app.
    assert (Hstep : J ps0 m f (run false s (cops o)) (pinterp (s_file s) segs o) /\
                    s_file (run false s (cops o)) = s_file s /\ Forall no47 (pinterp (s_file s) segs o)).
    { destruct o as [x| |]; cbn [cops run fold_left step pinterp].
      - destruct (J_push ps0 m f HPW0 Hm Hop s segs x HJ) as [H1 H2]. cbv zeta in H1, H2. split; [exact H1|split; [exact H2|]].
        apply Forall_app. split; [exact Hno|constructor; [exact Ho|constructor]].
      - destruct (J_push ps0 m f HPW0 Hm Hop s segs [] HJ) as [H1 H2]. cbv zeta in H1, H2.
        assert (Hnil : do_append (v_start_path_segment false s) [] = v_start_path_segment false s).
        { apply do_append_nil. unfold v_start_path_segment, v_start_part, w_r. cbn [s_tgt]. apply ser_start_part_tgt. }
        rewrite Hnil in H1, H2. unfold do_append_empty_path_segment. split; [exact H1|split; [exact H2|]].
        apply Forall_app. split; [exact Hno|constructor; [constructor|constructor]].
      - destruct (J_shorten ps0 m f HPW0 Hm Hop s segs HJ Hno) as [H1 H2]. split; [exact H1|split; [exact H2|]].
        apply shorten_no47. exact Hno. }
    destruct Hstep as [H1 [H2 H3]].
    specialize (IH (run false s (cops o)) (pinterp (s_file s) segs o) H1 H3 Hl). cbv zeta in IH.
    rewrite H2 in IH. destruct IH as [I1 I2]. split; [exact I1|congruence].
Qed.

(* the state after the path part of a parse (raw, with the real 0-encoding): either nothing was written and the
   object is as before, or PATH_PREFIX / PATH are written and the last written part is PATH *)
Lemma ser_pathname_raw l s file :
  s_r s = conc ps0 m f 0 -> s_last s = (m - 1)%nat -> s_file s = file -> pushed_ok l ->
  let segs := fold_left (pinterp file) l [] in
  let s' := run false s (flat_map cops l ++ [OCommitPath]) in
  s_file s' = file /\
  ((segs = [] /\ s_r s' = conc ps0 m f 0 /\ s_last s' = (m - 1)%nat) \/
   (s_r s' = conc (setp (setp ps0 8 (pstr segs)) 7 (new_prefix f segs)) 9 f (N.of_nat (length segs)) /\ s_last s' = P_PATH)).
Proof.
  intros Hr Hl Hf Hok. cbv zeta. rewrite run_app.
  assert (HJ0 : J ps0 m f s []) by (left; auto).
  destruct (ser_path_ops l s [] HJ0 ltac:(constructor) Hok) as [HJ Hfile]. cbv zeta in HJ, Hfile. rewrite Hf in HJ, Hfile.
  set (segs := fold_left (pinterp file) l []) in *.
  cbn [run fold_left step]. unfold v_commit_path. cbn [w_r s_r s_file s_last]. split; [exact Hfile|].
  pose proof HPW0 as [Hlen Hn Hsch Htail].
  destruct HJ as [[Hs0 [Hr' Hl']]|[Hr' Hl']].
  - left. rewrite Hr'. split; [exact Hs0|]. split; [|exact Hl'].
    unfold adjust_path_prefix.
    change (r_segs (conc ps0 m f 0)) with 0. change (1 <? 0) with false. rewrite Bool.andb_false_r.
    assert (He : r_is_empty (conc ps0 m f 0) P_PATH_PREFIX = true).
    { unfold r_is_empty, P_PATH_PREFIX.
      change (E (conc ps0 m f 0) 7) with (en (conc ps0 m f 0) 7). change (E (conc ps0 m f 0) 6) with (en (conc ps0 m f 0) 6).
      rewrite !en_conc by lia. unfold kstart.
      destruct (Nat.ltb_spec 7 m); destruct (Nat.ltb_spec 6 m); try lia; apply N.leb_le; try lia.
      rewrite (pre_S 7) by lia. rewrite H7, len_nil. lia. }
    rewrite He. reflexivity.
  - right. rewrite Hr'. split; [|exact Hl'].
    assert (HP9 : PW (setp ps0 8 (pstr segs)) 9) by (apply (PW9 ps0 m f); assumption).
    assert (Hl9 : length (setp ps0 8 (pstr segs)) = 11%nat) by (destruct HP9; assumption).
    rewrite (adjust_conc (setp ps0 8 (pstr segs)) 9 f segs HP9 ltac:(lia)).
    + reflexivity.
    + rewrite nth_setp by lia. reflexivity.
    + left. rewrite nth_setp by lia. cbn [Nat.eqb]. exact H7.
Qed.

(* the path part of a parse: any sequence of segment appends and shortenings, then commit_path *)
Theorem ser_pathname_pieces l s file :
  s_r s = conc ps0 m f 0 -> s_last s = (m - 1)%nat -> s_file s = file -> pushed_ok l ->
  let segs := fold_left (pinterp file) l [] in
  norm_tail (s_r (run false s (flat_map cops l ++ [OCommitPath]))) =
  conc (setp (setp ps0 8 (pstr segs)) 7 (new_prefix f segs)) 11 f (N.of_nat (length segs)).
Proof.
  intros Hr Hl Hf Hok. cbv zeta.
  destruct (ser_pathname_raw l s file Hr Hl Hf Hok) as [_ Hraw]. cbv zeta in Hraw.
  pose proof HPW0 as [Hlen Hn Hsch Htail].
  destruct Hraw as [[Hs0 [Hr' _]]|[Hr' _]]; rewrite Hr'.
  - rewrite Hs0, (norm_tail_conc ps0 m f 0 HPW0).
    cbn [pstr map concat length N.of_nat].
    assert (Hnp : new_prefix f [] = []) by (unfold new_prefix; cbn [length N.of_nat]; change (1 <? 0) with false; rewrite Bool.andb_false_r; reflexivity).
    rewrite Hnp.
    assert (H8 : nth 8 ps0 [] = []) by (apply Htail; lia).
    assert (Hs8 : setp ps0 8 [] = ps0) by (rewrite <- H8 at 1; apply setp_same; lia).
    rewrite Hs8.
    assert (Hs7 : setp ps0 7 [] = ps0) by (rewrite <- H7 at 1; apply setp_same; lia).
    rewrite Hs7. reflexivity.
  - set (segs := fold_left (pinterp file) l []) in *.
    assert (HP9 : PW (setp ps0 8 (pstr segs)) 9) by (apply (PW9 ps0 m f); assumption).
    apply norm_tail_conc.
    pose proof (setp_PW (setp ps0 8 (pstr segs)) 9 7 (new_prefix f segs) HP9 ltac:(lia)) as HP.
    replace (Nat.max 9 8) with 9%nat in HP by lia. exact HP.
Qed.
End PathTheorem.

(* ---------------------------------------------------------------------------------- *)
(* the authority part of a parse: scheme, "//", credentials, host                      *)
(* ---------------------------------------------------------------------------------- *)

Definition empty_repr : repr := mk_repr [] [0;0;0;0;0;0;0;0;0;0;0] 269 0.
Definition empty_sst : sst := init_sst empty_repr false.

(* what the parser does for "scheme://[user[:password]@]host" *)
Definition auth_ops (sc us pw h : str) (ht : N) : list sop :=
  [OStartScheme; OAppend sc; OSaveScheme] ++
  (match us, pw with
   | [], [] => []
   | _, [] => [OStartPart P_USERNAME; OAppend us; OSavePart]
   | _, _ => [OStartPart P_USERNAME; OAppend us; OSavePart; OStartPart P_PASSWORD; OAppend pw; OSavePart]
   end) ++
  [OHostStart; OAppend h; OHostDone ht].

Definition auth_pieces (sc us pw h : str) : list str :=
  let cred := match us, pw with [], [] => false | _, _ => true end in
  [sc; [58; 47; 47]; us; (match pw with [] => [] | _ => 58 :: pw end); (if cred then [64] else []); h; []; []; []; []; []].

Lemma leb0 x : (0 <=? x) = true.
Proof. apply N.leb_le. lia. Qed.

Theorem ser_authority sc us pw h ht :
  let s1 := run false empty_sst (auth_ops sc us pw h ht) in
  s_r s1 = conc (auth_pieces sc us pw h) 6 (host_flags 269 ht) 0 /\ s_last s1 = P_HOST /\ s_file s1 = is_file_str sc.
Proof.
  cbv zeta. unfold auth_ops, auth_pieces.
  destruct us as [|u0 us']; destruct pw as [|p0 pw'];
    cbn [app run fold_left step];
    unfold v_start_scheme, v_save_scheme, v_start_part, v_save_part, do_host_done, do_append, empty_sst, init_sst, empty_repr;
    cbv beta iota zeta delta [w_r w_last w_strp w_pse w_use w_curr w_tgt w_file w_norm w_ends w_flags w_segs
      s_r s_file s_last s_use s_strp s_pse s_curr s_tgt r_norm r_ends r_flags r_segs
      ser_start_part ser_save_part set_e app_norm upd fill_range fill_from en E nth v_save_part v_start_part do_host_done do_append
      P_SCHEME P_SCHEME_SEP P_USERNAME P_PASSWORD P_HOST_START P_HOST P_PORT P_PATH_PREFIX P_PATH P_QUERY P_FRAGMENT
      Nat.eqb Nat.leb Nat.ltb andb orb negb set_host_type r_is_empty kstart part_view substr];
    rewrite ?leb0; cbn [negb app];
    (split; [|split; [reflexivity|]]).
  all: try (cbn [N.to_nat skipn firstn]; rewrite to_nat_len, firstn_all; reflexivity).
  all: unfold conc, ends_of, host_flags; cbn [concat app scan_ends firstn repeat length Nat.sub]; f_equal.
  all: try (rewrite ?app_nil_r, <- ?app_assoc; cbn [app]; reflexivity).
  all: repeat rewrite len_app; repeat rewrite len_cons; rewrite ?len_nil; repeat (f_equal; try lia).
Qed.
