(* C02 — definitions: the clauses a URL record needs, on top of [Canon] (C08), so that parsing
   its href gives the record back; the Standard-made exception ([file_quirk]). *)
From Upa Require Import Base.Prelude Spec.CodePoints Spec.Utf Spec.Percent Spec.Ip Spec.Url.
From Upa Require Import Proofs.CanonDefs.
Local Open Scope N_scope.

(* ---------- the Standard-made exception ---------- *)
(* a Windows drive letter that is not normalized: "X|" *)
Definition quirky_drive (seg : str) : bool :=
  is_windows_drive_letter seg && negb (is_normalized_windows_drive_letter seg).

Definition first_seg_quirky (pa : upath) : bool :=
  match pa with PList (s :: _) => quirky_drive s | _ => false end.
Definition host_is_localhost (ho : option host) : bool :=
  match ho with Some h => host_eq_localhost h | None => false end.

(* scheme "file" with the host "localhost" or with a first path segment "X|": the file state /
   file host state / path state of the parser never produce these, the protocol setter
   (scheme state with a state override) leaves host and path as they are *)
Definition file_quirk (u : url) : bool :=
  is_file u && (host_is_localhost (uhost u) || first_seg_quirky (path u)).
Definition FileQuirk (u : url) : Prop := file_quirk u = true.

(* ---------- the additional clauses ---------- *)
Definition not_dot (seg : str) : Prop := is_single_dot seg = false /\ is_double_dot seg = false.

(* (a) no path segment is a single- or double-dot segment (the %2e forms included) *)
Definition nodots_f (pa : upath) : Prop := forall l, pa = PList l -> Forall not_dot l.

(* (b) an opaque path does not start with "/" and, when query and fragment are null, does not
       end with U+0020 *)
Definition opaque2_f (pa : upath) (q f : option str) : Prop :=
  forall o, pa = POpaque o ->
    starts_with [47] o = false /\ (q = None -> f = None -> last_opt o <> Some 32).

Section WithIdna.
Variable idna : list N -> option (list N).

(* (c) the kind of host fits the scheme: domains and IPv4 addresses only with special schemes,
       opaque hosts only with non-special schemes; a domain does not end in a number and is a
       fixed point of domain-to-ASCII *)
Definition hostkind_f (s : str) (ho : option host) : Prop :=
  match ho with
  | None => True
  | Some (HDomain d) => is_special_scheme s = true /\ ends_in_number d = false /\ idna d = Some d
  | Some (HIpv4 _) => is_special_scheme s = true
  | Some (HOpaque _) => is_special_scheme s = false
  | Some (HIpv6 _) => True
  | Some HEmpty => True
  end.

(* (d) with a null host the path is not the empty list (it is opaque, or it has a segment) *)
Definition nullhost_path_f (ho : option host) (pa : upath) : Prop := ho = None -> pa <> PList [].

Definition nodots (u : url) : Prop := nodots_f (path u).
Definition opaque2 (u : url) : Prop := opaque2_f (path u) (query u) (fragment u).
Definition hostkind (u : url) : Prop := hostkind_f (scheme u) (uhost u).
Definition nullhost_path (u : url) : Prop := nullhost_path_f (uhost u) (path u).

Definition Extra (u : url) : Prop := nodots u /\ opaque2 u /\ hostkind u /\ nullhost_path u.

(* everything but the exception: what ALL setters preserve *)
Definition Canon2w (u : url) : Prop := Canon u /\ Extra u.
(* what reparse needs, and what the parser and all setters but the protocol setter preserve *)
Definition Canon2 (u : url) : Prop := Canon u /\ Extra u /\ ~ FileQuirk u.

Lemma Canon2_w u : Canon2 u -> Canon2w u.
Proof. intros (H1 & H2 & _). split; assumption. Qed.

Lemma Canon2_intro u : Canon2w u -> file_quirk u = false -> Canon2 u.
Proof. intros [H1 H2] H3. split; [exact H1|]. split; [exact H2|]. unfold FileQuirk. rewrite H3. discriminate. Qed.

Lemma Canon2_noquirk u : Canon2 u -> file_quirk u = false.
Proof. intros (_ & _ & H). unfold FileQuirk in H. destruct (file_quirk u); [exfalso; apply H; reflexivity|reflexivity]. Qed.

End WithIdna.

(* the ICU premise of the invariance theorems: ToASCII is idempotent on its successful outputs *)
Definition idna_idem (idna : list N -> option (list N)) : Prop :=
  forall d r, idna d = Some r -> idna r = Some r.

(* ---------- percent-encoding is the identity on strings outside the set ---------- *)
Lemma pe_id set s : Forall (fun c => set c = false) s -> utf8_percent_encode set s = s.
Proof.
  induction 1 as [|c s Hc _ IH]; [reflexivity|]. unfold utf8_percent_encode in *. cbn [flat_map].
  rewrite IH. unfold utf8_percent_encode_cp. rewrite Hc. reflexivity.
Qed.
