(* C02 — invariance: every record the basic URL parser returns satisfies [Canon2]; the API setters
   other than the protocol setter and the URLSearchParams update steps preserve [Canon2] (and
   [Canon2w]); the protocol setter preserves [Canon2w], and is the only way to make the file quirk. *)
From Upa Require Import Base.Prelude Spec.CodePoints Spec.Utf Spec.Percent Spec.Ip Spec.Url Spec.UrlEncoded.
From Upa Require Import Proofs.SearchParamsProofs Proofs.Ipv4Proofs Proofs.Ipv6Base Proofs.Ipv6Ser
  Proofs.CanonDefs Proofs.CanonStep Proofs.CanonProofs Proofs.ReparseDefs Proofs.Canon2Step.
From Coq Require Import ZifyBool ZifyN ZifyNat.
Local Open Scope N_scope.

(* ---------------- the stripped input does not end with a space ---------------- *)
Lemma strip_last (s : str) x : last_opt (strip_c0_space s) = Some x -> is_c0_or_space x = false.
Proof.
  unfold strip_c0_space. rewrite last_opt_rev.
  destruct (drop_while is_c0_or_space (rev (drop_while is_c0_or_space s))) as [|y r] eqn:E; [discriminate|].
  intro H. injection H as <-. exact (drop_while_head _ _ _ _ E).
Qed.

Lemma parser_input_nosp (s : str) : last_opt (remove_tab_newline (strip_c0_space s)) <> Some 32.
Proof.
  destruct (last_opt (strip_c0_space s)) as [x|] eqn:E.
  - pose proof (strip_last s x E) as Hx. unfold remove_tab_newline.
    rewrite (last_opt_filter _ _ x E).
    + intro H. injection H as ->. discriminate.
    + unfold is_c0_or_space in Hx. unfold is_tab_or_newline. lia.
  - apply last_opt_none in E. rewrite E. discriminate.
Qed.

(* ---------------- trailing spaces of an opaque path ---------------- *)
Lemma strip_trailing_last (p : str) : last_opt (strip_trailing_spaces p) <> Some 32.
Proof.
  unfold strip_trailing_spaces. rewrite last_opt_rev.
  destruct (drop_while (fun c => c =? 32) (rev p)) as [|y r] eqn:E; [discriminate|].
  apply drop_while_head in E. intro H. injection H as ->. discriminate.
Qed.

Lemma strip_trailing_prefix (p : str) : exists t, p = strip_trailing_spaces p ++ t.
Proof.
  unfold strip_trailing_spaces. destruct (drop_while_suffix (fun c => c =? 32) (rev p)) as [t E].
  exists (rev t). rewrite <- rev_app_distr, <- E, rev_involutive. reflexivity.
Qed.

Lemma strip_trailing_head (p : str) : starts_with [47] p = false -> starts_with [47] (strip_trailing_spaces p) = false.
Proof.
  destruct (strip_trailing_prefix p) as [t E]. intro H. rewrite E in H. exact (starts_with_prefix _ _ _ H).
Qed.

Ltac xatoms :=
  unfold X, P2, QF, Extra, nodots, opaque2, hostkind, nullhost_path, is_file, is_special in *; usimp.

Section Top.
Variable idna : list N -> option (list N).
Hypothesis idna_ascii_lower :
  forall d r, idna d = Some r -> Forall (fun c => c < 128 /\ is_ascii_upper_alpha c = false) r.
Hypothesis H_idem : idna_idem idna.

(* [Canon2] and [Canon2w] through the machine's predicate [X] *)
Lemma Canon2_iff u : Canon2 idna u <-> Canon u /\ X idna true u.
Proof.
  split.
  - intro H. split; [apply H|apply Canon2_X, H].
  - intros [HC [HE HQ]]. apply Canon2_intro; [split; assumption|]. apply (QF_quirk true); [exact HQ|reflexivity].
Qed.

Lemma Canon2w_iff u : Canon2w idna u <-> Canon u /\ X idna false u.
Proof.
  split.
  - intros [HC HE]. split; [exact HC|]. split; [exact HE|]. intro H. discriminate.
  - intros [HC [HE _]]. split; assumption.
Qed.

(* ---------------- 1. the parser ---------------- *)
Theorem parse_canon2 input base : cps_ok input ->
  (base = None \/ exists b, base = Some b /\ Canon2 idna b) ->
  forall u, basic_parse idna input base = POk u -> Canon2 idna u.
Proof.
  intros Hi Hb u E. apply Canon2_iff. split.
  - apply (parse_canon idna idna_ascii_lower input base Hi); [|exact E].
    destruct Hb as [Hb|(b & Hb1 & Hb2)]; [left; exact Hb|right; exists b; split; [exact Hb1|apply Hb2]].
  - revert E. unfold basic_parse. cbv zeta.
    set (input' := remove_tab_newline (strip_c0_space input)).
    assert (Hi' : cps_ok input') by (apply cps_ok_remove, cps_ok_strip, Hi).
    assert (Hb' : forall b, base = Some b -> Canon2 idna b).
    { intros b E. destruct Hb as [Hb|(b' & Hb1 & Hb2)]; congruence. }
    pose proof (run_inv2 idna idna_ascii_lower H_idem true input' Hi' base Hb' None
                  (fun _ => parser_input_nosp input) (parse_fuel input')
                  (mk_m SchemeStart empty_url [] false false false 0%Z)) as H.
    cbn [m_pointer] in H. intro E. rewrite E in H. cbn [RunPost2] in H. apply H; [lia| |].
    + unfold SInv. cbn [m_state m_url m_buffer]. split; [reflexivity|]. split; [reflexivity|]. intro N0. congruence.
    + unfold SInv2. cbn [m_state]. intro N0. congruence.
Qed.

(* ---------------- 2. the parser with a state override ---------------- *)
Lemma override_X nq input u st : cps_ok input ->
  (forall inp, SInv inp None (Some st) (mk_m st u [] false false false 0%Z)) ->
  (forall inp, SInv2 idna nq inp (Some st) (mk_m st u [] false false false 0%Z)) ->
  forall u0, X idna nq u0 -> X idna nq (or_unchanged u0 (basic_parse_override idna input u st)).
Proof.
  intros Hi HS HS2 u0 HX0. unfold basic_parse_override. cbv zeta.
  set (input' := remove_tab_newline input).
  assert (Hi' : cps_ok input') by (apply cps_ok_remove, Hi).
  assert (Hb' : forall b, @None url = Some b -> Canon2 idna b) by discriminate.
  assert (Hsp : Some st = None -> last_opt input' <> Some 32) by discriminate.
  pose proof (run_inv2 idna idna_ascii_lower H_idem nq input' Hi' None Hb' (Some st) Hsp (parse_fuel input')
                (mk_m st u [] false false false 0%Z)) as H.
  cbn [m_pointer] in H.
  specialize (H ltac:(lia) (HS input') (HS2 input')).
  destruct (run idna (parse_fuel input') input' None (Some st) (mk_m st u [] false false false 0%Z));
    cbn [RunPost2 or_unchanged] in *; [exact H|apply H; discriminate|exact HX0].
Qed.

(* ---------------- 3. the API setters, on [X] ---------------- *)
Ltac sinv_over := unfold SInv; cbn [m_state m_url m_buffer m_at m_pointer].
Ltac sinv2_over := unfold SInv2; cbn [m_state m_url m_buffer m_at m_pointer].

Section Setters.
Variable nq : bool.
Notation XX := (X idna nq).

Lemma username_X u v : XX u -> XX (setter_username u v).
Proof. intro H. unfold setter_username. destruct (cannot_have_username_password_port u); exact H. Qed.

Lemma password_X u v : XX u -> XX (setter_password u v).
Proof. intro H. unfold setter_password. destruct (cannot_have_username_password_port u); exact H. Qed.

Lemma host_X u v : cps_ok v -> Canon u -> XX u -> XX (setter_host idna u v).
Proof.
  intros Hv HC HX. unfold setter_host. destruct (has_opaque_path u) eqn:E; [exact HX|].
  apply override_X; [exact Hv| | |exact HX].
  - intro inp. sinv_over. split; [constructor|]. split; [discriminate|auto].
  - intro inp. sinv2_over. intros _. exact HX.
Qed.

Lemma hostname_X u v : cps_ok v -> Canon u -> XX u -> XX (setter_hostname idna u v).
Proof.
  intros Hv HC HX. unfold setter_hostname. destruct (has_opaque_path u) eqn:E; [exact HX|].
  apply override_X; [exact Hv| | |exact HX].
  - intro inp. sinv_over. split; [constructor|]. split; [discriminate|auto].
  - intro inp. sinv2_over. intros _. exact HX.
Qed.

Lemma port_X u v : cps_ok v -> Canon u -> XX u -> XX (setter_port idna u v).
Proof.
  intros Hv HC HX. unfold setter_port. destruct (cannot_have_username_password_port u) eqn:E; [exact HX|].
  destruct (cannot_have_false u E) as (Hnf & Hh).
  destruct v as [|c r]; [exact HX|].
  apply override_X; [exact Hv| | |exact HX].
  - intro inp. sinv_over. destruct HC as [HC0 Hne]. splits; auto; try discriminate.
  - intro inp. sinv2_over. apply X_P2, HX.
Qed.

Lemma pathname_X u v : cps_ok v -> Canon u -> XX u -> XX (setter_pathname idna u v).
Proof.
  intros Hv HC HX. unfold setter_pathname. destruct (has_opaque_path u) eqn:E; [exact HX|].
  apply override_X; [exact Hv| | |exact HX].
  - intro inp. sinv_over. split; [|auto]. apply canon0_set_path_list; [apply HC|auto with canon].
  - intro inp. sinv2_over. split; [|discriminate]. revert HX. xatoms.
    intros ((H1 & H2 & H3 & H4) & H5). splits; auto with canon2.
    intros Hn Hf. split; [apply H5; assumption|reflexivity].
Qed.

(* [potentially_strip] after the query or the fragment has been set to null *)
Lemma strip_X u q f : XX u -> (q = None \/ q = query u) -> (f = None \/ f = fragment u) -> (q = None \/ f = None) ->
  XX (potentially_strip (set_fragment (set_query u q) f)).
Proof.
  intros HX Hq Hf Hqf. unfold potentially_strip. usimp.
  destruct (path u) as [o|l] eqn:Ep.
  - destruct (is_some f || is_some q) eqn:Es.
    + revert HX. xatoms. rewrite Ep. intros ((H1 & H2 & H3 & H4) & H5). splits; auto.
      intros o' Eo. destruct (H2 o' Eo) as [G1 G2]. split; [exact G1|]. intros -> ->. discriminate.
    + apply orb_false_elim in Es. destruct Es as [Es1 Es2].
      destruct f; [discriminate|]. destruct q; [discriminate|].
      revert HX. xatoms. rewrite Ep. intros ((H1 & H2 & H3 & H4) & H5). splits; auto with canon2.
      intros o' Eo. injection Eo as <-. destruct (H2 o eq_refl) as [G1 _].
      split; [apply strip_trailing_head, G1|]. intros _ _. apply strip_trailing_last.
  - revert HX. xatoms. rewrite Ep. intros ((H1 & H2 & H3 & H4) & H5). splits; auto with canon2.
Qed.

Lemma search_X u v : cps_ok v -> Canon u -> XX u -> XX (setter_search idna u v).
Proof.
  intros Hv HC HX. unfold setter_search. rewrite skip63.
  pose proof (Forall_skip_first _ 63 v Hv) as Hv'. destruct v as [|c r].
  - change (set_query u None) with (set_fragment (set_query u None) (fragment u)). apply strip_X; auto.
  - cbv zeta. apply override_X; [exact Hv'| | |exact HX].
    + intro inp. sinv_over. split; [|constructor]. apply canon_set_query; auto with canon.
    + intro inp. sinv2_over. apply X_set_query_some, HX.
Qed.

Lemma hash_X u v : cps_ok v -> Canon u -> XX u -> XX (setter_hash idna u v).
Proof.
  intros Hv HC HX. unfold setter_hash. rewrite skip35.
  pose proof (Forall_skip_first _ 35 v Hv) as Hv'. destruct v as [|c r].
  - change (set_fragment u None) with (set_fragment (set_query u (query u)) None). apply strip_X; auto.
  - cbv zeta. apply override_X; [exact Hv'| | |exact HX].
    + intro inp. sinv_over. apply canon_set_fragment; auto with canon.
    + intro inp. sinv2_over. apply X_set_fragment_some, HX.
Qed.

Lemma update_X u q : XX u ->
  XX (set_query u (Some q)) /\ XX (potentially_strip (set_query u None)).
Proof.
  intro HX. split; [apply X_set_query_some, HX|].
  change (set_query u None) with (set_fragment (set_query u None) (fragment u)). apply strip_X; auto.
Qed.

End Setters.

(* ---------------- 4. the theorems ---------------- *)
Theorem setter_href_canon2 u v u' : cps_ok v -> setter_href idna u v = Some u' -> Canon2 idna u'.
Proof.
  intros Hv. unfold setter_href. destruct (basic_parse idna v None) as [w| |] eqn:E; try discriminate.
  intro H. injection H as <-. apply (parse_canon2 v None Hv (or_introl eq_refl) w E).
Qed.

Ltac lift2 HCanon HX :=
  match goal with
  | |- Canon2 idna _ -> Canon2 idna _ =>
      let H := fresh in intro H; apply Canon2_iff in H; destruct H as [? ?]; apply Canon2_iff; split; [HCanon|HX]
  | |- Canon2w idna _ -> Canon2w idna _ =>
      let H := fresh in intro H; apply Canon2w_iff in H; destruct H as [? ?]; apply Canon2w_iff; split; [HCanon|HX]
  end.

Theorem setter_username_canon2 u v : cps_ok v -> Canon2 idna u -> Canon2 idna (setter_username u v).
Proof. intros Hv. lift2 ltac:(apply setter_username_canon; assumption) ltac:(apply username_X; assumption). Qed.
Theorem setter_username_canon2w u v : cps_ok v -> Canon2w idna u -> Canon2w idna (setter_username u v).
Proof. intros Hv. lift2 ltac:(apply setter_username_canon; assumption) ltac:(apply username_X; assumption). Qed.

Theorem setter_password_canon2 u v : cps_ok v -> Canon2 idna u -> Canon2 idna (setter_password u v).
Proof. intros Hv. lift2 ltac:(apply setter_password_canon; assumption) ltac:(apply password_X; assumption). Qed.
Theorem setter_password_canon2w u v : cps_ok v -> Canon2w idna u -> Canon2w idna (setter_password u v).
Proof. intros Hv. lift2 ltac:(apply setter_password_canon; assumption) ltac:(apply password_X; assumption). Qed.

Theorem setter_host_canon2 u v : cps_ok v -> Canon2 idna u -> Canon2 idna (setter_host idna u v).
Proof. intros Hv. lift2 ltac:(apply setter_host_canon; assumption) ltac:(apply host_X; assumption). Qed.
Theorem setter_host_canon2w u v : cps_ok v -> Canon2w idna u -> Canon2w idna (setter_host idna u v).
Proof. intros Hv. lift2 ltac:(apply setter_host_canon; assumption) ltac:(apply host_X; assumption). Qed.

Theorem setter_hostname_canon2 u v : cps_ok v -> Canon2 idna u -> Canon2 idna (setter_hostname idna u v).
Proof. intros Hv. lift2 ltac:(apply setter_hostname_canon; assumption) ltac:(apply hostname_X; assumption). Qed.
Theorem setter_hostname_canon2w u v : cps_ok v -> Canon2w idna u -> Canon2w idna (setter_hostname idna u v).
Proof. intros Hv. lift2 ltac:(apply setter_hostname_canon; assumption) ltac:(apply hostname_X; assumption). Qed.

Theorem setter_port_canon2 u v : cps_ok v -> Canon2 idna u -> Canon2 idna (setter_port idna u v).
Proof. intros Hv. lift2 ltac:(apply setter_port_canon; assumption) ltac:(apply port_X; assumption). Qed.
Theorem setter_port_canon2w u v : cps_ok v -> Canon2w idna u -> Canon2w idna (setter_port idna u v).
Proof. intros Hv. lift2 ltac:(apply setter_port_canon; assumption) ltac:(apply port_X; assumption). Qed.

Theorem setter_pathname_canon2 u v : cps_ok v -> Canon2 idna u -> Canon2 idna (setter_pathname idna u v).
Proof. intros Hv. lift2 ltac:(apply setter_pathname_canon; assumption) ltac:(apply pathname_X; assumption). Qed.
Theorem setter_pathname_canon2w u v : cps_ok v -> Canon2w idna u -> Canon2w idna (setter_pathname idna u v).
Proof. intros Hv. lift2 ltac:(apply setter_pathname_canon; assumption) ltac:(apply pathname_X; assumption). Qed.

Theorem setter_search_canon2 u v : cps_ok v -> Canon2 idna u -> Canon2 idna (setter_search idna u v).
Proof. intros Hv. lift2 ltac:(apply setter_search_canon; assumption) ltac:(apply search_X; assumption). Qed.
Theorem setter_search_canon2w u v : cps_ok v -> Canon2w idna u -> Canon2w idna (setter_search idna u v).
Proof. intros Hv. lift2 ltac:(apply setter_search_canon; assumption) ltac:(apply search_X; assumption). Qed.

Theorem setter_hash_canon2 u v : cps_ok v -> Canon2 idna u -> Canon2 idna (setter_hash idna u v).
Proof. intros Hv. lift2 ltac:(apply setter_hash_canon; assumption) ltac:(apply hash_X; assumption). Qed.
Theorem setter_hash_canon2w u v : cps_ok v -> Canon2w idna u -> Canon2w idna (setter_hash idna u v).
Proof. intros Hv. lift2 ltac:(apply setter_hash_canon; assumption) ltac:(apply hash_X; assumption). Qed.

Theorem update_canon2 u l : pairs_ok l -> Canon2 idna u ->
  Canon2 idna (set_query u (Some (urlencoded_serialize l))) /\ Canon2 idna (potentially_strip (set_query u None)).
Proof.
  intros Hl H. apply Canon2_iff in H. destruct H as [HC HX].
  destruct (update_canon u l Hl HC) as [C1 C2]. destruct (update_X true u (urlencoded_serialize l) HX) as [X1 X2].
  split; apply Canon2_iff; split; assumption.
Qed.

Theorem update_canon2w u l : pairs_ok l -> Canon2w idna u ->
  Canon2w idna (set_query u (Some (urlencoded_serialize l))) /\ Canon2w idna (potentially_strip (set_query u None)).
Proof.
  intros Hl H. apply Canon2w_iff in H. destruct H as [HC HX].
  destruct (update_canon u l Hl HC) as [C1 C2]. destruct (update_X false u (urlencoded_serialize l) HX) as [X1 X2].
  split; apply Canon2w_iff; split; assumption.
Qed.

(* ---------------- 5. the protocol setter ---------------- *)
Theorem setter_protocol_canon2w u v : cps_ok v -> Canon2w idna u -> Canon2w idna (setter_protocol idna u v).
Proof.
  intros Hv H. apply Canon2w_iff in H. destruct H as [HC HX]. apply Canon2w_iff.
  split; [apply setter_protocol_canon; assumption|].
  unfold setter_protocol. apply override_X; [| | |exact HX].
  - apply Forall_app. split; [exact Hv|]. repeat constructor. unfold cp_ok. lia.
  - intro inp. sinv_over. split; [reflexivity|]. split; [discriminate|auto].
  - intro inp. sinv2_over. intros _. split; [reflexivity|apply HX].
Qed.

(* the scheme start / scheme states with a state override leave host and path as they are *)
Lemma run_scheme_host_path input st fuel : forall m, (m_state m = SchemeStart \/ m_state m = Scheme) ->
  match run idna fuel input None (Some st) m with
  | POk u' | PFail u' => uhost u' = uhost (m_url m) /\ path u' = path (m_url m)
  | POutOfFuel => True
  end.
Proof.
  induction fuel as [|f IH]; intros m Hst; [exact I|].
  cbn [run].
  assert (Hnext : forall m', m_url m' = m_url m -> (m_state m' = SchemeStart \/ m_state m' = Scheme) ->
    match (if (Z.of_nat (length input) <=? m_pointer m')%Z then POk (m_url m')
           else run idna f input None (Some st) (inc_pointer m')) with
    | POk u' | PFail u' => uhost u' = uhost (m_url m) /\ path u' = path (m_url m)
    | POutOfFuel => True
    end).
  { intros m' Eu Hst'. destruct (Z.of_nat (length input) <=? m_pointer m')%Z.
    - rewrite Eu. split; reflexivity.
    - rewrite <- Eu. apply (IH (inc_pointer m')). destruct m'; exact Hst'. }
  destruct m as [s u buf a br pw p]. cbn [m_state] in Hst. destruct Hst as [->| ->]; unfold step; msimp; cbn [is_some negb].
  - destruct (char_at input p) as [x|]; [|split; reflexivity].
    destruct (is_ascii_alpha x); [|split; reflexivity].
    apply Hnext; [reflexivity|right; reflexivity].
  - destruct (char_at input p) as [x|]; [|split; reflexivity].
    destruct (scheme_char x); [apply Hnext; [reflexivity|right; reflexivity]|].
    destruct (x =? 58); [|split; reflexivity]. cbn [andb].
    match goal with |- context [if ?g then Ret u else _] => destruct g end; [split; reflexivity|].
    usimp. destruct (is_some (port u) && optN_eqb (port u) (default_port buf)); split; reflexivity.
Qed.

Lemma setter_protocol_host_path u v :
  uhost (setter_protocol idna u v) = uhost u /\ path (setter_protocol idna u v) = path u.
Proof.
  unfold setter_protocol, basic_parse_override. cbv zeta.
  pose proof (run_scheme_host_path (remove_tab_newline (v ++ [58])) SchemeStart
                (parse_fuel (remove_tab_newline (v ++ [58])))
                (mk_m SchemeStart u [] false false false 0%Z) (or_introl eq_refl)) as H.
  destruct (run idna _ _ None (Some SchemeStart) _); cbn [or_unchanged m_url] in *; [exact H|exact H|split; reflexivity].
Qed.

Theorem quirk_only_via_protocol u v : cps_ok v -> Canon2w idna u -> file_quirk u = false ->
  file_quirk (setter_protocol idna u v) = true ->
  is_file u = false /\ scheme (setter_protocol idna u v) = s_file.
Proof.
  intros _ _ Hq Hq'. destruct (setter_protocol_host_path u v) as [Eh Ep].
  unfold file_quirk in *. rewrite Eh, Ep in Hq'. apply andb_prop in Hq'. destruct Hq' as [Hf Hhp].
  rewrite Hhp in Hq. rewrite andb_true_r in Hq. split; [exact Hq|]. apply str_eqb_true. exact Hf.
Qed.

End Top.

(* ---------------- 6. the predicates are satisfiable; the quirk is real ---------------- *)
Lemma ascii_lower_idem c : ascii_lower (ascii_lower c) = ascii_lower c.
Proof.
  unfold ascii_lower. destruct (is_ascii_upper_alpha c) eqn:E; [|rewrite E; reflexivity].
  destruct (is_ascii_upper_alpha (c + 32)) eqn:E2; [exfalso; clia|reflexivity].
Qed.

Lemma fake_idna_idem : idna_idem fake_idna.
Proof.
  intros d r H. injection H as <-. unfold fake_idna. f_equal. unfold lower_str. rewrite map_map.
  apply map_ext. exact ascii_lower_idem.
Qed.

Example ex_canon2 : Canon2 fake_idna ex_url.
Proof.
  apply Canon2_intro; [split; [exact ex_canon|]|vm_compute; reflexivity].
  unfold ex_url. unfold Extra, nodots, opaque2, hostkind, nullhost_path. usimp. splits.
  - intros l E. injection E as <-. repeat constructor.
  - intros o E. discriminate.
  - cbn [hostkind_f]. splits; vm_compute; reflexivity.
  - intro E. discriminate.
Qed.

(* a stand-in for UTS #46 that satisfies both premises: lower-casing, ASCII only *)
Definition ascii_idna (s : list N) : option (list N) :=
  if forallb (fun c => c <? 128) s then Some (lower_str s) else None.

Lemma ascii_idna_ascii_lower d r : ascii_idna d = Some r ->
  Forall (fun c => c < 128 /\ is_ascii_upper_alpha c = false) r.
Proof.
  unfold ascii_idna. destruct (forallb (fun c => c <? 128) d) eqn:E; [|discriminate]. intro H. injection H as <-.
  rewrite forallb_forall in E. unfold lower_str. apply Forall_forall. intros c Hc. apply in_map_iff in Hc.
  destruct Hc as (x & <- & Hx). specialize (E x Hx). unfold ascii_lower.
  destruct (is_ascii_upper_alpha x) eqn:Eu; clia.
Qed.

Lemma ascii_idna_idem : idna_idem ascii_idna.
Proof.
  intros d r H. pose proof (ascii_idna_ascii_lower d r H) as Hr. unfold ascii_idna in *.
  destruct (forallb (fun c => c <? 128) d); [|discriminate]. injection H as <-.
  replace (forallb (fun c => c <? 128) (lower_str d)) with true.
  - f_equal. unfold lower_str. rewrite map_map. apply map_ext. exact ascii_lower_idem.
  - symmetry. apply forallb_forall. intros c Hc. rewrite Forall_forall in Hr. apply N.ltb_lt, Hr, Hc.
Qed.

Lemma cps_ok_check (s : str) : forallb (fun c => c <=? 1114111) s = true -> cps_ok s.
Proof. intro H. rewrite forallb_forall in H. apply Forall_forall. intros c Hc. apply N.leb_le, H, Hc. Qed.

Import Coq.Strings.String.StringSyntax.

(* "http://localhost/C|/x" and what the protocol setter makes of it with "file" *)
Definition quirk_input : str := lit "http://localhost/C|/x".
Definition quirk_before : url :=
  mkurl s_http [] [] (Some (HDomain s_localhost)) None (PList [[67; 124]; [120]]) None None.
Definition quirk_after : url :=
  mkurl s_file [] [] (Some (HDomain s_localhost)) None (PList [[67; 124]; [120]]) None None.

Example quirk_parse : basic_parse ascii_idna quirk_input None = POk quirk_before /\
    basic_parse fake_idna quirk_input None = POk quirk_before.
Proof. split; vm_compute; reflexivity. Qed.

Example quirk_set : setter_protocol ascii_idna quirk_before (lit "file") = quirk_after /\
    setter_protocol fake_idna quirk_before (lit "file") = quirk_after.
Proof. split; vm_compute; reflexivity. Qed.

Example quirk_before_canon2 : Canon2 ascii_idna quirk_before.
Proof.
  apply (parse_canon2 ascii_idna ascii_idna_ascii_lower ascii_idna_idem quirk_input None).
  - apply cps_ok_check. vm_compute. reflexivity.
  - left. reflexivity.
  - exact (proj1 quirk_parse).
Qed.

(* the quirk is real: no quirk before, a quirk after, and the result is still [Canon2w] *)
Example quirk_real :
  file_quirk quirk_before = false /\ file_quirk quirk_after = true /\
    Canon2w ascii_idna quirk_after /\ ~ Canon2 ascii_idna quirk_after.
Proof.
  split; [vm_compute; reflexivity|]. split; [vm_compute; reflexivity|]. split.
  - destruct quirk_set as [<- _].
    apply (setter_protocol_canon2w ascii_idna ascii_idna_ascii_lower ascii_idna_idem).
    + apply cps_ok_check. vm_compute. reflexivity.
    + apply Canon2_w, quirk_before_canon2.
  - intro H. apply Canon2_noquirk in H. vm_compute in H. discriminate.
Qed.

(* the same record with the lower-casing stand-in of C08 *)
Example quirk_real_fake : Canon2w fake_idna quirk_after.
Proof.
  destruct quirk_real as (_ & _ & [HC HE] & _). split; [exact HC|].
  destruct HE as (H1 & H2 & _ & H4). split; [exact H1|]. split; [exact H2|]. split; [|exact H4].
  unfold hostkind, quirk_after. usimp. cbn [hostkind_f]. splits; vm_compute; reflexivity.
Qed.

Print Assumptions parse_canon2.
Print Assumptions setter_href_canon2.
Print Assumptions setter_username_canon2.
Print Assumptions setter_password_canon2.
Print Assumptions setter_host_canon2.
Print Assumptions setter_hostname_canon2.
Print Assumptions setter_port_canon2.
Print Assumptions setter_pathname_canon2.
Print Assumptions setter_search_canon2.
Print Assumptions setter_hash_canon2.
Print Assumptions setter_protocol_canon2w.
Print Assumptions quirk_only_via_protocol.
Print Assumptions update_canon2.
Print Assumptions setter_username_canon2w.
Print Assumptions setter_password_canon2w.
Print Assumptions setter_host_canon2w.
Print Assumptions setter_hostname_canon2w.
Print Assumptions setter_port_canon2w.
Print Assumptions setter_pathname_canon2w.
Print Assumptions setter_search_canon2w.
Print Assumptions setter_hash_canon2w.
Print Assumptions update_canon2w.
Print Assumptions ex_canon2.
Print Assumptions quirk_real.
Print Assumptions quirk_real_fake.
