(* C06 (and parts of C05) — a URL object and its URLSearchParams object stay in lock-step:
   for every store reachable through the object-level operations of Spec.Api, the list of a
   query object that belongs to a valid URL is exactly the parse of that URL's current query,
   and after every mutation through the query object the owner's query is exactly the
   serialization of the list (null when the list is empty). *)
From Upa Require Import Base.Prelude Spec.CodePoints Spec.Utf Spec.Percent Spec.Ip Spec.UrlEncoded Spec.Url
  Proofs.UtfFacts Proofs.UrlEncodedProofs Proofs.SearchParamsProofs Spec.Api.
From Coq Require Import ZifyBool ZifyN ZifyNat.
Local Open Scope N_scope.

(* ------------------------------------------------------------------------------------------ *)
(* 1. the UTF-8 decoder yields scalar values on every input (not only on bytes)                *)
(* ------------------------------------------------------------------------------------------ *)
Definition clamp (b : N) : N := if b <? 256 then b else 255.

Lemma dstep0_big b : 256 <= b -> dstep0 b = (dinit, [REPL]).
Proof.
  intro H. unfold dstep0.
  repeat match goal with |- context [if ?c then _ else _] => destruct c eqn:? end;
    try reflexivity; exfalso; lia.
Qed.

Lemma dstep0_clamp b : dstep0 (clamp b) = dstep0 b.
Proof.
  unfold clamp. destruct (N.ltb_spec b 256) as [H|H]; [reflexivity|].
  rewrite (dstep0_big b H). reflexivity.
Qed.

Lemma dstep_clamp st b : st_ok st -> dstep st (clamp b) = dstep st b.
Proof.
  intro Hst. unfold dstep.
  destruct (N.eqb_spec (d_needed st) 0) as [E|E]; [apply dstep0_clamp|].
  destruct Hst as [Hst|[Hl Hu]]; [contradiction|].
  unfold clamp. destruct (N.ltb_spec b 256) as [H|H]; [reflexivity|].
  assert ((255 <? d_lower st) || (d_upper st <? 255) = true) as -> by lia.
  assert ((b <? d_lower st) || (d_upper st <? b) = true) as -> by lia.
  rewrite (dstep0_big b H). reflexivity.
Qed.

Lemma decode_from_clamp : forall bs st, st_ok st -> decode_from st (List.map clamp bs) = decode_from st bs.
Proof.
  induction bs as [|b bs IH]; intros st Hst; [reflexivity|].
  cbn [List.map decode_from]. rewrite (dstep_clamp st b Hst).
  pose proof (dstep_ok st b) as Hst'. destruct (dstep st b) as [st' out].
  rewrite (IH st' Hst'). reflexivity.
Qed.

Lemma clamp_bytes_ok bs : bytes_ok (List.map clamp bs).
Proof.
  induction bs as [|b bs IH]; cbn [List.map]; constructor; [|exact IH].
  unfold clamp. destruct (N.ltb_spec b 256); lia.
Qed.

Lemma utf8_decode_scalars_any bs : scalars_ok (utf8_decode bs).
Proof.
  unfold utf8_decode. rewrite <- decode_from_clamp by (left; reflexivity).
  exact (utf8_decode_scalars _ (clamp_bytes_ok bs)).
Qed.

(* ------------------------------------------------------------------------------------------ *)
(* 2. well-formed lists                                                                        *)
(* ------------------------------------------------------------------------------------------ *)
Definition wf_pairs (l : list pair_t) : Prop := Forall (fun p => scalars_ok (fst p) /\ scalars_ok (snd p)) l.

Lemma wf_pairs_wf_list l : wf_pairs l <-> wf_list l.
Proof. split; intro H; exact H. Qed.

Lemma urlencoded_parse_wf_any s : wf_pairs (urlencoded_parse s).
Proof.
  rewrite urlencoded_parse_flat. induction (split_on 38 s) as [|p ps IH]; cbn [flat_map]; [constructor|].
  apply Forall_app. split; [|exact IH].
  destruct p as [|c r]; [constructor|].
  unfold spec_piece. destruct (split_first_eq (c :: r)) as [n v]. cbv zeta.
  constructor; [|constructor]. split; cbn [fst snd]; apply utf8_decode_scalars_any.
Qed.

Lemma urlencoded_parse_nil : urlencoded_parse [] = [].
Proof. reflexivity. Qed.

Lemma parse_query_list_wf u : wf_pairs (parse_query_list u).
Proof. apply urlencoded_parse_wf_any. Qed.

Lemma filter_length_le' {A} (f : A -> bool) l : (length (filter f l) <= length l)%nat.
Proof. induction l as [|x l IH]; cbn [filter length]; [lia|]. destruct (f x); cbn [length]; lia. Qed.

Lemma filter_length_eq {A} (f : A -> bool) l : length (filter f l) = length l -> filter f l = l.
Proof.
  induction l as [|x l IH]; cbn [filter]; [reflexivity|].
  destruct (f x); cbn [length]; intro H.
  - f_equal. apply IH. lia.
  - pose proof (filter_length_le' f l). lia.
Qed.

Lemma wf_pairs_app a b : wf_pairs a -> wf_pairs b -> wf_pairs (a ++ b).
Proof. intros Ha Hb. apply Forall_app. split; assumption. Qed.

Lemma wf_pairs_single n v : scalars_ok n -> scalars_ok v -> wf_pairs [(n, v)].
Proof. intros Hn Hv. constructor; [split; assumption|constructor]. Qed.

Lemma sp_set_wf l n v : wf_pairs l -> scalars_ok n -> scalars_ok v -> wf_pairs (sp_set l n v).
Proof.
  intros Hl Hn Hv. unfold sp_set. destruct (sp_has l n).
  - exact (sp_set_aux_wf n v Hv l Hl false).
  - apply wf_pairs_app; [exact Hl|apply wf_pairs_single; assumption].
Qed.

(* ------------------------------------------------------------------------------------------ *)
(* 3. the setters other than href and search do not touch the query                            *)
(* ------------------------------------------------------------------------------------------ *)
Lemma query_shorten_path u : query (shorten_path u) = query u.
Proof.
  unfold shorten_path. destruct (path u) as [s|l]; [reflexivity|].
  destruct l as [|x [|y l]]; try reflexivity.
  destruct (is_file u && is_normalized_windows_drive_letter x); reflexivity.
Qed.

Lemma query_path_append u s : query (path_append u s) = query u.
Proof. unfold path_append. destruct (path u); reflexivity. Qed.

Lemma query_potentially_strip u : query (potentially_strip u) = query u.
Proof.
  unfold potentially_strip. destruct (path u); [|reflexivity].
  destruct (is_some (fragment u) || is_some (query u)); reflexivity.
Qed.

(* the states an override run started in SchemeStart, Host, Hostname, Port, PathStart or
   Fragment can visit *)
Definition inS (s : pstate) : bool :=
  match s with
  | SchemeStart | Scheme | Host | Hostname | FileHost | Port | PathStart | Path | Fragment => true
  | _ => false
  end.

Definition out_ok (q : option str) (o : outcome) : Prop :=
  match o with
  | Cont m' => inS (m_state m') = true /\ query (m_url m') = q
  | Ret u => query u = q
  | Fail => True
  end.

Section WithIdna.
Variable idna : list N -> option (list N).

Ltac split_ifs :=
  repeat match goal with
  | |- context [if ?c then _ else _] => destruct c eqn:?
  | |- context [match ?x with _ => _ end] => destruct x eqn:?
  end.

Ltac done_ok :=
  cbn [out_ok goto goto_dec dec_pointer inc_pointer with_state with_url with_buffer with_pointer
       m_state m_url inS query set_scheme set_port set_host set_path set_fragment];
  try rewrite ?query_path_append, ?query_shorten_path;
  first [exact I | reflexivity | split; reflexivity | idtac].

Lemma is_c_excl c x y : x <> y -> is_c c x = true -> is_c c y = false.
Proof. destruct c as [z|]; cbn [is_c]; [|discriminate]. intros Hxy H. apply N.eqb_eq in H. subst z. apply N.eqb_neq. exact Hxy. Qed.

Lemma is_eof_excl c y : is_eof c = true -> is_c c y = false.
Proof. destruct c; cbn; [discriminate|reflexivity]. Qed.

Lemma step_ok input base st m :
  inS (m_state m) = true -> out_ok (query (m_url m)) (step idna input base (Some st) m).
Proof.
  destruct m as [s u b at_ br pw p]. cbn [m_state m_url]. intro HS.
  destruct s; try discriminate HS; clear HS; unfold step; cbn [m_state m_url m_buffer m_at m_brackets m_pwtoken m_pointer is_some negb andb];
    set (c := char_at input p).
  - (* SchemeStart *) split_ifs; done_ok.
  - (* Scheme *) split_ifs; done_ok.
  - (* Host *) split_ifs; done_ok.
  - (* Hostname *) split_ifs; done_ok.
  - (* Port *) split_ifs; done_ok.
  - (* FileHost *) split_ifs; done_ok.
  - (* PathStart *) split_ifs; done_ok.
  - (* Path *)
    rewrite !Bool.orb_false_r.
    destruct (is_eof c || is_c c 47 || (is_special u && is_c c 92)) eqn:Hc.
    + assert (H63 : is_c c 63 = false).
      { destruct (is_eof c) eqn:E1; [exact (is_eof_excl c 63 E1)|].
        destruct (is_c c 47) eqn:E2; [apply (is_c_excl c 47 63); [lia|exact E2]|].
        cbn [orb] in Hc. apply andb_prop in Hc. apply (is_c_excl c 92 63); [lia|exact (proj2 Hc)]. }
      assert (H35 : is_c c 35 = false).
      { destruct (is_eof c) eqn:E1; [exact (is_eof_excl c 35 E1)|].
        destruct (is_c c 47) eqn:E2; [apply (is_c_excl c 47 35); [lia|exact E2]|].
        cbn [orb] in Hc. apply andb_prop in Hc. apply (is_c_excl c 92 35); [lia|exact (proj2 Hc)]. }
      cbv zeta. rewrite H63, H35.
      split_ifs; done_ok.
    + destruct c; done_ok.
  - (* Fragment *) split_ifs; done_ok.
Qed.


Lemma run_query : forall fuel input base st m, inS (m_state m) = true ->
  match run idna fuel input base (Some st) m with
  | POk u => query u = query (m_url m)
  | PFail u => query u = query (m_url m)
  | POutOfFuel => True
  end.
Proof.
  induction fuel as [|f IH]; intros input base st m HS; cbn [run]; [exact I|].
  pose proof (step_ok input base st m HS) as H.
  destruct (step idna input base (Some st) m) as [m'|u|]; cbn [out_ok] in H.
  - destruct H as [HS' Hq].
    destruct (Z.of_nat (length input) <=? m_pointer m')%Z; [exact Hq|].
    specialize (IH input base st (inc_pointer m')).
    cbn [inc_pointer with_pointer m_state m_url] in IH. specialize (IH HS').
    destruct (run idna f input base (Some st) _); try rewrite IH; try exact Hq; exact I.
  - exact H.
  - reflexivity.
Qed.

Lemma override_query input u st : inS st = true ->
  query (or_unchanged u (basic_parse_override idna input u st)) = query u.
Proof.
  intro HS. unfold basic_parse_override.
  pose proof (run_query (parse_fuel (remove_tab_newline input)) (remove_tab_newline input) None st
                (mk_m st u [] false false false 0%Z) HS) as H.
  cbn [m_url] in H.
  destruct (run idna _ _ None (Some st) _); cbn [or_unchanged]; try exact H; reflexivity.
Qed.

(* the same when the run starts from a record u0 with the same query as u *)
Lemma override_query' input u u0 st : inS st = true -> query u0 = query u ->
  query (or_unchanged u (basic_parse_override idna input u0 st)) = query u.
Proof.
  intros HS Hq. unfold basic_parse_override.
  pose proof (run_query (parse_fuel (remove_tab_newline input)) (remove_tab_newline input) None st
                (mk_m st u0 [] false false false 0%Z) HS) as H.
  cbn [m_url] in H.
  destruct (run idna _ _ None (Some st) _); cbn [or_unchanged]; try (rewrite H; exact Hq); reflexivity.
Qed.

End WithIdna.

(* what the lock-step invariant needs from the parser the protocol runs *)
Definition ops_keep_query (ops : parser_ops) : Prop :=
  (forall input u u0 st, inS st = true -> query u0 = query u ->
     query (g_or_unchanged u (p_override ops input u0 st)) = query u) /\
  (forall u v, query (p_protocol ops u v) = query u).

Lemma spec_ops_keep_query idna : ops_keep_query (spec_ops idna).
Proof.
  split.
  - intros input u u0 st HS Hq. exact (override_query' idna input u u0 st HS Hq).
  - intros u v. cbn [spec_ops p_protocol]. unfold setter_protocol. apply override_query. reflexivity.
Qed.

Section WithOps.
Variable ops : parser_ops.
Hypothesis Hops : ops_keep_query ops.

Lemma apply_setter_query w u e units : w <> SHref -> w <> SSearch ->
  query (apply_setter ops w u e units) = query u.
Proof.
  intros H1 H2. destruct Hops as [Hov Hpr].
  destruct w; try contradiction; unfold apply_setter; cbv zeta.
  - (* protocol *) apply Hpr.
  - (* username *) unfold setter_username. destruct (cannot_have_username_password_port u); reflexivity.
  - (* password *) unfold setter_password. destruct (cannot_have_username_password_port u); reflexivity.
  - (* host *) destruct (has_opaque_path u); [reflexivity|]. apply Hov; reflexivity.
  - (* hostname *) destruct (has_opaque_path u); [reflexivity|]. apply Hov; reflexivity.
  - (* port *) destruct (cannot_have_username_password_port u); [reflexivity|].
    destruct units; [reflexivity|]. apply Hov; reflexivity.
  - (* pathname *) destruct (has_opaque_path u); [reflexivity|]. apply Hov; reflexivity.
  - (* hash *)
    destruct units as [|x r].
    + rewrite query_potentially_strip. reflexivity.
    + destruct (N.eqb_spec x 35) as [->|Hx].
      * apply Hov; reflexivity.
      * assert (E : forall (A : Type) (a b : A),
                  match x with 35 => a | _ => b end = b).
        { intros A a0 b0. destruct x as [|q]; [reflexivity|].
          do 6 (destruct q as [q|q|]; try reflexivity). exfalso. apply Hx. reflexivity. }
        rewrite E. apply Hov; reflexivity.
Qed.

(* ------------------------------------------------------------------------------------------ *)
(* 4. the invariant                                                                            *)
(* ------------------------------------------------------------------------------------------ *)
Definition slot_ok (sl : slot) : Prop :=
  wf_pairs (s_sp sl) /\
  match s_url sl with
  | Some u => s_has_sp sl = true -> s_sp sl = parse_query_list (Some u)
  | None => True
  end /\
  (s_has_sp sl = false -> s_sp sl = []).

Definition query_is_serialization (sl : slot) : Prop :=
  match s_url sl with
  | Some u => query u = match s_sp sl with [] => None | l => Some (urlencoded_serialize l) end
  | None => True
  end.

Lemma slot_ok_empty : slot_ok empty_slot.
Proof. unfold slot_ok, empty_slot. cbn [s_sp s_url s_has_sp]. split; [constructor|]. split; [exact I|reflexivity]. Qed.

Lemma wf_nil : wf_pairs []. Proof. constructor. Qed.

Lemma resync_ok sl u : slot_ok sl -> slot_ok (resync sl u).
Proof.
  intros (Hwf & Hu & Hn). unfold resync, slot_ok. cbn [s_sp s_url s_has_sp].
  destruct (s_has_sp sl) eqn:Hh.
  - destruct u as [u|].
    + split; [apply parse_query_list_wf|]. split; [reflexivity|discriminate].
    + split; [exact Hwf|]. split; [exact I|discriminate].
  - split; [exact wf_nil|]. split; [destruct u; [discriminate|exact I]|reflexivity].
Qed.

Lemma slot_after_parse_ok sl r : slot_ok sl -> slot_ok (slot_after_parse sl r).
Proof.
  intro H. destruct r as [u|]; cbn [slot_after_parse]; [apply resync_ok, H|].
  destruct H as (Hwf & Hu & Hn). unfold slot_ok. cbn [s_sp s_url s_has_sp]. auto.
Qed.

Lemma slot_clear_ok sl : slot_ok (slot_clear sl).
Proof. unfold slot_clear, slot_ok. cbn [s_sp s_url s_has_sp]. split; [exact wf_nil|]. split; [exact I|reflexivity]. Qed.

Lemma slot_ok_ctor_like (o : option url) : slot_ok (mk_slot o false []).
Proof. unfold slot_ok. cbn [s_sp s_url s_has_sp]. split; [exact wf_nil|]. split; [destruct o; [discriminate|exact I]|reflexivity]. Qed.

Lemma slot_ctor_ok u : slot_ok (mk_slot (Some u) false []).
Proof. unfold slot_ok. cbn [s_sp s_url s_has_sp]. split; [exact wf_nil|]. split; [discriminate|reflexivity]. Qed.

Lemma slot_sp_create_ok sl : slot_ok sl -> slot_ok (slot_sp_create sl).
Proof.
  intro H. unfold slot_sp_create. destruct (s_has_sp sl) eqn:Hh; [exact H|].
  unfold slot_ok. cbn [s_sp s_url s_has_sp]. split; [apply parse_query_list_wf|].
  split; [destruct (s_url sl); [reflexivity|exact I]|discriminate].
Qed.

Lemma slot_sp_create_has sl : s_has_sp (slot_sp_create sl) = true.
Proof. unfold slot_sp_create. destruct (s_has_sp sl) eqn:Hh; [exact Hh|reflexivity]. Qed.

Lemma slot_sp_create_url sl : s_url (slot_sp_create sl) = s_url sl.
Proof. unfold slot_sp_create. destruct (s_has_sp sl); reflexivity. Qed.

Lemma slot_set_ok sl w e units : slot_ok sl -> slot_ok (slot_set ops sl w e units).
Proof.
  intro H. unfold slot_set.
  assert (Hhref : slot_ok match Spec.Api.do_parse ops e units None with Some u => resync sl (Some u) | None => sl end).
  { destruct (Spec.Api.do_parse ops e units None); [apply resync_ok, H|exact H]. }
  destruct (s_url sl) as [u|] eqn:Hu.
  - destruct w; try exact Hhref; try (apply resync_ok, H);
      (destruct H as (Hwf & Hq & Hn); unfold slot_ok; cbn [s_sp s_url s_has_sp];
       split; [exact Hwf|]; split; [|exact Hn];
       rewrite Hu in Hq; intro Hh; rewrite (Hq Hh); unfold parse_query_list, query_bytes;
       rewrite apply_setter_query by discriminate; reflexivity).
  - destruct w; try exact H; exact Hhref.
Qed.

(* ----- query object operations ----- *)
Definition wf_spop (op : spop) : Prop :=
  match op with
  | OpAppend n v | OpSet n v | OpDel2 n v | OpRemove2 n v | OpHas2 n v => scalars_ok n /\ scalars_ok v
  | OpDel n | OpRemove n | OpHas n | OpGet n | OpGetAll n => scalars_ok n
  | OpParse _ => True           (* any sequence: the decoder yields scalar values on every input *)
  | OpAssign l => wf_pairs l
  | OpSort | OpClear | OpRemoveIfEmptyValue => True
  end.

Definition spop_updates (l : list pair_t) (op : spop) : bool := snd (fst (apply_spop l op)).

Lemma apply_spop_wf l op : wf_pairs l -> wf_spop op -> wf_pairs (fst (fst (apply_spop l op))).
Proof.
  intros Hl Hop. destruct op; cbn [apply_spop fst snd]; cbn [wf_spop] in Hop;
    try exact Hl; try exact Hop; try exact wf_nil.
  - apply wf_pairs_app; [exact Hl|apply wf_pairs_single; tauto].
  - apply sp_set_wf; tauto.
  - exact (wf_list_filter _ l Hl).
  - exact (wf_list_filter _ l Hl).
  - exact (wf_list_filter _ l Hl).
  - exact (wf_list_filter _ l Hl).
  - apply urlencoded_parse_wf_any.
  - exact (sp_sort_Forall _ l Hl).
  - exact (wf_list_filter _ l Hl).
Qed.

(* an operation that reports "no update" left the list as it was *)
Lemma apply_spop_noupd l op : spop_updates l op = false -> fst (fst (apply_spop l op)) = l.
Proof.
  unfold spop_updates. destruct op; cbn [apply_spop fst snd]; try discriminate; try reflexivity;
    intro H; apply Bool.negb_false_iff, Nat.eqb_eq in H.
  - exact (filter_length_eq _ l H).
  - exact (filter_length_eq _ l H).
  - exact (filter_length_eq _ l H).
Qed.

Lemma update_from_list_query sl l u : s_url sl = Some u ->
  exists u', s_url (update_from_list sl l) = Some u' /\
             query u' = match l with [] => None | _ => Some (urlencoded_serialize l) end /\
             s_sp (update_from_list sl l) = l /\ s_has_sp (update_from_list sl l) = s_has_sp sl.
Proof.
  intro Hu. unfold update_from_list. rewrite Hu. eexists. split; [reflexivity|]. cbn [s_sp s_has_sp].
  split; [|split; reflexivity].
  destruct l as [|p l]; [rewrite query_potentially_strip|]; reflexivity.
Qed.

Lemma update_from_list_ok sl l : wf_pairs l -> s_has_sp sl = true -> slot_ok (update_from_list sl l).
Proof.
  intros Hl Hh. destruct (s_url sl) as [u|] eqn:Hu.
  - destruct (update_from_list_query sl l u Hu) as (u' & Hu' & Hq & Hs & Hh').
    unfold slot_ok. rewrite Hu', Hs, Hh', Hh. split; [exact Hl|]. split; [|discriminate].
    intros _. unfold parse_query_list, query_bytes. rewrite Hq.
    destruct l as [|p l]; [reflexivity|]. symmetry. apply parse_serialize_spec. exact Hl.
  - unfold update_from_list. rewrite Hu. unfold slot_ok. cbn [s_sp s_url s_has_sp].
    split; [exact Hl|]. split; [exact I|]. rewrite Hh. discriminate.
Qed.

Lemma slot_sp_apply_fst sl op :
  fst (fst (slot_sp_apply sl op)) =
  if spop_updates (s_sp sl) op then update_from_list sl (fst (fst (apply_spop (s_sp sl) op)))
  else mk_slot (s_url sl) true (fst (fst (apply_spop (s_sp sl) op))).
Proof.
  unfold slot_sp_apply, spop_updates. destruct (apply_spop (s_sp sl) op) as [[l' upd] extra].
  cbn [fst snd]. reflexivity.
Qed.

Lemma slot_sp_apply_ok sl op : slot_ok sl -> s_has_sp sl = true -> wf_spop op ->
  slot_ok (fst (fst (slot_sp_apply sl op))).
Proof.
  intros H Hh Hop. rewrite slot_sp_apply_fst.
  destruct (spop_updates (s_sp sl) op) eqn:Hupd.
  - apply update_from_list_ok; [apply apply_spop_wf; [exact (proj1 H)|exact Hop]|exact Hh].
  - rewrite (apply_spop_noupd _ _ Hupd). destruct H as (Hwf & Hq & Hn).
    unfold slot_ok. cbn [s_sp s_url s_has_sp]. split; [exact Hwf|]. split; [|discriminate].
    destruct (s_url sl); [intros _; exact (Hq Hh)|exact I].
Qed.

Lemma slot_sp_apply_update sl op : s_url sl <> None -> spop_updates (s_sp sl) op = true ->
  query_is_serialization (fst (fst (slot_sp_apply sl op))).
Proof.
  intros Hu Hupd. rewrite slot_sp_apply_fst, Hupd.
  destruct (s_url sl) as [u|] eqn:E; [|contradiction].
  destruct (update_from_list_query sl (fst (fst (apply_spop (s_sp sl) op))) u E) as (u' & Hu' & Hq & Hs & _).
  unfold query_is_serialization. rewrite Hu', Hs, Hq.
  destruct (fst (fst (apply_spop (s_sp sl) op))); reflexivity.
Qed.

(* ----- the object operations on pairs of slots ----- *)
Lemma copy_list_ok sd_has ss : slot_ok ss ->
  slot_ok (mk_slot (s_url ss) sd_has
             (if sd_has then (if s_has_sp ss then s_sp ss else parse_query_list (s_url ss)) else [])).
Proof.
  intros (Hwf & Hq & Hn). unfold slot_ok. cbn [s_sp s_url s_has_sp].
  destruct sd_has.
  - destruct (s_has_sp ss) eqn:Hh.
    + split; [exact Hwf|]. split; [|discriminate]. destruct (s_url ss); [intros _; exact (Hq eq_refl)|exact I].
    + split; [apply parse_query_list_wf|]. split; [|discriminate]. destruct (s_url ss); [reflexivity|exact I].
  - split; [exact wf_nil|]. split; [|reflexivity]. destruct (s_url ss); [discriminate|exact I].
Qed.

Lemma moved_from_keep_ok ss : slot_ok (moved_from_keep_sp ss).
Proof. unfold moved_from_keep_sp, slot_ok. cbn [s_sp s_url s_has_sp]. split; [exact wf_nil|]. split; [exact I|reflexivity]. Qed.

Lemma pair_op_ok o sd ss : slot_ok sd -> slot_ok ss ->
  slot_ok (fst (pair_op o sd ss)) /\ slot_ok (snd (pair_op o sd ss)).
Proof.
  intros Hd Hs. destruct o; cbn [pair_op].
  - cbn [fst snd]. split; [apply copy_list_ok, Hs|exact Hs].
  - cbn [fst snd]. split; [apply slot_ok_ctor_like|exact Hs].
  - cbn [fst snd]. split; [destruct ss; exact Hs|exact slot_ok_empty].
  - cbn [fst snd]. split; [destruct ss; exact Hs|exact slot_ok_empty].
  - destruct (s_has_sp sd); cbn [fst snd]; (split; [|apply moved_from_keep_ok]).
    + exact (copy_list_ok true ss Hs).
    + exact (copy_list_ok false ss Hs).
  - cbn [fst snd]. split; assumption.
Qed.

End WithOps.

(* ------------------------------------------------------------------------------------------ *)
(* 5. stores and histories                                                                     *)
(* ------------------------------------------------------------------------------------------ *)
Lemma get_slot_ok : forall st i, Forall slot_ok st -> slot_ok (get_slot st i).
Proof.
  unfold get_slot. induction st as [|x st IH]; intros i H.
  - destruct i; exact slot_ok_empty.
  - inversion H as [|? ? Hx Hst]; subst. destruct i as [|k]; cbn [nth]; [exact Hx|exact (IH k Hst)].
Qed.

Lemma set_slot_ok : forall st i x, Forall slot_ok st -> slot_ok x -> Forall slot_ok (set_slot st i x).
Proof.
  induction st as [|y st IH]; intros i x H Hx; cbn [set_slot]; [constructor|].
  inversion H as [|? ? Hy Hst]; subst.
  destruct i as [|k]; constructor; try assumption. exact (IH k x Hst Hx).
Qed.

Lemma get_set_other : forall st i j x, j <> i -> get_slot (set_slot st i x) j = get_slot st j.
Proof.
  unfold get_slot. induction st as [|y st IH]; intros i j x Hji; cbn [set_slot]; [reflexivity|].
  destruct i as [|k]; destruct j as [|j']; cbn [nth]; try reflexivity; try contradiction.
  apply IH. intro E. apply Hji. f_equal. exact E.
Qed.

Lemma get_set_same : forall st i x, (i < length st)%nat -> get_slot (set_slot st i x) i = x.
Proof.
  unfold get_slot. induction st as [|y st IH]; intros i x Hi; cbn [length] in Hi; [lia|].
  destruct i as [|k]; cbn [set_slot nth]; [reflexivity|]. apply IH. lia.
Qed.

Lemma set_slot_oob : forall st i x, (length st <= i)%nat -> set_slot st i x = st.
Proof.
  induction st as [|y st IH]; intros i x Hi; cbn [set_slot]; [reflexivity|].
  cbn [length] in Hi. destruct i as [|k]; [lia|]. f_equal. apply IH. lia.
Qed.

Lemma set_slot_length : forall st i x, length (set_slot st i x) = length st.
Proof.
  induction st as [|y st IH]; intros i x; cbn [set_slot]; [reflexivity|].
  destruct i; cbn [length]; [reflexivity|]. f_equal. apply IH.
Qed.

Lemma set_slot_get_id : forall st i, set_slot st i (get_slot st i) = st.
Proof.
  unfold get_slot. induction st as [|y st IH]; intros i; cbn [set_slot]; [reflexivity|].
  destruct i as [|k]; cbn [nth]; [reflexivity|]. f_equal. apply IH.
Qed.

(* everything the protocol interpreter (Spec.Proto.exec) does to the store of URL objects *)
Inductive sop :=
| SParse (i : nat) (r : option url)          (* parse / parse_sb / reparse: result r assigned to slot i *)
| SCtor (i : nat) (u : url)                  (* ctor / ctor_sb / fromfile: a freshly constructed object *)
| SClear (i : nat)
| SSet (i : nat) (w : setter) (e : enc) (units : list N)
| SSpCreate (i : nat)                        (* sp / sp_snapshot *)
| SSpOp (i : nat) (op : spop)                (* sp_<operation> *)
| SPair (o : obj_op) (d s : nat)             (* copy copyctor move movector safe_assign swap *)
| SReset.

Definition is_copy_assign (o : obj_op) : bool := match o with OCopyAssign => true | _ => false end.

Definition wf_sop (o : sop) : Prop := match o with SSpOp _ op => wf_spop op | _ => True end.

Section Store.
Variable ops : parser_ops.

Definition store_step (st : store) (o : sop) : store :=
  match o with
  | SParse i r => set_slot st i (slot_after_parse (get_slot st i) r)
  | SCtor i u => set_slot st i (mk_slot (Some u) false [])
  | SClear i => set_slot st i (slot_clear (get_slot st i))
  | SSet i w e units => set_slot st i (slot_set ops (get_slot st i) w e units)
  | SSpCreate i => set_slot st i (slot_sp_create (get_slot st i))
  | SSpOp i op =>
      let sl := slot_sp_create (get_slot st i) in
      if is_none (s_url sl) then set_slot st i sl
      else set_slot st i (fst (fst (slot_sp_apply sl op)))
  | SPair o d s =>
      if (d =? s)%nat && negb (is_copy_assign o) then st
      else let '(sd', ss') := pair_op o (get_slot st d) (get_slot st s) in
           set_slot (set_slot st d sd') s (if (d =? s)%nat then sd' else ss')
  | SReset => init_store
  end.

Lemma init_store_ok : Forall slot_ok init_store.
Proof. repeat constructor. Qed.

Hypothesis Hops : ops_keep_query ops.

Lemma store_step_ok st o : Forall slot_ok st -> wf_sop o -> Forall slot_ok (store_step st o).
Proof.
  intros Hst Ho. destruct o as [i r|i u|i|i w e units|i|i op|o d s|]; cbn [store_step].
  - apply set_slot_ok; [exact Hst|]. apply slot_after_parse_ok, get_slot_ok, Hst.
  - apply set_slot_ok; [exact Hst|]. apply slot_ctor_ok.
  - apply set_slot_ok; [exact Hst|]. apply slot_clear_ok.
  - apply set_slot_ok; [exact Hst|]. apply (slot_set_ok ops Hops), get_slot_ok, Hst.
  - apply set_slot_ok; [exact Hst|]. apply slot_sp_create_ok, get_slot_ok, Hst.
  - cbv zeta. pose proof (slot_sp_create_ok _ (get_slot_ok st i Hst)) as Hc.
    destruct (is_none (s_url (slot_sp_create (get_slot st i)))); (apply set_slot_ok; [exact Hst|]); [exact Hc|].
    apply slot_sp_apply_ok; [exact Hc|apply slot_sp_create_has|exact Ho].
  - destruct ((d =? s)%nat && negb (is_copy_assign o)); [exact Hst|].
    pose proof (pair_op_ok o _ _ (get_slot_ok st d Hst) (get_slot_ok st s Hst)) as [H1 H2].
    destruct (pair_op o (get_slot st d) (get_slot st s)) as [sd' ss']. cbn [fst snd] in H1, H2.
    apply set_slot_ok; [apply set_slot_ok; assumption|]. destruct (d =? s)%nat; assumption.
  - exact init_store_ok.
Qed.

Lemma lockstep : forall sops st, Forall slot_ok st -> Forall wf_sop sops ->
  Forall slot_ok (fold_left store_step sops st).
Proof.
  induction sops as [|o sops IH]; intros st Hst Hw; cbn [fold_left]; [exact Hst|].
  inversion Hw as [|? ? Ho Hw']; subst. apply IH; [apply store_step_ok; assumption|exact Hw'].
Qed.

End Store.

(* ----- C06: statements for the Standard's parser ----- *)
Section Final.
Variable idna : list N -> option (list N).

Lemma lockstep_spec : forall sops st, Forall slot_ok st -> Forall wf_sop sops ->
  Forall slot_ok (fold_left (store_step (spec_ops idna)) sops st).
Proof. exact (lockstep (spec_ops idna) (spec_ops_keep_query idna)). Qed.

End Final.

(* after any mutation through the query object the owner's query is the serialization *)
Lemma update_lemma : forall sl op, slot_ok sl -> s_has_sp sl = true -> s_url sl <> None -> wf_spop op ->
  spop_updates (s_sp sl) op = true ->
  query_is_serialization (fst (fst (slot_sp_apply sl op))) /\ slot_ok (fst (fst (slot_sp_apply sl op))).
Proof.
  intros sl op Hok Hh Hu Hop Hupd. split; [exact (slot_sp_apply_update sl op Hu Hupd)|].
  exact (slot_sp_apply_ok sl op Hok Hh Hop).
Qed.

Lemma only_owner ops : forall st i op j, j <> i -> get_slot (store_step ops st (SSpOp i op)) j = get_slot st j.
Proof.
  intros st i op j Hji. cbn [store_step]. cbv zeta.
  destruct (is_none (s_url (slot_sp_create (get_slot st i)))); apply get_set_other; exact Hji.
Qed.

Lemma nat_eqb_false d s : d <> s -> (d =? s)%nat = false.
Proof. intro H. apply Nat.eqb_neq. exact H. Qed.

Lemma copy_ctor_detached ops : forall st d s, d <> s ->
  s_has_sp (get_slot (store_step ops st (SPair OCopyCtor d s)) d) = false /\
  s_url (get_slot (store_step ops st (SPair OCopyCtor d s)) d) =
    (if (d <? length st)%nat then s_url (get_slot st s) else None) /\
  get_slot (store_step ops st (SPair OCopyCtor d s)) s = get_slot st s.
Proof.
  intros st d s Hds. cbn [store_step pair_op]. rewrite (nat_eqb_false d s Hds). cbn [andb].
  assert (Hsd : s <> d) by (intro E; apply Hds; symmetry; exact E).
  rewrite (get_set_other _ s d _ Hds).
  split; [|split].
  - destruct (Nat.ltb_spec d (length st)) as [H|H].
    + rewrite get_set_same by exact H. reflexivity.
    + rewrite set_slot_oob by exact H. unfold get_slot. rewrite nth_overflow by exact H. reflexivity.
  - destruct (Nat.ltb_spec d (length st)) as [H|H].
    + rewrite get_set_same by exact H. reflexivity.
    + rewrite set_slot_oob by exact H. unfold get_slot. rewrite nth_overflow by exact H. reflexivity.
  - destruct (Nat.ltb_spec s (length st)) as [H|H].
    + apply get_set_same. rewrite set_slot_length. exact H.
    + rewrite set_slot_oob by (rewrite set_slot_length; exact H). apply get_set_other. exact Hsd.
Qed.

Lemma copy_assign_source ops : forall st d s, d <> s ->
  get_slot (store_step ops st (SPair OCopyAssign d s)) s = get_slot st s.
Proof.
  intros st d s Hds. cbn [store_step pair_op]. rewrite (nat_eqb_false d s Hds). cbn [andb].
  assert (Hsd : s <> d) by (intro E; apply Hds; symmetry; exact E).
  destruct (Nat.ltb_spec s (length st)) as [H|H].
  - apply get_set_same. rewrite set_slot_length. exact H.
  - rewrite set_slot_oob by (rewrite set_slot_length; exact H). apply get_set_other. exact Hsd.
Qed.

(* self copy-assignment is the identity on stores that satisfy the invariant *)
Lemma copy_assign_self ops : forall st d, slot_ok (get_slot st d) ->
  store_step ops st (SPair OCopyAssign d d) = st.
Proof.
  intros st d (Hwf & Hq & Hn). cbn [store_step pair_op is_copy_assign negb]. rewrite Nat.eqb_refl. cbn [andb].
  assert (E : mk_slot (s_url (get_slot st d)) (s_has_sp (get_slot st d))
                (if s_has_sp (get_slot st d)
                 then if s_has_sp (get_slot st d) then s_sp (get_slot st d) else parse_query_list (s_url (get_slot st d))
                 else []) = get_slot st d).
  { destruct (get_slot st d) as [u h l]. cbn [s_url s_has_sp s_sp] in *.
    destruct h; [reflexivity|]. rewrite (Hn eq_refl). reflexivity. }
  rewrite E. rewrite set_slot_get_id. apply set_slot_get_id.
Qed.

(* ----- C05 parts ----- *)
Lemma inert ops : forall sl w e units, s_url sl = None -> w <> SHref -> slot_set ops sl w e units = sl.
Proof. intros sl w e units Hu Hw. unfold slot_set. rewrite Hu. destruct w; try reflexivity. contradiction. Qed.

Lemma failed_href_unchanged ops : forall sl e units,
  Spec.Api.do_parse ops e units None = None -> slot_set ops sl SHref e units = sl.
Proof. intros sl e units H. unfold slot_set. rewrite H. destruct (s_url sl); reflexivity. Qed.

Lemma getters : forall u,
  get_host u = (match uhost u with
                | None => []
                | Some _ => get_hostname u ++ match port u with Some p => 58 :: dec_str p | None => [] end
                end) /\
  Spec.Url.serialize u true ++ (match fragment u with Some f => 35 :: f | None => [] end) = Spec.Url.serialize u false /\
  get_href u = Spec.Url.serialize u false.
Proof.
  intro u. split; [|split].
  - unfold get_host, get_hostname. destruct (uhost u); reflexivity.
  - unfold Spec.Url.serialize. rewrite <- !app_assoc. reflexivity.
  - reflexivity.
Qed.
