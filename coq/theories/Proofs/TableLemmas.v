(* Lifting lemmas for finite table checks: a boolean sweep over 0..255 computed by
   vm_compute is turned into a statement about every code point. *)
From Upa Require Import Base.Prelude Impl.Tables Spec.CodePoints.
From Coq Require Import ZifyBool ZifyN.
Local Open Scope N_scope.

Fixpoint range_nat (n : nat) : list N :=
  match n with O => [] | S k => range_nat k ++ [N.of_nat k] end.

Lemma in_range_nat n c : (N.to_nat c < n)%nat -> In c (range_nat n).
Proof.
  induction n as [|k IH]; intro H; [lia|].
  cbn [range_nat]. apply in_or_app.
  destruct (Nat.eq_dec (N.to_nat c) k) as [E|E].
  - right. left. rewrite <- E. apply N2Nat.id.
  - left. apply IH. lia.
Qed.

Definition bytes : list N := range_nat 256.

Lemma in_bytes c : c < 256 -> In c bytes.
Proof. intro H. apply in_range_nat. lia. Qed.

(* sweep over all byte values *)
Definition sweep256 (p : N -> bool) : bool := forallb p bytes.

Lemma sweep256_sound p : sweep256 p = true -> forall c, c < 256 -> p c = true.
Proof.
  unfold sweep256. intros H c Hc. rewrite forallb_forall in H. apply H, in_bytes, Hc.
Qed.

(* a table-backed class equals a spec predicate on all of N when they agree on bytes
   and the spec predicate is false above 0xFF *)
Lemma bit_member_spec tbl (spec : N -> bool) :
  sweep256 (fun c => Bool.eqb (bit_member tbl c) (spec c)) = true ->
  (forall c, 256 <= c -> spec c = false) ->
  forall c, bit_member tbl c = spec c.
Proof.
  intros Hs Hw c. destruct (N.ltb_spec c 256) as [Hc|Hc].
  - apply eqb_prop. apply (sweep256_sound _ Hs c Hc).
  - rewrite (Hw c Hc). unfold bit_member.
    destruct (N.ltb_spec c 256); [lia|reflexivity].
Qed.

Lemma in_list_small l c :
  forallb (fun x => x <? 256) l = true -> 256 <= c -> in_list l c = false.
Proof.
  unfold in_list. induction l as [|x l IH]; cbn [forallb existsb]; intros H Hc; [reflexivity|].
  apply andb_prop in H. destruct H as [Hx Hl].
  rewrite (IH Hl Hc). destruct (N.eqb_spec c x); [|reflexivity]. subst. lia.
Qed.

Ltac in_list_false Hc :=
  repeat match goal with
  | |- context [in_list ?l ?c] => rewrite (in_list_small l c eq_refl Hc)
  end.

(* the wide facts of the no-encode sets: every percent-encode set contains everything > 0x7E *)
Lemma c0_encode_wide c : 256 <= c -> c0_control_encode c = true.
Proof. unfold c0_control_encode, is_c0_control. intros; lia. Qed.

Ltac wide_no_encode :=
  let c := fresh "c" in let Hc := fresh "Hc" in
  intros c Hc; clear - Hc;
  unfold no_encode, posix_path_encode, raw_path_encode, component_encode, userinfo_encode, path_encode,
         special_query_encode, query_encode, fragment_encode, urlencoded_encode;
  rewrite (c0_encode_wide c Hc); reflexivity.

Ltac wide_class :=
  let c := fresh "c" in let Hc := fresh "Hc" in
  intros c Hc; clear - Hc;
  unfold ascii_domain_char, forbidden_domain, forbidden_host, scheme_char, ipv4_char,
         is_ascii_alphanumeric, is_ascii_hex, is_ascii_upper_hex, is_ascii_lower_hex,
         is_ascii_alpha, is_ascii_upper_alpha, is_ascii_lower_alpha, is_ascii_digit, is_c0_control;
  in_list_false Hc; lia.

(* ---------- all tables of one build, the boolean check, and what it proves ---------- *)

Record tables := {
  t_set_fragment : list N;
  t_set_query : list N;
  t_set_special_query : list N;
  t_set_path : list N;
  t_set_raw_path : list N;
  t_set_posix_path : list N;
  t_set_userinfo : list N;
  t_set_component : list N;
  t_cls_ascii_domain : list N;
  t_cls_forbidden_domain : list N;
  t_cls_forbidden_host : list N;
  t_cls_hex_digit : list N;
  t_cls_ipv4_char : list N;
  t_cls_scheme_char : list N;
  t_cls_ascii_digit : list N;
  t_cls_ascii_alpha : list N;
  t_wide : list (option N);
  t_narrow : list (option N);
  t_kEncByte : list N;
  t_urlencode_obs : list N;
  t_kHexCharLookup : list N;
  t_kCharToHexLookup : list N;
  t_hex_char_to_num : list N;
  t_pct_byte_obs : list N;
  t_lead3 : list N;
  t_lead4 : list N;
  t_replacement_utf8 : list N;
  t_digit_chars : list N;
  t_kPartStart : list N;
  t_kPartFlagMask : list N;
  t_flags : list N }.

Definition obs3 (t : list N) (b : N) : list N :=
  let i := (3 * N.to_nat b)%nat in [nth i t 0; nth (S i) t 0; nth (S (S i)) t 0].
Definition list_eqb (a b : list N) : bool := if list_eq_dec N.eq_dec a b then true else false.
Lemma list_eqb_eq a b : list_eqb a b = true -> a = b.
Proof. unfold list_eqb. destruct (list_eq_dec N.eq_dec a b); [auto|discriminate]. Qed.

Definition urlencode_byte_spec (b : N) : list N :=
  if urlencoded_byte b =? 37 then [37; hex_digit_upper (b / 16); hex_digit_upper (b mod 16)]
  else [urlencoded_byte b; 0; 0].
Definition pct_byte_spec (b : N) : list N := [37; hex_digit_upper (b / 16); hex_digit_upper (b mod 16)].

Definition class_ok (tbl : list N) (spec : N -> bool) : bool :=
  sweep256 (fun c => Bool.eqb (bit_member tbl c) (spec c)).

Definition tables_ok (t : tables) : bool :=
  class_ok (t_set_fragment t) (no_encode fragment_encode) &&
  class_ok (t_set_query t) (no_encode query_encode) &&
  class_ok (t_set_special_query t) (no_encode special_query_encode) &&
  class_ok (t_set_path t) (no_encode path_encode) &&
  class_ok (t_set_raw_path t) (no_encode raw_path_encode) &&
  class_ok (t_set_posix_path t) (no_encode posix_path_encode) &&
  class_ok (t_set_userinfo t) (no_encode userinfo_encode) &&
  class_ok (t_set_component t) (no_encode component_encode) &&
  class_ok (t_cls_ascii_domain t) (ascii_domain_char) &&
  class_ok (t_cls_forbidden_domain t) (forbidden_domain) &&
  class_ok (t_cls_forbidden_host t) (forbidden_host) &&
  class_ok (t_cls_hex_digit t) (is_ascii_hex) &&
  class_ok (t_cls_ipv4_char t) (ipv4_char) &&
  class_ok (t_cls_scheme_char t) (scheme_char) &&
  class_ok (t_cls_ascii_digit t) (is_ascii_digit) &&
  class_ok (t_cls_ascii_alpha t) (is_ascii_alpha) &&
  forallb (fun o => is_none o) (t_wide t) &&
  forallb (fun o => is_none o) (t_narrow t) &&
  sweep256 (fun b => nth (N.to_nat b) (t_kEncByte t) 0 =? urlencoded_byte b) &&
  sweep256 (fun b => list_eqb (obs3 (t_urlencode_obs t) b) (urlencode_byte_spec b)) &&
  sweep256 (fun b => list_eqb (obs3 (t_pct_byte_obs t) b) (pct_byte_spec b)) &&
  sweep256 (fun v => (16 <=? v) || (nth (N.to_nat v) (t_kHexCharLookup t) 0 =? hex_digit_upper v)) &&
  sweep256 (fun v => (16 <=? v) || (nth (N.to_nat v) (t_digit_chars t) 0 =? hex_digit_lower v)) &&
  sweep256 (fun c => negb (is_ascii_hex c) || (nth (N.to_nat c) (t_hex_char_to_num t) 0 =? hex_val c)).

Record tables_spec (t : tables) : Prop := {
  fragment_set : forall c, bit_member (t_set_fragment t) c = no_encode fragment_encode c;
  query_set : forall c, bit_member (t_set_query t) c = no_encode query_encode c;
  special_query_set : forall c, bit_member (t_set_special_query t) c = no_encode special_query_encode c;
  path_set : forall c, bit_member (t_set_path t) c = no_encode path_encode c;
  raw_path_set : forall c, bit_member (t_set_raw_path t) c = no_encode raw_path_encode c;
  posix_path_set : forall c, bit_member (t_set_posix_path t) c = no_encode posix_path_encode c;
  userinfo_set : forall c, bit_member (t_set_userinfo t) c = no_encode userinfo_encode c;
  component_set : forall c, bit_member (t_set_component t) c = no_encode component_encode c;
  ascii_domain_class : forall c, bit_member (t_cls_ascii_domain t) c = ascii_domain_char c;
  forbidden_domain_class : forall c, bit_member (t_cls_forbidden_domain t) c = forbidden_domain c;
  forbidden_host_class : forall c, bit_member (t_cls_forbidden_host t) c = forbidden_host c;
  hex_digit_class : forall c, bit_member (t_cls_hex_digit t) c = is_ascii_hex c;
  ipv4_char_class : forall c, bit_member (t_cls_ipv4_char t) c = ipv4_char c;
  scheme_char_class : forall c, bit_member (t_cls_scheme_char t) c = scheme_char c;
  ascii_digit_class : forall c, bit_member (t_cls_ascii_digit t) c = is_ascii_digit c;
  ascii_alpha_class : forall c, bit_member (t_cls_ascii_alpha t) c = is_ascii_alpha c;
  no_wide_members : forall o, In o (t_wide t) -> o = None;
  wide_overloads_agree_on_bytes : forall o, In o (t_narrow t) -> o = None;
  urlencoded_table : forall b, b < 256 -> nth (N.to_nat b) (t_kEncByte t) 0 = urlencoded_byte b;
  urlencode_observed : forall b, b < 256 -> obs3 (t_urlencode_obs t) b = urlencode_byte_spec b;
  percent_encoded_byte_observed : forall b, b < 256 -> obs3 (t_pct_byte_obs t) b = pct_byte_spec b;
  hex_char_lookup : forall v, v < 16 -> nth (N.to_nat v) (t_kHexCharLookup t) 0 = hex_digit_upper v;
  digit_chars_lower_hex : forall v, v < 16 -> nth (N.to_nat v) (t_digit_chars t) 0 = hex_digit_lower v;
  hex_char_to_num_on_hex : forall c, is_ascii_hex c = true -> nth (N.to_nat c) (t_hex_char_to_num t) 0 = hex_val c }.

Lemma is_none_forall (l : list (option N)) : forallb (fun o => is_none o) l = true -> forall o, In o l -> o = None.
Proof. rewrite forallb_forall. intros H o Ho. specialize (H o Ho). destruct o; [discriminate|reflexivity]. Qed.

Lemma tables_ok_sound t : tables_ok t = true -> tables_spec t.
Proof.
  unfold tables_ok. intro H.
  repeat match type of H with _ && _ = true => let H1 := fresh "H" in apply andb_prop in H; destruct H as [H H1] end.
  constructor.
  all: try (match goal with |- forall c, bit_member ?tbl c = ?spec c =>
              match goal with Hc : class_ok tbl _ = true |- _ => apply (bit_member_spec tbl spec Hc) end
            end;
            match goal with
            | |- forall c, _ -> no_encode _ c = false => wide_no_encode
            | |- _ => wide_class
            end).
  - apply is_none_forall; assumption.
  - apply is_none_forall; assumption.
  - intros b Hb. apply N.eqb_eq. match goal with Hs : sweep256 (fun b => nth _ (t_kEncByte t) 0 =? _) = true |- _ => exact (sweep256_sound _ Hs b Hb) end.
  - intros b Hb. apply list_eqb_eq. match goal with Hs : sweep256 (fun b => list_eqb (obs3 (t_urlencode_obs t) b) _) = true |- _ => exact (sweep256_sound _ Hs b Hb) end.
  - intros b Hb. apply list_eqb_eq. match goal with Hs : sweep256 (fun b => list_eqb (obs3 (t_pct_byte_obs t) b) _) = true |- _ => exact (sweep256_sound _ Hs b Hb) end.
  - intros v Hv. apply N.eqb_eq. assert (Hlt : v < 256) by (clear - Hv; lia).
    match goal with Hs : sweep256 (fun v => _ || (nth _ (t_kHexCharLookup t) 0 =? _)) = true |- _ =>
      pose proof (sweep256_sound _ Hs v Hlt) as Hx; clear - Hx Hv end.
    cbv beta in Hx. destruct (N.leb_spec 16 v); [lia|exact Hx].
  - intros v Hv. apply N.eqb_eq. assert (Hlt : v < 256) by (clear - Hv; lia).
    match goal with Hs : sweep256 (fun v => _ || (nth _ (t_digit_chars t) 0 =? _)) = true |- _ =>
      pose proof (sweep256_sound _ Hs v Hlt) as Hx; clear - Hx Hv end.
    cbv beta in Hx. destruct (N.leb_spec 16 v); [lia|exact Hx].
  - intros c Hc. assert (Hlt : c < 256).
    { clear - Hc. unfold is_ascii_hex, is_ascii_upper_hex, is_ascii_lower_hex, is_ascii_digit in Hc. lia. }
    apply N.eqb_eq.
    match goal with Hs : sweep256 (fun c => negb _ || (nth _ (t_hex_char_to_num t) 0 =? _)) = true |- _ =>
      pose proof (sweep256_sound _ Hs c Hlt) as Hx end.
    cbv beta in Hx. rewrite Hc in Hx. exact Hx.
Qed.

(* the Standard's urlencoded set and the byte rule agree (a fact about Spec alone) *)
Lemma urlencoded_rule_is_set : forall b, b < 256 ->
  (urlencoded_byte b =? 37) = (urlencoded_encode b && negb (b =? 32)) || (b =? 37).
Proof.
  intros b Hb. apply eqb_prop.
  apply (sweep256_sound (fun b => Bool.eqb (urlencoded_byte b =? 37) ((urlencoded_encode b && negb (b =? 32)) || (b =? 37)))); [vm_compute; reflexivity | exact Hb].
Qed.

(* ---------- diagnosis (no proofs): for each check of [tables_ok], the first byte on which
   the compiled table and the Standard differ; used to build a replay when a C13 proof breaks ---------- *)
Definition first_bad (p : N -> bool) : option N := find (fun c => negb (p c)) bytes.
Definition class_diff (tbl : list N) (spec : N -> bool) : option N :=
  first_bad (fun c => Bool.eqb (bit_member tbl c) (spec c)).
Definition tables_diag (t : tables) : list (option N) := [
  class_diff (t_set_fragment t) (no_encode fragment_encode);
  class_diff (t_set_query t) (no_encode query_encode);
  class_diff (t_set_special_query t) (no_encode special_query_encode);
  class_diff (t_set_path t) (no_encode path_encode);
  class_diff (t_set_raw_path t) (no_encode raw_path_encode);
  class_diff (t_set_posix_path t) (no_encode posix_path_encode);
  class_diff (t_set_userinfo t) (no_encode userinfo_encode);
  class_diff (t_set_component t) (no_encode component_encode);
  class_diff (t_cls_ascii_domain t) (ascii_domain_char);
  class_diff (t_cls_forbidden_domain t) (forbidden_domain);
  class_diff (t_cls_forbidden_host t) (forbidden_host);
  class_diff (t_cls_hex_digit t) (is_ascii_hex);
  class_diff (t_cls_ipv4_char t) (ipv4_char);
  class_diff (t_cls_scheme_char t) (scheme_char);
  class_diff (t_cls_ascii_digit t) (is_ascii_digit);
  class_diff (t_cls_ascii_alpha t) (is_ascii_alpha)
  ;
  match find (fun o => negb (is_none o)) (t_wide t) with Some (Some v) => Some v | _ => None end;
  match find (fun o => negb (is_none o)) (t_narrow t) with Some (Some v) => Some v | _ => None end;
  first_bad (fun b => nth (N.to_nat b) (t_kEncByte t) 0 =? urlencoded_byte b);
  first_bad (fun b => list_eqb (obs3 (t_urlencode_obs t) b) (urlencode_byte_spec b));
  first_bad (fun b => list_eqb (obs3 (t_pct_byte_obs t) b) (pct_byte_spec b));
  first_bad (fun v => (16 <=? v) || (nth (N.to_nat v) (t_kHexCharLookup t) 0 =? hex_digit_upper v));
  first_bad (fun v => (16 <=? v) || (nth (N.to_nat v) (t_digit_chars t) 0 =? hex_digit_lower v));
  first_bad (fun c => negb (is_ascii_hex c) || (nth (N.to_nat c) (t_hex_char_to_num t) 0 =? hex_val c)) ].
