(* C08 — the invariant of the basic URL parser's state machine and its preservation by [step]. *)
From Upa Require Import Base.Prelude Spec.CodePoints Spec.Utf Spec.Percent Spec.Ip Spec.Url.
From Upa Require Import Proofs.SearchParamsProofs Proofs.Ipv4Proofs Proofs.Ipv6Parse Proofs.CanonDefs.
From Coq Require Import ZifyBool ZifyN ZifyNat.
Local Open Scope N_scope.

Ltac msimp :=
  cbn [m_state m_url m_buffer m_at m_brackets m_pwtoken m_pointer
       with_state with_url with_buffer with_pointer dec_pointer inc_pointer goto goto_dec] in *.

Ltac usimp :=
  cbn [scheme username password uhost port path query fragment
       set_scheme set_username set_password set_host set_port set_path set_query set_fragment] in *.

Ltac uatoms :=
  unfold Canon, Canon0, Local, Struct, port_ok, cred_ok, host_ok, query_safe, fragment_safe,
    path_safe, opaque_ok, is_special, is_file in *; usimp.

(* ---------------------------------------------------------------------------------- *)
(* pointer facts                                                                      *)
(* ---------------------------------------------------------------------------------- *)

Lemma nthN_some s : forall i x, nthN s i = Some x -> (i < length s)%nat /\ In x s.
Proof.
  induction s as [|y s IH]; intros i x H; [destruct i; discriminate|].
  destruct i as [|i]; cbn [nthN] in H.
  - injection H as ->. split; [cbn [length]; lia|left; reflexivity].
  - destruct (IH i x H) as [H1 H2]. split; [cbn [length]; lia|right; exact H2].
Qed.

Lemma char_at_some input p x : char_at input p = Some x ->
  (0 <= p)%Z /\ (p < Z.of_nat (length input))%Z /\ In x input.
Proof.
  unfold char_at. destruct (Z.ltb_spec p 0) as [Hn|Hn]; [discriminate|]. intro H.
  apply nthN_some in H. destruct H as [H1 H2]. repeat split; [assumption|lia|assumption].
Qed.

Lemma starts_with_remaining input p x c : char_at input p = Some x ->
  starts_with [c] (remaining input p) = true -> (p + 1 < Z.of_nat (length input))%Z.
Proof.
  intros Hc Hs. apply char_at_some in Hc. destruct Hc as (H0 & H1 & _).
  unfold remaining in Hs. destruct (Z.ltb_spec p 0) as [Hn|Hn]; [lia|].
  destruct (skipn (S (Z.to_nat p)) input) as [|y l] eqn:E; [discriminate|].
  assert (Hl : length (skipn (S (Z.to_nat p)) input) = (length input - S (Z.to_nat p))%nat) by apply skipn_length.
  rewrite E in Hl. cbn [length] in Hl. lia.
Qed.

Lemma includes_credentials_false u : includes_credentials u = false -> username u = [] /\ password u = [].
Proof.
  unfold includes_credentials. intro H. apply orb_false_elim in H. destruct H as [H1 H2].
  apply negb_false_iff in H1, H2. split; apply str_eqb_nil_true; assumption.
Qed.

Lemma includes_credentials_nil u : username u = [] -> password u = [] -> includes_credentials u = false.
Proof. unfold includes_credentials. intros -> ->. reflexivity. Qed.

Lemma optN_eqb_true a b : optN_eqb a b = true -> a = b.
Proof. destruct a, b; cbn; intro H; try discriminate; [apply N.eqb_eq in H; subst|]; reflexivity. Qed.
Lemma optN_eqb_false a b : optN_eqb a b = false -> a <> b.
Proof. destruct a, b; cbn; intros H E; try discriminate. injection E as ->. rewrite N.eqb_refl in H. discriminate. Qed.

Lemma special_nonempty s : is_special_scheme s = true -> s <> [].
Proof. intros H E. subst. discriminate. Qed.

Lemma is_special_file : is_special_scheme s_file = true.
Proof. reflexivity. Qed.

Definition blank (s : str) : url := mkurl s [] [] None None (PList []) None None.

(* ---------------- atoms ---------------- *)
Lemma fs_none : fragment_safef None.  Proof. intros x H. discriminate. Qed.
Lemma fs_nil : fragment_safef (Some []).  Proof. intros x H. injection H as <-. constructor. Qed.
Lemma qs_none s : query_safef s None.  Proof. intros x H. discriminate. Qed.
Lemma qs_nil s : query_safef s (Some []).  Proof. intros x H. injection H as <-. constructor. Qed.
Lemma ui_nil : ui_safe [].  Proof. constructor. Qed.
Lemma ho_none : host_okf None.  Proof. exact I. Qed.
Lemma ho_empty : host_okf (Some HEmpty).  Proof. exact I. Qed.
Lemma ps_nil s : path_safef s (PList []).  Proof. constructor. Qed.
Lemma po_none s : port_okf s None.  Proof. intros x H. discriminate. Qed.
Lemma oo_list l ho : opaque_okf (PList l) ho.  Proof. intros x H. discriminate. Qed.
Lemma co_nil s ho : cred_okf s [] [] ho None.  Proof. intros _. repeat split. Qed.
#[export] Hint Resolve fs_none fs_nil qs_none qs_nil ui_nil ho_none ho_empty ps_nil po_none oo_list co_nil : canon.

Ltac splits := repeat match goal with |- _ /\ _ => split end.
Ltac ucanon := uatoms; splits; auto with canon; try tauto.

Section Machine.
Variable idna : list N -> option (list N).
Hypothesis idna_ascii_lower :
  forall d r, idna d = Some r -> Forall (fun c => c < 128 /\ is_ascii_upper_alpha c = false) r.
Variable input : str.
Hypothesis input_ok : cps_ok input.
Variable base : option url.
Hypothesis base_ok : forall b, base = Some b -> Canon b.
Variable ov : option pstate.

Notation len := (Z.of_nat (length input)).

Definition authform (u : url) (s us pw : str) : Prop :=
  u = mkurl s us pw None None (PList []) None None /\ scheme_okf s /\ str_eqb s s_file = false /\
  ui_safe us /\ ui_safe pw.

Definition file0 : url := mkurl s_file [] [] (Some HEmpty) None (PList []) None None.

Definition SInv (m : mstate) : Prop :=
  let u := m_url m in
  let buf := m_buffer m in
  match m_state m with
  | SchemeStart => buf = [] /\ (ov = None -> u = blank []) /\ (ov <> None -> Canon u)
  | Scheme => buf <> [] /\ scheme_ok0f buf /\ (ov = None -> u = blank []) /\ (ov <> None -> Canon u)
  | NoScheme => ov = None /\ buf = [] /\ u = blank []
  | SpecialRelativeOrAuthority =>
      ov = None /\ buf = [] /\
      exists s b, u = blank s /\ scheme_okf s /\ is_special_scheme s = true /\
                  str_eqb s s_file = false /\ base = Some b /\ scheme b = s
  | SpecialAuthoritySlashes | SpecialAuthorityIgnoreSlashes =>
      ov = None /\ buf = [] /\
      exists s, u = blank s /\ scheme_okf s /\ is_special_scheme s = true /\ str_eqb s s_file = false
  | PathOrAuthority =>
      ov = None /\ buf = [] /\ exists s, u = blank s /\ scheme_okf s /\ is_special_scheme s = false
  | Relative =>
      ov = None /\ buf = [] /\
      exists b, base = Some b /\ (u = blank [] \/ u = blank (scheme b)) /\
                is_file b = false /\ has_opaque_path b = false
  | RelativeSlash =>
      ov = None /\ buf = [] /\ exists b, base = Some b /\ u = blank (scheme b) /\ is_file b = false
  | Authority =>
      ov = None /\ cps_ok buf /\ exists s us pw, authform u s us pw /\
        (m_at m = false -> us = [] /\ pw = []) /\
        match buf with
        | [] => True
        | x :: _ => char_at input (m_pointer m - Z.of_nat (length buf))%Z = Some x /\
                    authority_end (is_special_scheme s) (Some x) = false
        end
  | Host | Hostname =>
      cps_ok buf /\
      (ov = None -> exists s us pw, authform u s us pw /\
         (includes_credentials u = true ->
          buf <> [] \/ exists x, char_at input (m_pointer m) = Some x /\
                                 authority_end (is_special_scheme s) (Some x) = false)) /\
      (ov <> None -> Canon u /\ has_opaque_path u = false)
  | Port =>
      Canon0 u /\ is_file u = false /\ (exists h, uhost u = Some h /\ h <> HEmpty) /\
      Forall (fun c => is_ascii_digit c = true) buf /\
      (ov = None -> path u = PList []) /\ (ov <> None -> path_nonemptyf (scheme u) (path u))
  | File => ov = None /\ buf = [] /\ (u = blank [] \/ u = blank s_file)
  | FileSlash => ov = None /\ buf = [] /\ u = file0
  | FileHost =>
      cps_ok buf /\ (ov = None -> u = file0) /\ (ov <> None -> Canon u /\ is_file u = true)
  | PathStart => Canon0 u /\ path u = PList [] /\ buf = []
  | Path => Canon0 u /\ (exists l, path u = PList l) /\ Forall (segchar (is_special u)) buf
  | OpaquePath => Canon u /\ (exists o, path u = POpaque o) /\ buf = []
  | Query => Canon u /\ cps_ok buf
  | Fragment => Canon u
  end.

Definition StepPost (m : mstate) (o : outcome) : Prop :=
  match o with
  | Fail => ov <> None -> Canon (m_url m)
  | Ret u => Canon u
  | Cont m' => ((len <= m_pointer m')%Z -> Canon (m_url m')) /\
               ((m_pointer m' < len)%Z -> (-1 <= m_pointer m')%Z /\ SInv (inc_pointer m'))
  end.

Lemma post_lt m m' : (-1 <= m_pointer m' < len)%Z -> SInv (inc_pointer m') -> StepPost m (Cont m').
Proof. intros H1 H2. split; [intro; lia|intro; split; [lia|exact H2]]. Qed.

(* the machine stays where it is at the end of the input *)
Lemma post_eof m m' : (len <= m_pointer m')%Z -> Canon (m_url m') -> StepPost m (Cont m').
Proof. intros H1 H2. split; [intro; exact H2|intro; lia]. Qed.

Lemma char_at_none p : char_at input p = None -> (0 <= p)%Z -> (len <= p)%Z.
Proof.
  unfold char_at. destruct (Z.ltb_spec p 0) as [Hn|Hn]; [lia|]. intros H _.
  destruct (Z.leb_spec len p) as [Hl|Hl]; [exact Hl|]. exfalso.
  assert (Hi : (Z.to_nat p < length input)%nat) by lia. clear - H Hi.
  revert H Hi. generalize (Z.to_nat p). induction input as [|y s IH]; intros i H Hi; [cbn in Hi; lia|].
  destruct i; [discriminate|]. cbn [nthN] in H. cbn [length] in Hi. apply (IH i H). lia.
Qed.

Lemma input_cp x : In x input -> cp_ok x.
Proof. intro H. unfold cps_ok in input_ok. rewrite Forall_forall in input_ok. auto. Qed.

Lemma ov_cases : (ov = None /\ is_some ov = false) \/ (ov <> None /\ is_some ov = true).
Proof. destruct ov; [right; split; [discriminate|reflexivity]|left; split; reflexivity]. Qed.

Ltac ovnorm :=
  repeat match goal with
  | E : ov = None, H : ov = None -> _ |- _ => specialize (H E)
  | E : ov = None, H : ov <> None -> _ |- _ => clear H
  | E : ov <> None, H : ov <> None -> _ |- _ => specialize (H E)
  | E : ov <> None, H : ov = None -> _ |- _ => clear H
  | E : ov <> None, H : ov = None |- _ => exfalso; exact (E H)
  end.

Ltac case_ov :=
  let Eov := fresh "Eov" in let Eis := fresh "Eis" in
  destruct ov_cases as [[Eov Eis]|[Eov Eis]]; rewrite ?Eis in *; cbn [negb andb orb]; ovnorm.

(* ---------------- records built from blank ---------------- *)

Lemma scheme_tail_lower x : scheme_char x = true -> scheme_tail (ascii_lower x) = true.
Proof. intro H. unfold ascii_lower. destruct (is_ascii_upper_alpha x) eqn:E; clia. Qed.

Lemma lower_alpha_lower x : is_ascii_alpha x = true -> is_ascii_lower_alpha (ascii_lower x) = true.
Proof. intro H. unfold ascii_lower. destruct (is_ascii_upper_alpha x) eqn:E; clia. Qed.

Lemma scheme_ok0f_snoc buf x : scheme_ok0f buf -> buf <> [] -> scheme_char x = true ->
  scheme_ok0f (buf ++ [ascii_lower x]).
Proof.
  destruct buf as [|c r]; [congruence|]. intros [H1 H2] _ Hx. cbn [app scheme_ok0f]. split; [exact H1|].
  apply Forall_app. split; [exact H2|]. constructor; [|constructor]. apply scheme_tail_lower, Hx.
Qed.

Lemma canon_blank_opaque s : scheme_okf s -> is_special_scheme s = false ->
  Canon (mkurl s [] [] None None (POpaque []) None None).
Proof.
  intros [Hn Hs] Hsp. uatoms. unfold port_okf, ui_safe, host_okf, query_safef, fragment_safef, path_safef,
    special_ok0f, cred_okf, opaque_okf, path_nonemptyf.
  rewrite Hsp. repeat split; try assumption; try constructor; try discriminate; try reflexivity; intros; congruence.
Qed.

(* ---------------- SchemeStart ---------------- *)
Lemma step_SchemeStart u buf a br pw p : let m := mk_m SchemeStart u buf a br pw p in
  (0 <= p <= len)%Z -> SInv m -> StepPost m (step idna input base ov m).
Proof.
  intros m Hp HI. subst m. unfold SInv in HI. msimp. destruct HI as (-> & H1 & H2).
  unfold step. msimp.
  destruct (char_at input p) as [x|] eqn:Hc.
  - pose proof (char_at_some _ _ _ Hc) as (Hc0 & Hc1 & Hc2).
    destruct (is_ascii_alpha x) eqn:Ha.
    + apply post_lt; msimp; [lia|]. unfold SInv; msimp. cbn [app].
      split; [discriminate|]. split; [|split; assumption].
      split; [apply lower_alpha_lower, Ha|constructor].
    + case_ov.
      * apply post_lt; msimp; [lia|]. unfold SInv; msimp. split; [exact Eov|split; [reflexivity|exact H1]].
      * intros _; exact H2.
  - case_ov.
    + apply post_lt; msimp; [lia|]. unfold SInv; msimp. split; [exact Eov|split; [reflexivity|exact H1]].
    + intros _; exact H2.
Qed.

(* ---------------- Scheme ---------------- *)
Lemma canon_set_scheme u buf : Canon u -> scheme_okf buf ->
  negb (Bool.eqb (is_special u) (is_special_scheme buf))
  || ((includes_credentials u || is_some (port u)) && str_eqb buf s_file)
  || (is_file u && match uhost u with Some HEmpty => true | _ => false end) = false ->
  let u' := set_scheme u buf in
  Canon (if is_some (port u') && optN_eqb (port u') (default_port (scheme u')) then set_port u' None else u').
Proof.
  intros HC Hb G u'. subst u'. usimp.
  apply orb_false_elim in G. destruct G as [G G3]. apply orb_false_elim in G. destruct G as [G1 G2].
  apply negb_false_iff, Bool.eqb_prop in G1. unfold is_special in G1.
  assert (Hport : port_okf buf (if is_some (port u) && optN_eqb (port u) (default_port buf) then None else port u)).
  { destruct HC as [[(_ & Hpo & _) _] _]. unfold port_ok in Hpo.
    destruct (port u) as [q|] eqn:Eq; cbn [is_some andb]; [|apply po_none].
    destruct (optN_eqb (Some q) (default_port buf)) eqn:Eo; [apply po_none|].
    intros q' Hq'. injection Hq' as <-. split; [apply (Hpo q eq_refl)|].
    apply optN_eqb_false in Eo. congruence. }
  assert (Hsp : special_ok0f buf (uhost u) (path u)).
  { destruct HC as [[_ (_ & Hs & _)] _]. intro Hsb. rewrite <- G1 in Hsb. destruct (Hs Hsb) as [Hl [h [Hh Hne]]].
    split; [exact Hl|]. exists h. split; [exact Hh|]. intros _.
    destruct (str_eqb (scheme u) s_file) eqn:Ef; [|apply Hne; reflexivity].
    unfold is_file in G3. rewrite Ef, Hh in G3. cbn [andb] in G3. intros ->. discriminate. }
  assert (Hcred : forall po', (port u = None -> po' = None) ->
                   (str_eqb buf s_file = true -> po' = None) -> cred_okf buf (username u) (password u) (uhost u) po').
  { intros po' Hpo1 Hpo2. destruct HC as [[_ (_ & _ & Hc & _)] _]. unfold cred_ok in Hc.
    intros [H|[H|H]].
    - destruct (Hc (or_introl H)) as (A & B & C). auto.
    - destruct (Hc (or_intror (or_introl H))) as (A & B & C). auto.
    - rewrite H in G2. rewrite andb_true_r in G2. apply orb_false_elim in G2. destruct G2 as [G2 G2'].
      apply includes_credentials_false in G2. destruct G2. auto. }
  assert (Hfile : str_eqb buf s_file = true -> port u = None).
  { intro H. rewrite H in G2. rewrite andb_true_r in G2. apply orb_false_elim in G2. destruct G2 as [_ G2'].
    destruct (port u); [discriminate|reflexivity]. }
  assert (Hq : query_safef buf (query u)).
  { destruct HC as [[(_ & _ & _ & _ & _ & Hq0 & _) _] _]. unfold query_safe, query_safef in *. rewrite <- G1. exact Hq0. }
  assert (Hpa : path_safef buf (path u)).
  { destruct HC as [[(_ & _ & _ & _ & _ & _ & _ & Hq0) _] _]. unfold path_safe, path_safef in *. rewrite <- G1. exact Hq0. }
  assert (Hne : path_nonemptyf buf (path u)).
  { destruct HC as [_ Hq0]. unfold path_nonemptyf in *. rewrite <- G1. exact Hq0. }
  destruct Hb as [Hb1 Hb2].
  destruct (is_some (port u) && optN_eqb (port u) (default_port buf)) eqn:Ec.
  - specialize (Hcred None (fun _ => eq_refl) (fun _ => eq_refl)). ucanon.
  - specialize (Hcred (port u) (fun H => H) Hfile). ucanon.
Qed.

Lemma step_Scheme u buf a br pw p : let m := mk_m Scheme u buf a br pw p in
  (0 <= p <= len)%Z -> SInv m -> StepPost m (step idna input base ov m).
Proof.
  intros m Hp HI. subst m. unfold SInv in HI. msimp. destruct HI as (Hne & Hbuf & H1 & H2).
  unfold step. msimp.
  destruct (char_at input p) as [x|] eqn:Hc.
  - pose proof (char_at_some _ _ _ Hc) as (Hc0 & Hc1 & Hc2).
    destruct (scheme_char x) eqn:Hsc.
    + apply post_lt; msimp; [lia|]. unfold SInv; msimp.
      split; [destruct buf; discriminate|]. split; [apply scheme_ok0f_snoc; assumption|]. split; assumption.
    + destruct (x =? 58) eqn:H58.
      * case_ov.
        -- subst u. change (set_scheme (blank []) buf) with (blank buf).
           assert (Hok : scheme_okf buf) by (split; assumption).
           destruct (str_eqb buf s_file) eqn:Ef.
           { apply post_lt; msimp; [lia|]. unfold SInv; msimp. split; [exact Eov|]. split; [reflexivity|].
             right. apply str_eqb_true in Ef. subst buf. reflexivity. }
           unfold is_special. cbn [blank scheme].
           destruct (is_special_scheme buf) eqn:Esp.
           { destruct base as [b|] eqn:Eb.
             - destruct (str_eqb (scheme b) buf) eqn:Esb.
               + apply post_lt; msimp; [lia|]. unfold SInv; msimp. split; [exact Eov|]. split; [reflexivity|].
                 exists buf, b. apply str_eqb_true in Esb. repeat split; auto.
               + apply post_lt; msimp; [lia|]. unfold SInv; msimp. split; [exact Eov|]. split; [reflexivity|].
                 exists buf. repeat split; auto.
             - apply post_lt; msimp; [lia|]. unfold SInv; msimp. split; [exact Eov|]. split; [reflexivity|].
               exists buf. repeat split; auto. }
           destruct (starts_with [47] (remaining input p)) eqn:Esw.
           { pose proof (starts_with_remaining _ _ _ _ Hc Esw) as Hlt.
             apply post_lt; msimp; [lia|]. unfold SInv; msimp. split; [exact Eov|]. split; [reflexivity|].
             exists buf. repeat split; auto. }
           apply post_lt; msimp; [lia|]. unfold SInv; msimp.
           split; [apply canon_blank_opaque; assumption|]. split; [eexists; reflexivity|reflexivity].
        -- match goal with |- context [if ?g then Ret u else _] => destruct g eqn:G end.
           ++ exact H2.
           ++ apply canon_set_scheme; [exact H2|split; assumption|exact G].
      * case_ov.
        -- apply post_lt; msimp; [lia|]. unfold SInv; msimp. split; [exact Eov|split; [reflexivity|exact H1]].
        -- intros _; exact H2.
  - case_ov.
    + apply post_lt; msimp; [lia|]. unfold SInv; msimp. split; [exact Eov|split; [reflexivity|exact H1]].
    + intros _; exact H2.
Qed.

(* ---------------- record updates ---------------- *)
Lemma canon0_set_query u q : Canon0 u -> query_safef (scheme u) q -> Canon0 (set_query u q).
Proof. intros HC Hq. ucanon. Qed.
Lemma canon_set_query u q : Canon u -> query_safef (scheme u) q -> Canon (set_query u q).
Proof. intros [HC Hn] Hq. split; [apply canon0_set_query; assumption|exact Hn]. Qed.
Lemma canon0_set_fragment u f : Canon0 u -> fragment_safef f -> Canon0 (set_fragment u f).
Proof. intros HC Hq. ucanon. Qed.
Lemma canon_set_fragment u f : Canon u -> fragment_safef f -> Canon (set_fragment u f).
Proof. intros [HC Hn] Hq. split; [apply canon0_set_fragment; assumption|exact Hn]. Qed.

Lemma has_opaque_path_false u : has_opaque_path u = false -> exists l, path u = PList l.
Proof. unfold has_opaque_path. destruct (path u); [discriminate|eauto]. Qed.

Lemma canon0_set_path_list u l : Canon0 u -> path_safef (scheme u) (PList l) -> Canon0 (set_path u (PList l)).
Proof.
  intros HC Hq. assert (Hs : special_ok0f (scheme u) (uhost u) (PList l)).
  { destruct HC as [_ (_ & Hs & _)]. intro Hsp. destruct (Hs Hsp) as [_ Hh]. split; [eexists; reflexivity|exact Hh]. }
  ucanon.
Qed.

Lemma canon0_shorten u : Canon0 u -> Canon0 (shorten_path u).
Proof.
  intro HC. unfold shorten_path. destruct (path u) as [o|l] eqn:El; [exact HC|].
  assert (Hr : Canon0 (set_path u (PList (removelast l)))).
  { apply canon0_set_path_list; [exact HC|]. destruct HC as [(_ & _ & _ & _ & _ & _ & _ & Hp) _].
    unfold path_safe in Hp. rewrite El in Hp. apply Forall_removelast. exact Hp. }
  destruct l as [|x [|y l']]; try exact Hr.
  destruct (is_file u && is_normalized_windows_drive_letter x); [exact HC|exact Hr].
Qed.

Lemma shorten_list u : (exists l, path u = PList l) -> exists l, path (shorten_path u) = PList l.
Proof.
  intros [l El]. unfold shorten_path. rewrite El.
  destruct l as [|x [|y l']]; usimp; eauto.
  destruct (is_file u && is_normalized_windows_drive_letter x); [rewrite El|usimp]; eauto.
Qed.

Lemma shorten_scheme u : scheme (shorten_path u) = scheme u.
Proof.
  unfold shorten_path. destruct (path u) as [o|l]; [reflexivity|].
  destruct l as [|x [|y l']]; try reflexivity.
  destruct (is_file u && is_normalized_windows_drive_letter x); reflexivity.
Qed.

Lemma canon0_path_append u seg : Canon0 u -> Forall (segchar (is_special u)) seg -> Canon0 (path_append u seg).
Proof.
  intros HC Hs. unfold path_append. destruct (path u) as [o|l] eqn:El; [exact HC|].
  apply canon0_set_path_list; [exact HC|]. destruct HC as [(_ & _ & _ & _ & _ & _ & _ & Hp) _].
  unfold path_safe in Hp. rewrite El in Hp. apply Forall_app. split; [exact Hp|]. constructor; [exact Hs|constructor].
Qed.

Lemma path_append_nonempty u seg : (exists l, path u = PList l) -> exists x l, path (path_append u seg) = PList (x :: l).
Proof.
  intros [l El]. unfold path_append. rewrite El. usimp. destruct (app_cons_nonempty l seg) as (y & l' & E).
  rewrite E. eauto.
Qed.

Lemma path_append_scheme u seg : scheme (path_append u seg) = scheme u.
Proof. unfold path_append. destruct (path u); reflexivity. Qed.

Lemma canon0_blank s : scheme_okf s -> is_special_scheme s = false -> Canon0 (blank s).
Proof.
  intros [Hn Hs] Hsp. unfold blank. assert (special_ok0f s None (PList [])) by (intro H; congruence). ucanon.
Qed.

Lemma nonspecial_nonfile s : is_special_scheme s = false -> str_eqb s s_file = false.
Proof. unfold is_special_scheme. intro H. apply orb_false_elim in H. tauto. Qed.

Lemma canon_copy_opaque b : Canon b -> has_opaque_path b = true ->
  Canon (mkurl (scheme b) [] [] None None (path b) (query b) (Some [])).
Proof.
  intros HC Ho. unfold has_opaque_path in Ho. destruct (path b) as [o|l] eqn:El; [|discriminate].
  assert (Hns : is_special_scheme (scheme b) = false).
  { destruct HC as [[_ (_ & Hs & _)] _]. destruct (is_special_scheme (scheme b)) eqn:E; [|reflexivity].
    destruct (Hs E) as [[l Hl] _]. rewrite El in Hl. discriminate. }
  assert (special_ok0f (scheme b) None (POpaque o)) by (intro H; congruence).
  assert (opaque_okf (POpaque o) None) by (intros ? ?; reflexivity).
  assert (path_nonemptyf (scheme b) (POpaque o)) by (intro H'; congruence).
  uatoms. rewrite El in *. splits; auto with canon; tauto.
Qed.

Ltac fail_none := match goal with E : ov = None |- _ => let H := fresh in intro H; exfalso; exact (H E) end.

(* ---------------- NoScheme ---------------- *)
Lemma step_NoScheme u buf a br pw p : let m := mk_m NoScheme u buf a br pw p in
  (0 <= p <= len)%Z -> SInv m -> StepPost m (step idna input base ov m).
Proof.
  intros m Hp HI. subst m. unfold SInv in HI. msimp. destruct HI as (Eov & -> & ->).
  unfold step. msimp.
  destruct base as [b|] eqn:Eb; [|fail_none].
  destruct (has_opaque_path b) eqn:Eo.
  - destruct (char_at input p) as [x|] eqn:Hc; cbn [is_c]; [|fail_none].
    pose proof (char_at_some _ _ _ Hc) as (Hc0 & Hc1 & Hc2).
    destruct (x =? 35); [|fail_none].
    apply post_lt; msimp; [lia|]. unfold SInv; msimp.
    apply (canon_copy_opaque b); [apply base_ok; reflexivity|exact Eo].
  - destruct (str_eqb (scheme b) s_file) eqn:Ef; cbn [negb].
    + apply post_lt; msimp; [lia|]. unfold SInv; msimp. repeat split; auto.
    + apply post_lt; msimp; [lia|]. unfold SInv; msimp. split; [exact Eov|]. split; [reflexivity|].
      exists b. repeat split; auto.
Qed.

(* ---------------- SpecialRelativeOrAuthority, SpecialAuthoritySlashes, ...IgnoreSlashes ---------------- *)
Lemma authform_blank s : scheme_okf s -> str_eqb s s_file = false -> authform (blank s) s [] [].
Proof. intros H1 H2. repeat split; auto with canon; apply H1. Qed.

Lemma sinv_authority_entry s a br pw p : ov = None -> scheme_okf s -> str_eqb s s_file = false ->
  SInv (mk_m Authority (blank s) [] a br pw p).
Proof.
  intros Eov H1 H2. unfold SInv; msimp. split; [exact Eov|]. split; [constructor|].
  exists s, [], []. split; [apply authform_blank; assumption|]. split; [auto|exact I].
Qed.

Lemma step_SRoA u buf a br pw p : let m := mk_m SpecialRelativeOrAuthority u buf a br pw p in
  (0 <= p <= len)%Z -> SInv m -> StepPost m (step idna input base ov m).
Proof.
  intros m Hp HI. subst m. unfold SInv in HI. msimp.
  destruct HI as (Eov & -> & s & b & -> & Hs & Hsp & Hnf & Eb & Esb).
  unfold step. msimp.
  assert (Hrel : SInv (mk_m Relative (blank s) [] a br pw p)).
  { unfold SInv; msimp. split; [exact Eov|]. split; [reflexivity|]. exists b. split; [exact Eb|].
    split; [right; rewrite Esb; reflexivity|]. split; [unfold is_file; rewrite Esb; exact Hnf|].
    pose proof (base_ok b Eb) as [[_ (_ & Hso & _)] _]. rewrite Esb in Hso. destruct (Hso Hsp) as [[l Hl] _].
    unfold has_opaque_path. rewrite Hl. reflexivity. }
  destruct (char_at input p) as [x|] eqn:Hc; cbn [is_c andb].
  - pose proof (char_at_some _ _ _ Hc) as (Hc0 & Hc1 & Hc2).
    destruct ((x =? 47) && starts_with [47] (remaining input p)) eqn:E.
    + apply andb_prop in E. destruct E as [_ E]. pose proof (starts_with_remaining _ _ _ _ Hc E) as Hlt.
      apply post_lt; msimp; [lia|]. unfold SInv; msimp. split; [exact Eov|]. split; [reflexivity|].
      exists s. repeat split; auto; apply Hs.
    + apply post_lt; msimp; [lia|]. replace (p - 1 + 1)%Z with p by lia. exact Hrel.
  - apply post_lt; msimp; [lia|]. replace (p - 1 + 1)%Z with p by lia. exact Hrel.
Qed.

Lemma step_SAS u buf a br pw p : let m := mk_m SpecialAuthoritySlashes u buf a br pw p in
  (0 <= p <= len)%Z -> SInv m -> StepPost m (step idna input base ov m).
Proof.
  intros m Hp HI. subst m. unfold SInv in HI. msimp.
  destruct HI as (Eov & -> & s & -> & Hs & Hsp & Hnf).
  unfold step. msimp.
  assert (Hnext : forall q, SInv (mk_m SpecialAuthorityIgnoreSlashes (blank s) [] a br pw q)).
  { intro q. unfold SInv; msimp. split; [exact Eov|]. split; [reflexivity|]. exists s. repeat split; auto; apply Hs. }
  destruct (char_at input p) as [x|] eqn:Hc; cbn [is_c andb].
  - pose proof (char_at_some _ _ _ Hc) as (Hc0 & Hc1 & Hc2).
    destruct ((x =? 47) && starts_with [47] (remaining input p)) eqn:E.
    + apply andb_prop in E. destruct E as [_ E]. pose proof (starts_with_remaining _ _ _ _ Hc E) as Hlt.
      apply post_lt; msimp; [lia|]. apply Hnext.
    + apply post_lt; msimp; [lia|]. apply Hnext.
  - apply post_lt; msimp; [lia|]. apply Hnext.
Qed.

Lemma step_SAIS u buf a br pw p : let m := mk_m SpecialAuthorityIgnoreSlashes u buf a br pw p in
  (0 <= p <= len)%Z -> SInv m -> StepPost m (step idna input base ov m).
Proof.
  intros m Hp HI. subst m. pose proof HI as HI0. unfold SInv in HI. msimp.
  destruct HI as (Eov & -> & s & -> & Hs & Hsp & Hnf).
  unfold step. msimp.
  destruct (char_at input p) as [x|] eqn:Hc; cbn [is_c andb negb].
  - pose proof (char_at_some _ _ _ Hc) as (Hc0 & Hc1 & Hc2).
    destruct (negb (x =? 47) && negb (x =? 92)) eqn:E.
    + apply post_lt; msimp; [lia|]. apply sinv_authority_entry; assumption.
    + apply post_lt; msimp; [lia|]. unfold SInv; msimp. split; [exact Eov|]. split; [reflexivity|].
      exists s. repeat split; auto; apply Hs.
  - apply post_lt; msimp; [lia|]. apply sinv_authority_entry; assumption.
Qed.

(* ---------------- PathOrAuthority ---------------- *)
Lemma step_PathOrAuthority u buf a br pw p : let m := mk_m PathOrAuthority u buf a br pw p in
  (0 <= p <= len)%Z -> SInv m -> StepPost m (step idna input base ov m).
Proof.
  intros m Hp HI. subst m. unfold SInv in HI. msimp.
  destruct HI as (Eov & -> & s & -> & Hs & Hsp).
  unfold step. msimp.
  assert (Hpath : forall q, SInv (mk_m Path (blank s) [] a br pw q)).
  { intro q. unfold SInv; msimp. split; [apply canon0_blank; assumption|]. split; [eexists; reflexivity|constructor]. }
  destruct (char_at input p) as [x|] eqn:Hc; cbn [is_c].
  - pose proof (char_at_some _ _ _ Hc) as (Hc0 & Hc1 & Hc2).
    destruct (x =? 47).
    + apply post_lt; msimp; [lia|]. apply sinv_authority_entry; [assumption|assumption|].
      apply nonspecial_nonfile; assumption.
    + apply post_lt; msimp; [lia|]. apply Hpath.
  - apply post_lt; msimp; [lia|]. apply Hpath.
Qed.

(* ---------------- Relative, RelativeSlash ---------------- *)
Lemma step_Relative u buf a br pw p : let m := mk_m Relative u buf a br pw p in
  (0 <= p <= len)%Z -> SInv m -> StepPost m (step idna input base ov m).
Proof.
  intros m Hp HI. subst m. unfold SInv in HI. msimp.
  destruct HI as (Eov & -> & b & Eb & Hu & Hnf & Hlist).
  pose proof (base_ok b Eb) as Hb.
  unfold step. msimp. rewrite Eb.
  assert (Es : set_scheme u (scheme b) = blank (scheme b)) by (destruct Hu as [->| ->]; reflexivity).
  rewrite Es. clear Es.
  assert (Ecopy : set_query (set_path (set_port (set_host (set_password (set_username (blank (scheme b))
            (username b)) (password b)) (uhost b)) (port b)) (path b)) (query b) = set_fragment b None) by reflexivity.
  rewrite Ecopy. clear Ecopy.
  assert (Huc : Canon (set_fragment b None)) by (apply canon_set_fragment; auto with canon).
  assert (Hrs : forall q, SInv (mk_m RelativeSlash (blank (scheme b)) [] a br pw q)).
  { intro q. unfold SInv; msimp. split; [exact Eov|]. split; [reflexivity|]. exists b. auto. }
  destruct (char_at input p) as [x|] eqn:Hc; cbn [is_c is_eof is_none negb andb].
  - pose proof (char_at_some _ _ _ Hc) as (Hc0 & Hc1 & Hc2).
    destruct (x =? 47); [apply post_lt; msimp; [lia|apply Hrs]|].
    destruct (is_special (blank (scheme b)) && (x =? 92)); [apply post_lt; msimp; [lia|apply Hrs]|].
    destruct (x =? 63).
    { apply post_lt; msimp; [lia|]. unfold SInv; msimp. split; [|constructor].
      apply canon_set_query; auto with canon. }
    destruct (x =? 35).
    { apply post_lt; msimp; [lia|]. unfold SInv; msimp. apply canon_set_fragment; auto with canon. }
    apply post_lt; msimp; [lia|]. unfold SInv; msimp.
    split; [apply canon0_shorten, canon0_set_query; [apply Huc|auto with canon]|].
    split; [|constructor]. apply shorten_list. usimp. apply has_opaque_path_false, Hlist.
  - rewrite andb_false_r. apply post_eof; msimp; [apply char_at_none; [exact Hc|lia]|exact Huc].
Qed.

Lemma canon0_copy_auth b : Canon b ->
  Canon0 (mkurl (scheme b) (username b) (password b) (uhost b) (port b) (PList []) None None).
Proof.
  intros [HC _].
  change (Canon0 (set_fragment (set_query (set_path b (PList [])) None) None)).
  apply canon0_set_fragment; auto with canon. apply canon0_set_query; auto with canon.
  apply canon0_set_path_list; auto with canon.
Qed.

Lemma step_RelativeSlash u buf a br pw p : let m := mk_m RelativeSlash u buf a br pw p in
  (0 <= p <= len)%Z -> SInv m -> StepPost m (step idna input base ov m).
Proof.
  intros m Hp HI. subst m. unfold SInv in HI. msimp.
  destruct HI as (Eov & -> & b & Eb & -> & Hnf).
  pose proof (base_ok b Eb) as Hb.
  assert (Hsok : scheme_okf (scheme b)).
  { destruct Hb as [[(Hs & _) (Hn & _)] _]. split; assumption. }
  unfold step. msimp. rewrite Eb.
  assert (Hpath : forall q, SInv (mk_m Path
     (set_port (set_host (set_password (set_username (blank (scheme b)) (username b)) (password b)) (uhost b)) (port b))
     [] a br pw q)).
  { intro q. unfold SInv; msimp. split; [apply (canon0_copy_auth b Hb)|]. split; [eexists; reflexivity|constructor]. }
  unfold is_special. cbn [blank scheme].
  destruct (char_at input p) as [x|] eqn:Hc; cbn [is_c andb orb].
  - pose proof (char_at_some _ _ _ Hc) as (Hc0 & Hc1 & Hc2).
    destruct (is_special_scheme (scheme b) && ((x =? 47) || (x =? 92))) eqn:E.
    + apply andb_prop in E. destruct E as [E _].
      apply post_lt; msimp; [lia|]. unfold SInv; msimp. split; [exact Eov|]. split; [reflexivity|].
      exists (scheme b). repeat split; auto; apply Hsok.
    + destruct (x =? 47).
      * apply post_lt; msimp; [lia|]. apply sinv_authority_entry; assumption.
      * apply post_lt; msimp; [lia|]. apply Hpath.
  - rewrite andb_false_r. apply post_lt; msimp; [lia|]. apply Hpath.
Qed.

(* ---------------- Authority ---------------- *)
Lemma ui_safe_enc c : cp_ok c -> ui_safe (utf8_percent_encode_cp userinfo_encode c).
Proof. intro H. apply pe_cp_Forall; [apply enc_closed_ui|exact H|auto]. Qed.

Lemma credentials_loop_spec cps : forall u pwt u' pwt', cps_ok cps ->
  credentials_loop cps u pwt = (u', pwt') -> ui_safe (username u) -> ui_safe (password u) ->
  exists us pw, u' = set_password (set_username u us) pw /\ ui_safe us /\ ui_safe pw.
Proof.
  induction cps as [|cp rest IH]; intros u pwt u' pwt' Hc E Hu Hp.
  - cbn [credentials_loop] in E. injection E as <- <-. exists (username u), (password u).
    split; [destruct u; reflexivity|split; assumption].
  - inversion Hc as [|? ? Hcp Hrest]; subst. cbn [credentials_loop] in E.
    destruct ((cp =? 58) && negb pwt).
    + apply (IH _ _ _ _ Hrest E Hu Hp).
    + pose proof (ui_safe_enc cp Hcp) as Henc. destruct pwt.
      * assert (Hp' : ui_safe (password u ++ utf8_percent_encode_cp userinfo_encode cp))
          by (apply Forall_app; split; assumption).
        destruct (IH _ _ _ _ Hrest E Hu Hp') as (us & pw & E' & H1 & H2).
        exists us, pw. split; [rewrite E'; reflexivity|]. split; [exact H1|exact H2].
      * assert (Hu' : ui_safe (username u ++ utf8_percent_encode_cp userinfo_encode cp))
          by (apply Forall_app; split; assumption).
        destruct (IH _ _ _ _ Hrest E Hu' Hp) as (us & pw & E' & H1 & H2).
        exists us, pw. split; [rewrite E'; reflexivity|]. split; [exact H1|exact H2].
Qed.

Lemma step_Authority u buf a br pw p : let m := mk_m Authority u buf a br pw p in
  (0 <= p <= len)%Z -> SInv m -> StepPost m (step idna input base ov m).
Proof.
  intros m Hp HI. subst m. unfold SInv in HI. msimp.
  destruct HI as (Eov & Hbuf & s & us & pw0 & (-> & Hs & Hnf & Hus & Hpw) & Hat & Hhead).
  unfold step. msimp. unfold is_special. usimp.
  destruct (is_c (char_at input p) 64) eqn:E64.
  - destruct (char_at input p) as [x|] eqn:Hc; [|discriminate].
    pose proof (char_at_some _ _ _ Hc) as (Hc0 & Hc1 & Hc2).
    set (buf' := if a then [37; 52; 48] ++ buf else buf).
    assert (Hb' : cps_ok buf').
    { subst buf'. destruct a; [|exact Hbuf]. apply Forall_app. split; [|exact Hbuf].
      repeat constructor; unfold cp_ok; lia. }
    destruct (credentials_loop buf' (mkurl s us pw0 None None (PList []) None None) pw) as [u' pw'] eqn:El.
    destruct (credentials_loop_spec _ _ _ _ _ Hb' El Hus Hpw) as (us' & pw'' & -> & Hus' & Hpw').
    apply post_lt; msimp; [lia|]. unfold SInv; msimp. split; [exact Eov|]. split; [constructor|].
    exists s, us', pw''. split; [unfold authform; splits; auto|]. split; [discriminate|exact I].
  - destruct (authority_end (is_special_scheme s) (char_at input p)) eqn:Eae.
    + destruct (a && str_eqb buf []) eqn:Eab; [fail_none|].
      assert (Hlen : (Z.of_nat (length buf) <= p)%Z).
      { destruct buf as [|y r]; [cbn [length]; lia|]. destruct Hhead as [Hh _].
        apply char_at_some in Hh. lia. }
      apply post_lt; msimp; [lia|]. unfold SInv; msimp. split; [constructor|].
      split; [|intro H; exfalso; exact (H Eov)]. intros _.
      exists s, us, pw0. split; [unfold authform; splits; auto|]. intro Hic. right.
      destruct a.
      * cbn [andb] in Eab. destruct buf as [|y r]; [discriminate|]. destruct Hhead as [Hh1 Hh2].
        exists y. split; [|exact Hh2].
        replace (p - (Z.of_nat (length (y :: r)) + 1) + 1)%Z with (p - Z.of_nat (length (y :: r)))%Z by lia.
        exact Hh1.
      * destruct (Hat eq_refl) as [-> ->]. discriminate.
    + destruct (char_at input p) as [x|] eqn:Hc; [|fail_none].
      pose proof (char_at_some _ _ _ Hc) as (Hc0 & Hc1 & Hc2).
      apply post_lt; msimp; [lia|]. unfold SInv; msimp. split; [exact Eov|].
      split; [apply Forall_app; split; [exact Hbuf|constructor; [apply input_cp, Hc2|constructor]]|].
      exists s, us, pw0. split; [unfold authform; splits; auto|]. split; [exact Hat|].
      destruct buf as [|y r]; cbn [app].
      * cbn [length]. replace (p + 1 - Z.of_nat 1)%Z with p by lia. split; assumption.
      * destruct Hhead as [Hh1 Hh2]. split; [|exact Hh2].
        replace (p + 1 - Z.of_nat (length (y :: r ++ [x])))%Z with (p - Z.of_nat (length (y :: r)))%Z; [exact Hh1|].
        cbn [length]. rewrite app_length. cbn [length]. lia.
Qed.

(* ---------------- host parsing ---------------- *)
Definition host_parse_rest (buf : str) (isOpaque : bool) : option host :=
  if isOpaque then opaque_host_parse buf else
  let domain := utf8_decode (percent_decode (utf8_encode buf)) in
  match domain_to_ascii idna domain with
  | None => None
  | Some ascii =>
      if existsb forbidden_domain ascii then None
      else if ends_in_number ascii then
        match Spec.Ip.ipv4_parse ascii with Some a => Some (HIpv4 a) | None => None end
      else Some (HDomain ascii)
  end.

Lemma host_parse_nil o : host_parse idna [] o = host_parse_rest [] o.
Proof. reflexivity. Qed.

Lemma host_parse_not91 c rest o : c <> 91 -> host_parse idna (c :: rest) o = host_parse_rest (c :: rest) o.
Proof.
  intro H. unfold host_parse, host_parse_rest. destruct c as [|q]; [reflexivity|].
  repeat (destruct q as [q|q|]; try reflexivity). exfalso. apply H. reflexivity.
Qed.

Lemma host_parse_v6 rest o h : host_parse idna (91 :: rest) o = Some h ->
  exists a r, Spec.Ip.ipv6_parse r = Some a /\ h = HIpv6 a.
Proof.
  unfold host_parse. destruct (last_opt (91 :: rest)) as [n|]; [|discriminate].
  destruct (Spec.Ip.ipv6_parse (removelast rest)) as [a|] eqn:E.
  - intro H. exists a, (removelast rest). split; [exact E|].
    destruct n as [|q]; [discriminate|].
    repeat (destruct q as [q|q|]; try discriminate). injection H as <-. reflexivity.
  - intro H. exfalso. destruct n as [|q]; [discriminate|].
    repeat (destruct q as [q|q|]; try discriminate).
Qed.

Lemma host_parse_rest_ok buf o h : cps_ok buf -> host_parse_rest buf o = Some h ->
  host_okh h /\ (buf <> [] -> h <> HEmpty).
Proof.
  intros Hb. unfold host_parse_rest. destruct o.
  - unfold opaque_host_parse. destruct (existsb forbidden_host buf) eqn:Ef; [discriminate|].
    apply existsb_false_Forall in Ef.
    assert (Henc : Forall ohchar (utf8_percent_encode c0_control_encode buf)).
    { apply pe_Forall; [apply enc_closed_oh|exact Hb|].
      eapply Forall_impl; [|exact Ef]. cbv beta. intros c H1 H2. split; assumption. }
    destruct (utf8_percent_encode c0_control_encode buf) as [|y l] eqn:E.
    + intro H. injection H as <-. split; [exact I|]. intro Hne. exfalso. exact (pe_nonempty _ _ Hne E).
    + intro H. injection H as <-. split; [|discriminate]. split; [discriminate|exact Henc].
  - cbv zeta. unfold domain_to_ascii.
    destruct (idna (utf8_decode (percent_decode (utf8_encode buf)))) as [r|] eqn:Ei; [|discriminate].
    pose proof (idna_ascii_lower _ _ Ei) as Hr.
    destruct r as [|r0 r']; [discriminate|]. set (r := r0 :: r') in *.
    destruct (existsb forbidden_domain r) eqn:Ef; [discriminate|].
    apply existsb_false_Forall in Ef.
    destruct (ends_in_number r).
    + destruct (Spec.Ip.ipv4_parse r) as [a4|] eqn:E4; [|discriminate]. intro H. injection H as <-.
      split; [|discriminate]. apply spec_parse_range in E4. exact E4.
    + intro H. injection H as <-. split; [|discriminate]. split; [subst r; discriminate|].
      rewrite Forall_forall in *. intros c Hc. destruct (Hr c Hc) as [H1 H2]. unfold dchar. auto.
Qed.

Lemma host_parse_ok buf o h : cps_ok buf -> host_parse idna buf o = Some h ->
  host_okh h /\ (buf <> [] -> h <> HEmpty).
Proof.
  intros Hb H. destruct buf as [|c rest].
  - rewrite host_parse_nil in H. apply (host_parse_rest_ok _ _ _ Hb H).
  - destruct (N.eq_dec c 91) as [->|Hn].
    + destruct (host_parse_v6 _ _ _ H) as (a & r & Ha & ->). split; [|discriminate].
      apply parse_pieces in Ha. exact Ha.
    + rewrite (host_parse_not91 _ _ _ Hn) in H. apply (host_parse_rest_ok _ _ _ Hb H).
Qed.

(* ---------------- Host, Hostname ---------------- *)
Lemma canon0_set_host u h : Local u -> scheme u <> [] -> (exists l, path u = PList l) -> host_okh h ->
  (is_special u = true -> is_file u = false -> h <> HEmpty) ->
  (h = HEmpty -> username u = [] /\ password u = [] /\ port u = None) ->
  (is_file u = true -> username u = [] /\ password u = [] /\ port u = None) ->
  Canon0 (set_host u (Some h)).
Proof.
  intros HL Hn [l Hl] Hh Hsp He Hf.
  assert (Hs : special_ok0f (scheme u) (Some h) (path u)).
  { intro H. split; [eauto|]. exists h. split; [reflexivity|]. intro H'. apply Hsp; assumption. }
  assert (Hc : cred_okf (scheme u) (username u) (password u) (Some h) (port u)).
  { intros [H|[H|H]]; [discriminate|injection H as ->; auto|apply Hf; exact H]. }
  assert (Ho : opaque_okf (path u) (Some h)) by (rewrite Hl; auto with canon).
  assert (Hh' : host_okf (Some h)) by exact Hh.
  ucanon.
Qed.

Lemma local_authform u s us pw0 : authform u s us pw0 -> Local u /\ scheme u <> [] /\ is_file u = false.
Proof.
  intros (-> & [Hn Hs] & Hnf & Hus & Hpw). split; [|split; [exact Hn|exact Hnf]].
  unfold Local. ucanon.
Qed.

Lemma canon_file_creds u : Canon u -> is_file u = true -> username u = [] /\ password u = [] /\ port u = None.
Proof. intros [[_ (_ & _ & Hc & _)] _] Hf. apply Hc. right; right. exact Hf. Qed.

Lemma step_Host st u buf a br pw p : st = Host \/ st = Hostname -> let m := mk_m st u buf a br pw p in
  (0 <= p <= len)%Z -> SInv m -> StepPost m (step idna input base ov m).
Proof.
  intros Hst m Hp HI. subst m.
  assert (HI' : cps_ok buf /\
      (ov = None -> exists s us pw0, authform u s us pw0 /\
         (includes_credentials u = true ->
          buf <> [] \/ exists x, char_at input p = Some x /\
                                 authority_end (is_special_scheme s) (Some x) = false)) /\
      (ov <> None -> Canon u /\ has_opaque_path u = false)).
  { destruct Hst as [->| ->]; exact HI. }
  clear HI. destruct HI' as (Hbuf & HN & HO).
  assert (Hstep : step idna input base ov (mk_m st u buf a br pw p) =
    let c := char_at input p in
      if is_some ov && is_file u then goto_dec (mk_m st u buf a br pw p) FileHost
      else if is_c c 58 && negb br then
        if str_eqb buf [] then Fail
        else if match ov with Some Hostname => true | _ => false end then Ret u
        else
          match host_parse idna buf (negb (is_special u)) with
          | None => Fail
          | Some h => Cont (mk_m Port (set_host u (Some h)) [] a br pw p)
          end
      else if authority_end (is_special u) c then
        if is_special u && str_eqb buf [] then Fail
        else if is_some ov && str_eqb buf [] && (includes_credentials u || is_some (port u)) then Ret u
        else
          match host_parse idna buf (negb (is_special u)) with
          | None => Fail
          | Some h =>
              if is_some ov then Ret (set_host u (Some h))
              else Cont (mk_m PathStart (set_host u (Some h)) [] a br pw (p - 1)%Z)
          end
      else match c with
           | Some x =>
               let br' := if x =? 91 then true else if x =? 93 then false else br in
               Cont (mk_m st u (buf ++ [x]) a br' pw p)
           | None => Fail
           end).
  { destruct Hst as [->| ->]; reflexivity. }
  rewrite Hstep. clear Hstep. cbv zeta.
  assert (Hsinv : forall buf' br' q, cps_ok buf' -> buf' <> [] -> SInv (mk_m st u buf' a br' pw q)).
  { intros buf' br' q Hb' Hne. assert (G : cps_ok buf' /\
      (ov = None -> exists s us pw0, authform u s us pw0 /\
         (includes_credentials u = true ->
          buf' <> [] \/ exists x, char_at input q = Some x /\
                                 authority_end (is_special_scheme s) (Some x) = false)) /\
      (ov <> None -> Canon u /\ has_opaque_path u = false)).
    { split; [exact Hb'|]. split; [|exact HO]. intro E. destruct (HN E) as (s & us & pw0 & Ha & _).
      exists s, us, pw0. split; [exact Ha|]. intros _. left. exact Hne. }
    destruct Hst as [->| ->]; exact G. }
  case_ov.
  - (* no state override *)
    destruct HN as (s & us & pw0 & Ha & Hcred).
    destruct (local_authform _ _ _ _ Ha) as (HL & Hn & Hnf).
    assert (Hsp : is_special u = is_special_scheme s) by (destruct Ha as (-> & _); reflexivity).
    assert (Hpl : path u = PList []) by (destruct Ha as (-> & _); reflexivity).
    assert (Hpo : port u = None) by (destruct Ha as (-> & _); reflexivity).
    rewrite Eov.
    destruct (is_c (char_at input p) 58 && negb br) eqn:E58.
    + destruct (char_at input p) as [x|] eqn:Hc; [|discriminate].
      pose proof (char_at_some _ _ _ Hc) as (Hc0 & Hc1 & Hc2).
      destruct (str_eqb buf []) eqn:Ebuf; [fail_none|]. apply str_eqb_nil_false in Ebuf.
      destruct (host_parse idna buf (negb (is_special u))) as [h|] eqn:Eh; [|fail_none].
      destruct (host_parse_ok _ _ _ Hbuf Eh) as [Hh Hhne]. specialize (Hhne Ebuf).
      apply post_lt; msimp; [lia|]. unfold SInv; msimp.
      split; [apply canon0_set_host; eauto; intros; congruence|].
      split; [exact Hnf|]. split; [exists h; split; [reflexivity|exact Hhne]|].
      split; [constructor|]. split; [intros _; exact Hpl|intro H; exfalso; exact (H Eov)].
    + destruct (authority_end (is_special u) (char_at input p)) eqn:Eae.
      * destruct (is_special u && str_eqb buf []) eqn:Esb; [fail_none|].
        destruct (host_parse idna buf (negb (is_special u))) as [h|] eqn:Eh; [|fail_none].
        destruct (host_parse_ok _ _ _ Hbuf Eh) as [Hh Hhne].
        apply post_lt; msimp; [lia|]. unfold SInv; msimp.
        split; [|split; [exact Hpl|reflexivity]].
        apply (canon0_set_host u h HL Hn (ex_intro _ _ Hpl) Hh); [| |intro; congruence].
        -- intros Hs _. rewrite Hs in Esb. cbn [andb] in Esb. apply Hhne. apply str_eqb_nil_false. exact Esb.
        -- intros ->.
           destruct (includes_credentials u) eqn:Eic; [|apply includes_credentials_false in Eic; tauto].
           exfalso. destruct (Hcred eq_refl) as [Hne|(x & Hx1 & Hx2)].
           ++ apply Hhne; [exact Hne|reflexivity].
           ++ rewrite Hx1, Hsp, Hx2 in Eae. discriminate.
      * destruct (char_at input p) as [x|] eqn:Hc; [|fail_none].
        pose proof (char_at_some _ _ _ Hc) as (Hc0 & Hc1 & Hc2).
        apply post_lt; msimp; [lia|]. apply Hsinv.
        -- apply Forall_app. split; [exact Hbuf|constructor; [apply input_cp, Hc2|constructor]].
        -- destruct buf; discriminate.
  - (* with a state override *)
    destruct HO as [HC Hop]. pose proof HC as [[HL (Hn & Hs0 & Hcr & Hoo)] Hne].
    apply has_opaque_path_false in Hop.
    destruct (is_file u) eqn:Ef.
    + apply post_lt; msimp; [lia|]. unfold SInv; msimp. split; [exact Hbuf|].
      split; [intro H; exfalso; exact (Eov H)|]. intros _. split; [exact HC|exact Ef].
    + destruct (is_c (char_at input p) 58 && negb br) eqn:E58.
      * destruct (char_at input p) as [x|] eqn:Hc; [|discriminate].
        pose proof (char_at_some _ _ _ Hc) as (Hc0 & Hc1 & Hc2).
        destruct (str_eqb buf []) eqn:Ebuf; [intros _; exact HC|]. apply str_eqb_nil_false in Ebuf.
        destruct (match ov with Some Hostname => true | _ => false end); [exact HC|].
        destruct (host_parse idna buf (negb (is_special u))) as [h|] eqn:Eh; [|intros _; exact HC].
        destruct (host_parse_ok _ _ _ Hbuf Eh) as [Hh Hhne]. specialize (Hhne Ebuf).
        apply post_lt; msimp; [lia|]. unfold SInv; msimp.
        split; [apply canon0_set_host; eauto; intros; congruence|].
        split; [exact Ef|]. split; [exists h; split; [reflexivity|exact Hhne]|].
        split; [constructor|]. split; [intro H; exfalso; exact (Eov H)|intros _; exact Hne].
      * destruct (authority_end (is_special u) (char_at input p)) eqn:Eae.
        -- destruct (is_special u && str_eqb buf []) eqn:Esb; [intros _; exact HC|].
           destruct (str_eqb buf [] && (includes_credentials u || is_some (port u))) eqn:Eg; [exact HC|].
           destruct (host_parse idna buf (negb (is_special u))) as [h|] eqn:Eh; [|intros _; exact HC].
           destruct (host_parse_ok _ _ _ Hbuf Eh) as [Hh Hhne].
           split; [|exact Hne]. apply (canon0_set_host u h HL Hn Hop Hh); [| |apply canon_file_creds; exact HC].
           ++ intros Hs _. rewrite Hs in Esb. cbn [andb] in Esb. apply Hhne. apply str_eqb_nil_false. exact Esb.
           ++ intros ->. destruct (str_eqb buf []) eqn:Ebuf.
              ** cbn [andb] in Eg. apply orb_false_elim in Eg. destruct Eg as [Eg1 Eg2].
                 apply includes_credentials_false in Eg1. destruct (port u); [discriminate|tauto].
              ** exfalso. apply Hhne; [apply str_eqb_nil_false; exact Ebuf|reflexivity].
        -- destruct (char_at input p) as [x|] eqn:Hc; [|intros _; exact HC].
           pose proof (char_at_some _ _ _ Hc) as (Hc0 & Hc1 & Hc2).
           apply post_lt; msimp; [lia|]. apply Hsinv.
           ++ apply Forall_app. split; [exact Hbuf|constructor; [apply input_cp, Hc2|constructor]].
           ++ destruct buf; discriminate.
Qed.

(* ---------------- Port ---------------- *)
Definition port_result (u : url) (buf : str) : option url :=
  if str_eqb buf [] then Some u
  else let p := parse_port_buffer buf in
       if 65535 <? p then None
       else Some (set_port u (if optN_eqb (Some p) (default_port (scheme u)) then None else Some p)).

Lemma canon0_set_port u po : Canon0 u -> port_okf (scheme u) po -> is_file u = false ->
  (exists h, uhost u = Some h /\ h <> HEmpty) -> Canon0 (set_port u po).
Proof.
  intros HC Hpo Hnf (h & Hh & Hne).
  assert (Hc : cred_okf (scheme u) (username u) (password u) (uhost u) po).
  { intros [H|[H|H]]; [congruence|congruence|]. unfold is_file in Hnf. congruence. }
  ucanon.
Qed.

Lemma port_result_ok u buf u' : Canon0 u -> is_file u = false ->
  (exists h, uhost u = Some h /\ h <> HEmpty) -> port_result u buf = Some u' ->
  Canon0 u' /\ path u' = path u /\ scheme u' = scheme u.
Proof.
  intros HC Hnf Hh. unfold port_result. destruct (str_eqb buf []); [intro H; injection H as <-; auto|].
  cbv zeta. destruct (N.ltb_spec 65535 (parse_port_buffer buf)) as [Hlt|Hle]; [discriminate|].
  destruct (optN_eqb (Some (parse_port_buffer buf)) (default_port (scheme u))) eqn:Eo;
    intro H; injection H as <-; (split; [|split; reflexivity]); apply canon0_set_port; auto.
  - apply po_none.
  - intros q Hq. injection Hq as <-. split; [exact Hle|]. apply optN_eqb_false in Eo. congruence.
Qed.

Lemma step_Port u buf a br pw p : let m := mk_m Port u buf a br pw p in
  (0 <= p <= len)%Z -> SInv m -> StepPost m (step idna input base ov m).
Proof.
  intros m Hp HI. subst m. unfold SInv in HI. msimp.
  destruct HI as (HC & Hnf & Hh & Hdig & HN & HO).
  unfold step. msimp.
  assert (Hfin : forall r, r = port_result u buf ->
    StepPost (mk_m Port u buf a br pw p)
      match r with
      | None => Fail
      | Some u0 => if is_some ov then Ret u0
                   else Cont (mk_m PathStart u0 [] a br pw (p - 1)%Z)
      end).
  { intros r ->. destruct (port_result u buf) as [u'|] eqn:Er.
    - destruct (port_result_ok _ _ _ HC Hnf Hh Er) as (HC' & Hp' & Hs').
      case_ov.
      + apply post_lt; msimp; [lia|]. unfold SInv; msimp. split; [exact HC'|]. split; [congruence|reflexivity].
      + split; [exact HC'|]. rewrite Hp', Hs'. exact HO.
    - intro Eov. split; [exact HC|auto]. }
  destruct (char_at input p) as [x|] eqn:Hc.
  - pose proof (char_at_some _ _ _ Hc) as (Hc0 & Hc1 & Hc2).
    destruct (is_ascii_digit x) eqn:Ed.
    + apply post_lt; msimp; [lia|]. unfold SInv; msimp. splits; auto.
      apply Forall_app. split; [exact Hdig|constructor; [exact Ed|constructor]].
    + destruct (authority_end (is_special u) (Some x) || is_some ov) eqn:Eae.
      * apply Hfin. reflexivity.
      * apply orb_false_elim in Eae. destruct Eae as [_ Eis]. intro Eov. destruct ov; [discriminate|congruence].
  - apply Hfin. reflexivity.
Qed.

(* ---------------- File, FileSlash, FileHost ---------------- *)
Lemma special_ok0f_file ho pa : (exists l, pa = PList l) -> (exists h, ho = Some h) -> special_ok0f s_file ho pa.
Proof. intros Hl [h Hh] _. split; [exact Hl|]. exists h. split; [exact Hh|]. intro H. discriminate. Qed.

Lemma scheme_ok0f_file : scheme_ok0f s_file.
Proof. split; [reflexivity|]. repeat constructor. Qed.

Lemma canon0_file0 : Canon0 file0.
Proof.
  unfold file0. pose proof scheme_ok0f_file.
  assert (special_ok0f s_file (Some HEmpty) (PList [])) by (apply special_ok0f_file; eauto).
  assert (s_file <> []) by discriminate. ucanon.
Qed.

Lemma canon_file_copy b : Canon b -> scheme b = s_file ->
  Canon (mkurl s_file [] [] (uhost b) None (path b) (query b) None).
Proof.
  intros HC Es. destruct (canon_file_creds b HC) as (Hu & Hp & Hpo); [unfold is_file; rewrite Es; reflexivity|].
  destruct b as [sc us pw ho po pa qu fr]. cbn [scheme username password port] in *. subst.
  apply (canon_set_fragment _ None HC). auto with canon.
Qed.

Lemma canon0_file_host b : Canon b -> scheme b = s_file ->
  Canon0 (mkurl s_file [] [] (uhost b) None (PList []) None None).
Proof.
  intros HC Es. pose proof (canon_file_copy b HC Es) as [H _].
  apply (canon0_set_query _ None), (canon0_set_path_list _ []) in H; auto with canon.
Qed.

Lemma step_File u buf a br pw p : let m := mk_m File u buf a br pw p in
  (0 <= p <= len)%Z -> SInv m -> StepPost m (step idna input base ov m).
Proof.
  intros m Hp HI. subst m. unfold SInv in HI. msimp. destruct HI as (Eov & -> & Hu).
  unfold step. msimp.
  assert (Es : set_host (set_scheme u s_file) (Some HEmpty) = file0) by (destruct Hu as [->| ->]; reflexivity).
  rewrite Es. clear Es.
  assert (Hpath : forall q, SInv (mk_m Path file0 [] a br pw q)).
  { intro q. unfold SInv; msimp. split; [exact canon0_file0|]. split; [eexists; reflexivity|constructor]. }
  destruct (char_at input p) as [x|] eqn:Hc; cbn [is_c is_eof is_none negb orb].
  - pose proof (char_at_some _ _ _ Hc) as (Hc0 & Hc1 & Hc2).
    destruct ((x =? 47) || (x =? 92)).
    { apply post_lt; msimp; [lia|]. unfold SInv; msimp. auto. }
    destruct base as [b|] eqn:Eb; [|apply post_lt; msimp; [lia|apply Hpath]].
    destruct (str_eqb (scheme b) s_file) eqn:Ef; [|apply post_lt; msimp; [lia|apply Hpath]].
    apply str_eqb_true in Ef. pose proof (base_ok b eq_refl) as Hb.
    pose proof (canon_file_copy b Hb Ef) as Hcopy.
    change (set_query (set_path (set_host file0 (uhost b)) (path b)) (query b))
      with (mkurl s_file [] [] (uhost b) None (path b) (query b) None).
    destruct (x =? 63).
    { apply post_lt; msimp; [lia|]. unfold SInv; msimp. split; [|constructor].
      apply canon_set_query; auto with canon. }
    destruct (x =? 35).
    { apply post_lt; msimp; [lia|]. unfold SInv; msimp. apply canon_set_fragment; auto with canon. }
    apply post_lt; msimp; [lia|]. unfold SInv; msimp.
    assert (Hl : exists l, path b = PList l).
    { destruct Hb as [[_ (_ & Hs & _)] _]. rewrite Ef in Hs. destruct (Hs eq_refl) as [Hl _]. exact Hl. }
    destruct (negb (starts_with_windows_drive_letter (from_pointer input p))).
    + split; [apply canon0_shorten, canon0_set_query; [apply Hcopy|auto with canon]|].
      split; [|constructor]. apply shorten_list. exact Hl.
    + split; [apply canon0_set_path_list; [apply canon0_set_query; [apply Hcopy|auto with canon]|auto with canon]|].
      split; [eexists; reflexivity|constructor].
  - destruct base as [b|] eqn:Eb; [|apply post_lt; msimp; [lia|apply Hpath]].
    destruct (str_eqb (scheme b) s_file) eqn:Ef; [|apply post_lt; msimp; [lia|apply Hpath]].
    apply str_eqb_true in Ef. pose proof (base_ok b eq_refl) as Hb.
    apply post_eof; msimp; [apply char_at_none; [exact Hc|lia]|].
    apply (canon_file_copy b Hb Ef).
Qed.

Lemma step_FileSlash u buf a br pw p : let m := mk_m FileSlash u buf a br pw p in
  (0 <= p <= len)%Z -> SInv m -> StepPost m (step idna input base ov m).
Proof.
  intros m Hp HI. subst m. unfold SInv in HI. msimp. destruct HI as (Eov & -> & ->).
  unfold step. msimp.
  assert (Hpath : forall u' q, Canon0 u' -> (exists l, path u' = PList l) -> SInv (mk_m Path u' [] a br pw q)).
  { intros u' q H1 H2. unfold SInv; msimp. split; [exact H1|]. split; [exact H2|constructor]. }
  assert (Hfh : forall q, SInv (mk_m FileHost file0 [] a br pw q)).
  { intro q. unfold SInv; msimp. split; [constructor|]. split; [reflexivity|intro H; exfalso; exact (H Eov)]. }
  match goal with |- context [Cont (dec_pointer (with_state (with_url _ ?e) Path))] => set (u' := e) end.
  assert (Hu' : Canon0 u' /\ exists l, path u' = PList l).
  { subst u'. destruct base as [b|] eqn:Eb; [|split; [exact canon0_file0|eexists; reflexivity]].
    destruct (str_eqb (scheme b) s_file) eqn:Ef; [|split; [exact canon0_file0|eexists; reflexivity]].
    apply str_eqb_true in Ef. pose proof (base_ok b eq_refl) as Hb.
    pose proof (canon0_file_host b Hb Ef) as Hfhost.
    change (set_host file0 (uhost b)) with (mkurl s_file [] [] (uhost b) None (PList []) None None).
    destruct (negb (starts_with_windows_drive_letter (from_pointer input p))); [|split; [exact Hfhost|eexists; reflexivity]].
    destruct (path b) as [o|[|p0 l]] eqn:Epb; try (split; [exact Hfhost|eexists; reflexivity]).
    destruct (is_normalized_windows_drive_letter p0); [|split; [exact Hfhost|eexists; reflexivity]].
    split; [|unfold path_append; usimp; eexists; reflexivity].
    apply canon0_path_append; [exact Hfhost|]. unfold is_special. usimp.
    destruct Hb as [[(_ & _ & _ & _ & _ & _ & _ & Hps) _] _]. unfold path_safe in Hps. rewrite Epb, Ef in Hps.
    inversion Hps; assumption. }
  destruct Hu' as [Hu1 Hu2].
  destruct (char_at input p) as [x|] eqn:Hc; cbn [is_c orb].
  - pose proof (char_at_some _ _ _ Hc) as (Hc0 & Hc1 & Hc2).
    destruct ((x =? 47) || (x =? 92)).
    + apply post_lt; msimp; [lia|apply Hfh].
    + apply post_lt; msimp; [lia|apply Hpath; assumption].
  - apply post_lt; msimp; [lia|apply Hpath; assumption].
Qed.

Lemma wdl_segchar sp buf : is_windows_drive_letter buf = true -> Forall (segchar sp) buf.
Proof.
  destruct buf as [|x [|y [|z r]]]; try discriminate. cbn [is_windows_drive_letter]. intro H.
  apply andb_prop in H. destruct H as [H1 H2].
  assert (Hx : segchar sp x).
  { unfold segchar. split; [clear - H1; clia|]. split; [clear - H1; clia|]. intros _. clear - H1. clia. }
  assert (Hy : segchar sp y).
  { unfold segchar. split; [clear - H2; clia|]. split; [clear - H2; clia|]. intros _. clear - H2. clia. }
  constructor; [exact Hx|constructor; [exact Hy|constructor]].
Qed.

Lemma local_file0 : Local file0.
Proof. exact (proj1 canon0_file0). Qed.

Lemma step_FileHost u buf a br pw p : let m := mk_m FileHost u buf a br pw p in
  (0 <= p <= len)%Z -> SInv m -> StepPost m (step idna input base ov m).
Proof.
  intros m Hp HI. subst m. unfold SInv in HI. msimp. destruct HI as (Hbuf & HN & HO).
  unfold step. msimp.
  set (c := char_at input p).
  destruct (is_eof c || is_c c 47 || is_c c 92 || is_c c 63 || is_c c 35) eqn:Eend.
  - case_ov.
    + (* no override: u = file0 *)
      subst u.
      destruct (is_windows_drive_letter buf) eqn:Ew.
      { apply post_lt; msimp; [lia|]. unfold SInv; msimp. split; [exact canon0_file0|].
        split; [eexists; reflexivity|]. apply wdl_segchar. exact Ew. }
      destruct (str_eqb buf []) eqn:Ebuf.
      { apply str_eqb_nil_true in Ebuf. subst buf.
        apply post_lt; msimp; [lia|]. unfold SInv; msimp. split; [exact canon0_file0|]. auto. }
      destruct (host_parse idna buf (negb (is_special file0))) as [h|] eqn:Eh; [|fail_none].
      destruct (host_parse_ok _ _ _ Hbuf Eh) as [Hh _].
      apply post_lt; msimp; [lia|]. unfold SInv; msimp. split; [|auto].
      apply canon0_set_host.
      * exact local_file0.
      * discriminate.
      * eexists; reflexivity.
      * destruct (host_eq_localhost h); [exact I|exact Hh].
      * intros _ H. discriminate.
      * intros _. auto.
      * intros _. auto.
    + (* state override: u is a file URL *)
      destruct HO as [HC Hf]. pose proof HC as [[HL (Hn & Hs0 & _)] Hne].
      assert (Hl : exists l, path u = PList l).
      { apply Hs0. unfold is_special_scheme. unfold is_file in Hf. rewrite Hf. apply orb_true_r. }
      pose proof (canon_file_creds u HC Hf) as Hcreds.
      destruct (str_eqb buf []) eqn:Ebuf.
      { split; [|exact Hne]. apply canon0_set_host; auto; [exact I|intros _ H; congruence]. }
      destruct (host_parse idna buf (negb (is_special u))) as [h|] eqn:Eh; [|intros _; exact HC].
      destruct (host_parse_ok _ _ _ Hbuf Eh) as [Hh _].
      split; [|exact Hne]. apply canon0_set_host; auto; [|intros _ H; congruence].
      destruct (host_eq_localhost h); [exact I|exact Hh].
  - subst c. destruct (char_at input p) as [x|] eqn:Hc; [|discriminate].
    pose proof (char_at_some _ _ _ Hc) as (Hc0 & Hc1 & Hc2).
    apply post_lt; msimp; [lia|]. unfold SInv; msimp.
    split; [apply Forall_app; split; [exact Hbuf|constructor; [apply input_cp, Hc2|constructor]]|].
    split; assumption.
Qed.

(* ---------------- PathStart ---------------- *)
Lemma nonspecial_nonempty u : is_special u = false -> path_nonemptyf (scheme u) (path u).
Proof. unfold is_special. intros H H'. congruence. Qed.

Lemma step_PathStart u buf a br pw p : let m := mk_m PathStart u buf a br pw p in
  (0 <= p <= len)%Z -> SInv m -> StepPost m (step idna input base ov m).
Proof.
  intros m Hp HI. subst m. unfold SInv in HI. msimp. destruct HI as (HC & Hpl & ->).
  unfold step. msimp.
  assert (Hpath : forall q, SInv (mk_m Path u [] a br pw q)).
  { intro q. unfold SInv; msimp. split; [exact HC|]. split; [eauto|constructor]. }
  destruct (is_special u) eqn:Esp.
  - destruct (char_at input p) as [x|] eqn:Hc; cbn [is_c negb andb].
    + pose proof (char_at_some _ _ _ Hc) as (Hc0 & Hc1 & Hc2).
      destruct (negb (x =? 47) && negb (x =? 92)); apply post_lt; msimp; try lia; apply Hpath.
    + apply post_lt; msimp; [lia|apply Hpath].
  - pose proof (nonspecial_nonempty u Esp) as Hne.
    destruct (char_at input p) as [x|] eqn:Hc; cbn [is_c is_eof is_none negb andb].
    + pose proof (char_at_some _ _ _ Hc) as (Hc0 & Hc1 & Hc2).
      destruct (negb (is_some ov) && (x =? 63)).
      { apply post_lt; msimp; [lia|]. unfold SInv; msimp. split; [|constructor].
        apply canon_set_query; [split; assumption|auto with canon]. }
      destruct (negb (is_some ov) && (x =? 35)).
      { apply post_lt; msimp; [lia|]. unfold SInv; msimp.
        apply canon_set_fragment; [split; assumption|auto with canon]. }
      destruct (negb (x =? 47)); apply post_lt; msimp; try lia; apply Hpath.
    + rewrite !andb_false_r.
      pose proof (char_at_none p Hc ltac:(lia)) as Hend.
      destruct (is_some ov && is_none (uhost u)).
      * apply post_eof; msimp; [exact Hend|]. split.
        -- apply canon0_path_append; [exact HC|constructor].
        -- rewrite path_append_scheme. intro H. unfold is_special in Esp. congruence.
      * apply post_eof; msimp; [exact Hend|]. split; assumption.
Qed.

(* ---------------- Path ---------------- *)
Definition flush (u : url) (buffer : str) (slash : bool) : url :=
  if is_double_dot buffer then
    let u := shorten_path u in
    if negb slash then path_append u [] else u
  else if is_single_dot buffer && negb slash then path_append u []
  else if negb (is_single_dot buffer) then
    let buffer :=
      if is_file u && path_is_empty_list u && is_windows_drive_letter buffer
      then match buffer with [a; _] => [a; 58] | _ => buffer end
      else buffer in
    path_append u buffer
  else u.

Lemma segchar_58 sp : segchar sp 58.
Proof. unfold segchar. split; [reflexivity|]. split; [discriminate|intros _; discriminate]. Qed.

Lemma flush_ok u buf slash : Canon0 u -> (exists l, path u = PList l) ->
  Forall (segchar (is_special u)) buf ->
  let u' := flush u buf slash in
  Canon0 u' /\ (exists l, path u' = PList l) /\ scheme u' = scheme u /\
  (slash = false -> exists x l, path u' = PList (x :: l)).
Proof.
  intros HC Hl Hb. cbv zeta. unfold flush.
  assert (Happ : forall v seg, Canon0 v -> (exists l, path v = PList l) -> scheme v = scheme u ->
            Forall (segchar (is_special v)) seg ->
            Canon0 (path_append v seg) /\ (exists l, path (path_append v seg) = PList l) /\
            scheme (path_append v seg) = scheme u /\
            (slash = false -> exists x l, path (path_append v seg) = PList (x :: l))).
  { intros v seg H1 H2 H3 H4. split; [apply canon0_path_append; assumption|].
    destruct (path_append_nonempty v seg H2) as (x & l & E).
    split; [eauto|]. split; [rewrite path_append_scheme; exact H3|eauto]. }
  destruct (is_double_dot buf).
  - cbv zeta. destruct slash; cbn [negb].
    + split; [apply canon0_shorten, HC|]. split; [apply shorten_list, Hl|].
      split; [apply shorten_scheme|discriminate].
    + apply Happ; [apply canon0_shorten, HC|apply shorten_list, Hl|apply shorten_scheme|constructor].
  - destruct (is_single_dot buf && negb slash) eqn:E1.
    + apply Happ; [exact HC|exact Hl|reflexivity|constructor].
    + destruct (is_single_dot buf) eqn:E2; cbn [negb].
      * cbn [andb] in E1. apply negb_false_iff in E1. subst slash.
        split; [exact HC|]. split; [exact Hl|]. split; [reflexivity|discriminate].
      * cbv zeta. apply Happ; [exact HC|exact Hl|reflexivity|].
        destruct (is_file u && path_is_empty_list u && is_windows_drive_letter buf); [|exact Hb].
        destruct buf as [|x [|y [|z r]]]; try exact Hb.
        inversion Hb; subst. constructor; [assumption|]. constructor; [apply segchar_58|constructor].
Qed.

Lemma step_Path u buf a br pw p : let m := mk_m Path u buf a br pw p in
  (0 <= p <= len)%Z -> SInv m -> StepPost m (step idna input base ov m).
Proof.
  intros m Hp HI. subst m. unfold SInv in HI. msimp. destruct HI as (HC & Hl & Hb).
  unfold step. msimp.
  set (c := char_at input p).
  destruct (is_eof c || is_c c 47 || is_special u && is_c c 92 ||
            negb (is_some ov) && (is_c c 63 || is_c c 35)) eqn:Eend.
  - set (slash := is_c c 47 || is_special u && is_c c 92).
    change (if is_double_dot buf then _ else _) with (flush u buf slash).
    destruct (flush_ok u buf slash HC Hl Hb) as (HC' & Hl' & Hs' & Hne').
    set (u' := flush u buf slash) in *.
    assert (Hns : is_c c 47 = false -> is_c c 92 = false -> Canon u').
    { intros H1 H2. split; [exact HC'|]. intros _. apply Hne'. subst slash. rewrite H1, H2.
      rewrite andb_false_r. reflexivity. }
    subst c. destruct (char_at input p) as [x|] eqn:Hc; cbn [is_c] in *.
    + pose proof (char_at_some _ _ _ Hc) as (Hc0 & Hc1 & Hc2).
      destruct (N.eqb_spec x 63) as [->|N63].
      { apply post_lt; msimp; [lia|]. unfold SInv; msimp. split; [|constructor].
        apply canon_set_query; [apply Hns; reflexivity|auto with canon]. }
      destruct (N.eqb_spec x 35) as [->|N35].
      { apply post_lt; msimp; [lia|]. unfold SInv; msimp.
        apply canon_set_fragment; [apply Hns; reflexivity|auto with canon]. }
      apply post_lt; msimp; [lia|]. unfold SInv; msimp. split; [exact HC'|]. split; [exact Hl'|constructor].
    + apply post_eof; msimp; [apply char_at_none; [exact Hc|lia]|]. apply Hns; reflexivity.
  - subst c. destruct (char_at input p) as [x|] eqn:Hc; [|discriminate].
    pose proof (char_at_some _ _ _ Hc) as (Hc0 & Hc1 & Hc2).
    cbn [is_eof is_none is_c orb] in Eend.
    apply orb_false_elim in Eend. destruct Eend as [Eend _].
    apply orb_false_elim in Eend. destruct Eend as [E47 E92].
    apply post_lt; msimp; [lia|]. unfold SInv; msimp. split; [exact HC|]. split; [exact Hl|].
    apply Forall_app. split; [exact Hb|].
    apply pe_cp_Forall; [apply enc_closed_seg|apply input_cp, Hc2|].
    intro Hpe. split; [exact Hpe|]. split; [apply N.eqb_neq; exact E47|].
    intros Hsp ->. rewrite Hsp in E92. discriminate.
Qed.

(* ---------------- OpaquePath, Query, Fragment ---------------- *)
Lemma canon_opaque_nonspecial u o : Canon u -> path u = POpaque o -> is_special u = false.
Proof.
  intros [[_ (_ & Hs & _)] _] Ho. unfold is_special. destruct (is_special_scheme (scheme u)) eqn:E; [|reflexivity].
  destruct (Hs E) as [[l Hl] _]. congruence.
Qed.

Lemma canon_set_path_opaque u o o' : Canon u -> path u = POpaque o -> Forall ochar o' ->
  Canon (set_path u (POpaque o')).
Proof.
  intros HC Ho Ho'. pose proof (canon_opaque_nonspecial u o HC Ho) as Hns. unfold is_special in Hns.
  assert (Hh : uhost u = None) by (destruct HC as [[_ (_ & _ & _ & Hoo)] _]; apply (Hoo o Ho)).
  assert (special_ok0f (scheme u) (uhost u) (POpaque o')) by (intro H; congruence).
  assert (opaque_okf (POpaque o') (uhost u)) by (intros ? _; exact Hh).
  assert (path_nonemptyf (scheme u) (POpaque o')) by (intro H'; congruence).
  assert (path_safef (scheme u) (POpaque o')) by exact Ho'.
  ucanon.
Qed.

Lemma step_OpaquePath u buf a br pw p : let m := mk_m OpaquePath u buf a br pw p in
  (0 <= p <= len)%Z -> SInv m -> StepPost m (step idna input base ov m).
Proof.
  intros m Hp HI. subst m. unfold SInv in HI. msimp. destruct HI as (HC & (o & Ho) & ->).
  unfold step. msimp.
  destruct (char_at input p) as [x|] eqn:Hc; cbn [is_c].
  - pose proof (char_at_some _ _ _ Hc) as (Hc0 & Hc1 & Hc2).
    destruct (N.eqb_spec x 63) as [->|N63].
    { apply post_lt; msimp; [lia|]. unfold SInv; msimp. split; [|constructor].
      apply canon_set_query; auto with canon. }
    destruct (N.eqb_spec x 35) as [->|N35].
    { apply post_lt; msimp; [lia|]. unfold SInv; msimp. apply canon_set_fragment; auto with canon. }
    rewrite Ho. apply post_lt; msimp; [lia|]. unfold SInv; msimp. split; [|split; [eexists; reflexivity|reflexivity]].
    apply (canon_set_path_opaque u o); [exact HC|exact Ho|].
    destruct HC as [[(_ & _ & _ & _ & _ & _ & _ & Hps) _] _]. unfold path_safe in Hps. rewrite Ho in Hps.
    apply Forall_app. split; [exact Hps|].
    apply pe_cp_Forall; [apply enc_closed_o|apply input_cp, Hc2|]. intro H. repeat split; assumption.
  - apply post_eof; msimp; [apply char_at_none; [exact Hc|lia]|exact HC].
Qed.

Lemma query_flush_ok u buf : Canon u -> cps_ok buf ->
  Canon (set_query u (Some (match query u with Some q => q | None => [] end ++
     utf8_percent_encode (if is_special u then special_query_encode else query_encode) buf))).
Proof.
  intros HC Hb. apply canon_set_query; [exact HC|]. intros x Hx. injection Hx as <-.
  apply Forall_app. split.
  - destruct HC as [[(_ & _ & _ & _ & _ & Hq & _) _] _]. unfold query_safe in Hq.
    destruct (query u) as [q|]; [apply (Hq q eq_refl)|constructor].
  - unfold is_special. apply pe_Forall; [apply enc_closed_q|exact Hb|].
    apply Forall_forall. intros c _. destruct (is_special_scheme (scheme u)).
    + unfold special_query_encode. intro H. apply orb_false_elim in H. destruct H as [H1 H2].
      split; [exact H1|]. intros _. apply N.eqb_neq. exact H2.
    + intro H. split; [exact H|discriminate].
Qed.

Lemma step_Query u buf a br pw p : let m := mk_m Query u buf a br pw p in
  (0 <= p <= len)%Z -> SInv m -> StepPost m (step idna input base ov m).
Proof.
  intros m Hp HI. subst m. unfold SInv in HI. msimp. destruct HI as (HC & Hb).
  unfold step. msimp. pose proof (query_flush_ok u buf HC Hb) as Hq.
  set (c := char_at input p).
  destruct (negb (is_some ov) && is_c c 35 || is_eof c) eqn:Eend.
  - subst c. destruct (char_at input p) as [x|] eqn:Hc; cbn [is_c is_eof is_none] in *.
    + pose proof (char_at_some _ _ _ Hc) as (Hc0 & Hc1 & Hc2).
      rewrite orb_false_r in Eend. apply andb_prop in Eend. destruct Eend as [_ E35]. rewrite E35.
      apply post_lt; msimp; [lia|]. unfold SInv; msimp. apply canon_set_fragment; auto with canon.
    + apply post_eof; msimp; [apply char_at_none; [exact Hc|lia]|exact Hq].
  - subst c. destruct (char_at input p) as [x|] eqn:Hc.
    + pose proof (char_at_some _ _ _ Hc) as (Hc0 & Hc1 & Hc2).
      apply post_lt; msimp; [lia|]. unfold SInv; msimp. split; [exact HC|].
      apply Forall_app. split; [exact Hb|constructor; [apply input_cp, Hc2|constructor]].
    + cbn [is_eof is_none] in Eend. rewrite orb_true_r in Eend. discriminate.
Qed.

Lemma step_Fragment u buf a br pw p : let m := mk_m Fragment u buf a br pw p in
  (0 <= p <= len)%Z -> SInv m -> StepPost m (step idna input base ov m).
Proof.
  intros m Hp HI. subst m. unfold SInv in HI. msimp.
  unfold step. msimp.
  destruct (char_at input p) as [x|] eqn:Hc.
  - pose proof (char_at_some _ _ _ Hc) as (Hc0 & Hc1 & Hc2).
    apply post_lt; msimp; [lia|]. unfold SInv; msimp.
    apply canon_set_fragment; [exact HI|]. intros y Hy. injection Hy as <-.
    apply Forall_app. split.
    + destruct HI as [[(_ & _ & _ & _ & _ & _ & Hf & _) _] _]. unfold fragment_safe in Hf.
      destruct (fragment u) as [f|]; [apply (Hf f eq_refl)|constructor].
    + apply pe_cp_Forall; [apply enc_closed_f|apply input_cp, Hc2|auto].
  - apply post_eof; msimp; [apply char_at_none; [exact Hc|lia]|exact HI].
Qed.

(* ---------------- all states ---------------- *)
Theorem step_inv m : (0 <= m_pointer m <= len)%Z -> SInv m -> StepPost m (step idna input base ov m).
Proof.
  destruct m as [st u buf a br pw p]. cbn [m_pointer]. intros Hp HI. destruct st.
  - apply step_SchemeStart; assumption.
  - apply step_Scheme; assumption.
  - apply step_NoScheme; assumption.
  - apply step_SRoA; assumption.
  - apply step_PathOrAuthority; assumption.
  - apply step_Relative; assumption.
  - apply step_RelativeSlash; assumption.
  - apply step_SAS; assumption.
  - apply step_SAIS; assumption.
  - apply step_Authority; assumption.
  - apply step_Host; auto.
  - apply step_Host; auto.
  - apply step_Port; assumption.
  - apply step_File; assumption.
  - apply step_FileSlash; assumption.
  - apply step_FileHost; assumption.
  - apply step_PathStart; assumption.
  - apply step_Path; assumption.
  - apply step_OpaquePath; assumption.
  - apply step_Query; assumption.
  - apply step_Fragment; assumption.
Qed.

(* ---------------- run ---------------- *)
Definition RunPost (r : presult) : Prop :=
  match r with
  | POk u => Canon u
  | PFail u => ov <> None -> Canon u
  | POutOfFuel => True
  end.

Theorem run_inv fuel : forall m, (0 <= m_pointer m <= len)%Z -> SInv m ->
  RunPost (run idna fuel input base ov m).
Proof.
  induction fuel as [|f IH]; intros m Hp HI; [exact I|].
  cbn [run]. pose proof (step_inv m Hp HI) as Hs.
  destruct (step idna input base ov m) as [m'| u |]; cbn [StepPost] in Hs.
  - destruct Hs as [H1 H2]. destruct (Z.leb_spec len (m_pointer m')) as [Hle|Hlt].
    + exact (H1 Hle).
    + destruct (H2 Hlt) as [H3 H4]. apply IH; [|exact H4].
      destruct m' as [st' u' b' a' br' pw' p']. msimp. lia.
  - exact Hs.
  - exact Hs.
Qed.

End Machine.
